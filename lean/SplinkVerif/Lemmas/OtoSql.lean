import Mathlib.Data.List.Nodup
import Mathlib.Data.List.Perm.Basic
import SplinkVerif.Lemmas.Rel
import SplinkVerif.Lemmas.CCSql
import SplinkVerif.Lemmas.OneToOneConn
import SplinkVerif.Model.OtoSql
/-!
# The regenerated SQL of `one_to_one_clustering` refines the functional model

Statement by statement, the relational-algebra terms of `Generated/OtoSql.lean` (evaluated with `Rel.eval`) compute the
tables of `Model/OneToOne.lean`; the control flow of `Model/OtoSql.lean` follows `OneToOne.loop`.

* generic facts: `boolToInt`/`max`/`> 0` flags, `orJoin`, columns of appended rows, `Rel.rowNumber` (`= 1` iff no row of the
  partition comes strictly before);
* the preamble (`__splink__df_neighbours`, `__splink__df_representatives`);
* one pass: `flags`, `withFlags`, `ranked` (membership characterisations valid for ALL inputs, ties included, in terms
  of "no candidate row of the partition has a strictly larger probability"), `accepted` (= `OneToOne.accepted` for every
  pair of tie-break oracles **when the input is tie-free**), `r`, `reprNext`, the exit count;
* the loop and the final statement.
-/
namespace SplinkVerif.Lemmas.OtoSql
open SplinkVerif SplinkVerif.Rel SplinkVerif.Lemmas.Rel SplinkVerif.Gen.OtoSql
open SplinkVerif.OneToOne hiding Row
open SplinkVerif.Lemmas.CCSql (iv iv_inj ne_cast eq_cast groupMin_perm)

/-- Evaluate scalar expressions on concrete rows (`ev_simp` of `Lemmas/CCSql.lean` with extra simp lemmas). -/
macro "ev_simp" "[" ls:Lean.Parser.Tactic.simpLemma,* "]" : tactic =>
  `(tactic| simp [Expr.holds, Expr.eval, List.getD_cons_zero, List.getD_cons_succ, $ls,*])
macro "ev_simp" "[" ls:Lean.Parser.Tactic.simpLemma,* "]" "at" h:ident : tactic =>
  `(tactic| simp [Expr.holds, Expr.eval, List.getD_cons_zero, List.getD_cons_succ, $ls,*] at $h:ident)

/-! ## Values, lists -/

theorem cmp_eq_nonnull {a b : Val} (ha : a ≠ .null) (hb : b ≠ .null) : Cmp.eq.eval a b = .bool (a == b) := by
  cases a <;> cases b <;> simp_all [Cmp.eval]

@[simp] theorem cmp_gt_int (a b : Int) : Cmp.gt.eval (.int a) (.int b) = .bool (decide (b < a)) := by
  simp [Cmp.eval, Val.lt]

@[simp] theorem and3_bool (a b : Bool) : and3 (.bool a) (.bool b) = .bool (a && b) := by
  cases a <;> cases b <;> rfl

/-- `max` over a non-empty list of 0/1 integers. -/
theorem maxVals_flag (l : List Val) (hne : l ≠ []) (h01 : ∀ v ∈ l, v = .int 0 ∨ v = .int 1) :
    maxVals l = .int (if Val.int 1 ∈ l then 1 else 0) := by
  induction l with
  | nil => exact absurd rfl hne
  | cons v vs ih =>
    have hv := h01 v List.mem_cons_self
    have h01' : ∀ x ∈ vs, x = .int 0 ∨ x = .int 1 := fun x hx => h01 x (List.mem_cons_of_mem _ hx)
    rw [maxVals_cons]
    by_cases hvs : vs = []
    · subst hvs
      rcases hv with rfl | rfl <;> simp [maxVals, maxStep]
    · rw [ih hvs h01']
      by_cases h1 : Val.int 1 ∈ vs
      · rcases hv with rfl | rfl <;> simp [h1, maxStep, Val.lt]
      · rcases hv with rfl | rfl <;> simp [h1, maxStep, Val.lt]

theorem getD_append_len {α : Type} (l₁ l₂ : List α) (c i : Nat) (d : α) (h : l₁.length = c) :
    (l₁ ++ l₂).getD (c + i) d = l₂.getD i d := by
  subst h
  simp [List.getD_eq_getElem?_getD, List.getElem?_append_right]

theorem getD_append_len0 {α : Type} (l₁ l₂ : List α) (c : Nat) (d : α) (h : l₁.length = c) :
    (l₁ ++ l₂).getD c d = l₂.getD 0 d := by
  have := getD_append_len l₁ l₂ c 0 d h
  simpa using this

theorem getD_append_lt {α : Type} (l₁ l₂ : List α) (i : Nat) (d : α) (h : i < l₁.length) :
    (l₁ ++ l₂).getD i d = l₁.getD i d := by
  simp [List.getD_eq_getElem?_getD, List.getElem?_append_left h]

/-- Reading the columns `c, c+1, …` of a row back. -/
theorem map_range_getD {α β : Type} (l : List α) (d : α) (f : α → β) :
    (List.range l.length).map (fun i => f (l.getD i d)) = l.map f := by
  apply List.ext_getElem
  · simp
  · intro i h1 h2
    simp at h1
    simp [List.getD_eq_getElem?_getD, h1]

/-! ## `orJoin` -/

theorem foldl_or_eval (row : Row) : ∀ (es : List Expr) (bs : List Bool) (e : Expr) (b : Bool),
    e.eval row = .bool b → es.map (·.eval row) = bs.map Val.bool →
    (es.foldl Expr.or e).eval row = .bool (b || bs.any id)
  | [], bs, e, b, he, hes => by
    cases bs with
    | nil => simpa using he
    | cons _ _ => simp at hes
  | e' :: es, bs, e, b, he, hes => by
    cases bs with
    | nil => simp at hes
    | cons b' bs =>
      simp only [List.map_cons, List.cons.injEq] at hes
      rw [List.foldl_cons]
      have h1 : (Expr.or e e').eval row = .bool (b || b') := by
        simp only [Expr.eval, he, hes.1]
        cases b <;> cases b' <;> rfl
      rw [foldl_or_eval row es bs _ _ h1 hes.2]
      simp [Bool.or_assoc]

/-- `a₁ or a₂ or …` over boolean (non-NULL) operands. -/
theorem orJoin_eval (row : Row) (es : List Expr) (bs : List Bool)
    (h : es.map (·.eval row) = bs.map Val.bool) : (orJoin es).eval row = .bool (bs.any id) := by
  cases es with
  | nil =>
    cases bs with
    | nil => rfl
    | cons _ _ => simp at h
  | cons e es =>
    cases bs with
    | nil => simp at h
    | cons b bs =>
      simp only [List.map_cons, List.cons.injEq] at h
      simp only [orJoin]
      rw [foldl_or_eval row es bs e b h.1 h.2]
      simp

/-! ## `row_number()` -/

theorem mem_rowNumber {db : Db} {part : List Expr} {key : Expr} {desc : Bool} {r : Rel} {row : Row} :
    row ∈ (Rel.rowNumber part key desc r).eval db ↔ ∃ x ∈ r.eval db, row = x ++ [.int (1 + (((r.eval db).filter fun y =>
        part.map (·.eval y) == part.map (·.eval x) &&
          (if desc then Cmp.gt.eval (key.eval y) (key.eval x) else Cmp.lt.eval (key.eval y) (key.eval x))
            == .bool true).length : Nat))] := by
  rw [eval_rowNumber, List.mem_map]
  constructor
  · rintro ⟨x, hx, rfl⟩; exact ⟨x, hx, rfl⟩
  · rintro ⟨x, hx, rfl⟩; exact ⟨x, hx, rfl⟩

/-- The number is 1 iff no row (of the partition, strictly before) is counted. -/
theorem one_add_length_eq_one {α : Type} (l : List α) (q : α → Bool) :
    (1 + (l.filter q).length = 1) ↔ ∀ y ∈ l, q y = false := by
  constructor
  · intro h y hy
    have h0 : (l.filter q).length = 0 := by omega
    have hnil := List.eq_nil_of_length_eq_zero h0
    rw [List.filter_eq_nil_iff] at hnil
    simpa using hnil y hy
  · intro h
    have hnil : l.filter q = [] := by
      rw [List.filter_eq_nil_iff]
      intro y hy
      simp [h y hy]
    rw [hnil]; rfl

/-! ## Encodings -/

/-- `OneToOne.Row` = `(node_id, neighbour, probability)`. -/
abbrev ERow := OneToOne.Row

/-- How dataset numbers of the functional model appear in the `source_dataset` column and in the `'<sd>'` literals: any
injective map into non-NULL SQL values (e.g. `Val.str` of the dataset's name). -/
structure DsEnc where
  enc : Nat → Val
  nonnull : ∀ d, enc d ≠ .null
  inj : ∀ a b, enc a = enc b → a = b

/-- The `'<sd>'` literals of `duplicate_free_datasets`. -/
def sdsOf (E : DsEnc) (I : Inst) : List Val := I.dupFree.map E.enc

/-- The registered nodes table `(nid, sd)`. -/
def nodesTbl (E : DsEnc) (I : Inst) : List Row := OtoSql.nodeRows I.n fun v => E.enc (I.ds v)

/-- The threshold literal. -/
def thrVal (I : Inst) : Option Val := I.thr.map fun (t : Nat) => Val.int (t : Int)

/-- A row of `__splink__df_neighbours`. -/
def nrow (e : ERow) : Row := [iv e.1, iv e.2.1, iv e.2.2]

/-- `__splink__df_neighbours` holds (exactly, as a set) the rows of `OneToOne.neighbours`. -/
def NbrsTbl (I : Inst) (tbl : List Row) : Prop := ∀ row, row ∈ tbl ↔ ∃ e ∈ neighbours I, row = nrow e

/-- A row of the representatives table entering a pass: three columns in pass 1, four afterwards (`nu v` = the
`needs_updating` flag of the pass before, which no statement of the pass reads). -/
def reprRow (E : DsEnc) (I : Inst) (rep : Reps) (first : Bool) (nu : Nat → Val) (v : Nat) : Row :=
  if first then [iv v, iv (repOf rep v), E.enc (I.ds v)] else [iv v, iv (repOf rep v), E.enc (I.ds v), nu v]

/-- The representatives table holds one row per node `0..n-1` (in any order). -/
def ReprTbl (E : DsEnc) (I : Inst) (rep : Reps) (first : Bool) (nu : Nat → Val) (tbl : List Row) : Prop :=
  tbl.Perm ((List.range I.n).map (reprRow E I rep first nu))

theorem ReprTbl.mem {E : DsEnc} {I : Inst} {rep : Reps} {first : Bool} {nu : Nat → Val} {tbl : List Row}
    (h : ReprTbl E I rep first nu tbl) (row : Row) :
    row ∈ tbl ↔ ∃ v, v < I.n ∧ row = reprRow E I rep first nu v := by
  rw [h.mem_iff, List.mem_map]
  constructor
  · rintro ⟨v, hv, rfl⟩; exact ⟨v, List.mem_range.mp hv, rfl⟩
  · rintro ⟨v, hv, rfl⟩; exact ⟨v, List.mem_range.mpr hv, rfl⟩

@[simp] theorem reprRow_0 (E : DsEnc) (I : Inst) (rep : Reps) (first : Bool) (nu : Nat → Val) (v : Nat) (t : List Val) :
    (reprRow E I rep first nu v ++ t).getD 0 .null = iv v := by
  cases first <;> rfl

@[simp] theorem reprRow_1 (E : DsEnc) (I : Inst) (rep : Reps) (first : Bool) (nu : Nat → Val) (v : Nat) (t : List Val) :
    (reprRow E I rep first nu v ++ t).getD 1 .null = iv (repOf rep v) := by
  cases first <;> rfl

@[simp] theorem reprRow_2 (E : DsEnc) (I : Inst) (rep : Reps) (first : Bool) (nu : Nat → Val) (v : Nat) (t : List Val) :
    (reprRow E I rep first nu v ++ t).getD 2 .null = E.enc (I.ds v) := by
  cases first <;> rfl

@[simp] theorem reprRow_0' (E : DsEnc) (I : Inst) (rep : Reps) (first : Bool) (nu : Nat → Val) (v : Nat) :
    (reprRow E I rep first nu v).getD 0 .null = iv v := by
  cases first <;> rfl

@[simp] theorem reprRow_1' (E : DsEnc) (I : Inst) (rep : Reps) (first : Bool) (nu : Nat → Val) (v : Nat) :
    (reprRow E I rep first nu v).getD 1 .null = iv (repOf rep v) := by
  cases first <;> rfl

@[simp] theorem reprRow_2' (E : DsEnc) (I : Inst) (rep : Reps) (first : Bool) (nu : Nat → Val) (v : Nat) :
    (reprRow E I rep first nu v).getD 2 .null = E.enc (I.ds v) := by
  cases first <;> rfl

theorem reprRow_length (E : DsEnc) (I : Inst) (rep : Reps) (first : Bool) (nu : Nat → Val) (v : Nat) :
    (reprRow E I rep first nu v).length = if first then 3 else 4 := by
  cases first <;> rfl

theorem reprRow_inj (E : DsEnc) (I : Inst) (rep : Reps) (first : Bool) (nu : Nat → Val) {u v : Nat}
    (h : reprRow E I rep first nu u = reprRow E I rep first nu v) : u = v := by
  have h0 : (reprRow E I rep first nu u).getD 0 .null = (reprRow E I rep first nu v).getD 0 .null := by rw [h]
  rw [reprRow_0', reprRow_0'] at h0
  exact iv_inj.mp h0

theorem ReprTbl.nodup {E : DsEnc} {I : Inst} {rep : Reps} {first : Bool} {nu : Nat → Val} {tbl : List Row}
    (h : ReprTbl E I rep first nu tbl) : tbl.Nodup :=
  h.nodup_iff.mpr (List.Nodup.map_on (fun _ _ _ _ e => reprRow_inj E I rep first nu e) List.nodup_range)

theorem iv_ne_null (i : Nat) : iv i ≠ Val.null := by simp [iv]

/-! ## The preamble -/

theorem mem_edgeRows {edges : List ERow} {row : Row} :
    row ∈ OtoSql.edgeRows edges ↔ ∃ e ∈ edges, row = nrow e := by
  unfold OtoSql.edgeRows
  rw [List.mem_map]
  constructor
  · rintro ⟨e, he, rfl⟩; exact ⟨e, he, rfl⟩
  · rintro ⟨e, he, rfl⟩; exact ⟨e, he, rfl⟩

theorem mem_kept (I : Inst) (e : ERow) :
    e ∈ kept I ↔ e ∈ I.edges ∧ ∀ t, I.thr = some t → t ≤ e.2.2 := by
  unfold kept
  rw [List.mem_filter]
  cases I.thr with
  | none => simp
  | some t => simp

theorem mem_neighbours (I : Inst) (r : ERow) :
    r ∈ neighbours I ↔ r ∈ kept I ∨ ∃ e ∈ kept I, r = (e.2.1, e.1, e.2.2) := by
  unfold neighbours
  rw [List.mem_append, List.mem_map]
  constructor
  · rintro (h | ⟨e, he, rfl⟩)
    · exact Or.inl h
    · exact Or.inr ⟨e, he, rfl⟩
  · rintro (h | ⟨e, he, rfl⟩)
    · exact Or.inl h
    · exact Or.inr ⟨e, he, rfl⟩

/-- `__splink__df_neighbours` (with or without threshold): both orientations of the kept edges. -/
theorem dfNeighbours_mem (I : Inst) (db : Db) (hE : ∀ row, row ∈ db "edges_in" ↔ row ∈ OtoSql.edgeRows I.edges) :
    NbrsTbl I ((match thrVal I with
        | some t => dfNeighbours t
        | none => dfNeighboursNoThr).eval db) := by
  intro row
  rw [show (∃ e ∈ neighbours I, row = nrow e) ↔
      ((∃ e ∈ kept I, row = nrow e) ∨ ∃ e ∈ kept I, row = nrow (e.2.1, e.1, e.2.2)) from by
    constructor
    · rintro ⟨r, hr, rfl⟩
      rcases (mem_neighbours I r).mp hr with h | ⟨e, he, rfl⟩
      · exact Or.inl ⟨r, h, rfl⟩
      · exact Or.inr ⟨e, he, rfl⟩
    · rintro (⟨e, he, rfl⟩ | ⟨e, he, rfl⟩)
      · exact ⟨e, (mem_neighbours I e).mpr (Or.inl he), rfl⟩
      · exact ⟨_, (mem_neighbours I _).mpr (Or.inr ⟨e, he, rfl⟩), rfl⟩]
  unfold thrVal
  cases hthr : I.thr with
  | none =>
    simp only [Option.map_none, dfNeighboursNoThr, mem_union, mem_project, eval_table, hE, mem_edgeRows]
    constructor
    · rintro (⟨x, ⟨e, he, rfl⟩, rfl⟩ | ⟨x, ⟨e, he, rfl⟩, rfl⟩)
      · exact Or.inl ⟨e, (mem_kept I e).mpr ⟨he, by simp [hthr]⟩, by ev_simp [nrow]⟩
      · exact Or.inr ⟨e, (mem_kept I e).mpr ⟨he, by simp [hthr]⟩, by ev_simp [nrow]⟩
    · rintro (⟨e, he, rfl⟩ | ⟨e, he, rfl⟩)
      · exact Or.inl ⟨_, ⟨e, ((mem_kept I e).mp he).1, rfl⟩, by ev_simp [nrow]⟩
      · exact Or.inr ⟨_, ⟨e, ((mem_kept I e).mp he).1, rfl⟩, by ev_simp [nrow]⟩
  | some t =>
    simp only [Option.map_some, dfNeighbours, mem_union, mem_project, mem_filter, eval_table, hE, mem_edgeRows]
    constructor
    · rintro (⟨x, ⟨⟨e, he, rfl⟩, hh⟩, rfl⟩ | ⟨x, ⟨⟨e, he, rfl⟩, hh⟩, rfl⟩)
      · refine Or.inl ⟨e, (mem_kept I e).mpr ⟨he, ?_⟩, by ev_simp [nrow]⟩
        intro t' ht'
        rw [hthr] at ht'; cases ht'
        ev_simp [nrow] at hh
        omega
      · refine Or.inr ⟨e, (mem_kept I e).mpr ⟨he, ?_⟩, by ev_simp [nrow]⟩
        intro t' ht'
        rw [hthr] at ht'; cases ht'
        ev_simp [nrow] at hh
        omega
    · rintro (⟨e, he, rfl⟩ | ⟨e, he, rfl⟩)
      · have hk := (mem_kept I e).mp he
        refine Or.inl ⟨_, ⟨⟨e, hk.1, rfl⟩, ?_⟩, by ev_simp [nrow]⟩
        have := hk.2 t hthr
        ev_simp [nrow]
        omega
      · have hk := (mem_kept I e).mp he
        refine Or.inr ⟨_, ⟨⟨e, hk.1, rfl⟩, ?_⟩, by ev_simp [nrow]⟩
        have := hk.2 t hthr
        ev_simp [nrow]
        omega

/-- `__splink__df_representatives`: every node represents itself. -/
theorem dfRepresentatives_eval (E : DsEnc) (I : Inst) (db : Db) (hN : (db "nodes_in").Perm (nodesTbl E I))
    (nu : Nat → Val) :
    ReprTbl E I (initialReps I) true nu (dfRepresentatives.eval db) := by
  unfold dfRepresentatives ReprTbl
  rw [eval_project, eval_table]
  refine (hN.map _).trans (List.Perm.of_eq ?_)
  unfold nodesTbl OtoSql.nodeRows
  rw [List.map_map]
  apply List.map_congr_left
  intro v hv
  have hv' := List.mem_range.mp hv
  simp [reprRow, Lemmas.O2O.repOf_initial I v hv', Expr.eval, iv]

/-! ## One pass: `flags` -/

/-- The `contains_<sd>` columns of representative `g`, one per entry of `duplicate_free_datasets`. -/
def flagVals (I : Inst) (rep : Reps) (g : Nat) : List Val :=
  I.dupFree.map fun d => Val.bool (containsFlag I rep d g)

theorem flagVals_length (I : Inst) (rep : Reps) (g : Nat) : (flagVals I rep g).length = I.dupFree.length := by
  simp [flagVals]

/-- `max(cast(source_dataset = '<d>' as int))` over the group of representative `rep v`. -/
theorem containsAgg_eval (E : DsEnc) (I : Inst) (rep : Reps) (first : Bool) (nu : Nat → Val) (grp : List Row)
    (v : Nat) (hv : v < I.n)
    (hmem : ∀ y, y ∈ grp ↔ ∃ u, u < I.n ∧ repOf rep u = repOf rep v ∧ y = reprRow E I rep first nu u) (d : Nat) :
    (Agg.max (Expr.boolToInt (Expr.cmp Cmp.eq (Expr.col 2) (Expr.lit (E.enc d))))).eval grp
      = Val.int (if containsFlag I rep d (repOf rep v) then 1 else 0) := by
  simp only [Agg.eval]
  have hval : ∀ u, (Expr.boolToInt (Expr.cmp Cmp.eq (Expr.col 2) (Expr.lit (E.enc d)))).eval
      (reprRow E I rep first nu u) = Val.int (if I.ds u = d then 1 else 0) := by
    intro u
    simp only [Expr.eval, reprRow_2', cmp_eq_nonnull (E.nonnull _) (E.nonnull _)]
    by_cases h : I.ds u = d
    · simp [h]
    · have : (E.enc (I.ds u) == E.enc d) = false := by
        simpa using fun e => h (E.inj _ _ e)
      simp [h, this]
  rw [maxVals_flag]
  · congr 1
    have : (Val.int 1 ∈ List.map (Expr.boolToInt (Expr.cmp Cmp.eq (Expr.col 2) (Expr.lit (E.enc d)))).eval grp)
        ↔ containsFlag I rep d (repOf rep v) = true := by
      rw [List.mem_map, Lemmas.O2O.containsFlag_iff]
      constructor
      · rintro ⟨y, hy, h1⟩
        obtain ⟨u, hu, hrep, rfl⟩ := (hmem y).mp hy
        rw [hval u] at h1
        by_cases h : I.ds u = d
        · exact ⟨u, hu, hrep, h⟩
        · simp [h] at h1
      · rintro ⟨u, hu, hrep, hds⟩
        exact ⟨_, (hmem _).mpr ⟨u, hu, hrep, rfl⟩, by rw [hval u]; simp [hds]⟩
    by_cases hc : containsFlag I rep d (repOf rep v) = true
    · rw [if_pos (this.mpr hc), if_pos hc]
    · rw [if_neg (fun h => hc (this.mp h)), if_neg hc]
  · intro hnil
    have : reprRow E I rep first nu v ∈ grp := (hmem _).mpr ⟨v, hv, rfl, rfl⟩
    rw [List.map_eq_nil_iff] at hnil
    rw [hnil] at this
    cases this
  · intro x hx
    obtain ⟨y, hy, rfl⟩ := List.mem_map.mp hx
    obtain ⟨u, _, _, rfl⟩ := (hmem y).mp hy
    rw [hval u]
    by_cases h : I.ds u = d
    · right; simp [h]
    · left; simp [h]

/-- `… > 0 as contains_<sd>` on the grouped row `representative, max₁, …, max_k`. -/
theorem containsCols_eval (g : Val) (bs : List Bool) :
    (containsCols bs.length).map (·.eval (g :: bs.map fun b => Val.int (if b then 1 else 0)))
      = bs.map Val.bool := by
  unfold containsCols
  rw [List.map_map]
  have h := map_range_getD (bs.map fun b => Val.int (if b then 1 else 0)) Val.null
    (fun a => Cmp.gt.eval a (Val.int 0))
  simp only [List.length_map] at h
  rw [List.map_map] at h
  have h2 : List.map ((fun a => Cmp.gt.eval a (Val.int 0)) ∘ fun (b : Bool) => Val.int (if b then 1 else 0)) bs
      = bs.map Val.bool := by
    apply List.map_congr_left
    intro b _
    cases b <;> simp
  rw [← h2, ← h]
  apply List.map_congr_left
  intro i _
  simp only [Function.comp, Expr.eval]
  rw [show 1 + i = i + 1 from Nat.add_comm 1 i, List.getD_cons_succ]

/-- `__splink__representative_contains_flags_k`: one row `(g, contains_<sd>…)` per representative `g` in use. -/
theorem flags_mem (E : DsEnc) (I : Inst) (rep : Reps) (first : Bool) (nu : Nat → Val) (db : Db)
    (hR : ReprTbl E I rep first nu (db "reprPrev")) (row : Row) :
    row ∈ (flags (sdsOf E I)).eval db ↔
      ∃ v, v < I.n ∧ row = iv (repOf rep v) :: flagVals I rep (repOf rep v) := by
  unfold flags
  rw [mem_project, eval_groupBy, eval_table]
  have hgrp : ∀ v, v < I.n →
      [Expr.col 1].map (·.eval (reprRow E I rep first nu v)) ++ (containsAggs (sdsOf E I)).map
        (·.eval ((db "reprPrev").filter fun y => [Expr.col 1].map (·.eval y)
          == [Expr.col 1].map (·.eval (reprRow E I rep first nu v))))
      = iv (repOf rep v) :: (I.dupFree.map fun d => containsFlag I rep d (repOf rep v)).map
          fun b => Val.int (if b then 1 else 0) := by
    intro v hv
    simp only [List.map_cons, List.map_nil, Expr.eval, reprRow_1', List.cons_append, List.nil_append]
    congr 1
    unfold containsAggs sdsOf
    rw [List.map_map, List.map_map, List.map_map]
    apply List.map_congr_left
    intro d _
    simp only [Function.comp]
    apply containsAgg_eval E I rep first nu _ v hv
    intro y
    rw [List.mem_filter, hR.mem]
    constructor
    · rintro ⟨⟨u, hu, rfl⟩, h⟩
      simp only [reprRow_1', beq_iff_eq, List.cons.injEq, and_true] at h
      exact ⟨u, hu, iv_inj.mp h, rfl⟩
    · rintro ⟨u, hu, h, rfl⟩
      refine ⟨⟨u, hu, rfl⟩, ?_⟩
      simp only [reprRow_1', h, beq_self_eq_true]
  have hproj : ∀ v, (Expr.col 0 :: containsCols (sdsOf E I).length).map
      (·.eval (iv (repOf rep v) :: (I.dupFree.map fun d => containsFlag I rep d (repOf rep v)).map
          fun b => Val.int (if b then 1 else 0)))
      = iv (repOf rep v) :: flagVals I rep (repOf rep v) := by
    intro v
    rw [List.map_cons]
    congr 1
    have hl : (sdsOf E I).length = (I.dupFree.map fun d => containsFlag I rep d (repOf rep v)).length := by
      simp [sdsOf]
    rw [hl, containsCols_eval]
    unfold flagVals
    rw [List.map_map]
    rfl
  constructor
  · rintro ⟨x, hx, rfl⟩
    obtain ⟨y, hy, rfl⟩ := (mem_groupRows (by simp)).mp hx
    obtain ⟨v, hv, rfl⟩ := (hR.mem y).mp hy
    refine ⟨v, hv, ?_⟩
    rw [hgrp v hv, hproj v]
  · rintro ⟨v, hv, rfl⟩
    refine ⟨_, (mem_groupRows (by simp)).mpr ⟨_, (hR.mem _).mpr ⟨v, hv, rfl⟩, rfl⟩, ?_⟩
    rw [hgrp v hv, hproj v]

/-! ## One pass: `withFlags` -/

/-- A row of `__splink__df_representatives_with_flags_k`: (node_id, source_dataset, representative, contains_<sd>…). -/
def wfRow (E : DsEnc) (I : Inst) (rep : Reps) (v : Nat) : Row :=
  [iv v, E.enc (I.ds v), iv (repOf rep v)] ++ flagVals I rep (repOf rep v)

theorem wfRow_length (E : DsEnc) (I : Inst) (rep : Reps) (v : Nat) :
    (wfRow E I rep v).length = 3 + I.dupFree.length := by
  simp [wfRow, flagVals_length]; omega

/-- `cf.*`: the columns `w, w+1, …` of `ra ++ rb` are `rb`. -/
theorem starCols_eval (ra rb : Row) (w k : Nat) (hw : ra.length = w) (hk : rb.length = 1 + k) :
    ((List.range (1 + k)).map fun i => Expr.col (w + i)).map (·.eval (ra ++ rb)) = rb := by
  rw [List.map_map, ← hk]
  have h := map_range_getD rb Val.null id
  simp only [List.map_id] at h
  refine Eq.trans ?_ h
  apply List.map_congr_left
  intro i _
  simp only [Function.comp, Expr.eval, id]
  exact getD_append_len ra rb w i Val.null hw

theorem withFlags_mem (E : DsEnc) (I : Inst) (rep : Reps) (first : Bool) (nu : Nat → Val) (db : Db)
    (hR : ReprTbl E I rep first nu (db "reprPrev"))
    (hF : ∀ row, row ∈ db "flags" ↔ ∃ v, v < I.n ∧ row = iv (repOf rep v) :: flagVals I rep (repOf rep v))
    (row : Row) :
    row ∈ (withFlags (if first then 3 else 4) (sdsOf E I).length).eval db ↔
      ∃ v, v < I.n ∧ row = wfRow E I rep v := by
  unfold withFlags
  rw [mem_project, eval_join, eval_table, eval_table]
  have hk : ∀ g, (iv g :: flagVals I rep g).length = 1 + (sdsOf E I).length := by
    intro g; simp [flagVals_length, sdsOf]; omega
  have hrow : ∀ v, ([Expr.col 0, Expr.col 2] ++ (List.range (1 + (sdsOf E I).length)).map
        fun i => Expr.col ((if first then 3 else 4) + i)).map
      (·.eval (reprRow E I rep first nu v ++ iv (repOf rep v) :: flagVals I rep (repOf rep v)))
      = wfRow E I rep v := by
    intro v
    rw [List.map_append, starCols_eval _ _ _ _ (reprRow_length E I rep first nu v) (hk _)]
    simp only [List.map_cons, List.map_nil, Expr.eval, reprRow_0, reprRow_2]
    rfl
  constructor
  · rintro ⟨x, hx, rfl⟩
    obtain ⟨ra, hra, rb, hrb, hon, rfl⟩ := mem_joinRows_inner.mp hx
    obtain ⟨v, hv, rfl⟩ := (hR.mem ra).mp hra
    obtain ⟨u, hu, rfl⟩ := (hF rb).mp hrb
    simp only [Expr.holds, Expr.eval, reprRow_1,
      getD_append_len0 _ _ _ _ (reprRow_length E I rep first nu v), List.getD_cons_zero] at hon
    have huv : repOf rep v = repOf rep u := by
      simp only [iv, Lemmas.Rel.cmp_eq_int, beq_iff_eq, Val.bool.injEq, decide_eq_true_eq] at hon
      omega
    rw [← huv]
    exact ⟨v, hv, hrow v⟩
  · rintro ⟨v, hv, rfl⟩
    refine ⟨_, mem_joinRows_inner.mpr ⟨_, (hR.mem _).mpr ⟨v, hv, rfl⟩, _, (hF _).mpr ⟨v, hv, rfl⟩, ?_, rfl⟩,
      (hrow v).symm⟩
    simp only [Expr.holds, Expr.eval, reprRow_1,
      getD_append_len0 _ _ _ _ (reprRow_length E I rep first nu v), List.getD_cons_zero]
    simp [iv]

/-! ## One pass: `ranked` -/

/-- A row of the two joins of `__splink__df_ranked_k`: `neighbours` (3 columns) ++ `l` ++ `r` (3 + k columns each). -/
def jrow (E : DsEnc) (I : Inst) (rep : Reps) (e : ERow) : Row :=
  [iv e.1, iv e.2.1, iv e.2.2, iv e.1, E.enc (I.ds e.1), iv (repOf rep e.1)] ++
    (flagVals I rep (repOf rep e.1) ++
      ([iv e.2.1, E.enc (I.ds e.2.1), iv (repOf rep e.2.1)] ++ flagVals I rep (repOf rep e.2.1)))

theorem jrow_eq (E : DsEnc) (I : Inst) (rep : Reps) (e : ERow) :
    (nrow e ++ wfRow E I rep e.1) ++ wfRow E I rep e.2.1 = jrow E I rep e := by
  simp [nrow, wfRow, jrow]

theorem jrow_length (E : DsEnc) (I : Inst) (rep : Reps) (e : ERow) :
    (jrow E I rep e).length = 9 + 2 * I.dupFree.length := by
  simp [jrow, flagVals_length]; omega

theorem jrow_0 (E : DsEnc) (I : Inst) (rep : Reps) (e : ERow) (t : List Val) :
    (jrow E I rep e ++ t).getD 0 .null = iv e.1 := rfl
theorem jrow_1 (E : DsEnc) (I : Inst) (rep : Reps) (e : ERow) (t : List Val) :
    (jrow E I rep e ++ t).getD 1 .null = iv e.2.1 := rfl
theorem jrow_2 (E : DsEnc) (I : Inst) (rep : Reps) (e : ERow) (t : List Val) :
    (jrow E I rep e ++ t).getD 2 .null = iv e.2.2 := rfl
theorem jrow_5 (E : DsEnc) (I : Inst) (rep : Reps) (e : ERow) (t : List Val) :
    (jrow E I rep e ++ t).getD 5 .null = iv (repOf rep e.1) := rfl

/-- `l.contains_<sd_i>` -/
theorem jrow_flagL (E : DsEnc) (I : Inst) (rep : Reps) (e : ERow) (i : Nat) (hi : i < I.dupFree.length) :
    (jrow E I rep e).getD (6 + i) .null = (flagVals I rep (repOf rep e.1)).getD i .null := by
  unfold jrow
  rw [getD_append_len _ _ 6 i _ rfl, getD_append_lt _ _ _ _ (by rw [flagVals_length]; exact hi)]

/-- `r.representative` -/
theorem jrow_repR (E : DsEnc) (I : Inst) (rep : Reps) (e : ERow) (t : List Val) :
    (jrow E I rep e ++ t).getD (8 + I.dupFree.length) .null = iv (repOf rep e.2.1) := by
  unfold jrow
  rw [List.append_assoc, show 8 + I.dupFree.length = 6 + (I.dupFree.length + 2) by omega,
    getD_append_len _ _ 6 _ _ rfl, List.append_assoc, getD_append_len _ _ _ 2 _ (flagVals_length I rep _)]
  rfl

/-- `r.contains_<sd_i>` -/
theorem jrow_flagR (E : DsEnc) (I : Inst) (rep : Reps) (e : ERow) (i : Nat) :
    (jrow E I rep e).getD (9 + I.dupFree.length + i) .null = (flagVals I rep (repOf rep e.2.1)).getD i .null := by
  unfold jrow
  rw [show 9 + I.dupFree.length + i = 6 + (I.dupFree.length + (3 + i)) by omega,
    getD_append_len _ _ 6 _ _ rfl, getD_append_len _ _ _ _ _ (flagVals_length I rep _),
    getD_append_len _ _ 3 i _ rfl]

/-- The candidate test of the functional model on a row without its position. -/
def candE (I : Inst) (rep : Reps) (e : ERow) : Bool := isCand I rep (e, 0)

theorem isCand_eq_candE (I : Inst) (rep : Reps) (x : IRow) : isCand I rep x = candE I rep x.1 := rfl

theorem candE_iff (I : Inst) (rep : Reps) (e : ERow) :
    candE I rep e = true ↔ e.1 < I.n ∧ e.2.1 < I.n ∧ repOf rep e.1 ≠ repOf rep e.2.1 ∧
      conflict I rep (repOf rep e.1) (repOf rep e.2.1) = false :=
  Lemmas.O2O.isCand_iff I rep (e, 0)

theorem map_range_getD2 {α : Type} (l : List α) (f g : α → Val) (comb : Val → Val → Val) :
    (List.range l.length).map (fun i => comb ((l.map f).getD i .null) ((l.map g).getD i .null))
      = l.map fun a => comb (f a) (g a) := by
  apply List.ext_getElem
  · simp
  · intro i h1 h2
    simp at h1
    simp [List.getD_eq_getElem?_getD, h1]

/-- `duplicate_criteria` on a joined row is the model's `conflict` of the two representatives. -/
theorem dupCriteria_eval (E : DsEnc) (I : Inst) (rep : Reps) (e : ERow) :
    (dupCriteria (sdsOf E I).length).eval (jrow E I rep e)
      = .bool (conflict I rep (repOf rep e.1) (repOf rep e.2.1)) := by
  unfold dupCriteria
  have hl : (sdsOf E I).length = I.dupFree.length := by simp [sdsOf]
  rw [hl]
  rw [orJoin_eval (jrow E I rep e) _ (I.dupFree.map fun d =>
    containsFlag I rep d (repOf rep e.1) && containsFlag I rep d (repOf rep e.2.1))]
  · congr 1
    unfold conflict
    rw [List.any_map]
    rfl
  · rw [List.map_map, List.map_map]
    have h := map_range_getD2 I.dupFree (fun d => Val.bool (containsFlag I rep d (repOf rep e.1)))
      (fun d => Val.bool (containsFlag I rep d (repOf rep e.2.1))) and3
    refine Eq.trans ?_ (Eq.trans h ?_)
    · apply List.map_congr_left
      intro i hi
      have hi' := List.mem_range.mp hi
      simp only [Function.comp, Expr.eval]
      rw [jrow_flagL E I rep e i hi', jrow_flagR E I rep e i]
      rfl
    · apply List.map_congr_left
      intro d _
      simp only [Function.comp]
      cases containsFlag I rep d (repOf rep e.1) <;> cases containsFlag I rep d (repOf rep e.2.1) <;> rfl

/-- The `where` clause of `__splink__df_ranked_k` on a joined row of two nodes is the model's candidate test. -/
theorem rankedWhere_holds (E : DsEnc) (I : Inst) (rep : Reps) (e : ERow) (h1 : e.1 < I.n) (h2 : e.2.1 < I.n) :
    (Expr.and (Expr.cmp Cmp.ne (Expr.col 5) (Expr.col (8 + (sdsOf E I).length)))
      (Expr.not (dupCriteria (sdsOf E I).length))).holds (jrow E I rep e) = candE I rep e := by
  have hl : (sdsOf E I).length = I.dupFree.length := by simp [sdsOf]
  have h5 := jrow_5 E I rep e []
  have h8 := jrow_repR E I rep e []
  rw [List.append_nil] at h5 h8
  simp only [Expr.holds, Expr.eval, dupCriteria_eval]
  rw [hl, h5, h8]
  rw [Bool.eq_iff_iff, candE_iff]
  simp only [iv, Lemmas.Rel.cmp_ne_int]
  by_cases hne : repOf rep e.1 = repOf rep e.2.1
  · simp [hne, and3]
  · have : ((repOf rep e.1 : Int) ≠ (repOf rep e.2.1 : Int)) := by omega
    cases hc : conflict I rep (repOf rep e.1) (repOf rep e.2.1) <;> simp [this, hne, h1, h2, and3, not3]

/-- `… as l on neighbours.node_id = l.node_id … as r on neighbours.neighbour = r.node_id`: the rows of
`__splink__df_neighbours` whose two endpoints are nodes, with the flags of both representatives. -/
theorem rankedJoins_mem (E : DsEnc) (I : Inst) (rep : Reps) (db : Db) (hN : NbrsTbl I (db "nbrs"))
    (hW : ∀ row, row ∈ db "withFlags" ↔ ∃ v, v < I.n ∧ row = wfRow E I rep v) (k : Nat)
    (hk : k = I.dupFree.length) (row : Row) :
    row ∈ (Rel.join false (Expr.cmp Cmp.eq (Expr.col 1) (Expr.col (6 + k)))
        (Rel.join false (Expr.cmp Cmp.eq (Expr.col 0) (Expr.col 3)) (Rel.table "nbrs") (Rel.table "withFlags") (3 + k))
        (Rel.table "withFlags") (3 + k)).eval db ↔
      ∃ e ∈ neighbours I, e.1 < I.n ∧ e.2.1 < I.n ∧ row = jrow E I rep e := by
  subst hk
  rw [eval_join, eval_join, eval_table, eval_table, mem_joinRows_inner]
  have hlen : ∀ e v, (nrow e ++ wfRow E I rep v).length = 6 + I.dupFree.length := by
    intro e v
    rw [List.length_append, wfRow_length]
    simp [nrow]; omega
  constructor
  · rintro ⟨x, hx, rb, hrb, hon2, rfl⟩
    obtain ⟨ra, hra, rm, hrm, hon1, rfl⟩ := mem_joinRows_inner.mp hx
    obtain ⟨e, he, rfl⟩ := (hN ra).mp hra
    obtain ⟨v1, hv1, rfl⟩ := (hW rm).mp hrm
    obtain ⟨v2, hv2, rfl⟩ := (hW rb).mp hrb
    have e1 : e.1 = v1 := by
      simp [Expr.holds, Expr.eval, nrow, wfRow, iv] at hon1
      omega
    subst e1
    have e2 : e.2.1 = v2 := by
      simp only [Expr.holds, Expr.eval, getD_append_len0 _ _ _ _ (hlen e e.1)] at hon2
      simp [nrow, wfRow, iv] at hon2
      omega
    subst e2
    exact ⟨e, he, hv1, hv2, jrow_eq E I rep e⟩
  · rintro ⟨e, he, h1, h2, rfl⟩
    refine ⟨nrow e ++ wfRow E I rep e.1, ?_, wfRow E I rep e.2.1, (hW _).mpr ⟨_, h2, rfl⟩, ?_,
      (jrow_eq E I rep e).symm⟩
    · refine mem_joinRows_inner.mpr ⟨nrow e, (hN _).mpr ⟨e, he, rfl⟩, wfRow E I rep e.1,
        (hW _).mpr ⟨_, h1, rfl⟩, ?_, rfl⟩
      simp [Expr.holds, Expr.eval, nrow, wfRow, iv]
    · simp only [Expr.holds, Expr.eval, getD_append_len0 _ _ _ _ (hlen e e.1)]
      simp [nrow, wfRow, iv]

/-- No candidate row of the same `l.representative` partition has a strictly larger probability. -/
def bestL (I : Inst) (rep : Reps) (e : ERow) : Prop :=
  ∀ e' ∈ neighbours I, candE I rep e' = true → repOf rep e'.1 = repOf rep e.1 → ¬ e.2.2 < e'.2.2

/-- No candidate row of the same `r.representative` partition has a strictly larger probability. -/
def bestR (I : Inst) (rep : Reps) (e : ERow) : Prop :=
  ∀ e' ∈ neighbours I, candE I rep e' = true → repOf rep e'.2.1 = repOf rep e.2.1 → ¬ e.2.2 < e'.2.2

/-- `__splink__df_ranked_k`: one row per candidate row, with `rank_l = 1 + cl`, `rank_r = 1 + cr` where `cl = 0` iff no
candidate row of the same `l.representative` has a strictly larger probability (`cr`: same for `r.representative`).
Valid for ALL inputs (with ties, every row of maximal probability of a partition has `cl = 0`: `Rel.rowNumber`). -/
theorem ranked_mem (E : DsEnc) (I : Inst) (rep : Reps) (db : Db) (hN : NbrsTbl I (db "nbrs"))
    (hW : ∀ row, row ∈ db "withFlags" ↔ ∃ v, v < I.n ∧ row = wfRow E I rep v) :
    ∃ cl cr : ERow → Nat,
      (∀ e ∈ neighbours I, candE I rep e = true → ((cl e = 0 ↔ bestL I rep e) ∧ (cr e = 0 ↔ bestR I rep e))) ∧
      ∀ row, row ∈ (ranked (sdsOf E I).length).eval db ↔
        ∃ e ∈ neighbours I, candE I rep e = true ∧
          row = [iv e.1, iv e.2.1, Val.int ((1 + cl e : Nat) : Int), Val.int ((1 + cr e : Nat) : Int)] := by
  have hl : (sdsOf E I).length = I.dupFree.length := by simp [sdsOf]
  -- the filtered joins
  let Frel : Rel := Rel.filter (Expr.and (Expr.cmp Cmp.ne (Expr.col 5) (Expr.col (8 + (sdsOf E I).length)))
      (Expr.not (dupCriteria (sdsOf E I).length)))
    (Rel.join false (Expr.cmp Cmp.eq (Expr.col 1) (Expr.col (6 + (sdsOf E I).length)))
      (Rel.join false (Expr.cmp Cmp.eq (Expr.col 0) (Expr.col 3)) (Rel.table "nbrs") (Rel.table "withFlags")
        (3 + (sdsOf E I).length)) (Rel.table "withFlags") (3 + (sdsOf E I).length))
  have hF : ∀ row, row ∈ Frel.eval db ↔ ∃ e ∈ neighbours I, candE I rep e = true ∧ row = jrow E I rep e := by
    intro row
    simp only [Frel]
    rw [mem_filter, rankedJoins_mem E I rep db hN hW _ hl]
    constructor
    · rintro ⟨⟨e, he, h1, h2, rfl⟩, hh⟩
      rw [rankedWhere_holds E I rep e h1 h2] at hh
      exact ⟨e, he, hh, rfl⟩
    · rintro ⟨e, he, hc, rfl⟩
      have hc' := (candE_iff I rep e).mp hc
      exact ⟨⟨e, he, hc'.1, hc'.2.1, rfl⟩, by rw [rankedWhere_holds E I rep e hc'.1 hc'.2.1]; exact hc⟩
  -- the two windows
  let qL : Row → Row → Bool := fun x y => [Expr.col 5].map (·.eval y) == [Expr.col 5].map (·.eval x) &&
    (if true then Cmp.gt.eval ((Expr.col 2).eval y) ((Expr.col 2).eval x)
      else Cmp.lt.eval ((Expr.col 2).eval y) ((Expr.col 2).eval x)) == .bool true
  let qR : Row → Row → Bool := fun x y =>
    [Expr.col (8 + (sdsOf E I).length)].map (·.eval y) == [Expr.col (8 + (sdsOf E I).length)].map (·.eval x) &&
    (if true then Cmp.gt.eval ((Expr.col 2).eval y) ((Expr.col 2).eval x)
      else Cmp.lt.eval ((Expr.col 2).eval y) ((Expr.col 2).eval x)) == .bool true
  let c1 : Row → Nat := fun x => ((Frel.eval db).filter (qL x)).length
  let g1 : Row → Row := fun x => x ++ [Val.int ((1 + c1 x : Nat) : Int)]
  let W1 : Rel := Rel.rowNumber [Expr.col 5] (Expr.col 2) true Frel
  have hW1 : W1.eval db = (Frel.eval db).map g1 := rfl
  let c2 : Row → Nat := fun x' => ((W1.eval db).filter (qR x')).length
  let g2 : Row → Row := fun x' => x' ++ [Val.int ((1 + c2 x' : Nat) : Int)]
  let W2 : Rel := Rel.rowNumber [Expr.col (8 + (sdsOf E I).length)] (Expr.col 2) true W1
  have hW2 : W2.eval db = (W1.eval db).map g2 := rfl
  have hranked : (ranked (sdsOf E I).length).eval db = (W2.eval db).map fun row =>
      [Expr.col 0, Expr.col 1, Expr.col (9 + 2 * (sdsOf E I).length),
        Expr.col (10 + 2 * (sdsOf E I).length)].map (·.eval row) := rfl
  -- columns of the extended rows
  have hq : ∀ e e', qL (jrow E I rep e) (jrow E I rep e')
      = (decide (repOf rep e'.1 = repOf rep e.1) && decide (e.2.2 < e'.2.2)) := by
    intro e e'
    have a5 := jrow_5 E I rep e []
    have b5 := jrow_5 E I rep e' []
    have a2 := jrow_2 E I rep e []
    have b2 := jrow_2 E I rep e' []
    rw [List.append_nil] at a5 b5 a2 b2
    simp only [qL, List.map_cons, List.map_nil, Expr.eval, a5, b5, a2, b2, if_true]
    simp only [iv, cmp_gt_int]
    by_cases h1 : repOf rep e'.1 = repOf rep e.1 <;> by_cases h2 : e.2.2 < e'.2.2 <;> (simp [h1, h2]; try omega)
  have hqR : ∀ e e' t t', qR (jrow E I rep e ++ t) (jrow E I rep e' ++ t')
      = (decide (repOf rep e'.2.1 = repOf rep e.2.1) && decide (e.2.2 < e'.2.2)) := by
    intro e e' t t'
    simp only [qR, List.map_cons, List.map_nil, Expr.eval, hl, jrow_repR, jrow_2, if_true]
    simp only [iv, cmp_gt_int]
    by_cases h1 : repOf rep e'.2.1 = repOf rep e.2.1 <;> by_cases h2 : e.2.2 < e'.2.2 <;> (simp [h1, h2]; try omega)
  refine ⟨fun e => c1 (jrow E I rep e), fun e => c2 (g1 (jrow E I rep e)), ?_, ?_⟩
  · intro e he hc
    constructor
    · -- rank_l
      have h0 : c1 (jrow E I rep e) = 0 ↔ ∀ y ∈ Frel.eval db, qL (jrow E I rep e) y = false := by
        rw [← one_add_length_eq_one (Frel.eval db) (qL (jrow E I rep e))]
        show ((Frel.eval db).filter (qL (jrow E I rep e))).length = 0 ↔ _
        omega
      rw [h0]
      constructor
      · intro h e' he' hc' hrep hlt
        have := h _ ((hF _).mpr ⟨e', he', hc', rfl⟩)
        rw [hq] at this
        simp [hrep, hlt] at this
      · intro h y hy
        obtain ⟨e', he', hc', rfl⟩ := (hF y).mp hy
        rw [hq]
        by_cases hrep : repOf rep e'.1 = repOf rep e.1
        · have := h e' he' hc' hrep
          simp [this]
        · simp [hrep]
    · -- rank_r
      have h0 : c2 (g1 (jrow E I rep e)) = 0 ↔ ∀ y ∈ W1.eval db, qR (g1 (jrow E I rep e)) y = false := by
        rw [← one_add_length_eq_one (W1.eval db) (qR (g1 (jrow E I rep e)))]
        show ((W1.eval db).filter (qR (g1 (jrow E I rep e)))).length = 0 ↔ _
        omega
      rw [h0, hW1]
      constructor
      · intro h e' he' hc' hrep hlt
        have := h _ (List.mem_map.mpr ⟨_, (hF _).mpr ⟨e', he', hc', rfl⟩, rfl⟩)
        simp only [g1] at this
        rw [hqR] at this
        simp [hrep, hlt] at this
      · intro h y hy
        obtain ⟨x, hx, rfl⟩ := List.mem_map.mp hy
        obtain ⟨e', he', hc', rfl⟩ := (hF x).mp hx
        simp only [g1]
        rw [hqR]
        by_cases hrep : repOf rep e'.2.1 = repOf rep e.2.1
        · have := h e' he' hc' hrep
          simp [this]
        · simp [hrep]
  · intro row
    rw [hranked, hW2, hW1, List.map_map, List.map_map, List.mem_map]
    have hproj : ∀ e, ([Expr.col 0, Expr.col 1, Expr.col (9 + 2 * (sdsOf E I).length),
        Expr.col (10 + 2 * (sdsOf E I).length)].map (·.eval (g2 (g1 (jrow E I rep e)))))
        = [iv e.1, iv e.2.1, Val.int ((1 + c1 (jrow E I rep e) : Nat) : Int),
            Val.int ((1 + c2 (g1 (jrow E I rep e)) : Nat) : Int)] := by
      intro e
      have hlen1 : (jrow E I rep e).length = 9 + 2 * (sdsOf E I).length := by rw [jrow_length, hl]
      have hlen2 : (g1 (jrow E I rep e)).length = 10 + 2 * (sdsOf E I).length := by
        simp only [g1, List.length_append, hlen1, List.length_cons, List.length_nil]; omega
      simp only [List.map_cons, List.map_nil, Expr.eval]
      have e0 : (g2 (g1 (jrow E I rep e))).getD 0 Val.null = iv e.1 := by
        simp only [g2, g1, List.append_assoc]; exact jrow_0 E I rep e _
      have e1 : (g2 (g1 (jrow E I rep e))).getD 1 Val.null = iv e.2.1 := by
        simp only [g2, g1, List.append_assoc]; exact jrow_1 E I rep e _
      have e2 : (g2 (g1 (jrow E I rep e))).getD (9 + 2 * (sdsOf E I).length) Val.null
          = Val.int ((1 + c1 (jrow E I rep e) : Nat) : Int) := by
        simp only [g2, g1, List.append_assoc]
        rw [getD_append_len0 _ _ _ _ hlen1]
        rfl
      have e3 : (g2 (g1 (jrow E I rep e))).getD (10 + 2 * (sdsOf E I).length) Val.null
          = Val.int ((1 + c2 (g1 (jrow E I rep e)) : Nat) : Int) := by
        simp only [g2]
        rw [getD_append_len0 _ _ _ _ hlen2]
        rfl
      rw [e0, e1, e2, e3]
    constructor
    · rintro ⟨x, hx, rfl⟩
      obtain ⟨e, he, hc, rfl⟩ := (hF x).mp hx
      exact ⟨e, he, hc, hproj e⟩
    · rintro ⟨e, he, hc, rfl⟩
      exact ⟨_, (hF _).mpr ⟨e, he, hc, rfl⟩, hproj e⟩

/-! ## One pass: `accepted` -/

/-- `__splink__df_neighbours_k` (`where rank_l = 1 and rank_r = 1`). -/
theorem accepted_mem_raw (I : Inst) (rep : Reps) (db : Db) (cl cr : ERow → Nat)
    (hR : ∀ row, row ∈ db "ranked" ↔ ∃ e ∈ neighbours I, candE I rep e = true ∧
      row = [iv e.1, iv e.2.1, Val.int ((1 + cl e : Nat) : Int), Val.int ((1 + cr e : Nat) : Int)]) (row : Row) :
    row ∈ Gen.OtoSql.accepted.eval db ↔
      ∃ e ∈ neighbours I, candE I rep e = true ∧ cl e = 0 ∧ cr e = 0 ∧ row = [iv e.1, iv e.2.1] := by
  unfold Gen.OtoSql.accepted
  rw [mem_project]
  simp only [mem_filter, eval_table, hR]
  constructor
  · rintro ⟨x, ⟨⟨e, he, hc, rfl⟩, hh⟩, rfl⟩
    simp only [Expr.holds, Expr.eval, List.getD_cons_zero, List.getD_cons_succ, Lemmas.Rel.cmp_eq_int, and3_bool,
      beq_iff_eq, Val.bool.injEq, Bool.and_eq_true, decide_eq_true_eq] at hh
    exact ⟨e, he, hc, by omega, by omega, by simp [Expr.eval]⟩
  · rintro ⟨e, he, hc, h1, h2, rfl⟩
    refine ⟨_, ⟨⟨e, he, hc, rfl⟩, ?_⟩, by simp [Expr.eval]⟩
    simp only [Expr.holds, Expr.eval, List.getD_cons_zero, List.getD_cons_succ, Lemmas.Rel.cmp_eq_int, and3_bool,
      beq_iff_eq, Val.bool.injEq, Bool.and_eq_true, decide_eq_true_eq]
    omega

/-- With pairwise distinct probabilities, `row_number() … = 1` of the functional model (under ANY tie-break oracle) is
"no candidate row of the partition has a strictly larger probability". -/
theorem rank1_node_iff (I : Inst) (rep : Reps) (htf : TieFree I) (prio : Nat → Nat) (x : IRow)
    (hx : x ∈ cands I rep) :
    rank1 rep node prio (cands I rep) x = true ↔ bestL I rep x.1 := by
  have hxr := ((Lemmas.O2O.mem_cands I rep x).mp hx).1
  constructor
  · intro h e' he' hc' hrep hlt
    obtain ⟨j, hj⟩ := Lemmas.O2O.exists_mem_indexFrom (neighbours I) 0 e' he'
    have hy : (e', j) ∈ cands I rep := (Lemmas.O2O.mem_cands I rep _).mpr ⟨hj, hc'⟩
    have := Lemmas.O2O.rank1_le (y := (e', j)) h hy hrep
    simp only [prob] at this
    omega
  · intro h
    unfold rank1
    rw [List.all_eq_true]
    intro y hy
    simp only [Bool.or_eq_true, bne_iff_ne, ne_eq, beq_iff_eq]
    by_cases hrep : repOf rep (node y) = repOf rep (node x)
    · by_cases hyx : y = x
      · exact Or.inl (Or.inr hyx)
      · right
        obtain ⟨hyr, hyc⟩ := (Lemmas.O2O.mem_cands I rep y).mp hy
        have hle : ¬ prob x < prob y :=
          h y.1 (Lemmas.O2O.mem_indexFrom_fst _ _ _ hyr) (by rw [← isCand_eq_candE]; exact hyc) hrep
        have hne : prob y ≠ prob x := by
          intro heq
          rcases htf y hyr x hxr heq with h1 | ⟨h1, h2⟩
          · exact hyx h1
          · have hyc' := (Lemmas.O2O.isCand_iff I rep y).mp hyc
            have hxc' := (Lemmas.O2O.isCand_iff I rep x).mp ((Lemmas.O2O.mem_cands I rep x).mp hx).2
            apply hxc'.2.2.1
            rw [← hrep, h1]
        simp only [gt, Bool.or_eq_true, decide_eq_true_eq]
        left; omega
    · exact Or.inl (Or.inl hrep)

theorem rank1_nbr_iff (I : Inst) (rep : Reps) (htf : TieFree I) (prio : Nat → Nat) (x : IRow)
    (hx : x ∈ cands I rep) :
    rank1 rep nbr prio (cands I rep) x = true ↔ bestR I rep x.1 := by
  have hxr := ((Lemmas.O2O.mem_cands I rep x).mp hx).1
  constructor
  · intro h e' he' hc' hrep hlt
    obtain ⟨j, hj⟩ := Lemmas.O2O.exists_mem_indexFrom (neighbours I) 0 e' he'
    have hy : (e', j) ∈ cands I rep := (Lemmas.O2O.mem_cands I rep _).mpr ⟨hj, hc'⟩
    have := Lemmas.O2O.rank1_le (y := (e', j)) h hy hrep
    simp only [prob] at this
    omega
  · intro h
    unfold rank1
    rw [List.all_eq_true]
    intro y hy
    simp only [Bool.or_eq_true, bne_iff_ne, ne_eq, beq_iff_eq]
    by_cases hrep : repOf rep (nbr y) = repOf rep (nbr x)
    · by_cases hyx : y = x
      · exact Or.inl (Or.inr hyx)
      · right
        obtain ⟨hyr, hyc⟩ := (Lemmas.O2O.mem_cands I rep y).mp hy
        have hle : ¬ prob x < prob y :=
          h y.1 (Lemmas.O2O.mem_indexFrom_fst _ _ _ hyr) (by rw [← isCand_eq_candE]; exact hyc) hrep
        have hne : prob y ≠ prob x := by
          intro heq
          rcases htf y hyr x hxr heq with h1 | ⟨h1, h2⟩
          · exact hyx h1
          · have hyc' := (Lemmas.O2O.isCand_iff I rep y).mp hyc
            apply hyc'.2.2.1
            rw [hrep, h1]
        simp only [gt, Bool.or_eq_true, decide_eq_true_eq]
        left; omega
    · exact Or.inl (Or.inl hrep)

/-- On a tie-free input the rows the SQL accepts are the rows the functional model accepts — whatever the oracles. -/
theorem accepted_iff_model (I : Inst) (oL oR : Oracle) (k : Nat) (rep : Reps) (htf : TieFree I) (x : IRow)
    (hx : x ∈ rows I) :
    x ∈ OneToOne.accepted I oL oR k rep ↔ candE I rep x.1 = true ∧ bestL I rep x.1 ∧ bestR I rep x.1 := by
  rw [Lemmas.O2O.mem_accepted, Lemmas.O2O.mem_cands]
  constructor
  · rintro ⟨⟨_, hc⟩, h1, h2⟩
    have hxc : x ∈ cands I rep := (Lemmas.O2O.mem_cands I rep x).mpr ⟨hx, hc⟩
    exact ⟨hc, (rank1_node_iff I rep htf _ x hxc).mp h1, (rank1_nbr_iff I rep htf _ x hxc).mp h2⟩
  · rintro ⟨hc, h1, h2⟩
    have hxc : x ∈ cands I rep := (Lemmas.O2O.mem_cands I rep x).mpr ⟨hx, hc⟩
    exact ⟨⟨hx, hc⟩, (rank1_node_iff I rep htf _ x hxc).mpr h1, (rank1_nbr_iff I rep htf _ x hxc).mpr h2⟩

/-! ## One pass: `r`, `reprNext`, the exit count -/

/-- The sub-select `source` of `r`: `(node_id, representative of the accepted neighbour)` rows and the table itself. -/
theorem rSource_mem (E : DsEnc) (I : Inst) (rep : Reps) (first : Bool) (nu : Nat → Val) (db : Db) (acc : List IRow)
    (bw : Nat) (hR : ReprTbl E I rep first nu (db "reprPrev"))
    (hA : ∀ row, row ∈ db "accepted" ↔ ∃ x ∈ acc, row = [iv (node x), iv (nbr x)])
    (hlt : ∀ x ∈ acc, nbr x < I.n) (row : Row) :
    row ∈ (Rel.union true (Rel.project [Expr.col 0, Expr.col 3] (Rel.join true (Expr.cmp Cmp.eq (Expr.col 1) (Expr.col 2))
        (Rel.table "accepted") (Rel.table "reprPrev") bw)) (Rel.project [Expr.col 0, Expr.col 1] (Rel.table "reprPrev"))).eval db ↔
      (∃ x ∈ acc, row = [iv (node x), iv (repOf rep (nbr x))]) ∨ ∃ v, v < I.n ∧ row = [iv v, iv (repOf rep v)] := by
  have hmatch : ∀ ra ∈ db "accepted", ∃ rb ∈ db "reprPrev",
      (Expr.cmp Cmp.eq (Expr.col 1) (Expr.col 2)).holds (ra ++ rb) = true := by
    intro ra hra
    obtain ⟨x, hx, rfl⟩ := (hA ra).mp hra
    refine ⟨_, (hR.mem _).mpr ⟨nbr x, hlt x hx, rfl⟩, ?_⟩
    simp only [Expr.holds, Expr.eval, List.cons_append, List.nil_append, List.getD_cons_zero, List.getD_cons_succ,
      reprRow_0']
    simp [iv]
  rw [mem_union, mem_project, mem_project, eval_join, eval_table, eval_table]
  simp only [mem_joinRows_left_of_match hmatch]
  constructor
  · rintro (⟨y, ⟨ra, hra, rb, hrb, hon, rfl⟩, rfl⟩ | ⟨y, hy, rfl⟩)
    · obtain ⟨x, hx, rfl⟩ := (hA ra).mp hra
      obtain ⟨u, hu, rfl⟩ := (hR.mem rb).mp hrb
      simp only [Expr.holds, Expr.eval, List.cons_append, List.nil_append, List.getD_cons_zero, List.getD_cons_succ,
        reprRow_0'] at hon
      have hux : nbr x = u := by
        simp only [iv, Lemmas.Rel.cmp_eq_int, beq_iff_eq, Val.bool.injEq, decide_eq_true_eq] at hon
        omega
      subst hux
      left
      refine ⟨x, hx, ?_⟩
      simp only [List.map_cons, List.map_nil, Expr.eval, List.cons_append, List.nil_append, List.getD_cons_zero,
        List.getD_cons_succ, reprRow_1']
    · obtain ⟨v, hv, rfl⟩ := (hR.mem y).mp hy
      right
      exact ⟨v, hv, by simp only [List.map_cons, List.map_nil, Expr.eval, reprRow_0', reprRow_1']⟩
  · rintro (⟨x, hx, rfl⟩ | ⟨v, hv, rfl⟩)
    · left
      refine ⟨_, ⟨[iv (node x), iv (nbr x)], (hA _).mpr ⟨x, hx, rfl⟩, reprRow E I rep first nu (nbr x),
        (hR.mem _).mpr ⟨_, hlt x hx, rfl⟩, ?_, rfl⟩, ?_⟩
      · simp only [Expr.holds, Expr.eval, List.cons_append, List.nil_append, List.getD_cons_zero,
          List.getD_cons_succ, reprRow_0']
        simp [iv]
      · simp only [List.map_cons, List.map_nil, Expr.eval, List.cons_append, List.nil_append, List.getD_cons_zero,
          List.getD_cons_succ, reprRow_1']
    · right
      exact ⟨_, (hR.mem _).mpr ⟨v, hv, rfl⟩,
        by simp only [List.map_cons, List.map_nil, Expr.eval, reprRow_0', reprRow_1']⟩

/-- `r`: every node with the smallest of its own representative and those of its accepted neighbours. -/
theorem r_eval (E : DsEnc) (I : Inst) (rep : Reps) (first : Bool) (nu : Nat → Val) (db : Db) (acc : List IRow)
    (hR : ReprTbl E I rep first nu (db "reprPrev"))
    (hA : ∀ row, row ∈ db "accepted" ↔ ∃ x ∈ acc, row = [iv (node x), iv (nbr x)])
    (hlt : ∀ x ∈ acc, nbr x < I.n ∧ node x < I.n) :
    ((if first then rFirst else rLater).eval db).Perm
      ((List.range I.n).map fun v => [iv v, iv (newRep rep acc v)]) := by
  have key : ∀ bw, ((Rel.groupBy [Expr.col 0] [Agg.min (Expr.col 1)]
      (Rel.union true (Rel.project [Expr.col 0, Expr.col 3] (Rel.join true (Expr.cmp Cmp.eq (Expr.col 1) (Expr.col 2))
        (Rel.table "accepted") (Rel.table "reprPrev") bw))
        (Rel.project [Expr.col 0, Expr.col 1] (Rel.table "reprPrev")))).eval db).Perm
      ((List.range I.n).map fun v => [iv v, iv (newRep rep acc v)]) := by
    intro bw
    have hsrc := rSource_mem E I rep first nu db acc bw hR hA (fun x hx => (hlt x hx).1)
    rw [eval_groupBy]
    unfold newRep
    apply groupMin_perm _ 1 (List.range I.n) List.nodup_range
      (fun v => (acc.filter fun x => node x == v).map fun x => repOf rep (nbr x)) (fun v => repOf rep v)
    · intro row hrow
      rcases (hsrc row).mp hrow with ⟨x, hx, rfl⟩ | ⟨v, hv, rfl⟩
      · exact ⟨node x, List.mem_range.mpr (hlt x hx).2, by simp⟩
      · exact ⟨v, List.mem_range.mpr hv, by simp⟩
    · intro v hv val
      have hv' := List.mem_range.mp hv
      constructor
      · rintro ⟨row, hrow, h0, rfl⟩
        rcases (hsrc row).mp hrow with ⟨x, hx, rfl⟩ | ⟨u, hu, rfl⟩
        · right
          simp only [List.getD_cons_zero] at h0
          have hxv : node x = v := iv_inj.mp h0
          refine ⟨repOf rep (nbr x), List.mem_map.mpr ⟨x, List.mem_filter.mpr ⟨hx, by simp [hxv]⟩, rfl⟩, by simp⟩
        · left
          simp only [List.getD_cons_zero] at h0
          have huv : u = v := iv_inj.mp h0
          subst huv
          simp
      · rintro (rfl | ⟨y, hy, rfl⟩)
        · exact ⟨_, (hsrc _).mpr (Or.inr ⟨v, hv', rfl⟩), by simp, by simp⟩
        · obtain ⟨x, hx, rfl⟩ := List.mem_map.mp hy
          obtain ⟨hxa, hxv⟩ := List.mem_filter.mp hx
          have hxv' : node x = v := by simpa using hxv
          exact ⟨_, (hsrc _).mpr (Or.inl ⟨x, hxa, rfl⟩), by simp [hxv'], by simp⟩
  cases first
  · exact key 4
  · exact key 3

/-- `__splink__df_representatives_k`: the new representative, the dataset, and whether the representative changed. -/
theorem reprNext_eval (E : DsEnc) (I : Inst) (rep : Reps) (first : Bool) (nu : Nat → Val) (db : Db)
    (new : Nat → Nat) (hR : ReprTbl E I rep first nu (db "reprPrev"))
    (hr : (db "r").Perm ((List.range I.n).map fun v => [iv v, iv (new v)])) :
    ((if first then reprNextFirst else reprNextLater).eval db).Perm
      ((List.range I.n).map fun v =>
        [iv v, iv (new v), E.enc (I.ds v), Val.bool (new v != repOf rep v)]) := by
  have key : ∀ bw, ((Rel.project [Expr.col 0, Expr.col 1, Expr.col 4, Expr.cmp Cmp.ne (Expr.col 1) (Expr.col 3)]
      (Rel.join false (Expr.cmp Cmp.eq (Expr.col 0) (Expr.col 2)) (Rel.table "r") (Rel.table "reprPrev") bw)).eval db).Perm
      ((List.range I.n).map fun v =>
        [iv v, iv (new v), E.enc (I.ds v), Val.bool (new v != repOf rep v)]) := by
    intro bw
    rw [eval_project, eval_join, eval_table, eval_table]
    have hj := joinRows_lookup (List.range I.n) (fun v => [iv v, iv (new v)]) (reprRow E I rep first nu) false
      (Expr.cmp Cmp.eq (Expr.col 0) (Expr.col 2)) (db "r") (db "reprPrev") bw hr hR.nodup (by
        intro v hv
        refine ⟨(hR.mem _).mpr ⟨v, List.mem_range.mp hv, rfl⟩, ?_, ?_⟩
        · simp only [Expr.holds, Expr.eval, List.cons_append, List.nil_append, List.getD_cons_zero,
            List.getD_cons_succ, reprRow_0']
          simp [iv]
        · intro y hy hon
          obtain ⟨u, _, rfl⟩ := (hR.mem y).mp hy
          simp only [Expr.holds, Expr.eval, List.cons_append, List.nil_append, List.getD_cons_zero,
            List.getD_cons_succ, reprRow_0'] at hon
          have : v = u := by
            simp only [iv, Lemmas.Rel.cmp_eq_int, beq_iff_eq, Val.bool.injEq, decide_eq_true_eq] at hon
            omega
          rw [this])
    refine (hj.map _).trans (List.Perm.of_eq ?_)
    rw [List.map_map]
    apply List.map_congr_left
    intro v _
    simp only [Function.comp, List.map_cons, List.map_nil, Expr.eval, List.cons_append, List.nil_append,
      List.getD_cons_zero, List.getD_cons_succ, reprRow_1', reprRow_2']
    simp only [iv, Lemmas.Rel.cmp_ne_int, ne_cast]
  cases first
  · exact key 4
  · exact key 3

/-- `count_of_nodes_needing_updating`. -/
theorem rootRows_count (I : Inst) (db : Db) (f : Nat → Row) (upd : Nat → Bool)
    (h3 : ∀ v, (f v).getD 3 .null = Val.bool (upd v))
    (hN : (db "reprNext").Perm ((List.range I.n).map f)) :
    OtoSql.countOf (rootRows.eval db) = ((List.range I.n).filter upd).length := by
  unfold rootRows
  rw [eval_groupBy, eval_filter, eval_table]
  simp only [groupRows, List.isEmpty_nil, if_true, List.map_cons, List.map_nil, Agg.eval, OtoSql.countOf,
    Int.toNat_natCast]
  rw [(hN.filter _).length_eq, List.filter_map, List.length_map]
  congr 1
  apply List.filter_congr
  intro v _
  simp only [Function.comp, Expr.holds, Expr.eval, h3]
  cases upd v <;> rfl

/-! ## One pass of the SQL loop body = one `OneToOne.step` -/

/-- Look a table up in a database built with `Db.set`. -/
macro "db_get" : tactic =>
  `(tactic| (repeat (first | rw [set_same] | rw [set_ne _ _ _ _ (by decide)])))

/-- The `needs_updating` column after a pass from `rep` to `rep'`. -/
def nuOf (rep rep' : Reps) : Nat → Val := fun v => Val.bool (repOf rep' v != repOf rep v)

/-- **One pass.**  On a tie-free input, running the statements of a pass on the tables of a state `rep` yields the tables of
`OneToOne.step … rep` — for every pair of tie-break oracles and every pass index of the functional model — and the
`needs_updating` count is the model's. -/
theorem pass_spec (E : DsEnc) (I : Inst) (oL oR : Oracle) (k : Nat) (rep : Reps) (htf : TieFree I)
    (first : Bool) (nu : Nat → Val) (s : OtoSql.LoopSt) (hn : NbrsTbl I s.nbrs)
    (hr : ReprTbl E I rep first nu s.repr) :
    NbrsTbl I (OtoSql.pass first (sdsOf E I) s).1.nbrs ∧
    ReprTbl E I (step I oL oR k rep) false (nuOf rep (step I oL oR k rep)) (OtoSql.pass first (sdsOf E I) s).1.repr ∧
    (OtoSql.pass first (sdsOf E I) s).2 = updCount I rep (step I oL oR k rep) := by
  let sds := sdsOf E I
  let db0 := Db.set (Db.set OtoSql.emptyDb "nbrs" s.nbrs) "reprPrev" s.repr
  let db1 := Db.set db0 "flags" ((flags sds).eval db0)
  let db2 := Db.set db1 "withFlags" ((withFlags (if first then 3 else 4) sds.length).eval db1)
  let db3 := Db.set db2 "ranked" ((ranked sds.length).eval db2)
  let db4 := Db.set db3 "accepted" (Gen.OtoSql.accepted.eval db3)
  let db5 := Db.set db4 "r" ((if first then rFirst else rLater).eval db4)
  let db6 := Db.set db5 "reprNext" ((if first then reprNextFirst else reprNextLater).eval db5)
  let db7 := Db.set db6 "__splink__df_root_rows" (rootRows.eval db6)
  have hpass : OtoSql.pass first (sdsOf E I) s =
      ({ nbrs := s.nbrs, repr := db7 "reprNext" }, OtoSql.countOf (db7 "__splink__df_root_rows")) := rfl
  let acc := OneToOne.accepted I oL oR k rep
  -- flags
  have h0R : ReprTbl E I rep first nu (db0 "reprPrev") := by
    have e : db0 "reprPrev" = s.repr := by simp only [db0]; db_get
    rw [e]; exact hr
  have h1 := flags_mem E I rep first nu db0 h0R
  -- withFlags
  have h1R : ReprTbl E I rep first nu (db1 "reprPrev") := by
    have e : db1 "reprPrev" = db0 "reprPrev" := by simp only [db1]; db_get
    rw [e]; exact h0R
  have h1F : ∀ row, row ∈ db1 "flags" ↔ ∃ v, v < I.n ∧ row = iv (repOf rep v) :: flagVals I rep (repOf rep v) := by
    have e : db1 "flags" = (flags sds).eval db0 := by simp only [db1]; db_get
    rw [e]; exact h1
  have h2 := withFlags_mem E I rep first nu db1 h1R h1F
  -- ranked
  have h2N : NbrsTbl I (db2 "nbrs") := by
    have e : db2 "nbrs" = s.nbrs := by simp only [db2, db1, db0]; db_get
    rw [e]; exact hn
  have h2W : ∀ row, row ∈ db2 "withFlags" ↔ ∃ v, v < I.n ∧ row = wfRow E I rep v := by
    have e : db2 "withFlags" = (withFlags (if first then 3 else 4) sds.length).eval db1 := by
      simp only [db2]; db_get
    rw [e]; exact h2
  obtain ⟨cl, cr, hbest, h3⟩ := ranked_mem E I rep db2 h2N h2W
  -- accepted
  have h3R : ∀ row, row ∈ db3 "ranked" ↔ ∃ e ∈ neighbours I, candE I rep e = true ∧
      row = [iv e.1, iv e.2.1, Val.int ((1 + cl e : Nat) : Int), Val.int ((1 + cr e : Nat) : Int)] := by
    have e : db3 "ranked" = (ranked sds.length).eval db2 := by simp only [db3]; db_get
    rw [e]; exact h3
  have h4 := accepted_mem_raw I rep db3 cl cr h3R
  have h4A : ∀ row, row ∈ db4 "accepted" ↔ ∃ x ∈ acc, row = [iv (node x), iv (nbr x)] := by
    have e : db4 "accepted" = Gen.OtoSql.accepted.eval db3 := by simp only [db4]; db_get
    intro row
    rw [e, h4]
    constructor
    · rintro ⟨e, he, hc, hl0, hr0, rfl⟩
      obtain ⟨j, hj⟩ := Lemmas.O2O.exists_mem_indexFrom (neighbours I) 0 e he
      have hb := hbest e he hc
      exact ⟨(e, j), (accepted_iff_model I oL oR k rep htf (e, j) hj).mpr ⟨hc, hb.1.mp hl0, hb.2.mp hr0⟩, rfl⟩
    · rintro ⟨x, hx, rfl⟩
      have hxr : x ∈ rows I :=
        ((Lemmas.O2O.mem_cands I rep x).mp ((Lemmas.O2O.mem_accepted I oL oR k rep x).mp hx).1).1
      obtain ⟨hc, hbl, hbr⟩ := (accepted_iff_model I oL oR k rep htf x hxr).mp hx
      have hxn := Lemmas.O2O.mem_indexFrom_fst _ _ _ hxr
      have hb := hbest x.1 hxn hc
      exact ⟨x.1, hxn, hc, hb.1.mpr hbl, hb.2.mpr hbr, rfl⟩
  have hlt : ∀ x ∈ acc, nbr x < I.n ∧ node x < I.n := by
    intro x hx
    have hc := ((Lemmas.O2O.mem_cands I rep x).mp ((Lemmas.O2O.mem_accepted I oL oR k rep x).mp hx).1).2
    have := (Lemmas.O2O.isCand_iff I rep x).mp hc
    exact ⟨this.2.1, this.1⟩
  -- r
  have h4R : ReprTbl E I rep first nu (db4 "reprPrev") := by
    have e : db4 "reprPrev" = db0 "reprPrev" := by simp only [db4, db3, db2, db1]; db_get
    rw [e]; exact h0R
  have h5 := r_eval E I rep first nu db4 acc h4R h4A hlt
  -- reprNext
  have h5R : ReprTbl E I rep first nu (db5 "reprPrev") := by
    have e : db5 "reprPrev" = db4 "reprPrev" := by simp only [db5]; db_get
    rw [e]; exact h4R
  have h5r : (db5 "r").Perm ((List.range I.n).map fun v => [iv v, iv (newRep rep acc v)]) := by
    have e : db5 "r" = (if first then rFirst else rLater).eval db4 := by simp only [db5]; db_get
    rw [e]; exact h5
  have h6 := reprNext_eval E I rep first nu db5 (newRep rep acc) h5R h5r
  have h6' : ReprTbl E I (step I oL oR k rep) false (nuOf rep (step I oL oR k rep)) (db6 "reprNext") := by
    have e : db6 "reprNext" = (if first then reprNextFirst else reprNextLater).eval db5 := by
      simp only [db6]; db_get
    rw [e]
    refine h6.trans (List.Perm.of_eq ?_)
    apply List.map_congr_left
    intro v hv
    have hv' := List.mem_range.mp hv
    simp only [reprRow, nuOf, Lemmas.O2O.repOf_step I oL oR k rep v hv', Bool.false_eq_true, if_false]
    rfl
  -- count
  have h7 := rootRows_count I db6 (reprRow E I (step I oL oR k rep) false (nuOf rep (step I oL oR k rep)))
    (fun v => repOf (step I oL oR k rep) v != repOf rep v) (fun _ => rfl) h6'
  rw [hpass]
  refine ⟨hn, ?_, ?_⟩
  · have e : db7 "reprNext" = db6 "reprNext" := by simp only [db7]; db_get
    show ReprTbl E I _ false _ (db7 "reprNext")
    rw [e]; exact h6'
  · have e : db7 "__splink__df_root_rows" = rootRows.eval db6 := by simp only [db7]; db_get
    show OtoSql.countOf (db7 "__splink__df_root_rows") = _
    rw [e, h7]
    rfl

/-! ## The preamble, the loop, the final statement -/

/-- Everything before the loop: the neighbours table and the initial representatives (input tables in any row order). -/
theorem init_spec (E : DsEnc) (I : Inst) (nu : Nat → Val) (nodes edgeTab : List Row)
    (hN : nodes.Perm (nodesTbl E I)) (hT : edgeTab.Perm (OtoSql.edgeRows I.edges)) :
    NbrsTbl I (OtoSql.init nodes edgeTab (thrVal I)).nbrs ∧
    ReprTbl E I (initialReps I) true nu (OtoSql.init nodes edgeTab (thrVal I)).repr := by
  let db0 := OtoSql.baseDb nodes edgeTab
  let db1 := Db.set db0 "__splink__df_neighbours" ((match thrVal I with
        | some t => dfNeighbours t
        | none => dfNeighboursNoThr).eval db0)
  let db2 := Db.set db1 "__splink__df_representatives" (dfRepresentatives.eval db1)
  have hinit : OtoSql.init nodes edgeTab (thrVal I) =
      { nbrs := db2 "__splink__df_neighbours", repr := db2 "__splink__df_representatives" } := rfl
  have h0E : db0 "edges_in" = edgeTab := by simp only [db0, OtoSql.baseDb]; db_get
  have h1N : db1 "nodes_in" = nodes := by simp only [db1, db0, OtoSql.baseDb]; db_get
  rw [hinit]
  constructor
  · have e : db2 "__splink__df_neighbours" = (match thrVal I with
        | some t => dfNeighbours t
        | none => dfNeighboursNoThr).eval db0 := by simp only [db2, db1]; db_get
    show NbrsTbl I (db2 "__splink__df_neighbours")
    rw [e]; exact dfNeighbours_mem I db0 (fun row => by rw [h0E]; exact hT.mem_iff)
  · have e : db2 "__splink__df_representatives" = dfRepresentatives.eval db1 := by simp only [db2]; db_get
    show ReprTbl E I _ true nu (db2 "__splink__df_representatives")
    rw [e]; exact dfRepresentatives_eval E I db1 (by rw [h1N]; exact hN) nu

/-- **The loop.**  If the SQL state holds the tables of `step k rep` and the count of that pass, the SQL loop with fuel
`f` ends in the tables of the functional model's loop with fuel `f + 1` started at `(k, rep)`. -/
theorem loop_spec (E : DsEnc) (I : Inst) (oL oR : Oracle) (htf : TieFree I) :
    ∀ (f k : Nat) (rep : Reps) (sc : OtoSql.LoopSt × Nat), NbrsTbl I sc.1.nbrs →
      ReprTbl E I (step I oL oR k rep) false (nuOf rep (step I oL oR k rep)) sc.1.repr →
      sc.2 = updCount I rep (step I oL oR k rep) →
      ∃ nu', ReprTbl E I (OneToOne.loop I oL oR (f + 1) k rep).rep false nu' (OtoSql.loop (sdsOf E I) f sc).repr
  | 0, k, rep, sc, _, hr, _ => by
    refine ⟨nuOf rep (step I oL oR k rep), ?_⟩
    have : (OneToOne.loop I oL oR (0 + 1) k rep).rep = step I oL oR k rep := by
      simp only [OneToOne.loop]
      split <;> rfl
    rw [this]
    exact hr
  | f + 1, k, rep, sc, hn, hr, hc => by
    by_cases h0 : updCount I rep (step I oL oR k rep) = 0
    · refine ⟨nuOf rep (step I oL oR k rep), ?_⟩
      have e1 : (OneToOne.loop I oL oR (f + 1 + 1) k rep).rep = step I oL oR k rep := by
        simp only [OneToOne.loop, h0, if_true]
      have e2 : OtoSql.loop (sdsOf E I) (f + 1) sc = sc.1 := by
        simp only [OtoSql.loop, hc, h0, Nat.lt_irrefl, if_false]
      rw [e1, e2]
      exact hr
    · have e1 : OneToOne.loop I oL oR (f + 1 + 1) k rep =
          OneToOne.loop I oL oR (f + 1) (k + 1) (step I oL oR k rep) := by
        simp only [OneToOne.loop, h0, if_false]
      have e2 : OtoSql.loop (sdsOf E I) (f + 1) sc =
          OtoSql.loop (sdsOf E I) f (OtoSql.pass false (sdsOf E I) sc.1) := by
        have : sc.2 > 0 := by omega
        simp only [OtoSql.loop, this, if_true]
      rw [e1, e2]
      obtain ⟨p1, p2, p3⟩ := pass_spec E I oL oR (k + 1) (step I oL oR k rep) htf false _ sc.1 hn hr
      exact loop_spec E I oL oR htf f (k + 1) (step I oL oR k rep) _ p1 p2 p3

/-- The logged counts of the SQL loop are the functional model's. -/
theorem loopTrace_spec (E : DsEnc) (I : Inst) (oL oR : Oracle) (htf : TieFree I) :
    ∀ (f k : Nat) (rep : Reps) (sc : OtoSql.LoopSt × Nat), NbrsTbl I sc.1.nbrs →
      ReprTbl E I (step I oL oR k rep) false (nuOf rep (step I oL oR k rep)) sc.1.repr →
      sc.2 = updCount I rep (step I oL oR k rep) →
      sc.2 :: OtoSql.loopTrace (sdsOf E I) f sc = OneToOne.loopTrace I oL oR (f + 1) k rep
  | 0, k, rep, sc, _, _, hc => by
    simp only [OtoSql.loopTrace, OneToOne.loopTrace, hc]
    split <;> rfl
  | f + 1, k, rep, sc, hn, hr, hc => by
    by_cases h0 : updCount I rep (step I oL oR k rep) = 0
    · have e1 : OneToOne.loopTrace I oL oR (f + 1 + 1) k rep = [updCount I rep (step I oL oR k rep)] := by
        simp only [OneToOne.loopTrace, h0, if_true]
      have e2 : OtoSql.loopTrace (sdsOf E I) (f + 1) sc = [] := by
        simp only [OtoSql.loopTrace, hc, h0, Nat.lt_irrefl, if_false]
      rw [e1, e2, hc]
    · have e1 : OneToOne.loopTrace I oL oR (f + 1 + 1) k rep =
          updCount I rep (step I oL oR k rep) ::
            OneToOne.loopTrace I oL oR (f + 1) (k + 1) (step I oL oR k rep) := by
        simp only [OneToOne.loopTrace, h0, if_false]
      have e2 : OtoSql.loopTrace (sdsOf E I) (f + 1) sc =
          (OtoSql.pass false (sdsOf E I) sc.1).2 ::
            OtoSql.loopTrace (sdsOf E I) f (OtoSql.pass false (sdsOf E I) sc.1) := by
        have : sc.2 > 0 := by omega
        simp only [OtoSql.loopTrace, this, if_true]
      obtain ⟨p1, p2, p3⟩ := pass_spec E I oL oR (k + 1) (step I oL oR k rep) htf false _ sc.1 hn hr
      rw [e1, e2, loopTrace_spec E I oL oR htf f (k + 1) (step I oL oR k rep) _ p1 p2 p3, hc]

/-- A result row `(node_id, cluster_id)`. -/
def pairRow (p : Nat × Nat) : Row := [Val.int (p.1 : Int), Val.int (p.2 : Int)]

/-- `__splink__clustering_output_final`. -/
theorem output_spec (E : DsEnc) (I : Inst) (rep : Reps) (nu : Nat → Val) (s : OtoSql.LoopSt)
    (hr : ReprTbl E I rep false nu s.repr) :
    (OtoSql.output s).Perm ((OneToOne.output I rep).map pairRow) := by
  unfold OtoSql.output finalStmt
  rw [eval_project, eval_table, set_same]
  refine (hr.map _).trans (List.Perm.of_eq ?_)
  unfold OneToOne.output
  rw [List.map_map, List.map_map]
  apply List.map_congr_left
  intro v _
  simp [reprRow, pairRow, Expr.eval, iv]

/-- **Refinement of the whole function** on tie-free inputs (input tables in any row order). -/
theorem cluster_perm_model (E : DsEnc) (I : Inst) (oL oR : Oracle) (htf : TieFree I) (nodes edgeTab : List Row)
    (hN : nodes.Perm (nodesTbl E I)) (hT : edgeTab.Perm (OtoSql.edgeRows I.edges)) :
    (OtoSql.cluster nodes edgeTab (sdsOf E I) (thrVal I) (initialReps I).sum).Perm
      ((OneToOne.cluster I oL oR).map pairRow) := by
  obtain ⟨i1, i2⟩ := init_spec E I (fun _ => Val.null) nodes edgeTab hN hT
  obtain ⟨p1, p2, p3⟩ := pass_spec E I oL oR 0 (initialReps I) htf true _ _ i1 i2
  obtain ⟨nu', hl⟩ := loop_spec E I oL oR htf (initialReps I).sum 0 (initialReps I) _ p1 p2 p3
  exact output_spec E I _ nu' _ hl

theorem trace_eq_model (E : DsEnc) (I : Inst) (oL oR : Oracle) (htf : TieFree I) (nodes edgeTab : List Row)
    (hN : nodes.Perm (nodesTbl E I)) (hT : edgeTab.Perm (OtoSql.edgeRows I.edges)) :
    OtoSql.trace nodes edgeTab (sdsOf E I) (thrVal I) (initialReps I).sum = OneToOne.trace I oL oR := by
  obtain ⟨i1, i2⟩ := init_spec E I (fun _ => Val.null) nodes edgeTab hN hT
  obtain ⟨p1, p2, p3⟩ := pass_spec E I oL oR 0 (initialReps I) htf true _ _ i1 i2
  exact loopTrace_spec E I oL oR htf (initialReps I).sum 0 (initialReps I) _ p1 p2 p3

theorem pairRow_inj {p q : Nat × Nat} (h : pairRow p = pairRow q) : p = q := by
  obtain ⟨a, b⟩ := p
  obtain ⟨c, d⟩ := q
  simp only [pairRow, List.cons.injEq, Val.int.injEq, and_true] at h
  obtain ⟨h1, h2⟩ := h
  have : a = c := by omega
  have : b = d := by omega
  simp [*]

/-- The rows the SQL pipeline returns on a tie-free input: `(v, c)` is returned iff `v` is a node and `c` its
representative in the functional model's result. -/
theorem mem_cluster_iff (E : DsEnc) (I : Inst) (oL oR : Oracle) (htf : TieFree I) (nodes edgeTab : List Row)
    (hN : nodes.Perm (nodesTbl E I)) (hT : edgeTab.Perm (OtoSql.edgeRows I.edges)) (v c : Nat) :
    pairRow (v, c) ∈ OtoSql.cluster nodes edgeTab (sdsOf E I) (thrVal I) (initialReps I).sum ↔
      v < I.n ∧ c = repOf (run I oL oR).rep v := by
  rw [(cluster_perm_model E I oL oR htf nodes edgeTab hN hT).mem_iff, List.mem_map]
  unfold OneToOne.cluster OneToOne.output
  constructor
  · rintro ⟨p, hp, he⟩
    obtain ⟨u, hu, rfl⟩ := List.mem_map.mp hp
    have := pairRow_inj he
    simp only [Prod.mk.injEq] at this
    obtain ⟨rfl, rfl⟩ := this
    exact ⟨List.mem_range.mp hu, rfl⟩
  · rintro ⟨hv, rfl⟩
    exact ⟨_, List.mem_map.mpr ⟨v, List.mem_range.mpr hv, rfl⟩, rfl⟩

end SplinkVerif.Lemmas.OtoSql
