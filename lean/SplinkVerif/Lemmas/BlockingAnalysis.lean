import Mathlib.Algebra.Order.Field.Rat
import Mathlib.Tactic.Ring
import Mathlib.Tactic.Linarith
import Mathlib.Tactic.NormNum
import SplinkVerif.Model.BlockingAnalysis
import SplinkVerif.Lemmas.Blocking
import SplinkVerif.Lemmas.BlockingAnalysisCount
import SplinkVerif.Generated.Arith
/-!
# Lemmas for C14 (blocking analysis)

The list/counting lemmas (`preFilterCount_eq`, `mem_blockCounts`, `postFilterCount_eq_block`,
`postFilterCount_eq_block_two`, `rowCounts_spec`, `cumulative_spec`, `nLargest_spec`,
`orient_count`) are in `Lemmas/BlockingAnalysisCount.lean` (same namespace, core Lean only).
This file instantiates the number interface of the *generated* arithmetic at `ℚ` and proves
that the generated `calculate_cartesian` equals the number of admissible pairs.
-/
namespace SplinkVerif.Lemmas.BA
open SplinkVerif SplinkVerif.Blocking SplinkVerif.BlockingAnalysis

/-- The number interface at `ℚ` (`sqrt`, `pow2`, `log2`, `inf` are junk: they are not
used by `calculate_cartesian`). -/
instance instANumRat : SplinkVerif.ANum ℚ where
  ofNat n := (n : ℚ)
  add a b := a + b
  sub a b := a - b
  mul a b := a * b
  div a b := a / b
  sqrt a := a
  pow2 a := a
  log2 a := a
  inf := 0
  le a b := decide (a ≤ b)
  lt a b := decide (a < b)
  eq a b := decide (a = b)

/-- Per-source-dataset record counts. -/
def sdCounts (t : Blocking.Table) : List Nat :=
  ((List.range t.m).map t.sd).eraseDups.map fun s =>
    ((List.range t.m).filter fun i => t.sd i == s).length

/-! ## `ANum.sum` at `ℚ` -/

theorem foldl_add_eq (xs : List ℚ) : ∀ a : ℚ, xs.foldl ANum.add a = a + xs.sum := by
  induction xs with
  | nil => intro a; simp
  | cons x xs ih =>
    intro a
    rw [List.foldl_cons, ih, List.sum_cons]
    show a + x + xs.sum = a + (x + xs.sum)
    ring

theorem ANum_sum_eq (xs : List ℚ) : ANum.sum xs = xs.sum := by
  unfold ANum.sum
  rw [foldl_add_eq]
  show ((0 : ℕ) : ℚ) + xs.sum = xs.sum
  simp

theorem cast_sum_map (ns : List Nat) (f : Nat → Nat) :
    (ns.map fun n => ((f n : ℕ) : ℚ)).sum = (((ns.map f).sum : ℕ) : ℚ) := by
  induction ns with
  | nil => simp
  | cons n ns ih => simp only [List.map_cons, List.sum_cons, ih, Nat.cast_add]

/-! ## Counting admissible pairs in `ℕ` -/

theorem cnt_false (xs ys : List Nat) : cnt xs ys (fun _ _ => false) = 0 := by
  rw [cnt_eq]
  simp [sum_map_zero]

theorem wf_inj (t : Table) (hwf : Blk.WFKeys t) :
    ∀ a ∈ List.range t.m, ∀ b ∈ List.range t.m, t.key a = t.key b → a = b :=
  fun a ha b hb h => hwf a b (List.mem_range.mp ha) (List.mem_range.mp hb) h

/-- `2 · #{key l < key r} + m = m²`. -/
theorem key_pairs_nat (t : Table) (hwf : Blk.WFKeys t) :
    2 * cnt (List.range t.m) (List.range t.m) (fun l r => decide (t.key l < t.key r)) + t.m =
      t.m * t.m := by
  have h := orient_count t.key (fun _ _ => true) (fun _ _ => rfl) (List.range t.m)
    List.nodup_range (wf_inj t hwf)
  simp only [Bool.and_true, Bool.not_true, cnt_false, List.countP_true, List.length_range,
    Nat.add_zero] at h
  exact h

theorem admissible_dedupe (t : Table) :
    admissiblePairs .dedupeOnly t =
      cnt (List.range t.m) (List.range t.m) (fun l r => decide (t.key l < t.key r)) := rfl

theorem admissible_linkAndDedupe (t : Table) :
    admissiblePairs .linkAndDedupe t =
      cnt (List.range t.m) (List.range t.m) (fun l r => decide (t.key l < t.key r)) := rfl

theorem admissible_linkOnly (t : Table) :
    admissiblePairs .linkOnly t =
      cnt (List.range t.m) (List.range t.m)
        (fun l r => decide (t.key l < t.key r) && t.sd l != t.sd r) := rfl

theorem sum_map_one {α : Type} (l : List α) : (l.map fun _ => 1).sum = l.length := by
  induction l with
  | nil => rfl
  | cons a l ih => simp only [List.map_cons, List.sum_cons, ih, List.length_cons]; omega

theorem sdCounts_sum (t : Table) : (sdCounts t).sum = t.m := by
  have h := sum_by_key (List.range t.m) t.sd (fun _ => 1) (((List.range t.m).map t.sd).eraseDups)
    (Blk.nodup_eraseDups _ _ (Nat.le_refl _))
    (fun l hl => List.mem_eraseDups.mpr (List.mem_map_of_mem hl))
  rw [sum_map_one, List.length_range] at h
  refine Eq.trans ?_ h.symm
  unfold sdCounts
  simp only [Nat.mul_one]

theorem sdCounts_sum_sq (t : Table) :
    ((sdCounts t).map fun n => n * n).sum =
      cnt (List.range t.m) (List.range t.m) (fun l r => !(t.sd l != t.sd r)) := by
  have h := sum_by_key (List.range t.m) t.sd
    (fun k => ((List.range t.m).filter fun i => t.sd i == k).length)
    (((List.range t.m).map t.sd).eraseDups)
    (Blk.nodup_eraseDups _ _ (Nat.le_refl _))
    (fun l hl => List.mem_eraseDups.mpr (List.mem_map_of_mem hl))
  unfold sdCounts
  rw [List.map_map]
  simp only [Function.comp_def]
  rw [← h]
  unfold cnt
  rw [length_joinFilter]
  apply congrArg
  apply List.map_congr_left
  intro l _
  congr 1
  apply List.filter_congr
  intro r _
  show (t.sd r == t.sd l) = !(!(t.sd l == t.sd r))
  rw [Bool.not_not]
  exact BEq.comm

/-- `2 · #{key l < key r ∧ sd l ≠ sd r} + Σ nₛ² = m²`. -/
theorem link_pairs_nat (t : Table) (hwf : Blk.WFKeys t) :
    2 * admissiblePairs .linkOnly t + ((sdCounts t).map fun n => n * n).sum = t.m * t.m := by
  have h := orient_count t.key (fun l r => t.sd l != t.sd r)
    (fun a b => by simp [bne, Bool.beq_comm]) (List.range t.m)
    List.nodup_range (wf_inj t hwf)
  rw [sdCounts_sum_sq, admissible_linkOnly]
  have hz : ((List.range t.m).countP fun a => t.sd a != t.sd a) = 0 := by
    rw [List.countP_eq_zero]
    intro a _
    simp
  rw [hz, List.length_range] at h
  exact h

/-! ## The generated `calculate_cartesian` at `ℚ` -/

theorem half_eq (m P : ℚ) (h : 2 * P + m = m * m) : m * (m - 1) / 2 = P := by
  rw [div_eq_iff (by norm_num)]
  linarith

theorem cartesian_dedupe (t : Table) (hwf : Blk.WFKeys t) :
    Gen.calculate_cartesian [(t.m : ℚ)] "dedupe_only" =
      some ((admissiblePairs .dedupeOnly t : ℕ) : ℚ) := by
  have hN := key_pairs_nat t hwf
  rw [← admissible_dedupe] at hN
  have hQ : (2 : ℚ) * (admissiblePairs .dedupeOnly t : ℕ) + (t.m : ℚ) = (t.m : ℚ) * (t.m : ℚ) := by
    exact_mod_cast hN
  have h1 : ("dedupe_only" == "link_only") = false := by decide
  have h2 : ("dedupe_only" == "dedupe_only") = true := by decide
  simp only [Gen.calculate_cartesian, h1, h2]
  show some ((t.m : ℚ) * ((t.m : ℚ) - ((1 : ℕ) : ℚ)) / ((2 : ℕ) : ℚ)) = _
  rw [Nat.cast_one, Nat.cast_ofNat, half_eq _ _ hQ]

theorem cartesian_link_and_dedupe (t : Table) (hwf : Blk.WFKeys t) (ns : List Nat)
    (hsum : ns.sum = t.m) :
    Gen.calculate_cartesian (ns.map fun (n : ℕ) => (n : ℚ)) "link_and_dedupe" =
      some ((admissiblePairs .linkAndDedupe t : ℕ) : ℚ) := by
  have hN := key_pairs_nat t hwf
  rw [← admissible_linkAndDedupe] at hN
  have hQ : (2 : ℚ) * (admissiblePairs .linkAndDedupe t : ℕ) + (t.m : ℚ) =
      (t.m : ℚ) * (t.m : ℚ) := by
    exact_mod_cast hN
  have h1 : ("link_and_dedupe" == "link_only") = false := by decide
  have h2 : ("link_and_dedupe" == "dedupe_only") = false := by decide
  have h3 : ("link_and_dedupe" == "link_and_dedupe") = true := by decide
  have hs : ANum.sum (ns.map fun (n : ℕ) => (n : ℚ)) = (t.m : ℚ) := by
    rw [ANum_sum_eq]
    have := cast_sum_map ns (fun n => n)
    simp only [List.map_id'] at this
    rw [this, hsum]
  simp only [Gen.calculate_cartesian, h1, h2, h3, List.map_id', hs]
  show some ((t.m : ℚ) * ((t.m : ℚ) - ((1 : ℕ) : ℚ)) / ((2 : ℕ) : ℚ)) = _
  rw [Nat.cast_one, Nat.cast_ofNat, half_eq _ _ hQ]

theorem cartesian_link_only (t : Table) (hwf : Blk.WFKeys t) (hk : 2 ≤ (sdCounts t).length) :
    Gen.calculate_cartesian ((sdCounts t).map fun (n : ℕ) => (n : ℚ)) "link_only" =
      some ((admissiblePairs .linkOnly t : ℕ) : ℚ) := by
  have hN := link_pairs_nat t hwf
  have hQ : (2 : ℚ) * (admissiblePairs .linkOnly t : ℕ) +
      ((((sdCounts t).map fun n => n * n).sum : ℕ) : ℚ) = (t.m : ℚ) * (t.m : ℚ) := by
    exact_mod_cast hN
  have h1 : ("link_only" == "link_only") = true := by decide
  have hlen : ¬ ((sdCounts t).map fun (n : ℕ) => (n : ℚ)).length ≤ 1 := by
    rw [List.length_map]; omega
  have hs : ANum.sum ((sdCounts t).map fun (n : ℕ) => (n : ℚ)) = (t.m : ℚ) := by
    rw [ANum_sum_eq]
    have := cast_sum_map (sdCounts t) (fun n => n)
    simp only [List.map_id'] at this
    rw [this, sdCounts_sum]
  have hsq : ANum.sum (((sdCounts t).map fun (n : ℕ) => (n : ℚ)).map fun m => ANum.mul m m) =
      ((((sdCounts t).map fun n => n * n).sum : ℕ) : ℚ) := by
    rw [ANum_sum_eq, List.map_map, ← cast_sum_map]
    apply congrArg
    apply List.map_congr_left
    intro n _
    show (n : ℚ) * (n : ℚ) = ((n * n : ℕ) : ℚ)
    rw [Nat.cast_mul]
  simp only [Gen.calculate_cartesian, h1, hlen, decide_false, List.map_id', hs, hsq, if_true,
    Bool.false_eq_true, if_false]
  show some (((t.m : ℚ) * (t.m : ℚ) - _) / ((2 : ℕ) : ℚ)) = _
  rw [Nat.cast_ofNat, Option.some.injEq, div_eq_iff (by norm_num)]
  linarith

end SplinkVerif.Lemmas.BA
