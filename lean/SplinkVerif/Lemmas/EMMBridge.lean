import SplinkVerif.Lemmas.EMBridge
import SplinkVerif.Lemmas.EMStep
import Mathlib.Algebra.BigOperators.Fin
import Mathlib.Tactic.NormNum
/-!
# Bridge: the executable M-step (`EM.step`) is the abstract EM step (`EML.emStep`)

At `ℝ`, for a session whose level-level fix flags are all off.

1. `newLevel`, `step_comps`: `EM.step` is `newLevel` applied level by level (`zipWith3Idx`,
   the `let`-patterns of `updateLevel` and the `states` list are gone after this point).
2. `findLevel_*`, `patOf_*`, `pattern_eq_some_iff`, `pattern_ne_none_iff`: the abstract pattern
   of a row against the executable `gammaAt`; `IsFirst`, `DistinctValues`.
3. `rowPatterns`, `rowWeights` (the abstract data: `J = Fin rows.length`);
   `sum_filter_map_fin`: filtered list sums as `Finset` sums.
4. `mCount_eq_cnt`, `uCount_eq_cnt`, `denomM_eq_den`, `denomU_eq_den`, `lambdaNew_eq_lamNew`,
   `observed_iff`: the `foldl` sums, the `eraseDups` group list and the window sums are the
   abstract `cnt`, `den`, `lamNew`, `Observed`.
5. `newLevel_m_eq`, `newLevel_u_eq`, `step_prior_eq`: one level / the prior against
   `absStep = EML.emStep … (absParams θ)`.
6. `step_comps_length`, `step_absL`, `step_levelAt`, `castParams`, `absParams_step`: the whole
   step on the position-indexed abstraction.
7. `absParamsC`, `absParamsC_step`: the literal equality on the canonical abstraction.
8. `execLik`, `execLogLik` (defined from the executable model only), `execLogLik_abs`,
   `execLogLik_step`.
9. `eStepBridged_of`, `execLogLik_mono`, `step_bridge_positions`, `step_bridge_eq`: the
   theorems under primitive hypotheses.
10. tools for the concrete witnesses of `Lemmas/EMMBridgeWitness.lean`.
-/
namespace SplinkVerif.Lemmas.EMMBridge
open SplinkVerif SplinkVerif.Score SplinkVerif.Lemmas.Score
open SplinkVerif.Lemmas SplinkVerif.Lemmas.EMBridge SplinkVerif.Lemmas.EM

/-! ## 1. What `EM.step` does to the list of comparisons -/

/-- What `updateLevel` stores in a level whose level-level fix flags are off: the null
level is untouched; otherwise `m` (`u`) stays when the session fixes it, else it becomes the
looked-up proportion, or the `LEVEL_NOT_OBSERVED` value 1e-6 when the look-up fails. -/
noncomputable def newLevel (sess : EM.Session) (θ : EM.Params ℝ) (rows : List (EM.Row ℝ)) (ci : ℕ)
    (l : Level ℝ) : Level ℝ :=
  if l.isNull then l else
    { l with
      m := if sess.fixM then l.m else (EM.newM θ rows ci l.cvv).getD (1 / 1000000)
      u := if sess.fixU then l.u else (EM.newU θ rows ci l.cvv).getD (1 / 1000000) }

theorem updateLevel_fst (sess : EM.Session) (θ : EM.Params ℝ) (rows : List (EM.Row ℝ)) (ci : ℕ)
    (l : Level ℝ) (st : EM.LevelState) (hfm : st.fixM = false) (hfu : st.fixU = false) :
    (EM.updateLevel sess θ rows ci l st).1 = newLevel sess θ rows ci l := by
  rw [updateLevel_eq]
  unfold newLevel
  cases hn : l.isNull
  · simp only [Bool.false_eq_true, if_false, hfm, hfu, Bool.false_or]
    cases sess.fixM <;> cases sess.fixU <;> cases EM.newM θ rows ci l.cvv <;>
      cases EM.newU θ rows ci l.cvv <;> simp [notObservedValue_eq]
  · simp

theorem newLevel_cvv (sess : EM.Session) (θ : EM.Params ℝ) (rows : List (EM.Row ℝ)) (ci : ℕ)
    (l : Level ℝ) : (newLevel sess θ rows ci l).cvv = l.cvv := by
  unfold newLevel; split <;> rfl

theorem newLevel_isElse (sess : EM.Session) (θ : EM.Params ℝ) (rows : List (EM.Row ℝ)) (ci : ℕ)
    (l : Level ℝ) : (newLevel sess θ rows ci l).isElse = l.isElse := by
  unfold newLevel; split <;> rfl

theorem newLevel_isNull (sess : EM.Session) (θ : EM.Params ℝ) (rows : List (EM.Row ℝ)) (ci : ℕ)
    (l : Level ℝ) : (newLevel sess θ rows ci l).isNull = l.isNull := by
  unfold newLevel; split <;> rfl

theorem newLevel_null (sess : EM.Session) (θ : EM.Params ℝ) (rows : List (EM.Row ℝ)) (ci : ℕ)
    (l : Level ℝ) (h : l.isNull = true) : newLevel sess θ rows ci l = l := by
  unfold newLevel; rw [if_pos h]

/-- `states` has the shape of `comps` -/
def SameShape (θ : EM.Params ℝ) : Prop :=
  θ.states.map List.length = θ.comps.map List.length

/-- all level-level fix flags are off -/
def LevelFlagsOff (θ : EM.Params ℝ) : Prop :=
  ∀ sts ∈ θ.states, ∀ st ∈ sts, st.fixM = false ∧ st.fixU = false

theorem sameShape_length {θ : EM.Params ℝ} (h : SameShape θ) :
    θ.states.length = θ.comps.length := by
  have := congrArg List.length h
  simpa using this

theorem sameShape_getElem {θ : EM.Params ℝ} (h : SameShape θ) (i : ℕ) (h1 : i < θ.states.length)
    (h2 : i < θ.comps.length) : (θ.states[i]).length = (θ.comps[i]).length := by
  have e : (θ.states.map List.length)[i]'(by simpa using h1) =
      (θ.comps.map List.length)[i]'(by simpa using h2) := by
    simp only [SameShape] at h
    simp only [h]
  simpa using e

/-- **The comparisons after one step**: level by level, `newLevel`. -/
theorem step_comps (sess : EM.Session) (θ : EM.Params ℝ) (rows : List (EM.Row ℝ))
    (hshape : SameShape θ) (hflags : LevelFlagsOff θ) :
    (EM.step sess θ rows).comps =
      θ.comps.mapIdx fun ci c => c.map (newLevel sess θ rows ci) := by
  have hlen := sameShape_length hshape
  apply List.ext_getElem
  · simp only [EM.step, List.length_map, zipWith3Idx_length, List.length_mapIdx]
    omega
  · intro c h1 h2
    have hc : c < θ.comps.length := by simpa using h2
    have hs : c < θ.states.length := by omega
    have hl := sameShape_getElem hshape c hs hc
    simp only [EM.step, EM.zipWith3Idx, List.getElem_map, List.getElem_zip, List.getElem_range,
      List.getElem_mapIdx]
    apply List.ext_getElem
    · simp only [List.length_map, List.length_zip]
      omega
    · intro i h3 h4
      simp only [List.getElem_map, List.getElem_zip]
      have hi : i < (θ.states[c]).length := by
        simp only [List.length_map, List.length_zip] at h3
        omega
      obtain ⟨hfm, hfu⟩ := hflags _ (List.getElem_mem hs) _ (List.getElem_mem hi)
      exact updateLevel_fst sess θ rows c _ _ hfm hfu

/-! ## 2. Level positions, patterns and `gammaAt` -/

theorem findLevel_some_cvv (comp : Comparison ℝ) (v : Int) (i : Fin comp.length)
    (h : findLevel comp v = some i) : (comp[i.val]).cvv = v := by
  induction comp with
  | nil => exact i.elim0
  | cons l ls ih =>
    by_cases hv : (l.cvv == v) = true
    · simp only [findLevel, hv, if_true, Option.some.injEq] at h
      subst h
      simpa using hv
    · simp only [findLevel, hv, Bool.false_eq_true, if_false, Option.map_eq_some_iff] at h
      obtain ⟨i', hi', rfl⟩ := h
      simpa using ih i' hi'

theorem findLevel_of_mem (comp : Comparison ℝ) (v : Int) (h : ∃ l ∈ comp, l.cvv = v) :
    ∃ i, findLevel comp v = some i := by
  induction comp with
  | nil => simp at h
  | cons l ls ih =>
    by_cases hv : (l.cvv == v) = true
    · exact ⟨⟨0, by simp⟩, by simp [findLevel, hv]⟩
    · obtain ⟨l', hl', hl'v⟩ := h
      rcases List.mem_cons.mp hl' with rfl | hmem
      · exact absurd (by simpa using hl'v) hv
      · obtain ⟨i, hi⟩ := ih ⟨l', hmem, hl'v⟩
        exact ⟨i.succ, by simp [findLevel, hv, hi]⟩

/-- with distinct values, the position of a level is found from its value -/
theorem findLevel_nodup (comp : Comparison ℝ) (hnd : (comp.map (·.cvv)).Nodup)
    (i : Fin comp.length) : findLevel comp (comp[i.val]).cvv = some i := by
  induction comp with
  | nil => exact i.elim0
  | cons l ls ih =>
    rw [List.map_cons, List.nodup_cons] at hnd
    obtain ⟨i, hi⟩ := i
    cases i with
    | zero => simp [findLevel]
    | succ j =>
      have hj : j < ls.length := by simpa using hi
      have hne : ¬ ((l.cvv == (ls[j]).cvv) = true) := by
        intro he
        apply hnd.1
        rw [List.mem_map]
        exact ⟨ls[j], List.getElem_mem hj, (by simpa using he : l.cvv = (ls[j]).cvv).symm⟩
      have := ih hnd.2 ⟨j, hj⟩
      simp only [List.getElem_cons_succ, findLevel, hne, Bool.false_eq_true, if_false]
      simp only at this
      rw [this]
      rfl

theorem patOf_eq_some (comp : Comparison ℝ) (gs : List B3) (i : Fin comp.length)
    (h : patOf comp gs = some i) :
    gamma comp gs = some (comp[i.val]).cvv ∧ (comp[i.val]).isNull = false := by
  unfold patOf at h
  cases hg : gamma comp gs with
  | none => simp [hg] at h
  | some v =>
    rw [hg] at h
    simp only [Option.bind_some] at h
    cases hf : findLevel comp v with
    | none => simp [hf] at h
    | some i' =>
      rw [hf] at h
      simp only [Option.bind_some] at h
      by_cases hn : (comp[i'.val]).isNull = true
      · simp [hn] at h
      · simp only [hn, Bool.false_eq_true, if_false, Option.some.injEq] at h
        subst h
        exact ⟨by rw [findLevel_some_cvv comp v i' hf], by simpa using hn⟩

/-- a pattern points to the first level carrying its value -/
theorem patOf_eq_some_first (comp : Comparison ℝ) (gs : List B3) (i : Fin comp.length)
    (h : patOf comp gs = some i) : findLevel comp (comp[i.val]).cvv = some i := by
  unfold patOf at h
  cases hg : gamma comp gs with
  | none => simp [hg] at h
  | some v =>
    rw [hg] at h
    simp only [Option.bind_some] at h
    cases hf : findLevel comp v with
    | none => simp [hf] at h
    | some i' =>
      rw [hf] at h
      simp only [Option.bind_some] at h
      by_cases hn : (comp[i'.val]).isNull = true
      · simp [hn] at h
      · simp only [hn, Bool.false_eq_true, if_false, Option.some.injEq] at h
        subst h
        rw [findLevel_some_cvv comp v i' hf]
        exact hf

/-- for a non-null level that is the first of its comparison carrying its value (every level
is, when the values are distinct: `findLevel_nodup`): the row's pattern is this level's
position iff the row's `gamma` is this level's value -/
theorem patOf_eq_some_iff (comp : Comparison ℝ) (gs : List B3) (i : Fin comp.length)
    (hfirst : findLevel comp (comp[i.val]).cvv = some i) (hn : (comp[i.val]).isNull = false) :
    patOf comp gs = some i ↔ gamma comp gs = some (comp[i.val]).cvv := by
  constructor
  · intro h
    exact (patOf_eq_some comp gs i h).1
  · intro h
    unfold patOf
    rw [h]
    simp only [Option.bind_some]
    rw [hfirst]
    simp [hn]

/-- the row's pattern is a (non-null) level iff the row's `gamma` is a value other than −1,
when the null levels are exactly those carrying −1 -/
theorem patOf_ne_none_iff (comp : Comparison ℝ) (gs : List B3)
    (hnull : ∀ l ∈ comp, (l.isNull = true ↔ l.cvv = -1)) :
    patOf comp gs ≠ none ↔ ∃ v, gamma comp gs = some v ∧ v ≠ -1 := by
  unfold patOf
  cases hg : gamma comp gs with
  | none => simp
  | some v =>
    obtain ⟨i, hi⟩ := findLevel_of_mem comp v (Lemmas.Score.gamma_mem comp gs v hg)
    have hcv := findLevel_some_cvv comp v i hi
    have hiff := hnull _ (List.getElem_mem i.isLt)
    rw [hcv] at hiff
    simp only [Option.bind_some, hi, Option.some.injEq, exists_eq_left']
    by_cases hn : (comp[i.val]).isNull = true
    · simp [hn, hiff.mp hn]
    · have : v ≠ -1 := fun hv => hn (hiff.mpr hv)
      simp [hn, this]

theorem gammaAt_eq (θ : EM.Params ℝ) (r : EM.Row ℝ) (c : ℕ) (hc : c < θ.comps.length)
    (hg : c < r.pair.guards.length) :
    EM.gammaAt θ r c = gamma θ.comps[c] r.pair.guards[c] := by
  unfold EM.gammaAt
  rw [List.getElem?_eq_getElem hc, List.getElem?_eq_getElem hg]

theorem absPattern_eq (θ : EM.Params ℝ) (r : EM.Row ℝ) (c : Fin θ.comps.length)
    (hg : c.val < r.pair.guards.length) :
    absPattern θ r c = patOf θ.comps[c.val] r.pair.guards[c.val] := by
  show patOf _ (r.pair.guards[c.val]?.getD []) = _
  rw [List.getElem?_eq_getElem hg]
  rfl

/-- the level at position `i` of comparison `c` -/
def levelAt (θ : EM.Params ℝ) (c : Fin θ.comps.length) (i : Fin (absL θ c)) : Level ℝ :=
  (θ.comps[c.val])[i.val]'i.isLt

/-- position `i` is the first position of comparison `c` carrying its value (the position the
look-up by value `Score.bfColumn` / `findLevel` returns) -/
def IsFirst (θ : EM.Params ℝ) (c : Fin θ.comps.length) (i : Fin (absL θ c)) : Prop :=
  findLevel (θ.comps[c.val]) (levelAt θ c i).cvv = some i

/-- no two levels of a comparison carry the same `comparison_vector_value` -/
def DistinctValues (θ : EM.Params ℝ) : Prop := ∀ c ∈ θ.comps, (c.map (·.cvv)).Nodup

theorem isFirst_of_distinct (θ : EM.Params ℝ) (hnd : DistinctValues θ) (c : Fin θ.comps.length)
    (i : Fin (absL θ c)) : IsFirst θ c i :=
  findLevel_nodup _ (hnd _ (List.getElem_mem c.isLt)) i

/-- for a non-null level `i` of comparison `c` that is the first carrying its value: the
abstract pattern of the row is `i` iff the executable `gamma_c` of the row is the level's
value -/
theorem pattern_eq_some_iff (θ : EM.Params ℝ) (r : EM.Row ℝ) (c : Fin θ.comps.length)
    (i : Fin (absL θ c)) (hfirst : IsFirst θ c i)
    (hn : (levelAt θ c i).isNull = false)
    (hg : r.pair.guards.length = θ.comps.length) :
    absPattern θ r c = some i ↔ EM.gammaAt θ r c.val = some (levelAt θ c i).cvv := by
  have hc : c.val < r.pair.guards.length := by omega
  rw [absPattern_eq θ r c hc, gammaAt_eq θ r c.val c.isLt hc]
  exact patOf_eq_some_iff _ _ i hfirst hn

/-- a pattern never points to a null level, and points to a first position -/
theorem absPattern_some (θ : EM.Params ℝ) (r : EM.Row ℝ) (c : Fin θ.comps.length)
    (i : Fin (absL θ c)) (h : absPattern θ r c = some i) :
    (levelAt θ c i).isNull = false ∧ IsFirst θ c i :=
  ⟨(patOf_eq_some _ _ i h).2, patOf_eq_some_first _ _ i h⟩

theorem pattern_ne_none_iff (θ : EM.Params ℝ) (r : EM.Row ℝ) (c : Fin θ.comps.length)
    (hnull : ∀ l ∈ θ.comps[c.val], (l.isNull = true ↔ l.cvv = -1))
    (hg : r.pair.guards.length = θ.comps.length) :
    absPattern θ r c ≠ none ↔ nonNull θ c.val r = true := by
  have hc : c.val < r.pair.guards.length := by omega
  show (patOf θ.comps[c.val] (r.pair.guards[c.val]?.getD []) :
    Option (Fin (θ.comps[c.val]).length)) ≠ none ↔ _
  rw [List.getElem?_eq_getElem hc, Option.getD_some, patOf_ne_none_iff _ _ hnull]
  unfold nonNull
  rw [gammaAt_eq θ r c.val c.isLt hc]
  cases gamma θ.comps[c.val] r.pair.guards[c.val] with
  | none => simp
  | some v => simp

/-! ## 3. The abstract data of a list of rows; list sums as `Finset` sums -/

/-- the abstract data set: one agreement pattern per row (`J = Fin rows.length`) -/
def rowPatterns (θ : EM.Params ℝ) (rows : List (EM.Row ℝ)) :
    Fin rows.length → EML.Pattern θ.comps.length (absL θ) :=
  fun j => absPattern θ rows[j.val]

/-- the weights: the rows' `agreement_pattern_count` -/
def rowWeights (rows : List (EM.Row ℝ)) : Fin rows.length → ℝ :=
  fun j => ((rows[j.val]).count : ℝ)

theorem sum_filter_map_ite {β : Type} (xs : List β) (p : β → Bool) (f : β → ℝ) :
    ((xs.filter p).map f).sum = (xs.map fun x => if p x = true then f x else 0).sum := by
  induction xs with
  | nil => simp
  | cons a xs ih =>
    cases hp : p a
    · simp [hp, ih]
    · simp [hp, ih]

/-- a filtered list sum as a sum over positions -/
theorem sum_filter_map_fin {β : Type} (xs : List β) (p : β → Bool) (f : β → ℝ) :
    ((xs.filter p).map f).sum =
      ∑ j : Fin xs.length, if p xs[j.val] = true then f xs[j.val] else 0 := by
  rw [sum_filter_map_ite, ← Fin.sum_univ_fun_getElem]

theorem sum_map_fin {β : Type} (xs : List β) (f : β → ℝ) :
    (xs.map f).sum = ∑ j : Fin xs.length, f xs[j.val] :=
  (Fin.sum_univ_fun_getElem xs f).symm

/-! ## 4. The executable sums are the abstract sums -/

section sums
variable (θ : EM.Params ℝ) (rows : List (EM.Row ℝ))

/-- hypothesis shared by the lemmas below: on every row the E-step is the abstract posterior
(`eProb_eq_post_abs` derives it from the E-step bridge hypotheses) -/
def EStepBridged : Prop :=
  ∀ r ∈ rows, EM.eProb θ r = EML.post (absParams θ) (absPattern θ r)

/-- every row supplies condition outcomes for exactly the model's comparisons -/
def GuardsMatch : Prop := ∀ r ∈ rows, r.pair.guards.length = θ.comps.length

theorem generic_count_eq (c : Fin θ.comps.length) (i : Fin (absL θ c))
    (hfirst : IsFirst θ c i) (hn : (levelAt θ c i).isNull = false)
    (hg : GuardsMatch θ rows) (f : EM.Row ℝ → ℝ) (w : Fin rows.length → ℝ)
    (hfw : ∀ j : Fin rows.length, f rows[j.val] = w j) :
    ((rows.filter fun r => EM.gammaAt θ r c.val == some (levelAt θ c i).cvv).map f).sum =
      EML.cnt (rowPatterns θ rows) w c i := by
  rw [sum_filter_map_fin]
  unfold EML.cnt
  rw [Finset.sum_filter]
  refine Finset.sum_congr rfl fun j _ => ?_
  have hk := pattern_eq_some_iff θ rows[j.val] c i hfirst hn (hg _ (List.getElem_mem j.isLt))
  by_cases h : rowPatterns θ rows j c = some i
  · rw [if_pos h, if_pos (by simpa using hk.mp h), hfw]
  · rw [if_neg h, if_neg (fun h' => h (hk.mpr (by simpa using h')))]

theorem generic_den_eq (c : Fin θ.comps.length)
    (hnull : ∀ l ∈ θ.comps[c.val], (l.isNull = true ↔ l.cvv = -1))
    (hg : GuardsMatch θ rows) (f : EM.Row ℝ → ℝ) (w : Fin rows.length → ℝ)
    (hfw : ∀ j : Fin rows.length, f rows[j.val] = w j) :
    ((rows.filter (nonNull θ c.val)).map f).sum = EML.den (rowPatterns θ rows) w c := by
  rw [sum_filter_map_fin]
  unfold EML.den
  rw [Finset.sum_filter]
  refine Finset.sum_congr rfl fun j _ => ?_
  have hk := pattern_ne_none_iff θ rows[j.val] c hnull (hg _ (List.getElem_mem j.isLt))
  by_cases h : rowPatterns θ rows j c ≠ none
  · rw [if_pos h, if_pos (hk.mp h), hfw]
  · rw [if_neg h, if_neg (fun h' => h (hk.mpr h'))]

theorem wM_row (hE : EStepBridged θ rows) (j : Fin rows.length) :
    EM.eProb θ rows[j.val] * ((rows[j.val]).count : ℝ) =
      EML.wM (rowPatterns θ rows) (rowWeights rows) (absParams θ) j := by
  unfold EML.wM rowWeights rowPatterns
  rw [hE _ (List.getElem_mem j.isLt), mul_comm]

theorem wU_row (hE : EStepBridged θ rows) (j : Fin rows.length) :
    (1 - EM.eProb θ rows[j.val]) * ((rows[j.val]).count : ℝ) =
      EML.wU (rowPatterns θ rows) (rowWeights rows) (absParams θ) j := by
  unfold EML.wU rowWeights rowPatterns
  rw [hE _ (List.getElem_mem j.isLt), mul_comm]

/-- `sum(match_probability * count) … group by gamma_c` at the value of level `i` is the
abstract count `∑_{j : γ_j c = i} n_j·post_j` -/
theorem mCount_eq_cnt (c : Fin θ.comps.length) (i : Fin (absL θ c))
    (hfirst : IsFirst θ c i) (hn : (levelAt θ c i).isNull = false)
    (hg : GuardsMatch θ rows) (hE : EStepBridged θ rows) :
    EM.mCount θ rows c.val (levelAt θ c i).cvv =
      EML.cnt (rowPatterns θ rows)
        (EML.wM (rowPatterns θ rows) (rowWeights rows) (absParams θ)) c i := by
  rw [mCount_eq]
  exact generic_count_eq θ rows c i hfirst hn hg _ _ (wM_row θ rows hE)

theorem uCount_eq_cnt (c : Fin θ.comps.length) (i : Fin (absL θ c))
    (hfirst : IsFirst θ c i) (hn : (levelAt θ c i).isNull = false)
    (hg : GuardsMatch θ rows) (hE : EStepBridged θ rows) :
    EM.uCount θ rows c.val (levelAt θ c i).cvv =
      EML.cnt (rowPatterns θ rows)
        (EML.wU (rowPatterns θ rows) (rowWeights rows) (absParams θ)) c i := by
  rw [uCount_eq]
  exact generic_count_eq θ rows c i hfirst hn hg _ _ (wU_row θ rows hE)

/-- the window sum over the groups surviving `comparison_vector_value != -1` (a `foldl` over
`observedValues`, an `eraseDups` list) is the abstract `∑_{j : γ_j c ≠ null} n_j·post_j` -/
theorem denomM_eq_den (c : Fin θ.comps.length)
    (hnull : ∀ l ∈ θ.comps[c.val], (l.isNull = true ↔ l.cvv = -1))
    (hg : GuardsMatch θ rows) (hE : EStepBridged θ rows) :
    EM.denomM θ rows c.val =
      EML.den (rowPatterns θ rows)
        (EML.wM (rowPatterns θ rows) (rowWeights rows) (absParams θ)) c := by
  rw [denomM_rows]
  exact generic_den_eq θ rows c hnull hg _ _ (wM_row θ rows hE)

theorem denomU_eq_den (c : Fin θ.comps.length)
    (hnull : ∀ l ∈ θ.comps[c.val], (l.isNull = true ↔ l.cvv = -1))
    (hg : GuardsMatch θ rows) (hE : EStepBridged θ rows) :
    EM.denomU θ rows c.val =
      EML.den (rowPatterns θ rows)
        (EML.wU (rowPatterns θ rows) (rowWeights rows) (absParams θ)) c := by
  rw [denomU_rows]
  exact generic_den_eq θ rows c hnull hg _ _ (wU_row θ rows hE)

/-- `sum(p * count) / sum(count)` is the abstract `lamNew` -/
theorem lambdaNew_eq_lamNew (hE : EStepBridged θ rows) :
    EM.lambdaNew θ rows =
      EML.lamNew (rowPatterns θ rows) (rowWeights rows) (absParams θ) := by
  rw [lambdaNew_eq, sum_map_fin, sum_map_fin]
  unfold EML.lamNew
  congr 1
  refine Finset.sum_congr rfl fun j _ => ?_
  exact wM_row θ rows hE j

/-- a first position occurs in the abstract data iff its value is one of the groups that
survive `comparison_vector_value != -1` -/
theorem observed_iff (c : Fin θ.comps.length) (i : Fin (absL θ c)) (hfirst : IsFirst θ c i)
    (hnull : ∀ l ∈ θ.comps[c.val], (l.isNull = true ↔ l.cvv = -1))
    (hg : GuardsMatch θ rows) :
    EML.Observed (rowPatterns θ rows) c i ↔
      (levelAt θ c i).cvv ∈ EM.observedValues θ rows c.val := by
  rw [mem_observedValues]
  have hiff : (levelAt θ c i).isNull = true ↔ (levelAt θ c i).cvv = -1 :=
    hnull _ (List.getElem_mem i.isLt)
  by_cases hn : (levelAt θ c i).isNull = true
  · constructor
    · rintro ⟨j, hj⟩
      have := (absPattern_some θ rows[j.val] c i hj).1
      exact absurd (hn.symm.trans this) (by simp)
    · rintro ⟨_, hne⟩
      exact absurd (hiff.mp hn) hne
  · have hn' : (levelAt θ c i).isNull = false := by simpa using hn
    have hne : (levelAt θ c i).cvv ≠ -1 := fun h => hn (hiff.mpr h)
    constructor
    · rintro ⟨j, hj⟩
      refine ⟨⟨rows[j.val], List.getElem_mem j.isLt, ?_⟩, hne⟩
      exact (pattern_eq_some_iff θ rows[j.val] c i hfirst hn'
        (hg _ (List.getElem_mem j.isLt))).mp hj
    · rintro ⟨⟨r, hr, hgam⟩, _⟩
      obtain ⟨j, hj, rfl⟩ := List.mem_iff_getElem.mp hr
      exact ⟨⟨j, hj⟩, (pattern_eq_some_iff θ rows[j] c i hfirst hn' (hg _ hr)).mpr hgam⟩

/-- a position that occurs in the abstract data carries a value that survives
`comparison_vector_value != -1` -/
theorem observed_mem (c : Fin θ.comps.length) (i : Fin (absL θ c))
    (hnull : ∀ l ∈ θ.comps[c.val], (l.isNull = true ↔ l.cvv = -1))
    (hg : GuardsMatch θ rows) (h : EML.Observed (rowPatterns θ rows) c i) :
    (levelAt θ c i).cvv ∈ EM.observedValues θ rows c.val := by
  obtain ⟨j, hj⟩ := h
  exact (observed_iff θ rows c i (absPattern_some θ rows[j.val] c i hj).2 hnull hg).mp ⟨j, hj⟩

end sums

/-! ## 5. One level, one block: `newLevel` against `EML.emStep` -/

section step
variable (sess : EM.Session) (θ : EM.Params ℝ) (rows : List (EM.Row ℝ))

/-- The abstract EM step on the abstraction of `θ` and of `rows`: index set
`Fin rows.length`, patterns `absPattern θ rows[j]`, weights `rows[j].count`, the session's
three flags, placeholder 1e-6. -/
noncomputable def absStep : EML.Params θ.comps.length (absL θ) :=
  EML.emStep sess.fixM sess.fixU sess.fixLambda (1 / 1000000) (rowPatterns θ rows)
    (rowWeights rows) (absParams θ)

/-- the null levels are exactly the levels carrying the value −1 -/
def NullIsMinusOne (θ : EM.Params ℝ) : Prop :=
  ∀ c ∈ θ.comps, ∀ l ∈ c, (l.isNull = true ↔ l.cvv = -1)

theorem newLevel_m_eq (c : Fin θ.comps.length) (i : Fin (absL θ c))
    (hfirst : IsFirst θ c i) (hnull : NullIsMinusOne θ)
    (hn : (levelAt θ c i).isNull = false)
    (hg : GuardsMatch θ rows) (hE : EStepBridged θ rows) :
    (newLevel sess θ rows c.val (levelAt θ c i)).m = (absStep sess θ rows).m c i := by
  have hnull' := hnull _ (List.getElem_mem c.isLt)
  unfold newLevel absStep EML.emStep
  rw [if_neg (by simp [hn])]
  cases hf : sess.fixM
  · simp only [Bool.false_eq_true, if_false]
    by_cases hobs : EML.Observed (rowPatterns θ rows) c i
    · have hmem := (observed_iff θ rows c i hfirst hnull' hg).mp hobs
      rw [newM_of_mem θ rows c.val _ hmem, Option.getD_some,
        EML.newBlock_observed _ _ _ _ _ hobs, mCount_eq_cnt θ rows c i hfirst hn hg hE,
        denomM_eq_den θ rows c hnull' hg hE]
    · have hmem : (levelAt θ c i).cvv ∉ EM.observedValues θ rows c.val :=
        fun h => hobs ((observed_iff θ rows c i hfirst hnull' hg).mpr h)
      rw [newM_of_not_mem θ rows c.val _ hmem, Option.getD_none,
        EML.newBlock_unobserved _ _ _ _ _ hobs]
  · rfl

theorem newLevel_u_eq (c : Fin θ.comps.length) (i : Fin (absL θ c))
    (hfirst : IsFirst θ c i) (hnull : NullIsMinusOne θ)
    (hn : (levelAt θ c i).isNull = false)
    (hg : GuardsMatch θ rows) (hE : EStepBridged θ rows) :
    (newLevel sess θ rows c.val (levelAt θ c i)).u = (absStep sess θ rows).u c i := by
  have hnull' := hnull _ (List.getElem_mem c.isLt)
  unfold newLevel absStep EML.emStep
  rw [if_neg (by simp [hn])]
  cases hf : sess.fixU
  · simp only [Bool.false_eq_true, if_false]
    by_cases hobs : EML.Observed (rowPatterns θ rows) c i
    · have hmem := (observed_iff θ rows c i hfirst hnull' hg).mp hobs
      rw [newU_of_mem θ rows c.val _ hmem, Option.getD_some,
        EML.newBlock_observed _ _ _ _ _ hobs, uCount_eq_cnt θ rows c i hfirst hn hg hE,
        denomU_eq_den θ rows c hnull' hg hE]
    · have hmem : (levelAt θ c i).cvv ∉ EM.observedValues θ rows c.val :=
        fun h => hobs ((observed_iff θ rows c i hfirst hnull' hg).mpr h)
      rw [newU_of_not_mem θ rows c.val _ hmem, Option.getD_none,
        EML.newBlock_unobserved _ _ _ _ _ hobs]
  · rfl

theorem step_prior_eq (hE : EStepBridged θ rows) :
    (EM.step sess θ rows).prior = (absStep sess θ rows).lam := by
  unfold absStep EML.emStep
  cases hf : sess.fixLambda
  · simp only [EM.step, hf, Bool.false_eq_true, if_false]
    exact lambdaNew_eq_lamNew θ rows hE
  · simp only [EM.step, hf, if_true]
    rfl

end step

/-! ## 6. The whole step -/

section main
variable (sess : EM.Session) (θ : EM.Params ℝ) (rows : List (EM.Row ℝ))

theorem step_comps_length (hshape : SameShape θ) (hflags : LevelFlagsOff θ) :
    (EM.step sess θ rows).comps.length = θ.comps.length := by
  rw [step_comps sess θ rows hshape hflags, List.length_mapIdx]

theorem step_comp_getElem (hshape : SameShape θ) (hflags : LevelFlagsOff θ) (c : ℕ)
    (h' : c < (EM.step sess θ rows).comps.length) (h : c < θ.comps.length) :
    (EM.step sess θ rows).comps[c] = (θ.comps[c]).map (newLevel sess θ rows c) := by
  rw [List.getElem_of_eq (step_comps sess θ rows hshape hflags) h', List.getElem_mapIdx]

theorem step_absL (hshape : SameShape θ) (hflags : LevelFlagsOff θ)
    (c : Fin (EM.step sess θ rows).comps.length) :
    absL (EM.step sess θ rows) c =
      absL θ (Fin.cast (step_comps_length sess θ rows hshape hflags) c) := by
  unfold absL
  rw [step_comp_getElem sess θ rows hshape hflags c.val c.isLt
    (by rw [← step_comps_length sess θ rows hshape hflags]; exact c.isLt)]
  simp

/-- the level stored at a position after the step is `newLevel` of the level stored there
before -/
theorem step_levelAt (hshape : SameShape θ) (hflags : LevelFlagsOff θ)
    (c : Fin (EM.step sess θ rows).comps.length) (i : Fin (absL (EM.step sess θ rows) c)) :
    levelAt (EM.step sess θ rows) c i =
      newLevel sess θ rows c.val
        (levelAt θ (Fin.cast (step_comps_length sess θ rows hshape hflags) c)
          (Fin.cast (step_absL sess θ rows hshape hflags c) i)) := by
  unfold levelAt
  have hc : c.val < θ.comps.length := by
    rw [← step_comps_length sess θ rows hshape hflags]; exact c.isLt
  rw [List.getElem_of_eq (step_comp_getElem sess θ rows hshape hflags c.val c.isLt hc) i.isLt,
    List.getElem_map]
  rfl

/-- transport of abstract parameters along an equality of shapes (no `▸`: the indices are
cast) -/
def castParams {C C' : ℕ} {L : Fin C → ℕ} {L' : Fin C' → ℕ} (hC : C' = C)
    (hL : ∀ c : Fin C', L' c = L (Fin.cast hC c)) (p : EML.Params C L) : EML.Params C' L' where
  lam := p.lam
  m := fun c i => p.m (Fin.cast hC c) (Fin.cast (hL c) i)
  u := fun c i => p.u (Fin.cast hC c) (Fin.cast (hL c) i)

/-- **M-step bridge on the position-indexed abstraction `absParams`.**  After `EM.step` the
prior is the abstract `lam`; at every position holding a non-null level `m` and `u` are those
of the abstract step; a position holding a null level keeps what was stored there (the
abstract step writes the placeholder into this never-read slot). -/
theorem absParams_step (hshape : SameShape θ) (hflags : LevelFlagsOff θ)
    (hnd : DistinctValues θ) (hnull : NullIsMinusOne θ)
    (hg : GuardsMatch θ rows) (hE : EStepBridged θ rows) :
    (absParams (EM.step sess θ rows)).lam = (absStep sess θ rows).lam ∧
    ∀ (c : Fin (EM.step sess θ rows).comps.length) (i : Fin (absL (EM.step sess θ rows) c)),
      ((levelAt (EM.step sess θ rows) c i).isNull = false →
        (absParams (EM.step sess θ rows)).m c i =
          (castParams (step_comps_length sess θ rows hshape hflags)
            (step_absL sess θ rows hshape hflags) (absStep sess θ rows)).m c i ∧
        (absParams (EM.step sess θ rows)).u c i =
          (castParams (step_comps_length sess θ rows hshape hflags)
            (step_absL sess θ rows hshape hflags) (absStep sess θ rows)).u c i) ∧
      ((levelAt (EM.step sess θ rows) c i).isNull = true →
        (absParams (EM.step sess θ rows)).m c i =
          (castParams (step_comps_length sess θ rows hshape hflags)
            (step_absL sess θ rows hshape hflags) (absParams θ)).m c i ∧
        (absParams (EM.step sess θ rows)).u c i =
          (castParams (step_comps_length sess θ rows hshape hflags)
            (step_absL sess θ rows hshape hflags) (absParams θ)).u c i) := by
  refine ⟨step_prior_eq sess θ rows hE, fun c i => ⟨fun hn => ?_, fun hn => ?_⟩⟩
  · have hl := step_levelAt sess θ rows hshape hflags c i
    rw [hl, newLevel_isNull] at hn
    have e1 : (absParams (EM.step sess θ rows)).m c i = (levelAt (EM.step sess θ rows) c i).m := rfl
    have e2 : (absParams (EM.step sess θ rows)).u c i = (levelAt (EM.step sess θ rows) c i).u := rfl
    rw [e1, e2, hl]
    exact ⟨newLevel_m_eq sess θ rows _ _ (isFirst_of_distinct θ hnd _ _) hnull hn hg hE,
      newLevel_u_eq sess θ rows _ _ (isFirst_of_distinct θ hnd _ _) hnull hn hg hE⟩
  · have hl := step_levelAt sess θ rows hshape hflags c i
    rw [hl, newLevel_isNull] at hn
    have e1 : (absParams (EM.step sess θ rows)).m c i = (levelAt (EM.step sess θ rows) c i).m := rfl
    have e2 : (absParams (EM.step sess θ rows)).u c i = (levelAt (EM.step sess θ rows) c i).u := rfl
    rw [e1, e2, hl, newLevel_null _ _ _ _ _ hn]
    exact ⟨rfl, rfl⟩

end main

/-! ## 7. A literal equality: the canonical abstraction

`absParams` has one slot per level *position*, also for the null level, whose slot no
pattern ever reads.  `EM.step` leaves whatever is stored there, `EML.emStep` writes the
placeholder, so `absParams (step …) = emStep … (absParams …)` can fail in that slot
(`C03MB.step_deviates_when_null_slot_not_placeholder`).  Canonicalising the unread slot makes
the bridge a literal equality of abstract parameters. -/

theorem params_ext {C : ℕ} {L : Fin C → ℕ} (p q : EML.Params C L) (hl : p.lam = q.lam)
    (hm : ∀ c i, p.m c i = q.m c i) (hu : ∀ c i, p.u c i = q.u c i) : p = q := by
  cases p; cases q
  simp only [EML.Params.mk.injEq]
  exact ⟨hl, funext fun c => funext (hm c), funext fun c => funext (hu c)⟩

theorem fac_congr {C : ℕ} {L : Fin C → ℕ} (w w' : EML.Block C L) (γ : EML.Pattern C L)
    (c : Fin C) (h : ∀ l, γ c = some l → w c l = w' c l) : EML.fac w γ c = EML.fac w' γ c := by
  rw [EML.fac_eq, EML.fac_eq]
  cases hγ : γ c with
  | none => rfl
  | some l => exact h l hγ

/-- likelihood and posterior only read the slots the pattern points to -/
theorem lik_post_congr {C : ℕ} {L : Fin C → ℕ} (p q : EML.Params C L) (γ : EML.Pattern C L)
    (hl : p.lam = q.lam) (hm : ∀ c l, γ c = some l → p.m c l = q.m c l)
    (hu : ∀ c l, γ c = some l → p.u c l = q.u c l) :
    EML.lik p γ = EML.lik q γ ∧ EML.post p γ = EML.post q γ := by
  have h1 : EML.pm p γ = EML.pm q γ := by
    unfold EML.pm
    rw [hl, Finset.prod_congr rfl fun c _ => fac_congr p.m q.m γ c (hm c)]
  have h2 : EML.pu p γ = EML.pu q γ := by
    unfold EML.pu
    rw [hl, Finset.prod_congr rfl fun c _ => fac_congr p.u q.u γ c (hu c)]
  unfold EML.post EML.lik
  rw [h1, h2]
  exact ⟨rfl, rfl⟩

/-- the abstraction of `θ` with the never-read slots of the null levels set to the
placeholder 1e-6 -/
noncomputable def absParamsC (θ : EM.Params ℝ) : EML.Params θ.comps.length (absL θ) where
  lam := θ.prior
  m := fun c i => if (levelAt θ c i).isNull then 1 / 1000000 else (levelAt θ c i).m
  u := fun c i => if (levelAt θ c i).isNull then 1 / 1000000 else (levelAt θ c i).u

/-- a pattern never points to a null level -/
theorem absPattern_nonNull (θ : EM.Params ℝ) (r : EM.Row ℝ) (c : Fin θ.comps.length)
    (i : Fin (absL θ c)) (h : absPattern θ r c = some i) : (levelAt θ c i).isNull = false :=
  (absPattern_some θ r c i h).1

theorem absParamsC_agree (θ : EM.Params ℝ) (c : Fin θ.comps.length) (i : Fin (absL θ c))
    (hn : (levelAt θ c i).isNull = false) :
    (absParamsC θ).m c i = (absParams θ).m c i ∧ (absParamsC θ).u c i = (absParams θ).u c i := by
  unfold absParamsC
  simp only [hn, Bool.false_eq_true, if_false]
  exact ⟨rfl, rfl⟩

theorem lik_post_absParamsC (θ : EM.Params ℝ) (r : EM.Row ℝ) :
    EML.lik (absParamsC θ) (absPattern θ r) = EML.lik (absParams θ) (absPattern θ r) ∧
    EML.post (absParamsC θ) (absPattern θ r) = EML.post (absParams θ) (absPattern θ r) :=
  lik_post_congr _ _ _ rfl
    (fun c l h => (absParamsC_agree θ c l (absPattern_nonNull θ r c l h)).1)
    (fun c l h => (absParamsC_agree θ c l (absPattern_nonNull θ r c l h)).2)

section canonical
variable (sess : EM.Session) (θ : EM.Params ℝ) (rows : List (EM.Row ℝ))

/-- the abstract EM step on the canonical abstraction -/
noncomputable def absStepC : EML.Params θ.comps.length (absL θ) :=
  EML.emStep sess.fixM sess.fixU sess.fixLambda (1 / 1000000) (rowPatterns θ rows)
    (rowWeights rows) (absParamsC θ)

theorem wM_absParamsC :
    EML.wM (rowPatterns θ rows) (rowWeights rows) (absParamsC θ) =
      EML.wM (rowPatterns θ rows) (rowWeights rows) (absParams θ) := by
  funext j
  unfold EML.wM rowPatterns
  rw [(lik_post_absParamsC θ rows[j.val]).2]

theorem wU_absParamsC :
    EML.wU (rowPatterns θ rows) (rowWeights rows) (absParamsC θ) =
      EML.wU (rowPatterns θ rows) (rowWeights rows) (absParams θ) := by
  funext j
  unfold EML.wU rowPatterns
  rw [(lik_post_absParamsC θ rows[j.val]).2]

theorem not_observed_of_null (c : Fin θ.comps.length) (i : Fin (absL θ c))
    (hn : (levelAt θ c i).isNull = true) : ¬ EML.Observed (rowPatterns θ rows) c i := by
  rintro ⟨j, hj⟩
  have := absPattern_nonNull θ rows[j.val] c i hj
  exact absurd (hn.symm.trans this) (by simp)

theorem absStepC_lam : (absStepC sess θ rows).lam = (absStep sess θ rows).lam := by
  unfold absStepC absStep EML.emStep
  cases sess.fixLambda
  · simp only [Bool.false_eq_true, if_false]
    unfold EML.lamNew
    congr 1
    exact Finset.sum_congr rfl fun j _ => congrFun (wM_absParamsC θ rows) j
  · rfl

theorem absStepC_nonNull (c : Fin θ.comps.length) (i : Fin (absL θ c))
    (hn : (levelAt θ c i).isNull = false) :
    (absStepC sess θ rows).m c i = (absStep sess θ rows).m c i ∧
    (absStepC sess θ rows).u c i = (absStep sess θ rows).u c i := by
  unfold absStepC absStep EML.emStep
  constructor
  · cases sess.fixM
    · simp only [Bool.false_eq_true, if_false, wM_absParamsC]
    · exact (absParamsC_agree θ c i hn).1
  · cases sess.fixU
    · simp only [Bool.false_eq_true, if_false, wU_absParamsC]
    · exact (absParamsC_agree θ c i hn).2

theorem absStepC_null (c : Fin θ.comps.length) (i : Fin (absL θ c))
    (hn : (levelAt θ c i).isNull = true) :
    (absStepC sess θ rows).m c i = 1 / 1000000 ∧ (absStepC sess θ rows).u c i = 1 / 1000000 := by
  have hno := not_observed_of_null θ rows c i hn
  unfold absStepC EML.emStep
  constructor
  · cases sess.fixM
    · simp only [Bool.false_eq_true, if_false]
      exact EML.newBlock_unobserved _ _ _ _ _ hno
    · simp [absParamsC, hn]
  · cases sess.fixU
    · simp only [Bool.false_eq_true, if_false]
      exact EML.newBlock_unobserved _ _ _ _ _ hno
    · simp [absParamsC, hn]

/-- **M-step bridge, as an equality of abstract parameters.** -/
theorem absParamsC_step (hshape : SameShape θ) (hflags : LevelFlagsOff θ)
    (hnd : DistinctValues θ) (hnull : NullIsMinusOne θ)
    (hg : GuardsMatch θ rows) (hE : EStepBridged θ rows) :
    absParamsC (EM.step sess θ rows) =
      castParams (step_comps_length sess θ rows hshape hflags)
        (step_absL sess θ rows hshape hflags) (absStepC sess θ rows) := by
  have hA := absParams_step sess θ rows hshape hflags hnd hnull hg hE
  apply params_ext
  · show (EM.step sess θ rows).prior = (absStepC sess θ rows).lam
    rw [absStepC_lam]
    exact hA.1
  · intro c i
    have hl := step_levelAt sess θ rows hshape hflags c i
    by_cases hn : (levelAt (EM.step sess θ rows) c i).isNull = true
    · have hn' := hn
      rw [hl, newLevel_isNull] at hn'
      have e : (absParamsC (EM.step sess θ rows)).m c i = 1 / 1000000 := by
        simp [absParamsC, hn]
      rw [e]
      exact ((absStepC_null sess θ rows _ _ hn').1).symm
    · have hn0 : (levelAt (EM.step sess θ rows) c i).isNull = false := by simpa using hn
      have hn' := hn0
      rw [hl, newLevel_isNull] at hn'
      rw [(absParamsC_agree _ c i hn0).1, ((hA.2 c i).1 hn0).1]
      exact ((absStepC_nonNull sess θ rows _ _ hn').1).symm
  · intro c i
    have hl := step_levelAt sess θ rows hshape hflags c i
    by_cases hn : (levelAt (EM.step sess θ rows) c i).isNull = true
    · have hn' := hn
      rw [hl, newLevel_isNull] at hn'
      have e : (absParamsC (EM.step sess θ rows)).u c i = 1 / 1000000 := by
        simp [absParamsC, hn]
      rw [e]
      exact ((absStepC_null sess θ rows _ _ hn').2).symm
    · have hn0 : (levelAt (EM.step sess θ rows) c i).isNull = false := by simpa using hn
      have hn' := hn0
      rw [hl, newLevel_isNull] at hn'
      rw [(absParamsC_agree _ c i hn0).2, ((hA.2 c i).1 hn0).2]
      exact ((absStepC_nonNull sess θ rows _ _ hn').2).symm

end canonical

/-! ## 8. The log-likelihood of executable parameters

Defined from the executable model only: the level a row selects in comparison `ci` is the
first level carrying the row's `gamma_ci` (the look-up `Score.bfColumn` performs); it
contributes its `m` to the match class and its `u` to the non-match class, the null level
contributes 1 (`Score.levelBF`). -/

/-- the level of comparison `ci` the row selects -/
def rowLevel (θ : EM.Params ℝ) (r : EM.Row ℝ) (ci : ℕ) : Option (Level ℝ) :=
  match θ.comps[ci]?, EM.gammaAt θ r ci with
  | some c, some v => c.find? fun l => l.cvv == v
  | _, _ => none

/-- factor of the selected level in the match class -/
def mFactor : Option (Level ℝ) → ℝ
  | some l => if l.isNull then 1 else l.m
  | none => 1

/-- factor of the selected level in the non-match class -/
def uFactor : Option (Level ℝ) → ℝ
  | some l => if l.isNull then 1 else l.u
  | none => 1

/-- `P(row) = prior · ∏_c m_c(level of the row) + (1 − prior) · ∏_c u_c(level of the row)` -/
noncomputable def execLik (θ : EM.Params ℝ) (r : EM.Row ℝ) : ℝ :=
  θ.prior * ((List.range θ.comps.length).map fun ci => mFactor (rowLevel θ r ci)).prod +
    (1 - θ.prior) * ((List.range θ.comps.length).map fun ci => uFactor (rowLevel θ r ci)).prod

/-- observed-data log-likelihood of the rows: `∑_rows count · log P(row)` -/
noncomputable def execLogLik (θ : EM.Params ℝ) (rows : List (EM.Row ℝ)) : ℝ :=
  (rows.map fun r => (r.count : ℝ) * Real.log (execLik θ r)).sum

theorem prod_map_range (n : ℕ) (f : ℕ → ℝ) :
    ((List.range n).map f).prod = ∏ i : Fin n, f i.val := by
  induction n with
  | zero => simp
  | succ n ih =>
    rw [List.range_succ, List.map_append, List.prod_append, ih, Fin.prod_univ_castSucc]
    simp

/-- `execLik` is the abstract likelihood of any abstract parameters/pattern that agree with the
executable ones comparison by comparison -/
theorem execLik_eq_lik (θ₁ : EM.Params ℝ) (r : EM.Row ℝ) {C : ℕ} {L : Fin C → ℕ}
    (θa : EML.Params C L) (γ : EML.Pattern C L)
    (hlen : θ₁.comps.length = C) (hprior : θ₁.prior = θa.lam)
    (hm : ∀ c : Fin C, mFactor (rowLevel θ₁ r c.val) = EML.fac θa.m γ c)
    (hu : ∀ c : Fin C, uFactor (rowLevel θ₁ r c.val) = EML.fac θa.u γ c) :
    execLik θ₁ r = EML.lik θa γ := by
  subst hlen
  unfold execLik EML.lik EML.pm EML.pu
  rw [prod_map_range, prod_map_range, hprior,
    Finset.prod_congr rfl fun c _ => hm c, Finset.prod_congr rfl fun c _ => hu c]

theorem rowLevel_eq (θ : EM.Params ℝ) (r : EM.Row ℝ) (c : ℕ) (hc : c < θ.comps.length)
    (hg : c < r.pair.guards.length) :
    rowLevel θ r c =
      (gamma θ.comps[c] r.pair.guards[c]).bind fun v => (θ.comps[c]).find? fun l => l.cvv == v := by
  unfold rowLevel
  rw [gammaAt_eq θ r c hc hg, List.getElem?_eq_getElem hc]
  cases gamma θ.comps[c] r.pair.guards[c] <;> rfl

/-- what a row selects in a comparison, executable and abstract side by side -/
theorem rowLevel_cases (θ : EM.Params ℝ) (r : EM.Row ℝ) (c : Fin θ.comps.length)
    (hg : r.pair.guards.length = θ.comps.length) :
    (absPattern θ r c = none ∧
      (rowLevel θ r c.val = none ∨ ∃ l, rowLevel θ r c.val = some l ∧ l.isNull = true)) ∨
    (∃ i, absPattern θ r c = some i ∧ rowLevel θ r c.val = some (levelAt θ c i) ∧
      (levelAt θ c i).isNull = false ∧ IsFirst θ c i) := by
  have hc : c.val < r.pair.guards.length := by omega
  rw [rowLevel_eq θ r c.val c.isLt hc]
  have ep : absPattern θ r c = patOf θ.comps[c.val] r.pair.guards[c.val] :=
    absPattern_eq θ r c hc
  unfold patOf at ep
  cases hgam : gamma θ.comps[c.val] r.pair.guards[c.val] with
  | none =>
    left
    rw [hgam] at ep
    exact ⟨ep, Or.inl rfl⟩
  | some v =>
    rw [hgam] at ep
    simp only [Option.bind_some] at ep ⊢
    rw [find?_eq_findLevel]
    cases hf : findLevel θ.comps[c.val] v with
    | none =>
      left
      rw [hf] at ep
      exact ⟨ep, Or.inl rfl⟩
    | some i =>
      rw [hf] at ep
      simp only [Option.bind_some] at ep
      by_cases hn : ((θ.comps[c.val])[i.val]).isNull = true
      · left
        rw [if_pos hn] at ep
        exact ⟨ep, Or.inr ⟨_, rfl, hn⟩⟩
      · right
        rw [if_neg hn] at ep
        have hn' : ((θ.comps[c.val])[i.val]).isNull = false := by simpa using hn
        exact ⟨i, ep, rfl, hn', (absPattern_some θ r c i ep).2⟩

theorem mFactor_uFactor_abs (θ : EM.Params ℝ) (r : EM.Row ℝ) (c : Fin θ.comps.length)
    (hg : r.pair.guards.length = θ.comps.length) :
    mFactor (rowLevel θ r c.val) = EML.fac (absParams θ).m (absPattern θ r) c ∧
    uFactor (rowLevel θ r c.val) = EML.fac (absParams θ).u (absPattern θ r) c := by
  rw [EML.fac_eq, EML.fac_eq]
  rcases rowLevel_cases θ r c hg with ⟨hp, hr | ⟨l, hr, hl⟩⟩ | ⟨i, hp, hr, hn, _⟩
  · rw [hp, hr]; exact ⟨rfl, rfl⟩
  · rw [hp, hr]; simp [mFactor, uFactor, hl]
  · rw [hp, hr]
    simp only [mFactor, uFactor, hn, Bool.false_eq_true, if_false]
    exact ⟨rfl, rfl⟩

/-- **the executable likelihood of a row is the abstract likelihood of its pattern** -/
theorem execLik_abs (θ : EM.Params ℝ) (r : EM.Row ℝ)
    (hg : r.pair.guards.length = θ.comps.length) :
    execLik θ r = EML.lik (absParams θ) (absPattern θ r) :=
  execLik_eq_lik θ r (absParams θ) (absPattern θ r) rfl rfl
    (fun c => (mFactor_uFactor_abs θ r c hg).1) (fun c => (mFactor_uFactor_abs θ r c hg).2)

/-- **the executable log-likelihood is `EML.logLik` of the abstraction** -/
theorem execLogLik_abs (θ : EM.Params ℝ) (rows : List (EM.Row ℝ)) (hg : GuardsMatch θ rows) :
    execLogLik θ rows = EML.logLik (rowPatterns θ rows) (rowWeights rows) (absParams θ) := by
  unfold execLogLik EML.logLik
  rw [sum_map_fin]
  refine Finset.sum_congr rfl fun j _ => ?_
  rw [execLik_abs θ rows[j.val] (hg _ (List.getElem_mem j.isLt))]
  rfl

theorem gamma_map (f : Level ℝ → Level ℝ) (hcvv : ∀ l, (f l).cvv = l.cvv)
    (helse : ∀ l, (f l).isElse = l.isElse) (comp : Comparison ℝ) (gs : List B3) :
    gamma (comp.map f) gs = gamma comp gs := by
  induction comp generalizing gs with
  | nil => rfl
  | cons l ls ih =>
    cases gs with
    | nil => simp [gamma, hcvv, helse]
    | cons g gs' => simp [gamma, hcvv, helse, ih]

section stepLik
variable (sess : EM.Session) (θ : EM.Params ℝ) (rows : List (EM.Row ℝ))

/-- the step changes neither the `gamma` of a row nor which level it selects -/
theorem rowLevel_step (hshape : SameShape θ) (hflags : LevelFlagsOff θ) (r : EM.Row ℝ) (c : ℕ)
    (hc : c < θ.comps.length) :
    rowLevel (EM.step sess θ rows) r c = (rowLevel θ r c).map (newLevel sess θ rows c) := by
  unfold rowLevel EM.gammaAt
  rw [step_comps sess θ rows hshape hflags, List.getElem?_mapIdx, List.getElem?_eq_getElem hc]
  simp only [Option.map_some]
  cases r.pair.guards[c]? with
  | none => rfl
  | some gs =>
    simp only
    rw [gamma_map _ (newLevel_cvv sess θ rows c) (newLevel_isElse sess θ rows c)]
    cases gamma θ.comps[c] gs with
    | none => rfl
    | some v =>
      simp only
      rw [List.find?_map]
      congr 1
      apply List.find?_congr
      intro l _
      simp [newLevel_cvv]

theorem mFactor_uFactor_step (hshape : SameShape θ) (hflags : LevelFlagsOff θ)
    (hnull : NullIsMinusOne θ)
    (hg : GuardsMatch θ rows) (hE : EStepBridged θ rows)
    (r : EM.Row ℝ) (hgr : r.pair.guards.length = θ.comps.length) (c : Fin θ.comps.length) :
    mFactor (rowLevel (EM.step sess θ rows) r c.val) =
      EML.fac (absStep sess θ rows).m (absPattern θ r) c ∧
    uFactor (rowLevel (EM.step sess θ rows) r c.val) =
      EML.fac (absStep sess θ rows).u (absPattern θ r) c := by
  rw [EML.fac_eq, EML.fac_eq, rowLevel_step sess θ rows hshape hflags r c.val c.isLt]
  rcases rowLevel_cases θ r c hgr with ⟨hp, hr | ⟨l, hr, hl⟩⟩ | ⟨i, hp, hr, hn, hfirst⟩
  · rw [hp, hr]; exact ⟨rfl, rfl⟩
  · rw [hp, hr]; simp [mFactor, uFactor, newLevel_isNull, hl]
  · rw [hp, hr]
    simp only [Option.map_some, mFactor, uFactor, newLevel_isNull, hn, Bool.false_eq_true, if_false]
    exact ⟨newLevel_m_eq sess θ rows c i hfirst hnull hn hg hE,
      newLevel_u_eq sess θ rows c i hfirst hnull hn hg hE⟩

/-- the executable likelihood of a row under the parameters after `EM.step` is the abstract
likelihood of the row's pattern under `EML.emStep` of the abstraction -/
theorem execLik_step (hshape : SameShape θ) (hflags : LevelFlagsOff θ)
    (hnull : NullIsMinusOne θ)
    (hg : GuardsMatch θ rows) (hE : EStepBridged θ rows)
    (r : EM.Row ℝ) (hgr : r.pair.guards.length = θ.comps.length) :
    execLik (EM.step sess θ rows) r = EML.lik (absStep sess θ rows) (absPattern θ r) :=
  execLik_eq_lik _ r (absStep sess θ rows) (absPattern θ r)
    (step_comps_length sess θ rows hshape hflags) (step_prior_eq sess θ rows hE)
    (fun c => (mFactor_uFactor_step sess θ rows hshape hflags hnull hg hE r hgr c).1)
    (fun c => (mFactor_uFactor_step sess θ rows hshape hflags hnull hg hE r hgr c).2)

theorem execLogLik_step (hshape : SameShape θ) (hflags : LevelFlagsOff θ)
    (hnull : NullIsMinusOne θ)
    (hg : GuardsMatch θ rows) (hE : EStepBridged θ rows) :
    execLogLik (EM.step sess θ rows) rows =
      EML.logLik (rowPatterns θ rows) (rowWeights rows) (absStep sess θ rows) := by
  unfold execLogLik EML.logLik
  rw [sum_map_fin]
  refine Finset.sum_congr rfl fun j _ => ?_
  rw [execLik_step sess θ rows hshape hflags hnull hg hE rows[j.val]
    (hg _ (List.getElem_mem j.isLt))]
  rfl

end stepLik

/-! ## 9. The theorems under primitive hypotheses -/

/-- no comparison has a term-frequency adjusted level -/
def NoTf (θ : EM.Params ℝ) : Prop := ∀ c ∈ θ.comps, hasTf c = false

/-- `m` and `u` of every non-null level are positive -/
def PositiveMU (θ : EM.Params ℝ) : Prop :=
  ∀ c ∈ θ.comps, ∀ l ∈ c, l.isNull = false → 0 < l.m ∧ 0 < l.u

/-- on every row every comparison assigns a level (`gamma_c` is not NULL) -/
def EveryComparisonAssignsLevel (θ : EM.Params ℝ) (rows : List (EM.Row ℝ)) : Prop :=
  ∀ r ∈ rows, ∀ c, c < θ.comps.length → (EM.gammaAt θ r c).isSome = true

/-- for every comparison, the current `m` of the levels whose value occurs among the rows'
non-null `gamma_c` sum to at most 1 -/
def SubNormalisedM (θ : EM.Params ℝ) (rows : List (EM.Row ℝ)) : Prop :=
  ∀ c (hc : c < θ.comps.length),
    (((θ.comps[c]).filter fun l => (EM.observedValues θ rows c).contains l.cvv).map (·.m)).sum ≤ 1

/-- … likewise for `u` -/
def SubNormalisedU (θ : EM.Params ℝ) (rows : List (EM.Row ℝ)) : Prop :=
  ∀ c (hc : c < θ.comps.length),
    (((θ.comps[c]).filter fun l => (EM.observedValues θ rows c).contains l.cvv).map (·.u)).sum ≤ 1

section final
variable (sess : EM.Session) (θ : EM.Params ℝ) (rows : List (EM.Row ℝ))

/-- the E-step bridge (`eProb_eq_post_abs`) on every row -/
theorem eStepBridged_of (hl0 : 0 < θ.prior) (hl1 : θ.prior < 1) (hnotf : NoTf θ)
    (hpos : PositiveMU θ) (hg : GuardsMatch θ rows) (htot : EveryComparisonAssignsLevel θ rows) :
    EStepBridged θ rows := by
  intro r hr
  apply eProb_eq_post_abs θ r hl0 hl1 (hg r hr) hnotf hpos
  intro c
  have := htot r hr c.val c.isLt
  rwa [gammaAt_eq θ r c.val c.isLt (by rw [hg r hr]; exact c.isLt)] at this

theorem sum_filter_fin_eq {β : Type} (xs : List β) (P : Fin xs.length → Prop) [DecidablePred P]
    (q : β → Bool) (hPq : ∀ i : Fin xs.length, P i ↔ q xs[i.val] = true) (f : β → ℝ) :
    ∑ i with P i, f xs[i.val] = ((xs.filter q).map f).sum := by
  rw [sum_filter_map_fin, Finset.sum_filter]
  refine Finset.sum_congr rfl fun i _ => ?_
  by_cases h : P i
  · rw [if_pos h, if_pos ((hPq i).mp h)]
  · rw [if_neg h, if_neg (fun h' => h ((hPq i).mpr h'))]

theorem sum_observed_eq (c : Fin θ.comps.length) (hnd : DistinctValues θ)
    (hnull : NullIsMinusOne θ) (hg : GuardsMatch θ rows) (f : Level ℝ → ℝ) :
    ∑ l with EML.Observed (rowPatterns θ rows) c l, f (levelAt θ c l) =
      (((θ.comps[c.val]).filter fun l =>
        (EM.observedValues θ rows c.val).contains l.cvv).map f).sum :=
  @sum_filter_fin_eq _ (θ.comps[c.val])
    (fun l : Fin (absL θ c) => EML.Observed (rowPatterns θ rows) c l)
    (fun l : Fin (absL θ c) =>
      (inferInstance : Decidable (EML.Observed (rowPatterns θ rows) c l)))
    (fun l => (EM.observedValues θ rows c.val).contains l.cvv)
    (fun i => (observed_iff θ rows c i (isFirst_of_distinct θ hnd c i)
      (hnull _ (List.getElem_mem c.isLt)) hg).trans List.contains_iff_mem.symm) f

theorem sum_filter_fin_le {β : Type} (xs : List β) (P : Fin xs.length → Prop) [DecidablePred P]
    (q : β → Bool) (hPq : ∀ i : Fin xs.length, P i → q xs[i.val] = true) (f : β → ℝ)
    (hf : ∀ x ∈ xs, q x = true → 0 ≤ f x) :
    ∑ i with P i, f xs[i.val] ≤ ((xs.filter q).map f).sum := by
  rw [sum_filter_map_fin, Finset.sum_filter]
  refine Finset.sum_le_sum fun i _ => ?_
  by_cases h : P i
  · rw [if_pos h, if_pos (hPq i h)]
  · rw [if_neg h]
    by_cases hq : q xs[i.val] = true
    · rw [if_pos hq]; exact hf _ (List.getElem_mem i.isLt) hq
    · rw [if_neg hq]

/-- without `DistinctValues`: the abstract sum over the observed positions is at most the
executable sum over the levels whose value is observed (a duplicate of an observed level is
counted by the latter only) -/
theorem sum_observed_le (c : Fin θ.comps.length) (hnull : NullIsMinusOne θ)
    (hg : GuardsMatch θ rows) (f : Level ℝ → ℝ)
    (hf : ∀ l ∈ θ.comps[c.val], l.isNull = false → 0 ≤ f l) :
    ∑ l with EML.Observed (rowPatterns θ rows) c l, f (levelAt θ c l) ≤
      (((θ.comps[c.val]).filter fun l =>
        (EM.observedValues θ rows c.val).contains l.cvv).map f).sum :=
  @sum_filter_fin_le _ (θ.comps[c.val])
    (fun l : Fin (absL θ c) => EML.Observed (rowPatterns θ rows) c l)
    (fun l : Fin (absL θ c) =>
      (inferInstance : Decidable (EML.Observed (rowPatterns θ rows) c l)))
    (fun l => (EM.observedValues θ rows c.val).contains l.cvv)
    (fun i h => List.contains_iff_mem.mpr
      (observed_mem θ rows c i (hnull _ (List.getElem_mem c.isLt)) hg h)) f
    (fun l hl hq => hf l hl (by
      have hmem := List.contains_iff_mem.mp hq
      have hne := ((mem_observedValues θ rows c.val l.cvv).mp hmem).2
      have hiff := hnull _ (List.getElem_mem c.isLt) l hl
      cases hb : l.isNull with
      | false => rfl
      | true => exact absurd (hiff.mp hb) hne))

/-- **`EM.step` never lowers the log-likelihood of the rows.** -/
theorem execLogLik_mono (hl0 : 0 < θ.prior) (hl1 : θ.prior < 1) (hnotf : NoTf θ)
    (hpos : PositiveMU θ) (hnull : NullIsMinusOne θ)
    (hshape : SameShape θ) (hflags : LevelFlagsOff θ)
    (hg : GuardsMatch θ rows) (htot : EveryComparisonAssignsLevel θ rows)
    (hcount : ∀ r ∈ rows, 0 < r.count)
    (hsubm : SubNormalisedM θ rows) (hsubu : SubNormalisedU θ rows) :
    execLogLik θ rows ≤ execLogLik (EM.step sess θ rows) rows := by
  by_cases hne : rows = []
  · subst hne
    simp [execLogLik]
  have hE := eStepBridged_of θ rows hl0 hl1 hnotf hpos hg htot
  rw [execLogLik_abs θ rows hg, execLogLik_step sess θ rows hshape hflags hnull hg hE]
  have : Nonempty (Fin rows.length) := ⟨⟨0, List.length_pos_iff.mpr hne⟩⟩
  have posM : EML.PosOn (rowPatterns θ rows) (absParams θ).m := by
    rintro c l ⟨j, hj⟩
    exact (hpos _ (List.getElem_mem c.isLt) _ (List.getElem_mem l.isLt)
      (absPattern_nonNull θ rows[j.val] c l hj)).1
  have posU : EML.PosOn (rowPatterns θ rows) (absParams θ).u := by
    rintro c l ⟨j, hj⟩
    exact (hpos _ (List.getElem_mem c.isLt) _ (List.getElem_mem l.isLt)
      (absPattern_nonNull θ rows[j.val] c l hj)).2
  have hn : ∀ j, 0 < rowWeights rows j := fun j => by
    unfold rowWeights
    exact_mod_cast hcount _ (List.getElem_mem j.isLt)
  have subm : ∀ c, ∑ l with EML.Observed (rowPatterns θ rows) c l, (absParams θ).m c l ≤ 1 :=
    fun c => by
      have := sum_observed_le θ rows c hnull hg (·.m)
        (fun l hl hn => (hpos _ (List.getElem_mem c.isLt) l hl hn).1.le)
      exact le_trans this (hsubm c.val c.isLt)
  have subu : ∀ c, ∑ l with EML.Observed (rowPatterns θ rows) c l, (absParams θ).u c l ≤ 1 :=
    fun c => by
      have := sum_observed_le θ rows c hnull hg (·.u)
        (fun l hl hn => (hpos _ (List.getElem_mem c.isLt) l hl hn).2.le)
      exact le_trans this (hsubu c.val c.isLt)
  exact EML.loglik_mono_posOn sess.fixM sess.fixU sess.fixLambda (1 / 1000000)
    (rowPatterns θ rows) (rowWeights rows) (absParams θ) hl0 hl1 posM posU hn subm subu

/-- `absParams_step` under the primitive hypotheses -/
theorem step_bridge_positions (hl0 : 0 < θ.prior) (hl1 : θ.prior < 1) (hnotf : NoTf θ)
    (hpos : PositiveMU θ) (hnd : DistinctValues θ) (hnull : NullIsMinusOne θ)
    (hshape : SameShape θ) (hflags : LevelFlagsOff θ)
    (hg : GuardsMatch θ rows) (htot : EveryComparisonAssignsLevel θ rows) :
    (absParams (EM.step sess θ rows)).lam = (absStep sess θ rows).lam ∧
    ∀ (c : Fin (EM.step sess θ rows).comps.length) (i : Fin (absL (EM.step sess θ rows) c)),
      ((levelAt (EM.step sess θ rows) c i).isNull = false →
        (absParams (EM.step sess θ rows)).m c i =
          (castParams (step_comps_length sess θ rows hshape hflags)
            (step_absL sess θ rows hshape hflags) (absStep sess θ rows)).m c i ∧
        (absParams (EM.step sess θ rows)).u c i =
          (castParams (step_comps_length sess θ rows hshape hflags)
            (step_absL sess θ rows hshape hflags) (absStep sess θ rows)).u c i) ∧
      ((levelAt (EM.step sess θ rows) c i).isNull = true →
        (absParams (EM.step sess θ rows)).m c i =
          (castParams (step_comps_length sess θ rows hshape hflags)
            (step_absL sess θ rows hshape hflags) (absParams θ)).m c i ∧
        (absParams (EM.step sess θ rows)).u c i =
          (castParams (step_comps_length sess θ rows hshape hflags)
            (step_absL sess θ rows hshape hflags) (absParams θ)).u c i) :=
  absParams_step sess θ rows hshape hflags hnd hnull hg
    (eStepBridged_of θ rows hl0 hl1 hnotf hpos hg htot)

/-- `absParamsC_step` under the primitive hypotheses -/
theorem step_bridge_eq (hl0 : 0 < θ.prior) (hl1 : θ.prior < 1) (hnotf : NoTf θ)
    (hpos : PositiveMU θ) (hnd : DistinctValues θ) (hnull : NullIsMinusOne θ)
    (hshape : SameShape θ) (hflags : LevelFlagsOff θ)
    (hg : GuardsMatch θ rows) (htot : EveryComparisonAssignsLevel θ rows) :
    absParamsC (EM.step sess θ rows) =
      castParams (step_comps_length sess θ rows hshape hflags)
        (step_absL sess θ rows hshape hflags)
        (EML.emStep sess.fixM sess.fixU sess.fixLambda (1 / 1000000) (rowPatterns θ rows)
          (rowWeights rows) (absParamsC θ)) :=
  absParamsC_step sess θ rows hshape hflags hnd hnull hg
    (eStepBridged_of θ rows hl0 hl1 hnotf hpos hg htot)

end final

/-! ## 10. Tools for the concrete deviation witnesses -/

theorem params_ne_of_m_ne {C : ℕ} {L : Fin C → ℕ} (p q : EML.Params C L) (c : Fin C)
    (i : Fin (L c)) (h : p.m c i ≠ q.m c i) : p ≠ q := fun e => h (by rw [e])

section kit
variable (sess : EM.Session) (θ : EM.Params ℝ) (rows : List (EM.Row ℝ))

/-- the `m` slot of the canonical abstraction after the step, spelled out -/
theorem absParamsC_step_m (hshape : SameShape θ) (hflags : LevelFlagsOff θ)
    (c : Fin (EM.step sess θ rows).comps.length) (i : Fin (absL (EM.step sess θ rows) c))
    (l : Level ℝ)
    (hl : levelAt θ (Fin.cast (step_comps_length sess θ rows hshape hflags) c)
          (Fin.cast (step_absL sess θ rows hshape hflags c) i) = l)
    (hn : l.isNull = false) (hf : sess.fixM = false) :
    (absParamsC (EM.step sess θ rows)).m c i =
      (EM.newM θ rows c.val l.cvv).getD (1 / 1000000) := by
  have h := step_levelAt sess θ rows hshape hflags c i
  rw [hl] at h
  unfold absParamsC
  simp only [h, newLevel_isNull, hn, Bool.false_eq_true, if_false]
  unfold newLevel
  simp [hn, hf]

/-- the abstract step writes the placeholder into a slot no row's pattern points to -/
theorem absStepC_m_unobserved (hf : sess.fixM = false) (c : Fin θ.comps.length)
    (i : Fin (absL θ c)) (hno : ∀ r ∈ rows, absPattern θ r c ≠ some i) :
    (absStepC sess θ rows).m c i = 1 / 1000000 := by
  unfold absStepC EML.emStep
  simp only [hf, Bool.false_eq_true, if_false]
  apply EML.newBlock_unobserved
  rintro ⟨j, hj⟩
  exact hno _ (List.getElem_mem j.isLt) hj

theorem absStep_m_null (hf : sess.fixM = false) (c : Fin θ.comps.length)
    (i : Fin (absL θ c)) (hn : (levelAt θ c i).isNull = true) :
    (absStep sess θ rows).m c i = 1 / 1000000 := by
  unfold absStep EML.emStep
  simp only [hf, Bool.false_eq_true, if_false]
  exact EML.newBlock_unobserved _ _ _ _ _ (not_observed_of_null θ rows c i hn)

end kit

end SplinkVerif.Lemmas.EMMBridge
