import SplinkVerif.Model.Accuracy
/-!
# Lemmas about `Model/Accuracy.lean`

The heart is `sum_groups`: summing a column over the groups of a `GROUP BY` whose key satisfies `q`
is summing it over the underlying rows whose key satisfies `q`.  Everything else is indicator
arithmetic (`S`, `ind`) discharged pointwise.
-/
namespace SplinkVerif.Lemmas.Acc
open SplinkVerif SplinkVerif.Accuracy

/-! ### list sums -/

theorem sum_map_zero {γ : Type} (l : List γ) : (l.map fun _ => (0 : Int)).sum = 0 := by
  induction l with
  | nil => rfl
  | cons a l ih => simp [ih]

theorem sum_map_add {γ : Type} (l : List γ) (a b : γ → Int) :
    (l.map fun k => a k + b k).sum = (l.map a).sum + (l.map b).sum := by
  induction l with
  | nil => rfl
  | cons x l ih => simp only [List.map_cons, List.sum_cons, ih]; omega

theorem length_eq_sum_one {γ : Type} (l : List γ) : (l.length : Int) = (l.map fun _ => (1 : Int)).sum := by
  induction l with
  | nil => rfl
  | cons x l ih => simp only [List.length_cons, List.map_cons, List.sum_cons, ← ih]; omega

/-! ### `distinct` -/

theorem mem_distinct (a : Int) : ∀ l : List Int, a ∈ distinct l ↔ a ∈ l := by
  intro l
  induction l with
  | nil => simp [distinct]
  | cons b l ih =>
    unfold distinct
    by_cases hb : b ∈ distinct l
    · simp only [hb, if_true, List.mem_cons, ih]
      constructor
      · intro h; exact Or.inr h
      · rintro (h | h)
        · subst h; exact ih.mp hb
        · exact h
    · simp only [hb, if_false, List.mem_cons, ih]

theorem distinct_nodup : ∀ l : List Int, (distinct l).Nodup := by
  intro l
  induction l with
  | nil => simp [distinct]
  | cons b l ih =>
    unfold distinct
    by_cases hb : b ∈ distinct l
    · simp only [hb, if_true]; exact ih
    · simp only [hb, if_false]; exact List.nodup_cons.mpr ⟨hb, ih⟩

/-! ### the GROUP BY lemma -/

theorem sum_filter_single (q : Int → Bool) (a c : Int) :
    ∀ ks : List Int, ks.Nodup → a ∈ ks →
      (((ks.filter q).map fun k => if a = k then c else 0).sum) = if q a = true then c else 0 := by
  intro ks
  induction ks with
  | nil => intro _ h; simp at h
  | cons k ks ih =>
    intro hnd hmem
    have hk : k ∉ ks := (List.nodup_cons.mp hnd).1
    have hnd' : ks.Nodup := (List.nodup_cons.mp hnd).2
    by_cases hak : a = k
    · subst hak
      have hz : (((ks.filter q).map fun k => if a = k then c else 0).sum) = 0 := by
        have : ((ks.filter q).map fun k => if a = k then c else (0 : Int)) = (ks.filter q).map fun _ => (0 : Int) := by
          apply List.map_congr_left
          intro k' hk'
          have : k' ∈ ks := (List.mem_filter.mp hk').1
          have : a ≠ k' := fun h => hk (h ▸ this)
          simp [this]
        rw [this, sum_map_zero]
      by_cases hq : q a = true
      · simp only [List.filter_cons, hq, if_true, List.map_cons, List.sum_cons, hz]; omega
      · simp only [List.filter_cons, hq]; simpa using hz
    · have hmem' : a ∈ ks := by
        rcases List.mem_cons.mp hmem with h | h
        · exact absurd h hak
        · exact h
      have := ih hnd' hmem'
      by_cases hq : q k = true
      · simp only [List.filter_cons, hq, if_true, List.map_cons, List.sum_cons, hak, if_false, this]; omega
      · simp only [List.filter_cons, hq]; simpa using this

theorem sum_groups {β : Type} (key : β → Int) (f : β → Int) (q : Int → Bool) (ks : List Int) (hnd : ks.Nodup) :
    ∀ xs : List β, (∀ x ∈ xs, key x ∈ ks) →
      (((ks.filter q).map fun k => ((xs.filter fun x => key x == k).map f).sum).sum)
        = ((xs.filter fun x => q (key x)).map f).sum := by
  intro xs
  induction xs with
  | nil => intro _; simp [sum_map_zero]
  | cons x xs ih =>
    intro hall
    have hx : key x ∈ ks := hall x (List.mem_cons_self ..)
    have hrest : ∀ y ∈ xs, key y ∈ ks := fun y hy => hall y (List.mem_cons_of_mem _ hy)
    have hinner : ∀ k : Int, (((x :: xs).filter fun y => key y == k).map f).sum
        = (if key x = k then f x else 0) + ((xs.filter fun y => key y == k).map f).sum := by
      intro k
      by_cases hk : key x = k
      · simp [List.filter_cons, hk]
      · simp [List.filter_cons, hk]
    have h1 : ((ks.filter q).map fun k => (((x :: xs).filter fun y => key y == k).map f).sum)
        = (ks.filter q).map fun k => (if key x = k then f x else 0) + ((xs.filter fun y => key y == k).map f).sum :=
      List.map_congr_left (fun k _ => hinner k)
    rw [h1, sum_map_add, sum_filter_single q (key x) (f x) ks hnd hx, ih hrest]
    by_cases hq : q (key x) = true
    · simp [List.filter_cons, hq]
    · simp [List.filter_cons, hq]

/-- Column sums over the groups selected by `q` = column sums over the rows selected by `q`. -/
theorem grouped_sum (ys : List PosNegAdj) (q : Int → Bool) (col : Grouped → Int) (f : PosNegAdj → Int)
    (hcol : ∀ k, col { truthThreshold := k
                       numRecordsInRow := (ys.filter (fun x => x.truthThresholdAdj == k)).length
                       clericalPositive := ((ys.filter (fun x => x.truthThresholdAdj == k)).map (·.clericalPositive)).sum
                       clericalNegative := ((ys.filter (fun x => x.truthThresholdAdj == k)).map (·.clericalNegative)).sum }
                  = ((ys.filter (fun x => x.truthThresholdAdj == k)).map f).sum) :
    (((grouped ys).filter fun h => q h.truthThreshold).map col).sum
      = ((ys.filter fun y => q y.truthThresholdAdj).map f).sum := by
  unfold grouped
  rw [List.filter_map, List.map_map]
  have := sum_groups (fun y : PosNegAdj => y.truthThresholdAdj) f q
    (distinct (ys.map (·.truthThresholdAdj))) (distinct_nodup _) ys
    (fun y hy => (mem_distinct _ _).mpr (List.mem_map.mpr ⟨y, hy, rfl⟩))
  rw [← this]
  congr 1
  apply List.map_congr_left
  intro k _
  exact hcol k

theorem grouped_sum_pos (ys : List PosNegAdj) (q : Int → Bool) :
    (((grouped ys).filter fun h => q h.truthThreshold).map (·.clericalPositive)).sum
      = ((ys.filter fun y => q y.truthThresholdAdj).map (·.clericalPositive)).sum :=
  grouped_sum ys q _ _ (fun _ => rfl)

theorem grouped_sum_neg (ys : List PosNegAdj) (q : Int → Bool) :
    (((grouped ys).filter fun h => q h.truthThreshold).map (·.clericalNegative)).sum
      = ((ys.filter fun y => q y.truthThresholdAdj).map (·.clericalNegative)).sum :=
  grouped_sum ys q _ _ (fun _ => rfl)

theorem grouped_sum_num (ys : List PosNegAdj) (q : Int → Bool) :
    (((grouped ys).filter fun h => q h.truthThreshold).map (·.numRecordsInRow)).sum
      = ((ys.filter fun y => q y.truthThresholdAdj).map fun _ => (1 : Int)).sum :=
  grouped_sum ys q _ _ (fun _ => length_eq_sum_one _)

/-! ### indicator sums over the scored labels -/

def ind (b : Bool) : Int := if b then 1 else 0

/-- `S f xs = Σ_{x ∈ xs} f x`. -/
def S (f : Scored → Int) (xs : List Scored) : Int := (xs.map f).sum

theorem S_nil (f : Scored → Int) : S f [] = 0 := rfl
theorem S_cons (f : Scored → Int) (x : Scored) (xs : List Scored) : S f (x :: xs) = f x + S f xs := by
  simp [S]

theorem S_add (f g h : Scored → Int) (hp : ∀ x, f x = g x + h x) (xs : List Scored) :
    S f xs = S g xs + S h xs := by
  induction xs with
  | nil => simp [S]
  | cons x xs ih => simp only [S_cons, ih, hp x]; omega

theorem S_congr (f g : Scored → Int) (hp : ∀ x, f x = g x) (xs : List Scored) : S f xs = S g xs := by
  induction xs with
  | nil => rfl
  | cons x xs ih => simp only [S_cons, ih, hp x]

theorem S_le (f g : Scored → Int) (hp : ∀ x, f x ≤ g x) (xs : List Scored) : S f xs ≤ S g xs := by
  induction xs with
  | nil => simp [S]
  | cons x xs ih => simp only [S_cons]; have := hp x; omega

theorem countP_eq_S (p : Scored → Bool) (xs : List Scored) : ((xs.countP p : Nat) : Int) = S (fun x => ind (p x)) xs := by
  induction xs with
  | nil => rfl
  | cons x xs ih =>
    rw [S_cons, ← ih, List.countP_cons]
    by_cases hp : p x = true
    · simp [hp, ind]; omega
    · simp [hp, ind]

theorem length_eq_S (xs : List Scored) : (xs.length : Int) = S (fun _ => 1) xs := by
  unfold S; exact length_eq_sum_one xs

/-- CTE 1 ∘ CTE 2 on one row. -/
def adjRow (cfg : Cfg) (x : Scored) : PosNegAdj :=
  { truthThresholdAdj := adjScore cfg x
    clericalPositive := ind (isPos cfg x)
    clericalNegative := ind (!isPos cfg x) }

theorem adj_eq (cfg : Cfg) (xs : List Scored) :
    labelsWithPosNegTtAdj cfg (labelsWithPosNeg cfg xs) = xs.map (adjRow cfg) := by
  unfold labelsWithPosNegTtAdj labelsWithPosNeg
  rw [List.map_map]
  apply List.map_congr_left
  intro x _
  simp only [Function.comp, adjRow, adjScore, isPos, ind]
  by_cases h : x.score ≥ cfg.thresholdActual <;> simp [h]

theorem rows_sum (cfg : Cfg) (q : Int → Bool) (f : PosNegAdj → Int) (xs : List Scored) :
    (((xs.map (adjRow cfg)).filter fun y => q y.truthThresholdAdj).map f).sum
      = S (fun x => if q (adjScore cfg x) = true then f (adjRow cfg x) else 0) xs := by
  induction xs with
  | nil => rfl
  | cons x xs ih =>
    rw [S_cons, ← ih]
    by_cases hq : q (adjScore cfg x) = true
    · simp [List.filter_cons, adjRow, hq]
    · simp [List.filter_cons, adjRow, hq]

/-! ### the six cumulative quantities of a group, as indicator sums -/

section main
variable (cfg : Cfg) (xs : List Scored)

/-- the grouped table of the labels -/
def gsOf : List Grouped := grouped (xs.map (adjRow cfg))

theorem truthRows_eq :
    truthRows cfg xs = truthStats (statsAdj cfg.totalLabels (groupedWithStats (gsOf cfg xs))) := by
  unfold truthRows gsOf; rw [adj_eq]

theorem mem_gs {g : Grouped} (hg : g ∈ gsOf cfg xs) :
    g.numRecordsInRow = S (fun x => ind (decide (adjScore cfg x = g.truthThreshold))) xs ∧
    g.clericalPositive = S (fun x => ind (isPos cfg x && decide (adjScore cfg x = g.truthThreshold))) xs ∧
    g.clericalNegative = S (fun x => ind (!isPos cfg x && decide (adjScore cfg x = g.truthThreshold))) xs ∧
    ∃ x ∈ xs, adjScore cfg x = g.truthThreshold := by
  unfold gsOf grouped at hg
  obtain ⟨k, hk, rfl⟩ := List.mem_map.mp hg
  have hk' := (mem_distinct _ _).mp hk
  obtain ⟨y, hy, hyk⟩ := List.mem_map.mp hk'
  obtain ⟨x, hx, rfl⟩ := List.mem_map.mp hy
  refine ⟨?_, ?_, ?_, ⟨x, hx, hyk⟩⟩
  · show (((xs.map (adjRow cfg)).filter fun y => y.truthThresholdAdj == k).length : Int) = _
    rw [length_eq_sum_one, rows_sum cfg (fun a => a == k) (fun _ => 1) xs]
    apply S_congr; intro x; by_cases h : adjScore cfg x = k <;> simp [h, ind]
  · show (((xs.map (adjRow cfg)).filter fun y => y.truthThresholdAdj == k).map (·.clericalPositive)).sum = _
    rw [rows_sum cfg (fun a => a == k) (·.clericalPositive) xs]
    apply S_congr; intro x; by_cases h : adjScore cfg x = k <;> simp [h, ind, adjRow]
  · show (((xs.map (adjRow cfg)).filter fun y => y.truthThresholdAdj == k).map (·.clericalNegative)).sum = _
    rw [rows_sum cfg (fun a => a == k) (·.clericalNegative) xs]
    apply S_congr; intro x; by_cases h : adjScore cfg x = k <;> simp [h, ind, adjRow]

theorem gs_pos (q : Int → Bool) :
    (((gsOf cfg xs).filter fun h => q h.truthThreshold).map (·.clericalPositive)).sum
      = S (fun x => ind (isPos cfg x && q (adjScore cfg x))) xs := by
  unfold gsOf
  rw [grouped_sum_pos, rows_sum]
  apply S_congr; intro x; by_cases h : q (adjScore cfg x) = true <;> simp [h, ind, adjRow]

theorem gs_neg (q : Int → Bool) :
    (((gsOf cfg xs).filter fun h => q h.truthThreshold).map (·.clericalNegative)).sum
      = S (fun x => ind (!isPos cfg x && q (adjScore cfg x))) xs := by
  unfold gsOf
  rw [grouped_sum_neg, rows_sum]
  apply S_congr; intro x; by_cases h : q (adjScore cfg x) = true <;> simp [h, ind, adjRow]

theorem gs_num (q : Int → Bool) :
    (((gsOf cfg xs).filter fun h => q h.truthThreshold).map (·.numRecordsInRow)).sum
      = S (fun x => ind (q (adjScore cfg x))) xs := by
  unfold gsOf
  rw [grouped_sum_num, rows_sum]
  apply S_congr; intro x; by_cases h : q (adjScore cfg x) = true <;> simp [h, ind]

theorem filter_true {γ : Type} (l : List γ) : l.filter (fun _ => true) = l := by simp

theorem gs_pos_all : ((gsOf cfg xs).map (·.clericalPositive)).sum = S (fun x => ind (isPos cfg x)) xs := by
  have := gs_pos cfg xs (fun _ => true)
  rw [filter_true] at this
  rw [this]; apply S_congr; intro x; simp

theorem gs_neg_all : ((gsOf cfg xs).map (·.clericalNegative)).sum = S (fun x => ind (!isPos cfg x)) xs := by
  have := gs_neg cfg xs (fun _ => true)
  rw [filter_true] at this
  rw [this]; apply S_congr; intro x; simp

theorem gs_num_all : ((gsOf cfg xs).map (·.numRecordsInRow)).sum = (xs.length : Int) := by
  have := gs_num cfg xs (fun _ => true)
  rw [filter_true] at this
  rw [this, length_eq_S]; apply S_congr; intro x; simp [ind]

/-- The implicit negatives: `total_labels - (number of labelled pairs)` in column mode, none for a labels table. -/
def ghosts : Int :=
  match cfg.totalLabels with
  | none => 0
  | some t => t - xs.length

/-- Indicator form of the recount, for every row before the final `where`. -/
theorem row_S {r : TruthRow} (hr : r ∈ truthRows cfg xs) :
    (∃ x ∈ xs, adjScore cfg x = r.truthThreshold) ∧
    r.tp = S (fun x => ind (isPos cfg x && decide (adjScore cfg x ≥ r.truthThreshold))) xs ∧
    r.fp = S (fun x => ind (!isPos cfg x && decide (adjScore cfg x ≥ r.truthThreshold))) xs ∧
    r.fn = S (fun x => ind (isPos cfg x && decide (adjScore cfg x < r.truthThreshold))) xs ∧
    r.tn = S (fun x => ind (!isPos cfg x && decide (adjScore cfg x < r.truthThreshold))) xs + ghosts cfg xs ∧
    r.p = S (fun x => ind (isPos cfg x)) xs ∧
    r.n = S (fun x => ind (!isPos cfg x)) xs + ghosts cfg xs ∧
    r.total = (xs.length : Int) + ghosts cfg xs := by
  rw [truthRows_eq] at hr
  -- the six quantities for the group `g`
  have key : ∀ g ∈ gsOf cfg xs,
      windowDesc (gsOf cfg xs) (·.clericalPositive) g
          = S (fun x => ind (isPos cfg x && decide (adjScore cfg x ≥ g.truthThreshold))) xs ∧
      windowDesc (gsOf cfg xs) (·.numRecordsInRow) g - windowDesc (gsOf cfg xs) (·.clericalPositive) g
          = S (fun x => ind (!isPos cfg x && decide (adjScore cfg x ≥ g.truthThreshold))) xs ∧
      windowAsc (gsOf cfg xs) (·.clericalNegative) g - g.clericalNegative
          = S (fun x => ind (!isPos cfg x && decide (adjScore cfg x < g.truthThreshold))) xs ∧
      (- g.numRecordsInRow + windowAsc (gsOf cfg xs) (·.numRecordsInRow) g)
          - (windowAsc (gsOf cfg xs) (·.clericalNegative) g - g.clericalNegative)
          = S (fun x => ind (isPos cfg x && decide (adjScore cfg x < g.truthThreshold))) xs := by
    intro g hg
    obtain ⟨hnum, _, hneg, _⟩ := mem_gs cfg xs hg
    have e1 := gs_pos cfg xs (fun a => decide (a ≥ g.truthThreshold))
    have e2 := gs_num cfg xs (fun a => decide (a ≥ g.truthThreshold))
    have e3 := gs_neg cfg xs (fun a => decide (a ≤ g.truthThreshold))
    have e4 := gs_num cfg xs (fun a => decide (a ≤ g.truthThreshold))
    unfold windowDesc windowAsc
    rw [e1, e2, e3, e4, hnum, hneg]
    refine ⟨rfl, ?_, ?_, ?_⟩
    · have := S_add (fun x => ind (decide (adjScore cfg x ≥ g.truthThreshold)))
        (fun x => ind (isPos cfg x && decide (adjScore cfg x ≥ g.truthThreshold)))
        (fun x => ind (!isPos cfg x && decide (adjScore cfg x ≥ g.truthThreshold)))
        (by intro x; by_cases h1 : isPos cfg x = true <;> by_cases h2 : adjScore cfg x ≥ g.truthThreshold <;> simp [ind, h1, h2]) xs
      omega
    · have := S_add (fun x => ind (!isPos cfg x && decide (adjScore cfg x ≤ g.truthThreshold)))
        (fun x => ind (!isPos cfg x && decide (adjScore cfg x < g.truthThreshold)))
        (fun x => ind (!isPos cfg x && decide (adjScore cfg x = g.truthThreshold)))
        (by
          intro x
          by_cases h1 : isPos cfg x = true
          · simp [ind, h1]
          · rcases Int.lt_trichotomy (adjScore cfg x) g.truthThreshold with h2 | h2 | h2
            · have : adjScore cfg x ≤ g.truthThreshold := by omega
              have : adjScore cfg x ≠ g.truthThreshold := by omega
              simp [ind, h1, *]
            · simp [ind, h1, h2]
            · have : ¬ adjScore cfg x ≤ g.truthThreshold := by omega
              have : ¬ adjScore cfg x < g.truthThreshold := by omega
              have : adjScore cfg x ≠ g.truthThreshold := by omega
              simp [ind, h1, *]) xs
      omega
    · have a := S_add (fun x => ind (!isPos cfg x && decide (adjScore cfg x ≤ g.truthThreshold)))
        (fun x => ind (!isPos cfg x && decide (adjScore cfg x < g.truthThreshold)))
        (fun x => ind (!isPos cfg x && decide (adjScore cfg x = g.truthThreshold)))
        (by
          intro x
          by_cases h1 : isPos cfg x = true
          · simp [ind, h1]
          · rcases Int.lt_trichotomy (adjScore cfg x) g.truthThreshold with h2 | h2 | h2
            · have : adjScore cfg x ≤ g.truthThreshold := by omega
              have : adjScore cfg x ≠ g.truthThreshold := by omega
              simp [ind, h1, *]
            · simp [ind, h1, h2]
            · have : ¬ adjScore cfg x ≤ g.truthThreshold := by omega
              have : ¬ adjScore cfg x < g.truthThreshold := by omega
              have : adjScore cfg x ≠ g.truthThreshold := by omega
              simp [ind, h1, *]) xs
      have b := S_add (fun x => ind (decide (adjScore cfg x ≤ g.truthThreshold)))
        (fun x => ind (decide (adjScore cfg x < g.truthThreshold)))
        (fun x => ind (decide (adjScore cfg x = g.truthThreshold)))
        (by
          intro x
          rcases Int.lt_trichotomy (adjScore cfg x) g.truthThreshold with h2 | h2 | h2
          · have : adjScore cfg x ≤ g.truthThreshold := by omega
            have : adjScore cfg x ≠ g.truthThreshold := by omega
            simp [ind, *]
          · simp [ind, h2]
          · have : ¬ adjScore cfg x ≤ g.truthThreshold := by omega
            have : ¬ adjScore cfg x < g.truthThreshold := by omega
            have : adjScore cfg x ≠ g.truthThreshold := by omega
            simp [ind, *]) xs
      have c := S_add (fun x => ind (decide (adjScore cfg x < g.truthThreshold)))
        (fun x => ind (isPos cfg x && decide (adjScore cfg x < g.truthThreshold)))
        (fun x => ind (!isPos cfg x && decide (adjScore cfg x < g.truthThreshold)))
        (by intro x; by_cases h1 : isPos cfg x = true <;> by_cases h2 : adjScore cfg x < g.truthThreshold <;> simp [ind, h1, h2]) xs
      omega
  have hlen : (xs.length : Int) = S (fun x => ind (isPos cfg x)) xs + S (fun x => ind (!isPos cfg x)) xs := by
    rw [length_eq_S]
    exact S_add _ _ _ (by intro x; by_cases h1 : isPos cfg x = true <;> simp [ind, h1]) xs
  have hP := gs_pos_all cfg xs
  have hN := gs_neg_all cfg xs
  have hT := gs_num_all cfg xs
  unfold truthStats at hr
  obtain ⟨s, hs, rfl⟩ := List.mem_map.mp hr
  cases htl : cfg.totalLabels with
  | none =>
    rw [htl] at hs
    simp only [statsAdj] at hs
    unfold groupedWithStats at hs
    obtain ⟨g, hg, rfl⟩ := List.mem_map.mp hs
    obtain ⟨k1, k2, k3, k4⟩ := key g hg
    have hgh : ghosts cfg xs = 0 := by simp [ghosts, htl]
    obtain ⟨_, _, _, hex⟩ := mem_gs cfg xs hg
    refine ⟨hex, ?_, ?_, ?_, ?_, ?_, ?_, ?_⟩ <;> simp only [hgh] <;> omega
  | some t =>
    rw [htl] at hs
    simp only [statsAdj] at hs
    obtain ⟨s0, hs0, rfl⟩ := List.mem_map.mp hs
    unfold groupedWithStats at hs0
    obtain ⟨g, hg, rfl⟩ := List.mem_map.mp hs0
    obtain ⟨k1, k2, k3, k4⟩ := key g hg
    have hgh : ghosts cfg xs = t - xs.length := by simp [ghosts, htl]
    obtain ⟨_, _, _, hex⟩ := mem_gs cfg xs hg
    refine ⟨hex, ?_, ?_, ?_, ?_, ?_, ?_, ?_⟩ <;> simp only [hgh] <;> omega

end main

/-! ### statements in `countP` form, and their corollaries -/

section corollaries
variable (cfg : Cfg) (xs : List Scored)

/-- number of labelled pairs satisfying `p` -/
def cnt (p : Scored → Bool) : Int := ((xs.countP p : Nat) : Int)

theorem mem_truthSpace {r : TruthRow} (hr : r ∈ truthSpace cfg xs) :
    r ∈ truthRows cfg xs ∧ r.truthThreshold ≥ cfg.cutoff := by
  unfold truthSpace at hr
  obtain ⟨h1, h2⟩ := List.mem_filter.mp hr
  exact ⟨h1, by simpa using h2⟩

theorem recount_rows {r : TruthRow} (hr : r ∈ truthRows cfg xs) :
    r.tp = cnt xs (fun x => isPos cfg x && decide (adjScore cfg x ≥ r.truthThreshold)) ∧
    r.fp = cnt xs (fun x => !isPos cfg x && decide (adjScore cfg x ≥ r.truthThreshold)) ∧
    r.fn = cnt xs (fun x => isPos cfg x && decide (adjScore cfg x < r.truthThreshold)) ∧
    r.tn = cnt xs (fun x => !isPos cfg x && decide (adjScore cfg x < r.truthThreshold)) + ghosts cfg xs ∧
    r.p = cnt xs (fun x => isPos cfg x) ∧
    r.n = cnt xs (fun x => !isPos cfg x) + ghosts cfg xs ∧
    r.total = (xs.length : Int) + ghosts cfg xs := by
  obtain ⟨_, h1, h2, h3, h4, h5, h6, h7⟩ := row_S cfg xs hr
  unfold cnt
  simp only [countP_eq_S]
  exact ⟨h1, h2, h3, h4, h5, h6, h7⟩

theorem conservation_rows {r : TruthRow} (hr : r ∈ truthRows cfg xs) :
    r.tp + r.fn = r.p ∧ r.tn + r.fp = r.n ∧ r.p + r.n = r.total := by
  obtain ⟨_, h1, h2, h3, h4, h5, h6, h7⟩ := row_S cfg xs hr
  have a := S_add (fun x => ind (isPos cfg x))
    (fun x => ind (isPos cfg x && decide (adjScore cfg x ≥ r.truthThreshold)))
    (fun x => ind (isPos cfg x && decide (adjScore cfg x < r.truthThreshold)))
    (by
      intro x
      by_cases h1 : isPos cfg x = true <;> by_cases h2 : adjScore cfg x < r.truthThreshold
      · have : ¬ adjScore cfg x ≥ r.truthThreshold := by omega
        simp [ind, h1, h2, this]
      · have : adjScore cfg x ≥ r.truthThreshold := by omega
        simp [ind, h1, h2, this]
      · simp [ind, h1]
      · simp [ind, h1]) xs
  have b := S_add (fun x => ind (!isPos cfg x))
    (fun x => ind (!isPos cfg x && decide (adjScore cfg x ≥ r.truthThreshold)))
    (fun x => ind (!isPos cfg x && decide (adjScore cfg x < r.truthThreshold)))
    (by
      intro x
      by_cases h1 : isPos cfg x = true <;> by_cases h2 : adjScore cfg x < r.truthThreshold
      · simp [ind, h1]
      · simp [ind, h1]
      · have : ¬ adjScore cfg x ≥ r.truthThreshold := by omega
        simp [ind, h1, h2, this]
      · have : adjScore cfg x ≥ r.truthThreshold := by omega
        simp [ind, h1, h2, this]) xs
  have c : (xs.length : Int) = S (fun x => ind (isPos cfg x)) xs + S (fun x => ind (!isPos cfg x)) xs := by
    rw [length_eq_S]
    exact S_add _ _ _ (by intro x; by_cases h1 : isPos cfg x = true <;> simp [ind, h1]) xs
  refine ⟨?_, ?_, ?_⟩ <;> omega

theorem monotone_rows {r₁ r₂ : TruthRow} (h₁ : r₁ ∈ truthRows cfg xs) (h₂ : r₂ ∈ truthRows cfg xs)
    (hle : r₁.truthThreshold ≤ r₂.truthThreshold) :
    r₂.tp ≤ r₁.tp ∧ r₂.fp ≤ r₁.fp ∧ r₁.tn ≤ r₂.tn ∧ r₁.fn ≤ r₂.fn := by
  obtain ⟨_, a1, a2, a3, a4, _⟩ := row_S cfg xs h₁
  obtain ⟨_, b1, b2, b3, b4, _⟩ := row_S cfg xs h₂
  rw [a1, a2, a3, a4, b1, b2, b3, b4]
  refine ⟨S_le _ _ ?_ xs, S_le _ _ ?_ xs, ?_, S_le _ _ ?_ xs⟩
  · intro x
    by_cases h1 : isPos cfg x = true <;> by_cases h2 : adjScore cfg x ≥ r₂.truthThreshold
    · have : adjScore cfg x ≥ r₁.truthThreshold := by omega
      simp [ind, h1, h2, this]
    · by_cases h3 : adjScore cfg x ≥ r₁.truthThreshold <;> simp [ind, h1, h2, h3]
    · simp [ind, h1]
    · simp [ind, h1]
  · intro x
    by_cases h1 : isPos cfg x = true <;> by_cases h2 : adjScore cfg x ≥ r₂.truthThreshold
    · simp [ind, h1]
    · simp [ind, h1]
    · have : adjScore cfg x ≥ r₁.truthThreshold := by omega
      simp [ind, h1, h2, this]
    · by_cases h3 : adjScore cfg x ≥ r₁.truthThreshold <;> simp [ind, h1, h2, h3]
  · have := S_le (fun x => ind (!isPos cfg x && decide (adjScore cfg x < r₁.truthThreshold)))
      (fun x => ind (!isPos cfg x && decide (adjScore cfg x < r₂.truthThreshold))) (by
        intro x
        by_cases h1 : isPos cfg x = true <;> by_cases h2 : adjScore cfg x < r₁.truthThreshold
        · simp [ind, h1]
        · simp [ind, h1]
        · have : adjScore cfg x < r₂.truthThreshold := by omega
          simp [ind, h1, h2, this]
        · by_cases h3 : adjScore cfg x < r₂.truthThreshold <;> simp [ind, h1, h2, h3]) xs
    omega
  · intro x
    by_cases h1 : isPos cfg x = true <;> by_cases h2 : adjScore cfg x < r₁.truthThreshold
    · have : adjScore cfg x < r₂.truthThreshold := by omega
      simp [ind, h1, h2, this]
    · by_cases h3 : adjScore cfg x < r₂.truthThreshold <;> simp [ind, h1, h2, h3]
    · simp [ind, h1]
    · simp [ind, h1]

theorem thresholds_eq :
    (truthRows cfg xs).map (·.truthThreshold) = distinct (xs.map (adjScore cfg)) := by
  rw [truthRows_eq]
  have h1 : ∀ ss : List Stats, (truthStats ss).map (·.truthThreshold) = ss.map (·.truthThreshold) := by
    intro ss; unfold truthStats; rw [List.map_map]; rfl
  have h2 : ∀ (tl : Option Int) (ss : List Stats), (statsAdj tl ss).map (·.truthThreshold) = ss.map (·.truthThreshold) := by
    intro tl ss
    cases tl with
    | none => rfl
    | some t => simp only [statsAdj]; rw [List.map_map]; rfl
  have h3 : ∀ gs : List Grouped, (groupedWithStats gs).map (·.truthThreshold) = gs.map (·.truthThreshold) := by
    intro gs; unfold groupedWithStats; rw [List.map_map]; rfl
  rw [h1, h2, h3]
  unfold gsOf grouped
  rw [List.map_map, List.map_map]
  have : (fun x => (adjRow cfg x).truthThresholdAdj) = adjScore cfg := rfl
  simp only [Function.comp_def, this, List.map_id']

theorem thresholds_space_eq :
    (truthSpace cfg xs).map (·.truthThreshold)
      = (distinct (xs.map (adjScore cfg))).filter fun t => decide (t ≥ cfg.cutoff) := by
  rw [← thresholds_eq]
  unfold truthSpace
  rw [List.filter_map]
  rfl

theorem thresholds_nodup : ((truthSpace cfg xs).map (·.truthThreshold)).Nodup := by
  rw [thresholds_space_eq]
  exact (distinct_nodup _).sublist List.filter_sublist

theorem cnt_congr (p q : Scored → Bool) (h : ∀ x ∈ xs, p x = q x) : cnt xs p = cnt xs q := by
  unfold cnt
  congr 1
  exact List.countP_congr (fun x hx => by rw [h x hx])

end corollaries

/-! ### prediction errors, label orientation, found flag -/

theorem lower_swap (a b : Nat) (s : Int) (h : a ≠ b) :
    lowerIdToLeftHandSide ⟨a, b, s⟩ = lowerIdToLeftHandSide ⟨b, a, s⟩ := by
  unfold lowerIdToLeftHandSide
  by_cases h1 : a < b
  · have : ¬ b < a := by omega
    simp [h1, this]
  · have : b < a := by omega
    simp [h1, this]

theorem lower_ordered (row : LabelRow) (h : row.idL ≠ row.idR) :
    (lowerIdToLeftHandSide row).idL < (lowerIdToLeftHandSide row).idR ∧
    (lowerIdToLeftHandSide row).score = row.score ∧
    (((lowerIdToLeftHandSide row).idL = row.idL ∧ (lowerIdToLeftHandSide row).idR = row.idR) ∨
     ((lowerIdToLeftHandSide row).idL = row.idR ∧ (lowerIdToLeftHandSide row).idR = row.idL)) := by
  unfold lowerIdToLeftHandSide
  by_cases h1 : row.idL < row.idR
  · simp [h1]
  · have : row.idR < row.idL := by omega
    simp [h1, this]

theorem block_orientation (present : Nat → Nat) (labels : List LabelRow)
    (hne : ∀ row ∈ labels, row.idL ≠ row.idR) :
    blockFromLabels present (labels.map fun row => ⟨row.idR, row.idL, row.score⟩) = blockFromLabels present labels := by
  unfold blockFromLabels
  rw [List.map_map]
  congr 1
  apply List.map_congr_left
  intro row hrow
  exact (lower_swap row.idL row.idR row.score (hne row hrow)).symm

theorem found_iff (evals : List B3) :
    selectFoundByBlockingRules evals = true ↔ evals = [] ∨ some true ∈ evals := by
  cases evals with
  | nil => simp [selectFoundByBlockingRules]
  | cons e es =>
    simp only [selectFoundByBlockingRules, List.any_eq_true, reduceCtorEq, false_or]
    constructor
    · rintro ⟨x, hx, hc⟩
      cases x with
      | none => simp [B3.coalesceF] at hc
      | some b => simp [B3.coalesceF] at hc; subst hc; exact hx
    · intro h
      exact ⟨some true, h, rfl⟩

theorem not_found_rows (cfg : Cfg) (xs : List Scored)
    (hopt : cfg.scoreNotFoundAsZero = true) (hs : cfg.sentinel < cfg.cutoff) :
    ∀ r ∈ truthSpace cfg xs,
      r.tp = cnt xs (fun x => isPos cfg x && (x.found && decide (cfg.bucket x.weight ≥ r.truthThreshold))) ∧
      r.fp = cnt xs (fun x => !isPos cfg x && (x.found && decide (cfg.bucket x.weight ≥ r.truthThreshold))) ∧
      r.fn = cnt xs (fun x => isPos cfg x && (!x.found || decide (cfg.bucket x.weight < r.truthThreshold))) ∧
      r.tn = cnt xs (fun x => !isPos cfg x && (!x.found || decide (cfg.bucket x.weight < r.truthThreshold)))
              + ghosts cfg xs := by
  intro r hr
  obtain ⟨hrow, hcut⟩ := mem_truthSpace cfg xs hr
  obtain ⟨h1, h2, h3, h4, _⟩ := recount_rows cfg xs hrow
  have hge : ∀ x : Scored, decide (adjScore cfg x ≥ r.truthThreshold)
      = (x.found && decide (cfg.bucket x.weight ≥ r.truthThreshold)) := by
    intro x
    unfold adjScore
    cases hf : x.found
    · have : ¬ cfg.sentinel ≥ r.truthThreshold := by omega
      simp [hopt, this]
    · simp [hopt]
  have hlt : ∀ x : Scored, decide (adjScore cfg x < r.truthThreshold)
      = (!x.found || decide (cfg.bucket x.weight < r.truthThreshold)) := by
    intro x
    unfold adjScore
    cases hf : x.found
    · have : cfg.sentinel < r.truthThreshold := by omega
      simp [hopt, this]
    · simp [hopt]
  refine ⟨?_, ?_, ?_, ?_⟩
  · rw [h1]; exact cnt_congr xs _ _ (fun x _ => by rw [hge])
  · rw [h2]; exact cnt_congr xs _ _ (fun x _ => by rw [hge])
  · rw [h3]; exact cnt_congr xs _ _ (fun x _ => by rw [hlt])
  · rw [h4]; congr 1; exact cnt_congr xs _ _ (fun x _ => by rw [hlt])

theorem thresholds_exact_rows (cfg : Cfg) (xs : List Scored) :
    ((truthSpace cfg xs).map (·.truthThreshold)).Nodup ∧
    ∀ t, t ∈ (truthSpace cfg xs).map (·.truthThreshold) ↔
      (∃ x ∈ xs, adjScore cfg x = t) ∧ t ≥ cfg.cutoff := by
  refine ⟨thresholds_nodup cfg xs, fun t => ?_⟩
  rw [thresholds_space_eq, List.mem_filter, mem_distinct, List.mem_map]
  simp

theorem errors_table_eq (t : Int) (inclFP inclFN : Bool) (xs : List Scored) :
    (predictionErrorsTable t inclFP inclFN xs).map (·.1)
      = xs.filter fun x =>
          (inclFP && (decide (x.score < t) && decide (x.prob > t))) ||
          (inclFN && (decide (x.score > t) && decide (x.prob < t))) := by
  unfold predictionErrorsTable
  rw [List.map_map]
  simp only [Function.comp_def, List.map_id']
  rfl

theorem error_status_rows (t : Int) (inclFP inclFN : Bool) (xs : List Scored) :
    ∀ x s, (x, s) ∈ predictionErrorsTable t inclFP inclFN xs →
      (s = some Status.fp ↔ (x.score < t ∧ x.prob > t)) ∧
      (s = some Status.fn ↔ (x.score > t ∧ x.prob < t)) ∧ s ≠ none := by
  intro x s h
  unfold predictionErrorsTable at h
  obtain ⟨y, hy, heq⟩ := List.mem_map.mp h
  obtain ⟨_, hw⟩ := List.mem_filter.mp hy
  simp only [Prod.mk.injEq] at heq
  obtain ⟨rfl, rfl⟩ := heq
  unfold isFalsePositive isFalseNegativeTable at *
  by_cases h1 : y.score < t <;> by_cases h2 : y.prob > t <;> by_cases h3 : y.score > t <;>
    by_cases h4 : y.prob < t <;> simp [h1, h2, h3, h4] at hw ⊢ <;> omega

theorem errors_column_eq (t : Int) (inclFP inclFN : Bool) (xs : List Scored) :
    predictionErrorsColumn t inclFP inclFN xs
      = xs.filter fun x =>
          (inclFP && (decide (x.score < t) && decide (x.prob > t))) ||
          (inclFN && (decide (x.score > t) && (decide (x.prob < t) || !x.found))) := by
  unfold predictionErrorsColumn
  apply List.filter_congr
  intro x _
  unfold isFalsePositive isFalseNegativeColumn
  cases inclFP <;> cases inclFN <;> cases x.found <;>
    by_cases h1 : x.score < t <;> by_cases h3 : x.score > t <;> by_cases h4 : x.prob < t <;> simp [h1, h3, h4]

end SplinkVerif.Lemmas.Acc
