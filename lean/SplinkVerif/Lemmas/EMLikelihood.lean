import Mathlib.Analysis.SpecialFunctions.Log.Basic
import Mathlib.Algebra.BigOperators.Group.Finset.Basic
import Mathlib.Algebra.Order.BigOperators.Group.Finset
import Mathlib.Algebra.BigOperators.Field
import Mathlib.Tactic.Linarith
import Mathlib.Tactic.FieldSimp
import Mathlib.Tactic.Ring
/-!
# One EM iteration of the Fellegi–Sunter mixture never lowers the log-likelihood

Abstract (real-number) model of what Splink's EM computes:

* `C` comparisons, comparison `c` has levels `Fin (L c)`; an agreement pattern is
  `γ : (c : Fin C) → Option (Fin (L c))`, `none` being the null level (γ = −1), which
  contributes the factor 1 to both classes;
* the data are a finite family `γ j` (`j : J`) with positive weights `n j`
  (`agreement_pattern_count`);
* parameters `θ = (lam, m, u)`;
* `emStep`: the M-step formulas of `compute_new_parameters_sql` /
  `compute_proportions_for_new_parameters_sql` — group by level, drop the null level,
  normalise by the window sum; levels that were not observed get a placeholder `ph`
  (`LEVEL_NOT_OBSERVED`, 1e-6); the three session flags keep a block unchanged.

Main result: `loglik_mono`.
-/
namespace SplinkVerif.Lemmas.EML
open Finset
noncomputable section

/-! ## Definitions -/

/-- An agreement pattern: for every comparison the observed level, `none` = null level. -/
abbrev Pattern (C : ℕ) (L : Fin C → ℕ) : Type := (c : Fin C) → Option (Fin (L c))

/-- One block of parameters (`m` or `u`): a real number per comparison and level. -/
abbrev Block (C : ℕ) (L : Fin C → ℕ) : Type := (c : Fin C) → Fin (L c) → ℝ

structure Params (C : ℕ) (L : Fin C → ℕ) where
  lam : ℝ
  m : Block C L
  u : Block C L

variable {C : ℕ} {L : Fin C → ℕ} {J : Type} [Fintype J]

/-- The factor a comparison contributes: the level's value, 1 for the null level. -/
def optFac {k : ℕ} (o : Option (Fin k)) (r : Fin k → ℝ) : ℝ :=
  match o with
  | some l => r l
  | none => 1

/-- `match γ c with | some l => w c l | none => 1` -/
def fac (w : Block C L) (γ : Pattern C L) (c : Fin C) : ℝ := optFac (γ c) (w c)

theorem fac_eq (w : Block C L) (γ : Pattern C L) (c : Fin C) :
    fac w γ c = match γ c with
      | some l => w c l
      | none => 1 := by
  unfold fac optFac; cases γ c <;> rfl

/-- P(pattern, match) -/
def pm (θ : Params C L) (γ : Pattern C L) : ℝ := θ.lam * ∏ c, fac θ.m γ c
/-- P(pattern, non-match) -/
def pu (θ : Params C L) (γ : Pattern C L) : ℝ := (1 - θ.lam) * ∏ c, fac θ.u γ c
/-- P(pattern) -/
def lik (θ : Params C L) (γ : Pattern C L) : ℝ := pm θ γ + pu θ γ
/-- P(match | pattern): the E-step's `match_probability`. -/
def post (θ : Params C L) (γ : Pattern C L) : ℝ := pm θ γ / lik θ γ

/-- observed-data log-likelihood -/
def logLik (γ : J → Pattern C L) (n : J → ℝ) (θ : Params C L) : ℝ :=
  ∑ j, n j * Real.log (lik θ (γ j))

/-- level `l` of comparison `c` occurs in the data -/
def Observed (γ : J → Pattern C L) (c : Fin C) (l : Fin (L c)) : Prop := ∃ j, γ j c = some l

instance (γ : J → Pattern C L) (c : Fin C) (l : Fin (L c)) : Decidable (Observed γ c l) := by
  unfold Observed; infer_instance

/-- `sum(w) … group by gamma_c` at level `l` -/
def cnt (γ : J → Pattern C L) (w : J → ℝ) (c : Fin C) (l : Fin (L c)) : ℝ :=
  ∑ j with γ j c = some l, w j

/-- the window sum over the non-null groups -/
def den (γ : J → Pattern C L) (w : J → ℝ) (c : Fin C) : ℝ :=
  ∑ j with γ j c ≠ none, w j

/-- new block from E-step weights `w`: proportion for observed levels, placeholder otherwise -/
def newBlock (γ : J → Pattern C L) (w : J → ℝ) (ph : ℝ) : Block C L :=
  fun c l => if Observed γ c l then cnt γ w c l / den γ w c else ph

/-- E-step weight of row `j` for the match class: `n_j * post_j` -/
def wM (γ : J → Pattern C L) (n : J → ℝ) (θ : Params C L) (j : J) : ℝ := n j * post θ (γ j)
/-- E-step weight of row `j` for the non-match class: `n_j * (1 - post_j)` -/
def wU (γ : J → Pattern C L) (n : J → ℝ) (θ : Params C L) (j : J) : ℝ :=
  n j * (1 - post θ (γ j))

/-- `sum(p * count) / sum(count)` -/
def lamNew (γ : J → Pattern C L) (n : J → ℝ) (θ : Params C L) : ℝ :=
  (∑ j, n j * post θ (γ j)) / ∑ j, n j

/-- One EM iteration.  `fixM`, `fixU`, `fixLam`: blocks fixed for the session keep
their value; `ph`: the value stored for levels that were not observed. -/
def emStep (fixM fixU fixLam : Bool) (ph : ℝ) (γ : J → Pattern C L) (n : J → ℝ)
    (θ : Params C L) : Params C L :=
  { lam := if fixLam then θ.lam else lamNew γ n θ
    m := if fixM then θ.m else newBlock γ (wM γ n θ) ph
    u := if fixU then θ.u else newBlock γ (wU γ n θ) ph }

/-- the new `m` of level `l`, spelled out -/
theorem emStep_m (fixU fixLam : Bool) (ph : ℝ) (γ : J → Pattern C L) (n : J → ℝ)
    (θ : Params C L) (c : Fin C) (l : Fin (L c)) :
    (emStep false fixU fixLam ph γ n θ).m c l =
      if Observed γ c l then
        (∑ j with γ j c = some l, n j * post θ (γ j)) / (∑ j with γ j c ≠ none, n j * post θ (γ j))
      else ph := rfl

theorem emStep_u (fixM fixLam : Bool) (ph : ℝ) (γ : J → Pattern C L) (n : J → ℝ)
    (θ : Params C L) (c : Fin C) (l : Fin (L c)) :
    (emStep fixM false fixLam ph γ n θ).u c l =
      if Observed γ c l then
        (∑ j with γ j c = some l, n j * (1 - post θ (γ j))) /
          (∑ j with γ j c ≠ none, n j * (1 - post θ (γ j)))
      else ph := rfl

theorem emStep_lam (fixM fixU : Bool) (ph : ℝ) (γ : J → Pattern C L) (n : J → ℝ)
    (θ : Params C L) :
    (emStep fixM fixU false ph γ n θ).lam = (∑ j, n j * post θ (γ j)) / ∑ j, n j := rfl

/-! ## Scalar inequalities -/

theorem gibbs {ι : Type} (s : Finset ι) (p q : ι → ℝ)
    (hp : ∀ i ∈ s, 0 < p i) (hq : ∀ i ∈ s, 0 < q i)
    (hsum : ∑ i ∈ s, q i ≤ ∑ i ∈ s, p i) :
    ∑ i ∈ s, p i * Real.log (q i) ≤ ∑ i ∈ s, p i * Real.log (p i) := by
  have key : ∀ i ∈ s, p i * Real.log (q i) - p i * Real.log (p i) ≤ q i - p i := by
    intro i hi
    have hpi := hp i hi
    have hqi := hq i hi
    have h1 : Real.log (q i / p i) ≤ q i / p i - 1 := Real.log_le_sub_one_of_pos (div_pos hqi hpi)
    have h2 : Real.log (q i / p i) = Real.log (q i) - Real.log (p i) := Real.log_div hqi.ne' hpi.ne'
    have h3 : p i * (Real.log (q i) - Real.log (p i)) ≤ p i * (q i / p i - 1) := by
      rw [← h2]; exact mul_le_mul_of_nonneg_left h1 hpi.le
    have h4 : p i * (q i / p i - 1) = q i - p i := by field_simp
    linarith [h3, h4.le, h4.ge, mul_sub (p i) (Real.log (q i)) (Real.log (p i))]
  have : ∑ i ∈ s, (p i * Real.log (q i) - p i * Real.log (p i)) ≤ ∑ i ∈ s, (q i - p i) := Finset.sum_le_sum key
  rw [Finset.sum_sub_distrib, Finset.sum_sub_distrib] at this
  linarith

/-- concavity of `log` at two points -/
theorem log_concave_two (q x y : ℝ) (hq0 : 0 < q) (hq1 : q < 1) (hx : 0 < x) (hy : 0 < y) :
    q * Real.log x + (1 - q) * Real.log y ≤ Real.log (q * x + (1 - q) * y) := by
  have h1q : 0 < 1 - q := by linarith
  have hS : 0 < q * x + (1 - q) * y := by positivity
  have e1 : Real.log (x / (q * x + (1 - q) * y)) ≤ x / (q * x + (1 - q) * y) - 1 :=
    Real.log_le_sub_one_of_pos (div_pos hx hS)
  have e2 : Real.log (y / (q * x + (1 - q) * y)) ≤ y / (q * x + (1 - q) * y) - 1 :=
    Real.log_le_sub_one_of_pos (div_pos hy hS)
  rw [Real.log_div hx.ne' hS.ne'] at e1
  rw [Real.log_div hy.ne' hS.ne'] at e2
  have z : q * (x / (q * x + (1 - q) * y) - 1) + (1 - q) * (y / (q * x + (1 - q) * y) - 1) = 0 := by
    field_simp
    ring
  have f1 := mul_le_mul_of_nonneg_left e1 hq0.le
  have f2 := mul_le_mul_of_nonneg_left e2 h1q.le
  nlinarith [f1, f2, z]

/-- `log (a + b) ≥ q log (a/q) + (1-q) log (b/(1-q))` -/
theorem jensen_two_point (q a b : ℝ) (hq0 : 0 < q) (hq1 : q < 1) (ha : 0 < a) (hb : 0 < b) :
    q * Real.log (a / q) + (1 - q) * Real.log (b / (1 - q)) ≤ Real.log (a + b) := by
  have h1q : 0 < 1 - q := by linarith
  have h := log_concave_two q (a / q) (b / (1 - q)) hq0 hq1 (div_pos ha hq0) (div_pos hb h1q)
  have e : q * (a / q) + (1 - q) * (b / (1 - q)) = a + b := by
    field_simp
  rwa [e] at h

/-- … with equality at the posterior `q = a / (a + b)` -/
theorem jensen_two_point_eq (a b : ℝ) (ha : 0 < a) (hb : 0 < b) :
    (a / (a + b)) * Real.log (a / (a / (a + b))) +
      (1 - a / (a + b)) * Real.log (b / (1 - a / (a + b))) = Real.log (a + b) := by
  have hS : 0 < a + b := by positivity
  have e1 : a / (a / (a + b)) = a + b := by field_simp
  have e2 : b / (1 - a / (a + b)) = a + b := by
    have : 1 - a / (a + b) = b / (a + b) := by field_simp; ring
    rw [this]; field_simp
  rw [e1, e2]; ring

/-- the per-row EM lower bound: with `q` the posterior under the old parameters,
`log lik' - log lik ≥ q (log pm' - log pm) + (1-q) (log pu' - log pu)` -/
theorem em_lower_bound (a b a' b' : ℝ) (ha : 0 < a) (hb : 0 < b) (ha' : 0 < a') (hb' : 0 < b') :
    Real.log (a + b) + (a / (a + b)) * (Real.log a' - Real.log a) +
      (1 - a / (a + b)) * (Real.log b' - Real.log b) ≤ Real.log (a' + b') := by
  have hS : 0 < a + b := by positivity
  have hq0 : 0 < a / (a + b) := div_pos ha hS
  have hq1 : a / (a + b) < 1 := by rw [div_lt_one hS]; linarith
  have h1q : 0 < 1 - a / (a + b) := by linarith
  have h1 := jensen_two_point (a / (a + b)) a' b' hq0 hq1 ha' hb'
  have h2 := jensen_two_point_eq a b ha hb
  rw [Real.log_div ha'.ne' hq0.ne', Real.log_div hb'.ne' h1q.ne'] at h1
  rw [Real.log_div ha.ne' hq0.ne', Real.log_div hb.ne' h1q.ne'] at h2
  nlinarith [h1, h2]

/-! ## Positivity -/

theorem optFac_pos {k : ℕ} (o : Option (Fin k)) (r : Fin k → ℝ) (h : ∀ l, o = some l → 0 < r l) :
    0 < optFac o r := by
  cases o with
  | none => simp [optFac]
  | some l => simpa [optFac] using h l rfl

/-- the block is positive on the levels that occur in the data -/
def PosOn (γ : J → Pattern C L) (w : Block C L) : Prop := ∀ c l, Observed γ c l → 0 < w c l

omit [Fintype J] in
theorem fac_pos_of_posOn (γ : J → Pattern C L) (w : Block C L) (h : PosOn γ w) (j : J) (c : Fin C) :
    0 < fac w (γ j) c :=
  optFac_pos _ _ (fun l hl => h c l ⟨j, hl⟩)

theorem pm_pos (θ : Params C L) (γ : Pattern C L) (hl : 0 < θ.lam) (hm : ∀ c, 0 < fac θ.m γ c) :
    0 < pm θ γ :=
  mul_pos hl (Finset.prod_pos fun c _ => hm c)

theorem pu_pos (θ : Params C L) (γ : Pattern C L) (hl : θ.lam < 1) (hu : ∀ c, 0 < fac θ.u γ c) :
    0 < pu θ γ :=
  mul_pos (by linarith) (Finset.prod_pos fun c _ => hu c)

theorem lik_pos (θ : Params C L) (γ : Pattern C L) (hpm : 0 < pm θ γ) (hpu : 0 < pu θ γ) :
    0 < lik θ γ := add_pos hpm hpu

theorem post_mem_Ioo (θ : Params C L) (γ : Pattern C L) (hpm : 0 < pm θ γ) (hpu : 0 < pu θ γ) :
    post θ γ ∈ Set.Ioo (0 : ℝ) 1 := by
  have hS := lik_pos θ γ hpm hpu
  refine ⟨div_pos hpm hS, ?_⟩
  unfold post
  rw [div_lt_one hS]
  unfold lik; linarith

/-! ## Group-by sums -/

/-- `∑_j w_j log(factor of row j)` regrouped by level (the null level contributes `log 1 = 0`) -/
theorem sum_optFac_log (γ : J → Pattern C L) (w : J → ℝ) (c : Fin C) (r : Fin (L c) → ℝ) :
    ∑ j, w j * Real.log (optFac (γ j c) r) = ∑ l, cnt γ w c l * Real.log (r l) := by
  unfold cnt
  simp_rw [Finset.sum_mul, Finset.sum_filter]
  rw [Finset.sum_comm]
  refine Finset.sum_congr rfl fun j _ => ?_
  cases h : γ j c with
  | none => simp [optFac]
  | some l0 => simp [optFac, Finset.sum_ite_eq]

/-- the window sum is the sum of the non-null groups -/
theorem den_eq_sum_cnt (γ : J → Pattern C L) (w : J → ℝ) (c : Fin C) :
    den γ w c = ∑ l, cnt γ w c l := by
  unfold cnt den
  simp_rw [Finset.sum_filter]
  rw [Finset.sum_comm]
  refine Finset.sum_congr rfl fun j _ => ?_
  cases h : γ j c with
  | none => simp
  | some l0 => simp [Finset.sum_ite_eq]

theorem cnt_pos (γ : J → Pattern C L) (w : J → ℝ) (hw : ∀ j, 0 < w j) (c : Fin C) (l : Fin (L c))
    (h : Observed γ c l) : 0 < cnt γ w c l := by
  obtain ⟨j, hj⟩ := h
  exact Finset.sum_pos (fun j _ => hw j) ⟨j, by simp [hj]⟩

theorem cnt_eq_zero (γ : J → Pattern C L) (w : J → ℝ) (c : Fin C) (l : Fin (L c))
    (h : ¬ Observed γ c l) : cnt γ w c l = 0 := by
  unfold cnt
  refine Finset.sum_eq_zero fun j hj => ?_
  exact absurd ⟨j, (Finset.mem_filter.1 hj).2⟩ h

theorem sum_cnt_observed (γ : J → Pattern C L) (w : J → ℝ) (c : Fin C) :
    ∑ l with Observed γ c l, cnt γ w c l = den γ w c := by
  rw [den_eq_sum_cnt]
  refine Finset.sum_filter_of_ne fun l _ hne => ?_
  by_contra hno
  exact hne (cnt_eq_zero γ w c l hno)

/-- the denominators are positive as soon as the comparison has a non-null row -/
theorem den_pos (γ : J → Pattern C L) (w : J → ℝ) (hw : ∀ j, 0 < w j) (c : Fin C)
    (h : ∃ j, γ j c ≠ none) : 0 < den γ w c := by
  obtain ⟨j, hj⟩ := h
  exact Finset.sum_pos (fun j _ => hw j) ⟨j, by simp [hj]⟩

theorem den_pos_of_observed (γ : J → Pattern C L) (w : J → ℝ) (hw : ∀ j, 0 < w j) (c : Fin C)
    (l : Fin (L c)) (h : Observed γ c l) : 0 < den γ w c := by
  obtain ⟨j, hj⟩ := h
  exact den_pos γ w hw c ⟨j, by simp [hj]⟩

theorem newBlock_observed (γ : J → Pattern C L) (w : J → ℝ) (ph : ℝ) (c : Fin C) (l : Fin (L c))
    (h : Observed γ c l) : newBlock γ w ph c l = cnt γ w c l / den γ w c := by
  unfold newBlock; rw [if_pos h]

theorem newBlock_unobserved (γ : J → Pattern C L) (w : J → ℝ) (ph : ℝ) (c : Fin C) (l : Fin (L c))
    (h : ¬ Observed γ c l) : newBlock γ w ph c l = ph := by
  unfold newBlock; rw [if_neg h]

theorem newBlock_posOn (γ : J → Pattern C L) (w : J → ℝ) (hw : ∀ j, 0 < w j) (ph : ℝ) :
    PosOn γ (newBlock γ w ph) := by
  intro c l h
  rw [newBlock_observed γ w ph c l h]
  exact div_pos (cnt_pos γ w hw c l h) (den_pos_of_observed γ w hw c l h)

theorem newBlock_pos (γ : J → Pattern C L) (w : J → ℝ) (hw : ∀ j, 0 < w j) (ph : ℝ) (hph : 0 < ph)
    (c : Fin C) (l : Fin (L c)) : 0 < newBlock γ w ph c l := by
  by_cases h : Observed γ c l
  · exact newBlock_posOn γ w hw ph c l h
  · rw [newBlock_unobserved γ w ph c l h]; exact hph

/-- the new values of the observed levels of a comparison sum to exactly 1 -/
theorem sum_newBlock_observed (γ : J → Pattern C L) (w : J → ℝ) (hw : ∀ j, 0 < w j) (ph : ℝ)
    (c : Fin C) (h : ∃ l, Observed γ c l) :
    ∑ l with Observed γ c l, newBlock γ w ph c l = 1 := by
  obtain ⟨l0, hl0⟩ := h
  have hD := den_pos_of_observed γ w hw c l0 hl0
  have e : ∑ l with Observed γ c l, newBlock γ w ph c l =
      ∑ l with Observed γ c l, cnt γ w c l / den γ w c :=
    Finset.sum_congr rfl fun l hl => newBlock_observed γ w ph c l (Finset.mem_filter.1 hl).2
  rw [e, ← Finset.sum_div, sum_cnt_observed, div_self hD.ne']

/-! ## Block-wise optimality of the M-step -/

/-- One `m`/`u` block of one comparison: among vectors that are positive and
sub-normalised on the observed levels, the normalised E-step counts maximise
`∑_j w_j log(factor of row j)`  (Gibbs' inequality). -/
theorem block_opt (γ : J → Pattern C L) (w : J → ℝ) (hw : ∀ j, 0 < w j) (ph : ℝ) (c : Fin C)
    (r : Fin (L c) → ℝ) (hr : ∀ l, Observed γ c l → 0 < r l)
    (hsub : ∑ l with Observed γ c l, r l ≤ 1) :
    ∑ j, w j * Real.log (optFac (γ j c) r) ≤
      ∑ j, w j * Real.log (optFac (γ j c) (newBlock γ w ph c)) := by
  rw [sum_optFac_log, sum_optFac_log]
  have restrict : ∀ f : Fin (L c) → ℝ,
      ∑ l, cnt γ w c l * f l = ∑ l with Observed γ c l, cnt γ w c l * f l := by
    intro f
    symm
    refine Finset.sum_filter_of_ne fun l _ hne => ?_
    by_contra hno
    exact hne (by rw [cnt_eq_zero γ w c l hno, zero_mul])
  rw [restrict, restrict]
  rcases (Finset.univ.filter fun l => Observed γ c l).eq_empty_or_nonempty with hE | ⟨l0, hl0⟩
  · rw [hE]; simp
  · have hobs0 : Observed γ c l0 := (Finset.mem_filter.1 hl0).2
    have hD := den_pos_of_observed γ w hw c l0 hobs0
    have hp : ∀ l ∈ Finset.univ.filter (fun l => Observed γ c l), 0 < cnt γ w c l / den γ w c :=
      fun l hl => div_pos (cnt_pos γ w hw c l (Finset.mem_filter.1 hl).2) hD
    have hq : ∀ l ∈ Finset.univ.filter (fun l => Observed γ c l), 0 < r l :=
      fun l hl => hr l (Finset.mem_filter.1 hl).2
    have hone : ∑ l with Observed γ c l, cnt γ w c l / den γ w c = 1 := by
      rw [← Finset.sum_div, sum_cnt_observed, div_self hD.ne']
    have g := gibbs _ (fun l => cnt γ w c l / den γ w c) r hp hq (by rw [hone]; exact hsub)
    have g' := mul_le_mul_of_nonneg_left g hD.le
    rw [Finset.mul_sum, Finset.mul_sum] at g'
    have e1 : ∀ l, den γ w c * (cnt γ w c l / den γ w c * Real.log (r l)) =
        cnt γ w c l * Real.log (r l) := by
      intro l; field_simp
    have e2 : ∀ l ∈ Finset.univ.filter (fun l => Observed γ c l),
        den γ w c * (cnt γ w c l / den γ w c * Real.log (cnt γ w c l / den γ w c)) =
        cnt γ w c l * Real.log (newBlock γ w ph c l) := by
      intro l hl
      rw [newBlock_observed γ w ph c l (Finset.mem_filter.1 hl).2]
      field_simp
    rw [Finset.sum_congr rfl fun l _ => e1 l, Finset.sum_congr rfl e2] at g'
    exact g'

/-- the Bernoulli block: `a log x + b log (1-x)` is maximal at `x = a / (a + b)` -/
theorem bernoulli_opt (a b x : ℝ) (ha : 0 < a) (hb : 0 < b) (hx0 : 0 < x) (hx1 : x < 1) :
    a * Real.log x + b * Real.log (1 - x) ≤
      a * Real.log (a / (a + b)) + b * Real.log (1 - a / (a + b)) := by
  have hN : 0 < a + b := by positivity
  have h1x : 0 < 1 - x := by linarith
  have e : 1 - a / (a + b) = b / (a + b) := by field_simp; ring
  rw [e]
  have pa : 0 < a / (a + b) := div_pos ha hN
  have pb : 0 < b / (a + b) := div_pos hb hN
  have h1 : Real.log (x / (a / (a + b))) ≤ x / (a / (a + b)) - 1 :=
    Real.log_le_sub_one_of_pos (div_pos hx0 pa)
  have h2 : Real.log ((1 - x) / (b / (a + b))) ≤ (1 - x) / (b / (a + b)) - 1 :=
    Real.log_le_sub_one_of_pos (div_pos h1x pb)
  rw [Real.log_div hx0.ne' pa.ne'] at h1
  rw [Real.log_div h1x.ne' pb.ne'] at h2
  have f1 := mul_le_mul_of_nonneg_left h1 ha.le
  have f2 := mul_le_mul_of_nonneg_left h2 hb.le
  have z : a * (x / (a / (a + b)) - 1) + b * ((1 - x) / (b / (a + b)) - 1) = 0 := by
    field_simp
    ring
  linarith [f1, f2, z]

/-- `block_opt` for the `lam` block, in terms of the E-step sums -/
theorem block_opt_lam (n q : J → ℝ) (x : ℝ)
    (hA : 0 < ∑ j, n j * q j) (hB : 0 < ∑ j, n j * (1 - q j)) (hx0 : 0 < x) (hx1 : x < 1) :
    (∑ j, n j * q j) * Real.log x + (∑ j, n j * (1 - q j)) * Real.log (1 - x) ≤
      (∑ j, n j * q j) * Real.log ((∑ j, n j * q j) / ∑ j, n j) +
        (∑ j, n j * (1 - q j)) * Real.log (1 - (∑ j, n j * q j) / ∑ j, n j) := by
  have h := bernoulli_opt _ _ x hA hB hx0 hx1
  have e : ∑ j, n j = ∑ j, n j * q j + ∑ j, n j * (1 - q j) := by
    rw [← Finset.sum_add_distrib]
    exact Finset.sum_congr rfl fun j _ => by ring
  rw [e]; exact h

/-- `block_opt` for the `m` block of comparison `c` -/
theorem block_opt_m (γ : J → Pattern C L) (n : J → ℝ) (θ : Params C L)
    (hw : ∀ j, 0 < n j * post θ (γ j)) (ph : ℝ) (c : Fin C)
    (hr : ∀ l, Observed γ c l → 0 < θ.m c l) (hsub : ∑ l with Observed γ c l, θ.m c l ≤ 1) :
    ∑ j, (n j * post θ (γ j)) * Real.log (fac θ.m (γ j) c) ≤
      ∑ j, (n j * post θ (γ j)) *
        Real.log (fac (newBlock γ (fun j => n j * post θ (γ j)) ph) (γ j) c) :=
  block_opt γ (fun j => n j * post θ (γ j)) hw ph c (θ.m c) hr hsub

/-- `block_opt` for the `u` block of comparison `c` -/
theorem block_opt_u (γ : J → Pattern C L) (n : J → ℝ) (θ : Params C L)
    (hw : ∀ j, 0 < n j * (1 - post θ (γ j))) (ph : ℝ) (c : Fin C)
    (hr : ∀ l, Observed γ c l → 0 < θ.u c l) (hsub : ∑ l with Observed γ c l, θ.u c l ≤ 1) :
    ∑ j, (n j * (1 - post θ (γ j))) * Real.log (fac θ.u (γ j) c) ≤
      ∑ j, (n j * (1 - post θ (γ j))) *
        Real.log (fac (newBlock γ (fun j => n j * (1 - post θ (γ j))) ph) (γ j) c) :=
  block_opt γ (fun j => n j * (1 - post θ (γ j))) hw ph c (θ.u c) hr hsub

/-! ## The expected complete-data log-likelihood `Q` -/

/-- `Q(θ') = ∑_j n_j (q_j log pm θ' γ_j + (1 - q_j) log pu θ' γ_j)` -/
def Q (γ : J → Pattern C L) (n : J → ℝ) (q : J → ℝ) (θ' : Params C L) : ℝ :=
  ∑ j, n j * (q j * Real.log (pm θ' (γ j)) + (1 - q j) * Real.log (pu θ' (γ j)))

/-- `Q` is a sum of independent terms: one in `lam`, one per comparison in `m`, one per
comparison in `u`. -/
theorem Q_split (γ : J → Pattern C L) (n q : J → ℝ) (θ' : Params C L)
    (hl0 : θ'.lam ≠ 0) (hl1 : 1 - θ'.lam ≠ 0)
    (hm : ∀ j c, fac θ'.m (γ j) c ≠ 0) (hu : ∀ j c, fac θ'.u (γ j) c ≠ 0) :
    Q γ n q θ' =
      ((∑ j, n j * q j) * Real.log θ'.lam + (∑ j, n j * (1 - q j)) * Real.log (1 - θ'.lam))
      + ∑ c, ∑ j, (n j * q j) * Real.log (fac θ'.m (γ j) c)
      + ∑ c, ∑ j, (n j * (1 - q j)) * Real.log (fac θ'.u (γ j) c) := by
  have c1 : ∑ c, ∑ j, (n j * q j) * Real.log (fac θ'.m (γ j) c) =
      ∑ j, ∑ c, (n j * q j) * Real.log (fac θ'.m (γ j) c) := Finset.sum_comm
  have c2 : ∑ c, ∑ j, (n j * (1 - q j)) * Real.log (fac θ'.u (γ j) c) =
      ∑ j, ∑ c, (n j * (1 - q j)) * Real.log (fac θ'.u (γ j) c) := Finset.sum_comm
  rw [c1, c2, Finset.sum_mul, Finset.sum_mul, ← Finset.sum_add_distrib, ← Finset.sum_add_distrib,
    ← Finset.sum_add_distrib]
  unfold Q
  refine Finset.sum_congr rfl fun j _ => ?_
  have p1 : (∏ c, fac θ'.m (γ j) c) ≠ 0 := Finset.prod_ne_zero_iff.2 fun c _ => hm j c
  have p2 : (∏ c, fac θ'.u (γ j) c) ≠ 0 := Finset.prod_ne_zero_iff.2 fun c _ => hu j c
  unfold pm pu
  rw [Real.log_mul hl0 p1, Real.log_mul hl1 p2, Real.log_prod (fun c _ => hm j c),
    Real.log_prod (fun c _ => hu j c), ← Finset.mul_sum, ← Finset.mul_sum]
  ring

/-- the EM lower bound summed over the data -/
theorem Q_diff_le_logLik_diff (γ : J → Pattern C L) (n : J → ℝ) (θ θ' : Params C L)
    (hn : ∀ j, 0 < n j)
    (hpm : ∀ j, 0 < pm θ (γ j)) (hpu : ∀ j, 0 < pu θ (γ j))
    (hpm' : ∀ j, 0 < pm θ' (γ j)) (hpu' : ∀ j, 0 < pu θ' (γ j)) :
    Q γ n (fun j => post θ (γ j)) θ' - Q γ n (fun j => post θ (γ j)) θ ≤
      logLik γ n θ' - logLik γ n θ := by
  unfold Q logLik
  rw [← Finset.sum_sub_distrib, ← Finset.sum_sub_distrib]
  refine Finset.sum_le_sum fun j _ => ?_
  have h := em_lower_bound _ _ _ _ (hpm j) (hpu j) (hpm' j) (hpu' j)
  have h' := mul_le_mul_of_nonneg_left h (hn j).le
  unfold post lik
  linarith [h']

/-! ## The EM step -/

theorem emStep_lam_fixed (fixM fixU : Bool) (ph : ℝ) (γ : J → Pattern C L) (n : J → ℝ)
    (θ : Params C L) : (emStep fixM fixU true ph γ n θ).lam = θ.lam := rfl

theorem emStep_m_fixed (fixU fixLam : Bool) (ph : ℝ) (γ : J → Pattern C L) (n : J → ℝ)
    (θ : Params C L) : (emStep true fixU fixLam ph γ n θ).m = θ.m := rfl

theorem emStep_u_fixed (fixM fixLam : Bool) (ph : ℝ) (γ : J → Pattern C L) (n : J → ℝ)
    (θ : Params C L) : (emStep fixM true fixLam ph γ n θ).u = θ.u := rfl

theorem emStep_m_free (fixU fixLam : Bool) (ph : ℝ) (γ : J → Pattern C L) (n : J → ℝ)
    (θ : Params C L) : (emStep false fixU fixLam ph γ n θ).m = newBlock γ (wM γ n θ) ph := rfl

theorem emStep_u_free (fixM fixLam : Bool) (ph : ℝ) (γ : J → Pattern C L) (n : J → ℝ)
    (θ : Params C L) : (emStep fixM false fixLam ph γ n θ).u = newBlock γ (wU γ n θ) ph := rfl

omit [Fintype J] in
/-- the hypotheses of `loglik_mono` on the current parameters give positive class likelihoods -/
theorem pm_pu_pos (γ : J → Pattern C L) (θ : Params C L)
    (hl0 : 0 < θ.lam) (hl1 : θ.lam < 1) (hm : PosOn γ θ.m) (hu : PosOn γ θ.u) (j : J) :
    0 < pm θ (γ j) ∧ 0 < pu θ (γ j) :=
  ⟨pm_pos θ (γ j) hl0 (fac_pos_of_posOn γ θ.m hm j), pu_pos θ (γ j) hl1 (fac_pos_of_posOn γ θ.u hu j)⟩

omit [Fintype J] in
theorem wM_pos (γ : J → Pattern C L) (n : J → ℝ) (θ : Params C L) (hn : ∀ j, 0 < n j)
    (hq : ∀ j, post θ (γ j) ∈ Set.Ioo (0 : ℝ) 1) (j : J) : 0 < wM γ n θ j :=
  mul_pos (hn j) (hq j).1

omit [Fintype J] in
theorem wU_pos (γ : J → Pattern C L) (n : J → ℝ) (θ : Params C L) (hn : ∀ j, 0 < n j)
    (hq : ∀ j, post θ (γ j) ∈ Set.Ioo (0 : ℝ) 1) (j : J) : 0 < wU γ n θ j :=
  mul_pos (hn j) (by have := (hq j).2; linarith)

theorem sum_n_split (n q : J → ℝ) : ∑ j, n j = ∑ j, n j * q j + ∑ j, n j * (1 - q j) := by
  rw [← Finset.sum_add_distrib]
  exact Finset.sum_congr rfl fun j _ => by ring

theorem lamNew_mem [Nonempty J] (γ : J → Pattern C L) (n : J → ℝ) (θ : Params C L)
    (hn : ∀ j, 0 < n j) (hq : ∀ j, post θ (γ j) ∈ Set.Ioo (0 : ℝ) 1) :
    0 < lamNew γ n θ ∧ lamNew γ n θ < 1 := by
  have hN : 0 < ∑ j, n j := Finset.sum_pos (fun j _ => hn j) Finset.univ_nonempty
  have hA : 0 < ∑ j, n j * post θ (γ j) :=
    Finset.sum_pos (fun j _ => mul_pos (hn j) (hq j).1) Finset.univ_nonempty
  have hlt : ∑ j, n j * post θ (γ j) < ∑ j, n j :=
    Finset.sum_lt_sum_of_nonempty Finset.univ_nonempty
      fun j _ => mul_lt_of_lt_one_right (hn j) (hq j).2
  exact ⟨div_pos hA hN, (div_lt_one hN).2 hlt⟩

/-- The parameters after the step are again usable: `0 < lam' < 1`, and `m'`, `u'`
are positive on the observed levels (any flags, any placeholder). -/
theorem emStep_posOn [Nonempty J] (fixM fixU fixLam : Bool) (ph : ℝ) (γ : J → Pattern C L)
    (n : J → ℝ) (θ : Params C L)
    (hl0 : 0 < θ.lam) (hl1 : θ.lam < 1) (hm : PosOn γ θ.m) (hu : PosOn γ θ.u)
    (hn : ∀ j, 0 < n j) :
    0 < (emStep fixM fixU fixLam ph γ n θ).lam ∧ (emStep fixM fixU fixLam ph γ n θ).lam < 1 ∧
      PosOn γ (emStep fixM fixU fixLam ph γ n θ).m ∧ PosOn γ (emStep fixM fixU fixLam ph γ n θ).u := by
  have hq : ∀ j, post θ (γ j) ∈ Set.Ioo (0 : ℝ) 1 := fun j =>
    post_mem_Ioo θ (γ j) (pm_pu_pos γ θ hl0 hl1 hm hu j).1 (pm_pu_pos γ θ hl0 hl1 hm hu j).2
  have hlam := lamNew_mem γ n θ hn hq
  refine ⟨?_, ?_, ?_, ?_⟩
  · cases fixLam
    · exact hlam.1
    · exact hl0
  · cases fixLam
    · exact hlam.2
    · exact hl1
  · cases fixM
    · exact newBlock_posOn γ (wM γ n θ) (wM_pos γ n θ hn hq) ph
    · exact hm
  · cases fixU
    · exact newBlock_posOn γ (wU γ n θ) (wU_pos γ n θ hn hq) ph
    · exact hu

/-- The M-step maximises `Q`: every unfixed block moves to its maximiser, fixed blocks stay. -/
theorem Q_mono [Nonempty J] (fixM fixU fixLam : Bool) (ph : ℝ) (γ : J → Pattern C L)
    (n : J → ℝ) (θ : Params C L)
    (hl0 : 0 < θ.lam) (hl1 : θ.lam < 1) (hm : PosOn γ θ.m) (hu : PosOn γ θ.u)
    (hn : ∀ j, 0 < n j)
    (hsubm : ∀ c, ∑ l with Observed γ c l, θ.m c l ≤ 1)
    (hsubu : ∀ c, ∑ l with Observed γ c l, θ.u c l ≤ 1) :
    Q γ n (fun j => post θ (γ j)) θ ≤
      Q γ n (fun j => post θ (γ j)) (emStep fixM fixU fixLam ph γ n θ) := by
  have hq : ∀ j, post θ (γ j) ∈ Set.Ioo (0 : ℝ) 1 := fun j =>
    post_mem_Ioo θ (γ j) (pm_pu_pos γ θ hl0 hl1 hm hu j).1 (pm_pu_pos γ θ hl0 hl1 hm hu j).2
  obtain ⟨hl0', hl1', hm', hu'⟩ := emStep_posOn fixM fixU fixLam ph γ n θ hl0 hl1 hm hu hn
  rw [Q_split γ n _ θ hl0.ne' (by linarith)
        (fun j c => (fac_pos_of_posOn γ θ.m hm j c).ne')
        (fun j c => (fac_pos_of_posOn γ θ.u hu j c).ne'),
      Q_split γ n _ _ hl0'.ne' (by linarith)
        (fun j c => (fac_pos_of_posOn γ _ hm' j c).ne')
        (fun j c => (fac_pos_of_posOn γ _ hu' j c).ne')]
  refine add_le_add (add_le_add ?_ ?_) ?_
  · -- the `lam` block
    cases fixLam
    · have hA : 0 < ∑ j, n j * post θ (γ j) :=
        Finset.sum_pos (fun j _ => mul_pos (hn j) (hq j).1) Finset.univ_nonempty
      have hB : 0 < ∑ j, n j * (1 - post θ (γ j)) :=
        Finset.sum_pos (fun j _ => wU_pos γ n θ hn hq j) Finset.univ_nonempty
      have h := bernoulli_opt _ _ θ.lam hA hB hl0 hl1
      have e : (emStep fixM fixU false ph γ n θ).lam =
          (∑ j, n j * post θ (γ j)) /
            (∑ j, n j * post θ (γ j) + ∑ j, n j * (1 - post θ (γ j))) := by
        rw [← sum_n_split]; rfl
      rw [e]; exact h
    · exact le_refl _
  · -- the `m` blocks
    refine Finset.sum_le_sum fun c _ => ?_
    cases fixM
    · exact block_opt γ (wM γ n θ) (wM_pos γ n θ hn hq) ph c (θ.m c) (hm c) (hsubm c)
    · exact le_refl _
  · -- the `u` blocks
    refine Finset.sum_le_sum fun c _ => ?_
    cases fixU
    · exact block_opt γ (wU γ n θ) (wU_pos γ n θ hn hq) ph c (θ.u c) (hu c) (hsubu c)
    · exact le_refl _

/-- `loglik_mono` with positivity required only on the levels that occur in the data. -/
theorem loglik_mono_posOn [Nonempty J] (fixM fixU fixLam : Bool) (ph : ℝ) (γ : J → Pattern C L)
    (n : J → ℝ) (θ : Params C L)
    (hl0 : 0 < θ.lam) (hl1 : θ.lam < 1)
    (hm' : PosOn γ θ.m) (hu' : PosOn γ θ.u)
    (hn : ∀ j, 0 < n j)
    (hsubm : ∀ c, ∑ l with Observed γ c l, θ.m c l ≤ 1)
    (hsubu : ∀ c, ∑ l with Observed γ c l, θ.u c l ≤ 1) :
    logLik γ n θ ≤ logLik γ n (emStep fixM fixU fixLam ph γ n θ) := by
  obtain ⟨a, b, c, d⟩ := emStep_posOn fixM fixU fixLam ph γ n θ hl0 hl1 hm' hu' hn
  have h1 := Q_mono fixM fixU fixLam ph γ n θ hl0 hl1 hm' hu' hn hsubm hsubu
  have h2 := Q_diff_le_logLik_diff γ n θ (emStep fixM fixU fixLam ph γ n θ) hn
    (fun j => (pm_pu_pos γ θ hl0 hl1 hm' hu' j).1) (fun j => (pm_pu_pos γ θ hl0 hl1 hm' hu' j).2)
    (fun j => (pm_pu_pos γ _ a b c d j).1) (fun j => (pm_pu_pos γ _ a b c d j).2)
  linarith

/-- **One EM iteration never lowers the observed-data log-likelihood.** -/
theorem loglik_mono [Nonempty J] (fixM fixU fixLam : Bool) (ph : ℝ) (γ : J → Pattern C L)
    (n : J → ℝ) (θ : Params C L)
    (hl0 : 0 < θ.lam) (hl1 : θ.lam < 1)
    (hm : ∀ c l, 0 < θ.m c l) (hu : ∀ c l, 0 < θ.u c l)
    (hn : ∀ j, 0 < n j)
    (hsubm : ∀ c, ∑ l with Observed γ c l, θ.m c l ≤ 1)
    (hsubu : ∀ c, ∑ l with Observed γ c l, θ.u c l ≤ 1) :
    logLik γ n θ ≤ logLik γ n (emStep fixM fixU fixLam ph γ n θ) :=
  loglik_mono_posOn fixM fixU fixLam ph γ n θ hl0 hl1 (fun c l _ => hm c l) (fun c l _ => hu c l)
    hn hsubm hsubu

/-! ## The hypotheses are preserved along a run -/

/-- After an unfixed step the new `m` values of the observed levels of a comparison sum
to exactly 1 (when the comparison has a non-null row at all). -/
theorem emStep_m_sum_one [Nonempty J] (fixU fixLam : Bool) (ph : ℝ) (γ : J → Pattern C L)
    (n : J → ℝ) (θ : Params C L)
    (hl0 : 0 < θ.lam) (hl1 : θ.lam < 1) (hm : ∀ c l, 0 < θ.m c l) (hu : ∀ c l, 0 < θ.u c l)
    (hn : ∀ j, 0 < n j) (c : Fin C) (hc : ∃ l, Observed γ c l) :
    ∑ l with Observed γ c l, (emStep false fixU fixLam ph γ n θ).m c l = 1 := by
  have hq : ∀ j, post θ (γ j) ∈ Set.Ioo (0 : ℝ) 1 := fun j =>
    post_mem_Ioo θ (γ j)
      (pm_pu_pos γ θ hl0 hl1 (fun c l _ => hm c l) (fun c l _ => hu c l) j).1
      (pm_pu_pos γ θ hl0 hl1 (fun c l _ => hm c l) (fun c l _ => hu c l) j).2
  exact sum_newBlock_observed γ (wM γ n θ) (wM_pos γ n θ hn hq) ph c hc

theorem emStep_u_sum_one [Nonempty J] (fixM fixLam : Bool) (ph : ℝ) (γ : J → Pattern C L)
    (n : J → ℝ) (θ : Params C L)
    (hl0 : 0 < θ.lam) (hl1 : θ.lam < 1) (hm : ∀ c l, 0 < θ.m c l) (hu : ∀ c l, 0 < θ.u c l)
    (hn : ∀ j, 0 < n j) (c : Fin C) (hc : ∃ l, Observed γ c l) :
    ∑ l with Observed γ c l, (emStep fixM false fixLam ph γ n θ).u c l = 1 := by
  have hq : ∀ j, post θ (γ j) ∈ Set.Ioo (0 : ℝ) 1 := fun j =>
    post_mem_Ioo θ (γ j)
      (pm_pu_pos γ θ hl0 hl1 (fun c l _ => hm c l) (fun c l _ => hu c l) j).1
      (pm_pu_pos γ θ hl0 hl1 (fun c l _ => hm c l) (fun c l _ => hu c l) j).2
  exact sum_newBlock_observed γ (wU γ n θ) (wU_pos γ n θ hn hq) ph c hc

/-- All hypotheses of `loglik_mono` on the parameters hold again after the step
(any flags, placeholder `ph > 0`), so the theorem applies to every iteration of a run. -/
theorem emStep_preserves [Nonempty J] (fixM fixU fixLam : Bool) (ph : ℝ) (hph : 0 < ph)
    (γ : J → Pattern C L) (n : J → ℝ) (θ : Params C L)
    (hl0 : 0 < θ.lam) (hl1 : θ.lam < 1) (hm : ∀ c l, 0 < θ.m c l) (hu : ∀ c l, 0 < θ.u c l)
    (hn : ∀ j, 0 < n j)
    (hsubm : ∀ c, ∑ l with Observed γ c l, θ.m c l ≤ 1)
    (hsubu : ∀ c, ∑ l with Observed γ c l, θ.u c l ≤ 1) :
    0 < (emStep fixM fixU fixLam ph γ n θ).lam ∧ (emStep fixM fixU fixLam ph γ n θ).lam < 1 ∧
    (∀ c l, 0 < (emStep fixM fixU fixLam ph γ n θ).m c l) ∧
    (∀ c l, 0 < (emStep fixM fixU fixLam ph γ n θ).u c l) ∧
    (∀ c, ∑ l with Observed γ c l, (emStep fixM fixU fixLam ph γ n θ).m c l ≤ 1) ∧
    (∀ c, ∑ l with Observed γ c l, (emStep fixM fixU fixLam ph γ n θ).u c l ≤ 1) := by
  have hm' : PosOn γ θ.m := fun c l _ => hm c l
  have hu' : PosOn γ θ.u := fun c l _ => hu c l
  have hq : ∀ j, post θ (γ j) ∈ Set.Ioo (0 : ℝ) 1 := fun j =>
    post_mem_Ioo θ (γ j) (pm_pu_pos γ θ hl0 hl1 hm' hu' j).1 (pm_pu_pos γ θ hl0 hl1 hm' hu' j).2
  obtain ⟨a, b, _, _⟩ := emStep_posOn fixM fixU fixLam ph γ n θ hl0 hl1 hm' hu' hn
  have sub : ∀ (w : J → ℝ), (∀ j, 0 < w j) → ∀ c,
      ∑ l with Observed γ c l, newBlock γ w ph c l ≤ 1 := by
    intro w hw c
    by_cases hc : ∃ l, Observed γ c l
    · exact (sum_newBlock_observed γ w hw ph c hc).le
    · have : (Finset.univ.filter fun l => Observed γ c l) = ∅ :=
        Finset.filter_eq_empty_iff.2 fun l _ hl => hc ⟨l, hl⟩
      rw [this]; simp
  refine ⟨a, b, ?_, ?_, ?_, ?_⟩
  · cases fixM
    · exact newBlock_pos γ _ (wM_pos γ n θ hn hq) ph hph
    · exact hm
  · cases fixU
    · exact newBlock_pos γ _ (wU_pos γ n θ hn hq) ph hph
    · exact hu
  · cases fixM
    · exact sub _ (wM_pos γ n θ hn hq)
    · exact hsubm
  · cases fixU
    · exact sub _ (wU_pos γ n θ hn hq)
    · exact hsubu

/-- Fully normalised positive blocks (Splink's default starting values: the `m` and `u`
of the non-null levels of a comparison sum to 1) are sub-normalised on the observed levels. -/
theorem subnormalised_of_sum_le_one (γ : J → Pattern C L) (w : Block C L)
    (hw : ∀ c l, 0 < w c l) (hsum : ∀ c, ∑ l, w c l ≤ 1) (c : Fin C) :
    ∑ l with Observed γ c l, w c l ≤ 1 :=
  le_trans (Finset.sum_le_sum_of_subset_of_nonneg (Finset.filter_subset _ _)
    fun l _ _ => (hw c l).le) (hsum c)

end
end SplinkVerif.Lemmas.EML
