import Mathlib.Data.List.Nodup
import Mathlib.Data.List.Perm.Basic
import Mathlib.Algebra.Order.Field.Rat
import Mathlib.Tactic.Ring
import Mathlib.Tactic.FieldSimp
import Mathlib.Tactic.Linarith
import SplinkVerif.Lemmas.Rel
import SplinkVerif.Lemmas.GraphMetrics
import SplinkVerif.Lemmas.GraphMetricsBridges
import SplinkVerif.Model.GMSql
import SplinkVerif.Properties.C19
import SplinkVerif.Properties.C19Bridges
/-!
# The regenerated SQL of `compute_graph_metrics` refines the functional model

Statement by statement, the relational-algebra terms of `Generated/GMSql.lean` (evaluated with `Rel.eval`) compute the
tables of `Model/GraphMetrics.lean`; the control flow is `Model/GMSql.lean`.  On the encoded inputs (in the given row
order) the SQL results are *equal* to the encoded model tables, row order included; permutation statements follow with
`Lemmas.Rel.runStmts_perm`.
-/
namespace SplinkVerif.Lemmas.GMSql
open SplinkVerif SplinkVerif.Rel SplinkVerif.Lemmas.Rel SplinkVerif.GraphMetrics

/-! ## Encodings (the same as in `Properties/C19Sql.lean`) -/

/-- A natural number (record id, cluster id, count) as a SQL value. -/
abbrev iv (i : Nat) : Val := Val.int (i : Int)

/-- `df_predict` for a dedupe linker: `(unique_id_l, unique_id_r, match_probability)`. -/
def predictRows (edges : List (Nat × Nat × Int)) : List Row :=
  edges.map fun e => [Val.int e.1, Val.int e.2.1, Val.int e.2.2]

/-- `df_clustered`: `(cluster_id, unique_id, v)`. -/
def clusteredRows (n : Nat) (cid : Nat → Nat) : List Row :=
  (List.range n).map fun i => [Val.int (cid i), Val.int i, Val.str "x"]

/-- The edges the functional model keeps: `match_probability >= threshold` on integer order keys. -/
def kept (thr : Int) (edges : List (Nat × Nat × Int)) : List Edge :=
  GraphMetrics.truncatedEdges (fun (a b : Int) => decide (a ≥ b)) thr edges

/-- The rational a `Frac` stands for. -/
def fracVal (f : Frac) : Rat := (f.num : Rat) / (f.den : Rat)

def encFrac (f : Frac) : Val := Val.rat (fracVal f)

def encOptFrac : Option Frac → Val
  | none => Val.null
  | some f => encFrac f

/-- A row of `__splink__graph_metrics_nodes`. -/
def encNode (r : NodeRow) : Row := [Val.int r.node, Val.int r.cluster, Val.int r.degree, encFrac r.centrality]

/-- A row of `__splink__graph_metrics_clusters`. -/
def encCluster (r : ClusterRow) : Row :=
  [Val.int r.cluster, Val.int r.nNodes, encFrac r.nEdges, encOptFrac r.density, encOptFrac r.centralisation]

/-- A row of `__splink__graph_metrics_edges`. -/
def encEdge (r : Nat × Nat × Bool) : Row := [Val.int r.1, Val.int r.2.1, Val.bool r.2.2]

/-- A two-column table of naturals. -/
def pairRow (p : Nat × Nat) : Row := [Val.int p.1, Val.int p.2]

/-- Read a natural number back from a SQL value (`0` for anything else). -/
def valNat : Val → Nat
  | .int i => i.toNat
  | _ => 0

/-- `as_pandas_dataframe()` of a two-column table of naturals. -/
def decodePairs (rows : List Row) : List (Nat × Nat) :=
  rows.map fun r => (valNat (r.getD 0 .null), valNat (r.getD 1 .null))

/-! ## Tactics -/

/-- Evaluate scalar expressions on concrete rows. -/
macro "ev_simp" : tactic =>
  `(tactic| simp [Expr.holds, Expr.eval, List.getD_cons_zero, List.getD_cons_succ])
macro "ev_simp" "at" h:ident : tactic =>
  `(tactic| simp [Expr.holds, Expr.eval, List.getD_cons_zero, List.getD_cons_succ] at $h:ident)

/-- Look a table up in a database built with `Db.set`. -/
macro "db_get" : tactic =>
  `(tactic| (repeat (first | rw [set_same] | rw [set_ne _ _ _ _ (by decide)])))

/-! ## Lists -/

theorem iv_inj {a b : Nat} : iv a = iv b ↔ a = b := by
  constructor
  · intro h
    have h' : (a : Int) = (b : Int) := by injection h
    omega
  · rintro rfl; rfl

theorem iv_beq (a b : Nat) : (iv a == iv b) = (a == b) := by
  by_cases h : a = b
  · subst h; simp
  · have : ¬ iv a = iv b := fun h' => h (iv_inj.mp h')
    simp [h, this]

/-- The rows selected from a concatenation of blocks by a predicate that accepts exactly block `i`. -/
theorem filter_flatMap_block {α β : Type} (L : List α) (g : α → List β) (p : β → Bool) (i : α)
    (hL : L.Nodup) (hi : i ∈ L) (hp : ∀ x ∈ g i, p x = true)
    (hn : ∀ j ∈ L, j ≠ i → ∀ x ∈ g j, p x = false) : (L.flatMap g).filter p = g i := by
  induction L with
  | nil => cases hi
  | cons a t ih =>
    have hat : a ∉ t := (List.nodup_cons.mp hL).1
    have ht : t.Nodup := (List.nodup_cons.mp hL).2
    rw [List.flatMap_cons, List.filter_append]
    by_cases hai : a = i
    · subst hai
      have h1 : (g a).filter p = g a := List.filter_eq_self.mpr hp
      have h2 : (t.flatMap g).filter p = [] := by
        rw [List.filter_eq_nil_iff]
        intro x hx
        obtain ⟨j, hj, hxj⟩ := List.mem_flatMap.mp hx
        have hja : j ≠ a := fun h => hat (h ▸ hj)
        simp [hn j (List.mem_cons_of_mem _ hj) hja x hxj]
      rw [h1, h2, List.append_nil]
    · have hit : i ∈ t := by
        rcases List.mem_cons.mp hi with h | h
        · exact absurd h.symm hai
        · exact h
      have h1 : (g a).filter p = [] := by
        rw [List.filter_eq_nil_iff]
        intro x hx
        simp [hn a List.mem_cons_self hai x hx]
      rw [h1, List.nil_append]
      exact ih ht hit (fun j hj hji x hx => hn j (List.mem_cons_of_mem _ hj) hji x hx)

/-- `eraseDups` of a concatenation of non-empty constant blocks with pairwise different values. -/
theorem eraseDups_flatMap_blocks {α β : Type} [BEq β] [LawfulBEq β] (L : List α) (g : α → List β)
    (key : α → β) (hL : L.Nodup) (hne : ∀ i ∈ L, g i ≠ []) (hkey : ∀ i ∈ L, ∀ x ∈ g i, x = key i)
    (hinj : ∀ i ∈ L, ∀ j ∈ L, key i = key j → i = j) : (L.flatMap g).eraseDups = L.map key := by
  induction L with
  | nil => simp
  | cons a t ih =>
    have hat : a ∉ t := (List.nodup_cons.mp hL).1
    have ht : t.Nodup := (List.nodup_cons.mp hL).2
    rw [List.flatMap_cons, List.map_cons]
    cases hga : g a with
    | nil => exact absurd hga (hne a List.mem_cons_self)
    | cons b rest =>
      have hb : b = key a := hkey a List.mem_cons_self b (by rw [hga]; exact List.mem_cons_self)
      subst hb
      rw [List.cons_append, List.eraseDups_cons, List.filter_append]
      have h1 : rest.filter (fun x => !x == key a) = [] := by
        rw [List.filter_eq_nil_iff]
        intro x hx
        have : x = key a := hkey a List.mem_cons_self x (by rw [hga]; exact List.mem_cons_of_mem _ hx)
        simp [this]
      have h2 : (t.flatMap g).filter (fun x => !x == key a) = t.flatMap g := by
        rw [List.filter_eq_self]
        intro x hx
        obtain ⟨j, hj, hxj⟩ := List.mem_flatMap.mp hx
        have hxk : x = key j := hkey j (List.mem_cons_of_mem _ hj) x hxj
        have hne' : key j ≠ key a := fun h =>
          hat ((hinj j (List.mem_cons_of_mem _ hj) a List.mem_cons_self h) ▸ hj)
        simp [hxk, hne']
      rw [h1, h2, List.nil_append,
        ih ht (fun i hi => hne i (List.mem_cons_of_mem _ hi))
          (fun i hi => hkey i (List.mem_cons_of_mem _ hi))
          (fun i hi j hj => hinj i (List.mem_cons_of_mem _ hi) j (List.mem_cons_of_mem _ hj))]

/-- `eraseDups` commutes with an injective map. -/
theorem eraseDups_map_inj {α β : Type} [BEq α] [LawfulBEq α] [BEq β] [LawfulBEq β] (f : α → β)
    (hf : ∀ a b, f a = f b → a = b) :
    ∀ (k : Nat) (l : List α), l.length ≤ k → (l.map f).eraseDups = l.eraseDups.map f
  | _, [], _ => by simp
  | 0, _ :: _, h => by simp at h
  | k + 1, a :: as, h => by
    rw [List.map_cons, List.eraseDups_cons, List.eraseDups_cons, List.map_cons, List.filter_map]
    have hfil : as.filter ((fun b => !b == f a) ∘ f) = as.filter (fun b => !b == a) := by
      apply List.filter_congr
      intro x _
      by_cases hx : x = a
      · subst hx; simp
      · have : ¬ f x = f a := fun h' => hx (hf _ _ h')
        simp [hx, this]
    rw [hfil]
    congr 1
    apply eraseDups_map_inj f hf k
    have := List.length_filter_le (fun b => !b == a) as
    simp only [List.length_cons] at h
    omega

/-- `GROUP BY` over a concatenation of non-empty blocks, one per group. -/
theorem groupRows_blocks {α : Type} (L : List α) (hL : L.Nodup) (keys : List Expr) (aggs : List Agg)
    (block : α → List Row) (key : α → Row) (hk : keys ≠ [])
    (hne : ∀ i ∈ L, block i ≠ [])
    (hkey : ∀ i ∈ L, ∀ x ∈ block i, keys.map (·.eval x) = key i)
    (hinj : ∀ i ∈ L, ∀ j ∈ L, key i = key j → i = j) :
    groupRows keys aggs (L.flatMap block) = L.map fun i => key i ++ aggs.map (·.eval (block i)) := by
  have hemp : keys.isEmpty = false := by
    cases keys with
    | nil => exact absurd rfl hk
    | cons _ _ => rfl
  simp only [groupRows, hemp, Bool.false_eq_true, if_false]
  have hkeys : ((L.flatMap block).map fun row => keys.map (·.eval row)).eraseDups = L.map key := by
    rw [List.map_flatMap]
    apply eraseDups_flatMap_blocks L _ key hL
    · intro i hi h
      exact hne i hi (List.map_eq_nil_iff.mp h)
    · intro i hi x hx
      obtain ⟨y, hy, rfl⟩ := List.mem_map.mp hx
      exact hkey i hi y hy
    · exact hinj
  rw [hkeys, List.map_map]
  apply List.map_congr_left
  intro i hi
  simp only [Function.comp_apply]
  have hfil : (L.flatMap block).filter (fun row => keys.map (·.eval row) == key i) = block i := by
    apply filter_flatMap_block L block _ i hL hi
    · intro x hx
      rw [hkey i hi x hx]
      exact beq_self_eq_true _
    · intro j hj hji x hx
      rw [hkey j hj x hx]
      have : ¬ key j = key i := fun h => hji (hinj j hj i hi h)
      simpa using this
  rw [hfil]


/-! ## Values -/

@[simp] theorem cmp_gt_int (a b : Int) : Cmp.gt.eval (.int a) (.int b) = .bool (decide (b < a)) := by
  simp [Cmp.eval, Val.lt]

@[simp] theorem bool_beq_true (b : Bool) : (Val.bool b == Val.bool true) = b := by
  cases b <;> rfl

/-! ## Part 1: the node table -/

/-- The prediction rows that pass the threshold. -/
def keptRows (thr : Int) (edges : List (Nat × Nat × Int)) : List (Nat × Nat × Int) :=
  edges.filter fun e => decide (e.2.2 ≥ thr)

theorem kept_eq (thr : Int) (edges : List (Nat × Nat × Int)) :
    kept thr edges = (keptRows thr edges).map fun e => (e.1, e.2.1) := rfl

/-- `__splink__truncated_edges` ↔ the model's filter. -/
theorem truncatedEdges_eval (db : Db) (edges : List (Nat × Nat × Int)) (thr : Int)
    (hP : db "predict_in" = predictRows edges) :
    (Gen.GMSql.truncatedEdges (Val.int thr)).eval db = predictRows (keptRows thr edges) := by
  unfold Gen.GMSql.truncatedEdges keptRows
  rw [eval_filter, eval_table, hP]
  unfold predictRows
  rw [List.filter_map]
  congr 1
  apply List.filter_congr
  intro e _
  ev_simp

/-- `__splink__all_nodes` ↔ `GraphMetrics.allNodes`. -/
theorem allNodes_eval (db : Db) (ke : List (Nat × Nat × Int))
    (hT : db "__splink__truncated_edges" = predictRows ke) :
    Gen.GMSql.allNodes.eval db = (GraphMetrics.allNodes (ke.map fun e => (e.1, e.2.1))).map pairRow := by
  unfold Gen.GMSql.allNodes GraphMetrics.allNodes
  rw [eval_union_all, eval_project, eval_project, eval_table, hT]
  unfold predictRows
  simp only [List.map_map, List.map_append]
  congr 1

/-- The rows of `clustered_in c LEFT JOIN __splink__all_nodes n ON c.unique_id = n.node` for record `i`. -/
def joinBlock (cid : Nat → Nat) (an : List (Nat × Nat)) (i : Nat) : List Row :=
  let ms := (an.filter fun r => r.1 == i).map fun p =>
    [Val.int (cid i), Val.int i, Val.str "x", Val.int p.1, Val.int p.2]
  if ms.isEmpty then [[Val.int (cid i), Val.int i, Val.str "x", Val.null, Val.null]] else ms

theorem nodeJoin_eq (n : Nat) (cid : Nat → Nat) (an : List (Nat × Nat)) :
    joinRows true (Expr.cmp Cmp.eq (Expr.col 1) (Expr.col 3)) (clusteredRows n cid) (an.map pairRow) 2
      = (List.range n).flatMap (joinBlock cid an) := by
  unfold joinRows clusteredRows
  rw [List.flatMap_map]
  apply List.flatMap_congr
  intro i _
  have hf : ((an.map pairRow).filter fun x =>
      (Expr.cmp Cmp.eq (Expr.col 1) (Expr.col 3)).holds
        ([Val.int (cid i), Val.int i, Val.str "x"] ++ x)) = (an.filter fun r => r.1 == i).map pairRow := by
    rw [List.filter_map]
    congr 1
    apply List.filter_congr
    intro p _
    simp only [Function.comp_apply, pairRow]
    ev_simp
    by_cases h : p.1 = i
    · simp [h]
    · have : ¬ i = p.1 := fun h' => h h'.symm
      simp [h, this]
  simp only [hf, joinBlock, List.map_map, Bool.true_and, List.isEmpty_map]
  split
  · rfl
  · apply List.map_congr_left
    intro p _
    simp [pairRow]

theorem joinBlock_ne_nil (cid : Nat → Nat) (an : List (Nat × Nat)) (i : Nat) : joinBlock cid an i ≠ [] := by
  unfold joinBlock
  simp only []
  split
  · simp
  · rename_i h
    intro h'
    rw [h'] at h
    simp at h

theorem joinBlock_key (cid : Nat → Nat) (an : List (Nat × Nat)) (i : Nat) :
    ∀ x ∈ joinBlock cid an i, [Expr.col 1, Expr.col 0].map (·.eval x) = [iv i, iv (cid i)] := by
  intro x hx
  unfold joinBlock at hx
  simp only [] at hx
  split at hx
  · rw [List.mem_singleton.mp hx]
    simp [Expr.eval]
  · obtain ⟨p, _, rfl⟩ := List.mem_map.mp hx
    simp [Expr.eval]

/-- `COUNT(*) FILTER (WHERE n.neighbour IS NOT NULL)` on the group of record `i`. -/
theorem joinBlock_count (cid : Nat → Nat) (an : List (Nat × Nat)) (i : Nat) :
    (Agg.countIf (Expr.not (Expr.isNull (Expr.col 4)))).eval (joinBlock cid an i)
      = iv ((an.filter fun r => r.1 == i).length) := by
  unfold joinBlock
  simp only [Agg.eval]
  cases h : an.filter fun r => r.1 == i with
  | nil => simp [Expr.holds, Expr.eval, not3]
  | cons p t =>
    simp only [List.map_cons, List.isEmpty_cons, Bool.false_eq_true, if_false]
    congr 2
    rw [List.filter_eq_self.mpr]
    · simp
    · intro x hx
      rcases List.mem_cons.mp hx with rfl | hx
      · simp [Expr.holds, Expr.eval, not3]
      · obtain ⟨q, _, rfl⟩ := List.mem_map.mp hx
        simp [Expr.holds, Expr.eval, not3]

/-- `COUNT(*) OVER (PARTITION BY part)` on a table given as a map. -/
theorem window_count_map {α : Type} (L : List α) (g : α → Row) (part : List Expr) :
    ((L.map g).map fun row => row ++ [Agg.countStar.eval ((L.map g).filter fun x =>
      part.map (·.eval x) == part.map (·.eval row))])
      = L.map fun i => g i ++
        [iv ((L.filter fun j => part.map (·.eval (g j)) == part.map (·.eval (g i))).length)] := by
  rw [List.map_map]
  apply List.map_congr_left
  intro i _
  simp only [Function.comp_apply, Agg.eval, List.filter_map, List.length_map]
  rfl

/-- `__splink__graph_metrics_node_degree` ↔ `nodeDegreeTable` (for any table `an` in place of `allNodes es`). -/
theorem graphMetricsNodeDegree_eval (db : Db) (n : Nat) (cid : Nat → Nat) (an : List (Nat × Nat))
    (hC : db "clustered_in" = clusteredRows n cid) (hA : db "__splink__all_nodes" = an.map pairRow) :
    Gen.GMSql.graphMetricsNodeDegree.eval db = (List.range n).map fun i =>
      [iv i, iv (cid i), iv ((an.filter fun r => r.1 == i).length), iv (clusterSize n cid i)] := by
  have hG : groupRows [Expr.col 1, Expr.col 0] [Agg.countIf (Expr.not (Expr.isNull (Expr.col 4)))]
      ((List.range n).flatMap (joinBlock cid an))
      = (List.range n).map fun i => [iv i, iv (cid i), iv ((an.filter fun r => r.1 == i).length)] := by
    rw [groupRows_blocks (List.range n) List.nodup_range [Expr.col 1, Expr.col 0]
      [Agg.countIf (Expr.not (Expr.isNull (Expr.col 4)))] (joinBlock cid an)
      (fun i => [iv i, iv (cid i)]) (by simp) (fun i _ => joinBlock_ne_nil cid an i)
      (fun i _ => joinBlock_key cid an i)
      (fun i _ j _ h => by
        have : iv i = iv j := by injection h
        exact iv_inj.mp this)]
    apply List.map_congr_left
    intro i _
    simp only [List.map_cons, List.map_nil, joinBlock_count, List.cons_append, List.nil_append]
  unfold Gen.GMSql.graphMetricsNodeDegree
  rw [eval_project, eval_window, eval_groupBy, eval_join, eval_table, eval_table, hC, hA, nodeJoin_eq, hG,
    window_count_map, List.map_map]
  apply List.map_congr_left
  intro i _
  have hlen : ((List.range n).filter fun j =>
      [Expr.col 1].map (·.eval [iv j, iv (cid j), iv ((an.filter fun r => r.1 == j).length)]) ==
      [Expr.col 1].map (·.eval [iv i, iv (cid i), iv ((an.filter fun r => r.1 == i).length)])).length
      = clusterSize n cid i := by
    unfold clusterSize
    congr 1
    apply List.filter_congr
    intro j _
    simp only [List.map_cons, List.map_nil, Expr.eval, List.getD_cons_succ, List.getD_cons_zero]
    by_cases h : cid j = cid i
    · simp [h]
    · have : ¬ (cid j : Int) = (cid i : Int) := by omega
      simp [h, this]
  simp only [Function.comp_apply, hlen]
  simp [Expr.eval]

/-- The same with the model's table on the right-hand side. -/
theorem graphMetricsNodeDegree_eval_model (db : Db) (n : Nat) (cid : Nat → Nat) (es : List Edge)
    (hC : db "clustered_in" = clusteredRows n cid)
    (hA : db "__splink__all_nodes" = (GraphMetrics.allNodes es).map pairRow) :
    Gen.GMSql.graphMetricsNodeDegree.eval db = (nodeDegreeTable n cid es).map fun r =>
      [iv r.1, iv r.2.1, iv r.2.2.1, iv r.2.2.2] := by
  rw [graphMetricsNodeDegree_eval db n cid _ hC hA]
  unfold nodeDegreeTable
  rw [List.map_map]
  rfl

/-- The `node_centrality` expression. -/
theorem centrality_eval (a b : Val) (d s : Nat) :
    (Expr.case (Expr.cmp Cmp.gt (Expr.col 3) (Expr.lit (Val.int (1))))
      (Expr.arith Arith.div (Expr.arith Arith.mul (Expr.lit (Val.rat ((1 : Rat) / 1))) (Expr.col 2))
        (Expr.arith Arith.sub (Expr.col 3) (Expr.lit (Val.int (1)))))
      (Expr.toRat (Expr.lit (Val.int (0))))).eval [a, b, iv d, iv s]
      = encFrac (nodeCentrality d s) := by
  unfold nodeCentrality encFrac fracVal
  simp only [Expr.eval, List.getD_cons_succ, List.getD_cons_zero, cmp_gt_int]
  by_cases hs : s > 1
  · have h1 : (1 : Int) < (s : Int) := by omega
    have hne : ((((s : Int) - 1 : Int)) : Rat) ≠ 0 := by
      have : ((s : Int) - 1 : Int) ≠ 0 := by omega
      exact_mod_cast this
    have hcast : ((((s : Int) - 1 : Int)) : Rat) = (((s - 1 : Nat) : Nat) : Rat) := by
      have : ((s : Int) - 1 : Int) = ((s - 1 : Nat) : Int) := by omega
      rw [this]; simp
    simp only [h1, decide_true, BEq.rfl, if_true, hs, Arith.eval, Val.toRat?, hne, if_false]
    rw [hcast]
    simp
  · have h1 : ¬ (1 : Int) < (s : Int) := by omega
    simp [h1, hs]

/-- `__splink__graph_metrics_nodes` ↔ `nodeCentrality`. -/
theorem graphMetricsNodes_eval (db : Db) (n : Nat) (cid deg size : Nat → Nat)
    (hD : db "__splink__graph_metrics_node_degree" = (List.range n).map fun i =>
      [iv i, iv (cid i), iv (deg i), iv (size i)]) :
    Gen.GMSql.graphMetricsNodes.eval db = (List.range n).map fun i =>
      [iv i, iv (cid i), iv (deg i), encFrac (nodeCentrality (deg i) (size i))] := by
  unfold Gen.GMSql.graphMetricsNodes
  rw [eval_project, eval_table, hD, List.map_map]
  apply List.map_congr_left
  intro i _
  simp only [Function.comp_apply, List.map_cons, List.map_nil, centrality_eval]
  simp [Expr.eval]

/-- **Part 1.**  The node pipeline returns the encoded `nodesTable`, row order included. -/
theorem nodes_eq_model (n : Nat) (cid : Nat → Nat) (edges : List (Nat × Nat × Int)) (thr : Int) :
    GMSql.nodes (predictRows edges) (clusteredRows n cid) (Val.int thr)
      = (nodesTable n cid (kept thr edges)).map encNode := by
  let db0 := GMSql.baseDb (predictRows edges) (clusteredRows n cid)
  let db1 := Db.set db0 "__splink__truncated_edges" ((Gen.GMSql.truncatedEdges (Val.int thr)).eval db0)
  let db2 := Db.set db1 "__splink__all_nodes" (Gen.GMSql.allNodes.eval db1)
  let db3 := Db.set db2 "__splink__graph_metrics_node_degree" (Gen.GMSql.graphMetricsNodeDegree.eval db2)
  let db4 := Db.set db3 "__splink__graph_metrics_nodes" (Gen.GMSql.graphMetricsNodes.eval db3)
  have hrun : GMSql.nodes (predictRows edges) (clusteredRows n cid) (Val.int thr)
      = db4 "__splink__graph_metrics_nodes" := rfl
  have h0P : db0 "predict_in" = predictRows edges := by
    simp only [db0, GMSql.baseDb]; db_get
  have h1 := truncatedEdges_eval db0 edges thr h0P
  have h1T : db1 "__splink__truncated_edges" = predictRows (keptRows thr edges) := by
    simp only [db1]; db_get; exact h1
  have h2 := allNodes_eval db1 _ h1T
  rw [← kept_eq] at h2
  have h2C : db2 "clustered_in" = clusteredRows n cid := by
    simp only [db2, db1, db0, GMSql.baseDb]; db_get
  have h2A : db2 "__splink__all_nodes" = (GraphMetrics.allNodes (kept thr edges)).map pairRow := by
    simp only [db2]; db_get; exact h2
  have h3 := graphMetricsNodeDegree_eval db2 n cid _ h2C h2A
  have h3D : db3 "__splink__graph_metrics_node_degree" = (List.range n).map fun i =>
      [iv i, iv (cid i), iv (nodeDegree (kept thr edges) i), iv (clusterSize n cid i)] := by
    simp only [db3]; db_get; exact h3
  have h4 := graphMetricsNodes_eval db3 n cid _ _ h3D
  rw [hrun]
  have e : db4 "__splink__graph_metrics_nodes" = Gen.GMSql.graphMetricsNodes.eval db3 := by
    simp only [db4]; db_get
  rw [e, h4, Lemmas.GM.nodesTable_eq, List.map_map]
  rfl


/-- Row order of the two input tables does not matter (no aggregate of the node statements depends on it). -/
theorem nodes_perm_model_any_order (n : Nat) (cid : Nat → Nat) (edges : List (Nat × Nat × Int)) (thr : Int)
    (predict clustered : List Row) (hP : predict.Perm (predictRows edges))
    (hC : clustered.Perm (clusteredRows n cid)) :
    (GMSql.nodes predict clustered (Val.int thr)).Perm ((nodesTable n cid (kept thr edges)).map encNode) := by
  rw [← nodes_eq_model]
  unfold GMSql.nodes
  apply runStmts_perm
  · intro name
    unfold GMSql.baseDb
    exact set_perm (set_perm (fun _ => List.Perm.refl _) _ hP) _ hC name
  · simp [StmtsOK, AggsOK, AggOK, Gen.GMSql.nodeStmts, Gen.GMSql.truncatedEdges, Gen.GMSql.allNodes,
      Gen.GMSql.graphMetricsNodeDegree, Gen.GMSql.graphMetricsNodes]

/-! ## Part 2: the cluster table -/

theorem sumVals_iv {α : Type} (f : α → Nat) (l : List α) :
    sumVals (l.map fun x => iv (f x)) = if l = [] then Val.null else iv ((l.map f).sum) := by
  induction l with
  | nil => rfl
  | cons a t ih =>
    rw [List.map_cons, sumVals_cons, ih]
    by_cases ht : t = []
    · subst ht; simp [sumStep]
    · simp only [ht, if_false, List.cons_ne_nil, List.map_cons, List.sum_cons]
      simp [sumStep, Arith.eval]

theorem foldl_max_init (l : List Nat) (init : Nat) : l.foldl max init = max init (l.foldl max 0) := by
  induction l generalizing init with
  | nil => simp
  | cons a t ih =>
    rw [List.foldl_cons, List.foldl_cons, ih (max init a), ih (max 0 a)]
    omega

theorem maxVals_iv {α : Type} (f : α → Nat) (l : List α) :
    maxVals (l.map fun x => iv (f x)) = if l = [] then Val.null else iv ((l.map f).foldl max 0) := by
  induction l with
  | nil => rfl
  | cons a t ih =>
    rw [List.map_cons, maxVals_cons, ih]
    by_cases ht : t = []
    · subst ht; simp [maxStep]
    · simp only [ht, if_false, List.cons_ne_nil, List.map_cons, List.foldl_cons]
      rw [maxStep_int_int, foldl_max_init _ (max 0 (f a))]
      congr 1
      omega

/-- One row of the `GROUP BY cluster_id` of `__splink__counts_per_cluster`, before the projection. -/
def groupRow (rows : List NodeRow) (c : Nat) : Row :=
  let ms := rows.filter fun r => r.cluster == c
  [iv c, iv ms.length, iv (sumDeg ms), iv (maxDeg ms)]

theorem clusters_group (rows : List NodeRow) :
    groupRows [Expr.col 1] [Agg.countStar, Agg.sum (Expr.col 2), Agg.max (Expr.col 2)] (rows.map encNode)
      = ((rows.map (·.cluster)).eraseDups).map (groupRow rows) := by
  simp only [groupRows, List.isEmpty_cons, Bool.false_eq_true, if_false]
  have hkeys : ((rows.map encNode).map fun row => [Expr.col 1].map (·.eval row))
      = (rows.map (·.cluster)).map fun c => [iv c] := by
    rw [List.map_map, List.map_map]
    apply List.map_congr_left
    intro r _
    simp [encNode, Expr.eval]
  rw [hkeys, eraseDups_map_inj (fun c => [iv c]) (fun a b h => by
    have : iv a = iv b := by injection h
    exact iv_inj.mp this) _ _ (Nat.le_refl _), List.map_map]
  apply List.map_congr_left
  intro c hc
  have hfil : (rows.map encNode).filter (fun row => [Expr.col 1].map (·.eval row) == [iv c])
      = (rows.filter fun r => r.cluster == c).map encNode := by
    rw [List.filter_map]
    congr 1
    apply List.filter_congr
    intro r _
    simp only [Function.comp_apply, encNode, List.map_cons, List.map_nil, Expr.eval,
      List.getD_cons_succ, List.getD_cons_zero]
    by_cases h : r.cluster = c
    · simp [h]
    · have : ¬ (r.cluster : Int) = (c : Int) := by omega
      simp [h, this]
  have hne : (rows.filter fun r => r.cluster == c) ≠ [] := by
    rw [List.mem_eraseDups, List.mem_map] at hc
    obtain ⟨r, hr, hrc⟩ := hc
    intro h
    have : r ∈ rows.filter fun r => r.cluster == c := List.mem_filter.mpr ⟨hr, by simp [hrc]⟩
    rw [h] at this
    cases this
  have hs : sumVals (((rows.filter fun r => r.cluster == c).map encNode).map fun row => Expr.eval row (Expr.col 2))
      = iv (sumDeg (rows.filter fun r => r.cluster == c)) := by
    have := sumVals_iv (fun r : NodeRow => r.degree) (rows.filter fun r => r.cluster == c)
    simp only [hne, if_false] at this
    rw [List.map_map]
    exact this
  have hm : maxVals (((rows.filter fun r => r.cluster == c).map encNode).map fun row => Expr.eval row (Expr.col 2))
      = iv (maxDeg (rows.filter fun r => r.cluster == c)) := by
    have := maxVals_iv (fun r : NodeRow => r.degree) (rows.filter fun r => r.cluster == c)
    simp only [hne, if_false] at this
    rw [List.map_map]
    exact this
  simp only [Function.comp_apply]
  rw [hfil]
  simp only [List.map_cons, List.map_nil, Agg.eval, List.length_map, groupRow, List.cons_append,
    List.nil_append]
  rw [hs, hm]

/-- `SUM(node_degree)/2.0`. -/
theorem nEdges_eval (s : Nat) : Arith.div.eval (iv s) (Val.rat ((2 : Rat) / 1)) = encFrac ⟨s, 2⟩ := by
  simp [Arith.eval, Val.toRat?, encFrac, fracVal]

/-- The `cluster_centralisation` expression on a grouped row. -/
theorem centralisation_eval (a : Val) (k s mx : Nat) :
    (Expr.case (Expr.cmp Cmp.gt (Expr.col 1) (Expr.lit (Val.int (2))))
      (Expr.arith Arith.div
        (Expr.arith Arith.mul (Expr.lit (Val.rat ((1 : Rat) / 1)))
          (Expr.arith Arith.sub (Expr.arith Arith.mul (Expr.col 1) (Expr.col 3)) (Expr.col 2)))
        (Expr.arith Arith.mul (Expr.arith Arith.sub (Expr.col 1) (Expr.lit (Val.int (1))))
          (Expr.arith Arith.sub (Expr.col 1) (Expr.lit (Val.int (2))))))
      (Expr.lit Val.null)).eval [a, iv k, iv s, iv mx]
      = encOptFrac (if k > 2 then some ⟨(k : Int) * (mx : Int) - (s : Int), (k - 1) * (k - 2)⟩ else none) := by
  simp only [Expr.eval, List.getD_cons_succ, List.getD_cons_zero, cmp_gt_int]
  by_cases hk : k > 2
  · have h1 : (2 : Int) < (k : Int) := by omega
    have hden : (((k : Int) - 1) * ((k : Int) - 2) : Int) = (((k - 1) * (k - 2) : Nat) : Int) := by
      have e1 : ((k - 1 : Nat) : Int) = (k : Int) - 1 := by omega
      have e2 : ((k - 2 : Nat) : Int) = (k : Int) - 2 := by omega
      rw [Nat.cast_mul, e1, e2]
    simp only [h1, decide_true, BEq.rfl, if_true, hk, Arith.eval, Val.toRat?, encOptFrac, encFrac, fracVal,
      hden]
    simp
    exact ⟨by omega, by omega⟩
  · have h1 : ¬ (2 : Int) < (k : Int) := by omega
    simp [h1, hk, encOptFrac]

/-- The `density` expression on a row of `__splink__counts_per_cluster`. -/
theorem density_eval (a b : Val) (k s : Nat) :
    (Expr.case (Expr.cmp Cmp.gt (Expr.col 1) (Expr.lit (Val.int (1))))
      (Expr.arith Arith.div
        (Expr.arith Arith.mul (Expr.lit (Val.rat ((1 : Rat) / 1)))
          (Expr.arith Arith.mul (Expr.col 2) (Expr.lit (Val.int (2)))))
        (Expr.arith Arith.mul (Expr.col 1) (Expr.arith Arith.sub (Expr.col 1) (Expr.lit (Val.int (1))))))
      (Expr.lit Val.null)).eval [a, iv k, encFrac ⟨s, 2⟩, b]
      = encOptFrac (if k > 1 then some ⟨(s : Int) * 2, 2 * (k * (k - 1))⟩ else none) := by
  simp only [Expr.eval, List.getD_cons_succ, List.getD_cons_zero, cmp_gt_int]
  by_cases hk : k > 1
  · have h1 : (1 : Int) < (k : Int) := by omega
    have hden : ((k : Int) * ((k : Int) - 1) : Int) = ((k * (k - 1) : Nat) : Int) := by
      have e1 : ((k - 1 : Nat) : Int) = (k : Int) - 1 := by omega
      rw [Nat.cast_mul, e1]
    have hpos : ((k * (k - 1) : Nat) : Rat) ≠ 0 := by
      have : k * (k - 1) ≠ 0 := Nat.mul_ne_zero (by omega) (by omega)
      exact_mod_cast this
    simp only [h1, decide_true, BEq.rfl, if_true, hk, Arith.eval, Val.toRat?, encOptFrac, encFrac, fracVal,
      hden]
    simp only [Int.cast_natCast, hpos, if_false, Val.rat.injEq]
    push_cast
    field_simp
  · have h1 : ¬ (1 : Int) < (k : Int) := by omega
    simp [h1, hk, encOptFrac]


/-- `__splink__counts_per_cluster` ↔ the first four columns of `clusterRow`. -/
theorem countsPerCluster_eval (db : Db) (rows : List NodeRow)
    (hN : db "__splink__graph_metrics_nodes" = rows.map encNode) :
    Gen.GMSql.countsPerCluster.eval db = ((rows.map (·.cluster)).eraseDups).map fun c =>
      [iv c, iv (clusterRow rows c).nNodes, encFrac (clusterRow rows c).nEdges,
        encOptFrac (clusterRow rows c).centralisation] := by
  unfold Gen.GMSql.countsPerCluster
  rw [eval_project, eval_groupBy, eval_table, hN, clusters_group, List.map_map]
  apply List.map_congr_left
  intro c _
  simp only [Function.comp_apply, groupRow, List.map_cons, List.map_nil, centralisation_eval]
  simp only [Expr.eval, List.getD_cons_succ, List.getD_cons_zero, nEdges_eval]
  rfl

/-- `__splink__graph_metrics_clusters` ↔ the `density` column of `clusterRow`. -/
theorem graphMetricsClusters_eval (db : Db) (rows : List NodeRow) (L : List Nat)
    (hC : db "__splink__counts_per_cluster" = L.map fun c =>
      [iv c, iv (clusterRow rows c).nNodes, encFrac (clusterRow rows c).nEdges,
        encOptFrac (clusterRow rows c).centralisation]) :
    Gen.GMSql.graphMetricsClusters.eval db = L.map fun c => encCluster (clusterRow rows c) := by
  unfold Gen.GMSql.graphMetricsClusters
  rw [eval_project, eval_table, hC, List.map_map]
  apply List.map_congr_left
  intro c _
  have hE : (clusterRow rows c).nEdges = ⟨sumDeg (rows.filter fun r => r.cluster == c), 2⟩ := rfl
  simp only [Function.comp_apply, List.map_cons, List.map_nil, hE, density_eval]
  simp only [Expr.eval, List.getD_cons_succ, List.getD_cons_zero]
  rfl

/-- **Part 2.**  The cluster pipeline on an encoded node table returns the encoded `clustersTable`, row order
included — for ANY list of node rows. -/
theorem clusters_eq_model (rows : List NodeRow) :
    GMSql.clusters (rows.map encNode) = (clustersTable rows).map encCluster := by
  let db0 := Db.set GMSql.emptyDb "__splink__graph_metrics_nodes" (rows.map encNode)
  let db1 := Db.set db0 "__splink__counts_per_cluster" (Gen.GMSql.countsPerCluster.eval db0)
  let db2 := Db.set db1 "__splink__graph_metrics_clusters" (Gen.GMSql.graphMetricsClusters.eval db1)
  have hrun : GMSql.clusters (rows.map encNode) = db2 "__splink__graph_metrics_clusters" := rfl
  have h0 : db0 "__splink__graph_metrics_nodes" = rows.map encNode := by
    simp only [db0]; db_get
  have h1 := countsPerCluster_eval db0 rows h0
  have h1C : db1 "__splink__counts_per_cluster" = ((rows.map (·.cluster)).eraseDups).map fun c =>
      [iv c, iv (clusterRow rows c).nNodes, encFrac (clusterRow rows c).nEdges,
        encOptFrac (clusterRow rows c).centralisation] := by
    simp only [db1]; db_get; exact h1
  have h2 := graphMetricsClusters_eval db1 rows _ h1C
  have e : db2 "__splink__graph_metrics_clusters" = Gen.GMSql.graphMetricsClusters.eval db1 := by
    simp only [db2]; db_get
  rw [hrun, e, h2]
  unfold clustersTable
  rw [List.map_map]
  rfl

/-- The cluster statements only aggregate integers: `SUM` / `MAX(node_degree)`. -/
theorem clusterStmts_ok (rows : List NodeRow) :
    StmtsOK (Db.set GMSql.emptyDb "__splink__graph_metrics_nodes" (rows.map encNode)) Gen.GMSql.clusterStmts := by
  have hnum : ∀ row ∈ rows.map encNode, ∃ i, (Expr.col 2).eval row = Val.int i := by
    intro row hrow
    obtain ⟨r, _, rfl⟩ := List.mem_map.mp hrow
    exact ⟨r.degree, rfl⟩
  refine ⟨⟨trivial, ?_⟩, trivial, trivial⟩
  intro a ha
  simp only [List.mem_cons, List.not_mem_nil, or_false] at ha
  rw [eval_table, set_same]
  rcases ha with rfl | rfl | rfl
  · trivial
  · intro row hrow
    obtain ⟨i, hi⟩ := hnum row hrow
    exact Or.inr (Or.inl ⟨i, hi⟩)
  · intro row hrow
    obtain ⟨i, hi⟩ := hnum row hrow
    exact Or.inr ⟨i, hi⟩

/-- **Part 2, any row order** of the node table. -/
theorem clusters_perm_model (rows : List NodeRow) (nodesTab : List Row) (hT : nodesTab.Perm (rows.map encNode)) :
    (GMSql.clusters nodesTab).Perm ((clustersTable rows).map encCluster) := by
  rw [← clusters_eq_model]
  unfold GMSql.clusters
  refine (runStmts_perm (db := Db.set GMSql.emptyDb "__splink__graph_metrics_nodes" (rows.map encNode))
    (db' := Db.set GMSql.emptyDb "__splink__graph_metrics_nodes" nodesTab) ?_ _ (clusterStmts_ok rows) _).symm
  exact set_perm (fun _ => List.Perm.refl _) _ hT.symm


/-! ## Part 3: the edge table -/

/-- A look-up join: every left row has exactly one partner. -/
theorem joinRows_lookup_eq {α : Type} (L : List α) (fa fb : α → Row) (left : Bool) (on : Expr)
    (B : List Row) (bw : Nat)
    (hmatch : ∀ i ∈ L, (B.filter fun x => on.holds (fa i ++ x)) = [fb i]) :
    joinRows left on (L.map fa) B bw = L.map fun i => fa i ++ fb i := by
  unfold joinRows
  rw [List.flatMap_map, List.map_eq_flatMap]
  apply List.flatMap_congr
  intro i hi
  simp [hmatch i hi]

/-- `__splink__nodes_integer_mapping` for the row order `order` of the nodes table. -/
def mapRows (order : List Nat) : List Row := GMSql.mapping (order.map fun (i : Nat) => Val.int (i : Int))

theorem mapRows_eq (order : List Nat) :
    mapRows order = (List.range order.length).map fun i => [iv (order.getD i 0), iv i] := by
  unfold mapRows GMSql.mapping
  rw [List.length_map]
  apply List.map_congr_left
  intro i hi
  have hi' : i < order.length := List.mem_range.mp hi
  simp [List.getD_eq_getElem?_getD, List.getElem?_map, List.getElem?_eq_getElem hi']

/-- Reading the mapping left to right: the only row whose `composite_unique_id` is `v`. -/
theorem mapRows_filter_old (order : List Nat) (hnd : order.Nodup) (v : Nat) (hv : v ∈ order) (p : Row → Bool)
    (hp : ∀ i, i < order.length → p [iv (order.getD i 0), iv i] = (order.getD i 0 == v)) :
    (mapRows order).filter p = [[iv v, iv (Lemmas.GM.pi order v)]] := by
  obtain ⟨k, hk⟩ := Lemmas.GM.newId_isSome_of_mem hv
  have hklt : k < order.length := Lemmas.GM.newId_lt hk
  have hold : order[k]? = some v := Lemmas.GM.oldId_newId hk
  have hkv : order.getD k 0 = v := by simp [List.getD_eq_getElem?_getD, hold]
  have hpi : Lemmas.GM.pi order v = k := by simp [Lemmas.GM.pi, hk]
  rw [mapRows_eq, List.filter_map]
  have hf : (List.range order.length).filter (p ∘ fun i => [iv (order.getD i 0), iv i]) = [k] := by
    apply filter_eq_singleton List.nodup_range (List.mem_range.mpr hklt)
    · simp only [Function.comp_apply]
      rw [hp k hklt, hkv]
      exact beq_self_eq_true _
    · intro i hi hpi'
      have hi' : i < order.length := List.mem_range.mp hi
      simp only [Function.comp_apply] at hpi'
      rw [hp i hi'] at hpi'
      have hiv : order.getD i 0 = v := by simpa using hpi'
      have hget : order[i]? = some v := by
        rw [List.getD_eq_getElem?_getD, List.getElem?_eq_getElem hi'] at hiv
        rw [List.getElem?_eq_getElem hi']
        simpa using hiv
      exact (List.getElem?_inj hi' hnd).mp (hget.trans hold.symm)
  rw [hf, List.map_singleton, hkv, hpi]

/-- Reading the mapping right to left: the only row whose `new_id` is `k`. -/
theorem mapRows_filter_new (order : List Nat) (k : Nat) (hk : k < order.length) (p : Row → Bool)
    (hp : ∀ i, i < order.length → p [iv (order.getD i 0), iv i] = (i == k)) :
    (mapRows order).filter p = [[iv (order.getD k 0), iv k]] := by
  rw [mapRows_eq, List.filter_map]
  have hf : (List.range order.length).filter (p ∘ fun i => [iv (order.getD i 0), iv i]) = [k] := by
    apply filter_eq_singleton List.nodup_range (List.mem_range.mpr hk)
    · simp only [Function.comp_apply]
      rw [hp k hk]
      exact beq_self_eq_true _
    · intro i hi hpi'
      simp only [Function.comp_apply] at hpi'
      rw [hp i (List.mem_range.mp hi)] at hpi'
      simpa using hpi'
  rw [hf, List.map_singleton]

theorem iv_eq_decide (a b : Nat) : decide ((a : Int) = (b : Int)) = (a == b) := by
  by_cases h : a = b
  · simp [h]
  · have : ¬ (a : Int) = (b : Int) := by omega
    simp [h, this]

/-- `__splink__edges_with_mapped_ids` ↔ `edgesForIgraph`: every kept edge relabelled, in order. -/
theorem edgesWithMappedIds_eval (db : Db) (order : List Nat) (ke : List (Nat × Nat × Int))
    (hnd : order.Nodup) (hmem : ∀ e ∈ ke, e.1 ∈ order ∧ e.2.1 ∈ order)
    (hT : db "__splink__truncated_edges" = predictRows ke)
    (hM : db "__splink__nodes_integer_mapping" = mapRows order) :
    Gen.GMSql.edgesWithMappedIds.eval db
      = (ke.map fun e => (e.1, e.2.1)).map fun e => pairRow (Lemmas.GM.relabel order e) := by
  have h1 : joinRows true (Expr.cmp Cmp.eq (Expr.col 0) (Expr.col 3))
      (ke.map fun e => [Val.int e.1, Val.int e.2.1, Val.int e.2.2]) (mapRows order) 2
      = ke.map fun e => [Val.int e.1, Val.int e.2.1, Val.int e.2.2] ++ [iv e.1, iv (Lemmas.GM.pi order e.1)] := by
    apply joinRows_lookup_eq
    intro e he
    apply mapRows_filter_old order hnd e.1 (hmem e he).1
    intro i _
    simp only [Expr.holds, Expr.eval, List.cons_append, List.nil_append, List.getD_cons_succ,
      List.getD_cons_zero, cmp_eq_int, bool_beq_true, iv_eq_decide]
    exact Bool.beq_comm
  have h2 : joinRows true (Expr.cmp Cmp.eq (Expr.col 2) (Expr.col 1))
      (ke.map fun e => [iv (Lemmas.GM.pi order e.1), iv e.2.1]) (mapRows order) 2
      = ke.map fun e => [iv (Lemmas.GM.pi order e.1), iv e.2.1] ++ [iv e.2.1, iv (Lemmas.GM.pi order e.2.1)] := by
    apply joinRows_lookup_eq
    intro e he
    apply mapRows_filter_old order hnd e.2.1 (hmem e he).2
    intro i _
    simp only [Expr.holds, Expr.eval, List.cons_append, List.nil_append, List.getD_cons_succ,
      List.getD_cons_zero, cmp_eq_int, bool_beq_true, iv_eq_decide]
  have hp : (ke.map fun e => [Val.int e.1, Val.int e.2.1, Val.int e.2.2] ++ [iv e.1, iv (Lemmas.GM.pi order e.1)]).map
      (fun row => [Expr.col 4, Expr.col 1].map (·.eval row))
      = ke.map fun e => [iv (Lemmas.GM.pi order e.1), iv e.2.1] := by
    rw [List.map_map]
    apply List.map_congr_left
    intro e _
    simp [Expr.eval]
  unfold Gen.GMSql.edgesWithMappedIds
  rw [eval_project, eval_join, eval_project, eval_join, eval_table, eval_table, hT, hM]
  unfold predictRows
  rw [h1, hp, h2, List.map_map, List.map_map]
  apply List.map_congr_left
  intro e _
  simp [Expr.eval, pairRow, Lemmas.GM.relabel, Lemmas.GM.pi]

/-- An id that may be NULL (an endpoint the mapping does not know). -/
def encOptNat : Option Nat → Val
  | none => Val.null
  | some k => iv k

/-- A row of `__splink__bridges_only`. -/
def brRow (q : Option Nat × Option Nat) : Row := [encOptNat q.1, encOptNat q.2, Val.bool true]

/-- A row of `__splink__edges_with_mapped_ids` as the model has it (an endpoint unknown to the mapping is NULL). -/
def optPairRow (p : Option Nat × Option Nat) : Row := [encOptNat p.1, encOptNat p.2]

/-- `__splink__edges_with_mapped_ids` with the model's `edgesForIgraph` on the right-hand side. -/
theorem edgesWithMappedIds_eval_model (db : Db) (order : List Nat) (ke : List (Nat × Nat × Int))
    (hnd : order.Nodup) (hmem : ∀ e ∈ ke, e.1 ∈ order ∧ e.2.1 ∈ order)
    (hT : db "__splink__truncated_edges" = predictRows ke)
    (hM : db "__splink__nodes_integer_mapping" = mapRows order) :
    Gen.GMSql.edgesWithMappedIds.eval db
      = (GraphMetrics.edgesForIgraph order (ke.map fun e => (e.1, e.2.1))).map optPairRow := by
  rw [edgesWithMappedIds_eval db order ke hnd hmem hT hM]
  unfold GraphMetrics.edgesForIgraph
  rw [List.map_map, List.map_map, List.map_map]
  apply List.map_congr_left
  intro e he
  obtain ⟨a, ha⟩ := Lemmas.GM.newId_isSome_of_mem (hmem e he).1
  obtain ⟨b, hb⟩ := Lemmas.GM.newId_isSome_of_mem (hmem e he).2
  simp [Lemmas.GM.relabel, ha, hb, optPairRow, encOptNat, pairRow]

/-- `__splink__bridges_only` ↔ `GraphMetrics.bridgesOnly`: bridge rows mapped back to the record ids. -/
theorem bridgesOnly_eval (db : Db) (order : List Nat) (bl : List (Nat × Nat))
    (hlt : ∀ q ∈ bl, q.1 < order.length ∧ q.2 < order.length)
    (hB : db "bridges_in" = bl.map pairRow)
    (hM : db "__splink__nodes_integer_mapping" = mapRows order) :
    Gen.GMSql.bridgesOnly.eval db = (GraphMetrics.bridgesOnly order bl).map brRow := by
  have h1 : joinRows true (Expr.cmp Cmp.eq (Expr.col 0) (Expr.col 3)) (bl.map pairRow) (mapRows order) 2
      = bl.map fun q => pairRow q ++ [iv (order.getD q.1 0), iv q.1] := by
    apply joinRows_lookup_eq
    intro q hq
    apply mapRows_filter_new order q.1 (hlt q hq).1
    intro i _
    simp only [pairRow, Expr.holds, Expr.eval, List.cons_append, List.nil_append, List.getD_cons_succ,
      List.getD_cons_zero, cmp_eq_int, bool_beq_true, iv_eq_decide]
    exact Bool.beq_comm
  have hp : (bl.map fun q => pairRow q ++ [iv (order.getD q.1 0), iv q.1]).map
      (fun row => [Expr.col 2, Expr.col 1].map (·.eval row))
      = bl.map fun q => [iv (order.getD q.1 0), iv q.2] := by
    rw [List.map_map]
    apply List.map_congr_left
    intro q _
    simp [Expr.eval, pairRow]
  have h2 : joinRows true (Expr.cmp Cmp.eq (Expr.col 3) (Expr.col 1))
      (bl.map fun q => [iv (order.getD q.1 0), iv q.2]) (mapRows order) 2
      = bl.map fun q => [iv (order.getD q.1 0), iv q.2] ++ [iv (order.getD q.2 0), iv q.2] := by
    apply joinRows_lookup_eq
    intro q hq
    apply mapRows_filter_new order q.2 (hlt q hq).2
    intro i _
    simp only [Expr.holds, Expr.eval, List.cons_append, List.nil_append, List.getD_cons_succ,
      List.getD_cons_zero, cmp_eq_int, bool_beq_true, iv_eq_decide]
  unfold Gen.GMSql.bridgesOnly GraphMetrics.bridgesOnly
  rw [eval_project, eval_join, eval_project, eval_join, eval_table, eval_table, hB, hM, h1, hp, h2,
    List.map_map, List.map_map]
  apply List.map_congr_left
  intro q hq
  have e1 : order[q.1]? = some (order.getD q.1 0) := by
    simp [List.getD_eq_getElem?_getD, List.getElem?_eq_getElem (hlt q hq).1]
  have e2 : order[q.2]? = some (order.getD q.2 0) := by
    simp [List.getD_eq_getElem?_getD, List.getElem?_eq_getElem (hlt q hq).2]
  simp only [Function.comp_apply, oldId, e1, e2, brRow, encOptNat]
  simp [Expr.eval]

/-- The `ON e.unique_id_l = b.node_l AND e.unique_id_r = b.node_r` predicate (NULL never matches). -/
theorem edgeOn_holds (l r : Nat) (pv : Val) (q : Option Nat × Option Nat) :
    (Expr.and (Expr.cmp Cmp.eq (Expr.col 0) (Expr.col 3)) (Expr.cmp Cmp.eq (Expr.col 1) (Expr.col 4))).holds
      ([iv l, iv r, pv] ++ brRow q) = (q == (some l, some r)) := by
  obtain ⟨a, b⟩ := q
  cases a with
  | none =>
    cases b with
    | none => simp [Expr.holds, Expr.eval, brRow, encOptNat, and3]
    | some y =>
      by_cases h : r = y <;> simp [Expr.holds, Expr.eval, brRow, encOptNat, and3, h]
  | some x =>
    cases b with
    | none =>
      by_cases h : l = x <;> simp [Expr.holds, Expr.eval, brRow, encOptNat, and3, h]
    | some y =>
      by_cases h1 : l = x <;> by_cases h2 : r = y <;>
        simp [Expr.holds, Expr.eval, brRow, encOptNat, and3, h1, h2] <;> omega


/-- `__splink__graph_metrics_edges` ↔ `fullBridges` (for ANY table of bridge rows, NULL ids included). -/
theorem graphMetricsEdges_eval (db : Db) (ke : List (Nat × Nat × Int)) (b : List (Option Nat × Option Nat))
    (hT : db "__splink__truncated_edges" = predictRows ke)
    (hB : db "__splink__bridges_only" = b.map brRow) :
    Gen.GMSql.graphMetricsEdges.eval db = (fullBridges (ke.map fun e => (e.1, e.2.1)) b).map encEdge := by
  unfold Gen.GMSql.graphMetricsEdges
  rw [eval_project, eval_join, eval_table, eval_table, hT, hB]
  unfold joinRows predictRows fullBridges
  rw [List.flatMap_map, List.flatMap_map, List.map_flatMap, List.map_flatMap]
  apply List.flatMap_congr
  intro e _
  have hf : ((b.map brRow).filter fun x =>
      (Expr.and (Expr.cmp Cmp.eq (Expr.col 0) (Expr.col 3)) (Expr.cmp Cmp.eq (Expr.col 1) (Expr.col 4))).holds
        ([Val.int e.1, Val.int e.2.1, Val.int e.2.2] ++ x))
      = (b.filter fun r => r == (some e.1, some e.2.1)).map brRow := by
    rw [List.filter_map]
    congr 1
    apply List.filter_congr
    intro q _
    exact edgeOn_holds e.1 e.2.1 (Val.int e.2.2) q
  simp only [hf]
  by_cases hemp : (b.filter fun r => r == (some e.1, some e.2.1)).isEmpty = true
  · simp [hemp, Expr.eval, encEdge]
  · simp only [Bool.true_and, List.isEmpty_map, hemp, Bool.false_eq_true, if_false, List.map_map]
    apply List.map_congr_left
    intro q' _
    simp [Expr.eval, encEdge, brRow]

theorem decodePairs_pairRow (g : List (Nat × Nat)) : decodePairs (g.map pairRow) = g := by
  unfold decodePairs
  rw [List.map_map]
  conv => rhs; rw [← List.map_id g]
  apply List.map_congr_left
  intro q _
  simp [pairRow, valNat]

/-- **Part 3.**  The edge pipeline (relabelling, any bridge finder, relabelling back, join) returns the encoded
`edgesTable`, row order included, when the mapping lists every endpoint exactly once. -/
theorem edges_eq_model (bridges : List (Nat × Nat) → List Nat) (order : List Nat)
    (edges : List (Nat × Nat × Int)) (thr : Int) (hnd : order.Nodup)
    (hmem : ∀ e ∈ edges, e.1 ∈ order ∧ e.2.1 ∈ order) :
    ∃ t, edgesTable bridges order (kept thr edges) = some t ∧
      GMSql.edges (fun em => bridges (decodePairs em)) (predictRows edges)
        (order.map fun (i : Nat) => Val.int (i : Int)) (Val.int thr) = t.map encEdge := by
  have hmemK : ∀ e ∈ keptRows thr edges, e.1 ∈ order ∧ e.2.1 ∈ order :=
    fun e he => hmem e (List.mem_filter.mp he).1
  have hmemE : ∀ e ∈ kept thr edges, e.1 ∈ order ∧ e.2 ∈ order := by
    intro e he
    rw [kept_eq] at he
    obtain ⟨x, hx, rfl⟩ := List.mem_map.mp he
    exact hmemK x hx
  let g := (kept thr edges).map (Lemmas.GM.relabel order)
  refine ⟨fullBridges (kept thr edges) (GraphMetrics.bridgesOnly order (bridgeRows bridges g)), ?_, ?_⟩
  · unfold edgesTable
    rw [Lemmas.GM.igraphInput_eq order _ hmemE, Option.map_some]
  · let db0 := Db.set (GMSql.baseDb (predictRows edges) []) "__splink__nodes_integer_mapping" (mapRows order)
    let db1 := Db.set db0 "__splink__truncated_edges" ((Gen.GMSql.truncatedEdges (Val.int thr)).eval db0)
    let db2 := Db.set db1 "__splink__edges_with_mapped_ids" (Gen.GMSql.edgesWithMappedIds.eval db1)
    let em := db2 "__splink__edges_with_mapped_ids"
    let bl := (bridges (decodePairs em)).filterMap fun k => em[k]?
    let db3 := Db.set db2 "bridges_in" bl
    let db4 := Db.set db3 "__splink__bridges_only" (Gen.GMSql.bridgesOnly.eval db3)
    let db5 := Db.set db4 "__splink__graph_metrics_edges" (Gen.GMSql.graphMetricsEdges.eval db4)
    have hrun : GMSql.edges (fun em => bridges (decodePairs em)) (predictRows edges)
        (order.map fun (i : Nat) => Val.int (i : Int)) (Val.int thr) = db5 "__splink__graph_metrics_edges" := rfl
    have h0P : db0 "predict_in" = predictRows edges := by
      simp only [db0, GMSql.baseDb]; db_get
    have h1 := truncatedEdges_eval db0 edges thr h0P
    have h1T : db1 "__splink__truncated_edges" = predictRows (keptRows thr edges) := by
      simp only [db1]; db_get; exact h1
    have h1M : db1 "__splink__nodes_integer_mapping" = mapRows order := by
      simp only [db1, db0]; db_get
    have h2 := edgesWithMappedIds_eval db1 order _ hnd hmemK h1T h1M
    rw [← kept_eq] at h2
    have hem : em = g.map pairRow := by
      simp only [em, db2, g]; db_get; rw [h2, List.map_map]; rfl
    have hbl : bl = (bridgeRows bridges g).map pairRow := by
      simp only [bl]
      rw [hem, decodePairs_pairRow]
      unfold bridgeRows
      rw [List.map_filterMap]
      apply List.filterMap_congr
      intro k _
      rw [List.getElem?_map]
    have hlt : ∀ q ∈ bridgeRows bridges g, q.1 < order.length ∧ q.2 < order.length := by
      intro q hq
      obtain ⟨k, _, hk⟩ := Lemmas.GM.mem_bridgeRows.mp hq
      have hqg : q ∈ g := List.mem_of_getElem? hk
      obtain ⟨e, he, rfl⟩ := List.mem_map.mp hqg
      obtain ⟨a, ha⟩ := Lemmas.GM.newId_isSome_of_mem (hmemE e he).1
      obtain ⟨b, hb⟩ := Lemmas.GM.newId_isSome_of_mem (hmemE e he).2
      simp only [Lemmas.GM.relabel, ha, hb, Option.getD_some]
      exact ⟨Lemmas.GM.newId_lt ha, Lemmas.GM.newId_lt hb⟩
    have h3B : db3 "bridges_in" = (bridgeRows bridges g).map pairRow := by
      simp only [db3]; db_get; exact hbl
    have h3M : db3 "__splink__nodes_integer_mapping" = mapRows order := by
      simp only [db3, db2, db1, db0]; db_get
    have h4 := bridgesOnly_eval db3 order _ hlt h3B h3M
    have h4T : db4 "__splink__truncated_edges" = predictRows (keptRows thr edges) := by
      simp only [db4, db3, db2, db1]; db_get; exact h1
    have h4B : db4 "__splink__bridges_only" = (GraphMetrics.bridgesOnly order (bridgeRows bridges g)).map brRow := by
      simp only [db4]; db_get; exact h4
    have h5 := graphMetricsEdges_eval db4 _ _ h4T h4B
    rw [← kept_eq] at h5
    have e : db5 "__splink__graph_metrics_edges" = Gen.GMSql.graphMetricsEdges.eval db4 := by
      simp only [db5]; db_get
    rw [hrun, e, h5]


/-- Part 3 for a mapping that numbers the records `0..n-1` in any order (the engine's `row_number()`), as a
permutation statement. -/
theorem edges_perm_model (n : Nat) (bridges : List (Nat × Nat) → List Nat) (order : List Nat)
    (edges : List (Nat × Nat × Int)) (thr : Int) (hO : order.Perm (List.range n))
    (hE : ∀ e ∈ edges, e.1 < n ∧ e.2.1 < n) :
    ∃ t, edgesTable bridges order (kept thr edges) = some t ∧
      (GMSql.edges (fun em => bridges (decodePairs em)) (predictRows edges)
        (order.map fun (i : Nat) => Val.int (i : Int)) (Val.int thr)).Perm (t.map encEdge) := by
  have hnd : order.Nodup := hO.nodup_iff.mpr List.nodup_range
  have hmem : ∀ e ∈ edges, e.1 ∈ order ∧ e.2.1 ∈ order := fun e he =>
    ⟨hO.mem_iff.mpr (List.mem_range.mpr (hE e he).1), hO.mem_iff.mpr (List.mem_range.mpr (hE e he).2)⟩
  obtain ⟨t, ht, hS⟩ := edges_eq_model bridges order edges thr hnd hmem
  exact ⟨t, ht, List.Perm.of_eq hS⟩

/-! ## Part 4: C19 theorems at the level of the SQL -/

/-- The `(composite_unique_id, node_degree)` columns of the SQL's node table. -/
theorem nodes_id_degree (n : Nat) (cid : Nat → Nat) (edges : List (Nat × Nat × Int)) (thr : Int) :
    (GMSql.nodes (predictRows edges) (clusteredRows n cid) (Val.int thr)).map
        (fun row => (row.getD 0 Val.null, row.getD 2 Val.null))
      = (List.range n).map fun i => (iv i, iv (nodeDegree (kept thr edges) i)) := by
  rw [nodes_eq_model, Lemmas.GM.nodesTable_eq, List.map_map, List.map_map]
  apply List.map_congr_left
  intro i _
  rfl

/-- `C19.degree_counts_rows` for the SQL. -/
theorem nodes_degree_counts_rows (n : Nat) (cid : Nat → Nat) (edges : List (Nat × Nat × Int)) (thr : Int) :
    (GMSql.nodes (predictRows edges) (clusteredRows n cid) (Val.int thr)).map
        (fun row => (row.getD 0 Val.null, row.getD 2 Val.null))
      = (List.range n).map fun i => (iv i,
          iv (((kept thr edges).filter fun e => e.1 == i).length + ((kept thr edges).filter fun e => e.2 == i).length)) := by
  rw [nodes_id_degree]
  apply List.map_congr_left
  intro i _
  rw [C19.degree_counts_rows]

/-- `C19.degree_def` for the SQL: on a simple kept graph the column is the number of incident kept edges and the
number of distinct neighbours. -/
theorem nodes_degree_def (n : Nat) (cid : Nat → Nat) (edges : List (Nat × Nat × Int)) (thr : Int)
    (hS : Lemmas.GM.Simple (kept thr edges)) :
    (GMSql.nodes (predictRows edges) (clusteredRows n cid) (Val.int thr)).map
        (fun row => (row.getD 0 Val.null, row.getD 2 Val.null))
      = (List.range n).map (fun i => (iv i,
          iv ((kept thr edges).filter fun e => e.1 == i || e.2 == i).length)) ∧
    ∀ i, (Lemmas.GM.neighbours (kept thr edges) i).Nodup ∧
      (Lemmas.GM.neighbours (kept thr edges) i).length
        = ((kept thr edges).filter fun e => e.1 == i || e.2 == i).length ∧
      ∀ x, x ∈ Lemmas.GM.neighbours (kept thr edges) i ↔ ((i, x) ∈ kept thr edges ∨ (x, i) ∈ kept thr edges) := by
  constructor
  · rw [nodes_id_degree]
    apply List.map_congr_left
    intro i _
    rw [(C19.degree_def (kept thr edges) i hS).1]
  · intro i
    obtain ⟨h1, h2, h3, h4⟩ := C19.degree_def (kept thr edges) i hS
    exact ⟨h2, h3.trans h1, h4⟩

/-- `C19B.edges_table_naive` for the SQL: with the reference bridge finder, the `k`-th row of the SQL's edge table is
the `k`-th kept edge, flagged iff removing that edge row disconnects its endpoints in the kept graph. -/
theorem edges_bridge_flag_naive (order : List Nat) (edges : List (Nat × Nat × Int)) (thr : Int)
    (hnd : order.Nodup) (hmem : ∀ e ∈ edges, e.1 ∈ order ∧ e.2.1 ∈ order) (hK : (kept thr edges).Nodup) :
    (GMSql.edges (fun em => naiveBridges (decodePairs em)) (predictRows edges)
        (order.map fun (i : Nat) => Val.int (i : Int)) (Val.int thr)).length = (kept thr edges).length ∧
    ∀ k (hk : k < (kept thr edges).length), ∃ b,
      (GMSql.edges (fun em => naiveBridges (decodePairs em)) (predictRows edges)
        (order.map fun (i : Nat) => Val.int (i : Int)) (Val.int thr))[k]?
        = some (encEdge ((kept thr edges)[k].1, (kept thr edges)[k].2, b)) ∧
      (b = true ↔ ¬ Reach (Lemmas.GM.AdjL ((kept thr edges).eraseIdx k)) (kept thr edges)[k].1 (kept thr edges)[k].2) := by
  have hmemE : ∀ e ∈ kept thr edges, e.1 ∈ order ∧ e.2 ∈ order := by
    intro e he
    rw [kept_eq] at he
    obtain ⟨x, hx, rfl⟩ := List.mem_map.mp he
    exact hmem x (List.mem_filter.mp hx).1
  obtain ⟨t, ht, hS⟩ := edges_eq_model naiveBridges order edges thr hnd hmem
  obtain ⟨t', ht', hlen, hrow⟩ := C19B.edges_table_naive order (kept thr edges) hmemE hK
  have htt : t = t' := Option.some.inj (ht.symm.trans ht')
  subst htt
  rw [hS]
  refine ⟨by rw [List.length_map, hlen], ?_⟩
  intro k hk
  obtain ⟨b, hb, hiff⟩ := hrow k hk
  exact ⟨b, by rw [List.getElem?_map, hb]; rfl, hiff⟩

/-- `C19.bridge_flags_on_right_edges` + `C19.bridge_flag_def` for the SQL: for ANY bridge finder that meets its
specification and returns distinct indices. -/
theorem edges_bridge_flag_spec (bridges : List (Nat × Nat) → List Nat) (hspec : Lemmas.GM.BridgeSpec bridges)
    (hB : ∀ g, (bridges g).Nodup) (order : List Nat) (edges : List (Nat × Nat × Int)) (thr : Int)
    (hnd : order.Nodup) (hmem : ∀ e ∈ edges, e.1 ∈ order ∧ e.2.1 ∈ order) (hK : (kept thr edges).Nodup) :
    ∃ flag : Edge → Bool,
      GMSql.edges (fun em => bridges (decodePairs em)) (predictRows edges)
        (order.map fun (i : Nat) => Val.int (i : Int)) (Val.int thr)
        = (kept thr edges).map (fun e => encEdge (e.1, e.2, flag e)) ∧
      ∀ k (hk : k < (kept thr edges).length), (flag (kept thr edges)[k] = true ↔
        ¬ Reach (Lemmas.GM.AdjL ((kept thr edges).eraseIdx k)) (kept thr edges)[k].1 (kept thr edges)[k].2) := by
  have hmemE : ∀ e ∈ kept thr edges, e.1 ∈ order ∧ e.2 ∈ order := by
    intro e he
    rw [kept_eq] at he
    obtain ⟨x, hx, rfl⟩ := List.mem_map.mp he
    exact hmem x (List.mem_filter.mp hx).1
  obtain ⟨t, ht, hS⟩ := edges_eq_model bridges order edges thr hnd hmem
  have ht' := C19.bridge_flags_on_right_edges bridges order (kept thr edges) hmemE hK hB
  have htt := Option.some.inj (ht.symm.trans ht')
  refine ⟨fun e => decide (Lemmas.GM.relabel order e ∈
    bridgeRows bridges ((kept thr edges).map (Lemmas.GM.relabel order))), ?_, ?_⟩
  · rw [hS, htt, List.map_map]
    rfl
  · intro k hk
    rw [decide_eq_true_iff]
    exact C19.bridge_flag_def bridges hspec order (kept thr edges) hmemE hK k hk


end SplinkVerif.Lemmas.GMSql
