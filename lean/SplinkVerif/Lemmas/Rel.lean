import Mathlib.Data.List.Nodup
import Mathlib.Data.List.Perm.Basic
import SplinkVerif.Model.Rel
/-!
# Generic facts about the relational algebra `Model/Rel.lean`

* `eraseDups`: duplicate-freeness, permutation invariance;
* evaluation equations and membership characterisations for every constructor of `Rel`
  (`project`, `filter`, inner / left `join`, `union`, `distinct`, `groupBy`, `whereIn`; evaluation equations also
  for the window functions `window`, `windowCum`, `rowNumber`);
* duplicate-freeness of `UNION`, `DISTINCT`, `GROUP BY` results;
* look-up joins (every left row has exactly one partner);
* `minVals` on integer lists;
* `IN` / `NOT IN` on non-NULL values;
* `List.Perm`-invariance of `Rel.eval` in the tables of the database (`eval_perm`).
-/
namespace SplinkVerif.Lemmas.Rel
open SplinkVerif SplinkVerif.Rel

/-! ## Lists -/

theorem nodup_eraseDups_aux {α : Type} [BEq α] [LawfulBEq α] :
    ∀ (k : Nat) (l : List α), l.length ≤ k → l.eraseDups.Nodup
  | _, [], _ => by simp
  | 0, _ :: _, h => by simp at h
  | k + 1, a :: as, h => by
    rw [List.eraseDups_cons, List.nodup_cons]
    refine ⟨?_, nodup_eraseDups_aux k _ ?_⟩
    · rw [List.mem_eraseDups, List.mem_filter]
      simp
    · have := List.length_filter_le (fun b => !b == a) as
      simp only [List.length_cons] at h
      omega

theorem nodup_eraseDups {α : Type} [BEq α] [LawfulBEq α] (l : List α) : l.eraseDups.Nodup :=
  nodup_eraseDups_aux l.length l (Nat.le_refl _)

/-- Two duplicate-free lists with the same members are permutations of each other. -/
theorem perm_of_nodup_of_mem {α : Type} {l₁ l₂ : List α} (h₁ : l₁.Nodup) (h₂ : l₂.Nodup)
    (h : ∀ a, a ∈ l₁ ↔ a ∈ l₂) : l₁.Perm l₂ :=
  (List.perm_ext_iff_of_nodup h₁ h₂).mpr h

theorem eraseDups_perm_of_mem {α : Type} [BEq α] [LawfulBEq α] {l l' : List α}
    (h : ∀ a, a ∈ l ↔ a ∈ l') : l.eraseDups.Perm l'.eraseDups :=
  perm_of_nodup_of_mem (nodup_eraseDups l) (nodup_eraseDups l')
    (fun a => by rw [List.mem_eraseDups, List.mem_eraseDups]; exact h a)

theorem eraseDups_perm {α : Type} [BEq α] [LawfulBEq α] {l l' : List α} (p : l.Perm l') :
    l.eraseDups.Perm l'.eraseDups :=
  eraseDups_perm_of_mem (fun _ => p.mem_iff)

/-- A filter of a duplicate-free list that accepts exactly one member is that singleton. -/
theorem filter_eq_singleton {α : Type} {l : List α} {p : α → Bool} {x : α} (hnd : l.Nodup)
    (hx : x ∈ l) (hp : p x = true) (huniq : ∀ y ∈ l, p y = true → y = x) : l.filter p = [x] := by
  have hperm : (l.filter p).Perm [x] := by
    apply perm_of_nodup_of_mem (hnd.filter p) (List.nodup_singleton x)
    intro a
    rw [List.mem_filter, List.mem_singleton]
    constructor
    · rintro ⟨ha, hpa⟩; exact huniq a ha hpa
    · rintro rfl; exact ⟨hx, hp⟩
  exact List.perm_singleton.mp hperm

theorem contains_eq_of_mem_iff {α : Type} [BEq α] [LawfulBEq α] {l : List α} {x : α} {b : Bool}
    (h : x ∈ l ↔ b = true) : l.contains x = b := by
  cases b
  · simpa using h
  · simpa using h

/-! ## Values -/

theorem int_beq (a b : Int) : (Val.int a == Val.int b) = decide (a = b) := by
  by_cases h : a = b
  · simp [h]
  · simp [h]

@[simp] theorem cmp_eq_int (a b : Int) : Cmp.eq.eval (.int a) (.int b) = .bool (decide (a = b)) := by
  simp [Cmp.eval, int_beq]

@[simp] theorem cmp_ne_int (a b : Int) : Cmp.ne.eval (.int a) (.int b) = .bool (decide (a ≠ b)) := by
  simp [Cmp.eval, bne, int_beq]

@[simp] theorem cmp_ge_int (a b : Int) : Cmp.ge.eval (.int a) (.int b) = .bool (decide (b ≤ a)) := by
  simp only [Cmp.eval, Val.lt]
  congr 1
  by_cases h : b ≤ a
  · rcases Int.lt_or_eq_of_le h with h' | h'
    · simp [h, h']
    · subst h'; simp
  · have h1 : ¬ b < a := fun h' => h (Int.le_of_lt h')
    have h2 : ¬ a = b := fun h' => h (by omega)
    simp [h, h1, h2]

@[simp] theorem cmp_null_left (c : Cmp) (b : Val) : c.eval .null b = .null := by
  simp [Cmp.eval]

@[simp] theorem cmp_null_right (c : Cmp) (a : Val) : c.eval a .null = .null := by
  cases a <;> simp [Cmp.eval]

/-! ## `minVals` -/

theorem minVals_cons_int_null {k : Int} {vs : List Val} (h : minVals vs = .null) :
    minVals (.int k :: vs) = .int k := by
  simp [minVals, h]

theorem minVals_cons_int_int {k k' : Int} {vs : List Val} (h : minVals vs = .int k') :
    minVals (.int k :: vs) = if k' < k then .int k' else .int k := by
  simp [minVals, h, Val.lt]

theorem minVals_null_or_ge {l : List Val} {m : Int} (hall : ∀ v ∈ l, ∃ k, v = .int k ∧ m ≤ k) :
    minVals l = .null ∨ ∃ k, minVals l = .int k ∧ m ≤ k := by
  induction l with
  | nil => left; rfl
  | cons v vs ih =>
    obtain ⟨k, rfl, hk⟩ := hall v List.mem_cons_self
    rcases ih (fun v hv => hall v (List.mem_cons_of_mem _ hv)) with h | ⟨k', h, hk'⟩
    · right; exact ⟨k, minVals_cons_int_null h, hk⟩
    · right
      rw [minVals_cons_int_int h]
      by_cases hlt : k' < k
      · exact ⟨k', by simp [hlt], hk'⟩
      · exact ⟨k, by simp [hlt], hk⟩

/-- `min` over a list of integers containing a lower bound of the list. -/
theorem minVals_eq_int {l : List Val} {m : Int} (hm : Val.int m ∈ l)
    (hall : ∀ v ∈ l, ∃ k, v = .int k ∧ m ≤ k) : minVals l = .int m := by
  induction l with
  | nil => cases hm
  | cons v vs ih =>
    obtain ⟨k, rfl, hk⟩ := hall _ List.mem_cons_self
    have hall' : ∀ v ∈ vs, ∃ k, v = .int k ∧ m ≤ k := fun v hv => hall v (List.mem_cons_of_mem _ hv)
    rcases minVals_null_or_ge hall' with h | ⟨k', h, hk'⟩
    · rw [minVals_cons_int_null h]
      rcases List.mem_cons.mp hm with hm | hm
      · exact hm.symm
      · rw [ih hm hall'] at h; cases h
    · rw [minVals_cons_int_int h]
      rcases List.mem_cons.mp hm with hm | hm
      · have : m = k := by injection hm
        subst this
        have : ¬ k' < m := by omega
        simp [this]
      · rw [ih hm hall'] at h
        have : m = k' := by injection h
        subst this
        by_cases hlt : m < k
        · simp [hlt]
        · have : k = m := by omega
          simp [this]

/-- `min` over integer-coded naturals is `List.foldl min`. -/
theorem minVals_eq_foldl_min (vals : List Val) (l : List Nat) (init : Nat)
    (h : ∀ v, v ∈ vals ↔ v = .int (init : Int) ∨ ∃ x ∈ l, v = .int (x : Int)) :
    minVals vals = .int ((l.foldl min init : Nat) : Int) := by
  have hle_init : ∀ (l : List Nat) (init : Nat), l.foldl min init ≤ init := by
    intro l
    induction l with
    | nil => intro init; exact Nat.le_refl _
    | cons a l ih => intro init; exact Nat.le_trans (ih _) (Nat.min_le_left _ _)
  have hle_mem : ∀ (l : List Nat) (init x : Nat), x ∈ l → l.foldl min init ≤ x := by
    intro l
    induction l with
    | nil => intro _ _ hx; cases hx
    | cons a l ih =>
      intro init x hx
      simp only [List.foldl_cons]
      rcases List.mem_cons.mp hx with hxa | hx
      · subst hxa
        exact Nat.le_trans (hle_init l (min init x)) (Nat.min_le_right _ _)
      · exact ih _ _ hx
  have hmem : ∀ (l : List Nat) (init : Nat), l.foldl min init = init ∨ l.foldl min init ∈ l := by
    intro l
    induction l with
    | nil => intro init; left; rfl
    | cons a l ih =>
      intro init
      rcases ih (min init a) with h | h
      · simp only [List.foldl_cons]
        rw [h]
        by_cases hc : init ≤ a
        · left; exact Nat.min_eq_left hc
        · right
          have : min init a = a := Nat.min_eq_right (by omega)
          rw [this]; exact List.mem_cons_self
      · right; exact List.mem_cons_of_mem _ h
  apply minVals_eq_int
  · rw [h]
    rcases hmem l init with h' | h'
    · left; rw [h']
    · right; exact ⟨_, h', rfl⟩
  · intro v hv
    rcases (h v).mp hv with rfl | ⟨x, hx, rfl⟩
    · exact ⟨_, rfl, by exact_mod_cast hle_init l init⟩
    · exact ⟨_, rfl, by exact_mod_cast hle_mem l init x hx⟩

/-! ## `IN` -/

theorem inVals_pos (x : Val) (vs : List Val) (hx : x ≠ .null) :
    (inVals x vs == .bool true) = vs.contains x := by
  unfold inVals
  cases hvs : vs with
  | nil => simp
  | cons v vs' =>
    have hx' : (x == Val.null) = false := by simpa using hx
    simp only [List.isEmpty_cons, Bool.false_eq_true, if_false, hx']
    generalize (v :: vs').contains x = c
    generalize (v :: vs').contains Val.null = d
    cases c <;> cases d <;> rfl

theorem inVals_neg (x : Val) (vs : List Val) (hx : x ≠ .null) (hn : Val.null ∉ vs) :
    (not3 (inVals x vs) == .bool true) = !vs.contains x := by
  unfold inVals
  cases hvs : vs with
  | nil => simp [not3]
  | cons v vs' =>
    have hx' : (x == Val.null) = false := by simpa using hx
    have hn' : (v :: vs').contains Val.null = false := by
      rw [hvs] at hn
      simpa using hn
    simp only [List.isEmpty_cons, Bool.false_eq_true, if_false, hx', hn']
    generalize (v :: vs').contains x = c
    cases c <;> rfl

/-! ## Evaluation equations -/

theorem eval_table (db : Db) (n : String) : (Rel.table n).eval db = db n := rfl

theorem eval_project (db : Db) (es : List Expr) (r : Rel) :
    (Rel.project es r).eval db = (r.eval db).map fun row => es.map (·.eval row) := rfl

theorem eval_filter (db : Db) (p : Expr) (r : Rel) :
    (Rel.filter p r).eval db = (r.eval db).filter p.holds := rfl

/-- The rows of `A [LEFT] JOIN B ON on`. -/
def joinRows (left : Bool) (on : Expr) (A B : List Row) (bw : Nat) : List Row :=
  A.flatMap fun ra =>
    let ms := (B.filter fun x => on.holds (ra ++ x)).map (ra ++ ·)
    if left && ms.isEmpty then [ra ++ List.replicate bw .null] else ms

theorem eval_join (db : Db) (left : Bool) (on : Expr) (a b : Rel) (bw : Nat) :
    (Rel.join left on a b bw).eval db = joinRows left on (a.eval db) (b.eval db) bw := rfl

theorem eval_union_all (db : Db) (a b : Rel) :
    (Rel.union true a b).eval db = a.eval db ++ b.eval db := rfl

theorem eval_union_distinct (db : Db) (a b : Rel) :
    (Rel.union false a b).eval db = (a.eval db ++ b.eval db).eraseDups := rfl

theorem eval_distinct (db : Db) (r : Rel) : (Rel.distinct r).eval db = (r.eval db).eraseDups := rfl

/-- The rows of `SELECT keys, aggs FROM rows GROUP BY keys`. -/
def groupRows (keys : List Expr) (aggs : List Agg) (rows : List Row) : List Row :=
  let keyOf := fun (row : Row) => keys.map (·.eval row)
  if keys.isEmpty then [aggs.map (·.eval rows)]
  else (rows.map keyOf).eraseDups.map fun k =>
    k ++ aggs.map (·.eval (rows.filter fun row => keyOf row == k))

theorem eval_groupBy (db : Db) (keys : List Expr) (aggs : List Agg) (r : Rel) :
    (Rel.groupBy keys aggs r).eval db = groupRows keys aggs (r.eval db) := rfl

/-- The rows of `SELECT * FROM rows WHERE e [NOT] IN vs`. -/
def whereInRows (neg : Bool) (e : Expr) (vs : List Val) (rows : List Row) : List Row :=
  rows.filter fun row =>
    let v := inVals (e.eval row) vs
    (if neg then not3 v else v) == .bool true

theorem eval_whereIn (db : Db) (neg : Bool) (e : Expr) (sub r : Rel) :
    (Rel.whereIn neg e sub r).eval db =
      whereInRows neg e ((sub.eval db).map fun row => row.getD 0 .null) (r.eval db) := rfl

theorem eval_window (db : Db) (part : List Expr) (agg : Agg) (r : Rel) :
    (Rel.window part agg r).eval db = (r.eval db).map fun row =>
      row ++ [agg.eval ((r.eval db).filter fun x => part.map (·.eval x) == part.map (·.eval row))] := rfl

theorem eval_rowNumber (db : Db) (part : List Expr) (key : Expr) (desc : Bool) (r : Rel) :
    (Rel.rowNumber part key desc r).eval db = (r.eval db).map fun row =>
      row ++ [.int (1 + (((r.eval db).filter fun x =>
        part.map (·.eval x) == part.map (·.eval row) &&
          (if desc then Cmp.gt.eval (key.eval x) (key.eval row) else Cmp.lt.eval (key.eval x) (key.eval row))
            == .bool true).length : Nat))] := rfl

theorem eval_windowCum (db : Db) (key : Expr) (desc : Bool) (agg : Agg) (r : Rel) :
    (Rel.windowCum key desc agg r).eval db = (r.eval db).map fun row =>
      row ++ [agg.eval ((r.eval db).filter fun x =>
        (if desc then Cmp.ge.eval (key.eval x) (key.eval row) else Cmp.le.eval (key.eval x) (key.eval row))
          == .bool true)] := rfl

/-! ## Membership -/

theorem mem_project {db : Db} {es : List Expr} {r : Rel} {row : Row} :
    row ∈ (Rel.project es r).eval db ↔ ∃ x ∈ r.eval db, row = es.map (·.eval x) := by
  rw [eval_project, List.mem_map]
  constructor
  · rintro ⟨x, hx, rfl⟩; exact ⟨x, hx, rfl⟩
  · rintro ⟨x, hx, rfl⟩; exact ⟨x, hx, rfl⟩

theorem mem_filter {db : Db} {p : Expr} {r : Rel} {row : Row} :
    row ∈ (Rel.filter p r).eval db ↔ row ∈ r.eval db ∧ p.holds row = true := by
  rw [eval_filter, List.mem_filter]

theorem mem_joinRows_inner {on : Expr} {A B : List Row} {bw : Nat} {row : Row} :
    row ∈ joinRows false on A B bw ↔
      ∃ ra ∈ A, ∃ rb ∈ B, on.holds (ra ++ rb) = true ∧ row = ra ++ rb := by
  simp only [joinRows, Bool.false_and, Bool.false_eq_true, if_false, List.mem_flatMap,
    List.mem_map, List.mem_filter]
  constructor
  · rintro ⟨ra, hra, rb, ⟨hrb, hon⟩, rfl⟩; exact ⟨ra, hra, rb, hrb, hon, rfl⟩
  · rintro ⟨ra, hra, rb, hrb, hon, rfl⟩; exact ⟨ra, hra, rb, ⟨hrb, hon⟩, rfl⟩

theorem mem_joinRows_left {on : Expr} {A B : List Row} {bw : Nat} {row : Row} :
    row ∈ joinRows true on A B bw ↔
      ∃ ra ∈ A, (∃ rb ∈ B, on.holds (ra ++ rb) = true ∧ row = ra ++ rb) ∨
        ((∀ rb ∈ B, on.holds (ra ++ rb) = false) ∧ row = ra ++ List.replicate bw .null) := by
  simp only [joinRows, Bool.true_and, List.mem_flatMap]
  constructor
  · rintro ⟨ra, hra, h⟩
    refine ⟨ra, hra, ?_⟩
    by_cases hemp : ((B.filter fun x => on.holds (ra ++ x)).map (ra ++ ·)).isEmpty = true
    · rw [if_pos hemp] at h
      right
      refine ⟨?_, List.mem_singleton.mp h⟩
      intro rb hrb
      have hnil : (B.filter fun x => on.holds (ra ++ x)) = [] := by
        simpa using hemp
      rw [List.filter_eq_nil_iff] at hnil
      simpa using hnil rb hrb
    · rw [if_neg hemp] at h
      left
      obtain ⟨rb, hrb, rfl⟩ := List.mem_map.mp h
      obtain ⟨h1, h2⟩ := List.mem_filter.mp hrb
      exact ⟨rb, h1, h2, rfl⟩
  · rintro ⟨ra, hra, h⟩
    refine ⟨ra, hra, ?_⟩
    rcases h with ⟨rb, hrb, hon, rfl⟩ | ⟨hnone, rfl⟩
    · have hmem : ra ++ rb ∈ (B.filter fun x => on.holds (ra ++ x)).map (ra ++ ·) :=
        List.mem_map.mpr ⟨rb, List.mem_filter.mpr ⟨hrb, hon⟩, rfl⟩
      have hemp : ¬ ((B.filter fun x => on.holds (ra ++ x)).map (ra ++ ·)).isEmpty = true := by
        intro he
        rw [List.isEmpty_iff] at he
        rw [he] at hmem
        cases hmem
      rw [if_neg hemp]
      exact hmem
    · have hnil : (B.filter fun x => on.holds (ra ++ x)) = [] := by
        rw [List.filter_eq_nil_iff]
        intro rb hrb
        simpa using hnone rb hrb
      rw [hnil]
      simp

/-- A left join all of whose left rows find a partner has the rows of the inner join. -/
theorem mem_joinRows_left_of_match {on : Expr} {A B : List Row} {bw : Nat} {row : Row}
    (hmatch : ∀ ra ∈ A, ∃ rb ∈ B, on.holds (ra ++ rb) = true) :
    row ∈ joinRows true on A B bw ↔
      ∃ ra ∈ A, ∃ rb ∈ B, on.holds (ra ++ rb) = true ∧ row = ra ++ rb := by
  rw [mem_joinRows_left]
  constructor
  · rintro ⟨ra, hra, h | ⟨hnone, _⟩⟩
    · exact ⟨ra, hra, h⟩
    · obtain ⟨rb, hrb, hon⟩ := hmatch ra hra
      rw [hnone rb hrb] at hon
      cases hon
  · rintro ⟨ra, hra, h⟩
    exact ⟨ra, hra, Or.inl h⟩

theorem mem_union {db : Db} {all : Bool} {a b : Rel} {row : Row} :
    row ∈ (Rel.union all a b).eval db ↔ row ∈ a.eval db ∨ row ∈ b.eval db := by
  cases all
  · rw [eval_union_distinct, List.mem_eraseDups, List.mem_append]
  · rw [eval_union_all, List.mem_append]

theorem mem_distinct {db : Db} {r : Rel} {row : Row} :
    row ∈ (Rel.distinct r).eval db ↔ row ∈ r.eval db := by
  rw [eval_distinct, List.mem_eraseDups]

theorem nodup_union_distinct (db : Db) (a b : Rel) : ((Rel.union false a b).eval db).Nodup := by
  rw [eval_union_distinct]; exact nodup_eraseDups _

theorem nodup_distinct (db : Db) (r : Rel) : ((Rel.distinct r).eval db).Nodup := by
  rw [eval_distinct]; exact nodup_eraseDups _

theorem mem_groupRows {keys : List Expr} {aggs : List Agg} {rows : List Row} {row : Row}
    (hk : keys ≠ []) :
    row ∈ groupRows keys aggs rows ↔
      ∃ x ∈ rows, row = keys.map (·.eval x) ++
        aggs.map (·.eval (rows.filter fun y => keys.map (·.eval y) == keys.map (·.eval x))) := by
  have hemp : keys.isEmpty = false := by
    cases keys with
    | nil => exact absurd rfl hk
    | cons _ _ => rfl
  simp only [groupRows, hemp, Bool.false_eq_true, if_false, List.mem_map, List.mem_eraseDups]
  constructor
  · rintro ⟨k, ⟨x, hx, rfl⟩, rfl⟩; exact ⟨x, hx, rfl⟩
  · rintro ⟨x, hx, rfl⟩; exact ⟨_, ⟨x, hx, rfl⟩, rfl⟩

theorem nodup_groupRows {keys : List Expr} {aggs : List Agg} {rows : List Row} (hk : keys ≠ []) :
    (groupRows keys aggs rows).Nodup := by
  have hemp : keys.isEmpty = false := by
    cases keys with
    | nil => exact absurd rfl hk
    | cons _ _ => rfl
  simp only [groupRows, hemp, Bool.false_eq_true, if_false]
  apply List.Nodup.map_on _ (nodup_eraseDups _)
  intro k hk k' hk' heq
  rw [List.mem_eraseDups, List.mem_map] at hk hk'
  obtain ⟨x, _, rfl⟩ := hk
  obtain ⟨x', _, rfl⟩ := hk'
  exact (List.append_inj heq (by simp)).1

theorem mem_whereInRows {neg : Bool} {e : Expr} {vs : List Val} {rows : List Row} {row : Row} :
    row ∈ whereInRows neg e vs rows ↔
      row ∈ rows ∧ ((if neg then not3 (inVals (e.eval row) vs) else inVals (e.eval row) vs)
        == .bool true) = true := by
  simp only [whereInRows, List.mem_filter]

/-! ## Look-up joins -/

/-- `A [LEFT] JOIN B` when `A` is (a permutation of) `L.map fa` and every `fa i` has exactly one partner
`fb i` in the duplicate-free `B`: one row `fa i ++ fb i` per `i`. -/
theorem joinRows_lookup {α : Type} (L : List α) (fa fb : α → Row) (left : Bool) (on : Expr)
    (A B : List Row) (bw : Nat) (hA : A.Perm (L.map fa)) (hB : B.Nodup)
    (hmatch : ∀ i ∈ L, fb i ∈ B ∧ on.holds (fa i ++ fb i) = true ∧
      ∀ y ∈ B, on.holds (fa i ++ y) = true → y = fb i) :
    (joinRows left on A B bw).Perm (L.map fun i => fa i ++ fb i) := by
  unfold joinRows
  refine (List.Perm.flatMap_right _ hA).trans ?_
  rw [List.flatMap_map, List.map_eq_flatMap]
  apply List.Perm.of_eq
  apply List.flatMap_congr
  intro i hi
  obtain ⟨h1, h2, h3⟩ := hmatch i hi
  have hf : (B.filter fun x => on.holds (fa i ++ x)) = [fb i] :=
    filter_eq_singleton hB h1 h2 h3
  simp [hf]

/-! ## `Db.set` -/

theorem set_same (db : Db) (name : String) (rows : List Row) : Db.set db name rows name = rows := by
  simp [Db.set]

theorem set_ne (db : Db) (name n : String) (rows : List Row) (h : n ≠ name) :
    Db.set db name rows n = db n := by
  simp [Db.set, h]


/-! ## Permutation invariance

Row order of the stored tables is unspecified in SQL.  `Rel.eval` is invariant under permutations of the tables, up
to a permutation of the result — provided `min` / `max` are applied to values of one sort (here: integers or NULL; on
mixed sorts `Val.lt` is not a total order and `minVals` depends on the order of the list) and `sum` to numbers or NULL
(integers and exact numbers may be mixed).  The side condition `AggsOK db r` says exactly that, for every aggregate
inside `r` (in `GROUP BY` and in window functions) on the rows it is evaluated on. -/

/-- An integer or NULL. -/
def IntOrNull (v : Val) : Prop := v = .null ∨ ∃ i, v = .int i

/-- One step of `minVals`. -/
def minStep (v m : Val) : Val :=
  match v, m with
  | .null, m => m
  | v, .null => v
  | v, m => if Val.lt m v then m else v

/-- One step of `maxVals`. -/
def maxStep (v m : Val) : Val :=
  match v, m with
  | .null, m => m
  | v, .null => v
  | v, m => if Val.lt v m then m else v

theorem minVals_cons (v : Val) (vs : List Val) : minVals (v :: vs) = minStep v (minVals vs) := by
  cases v <;> cases h : minVals vs <;> simp [minVals, minStep, h]

theorem maxVals_cons (v : Val) (vs : List Val) : maxVals (v :: vs) = maxStep v (maxVals vs) := by
  cases v <;> cases h : maxVals vs <;> simp [maxVals, maxStep, h]

theorem intOrNull_minStep {v m : Val} (hv : IntOrNull v) (hm : IntOrNull m) : IntOrNull (minStep v m) := by
  rcases hv with rfl | ⟨a, rfl⟩ <;> rcases hm with rfl | ⟨b, rfl⟩
  · left; rfl
  · right; exact ⟨b, rfl⟩
  · right; exact ⟨a, rfl⟩
  · right
    by_cases h : b < a
    · exact ⟨b, by simp [minStep, Val.lt, h]⟩
    · exact ⟨a, by simp [minStep, Val.lt, h]⟩

theorem intOrNull_maxStep {v m : Val} (hv : IntOrNull v) (hm : IntOrNull m) : IntOrNull (maxStep v m) := by
  rcases hv with rfl | ⟨a, rfl⟩ <;> rcases hm with rfl | ⟨b, rfl⟩
  · left; rfl
  · right; exact ⟨b, rfl⟩
  · right; exact ⟨a, rfl⟩
  · right
    by_cases h : a < b
    · exact ⟨b, by simp [maxStep, Val.lt, h]⟩
    · exact ⟨a, by simp [maxStep, Val.lt, h]⟩

theorem intOrNull_minVals {l : List Val} (h : ∀ v ∈ l, IntOrNull v) : IntOrNull (minVals l) := by
  induction l with
  | nil => left; rfl
  | cons v vs ih =>
    rw [minVals_cons]
    exact intOrNull_minStep (h v List.mem_cons_self) (ih fun x hx => h x (List.mem_cons_of_mem _ hx))

theorem intOrNull_maxVals {l : List Val} (h : ∀ v ∈ l, IntOrNull v) : IntOrNull (maxVals l) := by
  induction l with
  | nil => left; rfl
  | cons v vs ih =>
    rw [maxVals_cons]
    exact intOrNull_maxStep (h v List.mem_cons_self) (ih fun x hx => h x (List.mem_cons_of_mem _ hx))

theorem minStep_int_int (a b : Int) : minStep (.int a) (.int b) = .int (min a b) := by
  by_cases h : b < a
  · have : min a b = b := by omega
    simp [minStep, Val.lt, h, this]
  · have : min a b = a := by omega
    simp [minStep, Val.lt, h, this]

theorem maxStep_int_int (a b : Int) : maxStep (.int a) (.int b) = .int (max a b) := by
  by_cases h : a < b
  · have : max a b = b := by omega
    simp [maxStep, Val.lt, h, this]
  · have : max a b = a := by omega
    simp [maxStep, Val.lt, h, this]

theorem minStep_comm {x y m : Val} (hx : IntOrNull x) (hy : IntOrNull y) (hm : IntOrNull m) :
    minStep x (minStep y m) = minStep y (minStep x m) := by
  rcases hx with rfl | ⟨a, rfl⟩ <;> rcases hy with rfl | ⟨b, rfl⟩ <;> rcases hm with rfl | ⟨c, rfl⟩
  · rfl
  · rfl
  · rfl
  · rfl
  · rfl
  · rfl
  · show minStep (.int a) (.int b) = minStep (.int b) (.int a)
    rw [minStep_int_int, minStep_int_int, Int.min_comm]
  · rw [minStep_int_int, minStep_int_int, minStep_int_int, minStep_int_int]
    congr 1
    omega

theorem maxStep_comm {x y m : Val} (hx : IntOrNull x) (hy : IntOrNull y) (hm : IntOrNull m) :
    maxStep x (maxStep y m) = maxStep y (maxStep x m) := by
  rcases hx with rfl | ⟨a, rfl⟩ <;> rcases hy with rfl | ⟨b, rfl⟩ <;> rcases hm with rfl | ⟨c, rfl⟩
  · rfl
  · rfl
  · rfl
  · rfl
  · rfl
  · rfl
  · show maxStep (.int a) (.int b) = maxStep (.int b) (.int a)
    rw [maxStep_int_int, maxStep_int_int, Int.max_comm]
  · rw [maxStep_int_int, maxStep_int_int, maxStep_int_int, maxStep_int_int]
    congr 1
    omega

theorem minVals_perm {l l' : List Val} (p : l.Perm l') (h : ∀ v ∈ l, IntOrNull v) :
    minVals l = minVals l' := by
  induction p with
  | nil => rfl
  | cons x _ ih =>
    rw [minVals_cons, minVals_cons, ih fun v hv => h v (List.mem_cons_of_mem _ hv)]
  | swap x y l =>
    rw [minVals_cons, minVals_cons, minVals_cons, minVals_cons]
    exact minStep_comm (h y List.mem_cons_self) (h x (List.mem_cons_of_mem _ List.mem_cons_self))
      (intOrNull_minVals fun v hv => h v (List.mem_cons_of_mem _ (List.mem_cons_of_mem _ hv)))
  | trans p₁ _ ih₁ ih₂ =>
    rw [ih₁ h, ih₂ fun v hv => h v (p₁.mem_iff.mpr hv)]

theorem maxVals_perm {l l' : List Val} (p : l.Perm l') (h : ∀ v ∈ l, IntOrNull v) :
    maxVals l = maxVals l' := by
  induction p with
  | nil => rfl
  | cons x _ ih =>
    rw [maxVals_cons, maxVals_cons, ih fun v hv => h v (List.mem_cons_of_mem _ hv)]
  | swap x y l =>
    rw [maxVals_cons, maxVals_cons, maxVals_cons, maxVals_cons]
    exact maxStep_comm (h y List.mem_cons_self) (h x (List.mem_cons_of_mem _ List.mem_cons_self))
      (intOrNull_maxVals fun v hv => h v (List.mem_cons_of_mem _ (List.mem_cons_of_mem _ hv)))
  | trans p₁ _ ih₁ ih₂ =>
    rw [ih₁ h, ih₂ fun v hv => h v (p₁.mem_iff.mpr hv)]

/-- An integer, an exact number or NULL. -/
def Numeric (v : Val) : Prop := v = .null ∨ (∃ i, v = .int i) ∨ ∃ q, v = .rat q

/-- One step of `sumVals`. -/
def sumStep (v s : Val) : Val :=
  match v, s with
  | .null, s => s
  | v, .null => v
  | v, s => Arith.add.eval v s

theorem sumVals_cons (v : Val) (vs : List Val) : sumVals (v :: vs) = sumStep v (sumVals vs) := by
  cases v <;> cases h : sumVals vs <;> simp [sumVals, sumStep, h]

theorem numeric_sumStep {v m : Val} (hv : Numeric v) (hm : Numeric m) : Numeric (sumStep v m) := by
  rcases hv with rfl | ⟨a, rfl⟩ | ⟨a, rfl⟩ <;> rcases hm with rfl | ⟨b, rfl⟩ | ⟨b, rfl⟩ <;>
    simp [Numeric, sumStep, Arith.eval, Val.toRat?]

theorem numeric_sumVals {l : List Val} (h : ∀ v ∈ l, Numeric v) : Numeric (sumVals l) := by
  induction l with
  | nil => left; rfl
  | cons v vs ih =>
    rw [sumVals_cons]
    exact numeric_sumStep (h v List.mem_cons_self) (ih fun x hx => h x (List.mem_cons_of_mem _ hx))

theorem sumStep_comm {x y m : Val} (hx : Numeric x) (hy : Numeric y) (hm : Numeric m) :
    sumStep x (sumStep y m) = sumStep y (sumStep x m) := by
  rcases hx with rfl | ⟨a, rfl⟩ | ⟨a, rfl⟩ <;> rcases hy with rfl | ⟨b, rfl⟩ | ⟨b, rfl⟩ <;>
    rcases hm with rfl | ⟨c, rfl⟩ | ⟨c, rfl⟩ <;>
    simp only [sumStep, Arith.eval, Val.toRat?, Val.int.injEq, Val.rat.injEq, Rat.intCast_add] <;>
    grind

/-- `sum` over numbers (integers and exact numbers may be mixed) does not depend on the order. -/
theorem sumVals_perm {l l' : List Val} (p : l.Perm l') (h : ∀ v ∈ l, Numeric v) :
    sumVals l = sumVals l' := by
  induction p with
  | nil => rfl
  | cons x _ ih =>
    rw [sumVals_cons, sumVals_cons, ih fun v hv => h v (List.mem_cons_of_mem _ hv)]
  | swap x y l =>
    rw [sumVals_cons, sumVals_cons, sumVals_cons, sumVals_cons]
    exact sumStep_comm (h y List.mem_cons_self) (h x (List.mem_cons_of_mem _ List.mem_cons_self))
      (numeric_sumVals fun v hv => h v (List.mem_cons_of_mem _ (List.mem_cons_of_mem _ hv)))
  | trans p₁ _ ih₁ ih₂ =>
    rw [ih₁ h, ih₂ fun v hv => h v (p₁.mem_iff.mpr hv)]

/-- `min` / `max` of this aggregate are over integers or NULLs on these rows, `sum` over numbers or NULLs. -/
def AggOK (rows : List Row) : Agg → Prop
  | .min e => ∀ row ∈ rows, IntOrNull (e.eval row)
  | .max e => ∀ row ∈ rows, IntOrNull (e.eval row)
  | .countStar => True
  | .count _ => True
  | .sum e => ∀ row ∈ rows, Numeric (e.eval row)
  | .countIf _ => True

theorem aggOK_of_subset {rows rows' : List Row} (hsub : ∀ row ∈ rows', row ∈ rows) {a : Agg}
    (h : AggOK rows a) : AggOK rows' a := by
  cases a with
  | min e => exact fun row hrow => h row (hsub row hrow)
  | max e => exact fun row hrow => h row (hsub row hrow)
  | countStar => trivial
  | count e => trivial
  | sum e => exact fun row hrow => h row (hsub row hrow)
  | countIf c => trivial

theorem agg_eval_perm {rows rows' : List Row} (p : rows.Perm rows') {a : Agg} (h : AggOK rows a) :
    a.eval rows = a.eval rows' := by
  cases a with
  | min e =>
    apply minVals_perm (p.map _)
    intro v hv
    obtain ⟨row, hrow, rfl⟩ := List.mem_map.mp hv
    exact h row hrow
  | max e =>
    apply maxVals_perm (p.map _)
    intro v hv
    obtain ⟨row, hrow, rfl⟩ := List.mem_map.mp hv
    exact h row hrow
  | countStar => simp only [Agg.eval, p.length_eq]
  | count e => simp only [Agg.eval, (p.filter _).length_eq]
  | sum e =>
    apply sumVals_perm (p.map _)
    intro v hv
    obtain ⟨row, hrow, rfl⟩ := List.mem_map.mp hv
    exact h row hrow
  | countIf c => simp only [Agg.eval, (p.filter _).length_eq]

/-- Every `min` / `max` in the term is over integers or NULLs when evaluated in `db`. -/
def AggsOK (db : Db) : Rel → Prop
  | .table _ => True
  | .project _ r => AggsOK db r
  | .filter _ r => AggsOK db r
  | .join _ _ a b _ => AggsOK db a ∧ AggsOK db b
  | .union _ a b => AggsOK db a ∧ AggsOK db b
  | .distinct r => AggsOK db r
  | .groupBy _ aggs r => AggsOK db r ∧ ∀ a ∈ aggs, AggOK (r.eval db) a
  | .whereIn _ _ sub r => AggsOK db sub ∧ AggsOK db r
  | .window _ agg r => AggsOK db r ∧ AggOK (r.eval db) agg
  | .windowCum _ _ agg r => AggsOK db r ∧ AggOK (r.eval db) agg
  | .rowNumber _ _ _ r => AggsOK db r

/-- A window column: every row gets the aggregate over the rows selected by `sel row`. -/
theorem windowRows_perm {rows rows' : List Row} (p : rows.Perm rows') {agg : Agg} (h : AggOK rows agg)
    (sel : Row → Row → Bool) :
    (rows.map fun row => row ++ [agg.eval (rows.filter (sel row))]).Perm
      (rows'.map fun row => row ++ [agg.eval (rows'.filter (sel row))]) := by
  refine (p.map _).trans (List.Perm.of_eq ?_)
  apply List.map_congr_left
  intro row _
  congr 2
  exact agg_eval_perm (p.filter _) (aggOK_of_subset (fun x hx => (List.mem_filter.mp hx).1) h)

theorem isEmpty_perm {α : Type} {l l' : List α} (p : l.Perm l') : l.isEmpty = l'.isEmpty := by
  cases l with
  | nil => rw [List.nil_perm.mp p]
  | cons a l =>
    cases l' with
    | nil => exact absurd p.length_eq (by simp)
    | cons _ _ => rfl

theorem joinRows_perm {left : Bool} {on : Expr} {A A' B B' : List Row} {bw : Nat} (pA : A.Perm A')
    (pB : B.Perm B') : (joinRows left on A B bw).Perm (joinRows left on A' B' bw) := by
  unfold joinRows
  refine (List.Perm.flatMap_right _ pA).trans (List.Perm.flatMap_left _ ?_)
  intro ra _
  have pm : ((B.filter fun x => on.holds (ra ++ x)).map (ra ++ ·)).Perm
      ((B'.filter fun x => on.holds (ra ++ x)).map (ra ++ ·)) := (pB.filter _).map _
  have he : ((B.filter fun x => on.holds (ra ++ x)).map (ra ++ ·)).isEmpty
      = ((B'.filter fun x => on.holds (ra ++ x)).map (ra ++ ·)).isEmpty := by
    exact isEmpty_perm pm
  simp only [he]
  split
  · exact List.Perm.refl _
  · exact pm

theorem groupRows_perm {keys : List Expr} {aggs : List Agg} {rows rows' : List Row}
    (p : rows.Perm rows') (h : ∀ a ∈ aggs, AggOK rows a) :
    (groupRows keys aggs rows).Perm (groupRows keys aggs rows') := by
  unfold groupRows
  split
  · apply List.Perm.of_eq
    congr 1
    apply List.map_congr_left
    intro a ha
    exact agg_eval_perm p (h a ha)
  · refine ((eraseDups_perm (p.map _)).map _).trans (List.Perm.of_eq ?_)
    apply List.map_congr_left
    intro k _
    congr 1
    apply List.map_congr_left
    intro a ha
    exact agg_eval_perm (p.filter _)
      (aggOK_of_subset (fun row hrow => (List.mem_filter.mp hrow).1) (h a ha))

theorem inVals_perm (x : Val) {vs vs' : List Val} (p : vs.Perm vs') : inVals x vs = inVals x vs' := by
  have h1 : vs.isEmpty = vs'.isEmpty := isEmpty_perm p
  have h2 : ∀ y, vs.contains y = vs'.contains y := by
    intro y
    rw [Bool.eq_iff_iff, List.contains_iff_mem, List.contains_iff_mem]
    exact p.mem_iff
  unfold inVals
  rw [h1, h2 x, h2 .null]

/-- **`Rel.eval` is invariant under permutations of the tables** (up to a permutation of the result). -/
theorem eval_perm {db db' : Db} (h : ∀ name, (db name).Perm (db' name)) :
    ∀ r : Rel, AggsOK db r → (r.eval db).Perm (r.eval db')
  | .table n, _ => h n
  | .project es r, hr => by
    rw [eval_project, eval_project]
    exact (eval_perm h r hr).map _
  | .filter p r, hr => by
    rw [eval_filter, eval_filter]
    exact (eval_perm h r hr).filter _
  | .join left on a b bw, hr => by
    rw [eval_join, eval_join]
    exact joinRows_perm (eval_perm h a hr.1) (eval_perm h b hr.2)
  | .union true a b, hr => by
    rw [eval_union_all, eval_union_all]
    exact (eval_perm h a hr.1).append (eval_perm h b hr.2)
  | .union false a b, hr => by
    rw [eval_union_distinct, eval_union_distinct]
    exact eraseDups_perm ((eval_perm h a hr.1).append (eval_perm h b hr.2))
  | .distinct r, hr => by
    rw [eval_distinct, eval_distinct]
    exact eraseDups_perm (eval_perm h r hr)
  | .groupBy keys aggs r, hr => by
    rw [eval_groupBy, eval_groupBy]
    exact groupRows_perm (eval_perm h r hr.1) hr.2
  | .whereIn neg e sub r, hr => by
    rw [eval_whereIn, eval_whereIn]
    unfold whereInRows
    have pv := (eval_perm h sub hr.1).map fun row => row.getD 0 Val.null
    refine ((eval_perm h r hr.2).filter _).trans (List.Perm.of_eq ?_)
    apply List.filter_congr
    intro row _
    simp only [inVals_perm _ pv]
  | .window part agg r, hr => by
    rw [eval_window, eval_window]
    exact windowRows_perm (eval_perm h r hr.1) hr.2
      (fun row x => part.map (·.eval x) == part.map (·.eval row))
  | .windowCum key desc agg r, hr => by
    rw [eval_windowCum, eval_windowCum]
    exact windowRows_perm (eval_perm h r hr.1) hr.2
      (fun row x => (if desc then Cmp.ge.eval (key.eval x) (key.eval row)
        else Cmp.le.eval (key.eval x) (key.eval row)) == .bool true)
  | .rowNumber part key desc r, hr => by
    rw [eval_rowNumber, eval_rowNumber]
    have p := eval_perm h r hr
    refine (p.map _).trans (List.Perm.of_eq ?_)
    apply List.map_congr_left
    intro row _
    rw [(p.filter _).length_eq]

/-- The statements are `AggsOK` in the databases they are run in. -/
def StmtsOK (db : Db) : List Stmt → Prop
  | [] => True
  | s :: ss => AggsOK db s.rel ∧ StmtsOK (Db.set db s.name (s.rel.eval db)) ss

theorem set_perm {db db' : Db} (h : ∀ name, (db name).Perm (db' name)) (name : String)
    {rows rows' : List Row} (p : rows.Perm rows') :
    ∀ n, (Db.set db name rows n).Perm (Db.set db' name rows' n) := by
  intro n
  unfold Db.set
  split
  · exact p
  · exact h n

/-- A pipeline of statements is invariant under permutations of the input tables. -/
theorem runStmts_perm {db db' : Db} (h : ∀ name, (db name).Perm (db' name)) :
    ∀ ss : List Stmt, StmtsOK db ss → ∀ name, (runStmts db ss name).Perm (runStmts db' ss name)
  | [], _ => h
  | s :: ss, hs => by
    unfold runStmts
    exact runStmts_perm (set_perm h s.name (eval_perm h s.rel hs.1)) ss hs.2

end SplinkVerif.Lemmas.Rel
