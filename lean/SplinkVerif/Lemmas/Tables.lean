import SplinkVerif.Model.Tables
import SplinkVerif.Lemmas.Cache
/-!
# Helper lemmas for C18 (table ownership)

The invariant of the ownership state machine (`Model/Tables.lean`), its preservation by every operation
under the name discipline `WF`, and the statements used by `Properties/C18.lean`.
-/
namespace SplinkVerif.Lemmas.TablesL
open SplinkVerif SplinkVerif.Tables
open SplinkVerif.Cache hiding State request Op applyOp run init
open SplinkVerif.Lemmas.CacheL (mem_dbSet mem_cacheSet mem_dbDel mem_foldl_dropTable_db mem_deleteCreated_db)

/-! ## Lookups -/

theorem ownerOf_nil (p : Phys) : ownerOf p [] = .user := rfl

theorem ownerOf_cons_self (p : Phys) (o : Owner) (tags : List (Phys × Owner)) :
    ownerOf p ((p, o) :: tags) = o := by
  simp [ownerOf]

theorem ownerOf_cons_ne {p q : Phys} (h : q ≠ p) (o : Owner) (tags : List (Phys × Owner)) :
    ownerOf q ((p, o) :: tags) = ownerOf q tags := by
  have hb : (p == q) = false := beq_eq_false_iff_ne.2 (Ne.symm h)
  simp [ownerOf, hb]

theorem mem_dbDel_of_ne {p : Phys} {db : List (Phys × Nat)} {x : Phys × Nat}
    (h : x ∈ db) (hne : x.1 ≠ p) : x ∈ dbDel p db := by
  unfold dbDel
  exact List.mem_filter.2 ⟨h, bne_iff_ne.2 hne⟩

theorem mem_dbSet_of_ne {p : Phys} {v : Nat} {db : List (Phys × Nat)} {x : Phys × Nat}
    (h : x ∈ db) (hne : x.1 ≠ p) : x ∈ dbSet p v db := by
  unfold dbSet
  exact List.mem_cons_of_mem _ (List.mem_filter.2 ⟨h, bne_iff_ne.2 hne⟩)

theorem mem_cacheSet_of_ne {k k' : Key} {e e' : Entry} {c : List (Key × Entry)}
    (h : (k', e') ∈ c) (hne : k' ≠ k) : (k', e') ∈ cacheSet k e c := by
  unfold cacheSet
  exact List.mem_cons_of_mem _ (List.mem_filter.2 ⟨h, bne_iff_ne.2 hne⟩)

theorem dbGet_isSome_of_mem {p : Phys} {v : Nat} {db : List (Phys × Nat)} (h : (p, v) ∈ db) :
    (dbGet p db).isSome = true := by
  unfold dbGet
  rw [Option.isSome_map, List.find?_isSome]
  exact ⟨(p, v), h, by simp⟩

theorem not_nameIn {p : Phys} {U : List (Phys × Nat)} (h : nameIn p U = false) :
    ∀ v, (p, v) ∉ U := by
  intro v hm
  have : nameIn p U = true := by
    unfold nameIn
    exact List.any_eq_true.2 ⟨(p, v), hm, by simp⟩
  rw [h] at this
  exact Bool.noConfusion this

/-- the converse of `mem_foldl_dropTable_db`: what is none of the dropped names stays -/
theorem mem_foldl_dropTable_db_of_not_mem (l : List Phys) (s : Cache.State) {x : Phys × Nat}
    (h : x ∈ s.db) (hn : x.1 ∉ l) : x ∈ (l.foldl dropTable s).db := by
  induction l generalizing s with
  | nil => exact h
  | cons p l ih =>
    apply ih (dropTable s p)
    · show x ∈ dbDel p s.db
      exact mem_dbDel_of_ne h (fun he => hn (he ▸ List.mem_cons_self))
    · exact fun hm => hn (List.mem_cons_of_mem _ hm)

theorem request_cases (hash eval : Nat → Nat → Nat) (s : Cache.State) (r : Req) :
    ((Cache.request hash eval s r).hit = true ∧ (Cache.request hash eval s r).state = s) ∨
    ((Cache.request hash eval s r).hit = false ∧
      (Cache.request hash eval s r).state = (execute hash eval s r).state) := by
  unfold Cache.request
  dsimp only
  split
  · split
    · exact Or.inl ⟨rfl, rfl⟩
    · split
      · exact Or.inl ⟨rfl, rfl⟩
      · split
        · exact Or.inl ⟨rfl, rfl⟩
        · exact Or.inr ⟨rfl, rfl⟩
  · exact Or.inr ⟨rfl, rfl⟩

/-- the tables `delete_tables_created_by_splink_from_db` drops -/
def victims (s : Cache.State) : List Phys :=
  (s.cache.filter fun q => q.2.createdBySplink && q.1 == .phys q.2.phys).map (·.2.phys)

theorem deleteCreated_eq (s : Cache.State) : deleteCreated s = (victims s).foldl dropTable s := rfl

theorem mem_victims {s : Cache.State} {p : Phys} (h : p ∈ victims s) :
    ∃ e : Entry, (Key.phys e.phys, e) ∈ s.cache ∧ e.createdBySplink = true ∧ e.phys = p := by
  unfold victims at h
  obtain ⟨⟨k, e⟩, hm, hp⟩ := List.mem_map.1 h
  obtain ⟨h1, h2⟩ := List.mem_filter.1 hm
  simp only [Bool.and_eq_true, beq_iff_eq] at h2
  obtain ⟨hc, hk⟩ := h2
  subst hk
  exact ⟨e, h1, hc, hp⟩

theorem victims_mem {s : Cache.State} {e : Entry} (h : (Key.phys e.phys, e) ∈ s.cache)
    (hc : e.createdBySplink = true) : e.phys ∈ victims s := by
  unfold victims
  refine List.mem_map.2 ⟨(Key.phys e.phys, e), List.mem_filter.2 ⟨h, ?_⟩, rfl⟩
  simp [hc]

/-- the dict after `register` (repair F24: replacing an existing table forgets the entries pointing at it) -/
def regCache (s : State) (p : Phys) : List (Key × Entry) :=
  if (dbGet p s.base.db).isSome then s.base.cache.filter (fun q => q.2.phys != p) else s.base.cache

theorem register_state_of_not_refused (s : State) (p : Phys) (v : Nat) (ow : Bool)
    (h : ((dbGet p s.base.db).isSome && !ow) = false) :
    (register s p v ow).state =
      { base := { s.base with db := dbSet p v s.base.db, cache := regCache s p },
        tags := (p, .callerRegistered) :: s.tags } := by
  unfold register regCache
  rw [h]
  rfl

theorem mem_of_mem_regCache {s : State} {p : Phys} {x : Key × Entry} (h : x ∈ regCache s p) :
    x ∈ s.base.cache := by
  unfold regCache at h
  split at h
  · exact (List.mem_filter.1 h).1
  · exact h

theorem mem_regCache_of_ne {s : State} {p : Phys} {x : Key × Entry} (h : x ∈ s.base.cache)
    (hne : x.2.phys ≠ p) : x ∈ regCache s p := by
  unfold regCache
  split
  · exact List.mem_filter.2 ⟨h, bne_iff_ne.2 hne⟩
  · exact h

theorem regCache_phys_ne {s : State} {p : Phys} (hex : (dbGet p s.base.db).isSome = true)
    {x : Key × Entry} (h : x ∈ regCache s p) : x.2.phys ≠ p := by
  unfold regCache at h
  rw [if_pos hex] at h
  exact bne_iff_ne.1 (List.mem_filter.1 h).2

/-! ## The invariant -/

section
variable {hash eval : Nat → Nat → Nat} {cls : Phys → Bool} {U : List (Phys × Nat)}

/-- * `uid`     — the DatabaseAPI's cache uid never changes (it is `0` in the model);
* `user`    — every table of the user is in the catalog with its contents, tagged as the user's;
* `tracked` — every catalog table tagged Splink-derived is held by the dict under its own physical name
              with `created_by_splink` (so the bulk deletion finds it);
* `created` — every such dict entry has a name of derived form, and if a table of that name is in the
              catalog it is tagged Splink-derived (so the bulk deletion removes nothing else). -/
structure Inv (cls : Phys → Bool) (U : List (Phys × Nat)) (s : State) : Prop where
  uid : s.base.uid = 0
  user : ∀ p v, (p, v) ∈ U → (p, v) ∈ s.base.db ∧ ownerOf p s.tags = .user
  tracked : ∀ p v, (p, v) ∈ s.base.db → ownerOf p s.tags = .splinkDerived →
    ∃ v', (Key.phys p, (⟨p, v', true⟩ : Entry)) ∈ s.base.cache
  created : ∀ e : Entry, (Key.phys e.phys, e) ∈ s.base.cache → e.createdBySplink = true →
    cls e.phys = true ∧ ∀ v, (e.phys, v) ∈ s.base.db → ownerOf e.phys s.tags = .splinkDerived

theorem inv_attach (cls : Phys → Bool) (U : List (Phys × Nat)) : Inv cls U (attach U) := by
  constructor
  · rfl
  · intro p v h; exact ⟨h, rfl⟩
  · intro p v _ ho
    rw [show (attach U).tags = [] from rfl, ownerOf_nil] at ho
    cases ho
  · intro e h; cases h

theorem user_ne_of_cls (hU : ∀ e ∈ U, cls e.1 = false) {p q : Phys} {v : Nat} (h : (p, v) ∈ U)
    (hq : cls q = true) : p ≠ q := by
  intro he
  have h1 : cls p = false := hU (p, v) h
  rw [he, hq] at h1
  exact Bool.noConfusion h1

theorem inv_execute (hU : ∀ e ∈ U, cls e.1 = false) {s : State} (hI : Inv cls U s) (r : Req)
    (hcls : cls ⟨r.templ, hash r.text s.base.uid⟩ = true) :
    Inv cls U { base := (execute hash eval s.base r).state,
                tags := (⟨r.templ, hash r.text s.base.uid⟩, .splinkDerived) :: s.tags } := by
  constructor
  · exact hI.uid
  · intro p v h
    obtain ⟨h1, h2⟩ := hI.user p v h
    have hne := user_ne_of_cls hU h hcls
    refine ⟨?_, ?_⟩
    · show (p, v) ∈ dbSet ⟨r.templ, hash r.text s.base.uid⟩ (eval r.text s.base.data) s.base.db
      exact mem_dbSet_of_ne h1 hne
    · show ownerOf p ((⟨r.templ, hash r.text s.base.uid⟩, .splinkDerived) :: s.tags) = .user
      rw [ownerOf_cons_ne hne]; exact h2
  · intro p v h ho
    have h : (p, v) ∈ dbSet ⟨r.templ, hash r.text s.base.uid⟩ (eval r.text s.base.data) s.base.db := h
    have ho : ownerOf p ((⟨r.templ, hash r.text s.base.uid⟩, .splinkDerived) :: s.tags) = .splinkDerived := ho
    show ∃ v', (Key.phys p, (⟨p, v', true⟩ : Entry)) ∈
      cacheSet (.phys ⟨r.templ, hash r.text s.base.uid⟩)
        ⟨⟨r.templ, hash r.text s.base.uid⟩, eval r.text s.base.data, true⟩ s.base.cache
    by_cases hp : p = ⟨r.templ, hash r.text s.base.uid⟩
    · subst hp
      exact ⟨eval r.text s.base.data, by unfold cacheSet; exact List.mem_cons_self⟩
    · rcases mem_dbSet h with h | h
      · exact absurd (congrArg Prod.fst h) hp
      · rw [ownerOf_cons_ne hp] at ho
        obtain ⟨v', hv'⟩ := hI.tracked p v h ho
        exact ⟨v', mem_cacheSet_of_ne hv' (fun hk => hp (Key.phys.inj hk))⟩
  · intro e h hc
    have h : (Key.phys e.phys, e) ∈ cacheSet (.phys ⟨r.templ, hash r.text s.base.uid⟩)
        ⟨⟨r.templ, hash r.text s.base.uid⟩, eval r.text s.base.data, true⟩ s.base.cache := h
    show cls e.phys = true ∧ ∀ v, (e.phys, v) ∈ dbSet ⟨r.templ, hash r.text s.base.uid⟩ (eval r.text s.base.data) s.base.db →
      ownerOf e.phys ((⟨r.templ, hash r.text s.base.uid⟩, .splinkDerived) :: s.tags) = .splinkDerived
    have key : ∀ (hcl : cls e.phys = true)
        (hold : e.phys ≠ ⟨r.templ, hash r.text s.base.uid⟩ → ∀ v, (e.phys, v) ∈ s.base.db → ownerOf e.phys s.tags = .splinkDerived),
        cls e.phys = true ∧ ∀ v, (e.phys, v) ∈ dbSet ⟨r.templ, hash r.text s.base.uid⟩ (eval r.text s.base.data) s.base.db →
          ownerOf e.phys ((⟨r.templ, hash r.text s.base.uid⟩, .splinkDerived) :: s.tags) = .splinkDerived := by
      intro hcl hold
      refine ⟨hcl, ?_⟩
      intro v hv
      by_cases hp : e.phys = ⟨r.templ, hash r.text s.base.uid⟩
      · rw [hp]; exact ownerOf_cons_self _ _ _
      · rw [ownerOf_cons_ne hp]
        rcases mem_dbSet hv with hv | hv
        · exact absurd (congrArg Prod.fst hv) hp
        · exact hold hp v hv
    rcases mem_cacheSet h with h | h
    · injection h with _ he
      subst he
      exact key hcls (fun hne => absurd rfl hne)
    · obtain ⟨h1, h2⟩ := hI.created e h hc
      exact key h1 (fun _ => h2)

theorem inv_request (hU : ∀ e ∈ U, cls e.1 = false) {s : State} (hI : Inv cls U s) (r : Req)
    (hcls : cls ⟨r.templ, hash r.text 0⟩ = true) : Inv cls U (request hash eval s r) := by
  have hcls' : cls ⟨r.templ, hash r.text s.base.uid⟩ = true := by rw [hI.uid]; exact hcls
  unfold request
  dsimp only
  rcases request_cases hash eval s.base r with ⟨hh, hs⟩ | ⟨hh, hs⟩
  · rw [hh, hs]
    exact hI
  · rw [hh, hs]
    exact inv_execute hU hI r hcls'

theorem inv_setNamed {s : State} (hI : Inv cls U s) (t : Nat) (e' : Entry) :
    Inv cls U { s with base := { s.base with cache := cacheSet (.named t) e' s.base.cache } } := by
  constructor
  · exact hI.uid
  · exact hI.user
  · intro p v h ho
    obtain ⟨v', hv'⟩ := hI.tracked p v h ho
    exact ⟨v', mem_cacheSet_of_ne hv' (fun hk => by cases hk)⟩
  · intro e h hc
    have h : (Key.phys e.phys, e) ∈ cacheSet (.named t) e' s.base.cache := h
    rcases mem_cacheSet h with h | h
    · injection h with hk _
      cases hk
    · exact hI.created e h hc

theorem inv_register (_hU : ∀ e ∈ U, cls e.1 = false) {s : State} (hI : Inv cls U s) (p : Phys) (v : Nat) (ow : Bool)
    (hcls : cls p = false) (how : ow = true → nameIn p U = false) :
    Inv cls U (register s p v ow).state := by
  cases hcond : ((dbGet p s.base.db).isSome && !ow) with
  | true =>
    have : (register s p v ow).state = s := by
      unfold register
      rw [hcond]
      rfl
    rw [this]
    exact hI
  | false =>
    rw [register_state_of_not_refused s p v ow hcond]
    have hfresh : ∀ q w, (q, w) ∈ U → q ≠ p := by
      intro q w hq he
      subst he
      cases ow with
      | true => exact not_nameIn (how rfl) w hq
      | false =>
        have := dbGet_isSome_of_mem (hI.user q w hq).1
        simp [this] at hcond
    constructor
    · exact hI.uid
    · intro q w hq
      obtain ⟨h1, h2⟩ := hI.user q w hq
      have hne := hfresh q w hq
      refine ⟨?_, ?_⟩
      · show (q, w) ∈ dbSet p v s.base.db
        exact mem_dbSet_of_ne h1 hne
      · show ownerOf q ((p, .callerRegistered) :: s.tags) = .user
        rw [ownerOf_cons_ne hne]; exact h2
    · intro q w h ho
      have h : (q, w) ∈ dbSet p v s.base.db := h
      have ho : ownerOf q ((p, .callerRegistered) :: s.tags) = .splinkDerived := ho
      show ∃ v', (Key.phys q, (⟨q, v', true⟩ : Entry)) ∈ regCache s p
      by_cases hp : q = p
      · subst hp
        rw [ownerOf_cons_self] at ho
        cases ho
      · rw [ownerOf_cons_ne hp] at ho
        rcases mem_dbSet h with h | h
        · exact absurd (congrArg Prod.fst h) hp
        · obtain ⟨v', hv'⟩ := hI.tracked q w h ho
          exact ⟨v', mem_regCache_of_ne hv' hp⟩
    · intro e h hc
      have h : (Key.phys e.phys, e) ∈ regCache s p := h
      obtain ⟨h1, h2⟩ := hI.created e (mem_of_mem_regCache h) hc
      have hp : e.phys ≠ p := by
        intro he; rw [he, hcls] at h1; exact Bool.noConfusion h1
      refine ⟨h1, ?_⟩
      intro w hw
      have hw : (e.phys, w) ∈ dbSet p v s.base.db := hw
      show ownerOf e.phys ((p, .callerRegistered) :: s.tags) = .splinkDerived
      rw [ownerOf_cons_ne hp]
      rcases mem_dbSet hw with hw | hw
      · exact absurd (congrArg Prod.fst hw) hp
      · exact h2 w hw

/-- dropping a table that is not the user's keeps the invariant -/
theorem inv_dropTable {s : State} (hI : Inv cls U s) (p : Phys) (hp : ∀ v, (p, v) ∉ U) :
    Inv cls U { s with base := dropTable s.base p } := by
  constructor
  · exact hI.uid
  · intro q w hq
    obtain ⟨h1, h2⟩ := hI.user q w hq
    refine ⟨?_, h2⟩
    show (q, w) ∈ dbDel p s.base.db
    exact mem_dbDel_of_ne h1 (fun he => hp w (he ▸ hq))
  · intro q w h ho
    obtain ⟨h1, h2⟩ := mem_dbDel (show (q, w) ∈ dbDel p s.base.db from h)
    obtain ⟨v', hv'⟩ := hI.tracked q w h1 ho
    refine ⟨v', ?_⟩
    show _ ∈ s.base.cache.filter fun x => x.2.phys != p
    exact List.mem_filter.2 ⟨hv', bne_iff_ne.2 h2⟩
  · intro e h hc
    have h : (Key.phys e.phys, e) ∈ s.base.cache.filter fun x => x.2.phys != p := h
    obtain ⟨h1, h2⟩ := hI.created e (List.mem_filter.1 h).1 hc
    refine ⟨h1, ?_⟩
    intro w hw
    exact h2 w (mem_dbDel (show (e.phys, w) ∈ dbDel p s.base.db from hw)).1

theorem inv_dropDf (hU : ∀ e ∈ U, cls e.1 = false) {s : State} (hI : Inv cls U s) (p : Phys) (c f : Bool)
    (hwf : (if c then cls p else (!f || !nameIn p U)) = true) :
    Inv cls U (dropDf s p c f).state := by
  unfold dropDf
  split
  · exact hI
  · next hcond =>
    apply inv_dropTable hI p
    intro v hv
    cases c with
    | true =>
      have h1 : cls p = true := by simpa using hwf
      exact user_ne_of_cls hU hv h1 rfl
    | false =>
      cases f with
      | false => simp at hcond
      | true =>
        have h1 : nameIn p U = false := by simpa using hwf
        exact not_nameIn h1 v hv

theorem inv_forgetNamed {s : State} (hI : Inv cls U s) (t : Nat) :
    Inv cls U { s with base := Cache.forgetNamed s.base t } := by
  constructor
  · exact hI.uid
  · exact hI.user
  · intro p v h ho
    obtain ⟨v', hv'⟩ := hI.tracked p v h ho
    refine ⟨v', ?_⟩
    show _ ∈ s.base.cache.filter fun q => q.1 != .named t
    exact List.mem_filter.2 ⟨hv', bne_iff_ne.2 (fun hk => by cases hk)⟩
  · intro e h hc
    have h : (Key.phys e.phys, e) ∈ s.base.cache.filter fun q => q.1 != .named t := h
    exact hI.created e (List.mem_filter.1 h).1 hc

theorem inv_foldl_dropTable (l : List Phys) (hl : ∀ p ∈ l, ∀ v, (p, v) ∉ U) {s : State} (hI : Inv cls U s) :
    Inv cls U { s with base := l.foldl dropTable s.base } := by
  induction l generalizing s with
  | nil => exact hI
  | cons p l ih =>
    exact ih (fun q hq => hl q (List.mem_cons_of_mem _ hq)) (inv_dropTable hI p (hl p List.mem_cons_self))

theorem victims_not_user (hU : ∀ e ∈ U, cls e.1 = false) {s : State} (hI : Inv cls U s) :
    ∀ p ∈ victims s.base, ∀ v, (p, v) ∉ U := by
  intro p hp v hv
  obtain ⟨e, he, hc, hep⟩ := mem_victims hp
  have h1 := (hI.created e he hc).1
  rw [hep] at h1
  exact user_ne_of_cls hU hv h1 rfl

theorem inv_deleteCreated (hU : ∀ e ∈ U, cls e.1 = false) {s : State} (hI : Inv cls U s) :
    Inv cls U { s with base := Cache.deleteCreated s.base } := by
  rw [deleteCreated_eq]
  exact inv_foldl_dropTable _ (victims_not_user hU hI) hI

/-- after the bulk deletion no catalog entry is tagged Splink-derived -/
theorem no_derived_after_deleteCreated {s : State} (hI : Inv cls U s) {p : Phys} {v : Nat}
    (h : (p, v) ∈ (Cache.deleteCreated s.base).db) : ownerOf p s.tags ≠ .splinkDerived := by
  intro ho
  obtain ⟨h1, h2⟩ := mem_deleteCreated_db h
  obtain ⟨v', hv'⟩ := hI.tracked p v h1 ho
  exact h2 v' hv'

/-- the bulk deletion removes nothing that is not tagged Splink-derived -/
theorem kept_by_deleteCreated {s : State} (hI : Inv cls U s) {p : Phys} {v : Nat}
    (h : (p, v) ∈ s.base.db) (ho : ownerOf p s.tags ≠ .splinkDerived) :
    (p, v) ∈ (Cache.deleteCreated s.base).db := by
  rw [deleteCreated_eq]
  apply mem_foldl_dropTable_db_of_not_mem _ _ h
  intro hm
  obtain ⟨e, he, hc, hep⟩ := mem_victims (show p ∈ victims s.base from hm)
  apply ho
  have := (hI.created e he hc).2 v (hep ▸ h)
  rw [hep] at this
  exact this

theorem inv_invalidate (hU : ∀ e ∈ U, cls e.1 = false) {s : State} (hI : Inv cls U s) :
    Inv cls U { s with base := Cache.invalidate s.base } := by
  have hD := inv_deleteCreated hU hI
  constructor
  · exact hD.uid
  · exact hD.user
  · intro p v h ho
    exact absurd ho (no_derived_after_deleteCreated hI (show (p, v) ∈ (Cache.deleteCreated s.base).db from h))
  · intro e h; cases h

theorem wf_split {ops : List Op} (h : WF hash cls U ops = true) :
    (∀ e ∈ U, cls e.1 = false) ∧ ∀ op ∈ ops, wfOp hash cls U op = true := by
  unfold WF at h
  rw [Bool.and_eq_true, List.all_eq_true, List.all_eq_true] at h
  refine ⟨?_, h.2⟩
  intro e he
  have := h.1 e he
  simpa using this

theorem inv_applyOp (hU : ∀ e ∈ U, cls e.1 = false) {s : State} (hI : Inv cls U s) (op : Op)
    (hwf : wfOp hash cls U op = true) : Inv cls U (applyOp hash eval s op) := by
  cases op with
  | req r => exact inv_request hU hI r hwf
  | setNamed t e => exact inv_setNamed hI t e
  | register p v ow =>
    have hwf : (!cls p && (!ow || !nameIn p U)) = true := hwf
    rw [Bool.and_eq_true] at hwf
    apply inv_register hU hI p v ow
    · simpa using hwf.1
    · intro h; subst h; simpa using hwf.2
  | dropDf p c f => exact inv_dropDf hU hI p c f hwf
  | forgetNamed t => exact inv_forgetNamed hI t
  | deleteCreated => exact inv_deleteCreated hU hI
  | invalidate => exact inv_invalidate hU hI

theorem inv_run (hU : ∀ e ∈ U, cls e.1 = false) (ops : List Op) {s : State} (hI : Inv cls U s)
    (hwf : ∀ op ∈ ops, wfOp hash cls U op = true) : Inv cls U (run hash eval s ops) := by
  induction ops generalizing s with
  | nil => exact hI
  | cons op ops ih =>
    show Inv cls U (run hash eval (applyOp hash eval s op) ops)
    exact ih (inv_applyOp hU hI op (hwf op List.mem_cons_self)) (fun o ho => hwf o (List.mem_cons_of_mem _ ho))

theorem inv_of_wf (ops : List Op) (h : WF hash cls U ops = true) :
    Inv cls U (run hash eval (attach U) ops) := by
  obtain ⟨hU, hops⟩ := wf_split h
  exact inv_run hU ops (inv_attach cls U) hops

end

/-! ## Statements used by `Properties/C18.lean` -/

theorem user_tables_untouched (hash eval : Nat → Nat → Nat) (cls : Phys → Bool) (U : List (Phys × Nat))
    (ops : List Op) (h : WF hash cls U ops = true) (p : Phys) (v : Nat) (hp : (p, v) ∈ U) :
    (p, v) ∈ (run hash eval (attach U) ops).base.db ∧
      ownerOf p (run hash eval (attach U) ops).tags = .user :=
  (inv_of_wf ops h).user p v hp

theorem register_refused (s : State) (p : Phys) (v : Nat)
    (h : (dbGet p s.base.db).isSome = true) : register s p v false = ⟨s, true⟩ := by
  unfold register
  simp [h]

theorem register_refused_of_mem (s : State) (p : Phys) (v w : Nat) (h : (p, w) ∈ s.base.db) :
    (register s p v false).refused = true ∧ (register s p v false).state = s := by
  rw [register_refused s p v (dbGet_isSome_of_mem h)]
  exact ⟨rfl, rfl⟩

theorem register_overwrite (s : State) (p : Phys) (v : Nat) :
    (register s p v true).refused = false ∧ (p, v) ∈ (register s p v true).state.base.db ∧
      ownerOf p (register s p v true).state.tags = .callerRegistered := by
  have hcond : ((dbGet p s.base.db).isSome && !true) = false := by simp
  refine ⟨?_, ?_, ?_⟩
  · unfold register
    rw [hcond]
    rfl
  · rw [register_state_of_not_refused s p v true hcond]
    show (p, v) ∈ dbSet p v s.base.db
    unfold dbSet
    exact List.mem_cons_self
  · rw [register_state_of_not_refused s p v true hcond]
    exact ownerOf_cons_self _ _ _

/-- repair F24: registering with `overwrite=True` over an existing name leaves no dict entry pointing at that
name, so neither the bulk deletion nor `invalidate_cache` removes the caller's table (in EVERY state) -/
theorem overwrite_kept (s : State) (p : Phys) (v : Nat) (h : (dbGet p s.base.db).isSome = true) :
    (p, v) ∈ (Cache.deleteCreated (register s p v true).state.base).db ∧
    (p, v) ∈ (Cache.invalidate (register s p v true).state.base).db ∧
      ∀ k e, (k, e) ∈ (register s p v true).state.base.cache → e.phys ≠ p := by
  have hcond : ((dbGet p s.base.db).isSome && !true) = false := by simp
  rw [register_state_of_not_refused s p v true hcond]
  have hne : ∀ k e, (k, e) ∈ regCache s p → e.phys ≠ p := fun k e hm => regCache_phys_ne h hm
  have hkept : (p, v) ∈ (Cache.deleteCreated
      { s.base with db := dbSet p v s.base.db, cache := regCache s p }).db := by
    rw [deleteCreated_eq]
    apply mem_foldl_dropTable_db_of_not_mem
    · show (p, v) ∈ dbSet p v s.base.db
      unfold dbSet
      exact List.mem_cons_self
    · intro hm
      obtain ⟨e, he, _, hep⟩ := mem_victims hm
      exact hne _ e he hep
  exact ⟨hkept, hkept, hne⟩

theorem drop_refused (s : State) (p : Phys) : dropDf s p false false = ⟨s, true⟩ := rfl

theorem dropped_gone (s : State) (p : Phys) (c f : Bool) (h : (dropDf s p c f).refused = false) (v : Nat) :
    (p, v) ∉ (dropDf s p c f).state.base.db := by
  unfold dropDf at h ⊢
  split
  · next hc => simp [hc] at h
  · intro hm
    exact (mem_dbDel (show (p, v) ∈ dbDel p s.base.db from hm)).2 rfl

theorem bulk_dropped_gone (s : Cache.State) (e : Entry) (h : (Key.phys e.phys, e) ∈ s.cache)
    (hc : e.createdBySplink = true) (v : Nat) : (e.phys, v) ∉ (Cache.deleteCreated s).db := by
  intro hm
  rw [deleteCreated_eq] at hm
  exact (mem_foldl_dropTable_db _ s hm).2 (victims_mem h hc)

end SplinkVerif.Lemmas.TablesL
