import SplinkVerif.Model.ScoreSql
/-!
# Semantics of the scoring SQL (`Model/ScoreSql.lean`) under `Rel.eval`

For every list of comparisons, every list of levels per comparison, every condition, every database:

* `gammaCase_eval`   – the `gamma_<c>` ladder evaluates to the comparison-vector value of the FIRST level whose condition evaluates to
                       TRUE (`Expr.holds`: FALSE and NULL fall through), the `ELSE` value if there is none;
* `bfCase_eval`      – the `bf_<c>` ladder looks the value of `gamma_<c>` up in the (cvv, Bayes factor) list (first hit; NULL for none);
* `bfLookup_gammaOf` – … which is the Bayes factor of the assigned level whenever levels with equal cvv have equal factors;
* `cv_eval`, `parts_eval`, `predict_eval`, `pipeline_predict` – the rows of the three statements and of the whole pipeline;
* `productVal_rat`, `probVal_finite`, `probVal_inf`, `probVal_null` – the value of `match_probability`.
-/
namespace SplinkVerif.Lemmas.ScoreSql
open SplinkVerif SplinkVerif.Rel SplinkVerif.ScoreSql

/-! ## Specification-level functions of a pair row -/

/-- the level assigned to the pair: the first `WHEN` level whose condition is TRUE (`none`: the `ELSE` level) -/
def assigned (c : Comparison) (row : Row) : Option Level := c.levels.find? (fun l => l.cond.holds row)

/-- comparison-vector value of the assigned level -/
def gammaOf (c : Comparison) (row : Row) : Int :=
  match assigned c row with
  | some l => l.cvv
  | none => c.elseCvv

/-- Bayes-factor literal of the assigned level -/
def bfAssigned (c : Comparison) (row : Row) : Val :=
  match assigned c row with
  | some l => l.bf
  | none => c.elseBf

/-- `CASE WHEN gamma = v₁ THEN b₁ … END`: first level with that comparison-vector value -/
def bfLookup (c : Comparison) (v : Int) : Val :=
  match c.pairs.find? (fun p => p.1 == v) with
  | some p => p.2
  | none => Val.null

/-- the id columns of a row -/
def ids (nid : Nat) (row : Row) : Row := (List.range nid).map fun i => row.getD i Val.null

/-- `cast(prior as float8) * bf_1 * …` on values -/
def productVal (prior : Val) (bfs : List Val) : Val := bfs.foldl (fun acc b => Arith.mul.eval acc b) prior

/-- `bf_1 = 'infinity' OR …` on values -/
def anyInfVal (inf : Val) : List Val → Val
  | [] => Val.bool false
  | b :: bs => bs.foldl (fun acc x => or3 acc (Cmp.eq.eval x inf)) (Cmp.eq.eval b inf)

/-- the `match_probability` CASE on values -/
def probVal (inf prior : Val) (bfs : List Val) : Val :=
  if anyInfVal inf bfs == Val.bool true then Val.rat ((1 : Rat) / 1)
  else Arith.div.eval (productVal prior bfs) (Arith.add.eval (Val.int 1) (productVal prior bfs))

/-- `match_weight`: the uninterpreted `log2` of the product -/
def weightVal (prior : Val) (bfs : List Val) : Val := Val.log2 (productVal prior bfs)

/-- the `bf_<c>` values of a pair -/
def bfVals (cs : List Comparison) (r : Row) : List Val := cs.map fun c => bfLookup c (gammaOf c r)

def cvRow (nid : Nat) (cs : List Comparison) (r : Row) : Row := ids nid r ++ cs.map fun c => Val.int (gammaOf c r)

def partsRow (nid : Nat) (cs : List Comparison) (r : Row) : Row :=
  ids nid r ++ cs.flatMap fun c => [Val.int (gammaOf c r), bfLookup c (gammaOf c r)]

def predictRow (nid : Nat) (inf prior : Val) (cs : List Comparison) (r : Row) : Row :=
  [weightVal prior (bfVals cs r), probVal inf prior (bfVals cs r)] ++ ids nid r ++ bfVals cs r

/-- `where log2(P) >= t` -/
def keeps (prior : Val) (thr : Option Val) (cs : List Comparison) (r : Row) : Bool :=
  match thr with
  | none => true
  | some t => Cmp.ge.eval (weightVal prior (bfVals cs r)) t == Val.bool true

/-! ## Expressions -/

theorem intLit_eval (v : Int) (row : Row) : (intLit v).eval row = Val.int v := by
  unfold intLit
  split
  · simp only [Expr.eval, Arith.eval]
    congr 1; omega
  · simp only [Expr.eval]

theorem foldr_case_eval (ls : List Level) (e : Int) (row : Row) :
    (ls.foldr (fun l acc => Expr.case l.cond (intLit l.cvv) acc) (intLit e)).eval row
      = Val.int (match ls.find? (fun l => l.cond.holds row) with | some l => l.cvv | none => e) := by
  induction ls with
  | nil => simp [intLit_eval]
  | cons l ls ih =>
    simp only [List.foldr_cons, Expr.eval, List.find?_cons, Expr.holds]
    cases hb : (l.cond.eval row == Val.bool true)
    · simpa [hb, Expr.holds] using ih
    · simp [intLit_eval]

/-- (1) the `gamma_<c>` CASE ladder: the comparison-vector value of the first level whose condition is TRUE, else the `ELSE` value -/
theorem gammaCase_eval (c : Comparison) (row : Row) : (gammaCase c).eval row = Val.int (gammaOf c row) := by
  unfold gammaCase gammaOf assigned
  exact foldr_case_eval c.levels c.elseCvv row

theorem foldr_bf_eval (g : Nat) (ps : List (Int × Val)) (row : Row) (v : Int) (h : row.getD g Val.null = Val.int v) :
    (ps.foldr (fun p acc => Expr.case (Expr.cmp Cmp.eq (Expr.col g) (intLit p.1)) (Expr.lit p.2) acc) (Expr.lit Val.null)).eval row
      = (match ps.find? (fun p => p.1 == v) with | some p => p.2 | none => Val.null) := by
  induction ps with
  | nil => simp [Expr.eval]
  | cons p ps ih =>
    simp only [List.foldr_cons, Expr.eval, List.find?_cons, h, intLit_eval, Cmp.eval]
    by_cases hv : p.1 = v
    · simp [hv]
    · have hv' : ¬ v = p.1 := fun e => hv e.symm
      have hb : (p.1 == v) = false := by simpa using hv
      simp [hv', ih, hb]

/-- (2a) the `bf_<c>` CASE ladder looks `gamma_<c>` up among the levels' comparison-vector values -/
theorem bfCase_eval (g : Nat) (c : Comparison) (row : Row) (v : Int) (h : row.getD g Val.null = Val.int v) :
    (bfCase g c).eval row = bfLookup c v := by
  unfold bfCase bfLookup
  exact foldr_bf_eval g c.pairs row v h

/-- the (cvv, factor) of the assigned level is one of the comparison's pairs -/
theorem assigned_mem (c : Comparison) (row : Row) : (gammaOf c row, bfAssigned c row) ∈ c.pairs := by
  unfold gammaOf bfAssigned Comparison.pairs
  cases h : assigned c row with
  | none => simp
  | some l =>
    have hm : l ∈ c.levels := List.mem_of_find?_eq_some h
    simp only [List.mem_append, List.mem_map, List.mem_singleton]
    exact Or.inl ⟨l, hm, rfl⟩

/-- levels with the same comparison-vector value carry the same Bayes factor (Splink numbers the non-null levels distinctly; all null
levels get −1 and the factor 1) -/
def Consistent (c : Comparison) : Prop := ∀ p ∈ c.pairs, ∀ q ∈ c.pairs, p.1 = q.1 → p.2 = q.2

/-- (2b) … which is the Bayes factor of the assigned level -/
theorem bfLookup_gammaOf (c : Comparison) (hc : Consistent c) (row : Row) : bfLookup c (gammaOf c row) = bfAssigned c row := by
  have hm := assigned_mem c row
  unfold bfLookup
  cases hf : c.pairs.find? (fun p => p.1 == gammaOf c row) with
  | none =>
    have := List.find?_eq_none.mp hf _ hm
    simp at this
  | some p =>
    have hp : p ∈ c.pairs := List.mem_of_find?_eq_some hf
    have hpv : (p.1 == gammaOf c row) = true := List.find?_some (p := fun (p : Int × Val) => p.1 == gammaOf c row) hf
    have : p.1 = gammaOf c row := by simpa using hpv
    exact hc p hp _ hm this

/-! ## Rows -/

theorem idCols_eval (nid : Nat) (row : Row) : (idCols nid).map (fun e => e.eval row) = ids nid row := by
  simp [idCols, ids, List.map_map, Function.comp_def, Expr.eval]

theorem ids_length (nid : Nat) (row : Row) : (ids nid row).length = nid := by simp [ids]

theorem ids_append (nid : Nat) (r x : Row) : ids nid (ids nid r ++ x) = ids nid r := by
  unfold ids
  apply List.map_congr_left
  intro i hi
  have hi' : i < nid := List.mem_range.mp hi
  rw [List.getD_eq_getElem?_getD, List.getD_eq_getElem?_getD, List.getElem?_append_left (by simp [hi'])]
  simp [hi']

theorem cv_project (nid : Nat) (cs : List Comparison) (r : Row) :
    (idCols nid ++ cs.map gammaCase).map (fun e => e.eval r) = cvRow nid cs r := by
  simp [cvRow, idCols_eval, List.map_map, Function.comp_def, gammaCase_eval]

theorem getD_append_length (pre : Row) (x : Val) (rest : Row) : (pre ++ x :: rest).getD pre.length Val.null = x := by
  simp [List.getD_eq_getElem?_getD]

theorem getD_append_length_succ (pre : Row) (x y : Val) (rest : Row) : (pre ++ x :: y :: rest).getD (pre.length + 1) Val.null = y := by
  have : pre ++ x :: y :: rest = (pre ++ [x]) ++ y :: rest := by simp
  rw [this, ← getD_append_length (pre ++ [x]) y rest]
  simp

theorem partsCols_eval (r : Row) : ∀ (cs : List Comparison) (pre : Row),
    (partsCols pre.length cs).map (fun e => e.eval (pre ++ cs.map fun c => Val.int (gammaOf c r)))
      = cs.flatMap fun c => [Val.int (gammaOf c r), bfLookup c (gammaOf c r)]
  | [], _ => by simp [partsCols]
  | c :: cs, pre => by
    have h0 := getD_append_length pre (Val.int (gammaOf c r)) (cs.map fun c => Val.int (gammaOf c r))
    have ih := partsCols_eval r cs (pre ++ [Val.int (gammaOf c r)])
    simp only [List.length_append, List.length_singleton, List.append_assoc, List.singleton_append] at ih
    simp only [partsCols, List.map_cons, List.flatMap_cons, Expr.eval, h0, bfCase_eval _ c _ _ h0, ih]
    simp

theorem parts_project (nid : Nat) (cs : List Comparison) (r : Row) :
    (idCols nid ++ partsCols nid cs).map (fun e => e.eval (cvRow nid cs r)) = partsRow nid cs r := by
  have h := partsCols_eval r cs (ids nid r)
  rw [ids_length] at h
  simp only [List.map_append, idCols_eval, partsRow]
  rw [show cvRow nid cs r = ids nid r ++ cs.map (fun c => Val.int (gammaOf c r)) from rfl, ids_append, h]

theorem bfCols_eval (r : Row) : ∀ (cs : List Comparison) (pre : Row),
    (bfCols pre.length cs).map (fun e => e.eval (pre ++ cs.flatMap fun c => [Val.int (gammaOf c r), bfLookup c (gammaOf c r)]))
      = bfVals cs r
  | [], _ => by simp [bfCols, bfVals]
  | c :: cs, pre => by
    have h1 := getD_append_length_succ pre (Val.int (gammaOf c r)) (bfLookup c (gammaOf c r))
      (cs.flatMap fun c => [Val.int (gammaOf c r), bfLookup c (gammaOf c r)])
    have ih := bfCols_eval r cs (pre ++ [Val.int (gammaOf c r), bfLookup c (gammaOf c r)])
    simp only [List.length_append, List.length_cons, List.length_nil, List.append_assoc, List.cons_append, List.nil_append] at ih
    simp only [bfCols, bfVals, List.map_cons, List.flatMap_cons, Expr.eval, List.cons_append, List.nil_append, h1]
    simp only [bfVals] at ih
    rw [← ih]

theorem bfCols_parts (nid : Nat) (cs : List Comparison) (r : Row) :
    (bfCols nid cs).map (fun e => e.eval (partsRow nid cs r)) = bfVals cs r := by
  have h := bfCols_eval r cs (ids nid r)
  rwa [ids_length] at h

theorem foldl_mul_eval (row : Row) : ∀ (bs : List Expr) (a : Expr),
    (bs.foldl (fun acc b => Expr.arith Arith.mul acc b) a).eval row
      = (bs.map fun e => e.eval row).foldl (fun acc b => Arith.mul.eval acc b) (a.eval row)
  | [], _ => rfl
  | b :: bs, a => by
    simp only [List.foldl_cons, List.map_cons]
    rw [foldl_mul_eval row bs]
    simp only [Expr.eval]

theorem productExpr_eval (prior : Val) (bs : List Expr) (row : Row) :
    (productExpr prior bs).eval row = productVal prior (bs.map fun e => e.eval row) := by
  unfold productExpr productVal
  rw [foldl_mul_eval]
  simp only [Expr.eval]

theorem foldl_or_eval (inf : Val) (row : Row) : ∀ (bs : List Expr) (a : Expr),
    (bs.foldl (fun acc x => Expr.or acc (Expr.cmp Cmp.eq x (Expr.lit inf))) a).eval row
      = (bs.map fun e => e.eval row).foldl (fun acc x => or3 acc (Cmp.eq.eval x inf)) (a.eval row)
  | [], _ => rfl
  | b :: bs, a => by
    simp only [List.foldl_cons, List.map_cons]
    rw [foldl_or_eval inf row bs]
    simp only [Expr.eval]

theorem anyInf_eval (inf : Val) (bs : List Expr) (row : Row) :
    (anyInf inf bs).eval row = anyInfVal inf (bs.map fun e => e.eval row) := by
  cases bs with
  | nil => simp [anyInf, anyInfVal, Expr.eval]
  | cons b bs =>
    simp only [anyInf, anyInfVal, List.map_cons]
    rw [foldl_or_eval]
    simp only [Expr.eval]

theorem probExpr_eval (inf prior : Val) (bs : List Expr) (row : Row) :
    (probExpr inf prior bs).eval row = probVal inf prior (bs.map fun e => e.eval row) := by
  simp only [probExpr, probVal, Expr.eval, anyInf_eval, productExpr_eval]

theorem weightExpr_eval (prior : Val) (bs : List Expr) (row : Row) :
    (weightExpr prior bs).eval row = weightVal prior (bs.map fun e => e.eval row) := by
  simp only [weightExpr, weightVal, Expr.eval, productExpr_eval]

theorem predict_project (nid : Nat) (inf prior : Val) (cs : List Comparison) (r : Row) :
    ([weightExpr prior (bfCols nid cs), probExpr inf prior (bfCols nid cs)] ++ idCols nid ++ bfCols nid cs).map
        (fun e => e.eval (partsRow nid cs r)) = predictRow nid inf prior cs r := by
  simp only [List.map_append, List.map_cons, List.map_nil, weightExpr_eval, probExpr_eval, bfCols_parts, idCols_eval, predictRow]
  rw [show partsRow nid cs r = ids nid r ++ cs.flatMap (fun c => [Val.int (gammaOf c r), bfLookup c (gammaOf c r)]) from rfl, ids_append]

/-! ## Statements -/

theorem cv_eval (nid : Nat) (cs : List Comparison) (db : Db) :
    (cvStmt nid cs).eval db = (db "blocked_with_cols").map (cvRow nid cs) := by
  simp only [cvStmt, Rel.eval]
  exact List.map_congr_left fun r _ => cv_project nid cs r

theorem parts_eval (nid : Nat) (cs : List Comparison) (db : Db) (pairs : List Row)
    (h : db "__splink__df_comparison_vectors" = pairs.map (cvRow nid cs)) :
    (partsStmt nid cs).eval db = pairs.map (partsRow nid cs) := by
  simp only [partsStmt, Rel.eval, h, List.map_map]
  exact List.map_congr_left fun r _ => parts_project nid cs r

theorem weight_keeps (nid : Nat) (prior : Val) (cs : List Comparison) (t : Val) (r : Row) :
    (Expr.cmp Cmp.ge (weightExpr prior (bfCols nid cs)) (Expr.lit t)).holds (partsRow nid cs r) = keeps prior (some t) cs r := by
  simp only [Expr.holds, Expr.eval, weightExpr_eval, bfCols_parts, keeps]

theorem predict_eval (nid : Nat) (inf prior : Val) (thr : Option Val) (cs : List Comparison) (db : Db) (pairs : List Row)
    (h : db "__splink__df_match_weight_parts" = pairs.map (partsRow nid cs)) :
    (predictStmt nid inf prior thr cs).eval db = (pairs.filter (keeps prior thr cs)).map (predictRow nid inf prior cs) := by
  cases thr with
  | none =>
    simp only [predictStmt, Rel.eval, h, List.map_map]
    have : pairs.filter (keeps prior none cs) = pairs := by simp [keeps]
    rw [this]
    exact List.map_congr_left fun r _ => predict_project nid inf prior cs r
  | some t =>
    simp only [predictStmt, Rel.eval, h, List.filter_map, List.map_map]
    have hf : pairs.filter ((Expr.cmp Cmp.ge (weightExpr prior (bfCols nid cs)) (Expr.lit t)).holds ∘ partsRow nid cs)
        = pairs.filter (keeps prior (some t) cs) :=
      List.filter_congr fun r _ => weight_keeps nid prior cs t r
    rw [hf]
    exact List.map_congr_left fun r _ => predict_project nid inf prior cs r

/-- the three statements run in the order of the pipeline, on ANY database: the rows of `__splink__df_predict` -/
theorem pipeline_predict (nid : Nat) (inf prior : Val) (thr : Option Val) (cs : List Comparison) (db : Db) :
    runStmts db (pipeline nid inf prior thr cs) "__splink__df_predict"
      = ((db "blocked_with_cols").filter (keeps prior thr cs)).map (predictRow nid inf prior cs) := by
  simp only [pipeline, runStmts]
  rw [show ∀ (d : Db) rows, Db.set d "__splink__df_predict" rows "__splink__df_predict" = rows from fun d rows => by simp [Db.set]]
  apply predict_eval
  rw [show ∀ (d : Db) rows, Db.set d "__splink__df_match_weight_parts" rows "__splink__df_match_weight_parts" = rows from
    fun d rows => by simp [Db.set]]
  apply parts_eval
  rw [show ∀ (d : Db) rows, Db.set d "__splink__df_comparison_vectors" rows "__splink__df_comparison_vectors" = rows from
    fun d rows => by simp [Db.set]]
  exact cv_eval nid cs db

/-- … and of the two intermediate tables -/
theorem pipeline_parts (nid : Nat) (inf prior : Val) (thr : Option Val) (cs : List Comparison) (db : Db) :
    runStmts db (pipeline nid inf prior thr cs) "__splink__df_match_weight_parts" = (db "blocked_with_cols").map (partsRow nid cs) := by
  simp only [pipeline, runStmts]
  rw [show ∀ (d : Db) rows, Db.set d "__splink__df_predict" rows "__splink__df_match_weight_parts" = d "__splink__df_match_weight_parts" from
    fun d rows => by simp [Db.set]]
  rw [show ∀ (d : Db) rows, Db.set d "__splink__df_match_weight_parts" rows "__splink__df_match_weight_parts" = rows from
    fun d rows => by simp [Db.set]]
  apply parts_eval
  rw [show ∀ (d : Db) rows, Db.set d "__splink__df_comparison_vectors" rows "__splink__df_comparison_vectors" = rows from
    fun d rows => by simp [Db.set]]
  exact cv_eval nid cs db

/-! ## The value of `match_probability` -/

theorem productVal_rat (p : Rat) : ∀ (qs : List Rat) , productVal (Val.rat p) (qs.map Val.rat) = Val.rat (qs.foldl (· * ·) p) := by
  intro qs
  induction qs generalizing p with
  | nil => rfl
  | cons q qs ih =>
    simp only [productVal, List.map_cons, List.foldl_cons] at ih ⊢
    have : Arith.mul.eval (Val.rat p) (Val.rat q) = Val.rat (p * q) := by simp [Arith.eval, Val.toRat?]
    rw [this]
    exact ih (p * q)

/-- `inf` stands for float8 +∞: not NULL and not a finite number -/
structure IsInf (inf : Val) : Prop where
  ne_null : inf ≠ Val.null
  ne_rat : ∀ q : Rat, inf ≠ Val.rat q

theorem eq_inf_rat {inf : Val} (hi : IsInf inf) (q : Rat) : Cmp.eq.eval (Val.rat q) inf = Val.bool false := by
  have h1 := hi.ne_null
  have h2 := hi.ne_rat q
  cases inf with
  | null => exact absurd rfl h1
  | rat q' =>
    have : q ≠ q' := fun e => h2 (by rw [e])
    simp [Cmp.eval, this]
  | _ => simp [Cmp.eval]

theorem eq_inf_inf {inf : Val} (hi : IsInf inf) : Cmp.eq.eval inf inf = Val.bool true := by
  have h1 := hi.ne_null
  cases inf <;> simp_all [Cmp.eval]

theorem or3_true_right (a : Val) : or3 a (Val.bool true) = Val.bool true := by
  cases a with
  | bool b => cases b <;> rfl
  | _ => rfl

theorem foldl_or_true (inf : Val) : ∀ (vs : List Val),
    vs.foldl (fun acc x => or3 acc (Cmp.eq.eval x inf)) (Val.bool true) = Val.bool true
  | [] => rfl
  | v :: vs => by
    simp only [List.foldl_cons]
    rw [show or3 (Val.bool true) (Cmp.eq.eval v inf) = Val.bool true from rfl]
    exact foldl_or_true inf vs

theorem foldl_or_mem {inf : Val} (hi : IsInf inf) : ∀ (vs : List Val) (acc : Val), inf ∈ vs →
    vs.foldl (fun acc x => or3 acc (Cmp.eq.eval x inf)) acc = Val.bool true
  | [], _, h => by simp at h
  | v :: vs, acc, h => by
    simp only [List.foldl_cons]
    by_cases hv : v = inf
    · rw [hv, eq_inf_inf hi, or3_true_right]
      exact foldl_or_true inf vs
    · have : inf ∈ vs := by
        rcases List.mem_cons.mp h with h | h
        · exact absurd h.symm hv
        · exact h
      exact foldl_or_mem hi vs _ this

theorem anyInfVal_mem {inf : Val} (hi : IsInf inf) (vs : List Val) (h : inf ∈ vs) : anyInfVal inf vs = Val.bool true := by
  cases vs with
  | nil => simp at h
  | cons v vs =>
    simp only [anyInfVal]
    by_cases hv : v = inf
    · rw [hv, eq_inf_inf hi]
      exact foldl_or_true inf vs
    · have : inf ∈ vs := by
        rcases List.mem_cons.mp h with h | h
        · exact absurd h.symm hv
        · exact h
      exact foldl_or_mem hi vs _ this

theorem foldl_or_rat {inf : Val} (hi : IsInf inf) : ∀ (qs : List Rat),
    (qs.map Val.rat).foldl (fun acc x => or3 acc (Cmp.eq.eval x inf)) (Val.bool false) = Val.bool false
  | [] => rfl
  | q :: qs => by
    simp only [List.map_cons, List.foldl_cons, eq_inf_rat hi]
    rw [show or3 (Val.bool false) (Val.bool false) = Val.bool false from rfl]
    exact foldl_or_rat hi qs

theorem anyInfVal_rat {inf : Val} (hi : IsInf inf) (qs : List Rat) : anyInfVal inf (qs.map Val.rat) = Val.bool false := by
  cases qs with
  | nil => rfl
  | cons q qs =>
    simp only [List.map_cons, anyInfVal, eq_inf_rat hi]
    exact foldl_or_rat hi qs

/-- (3a) an infinite factor: `match_probability = 1`, whatever the other factors are (finite, infinite, NULL) -/
theorem probVal_inf {inf : Val} (hi : IsInf inf) (prior : Val) (vs : List Val) (h : inf ∈ vs) :
    probVal inf prior vs = Val.rat 1 := by
  have h1 : ((1 : Rat) / 1) = 1 := by grind
  simp [probVal, anyInfVal_mem hi vs h, h1]

/-- (3b) finite factors: `match_probability = B / (1 + B)` in exact rationals, `B` = prior odds × the factors (NULL iff `1 + B = 0`) -/
theorem probVal_finite {inf : Val} (hi : IsInf inf) (p : Rat) (qs : List Rat) :
    probVal inf (Val.rat p) (qs.map Val.rat) =
      (if 1 + qs.foldl (· * ·) p = 0 then Val.null else Val.rat (qs.foldl (· * ·) p / (1 + qs.foldl (· * ·) p))) := by
  simp only [probVal, anyInfVal_rat hi, productVal_rat]
  simp [Arith.eval, Val.toRat?]

end SplinkVerif.Lemmas.ScoreSql
