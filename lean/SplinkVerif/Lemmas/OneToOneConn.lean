import SplinkVerif.Lemmas.OneToOne
/-!
# C12 — connectivity of single-best-link clusters for tie-free inputs

`connected_tie_free`: with pairwise distinct probabilities every cluster returned by the
model of `one_to_one_clustering` is connected through kept edges inside the cluster — for
every instance and every pair of tie-break oracles.

The proof does not use the parent forest.  It compares the run with the **constrained
Kruskal forest** `KS I`: go through the kept edges by decreasing probability and accept an
edge iff its end points lie in different trees accepted so far and these two trees do not
hold records of one duplicate-free dataset (`lvl`, one level per probability value).

* `ks_clash` (K2) — a kept edge whose end points are in different Kruskal clusters was
  rejected because the clusters *built from heavier accepted edges* already clashed;
* `ks_dupfree` (K1, tie-free) — a Kruskal cluster never holds two records of a duplicate-free
  dataset;
* `Sub` — the invariant: every representative group lies inside one Kruskal cluster.  It is
  inductive (`sub_step`): were a row accepted (rank 1 in the windows of both groups) between
  two Kruskal clusters, K2 gives two clashing records reached from its end points through
  heavier accepted edges; the two groups do not clash, so one of the two paths leaves its
  group, through a heavier edge inside one Kruskal cluster; by K1 and `Sub` that edge is a
  candidate row of the group, so the accepted row was not rank 1;
* at the exit state there is no candidate row (`no_cands_of_fix`), so no accepted Kruskal
  edge joins two groups (it would be a candidate by K1 and `Sub`): the groups **are** the
  Kruskal clusters (`run_eq_kruskal`), which are connected by construction.
-/
namespace SplinkVerif.Lemmas.O2O
open SplinkVerif SplinkVerif.OneToOne SplinkVerif.Lemmas

/-! ## Generic facts about `Reach` -/

theorem reachMono {R R' : Nat → Nat → Prop} (h : ∀ a b, R a b → R' a b) {i j : Nat}
    (hr : Reach R i j) : Reach R' i j := by
  induction hr with
  | refl => exact Reach.refl _
  | tail _ hjk ih => exact Reach.tail ih (h _ _ hjk)

/-- A path from inside `P` to outside `P` has a step that leaves `P`. -/
theorem reach_cross {R : Nat → Nat → Prop} (P : Nat → Prop) {a p : Nat} (hr : Reach R a p)
    (ha : P a) (hp : ¬ P p) : ∃ u u', R u u' ∧ P u ∧ ¬ P u' := by
  induction hr with
  | refl => exact absurd ha hp
  | tail hij hjk ih =>
    rename_i j k
    by_cases hj : P j
    · exact ⟨j, k, hjk, hj, hp⟩
    · exact ih hj

/-- Paths in a relation enlarged by one undirected edge `a — b`. -/
theorem reach_add_edge {R R' : Nat → Nat → Prop} {a b : Nat}
    (h : ∀ u v, R' u v → R u v ∨ (u = a ∧ v = b) ∨ (u = b ∧ v = a)) {p q : Nat}
    (hr : Reach R' p q) :
    Reach R p q ∨ (Reach R p a ∧ Reach R b q) ∨ (Reach R p b ∧ Reach R a q) := by
  induction hr with
  | refl => exact Or.inl (Reach.refl _)
  | tail _ hjk ih =>
    rcases h _ _ hjk with h1 | ⟨rfl, rfl⟩ | ⟨rfl, rfl⟩
    · rcases ih with ih | ⟨i1, i2⟩ | ⟨i1, i2⟩
      · exact Or.inl (Reach.tail ih h1)
      · exact Or.inr (Or.inl ⟨i1, Reach.tail i2 h1⟩)
      · exact Or.inr (Or.inr ⟨i1, Reach.tail i2 h1⟩)
    · rcases ih with ih | ⟨i1, _⟩ | ⟨i1, _⟩
      · exact Or.inr (Or.inl ⟨ih, Reach.refl _⟩)
      · exact Or.inr (Or.inl ⟨i1, Reach.refl _⟩)
      · exact Or.inl i1
    · rcases ih with ih | ⟨i1, _⟩ | ⟨i1, _⟩
      · exact Or.inr (Or.inr ⟨ih, Reach.refl _⟩)
      · exact Or.inl i1
      · exact Or.inr (Or.inr ⟨i1, Reach.refl _⟩)

/-! ## The constrained Kruskal forest -/

/-- Kept edge between two records, in either orientation, with its probability. -/
def E (I : Inst) (a b w : Nat) : Prop := (a, b, w) ∈ neighbours I ∧ a < I.n ∧ b < I.n

/-- A number above every probability of `__splink__df_neighbours`. -/
def bound (I : Inst) : Nat := ((neighbours I).map fun r => r.2.2).sum + 1

/-- Adjacency of a set of weighted edges. -/
def adjOf (S : Nat → Nat → Nat → Prop) (u v : Nat) : Prop := ∃ w, S u v w

/-- Adjacency through the edges heavier than `w`. -/
def adjGt (S : Nat → Nat → Nat → Prop) (w : Nat) (u v : Nat) : Prop := ∃ w', w < w' ∧ S u v w'

/-- The `R`-components of `a` and `b` hold records of one duplicate-free dataset. -/
def Clash (I : Inst) (R : Nat → Nat → Prop) (a b : Nat) : Prop :=
  ∃ p q, p < I.n ∧ q < I.n ∧ Reach R a p ∧ Reach R b q ∧ I.ds p = I.ds q ∧ I.ds p ∈ I.dupFree

/-- Edges accepted by constrained Kruskal among those of probability `≥ bound I - d`:
level `d + 1` looks at the edges of probability `bound I - (d + 1)` and accepts those that
join two different components of level `d` which do not clash. -/
def lvl (I : Inst) : Nat → Nat → Nat → Nat → Prop
  | 0 => fun _ _ _ => False
  | d + 1 => fun a b w => lvl I d a b w ∨
      (E I a b w ∧ w + (d + 1) = bound I ∧ ¬ Reach (adjOf (lvl I d)) a b ∧
        ¬ Clash I (adjOf (lvl I d)) a b)

/-- The constrained Kruskal forest (all levels). -/
def KS (I : Inst) : Nat → Nat → Nat → Prop := lvl I (bound I)

theorem E_symm {I : Inst} {a b w : Nat} (h : E I a b w) : E I b a w :=
  ⟨neighbours_swap I (a, b, w) h.1, h.2.2, h.2.1⟩

theorem le_sum_of_mem : ∀ (l : List Nat) (x : Nat), x ∈ l → x ≤ l.sum := by
  intro l
  induction l with
  | nil => intro x h; cases h
  | cons a l ih =>
    intro x h
    rw [List.sum_cons]
    rcases List.mem_cons.mp h with rfl | h
    · omega
    · have := ih x h; omega

theorem E_lt_bound {I : Inst} {a b w : Nat} (h : E I a b w) : w < bound I := by
  have : w ∈ (neighbours I).map fun r => r.2.2 := List.mem_map.mpr ⟨(a, b, w), h.1, rfl⟩
  have := le_sum_of_mem _ _ this
  unfold bound
  omega

theorem E_row {I : Inst} {a b w : Nat} (h : E I a b w) : ∃ j, ((a, b, w), j) ∈ rows I :=
  exists_mem_indexFrom _ _ _ h.1

theorem lvl_E (I : Inst) : ∀ d a b w, lvl I d a b w → E I a b w ∧ bound I ≤ w + d := by
  intro d
  induction d with
  | zero => intro a b w h; exact h.elim
  | succ d ih =>
    intro a b w h
    rcases h with h | ⟨hE, hw, _, _⟩
    · have := ih a b w h; exact ⟨this.1, by omega⟩
    · exact ⟨hE, by omega⟩

theorem lvl_mono (I : Inst) {d d' : Nat} (hd : d ≤ d') {a b w : Nat} (h : lvl I d a b w) :
    lvl I d' a b w := by
  induction hd with
  | refl => exact h
  | step _ ih => exact Or.inl ih

theorem lvl_symm (I : Inst) : ∀ d a b w, lvl I d a b w → lvl I d b a w := by
  intro d
  induction d with
  | zero => intro a b w h; exact h.elim
  | succ d ih =>
    intro a b w h
    have hs : ∀ u v, adjOf (lvl I d) u v → adjOf (lvl I d) v u :=
      fun u v ⟨w', hw'⟩ => ⟨w', ih u v w' hw'⟩
    rcases h with h | ⟨hE, hw, hr, hc⟩
    · exact Or.inl (ih a b w h)
    · refine Or.inr ⟨E_symm hE, hw, fun h => hr (reach_symm hs h), ?_⟩
      rintro ⟨p, q, hp, hq, r1, r2, hds, hmem⟩
      exact hc ⟨q, p, hq, hp, r2, r1, hds.symm, hds ▸ hmem⟩

theorem KS_E {I : Inst} {a b w : Nat} (h : KS I a b w) : E I a b w := (lvl_E I _ a b w h).1

theorem KS_symm {I : Inst} {a b w : Nat} (h : KS I a b w) : KS I b a w := lvl_symm I _ a b w h

theorem adjKS_symm (I : Inst) : ∀ a b, adjOf (KS I) a b → adjOf (KS I) b a :=
  fun _ _ ⟨w, h⟩ => ⟨w, KS_symm h⟩

/-- K2: a kept edge between two Kruskal clusters was rejected because the clusters built from
the heavier accepted edges hold records of one duplicate-free dataset. -/
theorem ks_clash (I : Inst) {a b w : Nat} (hE : E I a b w) (hn : ¬ Reach (adjOf (KS I)) a b) :
    Clash I (adjGt (KS I) w) a b := by
  have hlt := E_lt_bound hE
  obtain ⟨d, hd⟩ : ∃ d, w + (d + 1) = bound I := ⟨bound I - w - 1, by omega⟩
  have hle : d + 1 ≤ bound I := by omega
  have hsub : ∀ u v, adjOf (lvl I d) u v → adjGt (KS I) w u v := by
    intro u v ⟨w', hw'⟩
    have := (lvl_E I d u v w' hw').2
    exact ⟨w', by omega, lvl_mono I (by omega) hw'⟩
  have hsub' : ∀ u v, adjOf (lvl I d) u v → adjOf (KS I) u v :=
    fun u v ⟨w', hw'⟩ => ⟨w', lvl_mono I (by omega) hw'⟩
  by_cases hr : Reach (adjOf (lvl I d)) a b
  · exact absurd (reachMono hsub' hr) hn
  · by_cases hc : Clash I (adjOf (lvl I d)) a b
    · obtain ⟨p, q, hp, hq, r1, r2, hds, hmem⟩ := hc
      exact ⟨p, q, hp, hq, reachMono hsub r1, reachMono hsub r2, hds, hmem⟩
    · have : lvl I (d + 1) a b w := Or.inr ⟨hE, hd, hr, hc⟩
      exact absurd (reach_single ⟨w, lvl_mono I hle this⟩) hn

/-- K1: with pairwise distinct probabilities no Kruskal cluster holds two records of one
duplicate-free dataset. -/
theorem lvl_dupfree (I : Inst) (htf : TieFree I) : ∀ d p q, Reach (adjOf (lvl I d)) p q →
    p < I.n → q < I.n → p ≠ q → I.ds p = I.ds q → I.ds p ∈ I.dupFree → False := by
  intro d
  induction d with
  | zero =>
    intro p q hr _ _ hne _ _
    cases hr with
    | refl => exact hne rfl
    | tail _ h => obtain ⟨_, h⟩ := h; exact h.elim
  | succ d ih =>
    intro p q hr hp hq hne hds hmem
    by_cases hnew : ∃ a b w, E I a b w ∧ w + (d + 1) = bound I ∧
        ¬ Reach (adjOf (lvl I d)) a b ∧ ¬ Clash I (adjOf (lvl I d)) a b
    · obtain ⟨a, b, w, hE, hw, hnr, hnc⟩ := hnew
      have hs : ∀ u v, adjOf (lvl I d) u v → adjOf (lvl I d) v u :=
        fun u v ⟨w', hw'⟩ => ⟨w', lvl_symm I d u v w' hw'⟩
      have hadd : ∀ u v, adjOf (lvl I (d + 1)) u v →
          adjOf (lvl I d) u v ∨ (u = a ∧ v = b) ∨ (u = b ∧ v = a) := by
        intro u v ⟨w', hw'⟩
        rcases hw' with h | ⟨hE', hw'', _, _⟩
        · exact Or.inl ⟨w', h⟩
        · right
          have hww : w' = w := by omega
          subst hww
          obtain ⟨i, hi⟩ := E_row hE
          obtain ⟨j, hj⟩ := E_row hE'
          rcases htf _ hj _ hi rfl with h | ⟨h1, h2⟩
          · left
            have h1 : u = a := congrArg (fun x : IRow => x.1.1) h
            have h2 : v = b := congrArg (fun x : IRow => x.1.2.1) h
            exact ⟨h1, h2⟩
          · right; exact ⟨h1, h2⟩
      rcases reach_add_edge hadd hr with h | ⟨h1, h2⟩ | ⟨h1, h2⟩
      · exact ih p q h hp hq hne hds hmem
      · exact hnc ⟨p, q, hp, hq, reach_symm hs h1, h2, hds, hmem⟩
      · exact hnc ⟨q, p, hq, hp, h2, reach_symm hs h1, hds.symm, hds ▸ hmem⟩
    · have hsame : ∀ u v, adjOf (lvl I (d + 1)) u v → adjOf (lvl I d) u v := by
        intro u v ⟨w', hw'⟩
        rcases hw' with h | h
        · exact ⟨w', h⟩
        · exact absurd ⟨u, v, w', h⟩ hnew
      exact ih p q (reachMono hsame hr) hp hq hne hds hmem

theorem ks_dupfree (I : Inst) (htf : TieFree I) {p q : Nat} (hr : Reach (adjOf (KS I)) p q)
    (hp : p < I.n) (hq : q < I.n) (hne : p ≠ q) (hds : I.ds p = I.ds q)
    (hmem : I.ds p ∈ I.dupFree) : False :=
  lvl_dupfree I htf _ p q hr hp hq hne hds hmem

/-! ## The invariant: groups lie inside Kruskal clusters -/

/-- Every representative group lies inside one Kruskal cluster. -/
def Sub (I : Inst) (rep : Reps) : Prop :=
  ∀ u v, u < I.n → v < I.n → repOf rep u = repOf rep v → Reach (adjOf (KS I)) u v

theorem sub_initial (I : Inst) : Sub I (initialReps I) := by
  intro u v hu hv h
  rw [repOf_initial I u hu, repOf_initial I v hv] at h
  subst h
  exact Reach.refl _

/-- Two groups joined by an accepted Kruskal edge do not clash. -/
theorem no_conflict_of_ks (I : Inst) (htf : TieFree I) (rep : Reps) (hsub : Sub I rep)
    {u u' : Nat} (hadj : adjOf (KS I) u u') (hne : repOf rep u ≠ repOf rep u') :
    conflict I rep (repOf rep u) (repOf rep u') = false := by
  cases hc : conflict I rep (repOf rep u) (repOf rep u') with
  | false => rfl
  | true =>
    exfalso
    obtain ⟨w, hw⟩ := hadj
    obtain ⟨_, hu, hu'⟩ := KS_E hw
    obtain ⟨d, hd, c1, c2⟩ := (conflict_iff I rep _ _).mp hc
    obtain ⟨p1, hp1, hr1, hd1⟩ := (containsFlag_iff I rep _ _).mp c1
    obtain ⟨p2, hp2, hr2, hd2⟩ := (containsFlag_iff I rep _ _).mp c2
    have r1 := hsub p1 u hp1 hu hr1
    have r2 := hsub u' p2 hu' hp2 hr2.symm
    have r := reach_trans (Reach.tail r1 ⟨w, hw⟩) r2
    refine ks_dupfree I htf r hp1 hp2 ?_ (hd1.trans hd2.symm) (hd1 ▸ hd)
    intro h
    subst h
    exact hne (hr1.symm.trans hr2)

/-- A Kruskal edge between two groups is a candidate row (in the given orientation). -/
theorem ks_row_cand (I : Inst) (htf : TieFree I) (rep : Reps) (hsub : Sub I rep)
    {u u' w : Nat} (hw : KS I u u' w) (hne : repOf rep u ≠ repOf rep u') :
    ∃ y ∈ cands I rep, node y = u ∧ nbr y = u' ∧ prob y = w := by
  obtain ⟨j, hj⟩ := E_row (KS_E hw)
  obtain ⟨_, hu, hu'⟩ := KS_E hw
  refine ⟨((u, u', w), j), (mem_cands I rep _).mpr ⟨hj, (isCand_iff I rep _).mpr ?_⟩, rfl, rfl, rfl⟩
  exact ⟨hu, hu', hne, no_conflict_of_ks I htf rep hsub ⟨w, hw⟩ hne⟩

theorem gt_prob_le {prio : Nat → Nat} {x y : IRow} (h : gt prio x y = true) : prob y ≤ prob x := by
  simp only [gt, Bool.or_eq_true, Bool.and_eq_true, decide_eq_true_eq, beq_iff_eq] at h
  omega

/-- A row that is rank 1 in the window of group `side x` beats every other candidate row of
that group. -/
theorem rank1_le {rep : Reps} {side : IRow → Nat} {prio : Nat → Nat} {cs : List IRow} {x y : IRow}
    (h : rank1 rep side prio cs x = true) (hy : y ∈ cs)
    (hs : repOf rep (side y) = repOf rep (side x)) : prob y ≤ prob x := by
  unfold rank1 at h
  have := List.all_eq_true.mp h y hy
  simp only [Bool.or_eq_true, bne_iff_ne, ne_eq, beq_iff_eq] at this
  rcases this with (h1 | h1) | h1
  · exact absurd hs h1
  · subst h1; exact Nat.le_refl _
  · exact gt_prob_le h1

/-- Key lemma: an accepted row joins two records of one Kruskal cluster. -/
theorem accepted_same (I : Inst) (oL oR : Oracle) (k : Nat) (rep : Reps) (htf : TieFree I)
    (hsub : Sub I rep) (x : IRow) (hx : x ∈ accepted I oL oR k rep) :
    Reach (adjOf (KS I)) (node x) (nbr x) := by
  obtain ⟨hc, hrl, hrr⟩ := (mem_accepted I oL oR k rep x).mp hx
  obtain ⟨hxr, hxc⟩ := (mem_cands I rep x).mp hc
  obtain ⟨hn1, hn2, hrne, hconf⟩ := (isCand_iff I rep x).mp hxc
  apply Classical.byContradiction
  intro hnot
  have hE : E I (node x) (nbr x) (prob x) := ⟨mem_indexFrom_fst _ _ _ hxr, hn1, hn2⟩
  obtain ⟨p, q, hp, hq, r1, r2, hds, hmem⟩ := ks_clash I hE hnot
  by_cases h1 : repOf rep p = repOf rep (node x)
  · by_cases h2 : repOf rep q = repOf rep (nbr x)
    · -- the two groups clash: the row is not a candidate
      have : conflict I rep (repOf rep (node x)) (repOf rep (nbr x)) = true := by
        rw [conflict_iff]
        refine ⟨I.ds p, hmem, ?_, ?_⟩
        · rw [containsFlag_iff]; exact ⟨p, hp, h1, rfl⟩
        · rw [containsFlag_iff]; exact ⟨q, hq, h2, hds.symm⟩
      rw [this] at hconf
      cases hconf
    · -- the path from `nbr x` to `q` leaves the group of `nbr x` through a heavier edge
      obtain ⟨u, u', ⟨w', hw', hks⟩, hu, hu'⟩ :=
        reach_cross (fun z => repOf rep z = repOf rep (nbr x)) r2 rfl h2
      obtain ⟨y, hy, hy1, hy2, hy3⟩ := ks_row_cand I htf rep hsub (KS_symm hks)
        (fun h => hu' (h.trans hu))
      have := rank1_le hrr hy (by show repOf rep (nbr y) = _; rw [hy2]; exact hu)
      omega
  · obtain ⟨u, u', ⟨w', hw', hks⟩, hu, hu'⟩ :=
      reach_cross (fun z => repOf rep z = repOf rep (node x)) r1 rfl h1
    obtain ⟨y, hy, hy1, hy2, hy3⟩ := ks_row_cand I htf rep hsub hks
      (fun h => hu' (h.symm.trans hu))
    have := rank1_le hrl hy (by show repOf rep (node y) = _; rw [hy1]; exact hu)
    omega

theorem sub_step (I : Inst) (oL oR : Oracle) (htf : TieFree I) (k : Nat) (rep : Reps)
    (hsub : Sub I rep) : Sub I (step I oL oR k rep) := by
  -- every record has a witness in its Kruskal cluster that carried its new label before
  have wit : ∀ u, u < I.n → ∃ u', u' < I.n ∧ repOf rep u' = repOf (step I oL oR k rep) u ∧
      Reach (adjOf (KS I)) u u' := by
    intro u hu
    rw [repOf_step I oL oR k rep u hu]
    rcases newRep_cases rep (accepted I oL oR k rep) u with h | ⟨x, hx, hxn, hxe⟩
    · exact ⟨u, hu, h.symm, Reach.refl _⟩
    · have hr := accepted_same I oL oR k rep htf hsub x hx
      obtain ⟨hc, _, _⟩ := (mem_accepted I oL oR k rep x).mp hx
      obtain ⟨_, hxc⟩ := (mem_cands I rep x).mp hc
      obtain ⟨_, hn2, _, _⟩ := (isCand_iff I rep x).mp hxc
      rw [hxn] at hr
      exact ⟨nbr x, hn2, hxe.symm, hr⟩
  intro u v hu hv h
  obtain ⟨u', hu', hue, hur⟩ := wit u hu
  obtain ⟨v', hv', hve, hvr⟩ := wit v hv
  have := hsub u' v' hu' hv' (by rw [hue, hve, h])
  exact reach_trans (reach_trans hur this) (reach_symm (adjKS_symm I) hvr)

theorem run_sub (I : Inst) (oL oR : Oracle) (htf : TieFree I) : Sub I (run I oL oR).rep :=
  loop_inv I oL oR (Sub I) (fun k rep h => sub_step I oL oR htf k rep h) _ _ _ (sub_initial I)

/-! ## The exit state -/

/-- Without candidate rows, Kruskal clusters lie inside groups. -/
theorem same_rep_of_ks (I : Inst) (htf : TieFree I) (rep : Reps) (hsub : Sub I rep)
    (hnc : cands I rep = []) {u v : Nat} (hr : Reach (adjOf (KS I)) u v) :
    repOf rep u = repOf rep v := by
  induction hr with
  | refl => rfl
  | tail hij hjk ih =>
    rename_i j k'
    rw [ih]
    apply Classical.byContradiction
    intro hne
    obtain ⟨w, hw⟩ := hjk
    obtain ⟨y, hy, _⟩ := ks_row_cand I htf rep hsub hw hne
    rw [hnc] at hy
    cases hy

theorem connected_of_sub (I : Inst) (htf : TieFree I) (rep : Reps) (hsub : Sub I rep)
    (hnc : cands I rep = []) : Connected I rep := by
  have walk : ∀ u v, Reach (adjOf (KS I)) u v →
      Reach (fun a b => adjB I rep a b = true) u v := by
    intro u v hr
    induction hr with
    | refl => exact Reach.refl _
    | tail hij hjk ih =>
      rename_i j k'
      refine Reach.tail ih ?_
      have hsame := same_rep_of_ks I htf rep hsub hnc (reach_single hjk)
      obtain ⟨w, hw⟩ := hjk
      obtain ⟨_, hj, hk'⟩ := KS_E hw
      obtain ⟨i, hi⟩ := E_row (KS_E hw)
      exact (adjB_of_row I rep ((j, k', w), i) hi hj hk' hsame).1
  intro u v hu hv huv
  exact walk u v (hsub u v hu hv huv)

/-- The returned partition of a tie-free input is the partition into constrained Kruskal
clusters. -/
theorem run_eq_kruskal (I : Inst) (oL oR : Oracle) (htf : TieFree I) (u v : Nat) (hu : u < I.n)
    (hv : v < I.n) :
    repOf (run I oL oR).rep u = repOf (run I oL oR).rep v ↔ Reach (adjOf (KS I)) u v :=
  ⟨run_sub I oL oR htf u v hu hv,
    same_rep_of_ks I htf _ (run_sub I oL oR htf)
      (no_cands_of_fix I oL oR _ _ htf (run_fix I oL oR))⟩

/-- Corollary: on a tie-free input the returned partition does not depend on the oracles. -/
theorem partition_oracle_independent (I : Inst) (oL oR oL' oR' : Oracle) (htf : TieFree I)
    (u v : Nat) (hu : u < I.n) (hv : v < I.n) :
    repOf (run I oL oR).rep u = repOf (run I oL oR).rep v ↔
      repOf (run I oL' oR').rep u = repOf (run I oL' oR').rep v :=
  (run_eq_kruskal I oL oR htf u v hu hv).trans (run_eq_kruskal I oL' oR' htf u v hu hv).symm

/-- With pairwise distinct probabilities every returned cluster is connected through kept
edges inside the cluster, for every pair of tie-break oracles. -/
theorem connected_tie_free (I : Inst) (oL oR : Oracle) (htf : TieFree I) :
    Connected I (run I oL oR).rep :=
  connected_of_sub I htf _ (run_sub I oL oR htf)
    (no_cands_of_fix I oL oR _ _ htf (run_fix I oL oR))

end SplinkVerif.Lemmas.O2O
