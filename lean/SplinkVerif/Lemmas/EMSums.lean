import SplinkVerif.Model.EM
import SplinkVerif.Lemmas.Score
import SplinkVerif.Lemmas.Blocking
import Mathlib.Algebra.BigOperators.Group.List.Basic
/-!
# Helper lemmas for C03 (EM): the M-step as list sums over `ℝ`

* `sumBy_eq`, `mCount_eq`, `uCount_eq`, `denomM_eq`, `denomU_eq`: the folds are list sums;
* `sum_groups`: a sum over the groups of a duplicate-free key list is the sum over the rows
  whose key is in the list;
* `newM_newU_eq`, `lambdaNew_eq`, `new_sums_to_one`, `new_none_of_unobserved`.
-/
namespace SplinkVerif.Lemmas.EM
open SplinkVerif SplinkVerif.Score SplinkVerif.EM SplinkVerif.Lemmas.Score

/-! ## Folds are sums -/

theorem foldl_add_eq {β : Type} (l : List β) (g : β → ℝ) (a : ℝ) :
    l.foldl (fun acc r => Num.add acc (g r)) a = a + (l.map g).sum := by
  induction l generalizing a with
  | nil => simp
  | cons x l ih =>
    rw [List.foldl_cons, ih, List.map_cons, List.sum_cons, num_add]
    ring

theorem sumBy_eq (rows : List (Row ℝ)) (f : Row ℝ → ℝ) : sumBy rows f = (rows.map f).sum := by
  unfold sumBy
  rw [foldl_add_eq]
  simp

theorem mCount_eq (θ : Params ℝ) (rows : List (Row ℝ)) (ci : Nat) (v : Int) :
    mCount θ rows ci v =
      ((rows.filter fun r => gammaAt θ r ci == some v).map
        fun r => eProb θ r * (r.count : ℝ)).sum := by
  unfold mCount
  rw [sumBy_eq]
  rfl

theorem uCount_eq (θ : Params ℝ) (rows : List (Row ℝ)) (ci : Nat) (v : Int) :
    uCount θ rows ci v =
      ((rows.filter fun r => gammaAt θ r ci == some v).map
        fun r => (1 - eProb θ r) * (r.count : ℝ)).sum := by
  unfold uCount
  rw [sumBy_eq]
  rfl

theorem denomM_eq (θ : Params ℝ) (rows : List (Row ℝ)) (ci : Nat) :
    denomM θ rows ci = ((observedValues θ rows ci).map (mCount θ rows ci)).sum := by
  unfold denomM
  rw [foldl_add_eq]
  simp

theorem denomU_eq (θ : Params ℝ) (rows : List (Row ℝ)) (ci : Nat) :
    denomU θ rows ci = ((observedValues θ rows ci).map (uCount θ rows ci)).sum := by
  unfold denomU
  rw [foldl_add_eq]
  simp

/-! ## Grouping -/

theorem sum_filter_or {β : Type} (xs : List β) (p q : β → Bool) (f : β → ℝ)
    (hd : ∀ x ∈ xs, p x = true → q x = true → False) :
    ((xs.filter fun x => p x || q x).map f).sum =
      ((xs.filter p).map f).sum + ((xs.filter q).map f).sum := by
  induction xs with
  | nil => simp
  | cons a xs ih =>
    have ih' := ih fun x hx => hd x (List.mem_cons_of_mem _ hx)
    have ha := hd a (List.mem_cons_self ..)
    cases hp : p a <;> cases hq : q a
    · simp only [List.filter_cons, hp, hq, Bool.or_self, Bool.false_eq_true, if_false, ih']
    · simp only [List.filter_cons, hp, hq, Bool.or_true, Bool.false_eq_true, if_false, if_true,
        List.map_cons, List.sum_cons, ih']
      ring
    · simp only [List.filter_cons, hp, hq, Bool.or_false, Bool.false_eq_true, if_false, if_true,
        List.map_cons, List.sum_cons, ih']
      ring
    · exact absurd (ha hp hq) id

/-- The sum, over a duplicate-free list of key values, of the group sums is the sum over the
rows whose key is one of these values. -/
theorem sum_groups {β : Type} (xs : List β) (key : β → Option Int) (f : β → ℝ)
    (ks : List Int) (hn : ks.Nodup) :
    (ks.map fun k => ((xs.filter fun x => key x == some k).map f).sum).sum =
      ((xs.filter fun x => ks.any fun k => key x == some k).map f).sum := by
  induction ks with
  | nil => simp
  | cons k ks ih =>
    rw [List.nodup_cons] at hn
    simp only [List.map_cons, List.sum_cons, List.any_cons, ih hn.2]
    rw [sum_filter_or]
    intro x _ h1 h2
    rw [List.any_eq_true] at h2
    obtain ⟨k', hk', h3⟩ := h2
    have e1 : key x = some k := by simpa using h1
    have e2 : key x = some k' := by simpa using h3
    rw [e1] at e2
    exact hn.1 (by rw [Option.some.inj e2]; exact hk')

/-! ## `observedValues` -/

theorem mem_observedValues (θ : Params ℝ) (rows : List (Row ℝ)) (ci : Nat) (v : Int) :
    v ∈ observedValues θ rows ci ↔ (∃ r ∈ rows, gammaAt θ r ci = some v) ∧ v ≠ -1 := by
  unfold observedValues
  rw [List.mem_eraseDups, List.mem_filter, List.mem_filterMap]
  simp

theorem nodup_observedValues (θ : Params ℝ) (rows : List (Row ℝ)) (ci : Nat) :
    (observedValues θ rows ci).Nodup :=
  Blk.nodup_eraseDups _ _ (Nat.le_refl _)

/-- the `nonNullRows` predicate -/
def nonNull (θ : Params ℝ) (ci : Nat) (r : Row ℝ) : Bool :=
  match gammaAt θ r ci with | some v => v != -1 | none => false

theorem filter_observed (θ : Params ℝ) (rows : List (Row ℝ)) (ci : Nat) :
    (rows.filter fun r => (observedValues θ rows ci).any fun k => gammaAt θ r ci == some k) =
      rows.filter (nonNull θ ci) := by
  apply List.filter_congr
  intro r hr
  unfold nonNull
  cases hg : gammaAt θ r ci with
  | none => simp
  | some v =>
    rw [Bool.eq_iff_iff, List.any_eq_true]
    constructor
    · rintro ⟨k, hk, hkv⟩
      have : v = k := by simpa using hkv
      subst this
      have := ((mem_observedValues θ rows ci v).mp hk).2
      simpa using this
    · intro h
      refine ⟨v, (mem_observedValues θ rows ci v).mpr ⟨⟨r, hr, hg⟩, by simpa using h⟩, by simp⟩

theorem denomM_rows (θ : Params ℝ) (rows : List (Row ℝ)) (ci : Nat) :
    denomM θ rows ci =
      ((rows.filter (nonNull θ ci)).map fun r => eProb θ r * (r.count : ℝ)).sum := by
  rw [denomM_eq, List.map_congr_left (fun v _ => mCount_eq θ rows ci v),
    sum_groups rows (fun r => gammaAt θ r ci) _ _ (nodup_observedValues θ rows ci),
    filter_observed]

theorem denomU_rows (θ : Params ℝ) (rows : List (Row ℝ)) (ci : Nat) :
    denomU θ rows ci =
      ((rows.filter (nonNull θ ci)).map fun r => (1 - eProb θ r) * (r.count : ℝ)).sum := by
  rw [denomU_eq, List.map_congr_left (fun v _ => uCount_eq θ rows ci v),
    sum_groups rows (fun r => gammaAt θ r ci) _ _ (nodup_observedValues θ rows ci),
    filter_observed]

/-! ## The statements -/

theorem newM_of_mem (θ : Params ℝ) (rows : List (Row ℝ)) (ci : Nat) (v : Int)
    (h : v ∈ observedValues θ rows ci) :
    newM θ rows ci v = some (mCount θ rows ci v / denomM θ rows ci) := by
  unfold newM
  rw [if_pos (List.contains_iff_mem.mpr h)]
  rfl

theorem newU_of_mem (θ : Params ℝ) (rows : List (Row ℝ)) (ci : Nat) (v : Int)
    (h : v ∈ observedValues θ rows ci) :
    newU θ rows ci v = some (uCount θ rows ci v / denomU θ rows ci) := by
  unfold newU
  rw [if_pos (List.contains_iff_mem.mpr h)]
  rfl

theorem newM_of_not_mem (θ : Params ℝ) (rows : List (Row ℝ)) (ci : Nat) (v : Int)
    (h : v ∉ observedValues θ rows ci) : newM θ rows ci v = none := by
  unfold newM
  rw [if_neg (fun hc => h (List.contains_iff_mem.mp hc))]

theorem newU_of_not_mem (θ : Params ℝ) (rows : List (Row ℝ)) (ci : Nat) (v : Int)
    (h : v ∉ observedValues θ rows ci) : newU θ rows ci v = none := by
  unfold newU
  rw [if_neg (fun hc => h (List.contains_iff_mem.mp hc))]

theorem newM_newU_eq (θ : Params ℝ) (rows : List (Row ℝ)) (ci : Nat) (v : Int)
    (hv : v ≠ -1) (hobs : ∃ r ∈ rows, gammaAt θ r ci = some v) :
    newM θ rows ci v =
      some (((rows.filter fun r => gammaAt θ r ci == some v).map
              fun r => eProb θ r * (r.count : ℝ)).sum /
            ((rows.filter fun r => match gammaAt θ r ci with | some v => v != -1 | none => false).map
              fun r => eProb θ r * (r.count : ℝ)).sum) ∧
    newU θ rows ci v =
      some (((rows.filter fun r => gammaAt θ r ci == some v).map
              fun r => (1 - eProb θ r) * (r.count : ℝ)).sum /
            ((rows.filter fun r => match gammaAt θ r ci with | some v => v != -1 | none => false).map
              fun r => (1 - eProb θ r) * (r.count : ℝ)).sum) := by
  have hmem : v ∈ observedValues θ rows ci := (mem_observedValues θ rows ci v).mpr ⟨hobs, hv⟩
  constructor
  · rw [newM_of_mem θ rows ci v hmem, mCount_eq, denomM_rows]
    rfl
  · rw [newU_of_mem θ rows ci v hmem, uCount_eq, denomU_rows]
    rfl

theorem lambdaNew_eq (θ : Params ℝ) (rows : List (Row ℝ)) :
    lambdaNew θ rows =
      (rows.map fun r => eProb θ r * (r.count : ℝ)).sum / (rows.map fun r => (r.count : ℝ)).sum := by
  unfold lambdaNew
  rw [sumBy_eq, sumBy_eq]
  rfl

theorem sum_map_div {β : Type} (l : List β) (g : β → ℝ) (d : ℝ) :
    (l.map fun v => g v / d).sum = (l.map g).sum / d := by
  induction l with
  | nil => simp
  | cons a l ih => simp only [List.map_cons, List.sum_cons, ih, add_div]

theorem new_sums_to_one (θ : Params ℝ) (rows : List (Row ℝ)) (ci : Nat)
    (hm : denomM θ rows ci ≠ 0) (hu : denomU θ rows ci ≠ 0) :
    ((observedValues θ rows ci).map fun v => (newM θ rows ci v).getD 0).sum = 1 ∧
    ((observedValues θ rows ci).map fun v => (newU θ rows ci v).getD 0).sum = 1 := by
  constructor
  · rw [List.map_congr_left (g := fun v => mCount θ rows ci v / denomM θ rows ci)
      (fun v hv => by rw [newM_of_mem θ rows ci v hv]; rfl), sum_map_div, ← denomM_eq, div_self hm]
  · rw [List.map_congr_left (g := fun v => uCount θ rows ci v / denomU θ rows ci)
      (fun v hv => by rw [newU_of_mem θ rows ci v hv]; rfl), sum_map_div, ← denomU_eq, div_self hu]

theorem new_none_of_unobserved (θ : Params ℝ) (rows : List (Row ℝ)) (ci : Nat) (v : Int)
    (h : ∀ r ∈ rows, gammaAt θ r ci ≠ some v) :
    newM θ rows ci v = none ∧ newU θ rows ci v = none := by
  have hn : v ∉ observedValues θ rows ci := by
    intro hc
    obtain ⟨⟨r, hr, hg⟩, _⟩ := (mem_observedValues θ rows ci v).mp hc
    exact h r hr hg
  exact ⟨newM_of_not_mem θ rows ci v hn, newU_of_not_mem θ rows ci v hn⟩

end SplinkVerif.Lemmas.EM
