import SplinkVerif.Model.EM
import SplinkVerif.Lemmas.Score
/-!
# Helper lemmas for C03 (EM): `median`

`foldr insertAsc []` is insertion sort: a sorted permutation of its input, so it only
depends on the multiset of the input.
-/
namespace SplinkVerif.Lemmas.EM
open SplinkVerif SplinkVerif.Score SplinkVerif.EM SplinkVerif.Lemmas.Score

theorem insertAsc_nil (x : ℝ) : insertAsc x [] = [x] := rfl

theorem insertAsc_cons (x y : ℝ) (ys : List ℝ) :
    insertAsc x (y :: ys) = if x ≤ y then x :: y :: ys else y :: insertAsc x ys := by
  simp [insertAsc]

theorem insertAsc_perm (x : ℝ) : ∀ l : List ℝ, (insertAsc x l).Perm (x :: l)
  | [] => List.Perm.refl _
  | y :: ys => by
    rw [insertAsc_cons]
    split
    · exact List.Perm.refl _
    · exact ((insertAsc_perm x ys).cons y).trans (List.Perm.swap x y ys)

theorem insertAsc_sorted (x : ℝ) :
    ∀ l : List ℝ, l.Pairwise (· ≤ ·) → (insertAsc x l).Pairwise (· ≤ ·)
  | [], _ => by simp [insertAsc_nil]
  | y :: ys, h => by
    rw [insertAsc_cons]
    rw [List.pairwise_cons] at h
    split
    · next hxy =>
      rw [List.pairwise_cons]
      refine ⟨?_, List.pairwise_cons.mpr h⟩
      intro z hz
      rcases List.mem_cons.mp hz with rfl | hz
      · exact hxy
      · exact le_trans hxy (h.1 z hz)
    · next hxy =>
      have hyx : y ≤ x := le_of_lt (not_le.mp hxy)
      rw [List.pairwise_cons]
      refine ⟨?_, insertAsc_sorted x ys h.2⟩
      intro z hz
      rcases List.mem_cons.mp ((insertAsc_perm x ys).subset hz) with rfl | hz
      · exact hyx
      · exact h.1 z hz

theorem sort_perm : ∀ l : List ℝ, (l.foldr insertAsc []).Perm l
  | [] => List.Perm.refl _
  | x :: xs => by
    rw [List.foldr_cons]
    exact (insertAsc_perm x _).trans ((sort_perm xs).cons x)

theorem sort_sorted : ∀ l : List ℝ, (l.foldr insertAsc []).Pairwise (· ≤ ·)
  | [] => List.Pairwise.nil
  | x :: xs => by
    rw [List.foldr_cons]
    exact insertAsc_sorted x _ (sort_sorted xs)

theorem sort_eq_of_perm (xs ys : List ℝ) (h : xs.Perm ys) :
    xs.foldr insertAsc [] = ys.foldr insertAsc [] :=
  List.Perm.eq_of_pairwise (fun _ _ _ _ hab hba => le_antisymm hab hba)
    (sort_sorted xs) (sort_sorted ys)
    ((sort_perm xs).trans (h.trans (sort_perm ys).symm))

theorem median_perm (xs ys : List ℝ) (h : xs.Perm ys) : median xs = median ys := by
  unfold median
  rw [sort_eq_of_perm xs ys h]

theorem median_singleton (x : ℝ) : median [x] = some x := by
  simp [median, insertAsc]

theorem median_pair (x y : ℝ) : median [x, y] = some ((x + y) / 2) := by
  unfold median
  simp only [List.foldr_cons, List.foldr_nil, insertAsc_nil, insertAsc_cons]
  split
  · simp
  · simp [add_comm]

theorem median_triple (x y z : ℝ) (h1 : x ≤ y) (h2 : y ≤ z) : median [z, x, y] = some y := by
  have hs : [z, x, y].foldr insertAsc [] = [x, y, z] := by
    have hp : ([x, y, z] : List ℝ).Perm [z, x, y] := by
      have : ([z, x, y] : List ℝ) = [z] ++ [x, y] := rfl
      rw [this]
      exact (List.perm_append_comm (l₁ := [x, y]) (l₂ := [z]))
    have hsorted : ([x, y, z] : List ℝ).Pairwise (· ≤ ·) := by
      simp only [List.pairwise_cons, List.mem_cons, List.not_mem_nil, or_false, forall_eq_or_imp,
        forall_eq, false_imp_iff, implies_true, and_true, List.Pairwise.nil]
      exact ⟨⟨h1, le_trans h1 h2⟩, h2⟩
    exact List.Perm.eq_of_pairwise (fun _ _ _ _ hab hba => le_antisymm hab hba)
      (sort_sorted _) hsorted ((sort_perm _).trans hp.symm)
  unfold median
  rw [hs]
  simp

end SplinkVerif.Lemmas.EM
