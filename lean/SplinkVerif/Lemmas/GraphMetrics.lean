import SplinkVerif.Model.GraphMetrics
import Mathlib.Data.List.Nodup
import Mathlib.Data.List.Perm.Subperm
import Mathlib.Tactic.Linarith
import Mathlib.Tactic.Ring
/-!
# Helper lemmas for C19 (graph metrics)

Facts about `Model/GraphMetrics.lean`: degree as a count of incident edge rows,
the handshake identity per cluster, the closed forms of the cluster row, the
ranges of the normalised metrics on simple graphs, and the round trip through
the integer relabelling used for igraph.
-/
namespace SplinkVerif.Lemmas.GM
open SplinkVerif SplinkVerif.GraphMetrics

/-! ## Definitions the statements are phrased with -/

/-- Records of cluster `c`. -/
def members (n : Nat) (cid : Nat → Nat) (c : Nat) : List Nat :=
  (List.range n).filter fun j => cid j == c

/-- Edge rows with both endpoints in cluster `c`. -/
def edgesIn (cid : Nat → Nat) (c : Nat) (es : List Edge) : List Edge :=
  es.filter fun e => cid e.1 == c && cid e.2 == c

/-- The clustering is consistent with the kept edges: endpoints are records and share a cluster. -/
def Consistent (n : Nat) (cid : Nat → Nat) (es : List Edge) : Prop :=
  ∀ e ∈ es, e.1 < n ∧ e.2 < n ∧ cid e.1 = cid e.2

/-- Edges are distinct as unordered pairs and there is no self loop: no ordered pair occurs twice
among the rows and their reversals. -/
def Simple (es : List Edge) : Prop := (allNodes es).Nodup

/-- `f` stands for the rational `a / b`. -/
def IsQuot (f : Frac) (a : Int) (b : Nat) : Prop :=
  f.den ≠ 0 ∧ b ≠ 0 ∧ f.num * (b : Int) = a * (f.den : Int)

/-! ## Degree -/

theorem nodeDegree_eq (es : List Edge) (i : Nat) :
    nodeDegree es i = (es.filter fun e => e.1 == i).length + (es.filter fun e => e.2 == i).length := by
  unfold nodeDegree allNodes
  simp [List.filter_append, List.filter_map, Function.comp_def]

theorem nodeDegree_nil (i : Nat) : nodeDegree [] i = 0 := by simp [nodeDegree_eq]

theorem nodeDegree_cons (e : Edge) (es : List Edge) (i : Nat) :
    nodeDegree (e :: es) i =
      nodeDegree es i + ((if e.1 = i then 1 else 0) + (if e.2 = i then 1 else 0)) := by
  simp only [nodeDegree_eq, List.filter_cons]
  by_cases h1 : e.1 = i <;> by_cases h2 : e.2 = i <;> simp [h1, h2] <;> omega

theorem nodeDegree_incident (es : List Edge) (i : Nat) (h : ∀ e ∈ es, e.1 ≠ e.2) :
    nodeDegree es i = (es.filter fun e => e.1 == i || e.2 == i).length := by
  induction es with
  | nil => simp [nodeDegree_nil]
  | cons e t ih =>
    have ht : ∀ e ∈ t, e.1 ≠ e.2 := fun x hx => h x (List.mem_cons_of_mem _ hx)
    have he : e.1 ≠ e.2 := h e (List.mem_cons_self ..)
    rw [nodeDegree_cons, ih ht, List.filter_cons]
    by_cases h1 : e.1 = i <;> by_cases h2 : e.2 = i <;> simp [h1, h2]
    exact he (h1.trans h2.symm)

/-! ## Sums over a cluster -/

theorem sum_map_add (l : List Nat) (f g : Nat → Nat) :
    (l.map fun i => f i + g i).sum = (l.map f).sum + (l.map g).sum := by
  induction l with
  | nil => simp
  | cons a t ih => simp [ih]; omega

theorem mem_members {n : Nat} {cid : Nat → Nat} {c i : Nat} :
    i ∈ members n cid c ↔ i < n ∧ cid i = c := by
  simp [members]

theorem members_nodup (n : Nat) (cid : Nat → Nat) (c : Nat) : (members n cid c).Nodup :=
  List.Nodup.filter _ List.nodup_range

theorem sum_indicator_nodup (l : List Nat) (hl : l.Nodup) (a : Nat) :
    (l.map fun i => if a = i then 1 else 0).sum = if a ∈ l then 1 else 0 := by
  induction l with
  | nil => simp
  | cons x t ih =>
    have hx : x ∉ t := (List.nodup_cons.mp hl).1
    have ht := ih (List.nodup_cons.mp hl).2
    simp only [List.map_cons, List.sum_cons, ht, List.mem_cons]
    by_cases h : a = x
    · subst h; simp [hx]
    · by_cases h2 : a ∈ t <;> simp [h, h2]

theorem sum_indicator_members (n : Nat) (cid : Nat → Nat) (c a : Nat) :
    ((members n cid c).map fun i => if a = i then 1 else 0).sum =
      if a < n ∧ cid a = c then 1 else 0 := by
  rw [sum_indicator_nodup _ (members_nodup n cid c)]
  simp [mem_members]

/-- Handshake identity on one cluster. -/
theorem handshake (n : Nat) (cid : Nat → Nat) (es : List Edge) (c : Nat)
    (hC : Consistent n cid es) :
    ((members n cid c).map (nodeDegree es)).sum = 2 * (edgesIn cid c es).length := by
  induction es with
  | nil =>
    have h0 : nodeDegree [] = fun _ => 0 := funext nodeDegree_nil
    simp [h0, edgesIn]
  | cons e t ih =>
    have hCt : Consistent n cid t := fun x hx => hC x (List.mem_cons_of_mem _ hx)
    obtain ⟨h1, h2, h12⟩ := hC e (List.mem_cons_self ..)
    have := ih hCt
    have hcons : nodeDegree (e :: t) = fun i =>
        nodeDegree t i + ((if e.1 = i then 1 else 0) + (if e.2 = i then 1 else 0)) :=
      funext (nodeDegree_cons e t)
    rw [hcons]
    rw [sum_map_add, sum_map_add, this, sum_indicator_members, sum_indicator_members]
    unfold edgesIn
    rw [List.filter_cons]
    by_cases hc : cid e.1 = c
    · have hc2 : cid e.2 = c := h12 ▸ hc
      simp [h1, h2, hc, hc2]; omega
    · have hc2 : ¬ cid e.2 = c := h12 ▸ hc
      simp [hc, hc2]

/-! ## The groups of the nodes table -/

theorem nodesTable_eq (n : Nat) (cid : Nat → Nat) (es : List Edge) :
    nodesTable n cid es = (List.range n).map fun i =>
      (⟨i, cid i, nodeDegree es i, nodeCentrality (nodeDegree es i) (clusterSize n cid i)⟩ : NodeRow) := by
  simp [nodesTable, nodeDegreeTable]

theorem clusterSize_eq (n : Nat) (cid : Nat → Nat) (i : Nat) :
    clusterSize n cid i = (members n cid (cid i)).length := rfl

theorem nodesTable_filter (n : Nat) (cid : Nat → Nat) (es : List Edge) (c : Nat) :
    (nodesTable n cid es).filter (fun r => r.cluster == c) = (members n cid c).map fun i =>
      (⟨i, cid i, nodeDegree es i, nodeCentrality (nodeDegree es i) (clusterSize n cid i)⟩ : NodeRow) := by
  rw [nodesTable_eq, List.filter_map]; rfl

/-- Closed form of the cluster row computed from the nodes table. -/
theorem clusterRow_nodesTable (n : Nat) (cid : Nat → Nat) (es : List Edge) (c : Nat) :
    clusterRow (nodesTable n cid es) c =
      let ms := members n cid c
      let k := ms.length
      let s := (ms.map (nodeDegree es)).sum
      let mx := (ms.map (nodeDegree es)).foldl max 0
      { cluster := c, nNodes := k, nEdges := ⟨s, 2⟩
        density := if k > 1 then some ⟨(s : Int) * 2, 2 * (k * (k - 1))⟩ else none
        centralisation :=
          if k > 2 then some ⟨(k : Int) * (mx : Int) - (s : Int), (k - 1) * (k - 2)⟩ else none } := by
  unfold clusterRow
  simp only [nodesTable_filter, sumDeg, maxDeg, List.length_map, List.map_map, Function.comp_def]

/-! ## Maximum -/

theorem foldl_max_ge (l : List Nat) (init : Nat) :
    init ≤ l.foldl max init ∧ ∀ x ∈ l, x ≤ l.foldl max init := by
  induction l generalizing init with
  | nil => simp
  | cons a t ih =>
    obtain ⟨h1, h2⟩ := ih (max init a)
    refine ⟨le_trans (Nat.le_max_left _ _) h1, ?_⟩
    intro x hx
    rcases List.mem_cons.mp hx with rfl | hx
    · exact le_trans (Nat.le_max_right _ _) h1
    · exact h2 x hx

theorem foldl_max_mem (l : List Nat) (init : Nat) :
    l.foldl max init = init ∨ l.foldl max init ∈ l := by
  induction l generalizing init with
  | nil => simp
  | cons a t ih =>
    rcases ih (max init a) with h | h
    · simp only [List.foldl_cons, h]
      rcases Nat.le_total init a with hia | hia
      · right; simp [Nat.max_eq_right hia]
      · left; exact Nat.max_eq_left hia
    · right; exact List.mem_cons_of_mem _ h

/-- `Σ (M - f i) = |l|·M - Σ f i` when `M` bounds every `f i`. -/
theorem sum_sub_eq (l : List Nat) (f : Nat → Nat) (M : Nat) (hM : ∀ i ∈ l, f i ≤ M) :
    (((l.map fun i => M - f i).sum : Nat) : Int) =
      (l.length : Int) * (M : Int) - (((l.map f).sum : Nat) : Int) := by
  induction l with
  | nil => simp
  | cons a t ih =>
    have ht := ih (fun i hi => hM i (List.mem_cons_of_mem _ hi))
    have ha := hM a (List.mem_cons_self ..)
    simp only [List.map_cons, List.sum_cons, List.length_cons]
    push_cast
    rw [ht, Int.ofNat_sub ha]
    ring

theorem sum_le_length_mul (l : List Nat) (f : Nat → Nat) (b : Nat) (h : ∀ i ∈ l, f i ≤ b) :
    (l.map f).sum ≤ l.length * b := by
  induction l with
  | nil => simp
  | cons a t ih =>
    have ht := ih (fun i hi => h i (List.mem_cons_of_mem _ hi))
    have ha := h a (List.mem_cons_self ..)
    simp only [List.map_cons, List.sum_cons, List.length_cons, Nat.succ_mul]
    omega

/-! ## Ranges on simple graphs -/

/-- The `neighbour` column of the `all_nodes` rows of record `i`. -/
def neighbours (es : List Edge) (i : Nat) : List Nat :=
  ((allNodes es).filter fun r => r.1 == i).map (·.2)

theorem neighbours_length (es : List Edge) (i : Nat) :
    (neighbours es i).length = nodeDegree es i := by
  simp [neighbours, nodeDegree]

theorem mem_neighbours {es : List Edge} {i x : Nat} :
    x ∈ neighbours es i ↔ (i, x) ∈ es ∨ (x, i) ∈ es := by
  simp only [neighbours, allNodes, List.mem_map, List.mem_filter, List.mem_append]
  constructor
  · rintro ⟨⟨a, b⟩, ⟨h | h, hi⟩, rfl⟩
    · obtain ⟨e, he, heq⟩ := h
      simp at hi heq; left; rcases e with ⟨p, q⟩; simp_all
    · obtain ⟨e, he, heq⟩ := h
      simp at hi heq; right; rcases e with ⟨p, q⟩; simp_all
  · rintro (h | h)
    · exact ⟨(i, x), ⟨Or.inl ⟨(i, x), h, rfl⟩, by simp⟩, rfl⟩
    · exact ⟨(i, x), ⟨Or.inr ⟨(x, i), h, rfl⟩, by simp⟩, rfl⟩

theorem neighbours_nodup {es : List Edge} (hS : Simple es) (i : Nat) : (neighbours es i).Nodup := by
  unfold neighbours
  refine List.Nodup.map_on ?_ (List.Nodup.filter _ hS)
  intro x hx y hy hxy
  have h1 := (List.mem_filter.mp hx).2
  have h2 := (List.mem_filter.mp hy).2
  simp at h1 h2
  exact Prod.ext (h1.trans h2.symm) hxy

theorem simple_no_loop {es : List Edge} (hS : Simple es) : ∀ e ∈ es, e.1 ≠ e.2 := by
  intro e he heq
  unfold Simple allNodes at hS
  have hd := (List.nodup_append.mp hS).2.2
  have h1 : (e.1, e.2) ∈ es.map (fun e => (e.1, e.2)) := List.mem_map.mpr ⟨e, he, rfl⟩
  have h2 : (e.1, e.2) ∈ es.map (fun e => (e.2, e.1)) :=
    List.mem_map.mpr ⟨e, he, by rw [heq]⟩
  exact hd _ h1 _ h2 rfl

/-- On a simple graph with a consistent clustering a record has at most `size - 1` neighbours. -/
theorem degree_le (n : Nat) (cid : Nat → Nat) (es : List Edge) (hS : Simple es)
    (hC : Consistent n cid es) (i : Nat) (hi : i < n) :
    nodeDegree es i ≤ clusterSize n cid i - 1 := by
  rw [← neighbours_length, clusterSize_eq]
  have himem : i ∈ members n cid (cid i) := mem_members.mpr ⟨hi, rfl⟩
  rw [← List.length_erase_of_mem himem]
  apply List.Nodup.length_le_of_subset (neighbours_nodup hS i)
  intro x hx
  have hloop := simple_no_loop hS
  rcases mem_neighbours.mp hx with h | h
  · obtain ⟨_, h2, h12⟩ := hC _ h
    have hne : x ≠ i := fun hxi => hloop _ h (by simpa using hxi.symm)
    exact (List.mem_erase_of_ne hne).mpr (mem_members.mpr ⟨h2, by simpa using h12.symm⟩)
  · obtain ⟨h1, _, h12⟩ := hC _ h
    have hne : x ≠ i := fun hxi => hloop _ h (by simpa using hxi)
    exact (List.mem_erase_of_ne hne).mpr (mem_members.mpr ⟨h1, by simpa using h12⟩)

/-- `Σ deg ≤ k (k-1)` on a simple graph with a consistent clustering. -/
theorem sumdeg_le (n : Nat) (cid : Nat → Nat) (es : List Edge) (hS : Simple es)
    (hC : Consistent n cid es) (c : Nat) :
    ((members n cid c).map (nodeDegree es)).sum ≤
      (members n cid c).length * ((members n cid c).length - 1) := by
  apply sum_le_length_mul
  intro i hi
  obtain ⟨hin, hic⟩ := mem_members.mp hi
  have := degree_le n cid es hS hC i hin
  rw [clusterSize_eq, hic] at this
  exact this

/-! ## The integer relabelling and the way back -/

theorem oldId_newId {order : List Nat} {v k : Nat} (h : newId order v = some k) :
    oldId order k = some v := by
  induction order generalizing k with
  | nil => simp [newId] at h
  | cons x t ih =>
    unfold newId at h
    by_cases hx : x = v
    · simp [hx] at h; subst h; simp [oldId, hx]
    · simp only [hx, if_false, Option.map_eq_some_iff] at h
      obtain ⟨k', hk', rfl⟩ := h
      have := ih hk'
      simpa [oldId] using this

theorem newId_isSome_of_mem {order : List Nat} {v : Nat} (h : v ∈ order) :
    ∃ k, newId order v = some k := by
  induction order with
  | nil => simp at h
  | cons x t ih =>
    unfold newId
    by_cases hx : x = v
    · exact ⟨0, by simp [hx]⟩
    · rcases List.mem_cons.mp h with rfl | ht
      · exact absurd rfl hx
      · obtain ⟨k, hk⟩ := ih ht
        exact ⟨k + 1, by simp [hx, hk]⟩

theorem newId_lt {order : List Nat} {v k : Nat} (h : newId order v = some k) : k < order.length := by
  have := oldId_newId h
  unfold oldId at this
  exact (List.getElem?_eq_some_iff.mp this).1

theorem newId_inj {order : List Nat} {a b k : Nat} (ha : newId order a = some k)
    (hb : newId order b = some k) : a = b := by
  have h1 := oldId_newId ha
  have h2 := oldId_newId hb
  rw [h1] at h2
  exact Option.some.inj h2

theorem newId_oldId {order : List Nat} (hnd : order.Nodup) {v k : Nat}
    (h : oldId order k = some v) : newId order v = some k := by
  have hv : v ∈ order := List.mem_of_getElem? h
  obtain ⟨k', hk'⟩ := newId_isSome_of_mem hv
  have h' := oldId_newId hk'
  unfold oldId at h h'
  have hlt : k' < order.length := (List.getElem?_eq_some_iff.mp h').1
  have : k' = k := (List.getElem?_inj hlt hnd).mp (h'.trans h.symm)
  rw [← this]; exact hk'

/-- The relabelling as a total function (0 outside `order`). -/
def relabel (order : List Nat) (e : Edge) : Nat × Nat :=
  ((newId order e.1).getD 0, (newId order e.2).getD 0)

theorem relabel_inj {order : List Nat} {e f : Edge} (he : e.1 ∈ order ∧ e.2 ∈ order)
    (hf : f.1 ∈ order ∧ f.2 ∈ order) (h : relabel order e = relabel order f) : e = f := by
  obtain ⟨a, ha⟩ := newId_isSome_of_mem he.1
  obtain ⟨b, hb⟩ := newId_isSome_of_mem he.2
  obtain ⟨a', ha'⟩ := newId_isSome_of_mem hf.1
  obtain ⟨b', hb'⟩ := newId_isSome_of_mem hf.2
  simp only [relabel, ha, hb, ha', hb', Option.getD_some, Prod.mk.injEq] at h
  obtain ⟨h1, h2⟩ := h
  subst h1; subst h2
  exact Prod.ext (newId_inj ha ha') (newId_inj hb hb')

theorem igraphInput_eq (order : List Nat) (es : List Edge)
    (hmem : ∀ e ∈ es, e.1 ∈ order ∧ e.2 ∈ order) :
    igraphInput (edgesForIgraph order es) = some (es.map (relabel order)) := by
  unfold igraphInput edgesForIgraph
  have hall : (es.map fun e => (newId order e.1, newId order e.2)).all
      (fun p => p.1.isSome && p.2.isSome) = true := by
    simp only [List.all_map, List.all_eq_true, Function.comp_def]
    intro e he
    obtain ⟨a, ha⟩ := newId_isSome_of_mem (hmem e he).1
    obtain ⟨b, hb⟩ := newId_isSome_of_mem (hmem e he).2
    simp [ha, hb]
  rw [if_pos hall]
  simp [relabel, Function.comp_def]

theorem back_relabel {order : List Nat} {e : Edge} (he : e.1 ∈ order ∧ e.2 ∈ order) :
    (oldId order (relabel order e).1, oldId order (relabel order e).2) = (some e.1, some e.2) := by
  obtain ⟨a, ha⟩ := newId_isSome_of_mem he.1
  obtain ⟨b, hb⟩ := newId_isSome_of_mem he.2
  simp [relabel, ha, hb, oldId_newId ha, oldId_newId hb]

theorem filter_beq_nodup {α : Type} [BEq α] [LawfulBEq α] (l : List α) (hl : l.Nodup) (a : α) :
    l.filter (fun r => r == a) = if a ∈ l then [a] else [] := by
  induction l with
  | nil => simp
  | cons x t ih =>
    have hx : x ∉ t := (List.nodup_cons.mp hl).1
    have ht := ih (List.nodup_cons.mp hl).2
    rw [List.filter_cons, ht]
    by_cases h : x = a
    · subst h; simp [hx]
    · have h' : ¬ a = x := fun h2 => h h2.symm
      by_cases h2 : a ∈ t <;> simp [h, h', h2]

theorem fullBridges_nodup (es : List Edge) (b : List (Option Nat × Option Nat)) (hb : b.Nodup) :
    fullBridges es b = es.map fun e => (e.1, e.2, decide ((some e.1, some e.2) ∈ b)) := by
  unfold fullBridges
  have key : ∀ e : Edge,
      (if (b.filter fun r => r == (some e.1, some e.2)).isEmpty = true then [(e.1, e.2, false)]
        else (b.filter fun r => r == (some e.1, some e.2)).map fun _ => (e.1, e.2, true)) =
      [(e.1, e.2, decide ((some e.1, some e.2) ∈ b))] := by
    intro e
    rw [filter_beq_nodup b hb]
    by_cases h : (some e.1, some e.2) ∈ b <;> simp [h]
  induction es with
  | nil => simp
  | cons e t ih =>
    rw [List.flatMap_cons, ih, List.map_cons]
    exact congrArg (· ++ _) (key e)

theorem mem_bridgeRows {bridges : List (Nat × Nat) → List Nat} {g : List (Nat × Nat)} {p : Nat × Nat} :
    p ∈ bridgeRows bridges g ↔ ∃ k ∈ bridges g, g[k]? = some p := by
  simp [bridgeRows, List.mem_filterMap]

theorem bridgeRows_nodup (bridges : List (Nat × Nat) → List Nat) (g : List (Nat × Nat))
    (hg : g.Nodup) (hB : (bridges g).Nodup) : (bridgeRows bridges g).Nodup := by
  unfold bridgeRows
  refine List.Nodup.filterMap ?_ hB
  intro a a' p hp hp'
  have h1 : g[a]? = some p := hp
  have h2 : g[a']? = some p := hp'
  have hlt : a < g.length := (List.getElem?_eq_some_iff.mp h1).1
  exact (List.getElem?_inj hlt hg).mp (h1.trans h2.symm)

/-- The edges table: one row per kept edge, flagged iff igraph reported the relabelled edge. -/
theorem edgesTable_eq (bridges : List (Nat × Nat) → List Nat) (order : List Nat) (es : List Edge)
    (hmem : ∀ e ∈ es, e.1 ∈ order ∧ e.2 ∈ order) (hnd : es.Nodup)
    (hB : ∀ g, (bridges g).Nodup) :
    edgesTable bridges order es = some (es.map fun e =>
      (e.1, e.2, decide (relabel order e ∈ bridgeRows bridges (es.map (relabel order))))) := by
  unfold edgesTable
  rw [igraphInput_eq order es hmem, Option.map_some]
  set g := es.map (relabel order) with hg
  have hgnd : g.Nodup :=
    List.Nodup.map_on (fun x hx y hy h => relabel_inj (hmem x hx) (hmem y hy) h) hnd
  have hR := bridgeRows_nodup bridges g hgnd (hB g)
  have hsub : ∀ p ∈ bridgeRows bridges g, ∃ e ∈ es, relabel order e = p := by
    intro p hp
    obtain ⟨k, _, hk⟩ := mem_bridgeRows.mp hp
    have : p ∈ g := List.mem_of_getElem? hk
    exact List.mem_map.mp this
  have hbnd : (bridgesOnly order (bridgeRows bridges g)).Nodup := by
    unfold bridgesOnly
    refine List.Nodup.map_on ?_ hR
    intro p hp q hq hpq
    obtain ⟨e, he, rfl⟩ := hsub p hp
    obtain ⟨f, hf, rfl⟩ := hsub q hq
    rw [back_relabel (hmem e he), back_relabel (hmem f hf)] at hpq
    simp only [Prod.mk.injEq, Option.some.injEq] at hpq
    rw [Prod.ext hpq.1 hpq.2]
  rw [fullBridges_nodup es _ hbnd]
  congr 1
  apply List.map_congr_left
  intro e he
  congr 2
  apply decide_eq_decide.mpr
  unfold bridgesOnly
  constructor
  · intro h
    obtain ⟨p, hp, hpe⟩ := List.mem_map.mp h
    obtain ⟨f, hf, rfl⟩ := hsub p hp
    rw [back_relabel (hmem f hf)] at hpe
    simp only [Prod.mk.injEq, Option.some.injEq] at hpe
    have : f = e := Prod.ext hpe.1 hpe.2
    rw [← this]; exact hp
  · intro h
    exact List.mem_map.mpr ⟨relabel order e, h, back_relabel (hmem e he)⟩

theorem bridge_flag_index (bridges : List (Nat × Nat) → List Nat) (order : List Nat) (es : List Edge)
    (hmem : ∀ e ∈ es, e.1 ∈ order ∧ e.2 ∈ order) (hnd : es.Nodup) (k : Nat) (hk : k < es.length) :
    relabel order es[k] ∈ bridgeRows bridges (es.map (relabel order)) ↔
      k ∈ bridges (es.map (relabel order)) := by
  have hgnd : (es.map (relabel order)).Nodup :=
    List.Nodup.map_on (fun x hx y hy h => relabel_inj (hmem x hx) (hmem y hy) h) hnd
  have hgk : (es.map (relabel order))[k]? = some (relabel order es[k]) := by
    simp [List.getElem?_map, List.getElem?_eq_getElem hk]
  rw [mem_bridgeRows]
  constructor
  · rintro ⟨k', hk', hg'⟩
    have hlt : k' < (es.map (relabel order)).length := (List.getElem?_eq_some_iff.mp hg').1
    have : k' = k := (List.getElem?_inj hlt hgnd).mp (hg'.trans hgk.symm)
    rw [← this]; exact hk'
  · intro h
    exact ⟨k, h, hgk⟩

/-! ## One row each -/

theorem nodup_eraseDups {α : Type} [BEq α] [LawfulBEq α] :
    ∀ (k : Nat) (l : List α), l.length ≤ k → l.eraseDups.Nodup
  | _, [], _ => by simp
  | 0, _ :: _, h => by simp at h
  | k + 1, a :: as, h => by
    rw [List.eraseDups_cons, List.nodup_cons]
    refine ⟨?_, nodup_eraseDups k _ ?_⟩
    · rw [List.mem_eraseDups, List.mem_filter]
      simp
    · have := List.length_filter_le (fun b => !b == a) as
      simp only [List.length_cons] at h
      omega

theorem nodes_one_row (n : Nat) (cid : Nat → Nat) (es : List Edge) :
    (nodesTable n cid es).map (·.node) = List.range n := by
  rw [nodesTable_eq, List.map_map]
  simp [Function.comp_def]

theorem nodes_row (n : Nat) (cid : Nat → Nat) (es : List Edge) (r : NodeRow) :
    r ∈ nodesTable n cid es ↔ r.node < n ∧ r = ⟨r.node, cid r.node, nodeDegree es r.node,
      nodeCentrality (nodeDegree es r.node) (clusterSize n cid r.node)⟩ := by
  rw [nodesTable_eq, List.mem_map]
  constructor
  · rintro ⟨i, hi, rfl⟩
    exact And.intro (List.mem_range.mp hi) rfl
  · rintro ⟨hlt, heq⟩
    exact ⟨r.node, List.mem_range.mpr hlt, heq.symm⟩

theorem clusterRow_cluster (rows : List NodeRow) (c : Nat) : (clusterRow rows c).cluster = c := rfl

theorem clusters_ids (rows : List NodeRow) :
    (clustersTable rows).map (·.cluster) = (rows.map (·.cluster)).eraseDups := by
  unfold clustersTable
  rw [List.map_map]
  conv => rhs; rw [← List.map_id ((rows.map (·.cluster)).eraseDups)]
  apply List.map_congr_left
  intro c _
  rfl

theorem clusters_one_row (n : Nat) (cid : Nat → Nat) (es : List Edge) :
    ((clustersTable (nodesTable n cid es)).map (·.cluster)).Nodup ∧
      ∀ c, c ∈ (clustersTable (nodesTable n cid es)).map (·.cluster) ↔ ∃ i, i < n ∧ cid i = c := by
  rw [clusters_ids]
  refine ⟨nodup_eraseDups _ _ (Nat.le_refl _), ?_⟩
  intro c
  rw [List.mem_eraseDups, nodesTable_eq, List.map_map]
  simp [Function.comp_def]

theorem clusters_row (rows : List NodeRow) (r : ClusterRow) (h : r ∈ clustersTable rows) :
    r = clusterRow rows r.cluster := by
  unfold clustersTable at h
  obtain ⟨c, _, rfl⟩ := List.mem_map.mp h
  rfl

theorem edges_one_row (bridges : List (Nat × Nat) → List Nat) (order : List Nat) (es : List Edge)
    (hmem : ∀ e ∈ es, e.1 ∈ order ∧ e.2 ∈ order) (hnd : es.Nodup)
    (hB : ∀ g, (bridges g).Nodup) :
    ∃ t, edgesTable bridges order es = some t ∧ t.map (fun r => (r.1, r.2.1)) = es := by
  refine ⟨_, edgesTable_eq bridges order es hmem hnd hB, ?_⟩
  rw [List.map_map]
  simp [Function.comp_def]

/-! ## Closed forms and ranges of the normalised metrics -/

theorem nodeCentrality_def (d s : Nat) :
    (s > 1 → IsQuot (nodeCentrality d s) d (s - 1) ∧ (d ≤ s - 1 → (nodeCentrality d s).num ≤ (nodeCentrality d s).den))
    ∧ (s ≤ 1 → nodeCentrality d s = ⟨0, 1⟩) := by
  unfold nodeCentrality IsQuot
  constructor
  · intro hs
    rw [if_pos hs]
    refine ⟨⟨?_, ?_, rfl⟩, ?_⟩
    · show s - 1 ≠ 0
      omega
    · omega
    · intro h
      show (d : Int) ≤ ((s - 1 : Nat) : Int)
      exact_mod_cast h
  · intro hs
    have : ¬ s > 1 := by omega
    simp [this]

theorem cluster_counts (n : Nat) (cid : Nat → Nat) (es : List Edge) (c : Nat)
    (hC : Consistent n cid es) :
    (clusterRow (nodesTable n cid es) c).nNodes = (members n cid c).length ∧
      IsQuot (clusterRow (nodesTable n cid es) c).nEdges ((edgesIn cid c es).length : Int) 1 := by
  rw [clusterRow_nodesTable]
  refine ⟨rfl, ?_⟩
  simp only [IsQuot, handshake n cid es c hC]
  refine ⟨by decide, by decide, ?_⟩
  push_cast; ring

theorem density_def (n : Nat) (cid : Nat → Nat) (es : List Edge) (c : Nat)
    (hC : Consistent n cid es) :
    let k := (members n cid c).length
    let E := (edgesIn cid c es).length
    (k > 1 → ∃ d, (clusterRow (nodesTable n cid es) c).density = some d ∧
        IsQuot d (2 * (E : Int)) (k * (k - 1)) ∧ 0 ≤ d.num ∧ (Simple es → d.num ≤ d.den)) ∧
    (k ≤ 1 → (clusterRow (nodesTable n cid es) c).density = none) := by
  intro k E
  rw [clusterRow_nodesTable]
  have hs := handshake n cid es c hC
  constructor
  · intro hk
    have hk' : (members n cid c).length > 1 := hk
    refine ⟨_, if_pos hk', ?_, ?_, ?_⟩
    · refine ⟨?_, ?_, ?_⟩
      · have : 0 < (members n cid c).length * ((members n cid c).length - 1) :=
          Nat.mul_pos (by omega) (by omega)
        show 2 * ((members n cid c).length * ((members n cid c).length - 1)) ≠ 0
        omega
      · have : 0 < k * (k - 1) := Nat.mul_pos (by omega) (by omega)
        omega
      · show ((((members n cid c).map (nodeDegree es)).sum : Nat) : Int) * 2 * ((k * (k - 1) : Nat) : Int)
          = 2 * (E : Int) * ((2 * ((members n cid c).length * ((members n cid c).length - 1)) : Nat) : Int)
        rw [hs]; push_cast; ring
    · show (0 : Int) ≤ ((((members n cid c).map (nodeDegree es)).sum : Nat) : Int) * 2
      positivity
    · intro hS
      have := sumdeg_le n cid es hS hC c
      show ((((members n cid c).map (nodeDegree es)).sum : Nat) : Int) * 2
        ≤ ((2 * ((members n cid c).length * ((members n cid c).length - 1)) : Nat) : Int)
      have h2 : ((members n cid c).map (nodeDegree es)).sum * 2 ≤
          2 * ((members n cid c).length * ((members n cid c).length - 1)) := by omega
      exact_mod_cast h2
  · intro hk
    have hk' : ¬ (members n cid c).length > 1 := by
      have : (members n cid c).length ≤ 1 := hk
      omega
    simp only [hk', if_false]

theorem sum_ge_of_pos (l : List Nat) (f : Nat → Nat) (v : Nat) (hv : v ∈ l)
    (h1 : ∀ i ∈ l, 1 ≤ f i) : f v + (l.length - 1) ≤ (l.map f).sum := by
  have hlen : ∀ t : List Nat, (∀ i ∈ t, 1 ≤ f i) → t.length ≤ (t.map f).sum := by
    intro t ht
    induction t with
    | nil => simp
    | cons a t ih =>
      have := ih (fun i hi => ht i (List.mem_cons_of_mem _ hi))
      have := ht a (List.mem_cons_self ..)
      simp only [List.map_cons, List.sum_cons, List.length_cons]; omega
  induction l with
  | nil => simp at hv
  | cons a t ih =>
    have ht1 : ∀ i ∈ t, 1 ≤ f i := fun i hi => h1 i (List.mem_cons_of_mem _ hi)
    simp only [List.map_cons, List.sum_cons, List.length_cons]
    rcases List.mem_cons.mp hv with rfl | hvt
    · have := hlen t ht1; omega
    · have := ih hvt ht1
      have := h1 a (List.mem_cons_self ..)
      have : 0 < t.length := List.length_pos_of_mem hvt
      omega

/-- Cluster centralisation is Freeman's degree centralisation `Σ (maxdeg − deg) / ((k−1)(k−2))`. -/
theorem centralisation_def (n : Nat) (cid : Nat → Nat) (es : List Edge) (c : Nat) :
    let ms := members n cid c
    let k := ms.length
    (k > 2 → ∃ z M, (clusterRow (nodesTable n cid es) c).centralisation = some z ∧
        (∀ i ∈ ms, nodeDegree es i ≤ M) ∧ (∃ i ∈ ms, nodeDegree es i = M) ∧
        IsQuot z (((ms.map fun i => M - nodeDegree es i).sum : Nat) : Int) ((k - 1) * (k - 2)) ∧
        0 ≤ z.num ∧
        (Simple es → Consistent n cid es → (∀ i ∈ ms, 1 ≤ nodeDegree es i) → z.num ≤ z.den)) ∧
    (k ≤ 2 → (clusterRow (nodesTable n cid es) c).centralisation = none) := by
  intro ms k
  rw [clusterRow_nodesTable]
  constructor
  · intro hk
    have hk' : (members n cid c).length > 2 := hk
    set M := (ms.map (nodeDegree es)).foldl max 0 with hM
    have hge : ∀ i ∈ ms, nodeDegree es i ≤ M := by
      intro i hi
      exact (foldl_max_ge (ms.map (nodeDegree es)) 0).2 _ (List.mem_map_of_mem hi)
    have hmem : ∃ i ∈ ms, nodeDegree es i = M := by
      rcases foldl_max_mem (ms.map (nodeDegree es)) 0 with h0 | hin
      · -- every degree is 0
        have hne : ms ≠ [] := by intro h; have : k = 0 := by simp [k, h]
                                 omega
        obtain ⟨i, hi⟩ := List.exists_mem_of_ne_nil ms hne
        refine ⟨i, hi, ?_⟩
        have := hge i hi
        rw [hM, h0] at this ⊢
        omega
      · obtain ⟨i, hi, hiM⟩ := List.mem_map.mp hin
        exact ⟨i, hi, hiM⟩
    have hsum := sum_sub_eq ms (nodeDegree es) M hge
    have hdenpos : 0 < (k - 1) * (k - 2) := Nat.mul_pos (by omega) (by omega)
    refine ⟨_, M, if_pos hk', hge, hmem, ⟨?_, ?_, ?_⟩, ?_, ?_⟩
    · show (k - 1) * (k - 2) ≠ 0
      omega
    · omega
    · show ((k : Int) * (M : Int) - (((ms.map (nodeDegree es)).sum : Nat) : Int)) * (((k - 1) * (k - 2) : Nat) : Int)
        = (((ms.map fun i => M - nodeDegree es i).sum : Nat) : Int) * (((k - 1) * (k - 2) : Nat) : Int)
      rw [hsum]
    · show (0 : Int) ≤ (k : Int) * (M : Int) - (((ms.map (nodeDegree es)).sum : Nat) : Int)
      rw [← hsum]; positivity
    · intro hS hC hpos
      show (k : Int) * (M : Int) - (((ms.map (nodeDegree es)).sum : Nat) : Int) ≤ (((k - 1) * (k - 2) : Nat) : Int)
      obtain ⟨v, hv, hvM⟩ := hmem
      have hlow := sum_ge_of_pos ms (nodeDegree es) v hv hpos
      rw [hvM] at hlow
      have hvle : M ≤ k - 1 := by
        obtain ⟨hvn, hvc⟩ := mem_members.mp hv
        have := degree_le n cid es hS hC v hvn
        rw [clusterSize_eq, hvc, hvM] at this
        exact this
      obtain ⟨j, hj⟩ : ∃ j, k = j + 3 := ⟨k - 3, by omega⟩
      have hkl : ms.length = j + 3 := hj
      rw [hkl] at hlow
      have hlow' : (M : Int) + (j + 2) ≤ (((ms.map (nodeDegree es)).sum : Nat) : Int) := by
        have : M + (j + 2) ≤ (ms.map (nodeDegree es)).sum := by omega
        exact_mod_cast this
      have hvle' : (M : Int) ≤ j + 2 := by
        have : M ≤ j + 2 := by omega
        exact_mod_cast this
      have hden : (((k - 1) * (k - 2) : Nat) : Int) = ((j : Int) + 2) * ((j : Int) + 1) := by
        have : (k - 1) * (k - 2) = (j + 2) * (j + 1) := by rw [hj]; rfl
        rw [this]; push_cast; ring
      rw [hden, hj]
      push_cast
      nlinarith [hlow', hvle', mul_nonneg (show (0:Int) ≤ j + 2 by positivity) (sub_nonneg.mpr hvle')]
  · intro hk
    have hk' : ¬ (members n cid c).length > 2 := by
      have : (members n cid c).length ≤ 2 := hk
      omega
    simp only [hk', if_false]

/-! ## What a bridge flag means once igraph's `bridges` meets its specification -/

/-- Undirected adjacency of an edge list. -/
def AdjL (g : List (Nat × Nat)) (a b : Nat) : Prop := (a, b) ∈ g ∨ (b, a) ∈ g

/-- Specification of a bridge finder: edge index `k` is reported iff the endpoints of the `k`-th
edge are not connected once that edge row is removed. -/
def BridgeSpec (bridges : List (Nat × Nat) → List Nat) : Prop :=
  ∀ g k, k ∈ bridges g ↔ ∃ e, g[k]? = some e ∧ ¬ Reach (AdjL (g.eraseIdx k)) e.1 e.2

/-- The new id as a total function. -/
def pi (order : List Nat) (v : Nat) : Nat := (newId order v).getD 0

theorem pi_inj {order : List Nat} {a b : Nat} (ha : a ∈ order) (hb : b ∈ order)
    (h : pi order a = pi order b) : a = b := by
  obtain ⟨x, hx⟩ := newId_isSome_of_mem ha
  obtain ⟨y, hy⟩ := newId_isSome_of_mem hb
  simp only [pi, hx, hy, Option.getD_some] at h
  subst h
  exact newId_inj hx hy

theorem reach_relabel_of_reach (order : List Nat) (es : List Edge) {a b : Nat}
    (h : Reach (AdjL es) a b) : Reach (AdjL (es.map (relabel order))) (pi order a) (pi order b) := by
  induction h with
  | refl => exact Reach.refl _
  | tail _ hadj ih =>
    refine Reach.tail ih ?_
    rcases hadj with h | h
    · exact Or.inl (List.mem_map.mpr ⟨_, h, rfl⟩)
    · exact Or.inr (List.mem_map.mpr ⟨_, h, rfl⟩)

theorem reach_of_reach_relabel (order : List Nat) (es : List Edge)
    (hmem : ∀ e ∈ es, e.1 ∈ order ∧ e.2 ∈ order) {x y : Nat}
    (h : Reach (AdjL (es.map (relabel order))) x y) :
    ∀ a, a ∈ order → x = pi order a → ∃ b, b ∈ order ∧ y = pi order b ∧ Reach (AdjL es) a b := by
  induction h with
  | refl => intro a ha hx; exact ⟨a, ha, hx, Reach.refl _⟩
  | tail _ hadj ih =>
    intro a ha hx
    obtain ⟨b, hb, hjb, hab⟩ := ih a ha hx
    rcases hadj with h | h
    · obtain ⟨e, he, heq⟩ := List.mem_map.mp h
      simp only [relabel, Prod.mk.injEq] at heq
      have h1 : e.1 = b := pi_inj (hmem e he).1 hb (by rw [← hjb]; exact heq.1)
      refine ⟨e.2, (hmem e he).2, heq.2.symm, Reach.tail hab (Or.inl ?_)⟩
      rw [← h1]; exact he
    · obtain ⟨e, he, heq⟩ := List.mem_map.mp h
      simp only [relabel, Prod.mk.injEq] at heq
      have h2 : e.2 = b := pi_inj (hmem e he).2 hb (by rw [← hjb]; exact heq.2)
      refine ⟨e.1, (hmem e he).1, heq.1.symm, Reach.tail hab (Or.inr ?_)⟩
      rw [← h2]; exact he

theorem reach_relabel_iff (order : List Nat) (es : List Edge)
    (hmem : ∀ e ∈ es, e.1 ∈ order ∧ e.2 ∈ order) {a b : Nat} (ha : a ∈ order) (hb : b ∈ order) :
    Reach (AdjL (es.map (relabel order))) (pi order a) (pi order b) ↔ Reach (AdjL es) a b := by
  constructor
  · intro h
    obtain ⟨b', hb', hbb, hr⟩ := reach_of_reach_relabel order es hmem h a ha rfl
    rw [pi_inj hb hb' hbb]; exact hr
  · exact reach_relabel_of_reach order es

/-- With a bridge finder that meets `BridgeSpec`, the `k`-th kept edge is flagged iff removing
that edge row disconnects its endpoints in the ORIGINAL (un-relabelled) thresholded graph. -/
theorem bridge_flag_def (bridges : List (Nat × Nat) → List Nat) (hspec : BridgeSpec bridges)
    (order : List Nat) (es : List Edge) (hmem : ∀ e ∈ es, e.1 ∈ order ∧ e.2 ∈ order)
    (hnd : es.Nodup) (k : Nat) (hk : k < es.length) :
    relabel order es[k] ∈ bridgeRows bridges (es.map (relabel order)) ↔
      ¬ Reach (AdjL (es.eraseIdx k)) es[k].1 es[k].2 := by
  rw [bridge_flag_index bridges order es hmem hnd k hk, hspec]
  have hgk : (es.map (relabel order))[k]? = some (relabel order es[k]) := by
    simp [List.getElem?_map, List.getElem?_eq_getElem hk]
  have herase : (es.map (relabel order)).eraseIdx k = (es.eraseIdx k).map (relabel order) := by
    rw [List.eraseIdx_map]
  have hmem' : ∀ e ∈ es.eraseIdx k, e.1 ∈ order ∧ e.2 ∈ order :=
    fun e he => hmem e (List.mem_of_mem_eraseIdx he)
  have hek := hmem es[k] (List.getElem_mem hk)
  have key := reach_relabel_iff order (es.eraseIdx k) hmem' hek.1 hek.2
  constructor
  · rintro ⟨e, he, hne⟩ hreach
    rw [hgk] at he
    have : e = relabel order es[k] := (Option.some.inj he).symm
    subst this
    rw [herase] at hne
    exact hne (key.mpr hreach)
  · intro hne
    refine ⟨_, hgk, ?_⟩
    rw [herase]
    exact fun h => hne (key.mp h)

end SplinkVerif.Lemmas.GM
