import SplinkVerif.Model.Blocking
/-!
# Helper lemmas for C01 (blocking)

Membership characterisation, uniqueness and permutation lemmas about
`Model/Blocking.lean`.  Core Lean only.
-/
namespace SplinkVerif.Lemmas.Blk
open SplinkVerif SplinkVerif.Blocking

/-! ## Definitions used by the property statements -/

/-- Composite ids identify records (`WFKeys`). -/
def WFKeys (t : Table) : Prop := ∀ i j, i < t.m → j < t.m → t.key i = t.key j → i = j

/-- Salting is well formed: at least one partition and every record falls in one. -/
def SaltOK (t : Table) (rules : List Rule) : Prop :=
  ∀ r ∈ rules, ∀ n, r.kind = .salted n → 0 < n ∧ ∀ i, i < t.m → t.part i n < n

/-- Rule `i` evaluates to TRUE on the ordered pair `(l, r)`. -/
def holds (rules : List Rule) (i l r : Nat) : Prop :=
  ∃ rule, rules[i]? = some rule ∧ B3.isTrue (rule.eval l r) = true

/-- The link types that self-join the concatenated table. -/
def SelfJoin (lt : LinkType) : Prop := lt ≠ .twoDatasetLinkOnly

/-! ## Three-valued logic -/

theorem coalesceF_eq_isTrue (x : B3) : B3.coalesceF x = B3.isTrue x := by
  cases x with
  | none => rfl
  | some b => cases b <;> rfl

theorem isTrue_and3_some (x : B3) (b : Bool) :
    B3.isTrue (B3.and3 x (some b)) = (B3.isTrue x && b) := by
  cases x with
  | none => cases b <;> rfl
  | some a => cases a <;> cases b <;> rfl

/-! ## Index of the first TRUE rule -/

/-- Index of the first rule that is TRUE on `(l, r)`. -/
def firstTrue : List Rule → Nat → Nat → Option Nat
  | [], _, _ => none
  | q :: qs, l, r => if B3.isTrue (q.eval l r) = true then some 0 else (firstTrue qs l r).map (· + 1)

/-- Some rule of the list is TRUE on `(l, r)`. -/
def anyTrue (rs : List Rule) (l r : Nat) : Bool := rs.any fun q => B3.isTrue (q.eval l r)

theorem holds_nil (i l r : Nat) : ¬ holds [] i l r := by
  rintro ⟨rule, h, _⟩
  simp at h

theorem holds_cons_zero (q : Rule) (qs : List Rule) (l r : Nat) :
    holds (q :: qs) 0 l r ↔ B3.isTrue (q.eval l r) = true := by
  constructor
  · rintro ⟨rule, h, ht⟩
    simp at h
    subst h
    exact ht
  · intro h
    exact ⟨q, by simp, h⟩

theorem holds_cons_succ (q : Rule) (qs : List Rule) (i l r : Nat) :
    holds (q :: qs) (i + 1) l r ↔ holds qs i l r := by
  unfold holds
  simp

theorem firstTrue_eq_some_iff (rules : List Rule) (l r : Nat) :
    ∀ i, firstTrue rules l r = some i ↔ holds rules i l r ∧ ∀ j, j < i → ¬ holds rules j l r := by
  induction rules with
  | nil =>
    intro i
    simp [firstTrue, holds_nil]
  | cons q qs ih =>
    intro i
    unfold firstTrue
    by_cases hq : B3.isTrue (q.eval l r) = true
    · rw [if_pos hq]
      constructor
      · intro h
        have : i = 0 := by simpa using h.symm
        subst this
        exact ⟨(holds_cons_zero q qs l r).mpr hq, fun j hj => absurd hj (Nat.not_lt_zero j)⟩
      · rintro ⟨_, hmin⟩
        cases i with
        | zero => rfl
        | succ i => exact absurd ((holds_cons_zero q qs l r).mpr hq) (hmin 0 (Nat.succ_pos i))
    · rw [if_neg hq]
      cases i with
      | zero =>
        constructor
        · intro h
          simp at h
        · rintro ⟨h, _⟩
          exact absurd ((holds_cons_zero q qs l r).mp h) hq
      | succ i =>
        rw [Option.map_eq_some_iff]
        constructor
        · rintro ⟨k, hk, hki⟩
          have : k = i := by omega
          subst this
          have := (ih k).mp hk
          refine ⟨(holds_cons_succ q qs k l r).mpr this.1, ?_⟩
          intro j hj
          cases j with
          | zero => exact fun h => hq ((holds_cons_zero q qs l r).mp h)
          | succ j =>
            exact fun h => this.2 j (by omega) ((holds_cons_succ q qs j l r).mp h)
        · rintro ⟨h, hmin⟩
          refine ⟨i, (ih i).mpr ⟨(holds_cons_succ q qs i l r).mp h, ?_⟩, rfl⟩
          intro j hj hh
          exact hmin (j + 1) (by omega) ((holds_cons_succ q qs j l r).mpr hh)

theorem firstTrue_isSome_of_holds (rules : List Rule) (l r : Nat) :
    ∀ i, holds rules i l r → ∃ k, firstTrue rules l r = some k := by
  induction rules with
  | nil => intro i h; exact absurd h (holds_nil i l r)
  | cons q qs ih =>
    intro i h
    unfold firstTrue
    by_cases hq : B3.isTrue (q.eval l r) = true
    · exact ⟨0, by rw [if_pos hq]⟩
    · rw [if_neg hq]
      cases i with
      | zero => exact absurd ((holds_cons_zero q qs l r).mp h) hq
      | succ i =>
        obtain ⟨k, hk⟩ := ih i ((holds_cons_succ q qs i l r).mp h)
        exact ⟨k + 1, by rw [hk]; rfl⟩

/-! ## Lists: `joinFilter`, `eraseDups` -/

theorem mem_joinFilter (ls rs : List Nat) (p : Nat → Nat → Bool) (l r : Nat) :
    (l, r) ∈ joinFilter ls rs p ↔ l ∈ ls ∧ r ∈ rs ∧ p l r = true := by
  unfold joinFilter
  simp only [List.mem_flatMap, List.mem_map, List.mem_filter, Prod.mk.injEq]
  constructor
  · rintro ⟨a, ha, b, ⟨hb, hp⟩, rfl, rfl⟩
    exact ⟨ha, hb, hp⟩
  · rintro ⟨hl, hr, hp⟩
    exact ⟨l, hl, r, ⟨hr, hp⟩, rfl, rfl⟩

theorem joinFilter_fst {rs : List Nat} {p : Nat → Nat → Bool} {x : Nat × Nat} {a : Nat}
    (h : x ∈ (rs.filter fun r => p a r).map fun r => (a, r)) : x.1 = a := by
  simp only [List.mem_map] at h
  obtain ⟨b, _, rfl⟩ := h
  rfl

theorem nodup_joinFilter (ls rs : List Nat) (p : Nat → Nat → Bool)
    (hl : ls.Nodup) (hr : rs.Nodup) : (joinFilter ls rs p).Nodup := by
  unfold joinFilter
  rw [List.nodup_iff_pairwise_ne, List.pairwise_flatMap]
  constructor
  · intro a _
    rw [List.pairwise_map]
    exact (hr.filter _).imp (fun h hh => h (by simpa using hh))
  · refine hl.imp ?_
    intro a b hab x hx y hy hxy
    have h1 := joinFilter_fst hx
    have h2 := joinFilter_fst hy
    exact hab (by rw [← h1, ← h2, hxy])

theorem nodup_eraseDups {α : Type} [BEq α] [LawfulBEq α] :
    ∀ (k : Nat) (l : List α), l.length ≤ k → l.eraseDups.Nodup
  | _, [], _ => by simp
  | 0, _ :: _, h => by simp at h
  | k + 1, a :: as, h => by
    rw [List.eraseDups_cons, List.nodup_cons]
    refine ⟨?_, nodup_eraseDups k _ ?_⟩
    · rw [List.mem_eraseDups, List.mem_filter]
      simp
    · have := List.length_filter_le (fun b => !b == a) as
      simp only [List.length_cons] at h
      omega

/-! ## The join inputs -/

theorem nodup_leftTable (lt : LinkType) (t : Table) : (leftTable lt t).Nodup := by
  cases lt <;> simp only [leftTable] <;>
    first | exact List.nodup_range | exact List.nodup_range.filter _

theorem nodup_rightTable (lt : LinkType) (t : Table) : (rightTable lt t).Nodup := by
  cases lt <;> simp only [rightTable] <;>
    first | exact List.nodup_range | exact List.nodup_range.filter _

theorem lt_of_mem_leftTable {lt : LinkType} {t : Table} {l : Nat} (h : l ∈ leftTable lt t) :
    l < t.m := by
  cases lt <;> simp [leftTable] at h <;> omega

/-- Admissible ordered pairs: in the join inputs and passing the link-type `WHERE`. -/
def Adm (lt : LinkType) (t : Table) (l r : Nat) : Prop :=
  l ∈ leftTable lt t ∧ r ∈ rightTable lt t ∧ whereCond lt t l r = true

/-- The self-join used by exploding rules accepts the same pairs as the split join. -/
def ExplOK (lt : LinkType) (t : Table) : Prop :=
  ∀ l r, (l < t.m ∧ r < t.m ∧ whereCond lt t l r = true ∧
      (lt != .twoDatasetLinkOnly || decide (t.sd l < t.sd r)) = true) ↔ Adm lt t l r

theorem adm_selfJoin {lt : LinkType} (hlt : SelfJoin lt) (t : Table) (l r : Nat) :
    Adm lt t l r ↔ l < t.m ∧ r < t.m ∧ whereCond lt t l r = true := by
  unfold Adm
  cases lt <;> first | exact absurd rfl hlt | simp [leftTable, rightTable]

theorem explOK_selfJoin {lt : LinkType} (hlt : SelfJoin lt) (t : Table) : ExplOK lt t := by
  intro l r
  rw [adm_selfJoin hlt]
  cases lt <;> first | exact absurd rfl hlt | simp

/-! ## Pairs of one rule -/

theorem excludedBy_of_isTrue_or_mem (d : Done) (l r : Nat) :
    excludedBy d l r = match d.1.kind with
      | .exploding => decide ((l, r) ∈ d.2)
      | _ => B3.isTrue (d.1.eval l r) := by
  unfold excludedBy
  cases d.1.kind <;> simp [coalesceF_eq_isTrue]

/-- Salting hypothesis for a single rule. -/
def SaltOK1 (t : Table) (rule : Rule) : Prop :=
  ∀ n, rule.kind = .salted n → 0 < n ∧ ∀ i, i < t.m → t.part i n < n

theorem mem_rulePairs (lt : LinkType) (t : Table) (pre : List Done) (rule : Rule)
    (hx : ExplOK lt t) (hs : SaltOK1 t rule) (l r : Nat) :
    (l, r) ∈ rulePairs lt t pre rule ↔
      Adm lt t l r ∧ B3.isTrue (rule.eval l r) = true ∧ excluded pre l r = false := by
  unfold rulePairs
  cases hk : rule.kind with
  | plain =>
    simp only [mem_joinFilter, Adm, Bool.and_eq_true, Bool.not_eq_true']
    constructor
    · rintro ⟨h1, h2, ⟨h3, h4⟩, h5⟩; exact ⟨⟨h1, h2, h4⟩, h3, h5⟩
    · rintro ⟨⟨h1, h2, h4⟩, h3, h5⟩; exact ⟨h1, h2, ⟨h3, h4⟩, h5⟩
  | salted n =>
    simp only [List.mem_flatMap, List.mem_range, mem_joinFilter, Adm, Bool.and_eq_true,
      Bool.not_eq_true', isTrue_and3_some, beq_iff_eq]
    constructor
    · rintro ⟨k, _, h1, h2, ⟨⟨h3, _⟩, h4⟩, h5⟩; exact ⟨⟨h1, h2, h4⟩, h3, h5⟩
    · rintro ⟨⟨h1, h2, h4⟩, h3, h5⟩
      exact ⟨t.part l n, (hs n hk).2 l (lt_of_mem_leftTable h1), h1, h2, ⟨⟨h3, rfl⟩, h4⟩, h5⟩
  | exploding =>
    simp only [List.mem_eraseDups, mem_joinFilter, List.mem_range, Bool.and_eq_true,
      Bool.not_eq_true']
    rw [← hx l r]
    constructor
    · rintro ⟨h1, h2, ⟨⟨h3, h4⟩, h6⟩, h5⟩; exact ⟨⟨h1, h2, h4, h6⟩, h3, h5⟩
    · rintro ⟨⟨h1, h2, h4, h6⟩, h3, h5⟩; exact ⟨h1, h2, ⟨⟨h3, h4⟩, h6⟩, h5⟩

/-- Forward direction without any hypothesis. -/
theorem rulePairs_sound (lt : LinkType) (t : Table) (pre : List Done) (rule : Rule) (l r : Nat)
    (h : (l, r) ∈ rulePairs lt t pre rule) :
    l < t.m ∧ r < t.m ∧ whereCond lt t l r = true ∧ B3.isTrue (rule.eval l r) = true ∧
      excluded pre l r = false := by
  unfold rulePairs at h
  have hR : ∀ {r}, r ∈ rightTable lt t → r < t.m := by
    intro r h
    cases lt <;> simp [rightTable] at h <;> omega
  cases hk : rule.kind with
  | plain =>
    simp only [hk, mem_joinFilter, Bool.and_eq_true, Bool.not_eq_true'] at h
    obtain ⟨h1, h2, ⟨h3, h4⟩, h5⟩ := h
    exact ⟨lt_of_mem_leftTable h1, hR h2, h4, h3, h5⟩
  | salted n =>
    simp only [hk, List.mem_flatMap, List.mem_range, mem_joinFilter, Bool.and_eq_true,
      Bool.not_eq_true', isTrue_and3_some, beq_iff_eq] at h
    obtain ⟨k, _, h1, h2, ⟨⟨h3, _⟩, h4⟩, h5⟩ := h
    exact ⟨lt_of_mem_leftTable h1, hR h2, h4, h3, h5⟩
  | exploding =>
    simp only [hk, List.mem_eraseDups, mem_joinFilter, List.mem_range, Bool.and_eq_true,
      Bool.not_eq_true'] at h
    obtain ⟨h1, h2, ⟨⟨h3, h4⟩, _⟩, h5⟩ := h
    exact ⟨h1, h2, h4, h3, h5⟩

theorem nodup_rulePairs (lt : LinkType) (t : Table) (pre : List Done) (rule : Rule) :
    (rulePairs lt t pre rule).Nodup := by
  unfold rulePairs
  cases hk : rule.kind with
  | plain => exact nodup_joinFilter _ _ _ (nodup_leftTable lt t) (nodup_rightTable lt t)
  | salted n =>
    simp only []
    rw [List.nodup_iff_pairwise_ne, List.pairwise_flatMap]
    constructor
    · intro k _
      exact nodup_joinFilter _ _ _ (nodup_leftTable lt t) (nodup_rightTable lt t)
    · refine (List.nodup_range (n := n)).imp ?_
      intro a b hab x hx y hy hxy
      subst hxy
      obtain ⟨x1, x2⟩ := x
      rw [mem_joinFilter] at hx hy
      have hx := hx.2.2
      have hy := hy.2.2
      simp only [Bool.and_eq_true, isTrue_and3_some, beq_iff_eq] at hx hy
      exact hab (hx.1.1.2.symm.trans hy.1.1.2)
  | exploding => exact nodup_eraseDups _ _ (Nat.le_refl _)

/-! ## Exclusion of preceding rules -/

theorem excluded_snoc (pre : List Done) (d : Done) (l r : Nat) :
    excluded (pre ++ [d]) l r = (excluded pre l r || excludedBy d l r) := by
  simp [excluded]

theorem anyTrue_snoc (rs : List Rule) (q : Rule) (l r : Nat) :
    anyTrue (rs ++ [q]) l r = (anyTrue rs l r || B3.isTrue (q.eval l r)) := by
  simp [anyTrue]

/-- On admissible pairs the `AND NOT (…)` clause is "some preceding rule is TRUE". -/
def PreOK (lt : LinkType) (t : Table) (pre : List Done) : Prop :=
  ∀ l r, Adm lt t l r → excluded pre l r = anyTrue (pre.map (·.1)) l r

theorem preOK_nil (lt : LinkType) (t : Table) : PreOK lt t [] := by
  intro l r _
  rfl

theorem preOK_snoc (lt : LinkType) (t : Table) (pre : List Done) (rule : Rule)
    (hx : ExplOK lt t) (hs : SaltOK1 t rule) (h : PreOK lt t pre) :
    PreOK lt t (pre ++ [(rule, rulePairs lt t pre rule)]) := by
  intro l r ha
  rw [List.map_append, excluded_snoc, List.map_cons, List.map_nil, anyTrue_snoc, ← h l r ha]
  have hm := mem_rulePairs lt t pre rule hx hs l r
  rw [excludedBy_of_isTrue_or_mem]
  simp only []
  cases hk : rule.kind with
  | plain => rfl
  | salted n => rfl
  | exploding =>
    simp only []
    by_cases he : excluded pre l r = true
    · simp [he]
    · have he : excluded pre l r = false := by simpa using he
      by_cases ht : B3.isTrue (rule.eval l r) = true
      · have : (l, r) ∈ rulePairs lt t pre rule := hm.mpr ⟨ha, ht, he⟩
        simp [he, ht, this]
      · have : (l, r) ∉ rulePairs lt t pre rule := fun hmem => ht (hm.mp hmem).2.1
        simp [he, ht, this]

/-! ## Membership in `blockFrom` -/

theorem mem_tag (ps : List (Nat × Nat)) (n i l r : Nat) :
    ((i, l, r) : Row) ∈ ps.map (fun p => ((n, p.1, p.2) : Row)) ↔ i = n ∧ (l, r) ∈ ps := by
  simp only [List.mem_map, Prod.mk.injEq]
  constructor
  · rintro ⟨⟨a, b⟩, hp, rfl, rfl, rfl⟩
    exact ⟨rfl, hp⟩
  · rintro ⟨rfl, hp⟩
    exact ⟨(l, r), hp, rfl, rfl, rfl⟩

theorem saltOK_head {t : Table} {rule : Rule} {rest : List Rule} (h : SaltOK t (rule :: rest)) :
    SaltOK1 t rule := fun n hn => h rule (List.mem_cons_self) n hn

theorem saltOK_tail {t : Table} {rule : Rule} {rest : List Rule} (h : SaltOK t (rule :: rest)) :
    SaltOK t rest := fun q hq n hn => h q (List.mem_cons_of_mem _ hq) n hn

theorem mem_blockFrom (lt : LinkType) (t : Table) (hx : ExplOK lt t) :
    ∀ (rest : List Rule) (pre : List Done), PreOK lt t pre → SaltOK t rest → ∀ i l r,
      ((i, l, r) ∈ blockFrom lt t pre rest ↔
        Adm lt t l r ∧ anyTrue (pre.map (·.1)) l r = false ∧
          ∃ k, firstTrue rest l r = some k ∧ i = pre.length + k) := by
  intro rest
  induction rest with
  | nil =>
    intro pre _ _ i l r
    simp [blockFrom, firstTrue]
  | cons rule rest ih =>
    intro pre hpre hsalt i l r
    rw [blockFrom]
    rw [List.mem_append, mem_tag, mem_rulePairs lt t pre rule hx (saltOK_head hsalt),
      ih _ (preOK_snoc lt t pre rule hx (saltOK_head hsalt) hpre) (saltOK_tail hsalt) i l r]
    by_cases ha : Adm lt t l r
    · rw [hpre l r ha, List.map_append, List.map_cons, List.map_nil, anyTrue_snoc,
        List.length_append]
      simp only [ha, true_and, List.length_cons, List.length_nil, firstTrue]
      by_cases ht : B3.isTrue (rule.eval l r) = true
      · simp only [ht, Bool.or_true, if_true]
        constructor
        · rintro (⟨h1, _, h2⟩ | ⟨h, _⟩)
          · exact ⟨h2, 0, rfl, h1⟩
          · exact absurd h (by simp)
        · rintro ⟨h2, k, hk, h1⟩
          have : k = 0 := by simpa using hk.symm
          subst this
          exact Or.inl ⟨h1, trivial, h2⟩
      · simp only [ht, if_false, Bool.false_eq_true, false_and, and_false, false_or]
        have ht' : B3.isTrue (rule.eval l r) = false := by simpa using ht
        simp only [Bool.or_false, Option.map_eq_some_iff]
        constructor
        · rintro ⟨h2, k, hk, h1⟩
          exact ⟨h2, k + 1, ⟨k, hk, rfl⟩, by omega⟩
        · rintro ⟨h2, k, ⟨k', hk, rfl⟩, h1⟩
          exact ⟨h2, k', hk, by omega⟩
    · simp [ha]

/-- Membership in `block` for a non-empty rule list. -/
theorem mem_block_adm (lt : LinkType) (t : Table) (rules : List Rule) (hx : ExplOK lt t)
    (hne : rules ≠ []) (hsalt : SaltOK t rules) (i l r : Nat) :
    (i, l, r) ∈ block lt t rules ↔
      Adm lt t l r ∧ holds rules i l r ∧ ∀ j, j < i → ¬ holds rules j l r := by
  unfold block
  have : rules.isEmpty = false := by
    cases rules with
    | nil => exact absurd rfl hne
    | cons _ _ => rfl
  rw [this]
  simp only [Bool.false_eq_true, if_false]
  rw [mem_blockFrom lt t hx rules [] (preOK_nil lt t) hsalt i l r, ← firstTrue_eq_some_iff]
  simp [anyTrue]

/-! ## Soundness and uniqueness without hypotheses -/

theorem excludedBy_self (lt : LinkType) (t : Table) (pre : List Done) (rule : Rule) (l r : Nat)
    (h : (l, r) ∈ rulePairs lt t pre rule) :
    excludedBy (rule, rulePairs lt t pre rule) l r = true := by
  have ht := (rulePairs_sound lt t pre rule l r h).2.2.2.1
  rw [excludedBy_of_isTrue_or_mem]
  simp only []
  cases hk : rule.kind with
  | plain => exact ht
  | salted n => exact ht
  | exploding => simpa using h

theorem blockFrom_sound (lt : LinkType) (t : Table) :
    ∀ (rest : List Rule) (pre : List Done) (i l r : Nat), (i, l, r) ∈ blockFrom lt t pre rest →
      l < t.m ∧ r < t.m ∧ whereCond lt t l r = true ∧ excluded pre l r = false := by
  intro rest
  induction rest with
  | nil => intro pre i l r h; simp [blockFrom] at h
  | cons rule rest ih =>
    intro pre i l r h
    rw [blockFrom] at h
    rw [List.mem_append, mem_tag] at h
    rcases h with ⟨_, h⟩ | h
    · have := rulePairs_sound lt t pre rule l r h
      exact ⟨this.1, this.2.1, this.2.2.1, this.2.2.2.2⟩
    · have := ih _ i l r h
      refine ⟨this.1, this.2.1, this.2.2.1, ?_⟩
      have h4 := this.2.2.2
      rw [excluded_snoc] at h4
      simp only [Bool.or_eq_false_iff] at h4
      exact h4.1

theorem nodup_blockFrom (lt : LinkType) (t : Table) :
    ∀ (rest : List Rule) (pre : List Done),
      ((blockFrom lt t pre rest).map fun row => (row.2.1, row.2.2)).Nodup := by
  intro rest
  induction rest with
  | nil => intro pre; simp [blockFrom]
  | cons rule rest ih =>
    intro pre
    rw [blockFrom]
    simp only [List.map_append, List.map_map]
    have hid : ((fun row : Row => (row.2.1, row.2.2)) ∘ fun p : Nat × Nat => (pre.length, p.1, p.2))
        = id := funext fun p => rfl
    rw [hid, List.map_id, List.nodup_append]
    refine ⟨nodup_rulePairs lt t pre rule, ih _, ?_⟩
    rintro ⟨l, r⟩ ha b hb rfl
    rw [List.mem_map] at hb
    obtain ⟨⟨i, l', r'⟩, hrow, heq⟩ := hb
    simp only [Prod.mk.injEq] at heq
    obtain ⟨rfl, rfl⟩ := heq
    have h4 := (blockFrom_sound lt t rest _ i l' r' hrow).2.2.2
    rw [excluded_snoc, excludedBy_self lt t pre rule l' r' ha] at h4
    simp at h4

theorem block_pairs_nodup' (lt : LinkType) (t : Table) (rules : List Rule) :
    ((block lt t rules).map fun row => (row.2.1, row.2.2)).Nodup :=
  nodup_blockFrom lt t _ []

theorem block_nodup_rows (lt : LinkType) (t : Table) (rules : List Rule) :
    (block lt t rules).Nodup :=
  List.Pairwise.of_map _ (fun a b h hab => h (by rw [hab])) (block_pairs_nodup' lt t rules)

/-! ## The lemmas referenced by `Properties/C01.lean` -/

theorem mem_block (lt : LinkType) (t : Table) (rules : List Rule)
    (hlt : SelfJoin lt) (hne : rules ≠ []) (hsalt : SaltOK t rules) (i l r : Nat) :
    (i, l, r) ∈ block lt t rules ↔
      l < t.m ∧ r < t.m ∧ whereCond lt t l r = true ∧
      holds rules i l r ∧ ∀ j, j < i → ¬ holds rules j l r := by
  rw [mem_block_adm lt t rules (explOK_selfJoin hlt t) hne hsalt, adm_selfJoin hlt]
  simp only [and_assoc]

theorem block_pairs_nodup (lt : LinkType) (t : Table) (rules : List Rule)
    (_hlt : SelfJoin lt) (_hsalt : SaltOK t rules) :
    ((block lt t rules).map fun row => (row.2.1, row.2.2)).Nodup :=
  block_pairs_nodup' lt t rules

theorem whereCond_key {lt : LinkType} (hlt : SelfJoin lt) (t : Table) (l r : Nat)
    (h : whereCond lt t l r = true) : t.key l < t.key r := by
  cases lt with
  | twoDatasetLinkOnly => exact absurd rfl hlt
  | dedupeOnly => simpa [whereCond] using h
  | linkAndDedupe => simpa [whereCond] using h
  | linkOnly =>
    simp only [whereCond, Bool.and_eq_true, decide_eq_true_eq] at h
    exact h.1

theorem block_one_orientation (lt : LinkType) (t : Table) (rules : List Rule)
    (hlt : SelfJoin lt) (i j l r : Nat)
    (h : (i, l, r) ∈ block lt t rules) : (j, r, l) ∉ block lt t rules ∧ l ≠ r := by
  have h1 := whereCond_key hlt t l r (blockFrom_sound lt t _ _ i l r h).2.2.1
  constructor
  · intro h'
    have h2 := whereCond_key hlt t r l (blockFrom_sound lt t _ _ j r l h').2.2.1
    omega
  · rintro rfl
    omega

theorem saltOK_trueRule (t : Table) : SaltOK t [trueRule] := by
  intro q hq n hn
  simp only [List.mem_singleton] at hq
  subst hq
  simp [trueRule] at hn

theorem mem_block_nil (lt : LinkType) (t : Table) (hlt : SelfJoin lt) (i l r : Nat) :
    (i, l, r) ∈ block lt t [] ↔ i = 0 ∧ l < t.m ∧ r < t.m ∧ whereCond lt t l r = true := by
  have : block lt t [] = blockFrom lt t [] [trueRule] := rfl
  rw [this, mem_blockFrom lt t (explOK_selfJoin hlt t) [trueRule] [] (preOK_nil lt t)
    (saltOK_trueRule t) i l r, adm_selfJoin hlt]
  simp only [firstTrue, trueRule, B3.isTrue, if_true, List.map_nil, anyTrue, List.any_nil,
    List.length_nil, Nat.zero_add, true_and]
  constructor
  · rintro ⟨h, k, hk, hik⟩
    have : k = 0 := by simpa using hk.symm
    exact ⟨by omega, h⟩
  · rintro ⟨rfl, h⟩
    exact ⟨h, 0, rfl, rfl⟩

theorem exists_first_of_holds (rules : List Rule) (l r i : Nat) (h : holds rules i l r) :
    ∃ k, holds rules k l r ∧ ∀ j, j < k → ¬ holds rules j l r := by
  obtain ⟨k, hk⟩ := firstTrue_isSome_of_holds rules l r i h
  exact ⟨k, (firstTrue_eq_some_iff rules l r k).mp hk⟩

theorem block_unordered_bounds (lt : LinkType) (t : Table) (rules : List Rule)
    (hlt : SelfJoin lt) (hne : rules ≠ []) (hsalt : SaltOK t rules) (hwf : WFKeys t)
    (l r : Nat) (hl : l < t.m) (hr : r < t.m) (hlr : l ≠ r)
    (hsd : lt = .linkOnly → t.sd l ≠ t.sd r) :
    ((∃ i, holds rules i l r) → (∃ i, holds rules i r l) →
        ∃ i, (i, l, r) ∈ block lt t rules ∨ (i, r, l) ∈ block lt t rules) ∧
    ((∀ i, ¬ holds rules i l r) → (∀ i, ¬ holds rules i r l) →
        ∀ i, (i, l, r) ∉ block lt t rules ∧ (i, r, l) ∉ block lt t rules) := by
  constructor
  · rintro ⟨i, hi⟩ ⟨j, hj⟩
    have hk : t.key l ≠ t.key r := fun h => hlr (hwf l r hl hr h)
    have hw : ∀ a b, t.key a < t.key b → t.sd a ≠ t.sd b → whereCond lt t a b = true := by
      intro a b hab hsd'
      cases lt <;> simp [whereCond, hab, hsd']
    have hsd1 : lt = .linkOnly → t.sd r ≠ t.sd l := fun h h' => hsd h h'.symm
    rcases Nat.lt_or_gt_of_ne hk with h | h
    · obtain ⟨k, hk1, hk2⟩ := exists_first_of_holds rules l r i hi
      refine ⟨k, Or.inl ((mem_block lt t rules hlt hne hsalt k l r).mpr ⟨hl, hr, ?_, hk1, hk2⟩)⟩
      cases lt <;> simp [whereCond, h] <;> exact hsd rfl
    · obtain ⟨k, hk1, hk2⟩ := exists_first_of_holds rules r l j hj
      refine ⟨k, Or.inr ((mem_block lt t rules hlt hne hsalt k r l).mpr ⟨hr, hl, ?_, hk1, hk2⟩)⟩
      cases lt <;> simp [whereCond, h] <;> exact hsd1 rfl
  · intro h1 h2 i
    constructor
    · intro h
      exact h1 i ((mem_block lt t rules hlt hne hsalt i l r).mp h).2.2.2.1
    · intro h
      exact h2 i ((mem_block lt t rules hlt hne hsalt i r l).mp h).2.2.2.1

theorem holds_iff_evals (rules : List Rule) (i l r : Nat) :
    holds rules i l r ↔
      ∃ e, (rules.map (·.eval))[i]? = some e ∧ B3.isTrue (e l r) = true := by
  unfold holds
  simp only [List.getElem?_map, Option.map_eq_some_iff]
  constructor
  · rintro ⟨rule, h, ht⟩
    exact ⟨rule.eval, ⟨rule, h, rfl⟩, ht⟩
  · rintro ⟨e, ⟨rule, h, rfl⟩, ht⟩
    exact ⟨rule, h, ht⟩

theorem holds_congr {rules rules' : List Rule} (hev : rules.map (·.eval) = rules'.map (·.eval))
    (i l r : Nat) : holds rules i l r ↔ holds rules' i l r := by
  rw [holds_iff_evals, holds_iff_evals, hev]

theorem block_perm_of_evals (lt : LinkType) (t : Table) (rules rules' : List Rule)
    (hlt : SelfJoin lt) (hsalt : SaltOK t rules) (hsalt' : SaltOK t rules')
    (hev : rules.map (·.eval) = rules'.map (·.eval)) :
    (block lt t rules).Perm (block lt t rules') := by
  by_cases hne : rules = []
  · subst hne
    have : rules' = [] := by simpa using hev.symm
    subst this
    exact List.Perm.refl _
  · have hne' : rules' ≠ [] := by
      intro h
      subst h
      exact hne (by simpa using hev)
    apply (List.perm_ext_iff_of_nodup (block_nodup_rows lt t rules)
      (block_nodup_rows lt t rules')).mpr
    rintro ⟨i, l, r⟩
    rw [mem_block lt t rules hlt hne hsalt, mem_block lt t rules' hlt hne' hsalt']
    simp only [holds_congr hev]

/-! ## `two_dataset_link_only` -/

theorem foldl_min_le (f : Nat → Nat) :
    ∀ (xs : List Nat) (init : Nat),
      xs.foldl (fun a i => min a (f i)) init ≤ init ∧
        ∀ i ∈ xs, xs.foldl (fun a i => min a (f i)) init ≤ f i := by
  intro xs
  induction xs with
  | nil => intro init; simp
  | cons x xs ih =>
    intro init
    rw [List.foldl_cons]
    have := ih (min init (f x))
    refine ⟨by omega, ?_⟩
    intro i hi
    rcases List.mem_cons.mp hi with rfl | hi
    · omega
    · exact this.2 i hi

theorem foldl_min_attained (f : Nat → Nat) :
    ∀ (xs : List Nat) (init : Nat),
      xs.foldl (fun a i => min a (f i)) init = init ∨
        ∃ i ∈ xs, xs.foldl (fun a i => min a (f i)) init = f i := by
  intro xs
  induction xs with
  | nil => intro init; simp
  | cons x xs ih =>
    intro init
    rw [List.foldl_cons]
    rcases ih (min init (f x)) with h | ⟨i, hi, h⟩
    · rw [h]
      by_cases hc : init ≤ f x
      · exact Or.inl (by omega)
      · exact Or.inr ⟨x, List.mem_cons_self, by omega⟩
    · exact Or.inr ⟨i, List.mem_cons_of_mem _ hi, h⟩

theorem minSd_le (t : Table) (i : Nat) (hi : i < t.m) : minSd t ≤ t.sd i :=
  (foldl_min_le t.sd (List.range t.m) (t.sd 0)).2 i (List.mem_range.mpr hi)

theorem minSd_attained (t : Table) (hm : 0 < t.m) : ∃ i, i < t.m ∧ minSd t = t.sd i := by
  rcases foldl_min_attained t.sd (List.range t.m) (t.sd 0) with h | ⟨i, hi, h⟩
  · exact ⟨0, hm, h⟩
  · exact ⟨i, List.mem_range.mp hi, h⟩

theorem adm_two (t : Table)
    (htwo : ∀ a b c, a < t.m → b < t.m → c < t.m →
      t.sd a = t.sd b ∨ t.sd b = t.sd c ∨ t.sd a = t.sd c) (l r : Nat) :
    Adm .twoDatasetLinkOnly t l r ↔ l < t.m ∧ r < t.m ∧ t.sd l < t.sd r := by
  unfold Adm
  simp only [leftTable, rightTable, whereCond, List.mem_filter, List.mem_range, beq_iff_eq,
    bne_iff_ne, ne_eq, and_true]
  constructor
  · rintro ⟨⟨hl, h1⟩, hr, h2⟩
    have := minSd_le t r hr
    exact ⟨hl, hr, by omega⟩
  · rintro ⟨hl, hr, h⟩
    have h1 := minSd_le t l hl
    obtain ⟨i0, hi0, he⟩ := minSd_attained t (by omega)
    refine ⟨⟨hl, ?_⟩, hr, by omega⟩
    rcases htwo i0 l r hi0 hl hr with h' | h' | h' <;> omega

theorem explOK_two (t : Table)
    (htwo : ∀ a b c, a < t.m → b < t.m → c < t.m →
      t.sd a = t.sd b ∨ t.sd b = t.sd c ∨ t.sd a = t.sd c) :
    ExplOK .twoDatasetLinkOnly t := by
  intro l r
  rw [adm_two t htwo]
  simp [whereCond]

theorem mem_block_two_dataset (t : Table) (rules : List Rule) (hne : rules ≠ [])
    (hsalt : SaltOK t rules)
    (htwo : ∀ a b c, a < t.m → b < t.m → c < t.m →
      t.sd a = t.sd b ∨ t.sd b = t.sd c ∨ t.sd a = t.sd c)
    (i l r : Nat) :
    (i, l, r) ∈ block .twoDatasetLinkOnly t rules ↔
      l < t.m ∧ r < t.m ∧ t.sd l < t.sd r ∧
      holds rules i l r ∧ ∀ j, j < i → ¬ holds rules j l r := by
  rw [mem_block_adm .twoDatasetLinkOnly t rules (explOK_two t htwo) hne hsalt, adm_two t htwo]
  simp only [and_assoc]

theorem two_dataset_iff_link_only (t : Table) (rules : List Rule) (hne : rules ≠ [])
    (hsalt : SaltOK t rules)
    (htwo : ∀ a b c, a < t.m → b < t.m → c < t.m →
      t.sd a = t.sd b ∨ t.sd b = t.sd c ∨ t.sd a = t.sd c)
    (hord : ∀ a b, a < t.m → b < t.m → t.sd a < t.sd b → t.key a < t.key b)
    (row : Row) :
    row ∈ block .twoDatasetLinkOnly t rules ↔ row ∈ block .linkOnly t rules := by
  obtain ⟨i, l, r⟩ := row
  have hlt : SelfJoin .linkOnly := by intro h; cases h
  rw [mem_block_two_dataset t rules hne hsalt htwo, mem_block .linkOnly t rules hlt hne hsalt]
  have key : l < t.m → r < t.m → (t.sd l < t.sd r ↔ whereCond .linkOnly t l r = true) := by
    intro hl hr
    simp only [whereCond, Bool.and_eq_true, decide_eq_true_eq, bne_iff_ne, ne_eq]
    constructor
    · intro h
      exact ⟨hord l r hl hr h, by omega⟩
    · rintro ⟨h1, h2⟩
      rcases Nat.lt_or_gt_of_ne h2 with h | h
      · exact h
      · have := hord r l hr hl h
        omega
  constructor
  · rintro ⟨hl, hr, h, rest⟩
    exact ⟨hl, hr, (key hl hr).mp h, rest⟩
  · rintro ⟨hl, hr, h, rest⟩
    exact ⟨hl, hr, (key hl hr).mpr h, rest⟩

end SplinkVerif.Lemmas.Blk
