import Mathlib.Data.List.Nodup
import Mathlib.Data.List.Perm.Basic
import SplinkVerif.Lemmas.Rel
import SplinkVerif.Lemmas.BlockingAnalysisCount
import SplinkVerif.Lemmas.BlockingAnalysis
import SplinkVerif.Lemmas.AccSql
import SplinkVerif.Model.BCountSql
/-!
# The counting SQL of `blocking_analysis.py` computes block products (C14, SQL level)

* `gen_*` — the hand-written loop forms of `Model/BCountSql.lean` are syntactically the regenerated statements of every
  captured run (1, 2, 3 keys; self-join and two-table set-up; count and n_largest pipelines);
* `holds_usingCond` — `USING (key_0, …)` holds on a pair of group rows iff the key tuples are equal and NULL-free;
* `blocks_eq` — `__splink__block_counts` is, row for row, one row `(count_l, count_r, count_l * count_r)` per block key;
* `preFilterTotal_eq` — the reported total is the size of the equi-join;
* `blocks_noKeys_*` — the no-key forms give `|L| · |R|`;
* `topRows_eq`, `isOrderLimit_spec`, `isOrderLimit_orderLimit`, `nLargest_spec` — `n_largest_blocks`;
* `equiJoinSize_eq_model` — the total is the functional model's `BlockingAnalysis.preFilterCount` on coded keys;
* `concat_eval`, `selfCount_total` — `__splink__df_concat` holds the input rows; the whole self-join pipeline;
* `rowCounts_dedupe`, `rowCounts_bySd`, `countsOf_bySd` — `_row_counts_per_input_table` = the model's `sdCounts`.
-/
namespace SplinkVerif.Lemmas.BCountSql
open SplinkVerif SplinkVerif.Rel SplinkVerif.Lemmas.Rel SplinkVerif.BCountSql

/-! ## The loop forms are the regenerated statements -/

theorem gen_self1 (kl0 kr0 : Expr) :
    Gen.BCountSql.self1Stmts kl0 kr0 = countStmts false [(kl0, kr0)] := rfl

theorem gen_two1 (kl0 kr0 : Expr) :
    Gen.BCountSql.two1Stmts kl0 kr0 = countStmts true [(kl0, kr0)] := rfl

theorem gen_two2 (kl0 kl1 kr0 kr1 : Expr) :
    Gen.BCountSql.two2Stmts kl0 kl1 kr0 kr1 = countStmts true [(kl0, kr0), (kl1, kr1)] := rfl

theorem gen_self2 (kl0 kl1 kr0 kr1 : Expr) :
    Gen.BCountSql.self2Stmts kl0 kl1 kr0 kr1 = countStmts false [(kl0, kr0), (kl1, kr1)] := rfl

theorem gen_self3 (kl0 kl1 kl2 kr0 kr1 kr2 : Expr) :
    Gen.BCountSql.self3Stmts kl0 kl1 kl2 kr0 kr1 kr2
      = countStmts false [(kl0, kr0), (kl1, kr1), (kl2, kr2)] := rfl

theorem gen_self0 : Gen.BCountSql.self0Stmts = countStmts false [] := rfl

theorem gen_two0 : Gen.BCountSql.two0Stmts = countStmts true [] := rfl

theorem gen_nlSelf1 (kl0 kr0 : Expr) :
    Gen.BCountSql.nlSelf1Stmts kl0 kr0 = nLargestStmts false [(kl0, kr0)] ∧
    Gen.BCountSql.nlSelf1BlocksTopKey = topKey 1 ∧ Gen.BCountSql.nlSelf1BlocksTopDesc = true := ⟨rfl, rfl, rfl⟩

theorem gen_nlTwo2 (kl0 kl1 kr0 kr1 : Expr) :
    Gen.BCountSql.nlTwo2Stmts kl0 kl1 kr0 kr1 = nLargestStmts true [(kl0, kr0), (kl1, kr1)] ∧
    Gen.BCountSql.nlTwo2BlocksTopKey = topKey 2 ∧ Gen.BCountSql.nlTwo2BlocksTopDesc = true := ⟨rfl, rfl, rfl⟩

theorem gen_nlSelf3 (kl0 kl1 kl2 kr0 kr1 kr2 : Expr) :
    Gen.BCountSql.nlSelf3Stmts kl0 kl1 kl2 kr0 kr1 kr2
      = nLargestStmts false [(kl0, kr0), (kl1, kr1), (kl2, kr2)] ∧
    Gen.BCountSql.nlSelf3BlocksTopKey = topKey 3 ∧ Gen.BCountSql.nlSelf3BlocksTopDesc = true := ⟨rfl, rfl, rfl⟩

/-! ## Three-valued conjunctions -/

theorem and3_eq_true {a b : Val} : and3 a b = .bool true ↔ a = .bool true ∧ b = .bool true := by
  cases a with
  | bool x => cases x <;> cases b with
    | bool y => cases y <;> simp [and3]
    | _ => simp [and3]
  | _ => cases b with
    | bool y => cases y <;> simp [and3]
    | _ => simp [and3]

theorem holds_and (a b : Expr) (row : Row) :
    (Expr.and a b).holds row = (a.holds row && b.holds row) := by
  rw [Bool.eq_iff_iff]
  simp only [Expr.holds, Expr.eval, beq_iff_eq, Bool.and_eq_true]
  exact and3_eq_true

theorem holds_foldl_and (es : List Expr) (e : Expr) (row : Row) :
    (es.foldl Expr.and e).holds row = (e.holds row && es.all (·.holds row)) := by
  induction es generalizing e with
  | nil => simp
  | cons x es ih => rw [List.foldl_cons, ih, holds_and, List.all_cons, Bool.and_assoc]

theorem holds_conj (es : List Expr) (row : Row) : (conj es).holds row = es.all (·.holds row) := by
  cases es with
  | nil => rfl
  | cons e es => rw [conj, holds_foldl_and, List.all_cons]

theorem bool_beq_true (x : Bool) : (Val.bool x == Val.bool true) = x := by
  cases x <;> decide

theorem cmp_eq_holds (a b : Val) :
    (Cmp.eq.eval a b == Val.bool true) = (a != Val.null && a == b) := by
  by_cases ha : a = Val.null
  · subst ha; simp [Cmp.eval]
  by_cases hb : b = Val.null
  · subst hb
    have h1 : Cmp.eq.eval a Val.null = Val.null := by cases a <;> simp_all [Cmp.eval]
    have h2 : (a == Val.null) = false := by simpa using ha
    rw [h1, h2, Bool.and_false]; decide
  · have h1 : Cmp.eq.eval a b = Val.bool (a == b) := by cases a <;> cases b <;> simp_all [Cmp.eval]
    have h2 : (a != Val.null) = true := by simpa using ha
    rw [h1, bool_beq_true, h2, Bool.true_and]

/-- SQL equality of two columns holds iff the left value is not NULL and equals the right value. -/
theorem holds_eq_cols (i j : Nat) (row : Row) :
    (Expr.cmp Cmp.eq (Expr.col i) (Expr.col j)).holds row
      = (row.getD i .null != .null && row.getD i .null == row.getD j .null) := by
  simp only [Expr.holds, Expr.eval]
  exact cmp_eq_holds _ _

/-! ## `USING (key_0, …)` on two group rows -/

theorem getD_eq_getElem (l : List Val) (i : Nat) (h : i < l.length) : l.getD i .null = l[i] := by
  simp [List.getD, h]

theorem getD_left (ka kb : List Val) (ca cb : Val) (i : Nat) (hi : i < ka.length) :
    ((ka ++ [ca]) ++ (kb ++ [cb])).getD i .null = ka.getD i .null := by
  have h1 : i < (ka ++ [ca]).length := by simp; omega
  simp only [List.getD, List.getElem?_append_left h1, List.getElem?_append_left hi]

theorem getD_right (ka kb : List Val) (ca cb : Val) (i : Nat) (hi : i < kb.length) :
    ((ka ++ [ca]) ++ (kb ++ [cb])).getD (ka.length + 1 + i) .null = kb.getD i .null := by
  have h1 : (ka ++ [ca]).length ≤ ka.length + 1 + i := by simp
  have h2 : ka.length + 1 + i - (ka ++ [ca]).length = i := by simp
  simp only [List.getD, List.getElem?_append_right h1, h2, List.getElem?_append_left hi]

theorem nullFree_iff (k : List Val) : nullFree k = true ↔ ∀ v ∈ k, v ≠ Val.null := by
  simp [nullFree, List.all_eq_true]

/-- **`USING` is SQL equality of the key tuples**: on a left group row `ka ++ [count_l]` and a right group row
`kb ++ [count_r]` it holds iff `ka` has no NULL component and `ka = kb`. -/
theorem holds_usingCond (ka kb : List Val) (ca cb : Val) (h : kb.length = ka.length) :
    (usingCond ka.length).holds ((ka ++ [ca]) ++ (kb ++ [cb])) = (nullFree ka && ka == kb) := by
  rw [usingCond, holds_conj, List.all_map, Bool.eq_iff_iff, List.all_eq_true, Bool.and_eq_true,
    nullFree_iff, beq_iff_eq]
  constructor
  · intro hall
    have hpt : ∀ i, (hi : i < ka.length) → ka[i] ≠ Val.null ∧ ka[i] = kb[i]'(h ▸ hi) := by
      intro i hi
      have := hall i (List.mem_range.mpr hi)
      simp only [Function.comp, holds_eq_cols, getD_left ka kb ca cb i hi,
        getD_right ka kb ca cb i (h ▸ hi), Bool.and_eq_true, bne_iff_ne, beq_iff_eq] at this
      rw [getD_eq_getElem _ _ hi, getD_eq_getElem _ _ (h ▸ hi)] at this
      exact this
    constructor
    · intro v hv
      obtain ⟨i, hi, rfl⟩ := List.mem_iff_getElem.mp hv
      exact (hpt i hi).1
    · exact List.ext_getElem h.symm fun i h1 _ => (hpt i h1).2
  · rintro ⟨hnf, rfl⟩ i hi
    have hi := List.mem_range.mp hi
    simp only [Function.comp, holds_eq_cols, getD_left ka ka ca cb i hi, getD_right ka ka ca cb i hi,
      Bool.and_eq_true, bne_iff_ne, beq_iff_eq, and_true]
    rw [getD_eq_getElem _ _ hi]
    exact hnf _ (List.getElem_mem hi)

/-! ## The side statements -/

/-- the rows of a side statement: one per distinct key tuple (NULL components included), with its multiplicity -/
def grp (ks : List Expr) (T : List Row) : List Row :=
  ((T.map (keyOf ks)).eraseDups).map fun k => k ++ [Val.int (sizeOf ks T k : Nat)]

theorem groupRows_count (ks : List Expr) (hk : ks ≠ []) (T : List Row) :
    groupRows ks [Agg.countStar] T = grp ks T := by
  have hemp : ks.isEmpty = false := by
    cases ks with
    | nil => exact absurd rfl hk
    | cons _ _ => rfl
  simp only [groupRows, hemp, Bool.false_eq_true, if_false]
  rfl

/-! ## The join of the two side statements -/

theorem filter_beq_nodup {α : Type} [BEq α] [LawfulBEq α] (l : List α) (hn : l.Nodup) (a : α) :
    l.filter (fun b => a == b) = if a ∈ l then [a] else [] := by
  induction l with
  | nil => simp
  | cons x xs ih =>
    rw [List.nodup_cons] at hn
    rw [List.filter_cons]
    by_cases hax : a = x
    · subst hax
      have : xs.filter (fun b => a == b) = [] := by
        rw [ih hn.2]; simp [hn.1]
      simp [this]
    · have h1 : (a == x) = false := by simpa using hax
      simp [h1, ih hn.2, hax]

theorem flatMap_ite {α β : Type} (l : List α) (p : α → Bool) (f : α → β) :
    l.flatMap (fun a => if p a then [f a] else []) = (l.filter p).map f := by
  induction l with
  | nil => rfl
  | cons a l ih =>
    rw [List.flatMap_cons, ih, List.filter_cons]
    by_cases h : p a = true <;> simp [h]

theorem length_of_mem_keys (ks : List Expr) (T : List Row) (k : List Val)
    (h : k ∈ (T.map (keyOf ks)).eraseDups) : k.length = ks.length := by
  rw [List.mem_eraseDups, List.mem_map] at h
  obtain ⟨row, _, rfl⟩ := h
  simp [keyOf]

/-- the right group rows a left group row `ka ++ [ca]` joins with: the one with the same key, if `ka` is NULL-free
and present on the right -/
theorem filter_grp (kl kr : List Expr) (hlen : kr.length = kl.length) (R : List Row) (ka : List Val) (ca : Val)
    (hka : ka.length = kl.length) :
    (grp kr R).filter (fun x => (usingCond kl.length).holds ((ka ++ [ca]) ++ x))
      = if nullFree ka && (R.map (keyOf kr)).contains ka then [ka ++ [Val.int (sizeOf kr R ka : Nat)]] else [] := by
  unfold grp
  rw [List.filter_map]
  have hf : ((R.map (keyOf kr)).eraseDups).filter
        ((fun x => (usingCond kl.length).holds ((ka ++ [ca]) ++ x)) ∘ fun k => k ++ [Val.int (sizeOf kr R k : Nat)])
      = ((R.map (keyOf kr)).eraseDups).filter (fun kb => nullFree ka && ka == kb) := by
    apply List.filter_congr
    intro kb hkb
    have hkb' : kb.length = ka.length := by rw [length_of_mem_keys kr R kb hkb, hlen, hka]
    simp only [Function.comp]
    rw [← hka]
    exact holds_usingCond ka kb ca _ hkb'
  rw [hf]
  by_cases hnf : nullFree ka = true
  · simp only [hnf, Bool.true_and]
    rw [filter_beq_nodup _ (nodup_eraseDups _)]
    by_cases hm : ka ∈ (R.map (keyOf kr)).eraseDups
    · have hc : (R.map (keyOf kr)).contains ka = true := by
        rw [List.contains_iff_mem]; exact List.mem_eraseDups.mp hm
      rw [if_pos hm, if_pos hc]; rfl
    · have hc : ¬ (R.map (keyOf kr)).contains ka = true := by
        rw [List.contains_iff_mem]; exact fun h => hm (List.mem_eraseDups.mpr h)
      rw [if_neg hm, if_neg hc]; rfl
  · have hnf' : nullFree ka = false := by simpa using hnf
    simp [hnf']

/-- **The join of the two side statements, projected**: one row per block key, in the order of first occurrence on the left. -/
theorem join_grp (kl kr : List Expr) (hlen : kr.length = kl.length) (L R : List Row) (proj : List Expr) :
    (joinRows false (usingCond kl.length) (grp kl L) (grp kr R) (kl.length + 1)).map
        (fun row => proj.map (·.eval row))
      = (((L.map (keyOf kl)).eraseDups).filter fun k =>
            nullFree k && (R.map (keyOf kr)).contains k).map fun k =>
          proj.map (·.eval ((k ++ [Val.int (sizeOf kl L k : Nat)]) ++ (k ++ [Val.int (sizeOf kr R k : Nat)]))) := by
  simp only [joinRows, Bool.false_and, Bool.false_eq_true, if_false]
  rw [List.map_flatMap]
  have hL : grp kl L = ((L.map (keyOf kl)).eraseDups).map fun k => k ++ [Val.int (sizeOf kl L k : Nat)] := rfl
  rw [hL, List.flatMap_map]
  rw [← flatMap_ite]
  apply List.flatMap_congr
  intro ka hka
  have hlen' := length_of_mem_keys kl L ka hka
  rw [filter_grp kl kr hlen R ka _ hlen']
  by_cases h : (nullFree ka && (R.map (keyOf kr)).contains ka) = true
  · rw [if_pos h, if_pos h]; rfl
  · rw [if_neg h, if_neg h]; rfl

/-! ## The projections on a joined pair of group rows -/

theorem getD_cntl (k rest : List Val) (a : Val) : ((k ++ [a]) ++ rest).getD k.length .null = a := by
  have h1 : k.length < (k ++ [a]).length := by simp
  simp only [List.getD, List.getElem?_append_left h1]
  simp

theorem getD_cntr (k : List Val) (a b : Val) :
    ((k ++ [a]) ++ (k ++ [b])).getD (2 * k.length + 1) .null = b := by
  have h1 : (k ++ [a]).length ≤ 2 * k.length + 1 := by simp; omega
  have h2 : 2 * k.length + 1 - (k ++ [a]).length = k.length := by simp; omega
  simp only [List.getD, List.getElem?_append_right h1, h2]
  simp

theorem countCols_eval (k : List Val) (a b : Int) :
    (countCols k.length).map (·.eval ((k ++ [Val.int a]) ++ (k ++ [Val.int b])))
      = [Val.int a, Val.int b, Val.int (a * b)] := by
  simp only [countCols, List.map_cons, List.map_nil, Expr.eval, getD_cntl, getD_cntr, Arith.eval]

theorem keyCols_eval (k rest : List Val) :
    ((List.range k.length).map Expr.col).map (·.eval (k ++ rest)) = k := by
  apply List.ext_getElem
  · simp
  · intro i h1 h2
    have hi : i < k.length := by simpa using h1
    simp only [List.getElem_map, List.getElem_range, Expr.eval, List.getD, List.getElem?_append_left hi,
      List.getElem?_eq_getElem hi, Option.getD_some]

/-! ## Running the pipelines -/

theorem names_ne : nameBlocks ≠ nameTotal ∧ nameL ≠ nameR ∧ nameL ≠ nameBlocks ∧ nameR ≠ nameBlocks := by decide

theorem tables_ne (two : Bool) : tableL two ≠ nameL ∧ tableR two ≠ nameL ∧ tableR two ≠ nameR ∧ tableL two ≠ nameR := by
  cases two <;> decide

theorem isEmpty_false {α : Type} {l : List α} (h : l ≠ []) : l.isEmpty = false := by
  cases l with
  | nil => exact absurd rfl h
  | cons _ _ => rfl

/-- the database the join statement is evaluated on: the two side tables are the group rows of the inputs -/
theorem run_sides (two : Bool) (keys : List (Expr × Expr)) (hk : keys ≠ []) (db : Db) (proj : List Expr) :
    (Rel.project proj (joined keys.length)).eval
        (Db.set (Db.set db nameL ((sideStmt (keys.map (·.1)) (tableL two)).eval db)) nameR
          ((sideStmt (keys.map (·.2)) (tableR two)).eval
            (Db.set db nameL ((sideStmt (keys.map (·.1)) (tableL two)).eval db))))
      = (blockKeys keys (db (tableL two)) (db (tableR two))).map fun k =>
          proj.map (·.eval ((k ++ [Val.int (cntL keys (db (tableL two)) k : Nat)])
            ++ (k ++ [Val.int (cntR keys (db (tableR two)) k : Nat)]))) := by
  have h1 : (keys.map (·.1)) ≠ [] := by simpa using hk
  have h2 : (keys.map (·.2)) ≠ [] := by simpa using hk
  have hlen : (keys.map (·.2)).length = (keys.map (·.1)).length := by simp
  have hk1 : keys.length = (keys.map (·.1)).length := by simp
  rw [eval_project, joined, eval_join, eval_table, eval_table, set_same,
    set_ne _ _ _ _ names_ne.2.1, set_same]
  simp only [sideStmt, eval_groupBy, eval_table, set_ne _ _ _ _ (tables_ne two).2.1]
  rw [groupRows_count _ h1, groupRows_count _ h2, hk1]
  exact join_grp _ _ hlen _ _ proj

/-- **`__splink__block_counts`, row for row**: one row `(count_l, count_r, count_l * count_r)` per block key (a key tuple
present on both sides with no NULL component), in the order of first occurrence on the left. -/
theorem blocks_eq (two : Bool) (keys : List (Expr × Expr)) (hk : keys ≠ []) (db : Db) :
    blocks two keys db
      = (blockKeys keys (db (tableL two)) (db (tableR two))).map
          (blockRow keys (db (tableL two)) (db (tableR two))) := by
  unfold blocks countStmts preFilterStmts
  simp only [isEmpty_false hk, Bool.false_eq_true, if_false, List.cons_append, List.nil_append, runStmts]
  rw [set_ne _ _ _ _ names_ne.1, set_same]
  have := run_sides two keys hk db (countCols keys.length)
  unfold blocksStmt
  rw [this]
  apply List.map_congr_left
  intro k hk'
  have hlen : k.length = keys.length := by
    have := length_of_mem_keys (keys.map (·.1)) (db (tableL two)) k (List.mem_filter.mp hk').1
    simpa using this
  rw [← hlen, countCols_eval]
  rfl

/-- the rows `n_largest_blocks` orders: `key_0, …, count_l, count_r, block_count` per block key -/
theorem topRows_eq (two : Bool) (keys : List (Expr × Expr)) (hk : keys ≠ []) (db : Db) :
    topRows two keys db
      = (blockKeys keys (db (tableL two)) (db (tableR two))).map fun k =>
          k ++ blockRow keys (db (tableL two)) (db (tableR two)) k := by
  unfold topRows nLargestStmts preFilterStmts
  simp only [isEmpty_false hk, Bool.false_eq_true, if_false, List.cons_append, List.nil_append, runStmts]
  rw [set_same]
  -- the first `__splink__block_counts` is shadowed; the last statement reads only the two side tables
  have hsh : ∀ (d : Db) (rows : List Row), (topStmt keys.length).eval (Db.set d nameBlocks rows) = (topStmt keys.length).eval d := by
    intro d rows
    simp only [topStmt, joined, eval_project, eval_join, eval_table, set_ne _ _ _ _ names_ne.2.2.1,
      set_ne _ _ _ _ names_ne.2.2.2]
  rw [hsh]
  have := run_sides two keys hk db ((List.range keys.length).map Expr.col ++ countCols keys.length)
  unfold topStmt
  rw [this]
  apply List.map_congr_left
  intro k hk'
  have hlen : k.length = keys.length := by
    have := length_of_mem_keys (keys.map (·.1)) (db (tableL two)) k (List.mem_filter.mp hk').1
    simpa using this
  rw [← hlen, List.map_append, countCols_eval, List.append_assoc, keyCols_eval]
  rfl

/-! ## The total -/

theorem runStmts_append_single (db : Db) (l : List Stmt) (s : Stmt) :
    runStmts db (l ++ [s]) = Db.set (runStmts db l) s.name (s.rel.eval (runStmts db l)) := by
  induction l generalizing db with
  | nil => rfl
  | cons x l ih => exact ih _

theorem blocks_eq_pre (two : Bool) (keys : List (Expr × Expr)) (db : Db) :
    blocks two keys db = (runStmts db (preFilterStmts two keys)) nameBlocks := by
  unfold blocks countStmts
  rw [runStmts_append_single]
  exact set_ne _ _ _ _ names_ne.1

/-- the one-row result of the total statement: `sum(block_count)` over `__splink__block_counts` -/
theorem total_rows (two : Bool) (keys : List (Expr × Expr)) (db : Db) :
    (runStmts db (countStmts two keys)) nameTotal
      = [[sumVals ((blocks two keys db).map fun r => r.getD 2 .null)]] := by
  rw [blocks_eq_pre]
  unfold countStmts
  rw [runStmts_append_single, set_same]
  rfl

theorem sumVals_ints (l : List Int) :
    sumVals (l.map Val.int) = if l = [] then Val.null else Val.int l.sum := by
  induction l with
  | nil => rfl
  | cons v vs ih =>
    rw [List.map_cons, sumVals_cons, ih]
    by_cases h : vs = []
    · subst h; simp [sumStep]
    · simp [h, sumStep, Arith.eval]

theorem sum_natCast (l : List Nat) : (l.map fun (n : Nat) => (n : Int)).sum = ((l.sum : Nat) : Int) := by
  induction l with
  | nil => rfl
  | cons a l ih => simp only [List.map_cons, List.sum_cons, Int.natCast_add, ih]

theorem totalOf_sumVals_nat (l : List Nat) :
    totalOf [[sumVals (l.map fun (n : Nat) => Val.int (n : Int))]] = l.sum := by
  have h : (l.map fun (n : Nat) => Val.int (n : Int)) = (l.map fun (n : Nat) => (n : Int)).map Val.int := by
    rw [List.map_map]; rfl
  rw [h, sumVals_ints]
  by_cases hl : l = []
  · subst hl; rfl
  · have hl' : (l.map fun (n : Nat) => (n : Int)) ≠ [] := by simpa using hl
    rw [if_neg hl', sum_natCast]
    simp [totalOf]

/-- the reported pre-filter total is the sum of the block products -/
theorem preFilterTotal_eq_sum (two : Bool) (keys : List (Expr × Expr)) (hk : keys ≠ []) (db : Db) :
    preFilterTotal two keys db
      = ((blockKeys keys (db (tableL two)) (db (tableR two))).map fun k =>
          cntL keys (db (tableL two)) k * cntR keys (db (tableR two)) k).sum := by
  unfold preFilterTotal
  rw [total_rows, blocks_eq two keys hk, List.map_map]
  have h : ((fun r : Row => r.getD 2 Val.null) ∘ blockRow keys (db (tableL two)) (db (tableR two)))
      = ((fun (n : Nat) => Val.int (n : Int)) ∘ fun k =>
          cntL keys (db (tableL two)) k * cntR keys (db (tableR two)) k) := by
    funext k
    simp [blockRow]
  rw [h, ← List.map_map, totalOf_sumVals_nat]

/-! ## Sum of block products = size of the equi-join -/

theorem sizeOf_zero_of_not_mem (ks : List Expr) (T : List Row) (k : List Val)
    (h : (T.map (keyOf ks)).contains k = false) : BCountSql.sizeOf ks T k = 0 := by
  unfold BCountSql.sizeOf
  rw [List.length_eq_zero_iff, List.filter_eq_nil_iff]
  intro row hrow hbeq
  have : k ∈ T.map (keyOf ks) := by
    rw [List.mem_map]; exact ⟨row, hrow, by simpa using hbeq⟩
  rw [← List.contains_iff_mem, h] at this
  cases this

/-- **Double counting**: the sum over the block keys of `count_l * count_r` is the number of pairs (row of `L`, row of
`R`) whose key tuples are equal and NULL-free. -/
theorem sum_blocks_eq_equiJoin (keys : List (Expr × Expr)) (L R : List Row) :
    ((blockKeys keys L R).map fun k => cntL keys L k * cntR keys R k).sum = equiJoinSize keys L R := by
  unfold blockKeys equiJoinSize
  rw [Lemmas.BA.sum_map_filter]
  have hbk := Lemmas.BA.sum_by_key L (keyOf (keys.map (·.1)))
    (fun k => if nullFree k then cntR keys R k else 0)
    ((L.map (keyOf (keys.map (·.1)))).eraseDups) (nodup_eraseDups _)
    (fun l hl => List.mem_eraseDups.mpr (List.mem_map_of_mem hl))
  have hL : (L.map fun l => (R.filter fun r =>
        nullFree (keyOf (keys.map (·.1)) l) && keyOf (keys.map (·.1)) l == keyOf (keys.map (·.2)) r).length)
      = L.map fun l => (fun k => if nullFree k then cntR keys R k else 0) (keyOf (keys.map (·.1)) l) := by
    apply List.map_congr_left
    intro l _
    by_cases hnf : nullFree (keyOf (keys.map (·.1)) l) = true
    · simp only [hnf, Bool.true_and, if_true, cntR, BCountSql.sizeOf]
      congr 1
      apply List.filter_congr
      intro r _
      exact BEq.comm
    · have hnf' : nullFree (keyOf (keys.map (·.1)) l) = false := by simpa using hnf
      simp [hnf']
  rw [hL, hbk]
  congr 1
  apply List.map_congr_left
  intro k _
  by_cases hnf : nullFree k = true
  · by_cases hc : (R.map (keyOf (keys.map (·.2)))).contains k = true
    · simp only [hnf, hc, Bool.and_self, if_true, cntL, BCountSql.sizeOf]
    · have hc' : (R.map (keyOf (keys.map (·.2)))).contains k = false := by simpa using hc
      have hz : cntR keys R k = 0 := sizeOf_zero_of_not_mem _ _ _ hc'
      simp only [hnf, hc', Bool.and_false, Bool.false_eq_true, if_false, if_true, hz, Nat.mul_zero]
  · have hnf' : nullFree k = false := by simpa using hnf
    simp [hnf']

/-- **The pre-filter count is the size of the equi-join** (keys ≠ []). -/
theorem preFilterTotal_eq (two : Bool) (keys : List (Expr × Expr)) (hk : keys ≠ []) (db : Db) :
    preFilterTotal two keys db = equiJoinSize keys (db (tableL two)) (db (tableR two)) := by
  rw [preFilterTotal_eq_sum two keys hk, sum_blocks_eq_equiJoin]

/-! ## No equi-join key -/

theorem blocks_noKeys_self (db : Db) :
    blocks false [] db = [[Val.int ((db nameConcat).length : Nat), Val.int ((db nameConcat).length : Nat),
      Val.int (((db nameConcat).length : Nat) * ((db nameConcat).length : Nat))]] := by
  rw [blocks_eq_pre]
  simp [preFilterStmts, runStmts, set_same, Gen.BCountSql.self0Blocks, Rel.eval, Expr.eval, Agg.eval,
    Arith.eval, nameConcat]

theorem blocks_noKeys_two (db : Db) :
    blocks true [] db = [[Val.int ((db "input_0").length : Nat), Val.int ((db "input_1").length : Nat),
      Val.int (((db "input_0").length : Nat) * ((db "input_1").length : Nat))]] := by
  rw [blocks_eq_pre]
  simp [preFilterStmts, runStmts, set_same, Gen.BCountSql.two0Blocks, Rel.eval, Expr.eval, Agg.eval,
    Arith.eval, Expr.holds]

theorem tables_two : tableL true = "input_0" ∧ tableR true = "input_1" ∧ tableL false = nameConcat ∧ tableR false = nameConcat :=
  ⟨rfl, rfl, rfl, rfl⟩

theorem totalOf_single (a b : Nat) :
    totalOf [[sumVals ([[Val.int (a : Nat), Val.int (b : Nat), Val.int ((a : Nat) * (b : Nat))]].map
      fun r => r.getD 2 Val.null)]] = a * b := by
  have h : ((a : Int) * (b : Int)).toNat = a * b := by
    rw [← Int.natCast_mul]; exact Int.toNat_natCast _
  show totalOf [[sumStep (Val.int ((a : Nat) * (b : Nat))) Val.null]] = a * b
  exact h

/-- **No key: `|L| · |R|`** (both set-ups). -/
theorem preFilterTotal_noKeys (two : Bool) (db : Db) :
    preFilterTotal two [] db = (db (tableL two)).length * (db (tableR two)).length := by
  unfold preFilterTotal
  rw [total_rows]
  cases two
  · rw [blocks_noKeys_self]
    exact totalOf_single _ _
  · rw [blocks_noKeys_two]
    exact totalOf_single _ _

/-! ## The block keys -/

theorem nodup_blockKeys (keys : List (Expr × Expr)) (L R : List Row) : (blockKeys keys L R).Nodup :=
  (nodup_eraseDups _).filter _

theorem mem_blockKeys (keys : List (Expr × Expr)) (L R : List Row) (k : List Val) :
    k ∈ blockKeys keys L R ↔
      (∃ l ∈ L, keyOf (keys.map (·.1)) l = k) ∧ (∃ r ∈ R, keyOf (keys.map (·.2)) r = k) ∧ ∀ v ∈ k, v ≠ Val.null := by
  unfold blockKeys
  rw [List.mem_filter, List.mem_eraseDups, List.mem_map, Bool.and_eq_true, nullFree_iff, List.contains_iff_mem,
    List.mem_map]
  constructor
  · rintro ⟨h1, h2, h3⟩; exact ⟨h1, h3, h2⟩
  · rintro ⟨h1, h3, h2⟩; exact ⟨h1, h2, h3⟩

theorem sizeOf_pos (ks : List Expr) (T : List Row) (k : List Val) (h : ∃ row ∈ T, keyOf ks row = k) :
    0 < BCountSql.sizeOf ks T k := by
  obtain ⟨row, hrow, rfl⟩ := h
  unfold BCountSql.sizeOf
  apply List.length_pos_of_mem (a := row)
  rw [List.mem_filter]
  exact ⟨hrow, by simp⟩

theorem blockRow_injective (keys : List (Expr × Expr)) (L R : List Row) (a b : List Val)
    (hlen : a.length = b.length) (h : a ++ blockRow keys L R a = b ++ blockRow keys L R b) : a = b :=
  (List.append_inj h hlen).1

theorem length_of_mem_blockKeys (keys : List (Expr × Expr)) (L R : List Row) (k : List Val)
    (h : k ∈ blockKeys keys L R) : k.length = keys.length := by
  have := length_of_mem_keys (keys.map (·.1)) L k (List.mem_filter.mp h).1
  simpa using this

/-! ## `ORDER BY … LIMIT n` -/

theorem isOrderLimit_spec {key : Expr} {desc : Bool} {n : Nat} {rows out : List Row}
    (h : IsOrderLimit key desc n rows out) :
    out.length = min n rows.length ∧ out.Pairwise (mayPrecede key desc) ∧
      ∃ rest, (out ++ rest).Perm rows ∧ ∀ a ∈ out, ∀ b ∈ rest, mayPrecede key desc a b := by
  obtain ⟨sorted, hperm, hsorted, rfl⟩ := h
  refine ⟨?_, ?_, sorted.drop n, ?_, ?_⟩
  · rw [List.length_take, hperm.length_eq]
  · exact hsorted.sublist (List.take_sublist n sorted)
  · rw [List.take_append_drop]; exact hperm
  · have := hsorted
    rw [← List.take_append_drop n sorted, List.pairwise_append] at this
    exact this.2.2

theorem strictlyBefore_int {key : Expr} {desc : Bool} {a b : Row} {x y : Int}
    (ha : key.eval a = Val.int x) (hb : key.eval b = Val.int y) :
    strictlyBefore key desc a b = if desc then decide (y < x) else decide (x < y) := by
  unfold strictlyBefore
  rw [ha, hb]
  rfl

theorem mayPrecede_int {key : Expr} {desc : Bool} {a b : Row} {x y : Int}
    (ha : key.eval a = Val.int x) (hb : key.eval b = Val.int y) :
    mayPrecede key desc a b ↔ if desc then y ≤ x else x ≤ y := by
  unfold mayPrecede
  rw [strictlyBefore_int hb ha]
  cases desc <;> simp

theorem insertByKey_perm (key : Expr) (desc : Bool) (r : Row) :
    ∀ l : List Row, (insertByKey key desc r l).Perm (r :: l)
  | [] => List.Perm.refl _
  | c :: cs => by
    by_cases hb : strictlyBefore key desc r c = true
    · rw [insertByKey, if_pos hb]
    · rw [insertByKey, if_neg hb]
      exact ((insertByKey_perm key desc r cs).cons c).trans (List.Perm.swap r c cs)

theorem insertByKey_sorted (key : Expr) (desc : Bool) (r : Row) (x : Int) (hr : key.eval r = Val.int x) :
    ∀ l : List Row, (∀ c ∈ l, ∃ y, key.eval c = Val.int y) → l.Pairwise (mayPrecede key desc) →
      (insertByKey key desc r l).Pairwise (mayPrecede key desc)
  | [], _, _ => by simp [insertByKey]
  | c :: cs, hint, h => by
    obtain ⟨y, hy⟩ := hint c List.mem_cons_self
    have hint' : ∀ c ∈ cs, ∃ y, key.eval c = Val.int y := fun c hc => hint c (List.mem_cons_of_mem _ hc)
    have h' := List.pairwise_cons.mp h
    by_cases hb : strictlyBefore key desc r c = true
    · rw [insertByKey, if_pos hb, List.pairwise_cons]
      refine ⟨?_, h⟩
      intro z hz
      rw [strictlyBefore_int hr hy] at hb
      rcases List.mem_cons.mp hz with rfl | hz
      · rw [mayPrecede_int hr hy]
        cases desc <;> simp at hb ⊢ <;> omega
      · obtain ⟨w, hw⟩ := hint' z hz
        have hcz := (mayPrecede_int hy hw).mp (h'.1 z hz)
        rw [mayPrecede_int hr hw]
        cases desc <;> simp at hb hcz ⊢ <;> omega
    · rw [insertByKey, if_neg hb, List.pairwise_cons]
      refine ⟨?_, insertByKey_sorted key desc r x hr cs hint' h'.2⟩
      intro z hz
      rcases List.mem_cons.mp ((insertByKey_perm key desc r cs).subset hz) with rfl | hz
      · unfold mayPrecede
        simpa using hb
      · exact h'.1 z hz

/-- The executable resolution is a possible result when the keys are integers. -/
theorem isOrderLimit_orderLimit (key : Expr) (desc : Bool) (n : Nat) (rows : List Row)
    (hint : ∀ r ∈ rows, ∃ x, key.eval r = Val.int x) :
    IsOrderLimit key desc n rows (orderLimit key desc n rows) := by
  refine ⟨rows.foldr (insertByKey key desc) [], ?_, ?_, rfl⟩
  · induction rows with
    | nil => exact List.Perm.refl _
    | cons r rows ih =>
      exact (insertByKey_perm key desc r _).trans
        ((ih fun r hr => hint r (List.mem_cons_of_mem _ hr)).cons r)
  · induction rows with
    | nil => exact List.Pairwise.nil
    | cons r rows ih =>
      have hint' : ∀ r ∈ rows, ∃ x, key.eval r = Val.int x := fun r hr => hint r (List.mem_cons_of_mem _ hr)
      obtain ⟨x, hx⟩ := hint r List.mem_cons_self
      have hperm : (rows.foldr (insertByKey key desc) []).Perm rows := by
        clear ih hint hx
        induction rows with
        | nil => exact List.Perm.refl _
        | cons r rows ih =>
          exact (insertByKey_perm key desc r _).trans
            ((ih fun r hr => hint' r (List.mem_cons_of_mem _ hr)).cons r)
      exact insertByKey_sorted key desc r x hx _ (fun c hc => hint' c (hperm.subset hc)) (ih hint')

theorem perm_map_exists {α β : Type} (f : α → β) :
    ∀ (m : List β) (l : List α), m.Perm (l.map f) → ∃ l' : List α, l'.Perm l ∧ m = l'.map f
  | [], l, h => by
    have : l.map f = [] := List.perm_nil.mp h.symm
    have hl : l = [] := by simpa using this
    exact ⟨[], by rw [hl], rfl⟩
  | b :: m, l, h => by
    have hb : b ∈ l.map f := h.subset List.mem_cons_self
    obtain ⟨a, ha, rfl⟩ := List.mem_map.mp hb
    obtain ⟨s, t, rfl⟩ := List.append_of_mem ha
    have h2 : (f a :: m).Perm (f a :: (s ++ t).map f) := by
      refine h.trans ?_
      rw [List.map_append, List.map_cons, List.map_append]
      exact List.perm_middle
    obtain ⟨l'', hl'', rfl⟩ := perm_map_exists f m (s ++ t) (List.Perm.cons_inv h2)
    exact ⟨a :: l'', (hl''.cons a).trans List.perm_middle.symm, rfl⟩

/-! ## `n_largest_blocks` -/

/-- the `ORDER BY` key on a top row: `count_l * count_r` -/
theorem topKey_eval (keys : List (Expr × Expr)) (L R : List Row) (k : List Val) (hlen : k.length = keys.length) :
    (topKey keys.length).eval (k ++ blockRow keys L R k)
      = Val.int ((cntL keys L k : Nat) * (cntR keys R k : Nat)) := by
  rw [← hlen]
  have h1 : (k ++ blockRow keys L R k).getD k.length Val.null = Val.int (cntL keys L k : Nat) := by
    simp [List.getD, blockRow]
  have h2 : (k ++ blockRow keys L R k).getD (k.length + 1) Val.null = Val.int (cntR keys R k : Nat) := by
    simp [List.getD, blockRow]
  simp only [topKey, Expr.eval, h1, h2, Arith.eval]

/-- **`n_largest_blocks` returns the truly largest blocks, for every resolution of ties.**  Every possible result `out` of the
final `ORDER BY count_l * count_r DESC LIMIT n` over the top rows: has `min n (#blocks)` rows; each row is a block
(`key ++ (count_l, count_r, count_l * count_r)` of a block key); no block is listed twice; the listed blocks are in
descending order of size; no omitted block is larger than a listed one. -/
theorem nLargest_spec (two : Bool) (keys : List (Expr × Expr)) (hk : keys ≠ []) (db : Db) (n : Nat) (out : List Row)
    (h : IsNLargest two keys db n out) :
    let L := db (tableL two)
    let R := db (tableR two)
    ∃ ks : List (List Val),
      out = ks.map (fun k => k ++ blockRow keys L R k) ∧
      ks.Nodup ∧ (∀ k ∈ ks, k ∈ blockKeys keys L R) ∧
      ks.length = min n (blockKeys keys L R).length ∧
      ks.Pairwise (fun a b => cntL keys L a * cntR keys R a ≥ cntL keys L b * cntR keys R b) ∧
      ∀ a ∈ ks, ∀ b ∈ blockKeys keys L R, b ∉ ks →
        cntL keys L a * cntR keys R a ≥ cntL keys L b * cntR keys R b := by
  intro L R
  unfold IsNLargest at h
  rw [topRows_eq two keys hk] at h
  obtain ⟨sorted, hperm, hsorted, rfl⟩ := h
  -- the arrangement is the image of an arrangement of the block keys
  obtain ⟨ks', hks', rfl⟩ := perm_map_exists (fun k => k ++ blockRow keys L R k) sorted _ hperm
  have hlenk : ∀ k ∈ ks', k.length = keys.length := fun k hk' =>
    length_of_mem_blockKeys keys L R k (hks'.subset hk')
  have hpw : ks'.Pairwise (fun a b => cntL keys L a * cntR keys R a ≥ cntL keys L b * cntR keys R b) := by
    rw [List.pairwise_map] at hsorted
    refine hsorted.imp_of_mem ?_
    intro a b ha hb hab
    rw [mayPrecede_int (topKey_eval keys L R a (hlenk a ha)) (topKey_eval keys L R b (hlenk b hb))] at hab
    simp only [if_true] at hab
    exact_mod_cast hab
  refine ⟨ks'.take n, ?_, ?_, ?_, ?_, ?_, ?_⟩
  · rw [List.map_take]
  · exact (hks'.nodup_iff.mpr (nodup_blockKeys keys L R)).sublist (List.take_sublist _ _)
  · exact fun k hk' => hks'.subset ((List.take_sublist _ _).subset hk')
  · rw [List.length_take, hks'.length_eq]
  · exact hpw.sublist (List.take_sublist _ _)
  · intro a ha b hb hnb
    have hb' : b ∈ ks'.take n ++ ks'.drop n := by
      rw [List.take_append_drop]; exact hks'.symm.subset hb
    rcases List.mem_append.mp hb' with hb' | hb'
    · exact absurd hb' hnb
    · rw [← List.take_append_drop n ks', List.pairwise_append] at hpw
      exact hpw.2.2 a ha b hb'

/-! ## Bridge to the functional model `BlockingAnalysis.preFilterCount` -/

/-- The functional model's key of record `i` of table `T`: a code of the key tuple, `none` when a component is NULL
(what `harness/props/c14.py: model_request` sends). -/
def codedKey (code : List Val → Nat) (ks : List Expr) (T : List Row) (i : Nat) : Option Nat :=
  let k := keyOf ks (T.getD i [])
  if nullFree k then some (code k) else none

theorem map_range_getD (T : List Row) : (List.range T.length).map (fun i => T.getD i []) = T := by
  apply List.ext_getElem
  · simp
  · intro i h1 h2
    simp [List.getD, h2]

theorem getD_mem (T : List Row) (i : Nat) (h : i ∈ List.range T.length) : T.getD i [] ∈ T := by
  have hi := List.mem_range.mp h
  simp [List.getD, hi]

theorem length_filter_reindex (T : List Row) (p : Row → Bool) :
    (T.filter p).length = ((List.range T.length).filter fun j => p (T.getD j [])).length := by
  conv_lhs => rw [← map_range_getD T, List.filter_map, List.length_map]
  rfl

theorem coded_match (code : List Val → Nat) (a b : List Val) (hinj : code a = code b → a = b) :
    ((if nullFree a then some (code a) else none : Option Nat).isSome &&
        (if nullFree a then some (code a) else none : Option Nat) == (if nullFree b then some (code b) else none))
      = (nullFree a && a == b) := by
  by_cases hna : nullFree a = true
  · by_cases hab : a = b
    · subst hab
      simp [hna]
    · have hab' : (a == b) = false := by simpa using hab
      have hc : ¬ code a = code b := fun h => hab (hinj h)
      by_cases hnb : nullFree b = true
      · simp [hna, hnb, hab', hc]
      · have hnb' : nullFree b = false := by simpa using hnb
        simp [hna, hnb', hab']
  · have hna' : nullFree a = false := by simpa using hna
    simp [hna']

/-- **The SQL total is the functional model's `preFilterCount`** on record indices and coded keys, for every coding that is
injective on the key tuples in play. -/
theorem equiJoinSize_eq_model (keys : List (Expr × Expr)) (L R : List Row) (code : List Val → Nat)
    (hinj : ∀ a ∈ L.map (keyOf (keys.map (·.1))) ++ R.map (keyOf (keys.map (·.2))),
            ∀ b ∈ L.map (keyOf (keys.map (·.1))) ++ R.map (keyOf (keys.map (·.2))), code a = code b → a = b) :
    equiJoinSize keys L R =
      BlockingAnalysis.preFilterCount (List.range L.length) (List.range R.length)
        (codedKey code (keys.map (·.1)) L) (codedKey code (keys.map (·.2)) R) := by
  rw [Lemmas.BA.preFilterCount_eq, Lemmas.BA.length_joinFilter]
  unfold equiJoinSize
  conv_lhs => rw [← map_range_getD L, List.map_map]
  apply congrArg
  apply List.map_congr_left
  intro i hi
  simp only [Function.comp]
  rw [length_filter_reindex]
  congr 1
  apply List.filter_congr
  intro j hj
  have ha : keyOf (keys.map (·.1)) (L.getD i []) ∈
      L.map (keyOf (keys.map (·.1))) ++ R.map (keyOf (keys.map (·.2))) :=
    List.mem_append_left _ (List.mem_map_of_mem (getD_mem L i hi))
  have hb : keyOf (keys.map (·.2)) (R.getD j []) ∈
      L.map (keyOf (keys.map (·.1))) ++ R.map (keyOf (keys.map (·.2))) :=
    List.mem_append_right _ (List.mem_map_of_mem (getD_mem R j hj))
  exact (coded_match code _ _ (hinj _ ha _ hb)).symm

/-- the resolution the driver evaluates is a possible result of `n_largest_blocks` -/
theorem isNLargest_nLargest (two : Bool) (keys : List (Expr × Expr)) (hk : keys ≠ []) (db : Db) (n : Nat) :
    IsNLargest two keys db n (nLargest two keys db n) := by
  unfold IsNLargest nLargest
  apply isOrderLimit_orderLimit
  intro r hr
  rw [topRows_eq two keys hk, List.mem_map] at hr
  obtain ⟨k, hk', rfl⟩ := hr
  exact ⟨_, topKey_eval keys _ _ k (length_of_mem_blockKeys keys _ _ k hk')⟩

/-! ## `__splink__df_concat` -/

theorem gen_concat :
    Gen.BCountSql.self1Concat = concatStmt 7 ["input_0"] ∧
    Gen.BCountSql.self2Concat = concatStmt 7 ["input_0", "input_1"] ∧
    Gen.BCountSql.self3Concat = concatStmt 7 ["input_0", "input_1", "input_2"] ∧
    Gen.BCountSql.self0Concat = concatStmt 7 ["input_0"] ∧
    Gen.BCountSql.nlSelf1Concat = concatStmt 7 ["input_0"] ∧
    Gen.BCountSql.nlSelf3Concat = concatStmt 7 ["input_0", "input_1", "input_2"] := ⟨rfl, rfl, rfl, rfl, rfl, rfl⟩

theorem cols_eval_self (row : Row) : ((List.range row.length).map Expr.col).map (·.eval row) = row := by
  have := keyCols_eval row []
  rwa [List.append_nil] at this

theorem concatOne_eval (w : Nat) (n : String) (db : Db) (hw : ∀ row ∈ db n, row.length = w) :
    (concatOne w n).eval db = db n := by
  rw [concatOne, eval_project, eval_table]
  conv_rhs => rw [← List.map_id (db n)]
  apply List.map_congr_left
  intro row hrow
  rw [← hw row hrow]
  exact cols_eval_self row

theorem concatTerm_eval (w : Nat) (n : String) (db : Db) (hw : ∀ row ∈ db n, row.length = w) :
    (concatTerm w n).eval db = (db n).map fun row => Val.str n :: row := by
  rw [concatTerm, eval_project, eval_table]
  apply List.map_congr_left
  intro row hrow
  rw [List.map_cons, ← hw row hrow, cols_eval_self]
  rfl

theorem foldl_union_eval (w : Nat) (db : Db) (ns : List String) (acc : Rel)
    (hw : ∀ n ∈ ns, ∀ row ∈ db n, row.length = w) :
    (ns.foldl (fun acc m => Rel.union true acc (concatTerm w m)) acc).eval db
      = acc.eval db ++ ns.flatMap fun n => (db n).map fun row => Val.str n :: row := by
  induction ns generalizing acc with
  | nil => simp
  | cons m ns ih =>
    rw [List.foldl_cons, ih _ (fun n hn => hw n (List.mem_cons_of_mem _ hn)), eval_union_all,
      concatTerm_eval w m db (hw m List.mem_cons_self), List.flatMap_cons, List.append_assoc]

/-- **`__splink__df_concat` holds the rows of the input tables, in order** (prefixed with the table's alias as
`source_dataset` when there are several), provided every input row has the `w` columns the statement lists. -/
theorem concat_eval (w : Nat) (names : List String) (hne : names ≠ []) (db : Db)
    (hw : ∀ n ∈ names, ∀ row ∈ db n, row.length = w) :
    (concatStmt w names).eval db = concatRows names db := by
  match names, hne, hw with
  | [n], _, hw => exact concatOne_eval w n db (hw n List.mem_cons_self)
  | n :: m :: ns, _, hw =>
    show ((m :: ns).foldl (fun acc m => Rel.union true acc (concatTerm w m)) (concatTerm w n)).eval db = _
    rw [foldl_union_eval w db (m :: ns) _ (fun k hk => hw k (List.mem_cons_of_mem _ hk)),
      concatTerm_eval w n db (hw n List.mem_cons_self)]
    rfl

/-- the whole self-join pipeline, `__splink__df_concat` included: the total is the size of the equi-join of the
concatenated rows with themselves -/
theorem selfCount_total (w : Nat) (names : List String) (hne : names ≠ []) (keys : List (Expr × Expr)) (hk : keys ≠ [])
    (db : Db) (hw : ∀ n ∈ names, ∀ row ∈ db n, row.length = w) :
    totalOf ((runStmts db (selfCountStmts w names keys)) nameTotal)
      = equiJoinSize keys (concatRows names db) (concatRows names db) := by
  have h := preFilterTotal_eq false keys hk (Db.set db nameConcat ((concatStmt w names).eval db))
  rw [tables_two.2.2.1, tables_two.2.2.2, set_same] at h
  rw [← concat_eval w names hne db hw]
  exact h

/-! ## `_row_counts_per_input_table` -/

theorem rowCounts_dedupe (sd : Expr) (db : Db) :
    rowCounts true sd db = [[Val.int ((db nameConcat).length : Nat)]] := rfl

/-- one row per distinct value of the source dataset column (NULL included), in the order of first occurrence, holding the
number of rows with that value -/
theorem rowCounts_bySd (sd : Expr) (db : Db) :
    rowCounts false sd db
      = (((db nameConcat).map sd.eval).eraseDups).map fun s =>
          [Val.int (((db nameConcat).filter fun r => sd.eval r == s).length : Nat)] := by
  show (Rel.project [Expr.col 1] (Rel.groupBy [sd] [Agg.countStar] (Rel.table nameConcat))).eval db = _
  rw [eval_project, eval_groupBy, eval_table, groupRows_count _ (by simp)]
  unfold grp
  have hk : (db nameConcat).map (keyOf [sd]) = ((db nameConcat).map sd.eval).map fun v => [v] := by
    rw [List.map_map]; rfl
  rw [hk, Lemmas.AccSql.eraseDups_map_inj (fun v : Val => [v]) (fun a b h => by simpa using h), List.map_map,
    List.map_map]
  apply List.map_congr_left
  intro s _
  simp only [Function.comp, List.map_cons, List.map_nil, Expr.eval, BCountSql.sizeOf, keyOf]
  simp [List.getD]

theorem code_beq {code : Val → Nat} (hinj : ∀ a b, code a = code b → a = b) (a b : Val) :
    (code a == code b) = (a == b) := by
  by_cases h : a = b
  · subst h; simp
  · have : code a ≠ code b := fun h' => h (hinj _ _ h')
    simp [h, this]

/-- **The per-dataset row counts are the functional model's `sdCounts`** for every table `t` whose source-dataset function is an
injective coding of the values of the source dataset column. -/
theorem countsOf_bySd (sd : Expr) (db : Db) (t : Blocking.Table) (code : Val → Nat)
    (hinj : ∀ a b, code a = code b → a = b) (hm : t.m = (db nameConcat).length)
    (hsd : ∀ i, i < t.m → t.sd i = code (sd.eval ((db nameConcat).getD i []))) :
    countsOf (rowCounts false sd db) = Lemmas.BA.sdCounts t := by
  rw [rowCounts_bySd]
  unfold Lemmas.BA.sdCounts countsOf
  have hmap : (List.range t.m).map t.sd = ((db nameConcat).map sd.eval).map code := by
    conv_rhs => rw [← map_range_getD (db nameConcat), List.map_map, List.map_map, ← hm]
    apply List.map_congr_left
    intro i hi
    exact hsd i (List.mem_range.mp hi)
  rw [hmap, Lemmas.AccSql.eraseDups_map_inj code hinj, List.map_map, List.map_map]
  apply List.map_congr_left
  intro s _
  simp only [Function.comp, Int.toNat_natCast]
  rw [length_filter_reindex, hm]
  congr 1
  apply List.filter_congr
  intro i hi
  rw [hsd i (hm ▸ List.mem_range.mp hi), code_beq hinj]

end SplinkVerif.Lemmas.BCountSql
