import SplinkVerif.Model.EM
import SplinkVerif.Lemmas.Score
import SplinkVerif.Lemmas.EMLikelihood
import Mathlib.Algebra.BigOperators.Fin
/-!
# Bridge: the executable E-step (`EM.eProb`) is the abstract posterior (`EML.post`)

For parameters without term-frequency adjustments and without `u = 0`, at `ℝ`.

* `LevelCorr`: how one executable comparison + the row's condition outcomes
  correspond to the abstract `(γ c, m c, u c)`;
* `eProb_eq_post`: under that correspondence `EM.eProb θ r = EML.post θa γ`;
* `absParams`, `absPattern`: a concrete abstraction (levels indexed by their position in the
  comparison; the null level's position is never the value of a pattern) and
  `levelCorr_abs`, `eProb_eq_post_abs`: the correspondence holds for it.
-/
namespace SplinkVerif.Lemmas.EMBridge
open SplinkVerif SplinkVerif.Score SplinkVerif.Lemmas.Score
open SplinkVerif.Lemmas

/-- The executable comparison `comp` evaluated on the condition outcomes `gs` selects a
level `l` (the first one carrying the value `gamma` returns) which is either the null level,
matched by the abstract null (`none`), or a non-null level whose `m`, `u` are the abstract
values of the abstract level `i`. -/
def LevelCorr {k : ℕ} (comp : Comparison ℝ) (gs : List B3) (o : Option (Fin k))
    (mc uc : Fin k → ℝ) : Prop :=
  ∃ l : Level ℝ, gamma comp gs = some l.cvv ∧
    comp.find? (fun l' => l'.cvv == l.cvv) = some l ∧
    ((l.isNull = true ∧ o = none) ∨
      (l.isNull = false ∧ ∃ i, o = some i ∧ l.m = mc i ∧ l.u = uc i))

theorem bfColumn_of_corr {k : ℕ} (comp : Comparison ℝ) (gs : List B3) (o : Option (Fin k))
    (mc uc : Fin k → ℝ) (hu : ∀ i, o = some i → uc i ≠ 0) (h : LevelCorr comp gs o mc uc) :
    bfColumn comp (gamma comp gs) = some (Fac.fin (EML.optFac o mc / EML.optFac o uc)) := by
  obtain ⟨l, hg, hf, hcase⟩ := h
  rw [hg]
  simp only [bfColumn, hf, Option.map_some, levelBF_eq]
  rcases hcase with ⟨hn, ho⟩ | ⟨hn, i, ho, hm, hu'⟩
  · subst ho
    simp [hn, EML.optFac]
  · subst ho
    simp [hn, EML.optFac, hm, hu', hu i rfl]

theorem flatMap_singleton_of {β γ : Type} (xs : List β) (f : β → List γ) (g : β → γ)
    (h : ∀ x ∈ xs, f x = [g x]) : xs.flatMap f = xs.map g := by
  induction xs with
  | nil => rfl
  | cons x xs ih =>
    rw [List.flatMap_cons, List.map_cons, h x (by simp), ih fun y hy => h y (by simp [hy])]
    rfl

/-- the SQL's list of Bayes-factor columns, as the list of abstract `m/u` ratios -/
theorem allTerms_eq {C : ℕ} {L : Fin C → ℕ} (cs : List (Comparison ℝ)) (p : Pair ℝ)
    (θa : EML.Params C L) (γ : EML.Pattern C L)
    (hlen : cs.length = C) (hg : p.guards.length = C)
    (hnotf : ∀ c ∈ cs, hasTf c = false)
    (hu : ∀ c l, γ c = some l → θa.u c l ≠ 0)
    (hcorr : ∀ c : Fin C, LevelCorr (cs[c.val]'(by omega)) (p.guards[c.val]'(by omega))
      (γ c) (θa.m c) (θa.u c)) :
    allTerms cs p =
      (List.ofFn fun c : Fin C => EML.fac θa.m γ c / EML.fac θa.u γ c).map
        fun x => some (Fac.fin x) := by
  unfold allTerms
  rw [flatMap_singleton_of _ _ (fun q => bfColumn q.1 (gamma q.1 q.2))]
  · apply List.ext_getElem
    · simp [hlen, hg]
    · intro i h1 h2
      have hi : i < C := by simpa [hlen, hg] using h1
      simp only [List.getElem_map, List.getElem_zip, List.getElem_ofFn]
      exact bfColumn_of_corr _ _ _ _ _ (hu ⟨i, hi⟩) (hcorr ⟨i, hi⟩)
  · rintro ⟨c, gs⟩ hmem
    have := hnotf c (List.of_mem_zip hmem).1
    simp [comparisonTerms, this]

/-- **Bridge.**  The executable E-step probability of a row is the abstract posterior of the
corresponding pattern under the corresponding parameters. -/
theorem eProb_eq_post {C : ℕ} {L : Fin C → ℕ} (θ : EM.Params ℝ) (r : EM.Row ℝ)
    (θa : EML.Params C L) (γ : EML.Pattern C L)
    (hprior : θ.prior = θa.lam) (hl0 : 0 < θa.lam) (hl1 : θa.lam < 1)
    (hm : ∀ c l, γ c = some l → 0 < θa.m c l) (hu : ∀ c l, γ c = some l → 0 < θa.u c l)
    (hlen : θ.comps.length = C) (hg : r.pair.guards.length = C)
    (hnotf : ∀ c ∈ θ.comps, hasTf c = false)
    (hcorr : ∀ c : Fin C, LevelCorr (θ.comps[c.val]'(by omega)) (r.pair.guards[c.val]'(by omega))
      (γ c) (θa.m c) (θa.u c)) :
    EM.eProb θ r = EML.post θa γ := by
  have hT := allTerms_eq θ.comps r.pair θa γ hlen hg hnotf (fun c l h => (hu c l h).ne') hcorr
  have hfm : ∀ c, 0 < EML.fac θa.m γ c := fun c => EML.optFac_pos _ _ fun l h => hm c l h
  have hfu : ∀ c, 0 < EML.fac θa.u γ c := fun c => EML.optFac_pos _ _ fun l h => hu c l h
  have hP : 0 < ∏ c, EML.fac θa.m γ c := Finset.prod_pos fun c _ => hfm c
  have hR : 0 < ∏ c, EML.fac θa.u γ c := Finset.prod_pos fun c _ => hfu c
  unfold EM.eProb score
  simp only [hT, product_fin, Option.map_some]
  rw [probOf_fin]
  · rw [List.prod_ofFn, Finset.prod_div_distrib, hprior]
    unfold EML.post EML.lik EML.pm EML.pu
    have h1 : (1 : ℝ) - θa.lam ≠ 0 := by linarith
    have h2 : 0 < θa.lam * ∏ c, EML.fac θa.m γ c + (1 - θa.lam) * ∏ c, EML.fac θa.u γ c := by
      have : 0 < 1 - θa.lam := by linarith
      positivity
    field_simp
    rw [div_eq_one_iff_eq (by linarith)]
    ring
  · intro t ht f hf
    rw [List.mem_map] at ht
    obtain ⟨x, _, rfl⟩ := ht
    cases hf
    rfl

/-! ## A concrete abstraction: levels indexed by their position -/

/-- position of the first level carrying the value `v` -/
def findLevel : (comp : Comparison ℝ) → Int → Option (Fin comp.length)
  | [], _ => none
  | l :: ls, v => if l.cvv == v then some ⟨0, by simp⟩ else (findLevel ls v).map Fin.succ

theorem find?_eq_findLevel (comp : Comparison ℝ) (v : Int) :
    comp.find? (fun l' => l'.cvv == v) = (findLevel comp v).map fun i => comp[i.val] := by
  induction comp with
  | nil => rfl
  | cons l ls ih =>
    by_cases h : (l.cvv == v) = true
    · simp [findLevel, h]
    · simp only [findLevel, List.find?_cons, h, Bool.false_eq_true, if_false, Option.map_map]
      rw [ih]
      congr 1

theorem gamma_mem {α : Type} (c : Comparison α) (gs : List B3) (v : Int)
    (h : gamma c gs = some v) : ∃ l ∈ c, l.cvv = v := by
  induction c generalizing gs with
  | nil => simp [gamma] at h
  | cons l ls ih =>
    by_cases he : l.isElse = true
    · simp [gamma, he] at h
      exact ⟨l, by simp, h⟩
    · cases gs with
      | nil => simp [gamma, he] at h
      | cons g gs' =>
        by_cases hg : B3.isTrue g = true
        · simp [gamma, he, hg] at h
          exact ⟨l, by simp, h⟩
        · simp [gamma, he, hg] at h
          obtain ⟨l', hl', hv⟩ := ih gs' h
          exact ⟨l', by simp [hl'], hv⟩

/-- the abstract level of a row in one comparison: the position of the selected level,
`none` when that level is the null level -/
def patOf (comp : Comparison ℝ) (gs : List B3) : Option (Fin comp.length) :=
  (gamma comp gs).bind fun v => (findLevel comp v).bind fun i =>
    if comp[i.val].isNull then none else some i

theorem levelCorr_patOf (comp : Comparison ℝ) (gs : List B3)
    (htot : (gamma comp gs).isSome = true) :
    LevelCorr comp gs (patOf comp gs) (fun i => comp[i.val].m) (fun i => comp[i.val].u) := by
  obtain ⟨v, hv⟩ := Option.isSome_iff_exists.1 htot
  obtain ⟨l0, hl0, hl0v⟩ := gamma_mem comp gs v hv
  have hsome : (comp.find? fun l' => l'.cvv == v).isSome = true := by
    rw [List.find?_isSome]
    exact ⟨l0, hl0, by simp [hl0v]⟩
  obtain ⟨l, hl⟩ := Option.isSome_iff_exists.1 hsome
  have hlv : l.cvv = v := by
    have := List.find?_some hl
    simpa using this
  have hfl := find?_eq_findLevel comp v
  rw [hl] at hfl
  cases hi : findLevel comp v with
  | none => rw [hi] at hfl; simp at hfl
  | some i =>
    rw [hi] at hfl
    simp only [Option.map_some, Option.some.injEq] at hfl
    refine ⟨l, by rw [hlv]; exact hv, by rw [hlv]; exact hl, ?_⟩
    by_cases hn : l.isNull = true
    · left
      refine ⟨hn, ?_⟩
      simp [patOf, hv, hi, ← hfl, hn]
    · right
      have hn' : l.isNull = false := by simpa using hn
      refine ⟨hn', i, ?_, by rw [hfl], by rw [hfl]⟩
      simp [patOf, hv, hi, ← hfl, hn']

/-- number of level positions of comparison `c` -/
def absL (θ : EM.Params ℝ) : Fin θ.comps.length → ℕ := fun c => (θ.comps[c.val]).length

/-- the abstract parameters of executable parameters -/
def absParams (θ : EM.Params ℝ) : EML.Params θ.comps.length (absL θ) where
  lam := θ.prior
  m := fun c i => ((θ.comps[c.val])[i.val]'i.isLt).m
  u := fun c i => ((θ.comps[c.val])[i.val]'i.isLt).u

/-- the abstract agreement pattern of a row -/
def absPattern (θ : EM.Params ℝ) (r : EM.Row ℝ) : EML.Pattern θ.comps.length (absL θ) :=
  fun c => patOf θ.comps[c.val] (r.pair.guards[c.val]?.getD [])

/-- **Bridge, concrete form.**  For TF-free parameters whose non-null levels have positive
`m` and `u`, on a row for which every comparison assigns a level (e.g. every comparison
has an `ELSE` level: `Lemmas.Score.gamma_total`), the executable E-step probability is the
abstract posterior of `absPattern θ r` under `absParams θ`. -/
theorem eProb_eq_post_abs (θ : EM.Params ℝ) (r : EM.Row ℝ)
    (hl0 : 0 < θ.prior) (hl1 : θ.prior < 1)
    (hg : r.pair.guards.length = θ.comps.length)
    (hnotf : ∀ c ∈ θ.comps, hasTf c = false)
    (hpos : ∀ c ∈ θ.comps, ∀ l ∈ c, l.isNull = false → 0 < l.m ∧ 0 < l.u)
    (htot : ∀ c : Fin θ.comps.length,
      (gamma θ.comps[c.val] (r.pair.guards[c.val]'(by omega))).isSome = true) :
    EM.eProb θ r = EML.post (absParams θ) (absPattern θ r) := by
  have hcorr : ∀ c : Fin θ.comps.length,
      LevelCorr (θ.comps[c.val]) (r.pair.guards[c.val]'(by omega))
        (absPattern θ r c) ((absParams θ).m c) ((absParams θ).u c) := by
    intro c
    have hc : c.val < r.pair.guards.length := by omega
    have e : absPattern θ r c = patOf θ.comps[c.val] (r.pair.guards[c.val]'hc) := by
      show patOf _ (r.pair.guards[c.val]?.getD []) = _
      rw [List.getElem?_eq_getElem hc]
      rfl
    rw [e]
    exact levelCorr_patOf _ _ (htot c)
  have hsel : ∀ (c : Fin θ.comps.length) (l : Fin (absL θ c)), absPattern θ r c = some l →
      0 < (absParams θ).m c l ∧ 0 < (absParams θ).u c l := by
    intro c l hcl
    obtain ⟨lv, _, hf, hcase⟩ := hcorr c
    rcases hcase with ⟨_, ho⟩ | ⟨hn, i, ho, hm, hu⟩
    · rw [ho] at hcl; cases hcl
    · rw [ho] at hcl
      cases hcl
      have hmem : lv ∈ θ.comps[c.val] := List.mem_of_find?_eq_some hf
      have := hpos _ (List.getElem_mem _) lv hmem hn
      rw [hm, hu] at this
      exact this
  exact eProb_eq_post θ r (absParams θ) (absPattern θ r) rfl hl0 hl1
    (fun c l h => (hsel c l h).1) (fun c l h => (hsel c l h).2) rfl hg hnotf hcorr

/-- … in particular when every comparison has an `ELSE` level and the row supplies one
condition outcome per level. -/
theorem eProb_eq_post_else (θ : EM.Params ℝ) (r : EM.Row ℝ)
    (hl0 : 0 < θ.prior) (hl1 : θ.prior < 1)
    (hg : r.pair.guards.length = θ.comps.length)
    (hnotf : ∀ c ∈ θ.comps, hasTf c = false)
    (hpos : ∀ c ∈ θ.comps, ∀ l ∈ c, l.isNull = false → 0 < l.m ∧ 0 < l.u)
    (helse : ∀ c ∈ θ.comps, ∃ l ∈ c, l.isElse = true)
    (hgl : ∀ c : Fin θ.comps.length,
      (θ.comps[c.val]).length ≤ (r.pair.guards[c.val]'(by omega)).length) :
    EM.eProb θ r = EML.post (absParams θ) (absPattern θ r) :=
  eProb_eq_post_abs θ r hl0 hl1 hg hnotf hpos fun c =>
    gamma_total _ _ (helse _ (List.getElem_mem _)) (hgl c)

end SplinkVerif.Lemmas.EMBridge
