import SplinkVerif.Model.BlockingAnalysis
import SplinkVerif.Lemmas.Blocking
/-!
# Counting lemmas for C14 (blocking analysis) — core Lean only

* sums over lists: sum over a list = sum over distinct key values weighted by multiplicity
  (`sum_by_key`), indicator sums over `Nodup` lists (`sum_indicator`);
* `joinFilter` lengths as sums of `countP`s, and their `cons` decompositions;
* `preFilterCount_eq`, `mem_blockCounts`, `postFilterCount_eq_block(_two)`,
  `rowCounts_spec`, `cumulative_spec`, `nLargest_spec`;
* the orientation-counting lemma `orient_count` used for `cartesian`.
-/
namespace SplinkVerif.Lemmas.BA
open SplinkVerif SplinkVerif.Blocking SplinkVerif.BlockingAnalysis

/-! ## Sums over lists -/

theorem sum_map_add {α : Type} (l : List α) (f g : α → Nat) :
    (l.map fun x => f x + g x).sum = (l.map f).sum + (l.map g).sum := by
  induction l with
  | nil => rfl
  | cons a l ih =>
    simp only [List.map_cons, List.sum_cons, ih]
    omega

theorem sum_map_flatMap {α β : Type} (l : List α) (F : α → List β) (h : β → Nat) :
    ((l.flatMap F).map h).sum = (l.map fun x => ((F x).map h).sum).sum := by
  induction l with
  | nil => rfl
  | cons a l ih =>
    simp only [List.flatMap_cons, List.map_append, List.sum_append, List.map_cons,
      List.sum_cons, ih]

theorem sum_map_filter {α : Type} (l : List α) (p : α → Bool) (g : α → Nat) :
    ((l.filter p).map g).sum = (l.map fun x => if p x then g x else 0).sum := by
  induction l with
  | nil => rfl
  | cons a l ih =>
    by_cases h : p a = true
    · simp only [List.filter_cons, h, if_true, List.map_cons, List.sum_cons, ih]
    · have h' : p a = false := by simpa using h
      simp only [List.filter_cons, h', List.map_cons, List.sum_cons]
      simpa using ih

theorem sum_map_zero {α : Type} (l : List α) : (l.map fun _ => 0).sum = 0 := by
  induction l with
  | nil => rfl
  | cons a l ih => simp only [List.map_cons, List.sum_cons, ih]

/-- Over a duplicate-free list, an indicator sum picks out one term. -/
theorem sum_indicator {α : Type} [BEq α] [LawfulBEq α] (ks : List α) (hn : ks.Nodup) (a : α)
    (g : α → Nat) :
    (ks.map fun k => if k == a then g k else 0).sum = if a ∈ ks then g a else 0 := by
  induction ks with
  | nil => simp
  | cons k ks ih =>
    rw [List.nodup_cons] at hn
    simp only [List.map_cons, List.sum_cons, ih hn.2, List.mem_cons]
    by_cases hka : k = a
    · subst hka
      simp [hn.1]
    · have h1 : (k == a) = false := by simpa using hka
      have h2 : ¬ a = k := fun h => hka h.symm
      simp [h1, h2]

/-- Sum over a list = sum over the distinct key values weighted by multiplicity. -/
theorem sum_by_key {α K : Type} [BEq K] [LawfulBEq K] (L : List α) (key : α → K) (f : K → Nat)
    (ks : List K) (hn : ks.Nodup) (hall : ∀ l ∈ L, key l ∈ ks) :
    (L.map fun l => f (key l)).sum =
      (ks.map fun k => (L.filter fun l => key l == k).length * f k).sum := by
  induction L with
  | nil => simp [sum_map_zero]
  | cons a L ih =>
    have ih' := ih (fun l hl => hall l (List.mem_cons_of_mem _ hl))
    have ha := hall a (List.mem_cons_self ..)
    have hk : ∀ k, ((a :: L).filter fun l => key l == k).length * f k =
        (if k == key a then f k else 0) + (L.filter fun l => key l == k).length * f k := by
      intro k
      by_cases h : key a = k
      · subst h
        simp [Nat.add_mul]
        omega
      · have h1 : (key a == k) = false := by simpa using h
        have h2 : (k == key a) = false := by simpa using fun e => h e.symm
        simp [h1, h2]
    rw [List.map_congr_left (fun k _ => hk k), sum_map_add, sum_indicator ks hn (key a) f,
      if_pos ha]
    simp only [List.map_cons, List.sum_cons, ih']

/-! ## `joinFilter` lengths -/

theorem length_joinFilter (ls rs : List Nat) (p : Nat → Nat → Bool) :
    (joinFilter ls rs p).length = (ls.map fun l => (rs.filter fun r => p l r).length).sum := by
  unfold joinFilter
  rw [List.length_flatMap]
  simp only [List.length_map]

theorem joinFilter_congr (ls rs : List Nat) (p q : Nat → Nat → Bool)
    (h : ∀ l r, p l r = q l r) : joinFilter ls rs p = joinFilter ls rs q := by
  have : p = q := funext fun l => funext fun r => h l r
  rw [this]

/-! ## Pre-filter counts -/

/-- Right-hand block size of a key value (0 for NULL: NULL never joins). -/
def rightSize (R : List Nat) (keyR : Nat → Option Nat) : Option Nat → Nat
  | none => 0
  | some v => (R.filter fun r => keyR r == some v).length

/-- The per-left-group body of `blockCounts`. -/
def bcBody (R : List Nat) (keyR : Nat → Option Nat) (g : Option Nat × Nat) : List (Nat × Nat × Nat) :=
  match g.1 with
  | none => []
  | some v => ((groupCounts R keyR).filter fun g' => g'.1 == some v).map fun g' => (v, g.2, g'.2)

theorem blockCounts_eq (L R : List Nat) (keyL keyR : Nat → Option Nat) :
    blockCounts L R keyL keyR = (groupCounts L keyL).flatMap (bcBody R keyR) := rfl

theorem nodup_keys (xs : List Nat) (key : Nat → Option Nat) : ((xs.map key).eraseDups).Nodup :=
  Blk.nodup_eraseDups _ _ (Nat.le_refl _)

theorem bcBody_sum (R : List Nat) (keyR : Nat → Option Nat) (k : Option Nat) (c : Nat) :
    ((bcBody R keyR (k, c)).map fun b => b.2.1 * b.2.2).sum = c * rightSize R keyR k := by
  cases k with
  | none => simp [bcBody, rightSize]
  | some v =>
    simp only [bcBody, rightSize, groupCounts, List.filter_map, List.map_map]
    rw [sum_map_filter]
    have := sum_indicator ((R.map keyR).eraseDups) (nodup_keys R keyR) (some v)
      (fun k' => c * (R.filter fun i => keyR i == k').length)
    simp only [Function.comp_def] at this ⊢
    rw [this]
    by_cases hm : some v ∈ (R.map keyR).eraseDups
    · rw [if_pos hm]
    · rw [if_neg hm]
      rw [List.mem_eraseDups, List.mem_map] at hm
      have : (R.filter fun r => keyR r == some v) = [] := by
        rw [List.filter_eq_nil_iff]
        intro r hr hk
        exact hm ⟨r, hr, by simpa using hk⟩
      rw [this]
      simp

theorem preFilterCount_eq (L R : List Nat) (keyL keyR : Nat → Option Nat) :
    preFilterCount L R keyL keyR =
      (joinFilter L R fun l r => (keyL l).isSome && keyL l == keyR r).length := by
  unfold preFilterCount
  rw [blockCounts_eq, sum_map_flatMap, length_joinFilter]
  have hL : (L.map fun l => (R.filter fun r => (keyL l).isSome && keyL l == keyR r).length) =
      L.map fun l => rightSize R keyR (keyL l) := by
    apply List.map_congr_left
    intro l _
    cases h : keyL l with
    | none => simp [rightSize]
    | some v =>
      simp only [rightSize, Option.isSome_some, Bool.true_and]
      congr 1
      apply List.filter_congr
      intro r _
      exact Bool.eq_iff_iff.mpr ⟨fun h => by simpa using (eq_of_beq h).symm,
        fun h => by simpa using (eq_of_beq h).symm⟩
  rw [hL, sum_by_key L keyL (rightSize R keyR) ((L.map keyL).eraseDups) (nodup_keys L keyL)
    (fun l hl => List.mem_eraseDups.mpr (List.mem_map_of_mem hl))]
  simp only [groupCounts, List.map_map]
  apply congrArg
  apply List.map_congr_left
  intro k _
  exact bcBody_sum R keyR k _

theorem mem_blockCounts (L R : List Nat) (keyL keyR : Nat → Option Nat) (v cl cr : Nat) :
    (v, cl, cr) ∈ blockCounts L R keyL keyR ↔
      cl = (L.filter fun i => keyL i == some v).length ∧
      cr = (R.filter fun i => keyR i == some v).length ∧ 0 < cl ∧ 0 < cr := by
  have pos : ∀ (X : List Nat) (key : Nat → Option Nat),
      some v ∈ (X.map key).eraseDups ↔ 0 < (X.filter fun i => key i == some v).length := by
    intro X key
    rw [List.mem_eraseDups, List.mem_map, List.length_pos_iff_exists_mem]
    constructor
    · rintro ⟨i, hi, hk⟩
      exact ⟨i, List.mem_filter.mpr ⟨hi, by simp [hk]⟩⟩
    · rintro ⟨i, hi⟩
      rw [List.mem_filter] at hi
      exact ⟨i, hi.1, by simpa using hi.2⟩
  rw [blockCounts_eq]
  simp only [List.mem_flatMap, groupCounts, List.mem_map]
  constructor
  · rintro ⟨g, ⟨k, hk, rfl⟩, hb⟩
    cases k with
    | none => simp [bcBody] at hb
    | some w =>
      simp only [bcBody, groupCounts, List.mem_map, List.mem_filter, Prod.mk.injEq] at hb
      obtain ⟨g', ⟨⟨k', hk', rfl⟩, he⟩, rfl, rfl, rfl⟩ := hb
      have he' : k' = some w := by simpa using he
      subst he'
      exact ⟨rfl, rfl, (pos L keyL).mp hk, (pos R keyR).mp hk'⟩
  · rintro ⟨rfl, rfl, hl, hr⟩
    refine ⟨_, ⟨some v, (pos L keyL).mpr hl, rfl⟩, ?_⟩
    simp only [bcBody, groupCounts, List.mem_map, List.mem_filter, Prod.mk.injEq]
    exact ⟨_, ⟨⟨some v, (pos R keyR).mpr hr, rfl⟩, by simp⟩, by simp⟩

/-! ## Post-filter counts -/

theorem block_single (lt : LinkType) (t : Table) (rule : Nat → Nat → B3) :
    (block lt t [{ kind := .plain, eval := rule }]).length =
      (joinFilter (leftTable lt t) (rightTable lt t) fun l r =>
        B3.isTrue (rule l r) && whereCond lt t l r).length := by
  have : block lt t [{ kind := .plain, eval := rule }] =
      (joinFilter (leftTable lt t) (rightTable lt t) fun l r =>
        B3.isTrue (rule l r) && whereCond lt t l r && !excluded [] l r).map
        (fun p => (([] : List Done).length, p.1, p.2)) ++ [] := rfl
  rw [this, List.append_nil, List.length_map]
  apply congrArg
  apply joinFilter_congr
  intro l r
  simp [excluded]

theorem postFilterCount_eq_block (lt : LinkType) (t : Table) (rule : Nat → Nat → B3)
    (hlt : lt ≠ .twoDatasetLinkOnly) (s : Nat) :
    postFilterCount lt t s rule = (block lt t [{ kind := .plain, eval := rule }]).length := by
  rw [block_single]
  cases lt with
  | twoDatasetLinkOnly => exact absurd rfl hlt
  | dedupeOnly => rfl
  | linkOnly => rfl
  | linkAndDedupe => rfl

theorem postFilterCount_eq_block_two (t : Table) (rule : Nat → Nat → B3) :
    postFilterCount .twoDatasetLinkOnly t (minSd t) rule =
      (block .twoDatasetLinkOnly t [{ kind := .plain, eval := rule }]).length := by
  rw [block_single]
  rfl

/-! ## Marginal row counts -/

theorem blockFrom_tag (lt : LinkType) (t : Table) :
    ∀ (rest : List Rule) (pre : List Done) (x : Row), x ∈ blockFrom lt t pre rest →
      x.1 < pre.length + rest.length
  | [], _, x, h => by simp [blockFrom] at h
  | rule :: rest, pre, x, h => by
    simp only [blockFrom, List.mem_append, List.mem_map] at h
    rcases h with ⟨p, _, rfl⟩ | h
    · simp only [List.length_cons]
      omega
    · have := blockFrom_tag lt t rest _ x h
      simp only [List.length_append, List.length_cons, List.length_nil] at this ⊢
      omega

theorem sum_tag_counts {β : Type} (n : Nat) (rows : List (Nat × β)) (h : ∀ x ∈ rows, x.1 < n) :
    ((List.range n).map fun i => (rows.filter fun row => row.1 == i).length).sum = rows.length := by
  induction rows with
  | nil => simp [sum_map_zero]
  | cons x xs ih =>
    have hx : ∀ i, ((x :: xs).filter fun row => row.1 == i).length =
        (if i == x.1 then 1 else 0) + (xs.filter fun row => row.1 == i).length := by
      intro i
      by_cases hi : x.1 = i
      · subst hi
        simp
        omega
      · have h1 : (x.1 == i) = false := by simpa using hi
        have h2 : (i == x.1) = false := by simpa using fun e => hi e.symm
        simp [h1, h2]
    rw [List.map_congr_left (fun i _ => hx i), sum_map_add,
      sum_indicator (List.range n) List.nodup_range x.1 (fun _ => 1),
      if_pos (List.mem_range.mpr (h x (List.mem_cons_self ..))),
      ih (fun y hy => h y (List.mem_cons_of_mem _ hy))]
    simp only [List.length_cons]
    omega

theorem rowCounts_spec (lt : LinkType) (t : Table) (rules : List Rule) (hne : rules ≠ []) :
    (rowCounts lt t rules).sum = (block lt t rules).length ∧
    ∀ i, i < rules.length →
      (rowCounts lt t rules)[i]? = some ((block lt t rules).filter fun row => row.1 == i).length := by
  constructor
  · unfold rowCounts
    apply sum_tag_counts
    intro x hx
    have he : rules.isEmpty = false := by
      cases rules with
      | nil => exact absurd rfl hne
      | cons _ _ => rfl
    unfold block at hx
    rw [he] at hx
    simpa using blockFrom_tag lt t rules [] x hx
  · intro i hi
    unfold rowCounts
    simp only [List.getElem?_map, List.getElem?_range hi, Option.map_some]

/-! ## Running totals -/

theorem zip_running (rc : List Nat) :
    ∀ (acc i c tot : Nat), (rc.zip (runningTotals acc rc))[i]? = some (c, tot) →
      tot = acc + (rc.take (i + 1)).sum ∧ tot - c = acc + (rc.take i).sum ∧
        c = rc[i]?.getD 0 := by
  induction rc with
  | nil => intro acc i c tot h; simp [runningTotals] at h
  | cons c0 cs ih =>
    intro acc i c tot h
    cases i with
    | zero =>
      simp only [runningTotals, List.zip_cons_cons, List.getElem?_cons_zero, Option.some.injEq,
        Prod.mk.injEq] at h
      obtain ⟨rfl, rfl⟩ := h
      simp
    | succ i =>
      simp only [runningTotals, List.zip_cons_cons, List.getElem?_cons_succ] at h
      obtain ⟨h1, h2, h3⟩ := ih (acc + c0) i c tot h
      refine ⟨?_, ?_, ?_⟩
      · rw [h1]; simp only [List.take_succ_cons, List.sum_cons]; omega
      · rw [h2]; simp only [List.take_succ_cons, List.sum_cons]; omega
      · rw [h3]; simp

theorem cumulative_spec (lt : LinkType) (t : Table) (rules : List Rule) (i : Nat) (row : CumRow)
    (h : (cumulative lt t rules)[i]? = some row) :
    row.cumulativeRows = ((rowCounts lt t rules).take (i + 1)).sum ∧
    row.start = ((rowCounts lt t rules).take i).sum ∧
    row.rowCount = (rowCounts lt t rules)[i]?.getD 0 := by
  unfold cumulative at h
  simp only [List.getElem?_map, Option.map_eq_some_iff] at h
  obtain ⟨⟨c, tot⟩, hz, rfl⟩ := h
  obtain ⟨h1, h2, h3⟩ := zip_running _ 0 i c tot hz
  refine ⟨?_, ?_, ?_⟩
  · simpa using h1
  · simpa using h2
  · exact h3

/-! ## `n_largest_blocks` -/

abbrev Blk3 := Nat × Nat × Nat
def geB (a b : Blk3) : Prop := a.2.1 * a.2.2 ≥ b.2.1 * b.2.2

theorem insertDesc_perm (b : Blk3) : ∀ l : List Blk3, (insertDesc b l).Perm (b :: l)
  | [] => List.Perm.refl _
  | c :: cs => by
    unfold insertDesc
    split
    · exact List.Perm.refl _
    · exact ((insertDesc_perm b cs).cons c).trans (List.Perm.swap b c cs)

theorem insertDesc_sorted (b : Blk3) : ∀ l : List Blk3, l.Pairwise geB → (insertDesc b l).Pairwise geB
  | [], _ => by simp [insertDesc]
  | c :: cs, h => by
    unfold insertDesc
    rw [List.pairwise_cons] at h
    split
    · rename_i hbc
      rw [List.pairwise_cons]
      refine ⟨?_, List.pairwise_cons.mpr h⟩
      intro d hd
      rcases List.mem_cons.mp hd with rfl | hd
      · exact hbc
      · exact Nat.le_trans (h.1 d hd) hbc
    · rename_i hbc
      rw [List.pairwise_cons]
      refine ⟨?_, insertDesc_sorted b cs h.2⟩
      intro d hd
      rcases List.mem_cons.mp ((insertDesc_perm b cs).mem_iff.mp hd) with rfl | hd
      · unfold geB; omega
      · exact h.1 d hd

theorem sortDesc_perm : ∀ l : List Blk3, (l.foldr insertDesc []).Perm l
  | [] => List.Perm.refl _
  | b :: l => (insertDesc_perm b _).trans ((sortDesc_perm l).cons b)

theorem sortDesc_sorted : ∀ l : List Blk3, (l.foldr insertDesc []).Pairwise geB
  | [] => List.Pairwise.nil
  | b :: l => insertDesc_sorted b _ (sortDesc_sorted l)

theorem nLargest_spec (n : Nat) (blocks : List (Nat × Nat × Nat)) :
    (nLargest n blocks).length = min n blocks.length ∧
    (nLargest n blocks).Pairwise (fun a b => a.2.1 * a.2.2 ≥ b.2.1 * b.2.2) ∧
    (∀ b ∈ nLargest n blocks, b ∈ blocks) ∧
    ∃ rest, (nLargest n blocks ++ rest).Perm blocks ∧
      ∀ a ∈ nLargest n blocks, ∀ b ∈ rest, a.2.1 * a.2.2 ≥ b.2.1 * b.2.2 := by
  unfold nLargest
  have hp := sortDesc_perm blocks
  have hs := sortDesc_sorted blocks
  refine ⟨?_, ?_, ?_, (blocks.foldr insertDesc []).drop n, ?_, ?_⟩
  · rw [List.length_take, hp.length_eq]
  · exact hs.sublist (List.take_sublist _ _)
  · intro b hb
    exact hp.mem_iff.mp (List.mem_of_mem_take hb)
  · rw [List.take_append_drop]
    exact hp
  · have h := hs
    rw [← List.take_append_drop n (blocks.foldr insertDesc []), List.pairwise_append] at h
    exact h.2.2

/-! ## Orientation counting (for `cartesian`) -/

/-- Number of ordered pairs of `xs × ys` satisfying `p`. -/
def cnt (xs ys : List Nat) (p : Nat → Nat → Bool) : Nat := (joinFilter xs ys p).length

theorem cnt_eq (xs ys : List Nat) (p : Nat → Nat → Bool) :
    cnt xs ys p = (xs.map fun l => ys.countP fun r => p l r).sum := by
  unfold cnt
  rw [length_joinFilter]
  simp only [List.countP_eq_length_filter]

theorem cnt_nil_left (ys : List Nat) (p : Nat → Nat → Bool) : cnt [] ys p = 0 := rfl

theorem cnt_cons_left (a : Nat) (xs ys : List Nat) (p : Nat → Nat → Bool) :
    cnt (a :: xs) ys p = (ys.countP fun r => p a r) + cnt xs ys p := by
  simp only [cnt_eq, List.map_cons, List.sum_cons]

theorem cnt_cons_right (a : Nat) (xs ys : List Nat) (p : Nat → Nat → Bool) :
    cnt xs (a :: ys) p = (xs.countP fun l => p l a) + cnt xs ys p := by
  induction xs with
  | nil => simp [cnt_eq]
  | cons x xs ih =>
    rw [cnt_cons_left, cnt_cons_left, ih, List.countP_cons, List.countP_cons]
    omega

theorem cnt_cons_cons (a : Nat) (ys : List Nat) (p : Nat → Nat → Bool) :
    cnt (a :: ys) (a :: ys) p =
      (if p a a then 1 else 0) + (ys.countP fun r => p a r) + (ys.countP fun l => p l a) +
        cnt ys ys p := by
  rw [cnt_cons_left, cnt_cons_right, List.countP_cons]
  omega

theorem countP_split {α : Type} (ys : List α) (p1 p2 p3 : α → Bool)
    (h : ∀ y ∈ ys, (if p1 y then 1 else 0) + (if p2 y then 1 else 0) = (if p3 y then 1 else 0 : Nat)) :
    ys.countP p1 + ys.countP p2 = ys.countP p3 := by
  induction ys with
  | nil => rfl
  | cons y ys ih =>
    have h0 := h y (List.mem_cons_self ..)
    have ih' := ih (fun z hz => h z (List.mem_cons_of_mem _ hz))
    simp only [List.countP_cons]
    omega

/-- For distinct keys and a symmetric relation `q`: twice the number of `q`-pairs
oriented by key, plus the diagonal `q`-pairs, plus the non-`q` pairs = all pairs. -/
theorem orient_count (key : Nat → Nat) (q : Nat → Nat → Bool) (hq : ∀ a b, q a b = q b a) :
    ∀ (xs : List Nat), xs.Nodup → (∀ a ∈ xs, ∀ b ∈ xs, key a = key b → a = b) →
      2 * cnt xs xs (fun l r => decide (key l < key r) && q l r) + (xs.countP fun a => q a a) +
        cnt xs xs (fun l r => !q l r) = xs.length * xs.length
  | [], _, _ => by simp [cnt_nil_left]
  | a :: ys, hn, hinj => by
    rw [List.nodup_cons] at hn
    have ih := orient_count key q hq ys hn.2
      (fun x hx y hy => hinj x (List.mem_cons_of_mem _ hx) y (List.mem_cons_of_mem _ hy))
    have hne : ∀ y ∈ ys, key y ≠ key a := by
      intro y hy he
      have := hinj y (List.mem_cons_of_mem _ hy) a (List.mem_cons_self ..) he
      exact hn.1 (this ▸ hy)
    have h1 : (ys.countP fun r => decide (key a < key r) && q a r) +
        (ys.countP fun l => decide (key l < key a) && q l a) = ys.countP fun y => q a y := by
      apply countP_split
      intro y hy
      have := hne y hy
      rw [hq y a]
      rcases Nat.lt_or_gt_of_ne this with h | h
      · have h' : ¬ key a < key y := by omega
        simp [h, h']
      · have h' : ¬ key y < key a := by omega
        simp [h, h']
    have h2 : (ys.countP fun l => !q l a) = ys.countP fun r => !q a r := by
      apply List.countP_congr
      intro y _
      rw [hq y a]
    have h3 := List.length_eq_countP_add_countP (fun y => q a y) (l := ys)
    have h4 : (ys.countP fun r => !q a r) = ys.countP fun y => decide ¬ q a y = true := by
      apply List.countP_congr
      intro y _
      simp
    rw [cnt_cons_cons, cnt_cons_cons, h2, List.countP_cons]
    simp only [Nat.lt_irrefl, decide_false, Bool.false_and, Bool.false_eq_true, if_false,
      List.length_cons]
    have hmul : (ys.length + 1) * (ys.length + 1) = ys.length * ys.length + 2 * ys.length + 1 := by
      rw [Nat.add_mul, Nat.mul_add]; omega
    rw [hmul]
    by_cases hqa : q a a = true
    · simp only [hqa, if_true, Bool.not_true, Bool.false_eq_true, if_false]
      omega
    · have hqa' : q a a = false := by simpa using hqa
      simp only [hqa', Bool.false_eq_true, if_false, Bool.not_false, if_true]
      omega

end SplinkVerif.Lemmas.BA
