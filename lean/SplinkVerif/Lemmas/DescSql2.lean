import Mathlib.Data.List.Nodup
import Mathlib.Data.List.Perm.Basic
import Mathlib.Algebra.Order.Field.Rat
import Mathlib.Algebra.Order.Field.Basic
import Mathlib.Tactic.Ring
import Mathlib.Tactic.FieldSimp
import Mathlib.Tactic.Linarith
import SplinkVerif.Lemmas.DescSql
/-!
# The regenerated SQL of the comparison-vector distribution, the match-weight histogram and the unlinkables listing (C20)

Semantics (`Rel.eval`) of the statements of `Generated/DescSql.lean` (second part) on ANY database, and their refinement to
`Descriptive.cvd` / `Descriptive.histogram` / `Descriptive.unlinkables` on encoded inputs.

* `groupRows_countStar`, `cnt_sum`, `cnt_pos`: `select keys…, count(*) … group by keys…` lists every distinct key vector once with
  the number of rows that have it; the counts add up to the number of rows.
-/
namespace SplinkVerif.Lemmas.DescSql2
open SplinkVerif SplinkVerif.Rel SplinkVerif.Lemmas.Rel
open SplinkVerif.Lemmas.AccSql (eraseDups_map_inj joinRows_scalar)

/-! ## `GROUP BY keys` with `count(*)` on any table -/

/-- The key vector of a row. -/
def keyOf (keys : List Expr) (row : Row) : Row := keys.map (·.eval row)

/-- Number of rows with key vector `k` (`GROUP BY` equality: NULL = NULL). -/
def cnt (keys : List Expr) (rows : List Row) (k : Row) : Nat := (rows.filter fun r => keyOf keys r == k).length

theorem groupRows_countStar (keys : List Expr) (hk : keys ≠ []) (rows : List Row) :
    groupRows keys [Agg.countStar] rows
      = ((rows.map (keyOf keys)).eraseDups).map fun k => k ++ [Val.int (cnt keys rows k : Nat)] := by
  have hemp : keys.isEmpty = false := by
    cases keys with
    | nil => exact absurd rfl hk
    | cons _ _ => rfl
  simp only [groupRows, hemp, Bool.false_eq_true, if_false]
  rfl

theorem cnt_eq (keys : List Expr) (rows : List Row) (k : Row) :
    cnt keys rows k = ((rows.map (keyOf keys)).filter fun x => x == k).length := by
  rw [cnt, List.filter_map, List.length_map]
  rfl

/-- The counts of the groups add up to the number of rows. -/
theorem cnt_sum (keys : List Expr) (rows : List Row) :
    (((rows.map (keyOf keys)).eraseDups).map (cnt keys rows)).sum = rows.length := by
  have h := Lemmas.Desc.groupCount_sum (rows.map (keyOf keys))
  simp only [Descriptive.groupCount, List.map_map, Function.comp_def, List.length_map] at h
  rw [← h]
  congr 1
  apply List.map_congr_left
  intro k _
  exact cnt_eq keys rows k

theorem cnt_pos (keys : List Expr) (rows : List Row) (k : Row) (h : k ∈ rows.map (keyOf keys)) :
    0 < cnt keys rows k := by
  rw [cnt_eq]
  exact Lemmas.Desc.count_pos_of_mem _ k h

/-- the global `select count(*) from t` -/
theorem groupRows_total (rows : List Row) : groupRows [] [Agg.countStar] rows = [[Val.int (rows.length : Nat)]] := rfl

/-! ## Comparison-vector distribution -/

/-- `acc || ',' || g` on values -/
def concatStep (acc g : Val) : Val := Val.concat (Val.concat acc (Val.str ",")) g

/-- the value of `gam_concat` for a gamma vector: `g₁ || ',' || g₂ || …` (NULL as soon as one is NULL; one column: the value itself) -/
def gamConcatV : List Val → Val
  | [] => Val.str ""
  | v :: vs => vs.foldl concatStep v

/-- `case when g = -1 then 0 when g = 0 then -1 else g end` on a value -/
def sumGamTermV (g : Val) : Val := (Gen.DescSql.sumGamTerm (Expr.lit g)).eval []

/-- the value of `sum_gam` for a gamma vector -/
def sumGamV : List Val → Val
  | [] => Val.int 0
  | v :: vs => vs.foldl (fun acc g => Arith.add.eval acc (sumGamTermV g)) (sumGamTermV v)

theorem foldl_concat_eval (row : Row) : ∀ (es : List Expr) (e : Expr),
    (es.foldl (fun acc g => Expr.concat (Expr.concat acc (Expr.lit (Val.str ","))) g) e).eval row
      = (es.map (·.eval row)).foldl concatStep (e.eval row)
  | [], _ => rfl
  | g :: es, e => by
    rw [List.foldl_cons, foldl_concat_eval row es, List.map_cons, List.foldl_cons]
    rfl

theorem gamConcat_eval (es : List Expr) (row : Row) :
    (Gen.DescSql.gamConcat es).eval row = gamConcatV (es.map (·.eval row)) := by
  cases es with
  | nil => rfl
  | cons e es => exact foldl_concat_eval row es e

theorem sumGamTerm_eval (g : Expr) (row : Row) :
    (Gen.DescSql.sumGamTerm g).eval row = sumGamTermV (g.eval row) := by
  simp only [Gen.DescSql.sumGamTerm, sumGamTermV, Expr.eval]
  rfl

theorem foldl_sumGam_eval (row : Row) : ∀ (es : List Expr) (e : Expr),
    (es.foldl (fun acc g => Expr.arith Arith.add acc (Gen.DescSql.sumGamTerm g)) e).eval row
      = (es.map (·.eval row)).foldl (fun acc g => Arith.add.eval acc (sumGamTermV g)) (e.eval row)
  | [], _ => rfl
  | g :: es, e => by
    rw [List.foldl_cons, foldl_sumGam_eval row es, List.map_cons, List.foldl_cons]
    simp only [Expr.eval, sumGamTerm_eval]

theorem sumGam_eval (es : List Expr) (row : Row) :
    (Gen.DescSql.sumGam es).eval row = sumGamV (es.map (·.eval row)) := by
  cases es with
  | nil => rfl
  | cons e es =>
    simp only [Gen.DescSql.sumGam, sumGamV, List.map_cons]
    rw [foldl_sumGam_eval, sumGamTerm_eval]

/-- the first `k.length` positions of `k ++ rest` read back `k` -/
theorem keyCols_eval (k rest : Row) :
    (Gen.DescSql.keyCols k.length).map (·.eval (k ++ rest)) = k := by
  unfold Gen.DescSql.keyCols
  rw [List.map_map]
  apply List.ext_getElem
  · simp
  · intro i h1 h2
    simp only [List.length_map, List.length_range] at h1
    simp [Expr.eval, List.getD_eq_getElem?_getD, List.getElem?_append_left h1, List.getElem?_eq_getElem h1]

theorem col_len_eval (k : Row) (a b : Val) :
    (Expr.col k.length).eval (k ++ [a, b]) = a ∧ (Expr.col (k.length + 1)).eval (k ++ [a, b]) = b := by
  simp [Expr.eval, List.getD_eq_getElem?_getD]

theorem keyOf_length (gs : List Expr) (r : Row) : (keyOf gs r).length = gs.length := by simp [keyOf]

/-- **`comparison_vector_distribution_sql` on any database, for any non-empty list of gamma columns**: one row per distinct gamma
vector, in the order of first occurrence: (gam_concat, sum_gam, number of rows with that vector, that number / number of rows,
the vector). -/
theorem cvd_eval (gs : List Expr) (hgs : gs ≠ []) (db : Db) :
    SplinkVerif.DescSql.cvd gs db
      = (((db "cv_in").map (keyOf gs)).eraseDups).map fun k =>
          [gamConcatV k, sumGamV k, Val.int (cnt gs (db "cv_in") k : Nat),
           Val.rat ((cnt gs (db "cv_in") k : Rat) / ((db "cv_in").length : Rat))] ++ k := by
  unfold SplinkVerif.DescSql.cvd Gen.DescSql.cvd
  rw [eval_project, eval_join, eval_groupBy, eval_groupBy, eval_table, groupRows_countStar gs hgs, groupRows_total,
    joinRows_scalar, List.map_map, List.map_map]
  apply List.map_congr_left
  intro k hk
  rw [List.mem_eraseDups, List.mem_map] at hk
  obtain ⟨r, hr, rfl⟩ := hk
  have hlen : gs.length = (keyOf gs r).length := (keyOf_length gs r).symm
  have hpos : (db "cv_in").length ≠ 0 := by
    intro h0
    rw [List.length_eq_zero_iff] at h0
    rw [h0] at hr
    exact absurd hr (by simp)
  simp only [Function.comp, List.append_assoc, List.cons_append, List.nil_append, List.map_append, List.map_cons]
  rw [hlen, keyCols_eval, gamConcat_eval, sumGam_eval, keyCols_eval]
  obtain ⟨h1, h2⟩ := col_len_eval (keyOf gs r) (Val.int (cnt gs (db "cv_in") (keyOf gs r) : Nat))
    (Val.int ((db "cv_in").length : Nat))
  simp only [Expr.eval, h1, h2, Arith.eval, Val.toRat?]
  simp [hpos]

/-! ### Partition facts on any table -/

theorem sum_div_const (l : List Nat) (t : Rat) : (l.map fun (c : Nat) => (c : Rat) / t).sum = ((l.sum : Nat) : Rat) / t := by
  induction l with
  | nil => simp
  | cons a l ih =>
    simp only [List.map_cons, List.sum_cons, ih]
    push_cast
    ring

/-- the gamma columns of the result are the distinct gamma vectors of the table, each once -/
theorem cvd_vectors (gs : List Expr) (hgs : gs ≠ []) (db : Db) :
    (SplinkVerif.DescSql.cvd gs db).map (fun row => row.drop 4) = ((db "cv_in").map (keyOf gs)).eraseDups := by
  rw [cvd_eval gs hgs, List.map_map]
  simp [Function.comp_def]

/-- the counts: positive naturals that add up to the number of rows of the table -/
theorem cvd_counts (gs : List Expr) (hgs : gs ≠ []) (db : Db) :
    ∃ cs : List Nat, (SplinkVerif.DescSql.cvd gs db).map (fun row => row.getD 2 Val.null) = cs.map (fun c => Val.int (c : Nat)) ∧
      cs.sum = (db "cv_in").length ∧ ∀ c ∈ cs, 0 < c := by
  refine ⟨(((db "cv_in").map (keyOf gs)).eraseDups).map (cnt gs (db "cv_in")), ?_, cnt_sum gs _, ?_⟩
  · rw [cvd_eval gs hgs, List.map_map, List.map_map]
    apply List.map_congr_left
    intro k _
    rfl
  · intro c hc
    rw [List.mem_map] at hc
    obtain ⟨k, hk, rfl⟩ := hc
    exact cnt_pos gs _ k (List.mem_eraseDups.mp hk)

/-- the proportions: exact numbers that add up to 1 (on a non-empty table) -/
theorem cvd_proportions (gs : List Expr) (hgs : gs ≠ []) (db : Db) (hne : db "cv_in" ≠ []) :
    ∃ qs : List Rat, (SplinkVerif.DescSql.cvd gs db).map (fun row => row.getD 3 Val.null) = qs.map Val.rat ∧ qs.sum = 1 := by
  refine ⟨((((db "cv_in").map (keyOf gs)).eraseDups).map (cnt gs (db "cv_in"))).map
    (fun (c : Nat) => (c : Rat) / ((db "cv_in").length : Rat)), ?_, ?_⟩
  · rw [cvd_eval gs hgs, List.map_map, List.map_map, List.map_map]
    apply List.map_congr_left
    intro k _
    rfl
  · rw [sum_div_const, cnt_sum]
    have : ((db "cv_in").length : Rat) ≠ 0 := by
      have := List.length_pos_iff.mpr hne
      exact_mod_cast (by omega : (db "cv_in").length ≠ 0)
    exact div_self this

theorem mem_cvd (gs : List Expr) (hgs : gs ≠ []) (db : Db) (row : Row) :
    row ∈ SplinkVerif.DescSql.cvd gs db ↔ ∃ r ∈ db "cv_in",
      row = [gamConcatV (keyOf gs r), sumGamV (keyOf gs r),
             Val.int (((db "cv_in").filter fun x => keyOf gs x == keyOf gs r).length : Nat),
             Val.rat ((((db "cv_in").filter fun x => keyOf gs x == keyOf gs r).length : Rat) / ((db "cv_in").length : Rat))]
            ++ keyOf gs r := by
  rw [cvd_eval gs hgs]
  simp only [List.mem_map, List.mem_eraseDups]
  constructor
  · rintro ⟨k, ⟨r, hr, rfl⟩, rfl⟩
    exact ⟨r, hr, rfl⟩
  · rintro ⟨r, hr, rfl⟩
    exact ⟨_, ⟨r, hr, rfl⟩, rfl⟩

/-! ### … and the functional model `Descriptive.cvd` -/

/-- a gamma vector of the model as SQL values -/
def encVec (g : List Int) : Row := g.map Val.int

/-- A `CvdRow` in the SQL's column order (gam_concat, sum_gam, count_rows_in_comparison_vector_group,
proportion_of_comparisons, gamma columns…). -/
def encCvd (r : Descriptive.CvdRow) : Row :=
  [gamConcatV (encVec r.gammas), Val.int r.sumGam, Val.int (r.count : Nat), Val.rat ((r.count : Rat) / (r.total : Rat))]
    ++ encVec r.gammas

theorem encVec_inj (a b : List Int) (h : encVec a = encVec b) : a = b :=
  List.map_injective_iff.mpr (fun _ _ hxy => Val.int.inj hxy) h

theorem beq_map_inj {α β : Type} [BEq α] [LawfulBEq α] [BEq β] [LawfulBEq β] (f : α → β)
    (hf : ∀ a b, f a = f b → a = b) (a b : α) : (f a == f b) = (a == b) := by
  by_cases h : a = b
  · subst h; simp
  · have : f a ≠ f b := fun h' => h (hf _ _ h')
    simp [h, this]

theorem sumGamTermV_int (g : Int) : sumGamTermV (Val.int g) = Val.int (Descriptive.sumGamTerm g) := by
  unfold sumGamTermV Gen.DescSql.sumGamTerm Descriptive.sumGamTerm
  by_cases h1 : g = -1
  · subst h1; rfl
  · by_cases h0 : g = 0
    · subst h0; rfl
    · have e1 : Cmp.eq.eval (Val.int g) (Val.int (0 - 1)) = Val.bool false := by
        rw [cmp_eq_int]; simp; omega
      have e0 : Cmp.eq.eval (Val.int g) (Val.int 0) = Val.bool false := by
        rw [cmp_eq_int]; simp [h0]
      simp only [Expr.eval, Arith.eval, e1, e0, h1, h0, if_false]
      rfl

theorem foldl_sumGamV_int : ∀ (vs : List Int) (acc : Int),
    (vs.map Val.int).foldl (fun acc g => Arith.add.eval acc (sumGamTermV g)) (Val.int acc)
      = Val.int (acc + (vs.map Descriptive.sumGamTerm).sum)
  | [], acc => by simp
  | v :: vs, acc => by
    rw [List.map_cons, List.foldl_cons, sumGamTermV_int]
    show (vs.map Val.int).foldl _ (Val.int (acc + Descriptive.sumGamTerm v)) = _
    rw [foldl_sumGamV_int vs, List.map_cons, List.sum_cons, Int.add_assoc]

theorem sumGamV_int (g : List Int) : sumGamV (encVec g) = Val.int ((g.map Descriptive.sumGamTerm).sum) := by
  cases g with
  | nil => rfl
  | cons v vs =>
    simp only [encVec, List.map_cons, sumGamV]
    rw [sumGamTermV_int, foldl_sumGamV_int, List.sum_cons]

theorem keyOf_keyCols_enc (n : Nat) (p : List Int) (hp : p.length = n) :
    keyOf (Gen.DescSql.keyCols n) (encVec p) = encVec p := by
  have h := keyCols_eval (encVec p) []
  rw [List.append_nil] at h
  have hl : (encVec p).length = n := by simp [encVec, hp]
  rw [hl] at h
  exact h

theorem keyCols_ne_nil (n : Nat) (hn : 0 < n) : Gen.DescSql.keyCols n ≠ [] := by
  intro h
  have := congrArg List.length h
  simp [Gen.DescSql.keyCols] at this
  omega

/-- **The comparison-vector distribution statement computes `Descriptive.cvd`, row for row**, on the table of the `n ≥ 1` gamma
columns of the scored pairs. -/
theorem cvdOf_eq (n : Nat) (hn : 0 < n) (pairs : List (List Int)) (hp : ∀ p ∈ pairs, p.length = n) :
    SplinkVerif.DescSql.cvdOf n pairs = (Descriptive.cvd pairs).map encCvd := by
  unfold SplinkVerif.DescSql.cvdOf
  rw [cvd_eval _ (keyCols_ne_nil n hn), set_same]
  have hkeys : (pairs.map fun p => p.map Val.int).map (keyOf (Gen.DescSql.keyCols n)) = pairs.map encVec := by
    rw [List.map_map]
    apply List.map_congr_left
    intro p hpm
    exact keyOf_keyCols_enc n p (hp p hpm)
  rw [hkeys, eraseDups_map_inj encVec encVec_inj, List.map_map]
  unfold Descriptive.cvd Descriptive.groupCount
  rw [List.map_map, List.map_map]
  apply List.map_congr_left
  intro g _
  have hc : cnt (Gen.DescSql.keyCols n) (pairs.map fun p => p.map Val.int) (encVec g)
      = (pairs.filter fun x => x == g).length := by
    unfold cnt
    rw [List.filter_map, List.length_map]
    congr 1
    apply List.filter_congr
    intro p hpm
    simp only [Function.comp]
    have := keyOf_keyCols_enc n p (hp p hpm)
    unfold encVec at this
    rw [this]
    exact beq_map_inj encVec encVec_inj p g
  simp only [Function.comp, encCvd, hc, sumGamV_int, List.length_map]

/-! ## Match-weight histogram -/

/-- `cast(bw as float)` of a literal: an integer becomes the exact number, everything else stays. -/
def castFloat (v : Val) : Val := (Expr.toRat (Expr.lit v)).eval []

/-- Number of rows whose bin is `b`. -/
def binCount (bin : Expr) (rows : List Row) (b : Val) : Nat := (rows.filter fun r => bin.eval r == b).length

theorem singleton_inj (a b : Val) (h : [a] = [b]) : a = b := by simpa using h

theorem cnt_singleton (bin : Expr) (rows : List Row) (b : Val) : cnt [bin] rows [b] = binCount bin rows b := by
  unfold cnt binCount keyOf
  congr 1
  apply List.filter_congr
  intro r _
  simp

/-- **The two statements of `_hist_sql` on any database**: one row per distinct value of the binning expression, in the order of
first occurrence: (bin low, width, number of rows in the bin, bin low + width). -/
theorem histogram_eval (bin : Expr) (bw : Val) (db : Db) :
    SplinkVerif.DescSql.histogram bin bw db
      = (((db "pred_in").map bin.eval).eraseDups).map fun b =>
          [b, bw, Val.int (binCount bin (db "pred_in") b : Nat), Arith.add.eval b (castFloat bw)] := by
  unfold SplinkVerif.DescSql.histogram Gen.DescSql.histStmts
  simp only [runStmts]
  rw [set_same]
  unfold Gen.DescSql.hist Gen.DescSql.histRaw
  rw [eval_project, eval_table, set_same, eval_project, eval_groupBy, eval_table,
    groupRows_countStar [bin] (by simp)]
  have hk : (db "pred_in").map (keyOf [bin]) = ((db "pred_in").map bin.eval).map fun b => [b] := by
    rw [List.map_map]; rfl
  rw [hk, eraseDups_map_inj (fun b : Val => [b]) singleton_inj, List.map_map, List.map_map, List.map_map]
  apply List.map_congr_left
  intro b _
  simp only [Function.comp, cnt_singleton]
  rfl

/-- the bins of the result are the distinct values of the binning expression, each once -/
theorem histogram_bins (bin : Expr) (bw : Val) (db : Db) :
    (SplinkVerif.DescSql.histogram bin bw db).map (fun row => row.getD 0 Val.null) = ((db "pred_in").map bin.eval).eraseDups := by
  rw [histogram_eval, List.map_map]
  simp [Function.comp_def]

theorem binCount_eq (bin : Expr) (rows : List Row) (b : Val) :
    binCount bin rows b = ((rows.map bin.eval).filter fun x => x == b).length := by
  rw [binCount, List.filter_map, List.length_map]
  rfl

/-- the counts: positive naturals (no empty bin is listed) that add up to the number of rows -/
theorem histogram_counts (bin : Expr) (bw : Val) (db : Db) :
    ∃ cs : List Nat, (SplinkVerif.DescSql.histogram bin bw db).map (fun row => row.getD 2 Val.null)
        = cs.map (fun c => Val.int (c : Nat)) ∧
      cs.sum = (db "pred_in").length ∧ ∀ c ∈ cs, 0 < c := by
  refine ⟨(((db "pred_in").map bin.eval).eraseDups).map (binCount bin (db "pred_in")), ?_, ?_, ?_⟩
  · rw [histogram_eval, List.map_map, List.map_map]
    apply List.map_congr_left
    intro k _
    rfl
  · have h := Lemmas.Desc.groupCount_sum ((db "pred_in").map bin.eval)
    simp only [Descriptive.groupCount, List.map_map, Function.comp_def, List.length_map] at h
    rw [← h]
    congr 1
    apply List.map_congr_left
    intro b _
    exact binCount_eq bin _ b
  · intro c hc
    rw [List.mem_map] at hc
    obtain ⟨b, hb, rfl⟩ := hc
    rw [binCount_eq]
    exact Lemmas.Desc.count_pos_of_mem _ b (List.mem_eraseDups.mp hb)

theorem mem_histogram (bin : Expr) (bw : Val) (db : Db) (row : Row) :
    row ∈ SplinkVerif.DescSql.histogram bin bw db ↔ ∃ r ∈ db "pred_in",
      row = [bin.eval r, bw, Val.int (((db "pred_in").filter fun x => bin.eval x == bin.eval r).length : Nat),
             Arith.add.eval (bin.eval r) (castFloat bw)] := by
  rw [histogram_eval]
  simp only [List.mem_map, List.mem_eraseDups]
  constructor
  · rintro ⟨b, ⟨r, hr, rfl⟩, rfl⟩
    exact ⟨r, hr, rfl⟩
  · rintro ⟨r, hr, rfl⟩
    exact ⟨_, ⟨r, hr, rfl⟩, rfl⟩

/-- **The histogram statements compute `Descriptive.histogram`, row for row**, when the bin of every scored pair is given as a
column (`enc` = any injective reading of the model's bin keys as SQL values, e.g. the exact number of the `Float` bin edge). -/
theorem histogram_model {W K : Type} [BEq K] [LawfulBEq K] (enc : K → Val) (henc : ∀ a b, enc a = enc b → a = b)
    (binLow : W → K) (ws : List W) (bw : Val) :
    SplinkVerif.DescSql.histogram (Expr.col 0) bw (Db.set (fun _ => []) "pred_in" (ws.map fun w => [enc (binLow w)]))
      = (Descriptive.histogram binLow ws).map fun b =>
          [enc b.1, bw, Val.int (b.2 : Nat), Arith.add.eval (enc b.1) (castFloat bw)] := by
  rw [histogram_eval, set_same]
  have hb : (ws.map fun w => [enc (binLow w)]).map (Expr.col 0).eval = (ws.map binLow).map enc := by
    rw [List.map_map, List.map_map]; rfl
  rw [hb, eraseDups_map_inj enc henc, List.map_map]
  unfold Descriptive.histogram Descriptive.groupCount
  rw [List.map_map]
  apply List.map_congr_left
  intro k _
  have hc : binCount (Expr.col 0) (ws.map fun w => [enc (binLow w)]) (enc k)
      = ((ws.map binLow).filter fun x => x == k).length := by
    unfold binCount
    rw [List.filter_map, List.length_map, List.filter_map, List.length_map]
    congr 1
    apply List.filter_congr
    intro w _
    exact beq_map_inj enc henc (binLow w) k
  simp only [Function.comp, hc]

/-! ## Unlinkables -/

open SplinkVerif.Descriptive (PropRow UnlRow maxOver unlProportions)

/-- a rounded probability (`p` units of `1 / scale`) as the exact number the SQL compares with 1 -/
def encP (scale : Nat) (p : Int) : Val := Val.rat ((p : Rat) / (scale : Rat))

/-- a row of the rounded self-link table: (weight in hundredths, probability) -/
def encSelf (scale : Nat) (r : Int × Int) : Row := [Val.int r.1, encP scale r.2]

/-- the grouped row (match_probability, max(match_weight), count(*)) -/
def encG (scale : Nat) (r : PropRow) : Row := [encP scale r.prob, Val.int r.weight, Val.int (r.count : Nat)]

/-- a row of `__splink__df_unlinkables_proportions`: (match_weight, match_probability, prop) -/
def encProp (scale : Nat) (r : PropRow) : Row :=
  [Val.int r.weight, encP scale r.prob, Val.rat ((r.count : Rat) / (r.total : Rat))]

/-- a row of the result: (match_weight, match_probability, prop, cum_prop) -/
def encUnl (scale : Nat) (r : UnlRow) : Row :=
  [Val.int r.weight, encP scale r.prob, Val.rat ((r.count : Rat) / (r.total : Rat)),
   Val.rat ((r.cumCount : Rat) / (r.total : Rat))]

theorem scale_ne (scale : Nat) (hs : 0 < scale) : (scale : Rat) ≠ 0 := by
  exact_mod_cast (by omega : scale ≠ 0)

theorem encP_inj (scale : Nat) (hs : 0 < scale) (a b : Int) (h : encP scale a = encP scale b) : a = b := by
  unfold encP at h
  have h' : (a : Rat) / (scale : Rat) = (b : Rat) / (scale : Rat) := Val.rat.inj h
  have := (div_left_inj' (scale_ne scale hs)).mp h'
  exact_mod_cast this

theorem encPkey_inj (scale : Nat) (hs : 0 < scale) (a b : Int) (h : [encP scale a] = [encP scale b]) : a = b :=
  encP_inj scale hs a b (singleton_inj _ _ h)

theorem div_scale_lt (scale : Nat) (hs : 0 < scale) (a b : Int) :
    ((a : Rat) / (scale : Rat) < (b : Rat) / (scale : Rat)) ↔ a < b := by
  have hpos : (0 : Rat) < (scale : Rat) := by exact_mod_cast hs
  rw [div_lt_div_iff_of_pos_right hpos]
  exact_mod_cast Iff.rfl

theorem div_scale_le (scale : Nat) (hs : 0 < scale) (a b : Int) :
    ((a : Rat) / (scale : Rat) ≤ (b : Rat) / (scale : Rat)) ↔ a ≤ b := by
  have hpos : (0 : Rat) < (scale : Rat) := by exact_mod_cast hs
  rw [div_le_div_iff_of_pos_right hpos]
  exact_mod_cast Iff.rfl

/-- `match_probability < 1` on an encoded probability -/
theorem lt_one_eval (scale : Nat) (hs : 0 < scale) (p : Int) :
    Cmp.lt.eval (encP scale p) (Val.rat 1) = Val.bool (decide (p < (scale : Int))) := by
  have hpos : (0 : Rat) < (scale : Rat) := by exact_mod_cast hs
  have h1 : ((p : Rat) / (scale : Rat) < 1) ↔ p < (scale : Int) := by
    rw [div_lt_one hpos]
    exact_mod_cast Iff.rfl
  simp only [Cmp.eval, encP, Val.lt]
  congr 1
  exact decide_eq_decide.mpr h1

/-- `order by match_probability`: `≤` on encoded probabilities -/
theorem le_eval (scale : Nat) (hs : 0 < scale) (a b : Int) :
    Cmp.le.eval (encP scale a) (encP scale b) = Val.bool (decide (a ≤ b)) := by
  simp only [Cmp.eval, encP, Val.lt]
  congr 1
  by_cases h : a ≤ b
  · rcases Int.lt_or_eq_of_le h with h' | h'
    · have := (div_scale_lt scale hs a b).mpr h'
      simp [h, this]
    · subst h'; simp
  · have h1 : ¬ ((a : Rat) / (scale : Rat) < (b : Rat) / (scale : Rat)) := fun h' =>
      h (Int.le_of_lt ((div_scale_lt scale hs a b).mp h'))
    have h2 : ¬ a = b := fun h' => h (by omega)
    have h3 : (Val.rat ((a : Rat) / (scale : Rat)) == Val.rat ((b : Rat) / (scale : Rat))) = false := by
      have : encP scale a ≠ encP scale b := fun e => h2 (encP_inj scale hs a b e)
      simpa [encP] using this
    simp [h, h1, h3]

theorem foldl_max_assoc : ∀ (l : List Int) (a b : Int), l.foldl max (max a b) = max a (l.foldl max b)
  | [], _, _ => rfl
  | c :: l, a, b => by
    rw [List.foldl_cons, List.foldl_cons, Int.max_assoc, foldl_max_assoc l]

/-- SQL `max` over a non-empty list of integers is `maxOver`. -/
theorem maxVals_int : ∀ l : List Int, l ≠ [] → maxVals (l.map Val.int) = Val.int (maxOver l)
  | [], h => absurd rfl h
  | [a], _ => rfl
  | a :: b :: l, _ => by
    have ih := maxVals_int (b :: l) (by simp)
    rw [List.map_cons, maxVals_cons, ih, maxStep_int_int]
    simp only [maxOver, List.foldl_cons]
    rw [foldl_max_assoc]

/-- `select match_probability, max(match_weight), count(*) from round_self_link group by match_probability` -/
theorem unlGroup_eval (scale : Nat) (hs : 0 < scale) (rows : List (Int × Int)) :
    groupRows [Expr.col 1] [Agg.max (Expr.col 0), Agg.countStar] (rows.map (encSelf scale))
      = (unlProportions rows).map (encG scale) := by
  unfold groupRows
  simp only [List.isEmpty_cons, Bool.false_eq_true, if_false]
  have hkeys : (rows.map (encSelf scale)).map (fun row => [Expr.col 1].map (·.eval row))
      = (rows.map (·.2)).map fun p => [encP scale p] := by
    rw [List.map_map, List.map_map]; rfl
  rw [hkeys, eraseDups_map_inj (fun p => [encP scale p]) (encPkey_inj scale hs), List.map_map]
  unfold unlProportions
  rw [List.map_map]
  apply List.map_congr_left
  intro p hp
  simp only [Function.comp]
  have hF : ((rows.map (encSelf scale)).filter fun row => ([Expr.col 1].map (·.eval row)) == [encP scale p])
      = (rows.filter fun r => r.2 == p).map (encSelf scale) := by
    rw [List.filter_map]
    congr 1
    apply List.filter_congr
    intro x _
    show ([encP scale x.2] == [encP scale p]) = _
    exact beq_map_inj (fun p => [encP scale p]) (encPkey_inj scale hs) x.2 p
  rw [hF]
  generalize hG : (rows.filter fun r => r.2 == p) = G
  have hne : G ≠ [] := by
    rw [List.mem_eraseDups, List.mem_map] at hp
    obtain ⟨x, hx, rfl⟩ := hp
    intro hnil
    have : x ∈ rows.filter fun r => r.2 == x.2 := List.mem_filter.mpr ⟨hx, by simp⟩
    rw [hG, hnil] at this
    cases this
  have hmax : maxVals ((G.map (encSelf scale)).map (Expr.col 0).eval) = Val.int (maxOver (G.map (·.1))) := by
    rw [List.map_map]
    have : ((Expr.col 0).eval ∘ encSelf scale) = (Val.int ∘ fun r : Int × Int => r.1) := rfl
    rw [this, ← List.map_map]
    exact maxVals_int _ (by simpa using hne)
  simp only [encG, List.map_cons, List.map_nil, Agg.eval, hmax, List.length_map, List.cons_append, List.nil_append]

theorem sum_cast_int {α : Type} (f : α → Nat) (l : List α) :
    (l.map fun a => ((f a : Nat) : Int)).sum = (((l.map f).sum : Nat) : Int) := by
  induction l with
  | nil => rfl
  | cons a l ih =>
    simp only [List.map_cons, List.sum_cons, ih]
    push_cast
    rfl

theorem unlProportions_total (rows : List (Int × Int)) (r : PropRow) (h : r ∈ unlProportions rows) :
    r.total = rows.length ∧ 0 < rows.length := by
  obtain ⟨hp, _, ht, _⟩ := Lemmas.Desc.mem_unlProportions rows r h
  refine ⟨ht, ?_⟩
  rw [List.mem_map] at hp
  obtain ⟨x, hx, _⟩ := hp
  exact List.length_pos_of_mem hx

theorem unlProportions_count_sum (rows : List (Int × Int)) :
    ((unlProportions rows).map (·.count)).sum = rows.length := by
  have h := Lemmas.Desc.sum_counts_filter rows (fun _ => true)
  simpa using h

/-- **Statement 2** on the encoded rounded table: `Descriptive.unlProportions`, row for row. -/
theorem unlProportions_eval (scale : Nat) (hs : 0 < scale) (rows : List (Int × Int)) (db : Db)
    (hin : db "__splink__df_round_self_link" = rows.map (encSelf scale)) :
    Gen.DescSql.unlProportions.eval db = (unlProportions rows).map (encProp scale) := by
  unfold Gen.DescSql.unlProportions
  rw [eval_project, eval_window, eval_groupBy, eval_table, hin, unlGroup_eval scale hs, List.map_map, List.map_map]
  apply List.map_congr_left
  intro r hr
  obtain ⟨ht, hpos⟩ := unlProportions_total rows r hr
  have hall : ((unlProportions rows).map (encG scale)).filter
      (fun x => ([] : List Expr).map (·.eval x) == ([] : List Expr).map (·.eval (encG scale r)))
      = (unlProportions rows).map (encG scale) := by
    apply List.filter_eq_self.mpr
    intro _ _
    rfl
  have hne : unlProportions rows ≠ [] := List.ne_nil_of_mem hr
  have hsum : Agg.eval ((unlProportions rows).map (encG scale)) (Agg.sum (Expr.col 2))
      = Val.int ((rows.length : Nat) : Int) := by
    show sumVals (((unlProportions rows).map (encG scale)).map (Expr.col 2).eval) = _
    rw [List.map_map]
    have : ((Expr.col 2).eval ∘ encG scale) = fun r : PropRow => Val.int ((r.count : Nat) : Int) := rfl
    rw [this, Lemmas.AccSql.sumVals_map_int (fun r : PropRow => ((r.count : Nat) : Int)) _ hne]
    rw [sum_cast_int, unlProportions_count_sum]
  simp only [Function.comp, hall, hsum]
  have hne' : ((rows.length : Nat) : Rat) ≠ 0 := by
    exact_mod_cast (by omega : rows.length ≠ 0)
  simp [encG, encProp, Expr.eval, Arith.eval, Val.toRat?, ht, hne']

theorem sum_prop_div (l : List PropRow) (t : Nat) (ht : ∀ r ∈ l, r.total = t) :
    (l.map fun r => (r.count : Rat) / (r.total : Rat)).sum = (((l.map (·.count)).sum : Nat) : Rat) / (t : Rat) := by
  induction l with
  | nil => simp
  | cons r l ih =>
    rw [List.map_cons, List.sum_cons, ih (fun x hx => ht x (List.mem_cons_of_mem _ hx)),
      ht r List.mem_cons_self, List.map_cons, List.sum_cons, Nat.cast_add, add_div]

theorem holds_lt_one (scale : Nat) (hs : 0 < scale) (r : PropRow) :
    (Expr.cmp Cmp.lt (Expr.col 1) (Expr.toRat (Expr.lit (Val.int 1)))).holds (encProp scale r)
      = decide (r.prob < (scale : Int)) := by
  have h : (Expr.cmp Cmp.lt (Expr.col 1) (Expr.toRat (Expr.lit (Val.int 1)))).eval (encProp scale r)
      = Cmp.lt.eval (encP scale r.prob) (Val.rat 1) := by
    simp only [Expr.eval, encProp]
    simp
  rw [Expr.holds, h, lt_one_eval scale hs]
  by_cases hlt : r.prob < (scale : Int) <;> simp [hlt]

/-- **Statement 3** on the encoded proportions: `Descriptive.unlinkables`, row for row (`WHERE` before the window; the window sums the
proportions of the listed probabilities `≤` the current one). -/
theorem unlCumulative_eval (scale : Nat) (hs : 0 < scale) (rows : List (Int × Int)) (db : Db)
    (hin : db "__splink__df_unlinkables_proportions" = (unlProportions rows).map (encProp scale)) :
    Gen.DescSql.unlCumulative.eval db = (Descriptive.unlinkables (scale : Int) rows).map (encUnl scale) := by
  unfold Gen.DescSql.unlCumulative
  rw [eval_project, eval_windowCum, eval_filter, eval_table, hin]
  have hfilt : ((unlProportions rows).map (encProp scale)).filter
        (Expr.cmp Cmp.lt (Expr.col 1) (Expr.toRat (Expr.lit (Val.int 1)))).holds
      = ((unlProportions rows).filter fun r => decide (r.prob < (scale : Int))).map (encProp scale) := by
    rw [List.filter_map]
    congr 1
    apply List.filter_congr
    intro r _
    exact holds_lt_one scale hs r
  rw [hfilt]
  unfold Descriptive.unlinkables
  simp only []
  generalize hK : ((unlProportions rows).filter fun r => decide (r.prob < (scale : Int))) = K
  have hKmem : ∀ r ∈ K, r.total = rows.length := by
    intro r hr
    rw [← hK] at hr
    exact (unlProportions_total rows r (List.mem_filter.mp hr).1).1
  rw [List.map_map, List.map_map, List.map_map]
  apply List.map_congr_left
  intro a ha
  simp only [Function.comp, Bool.false_eq_true, if_false]
  have hfil : (K.map (encProp scale)).filter
        (fun x => Cmp.le.eval ((Expr.col 1).eval x) ((Expr.col 1).eval (encProp scale a)) == Val.bool true)
      = (K.filter fun b => decide (b.prob ≤ a.prob)).map (encProp scale) := by
    rw [List.filter_map]
    congr 1
    apply List.filter_congr
    intro b _
    show (Cmp.le.eval (encP scale b.prob) (encP scale a.prob) == Val.bool true) = _
    rw [le_eval scale hs]
    by_cases hle : b.prob ≤ a.prob <;> simp [hle]
  have hne : (K.filter fun b => decide (b.prob ≤ a.prob)) ≠ [] := by
    intro hnil
    have : a ∈ K.filter fun b => decide (b.prob ≤ a.prob) := List.mem_filter.mpr ⟨ha, by simp⟩
    rw [hnil] at this
    cases this
  have hsum : Agg.eval ((K.map (encProp scale)).filter
        (fun x => Cmp.le.eval ((Expr.col 1).eval x) ((Expr.col 1).eval (encProp scale a)) == Val.bool true))
        (Agg.sum (Expr.col 2))
      = Val.rat (((((K.filter fun b => decide (b.prob ≤ a.prob)).map (·.count)).sum : Nat) : Rat) / (a.total : Rat)) := by
    rw [hfil]
    show sumVals (((K.filter fun b => decide (b.prob ≤ a.prob)).map (encProp scale)).map (Expr.col 2).eval) = _
    rw [List.map_map]
    have : ((Expr.col 2).eval ∘ encProp scale) = fun r : PropRow => Val.rat ((r.count : Rat) / (r.total : Rat)) := rfl
    rw [this, Lemmas.DescSql.sumVals_map_rat (fun r : PropRow => (r.count : Rat) / (r.total : Rat)) _ hne,
      sum_prop_div _ rows.length (fun r hr => hKmem r (List.mem_filter.mp hr).1), hKmem a ha]
  rw [hsum]
  rfl

/-- **`unlinkables_data`, the three statements**: for any self-link table and any two rounding expressions whose values on the table
are the integers `rows` (weights in hundredths, probabilities in units of `1 / scale`), the result is `Descriptive.unlinkables`, row
for row. -/
theorem unlinkables_eq (scale : Nat) (hs : 0 < scale) (rows : List (Int × Int)) (rw rp : Expr) (db : Db)
    (hround : (db "self_in").map (fun r => [rw.eval r, rp.eval r]) = rows.map (encSelf scale)) :
    SplinkVerif.DescSql.unlinkables rw rp db = (Descriptive.unlinkables (scale : Int) rows).map (encUnl scale) := by
  unfold SplinkVerif.DescSql.unlinkables Gen.DescSql.unlStmts
  simp only [runStmts]
  rw [set_same]
  apply unlCumulative_eval scale hs rows
  rw [set_same]
  apply unlProportions_eval scale hs rows
  rw [set_same]
  unfold Gen.DescSql.roundSelfLink
  rw [eval_project, eval_table, ← hround]
  rfl

/-- Every row of the SQL result is a recount: the listed probability is below 1, `prop` is the share of the records with exactly that
rounded probability, `cum_prop` the share of the records at or below it, `match_weight` the largest rounded weight among the
records with that probability. -/
theorem unlinkables_sql_rows (scale : Nat) (hs : 0 < scale) (rows : List (Int × Int)) (rw rp : Expr) (db : Db)
    (hround : (db "self_in").map (fun r => [rw.eval r, rp.eval r]) = rows.map (encSelf scale)) :
    ∀ row ∈ SplinkVerif.DescSql.unlinkables rw rp db, ∃ (w p : Int) (c cum : Nat),
      row = [Val.int w, Val.rat ((p : Rat) / (scale : Rat)), Val.rat ((c : Rat) / (rows.length : Rat)),
             Val.rat ((cum : Rat) / (rows.length : Rat))] ∧
      p < (scale : Int) ∧ p ∈ rows.map (·.2) ∧
      c = (rows.filter fun x => x.2 == p).length ∧ 0 < c ∧
      cum = (rows.filter fun x => decide (x.2 ≤ p)).length ∧
      (w, p) ∈ rows ∧ ∀ x ∈ rows, x.2 = p → x.1 ≤ w := by
  intro row hrow
  rw [unlinkables_eq scale hs rows rw rp db hround, List.mem_map] at hrow
  obtain ⟨r, hr, rfl⟩ := hrow
  obtain ⟨h1, h2, h3, h4, h5, h6⟩ := Lemmas.Desc.mem_unlinkables (scale : Int) rows r hr
  obtain ⟨h7, h8⟩ := Lemmas.Desc.unlinkables_weight (scale : Int) rows r hr
  refine ⟨r.weight, r.prob, r.count, r.cumCount, ?_, h1, h2, h3, h6, h4, h7, h8⟩
  simp only [encUnl, encP, h5]

/-- Every record whose rounded self-match probability is below 1 finds its probability listed, and each probability is listed once. -/
theorem unlinkables_sql_listed (scale : Nat) (hs : 0 < scale) (rows : List (Int × Int)) (rw rp : Expr) (db : Db)
    (hround : (db "self_in").map (fun r => [rw.eval r, rp.eval r]) = rows.map (encSelf scale)) :
    ((SplinkVerif.DescSql.unlinkables rw rp db).map fun row => row.getD 1 Val.null).Nodup ∧
    ∀ x ∈ rows, x.2 < (scale : Int) →
      ∃ row ∈ SplinkVerif.DescSql.unlinkables rw rp db, row.getD 1 Val.null = Val.rat ((x.2 : Rat) / (scale : Rat)) := by
  rw [unlinkables_eq scale hs rows rw rp db hround]
  obtain ⟨hnd, hall⟩ := Lemmas.Desc.unlinkables_listed (scale : Int) rows
  constructor
  · rw [List.map_map]
    have : ((fun row : Row => row.getD 1 Val.null) ∘ encUnl scale) = (encP scale ∘ fun r : UnlRow => r.prob) := rfl
    rw [this, ← List.map_map]
    exact List.Nodup.map (fun a b h => encP_inj scale hs a b h) hnd
  · intro x hx hlt
    obtain ⟨r, hr, hp⟩ := hall x hx hlt
    exact ⟨encUnl scale r, List.mem_map_of_mem hr, by simp [encUnl, encP, hp]⟩

end SplinkVerif.Lemmas.DescSql2
