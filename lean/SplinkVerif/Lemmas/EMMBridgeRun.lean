import SplinkVerif.Lemmas.EMMBridge
import SplinkVerif.Lemmas.EMMBridgeWitness
import Mathlib.Data.List.Chain
/-!
# The hypotheses of the M-step bridge are preserved by `EM.step`; monotonicity along `EM.run`

* `StepOK θ rows`: the hypotheses of `execLogLik_mono` and `step_bridge_eq` together
  (plus `rows ≠ []`, needed for `0 < prior' < 1`);
* `stepOK_step`: `StepOK θ rows → StepOK (EM.step sess θ rows) rows`;
* `run_chain`: along the history returned by `EM.run` every set of parameters satisfies
  `StepOK` and the log-likelihood of the rows never decreases from one iteration to the next.
-/
namespace SplinkVerif.Lemmas.EMMBridge
open SplinkVerif SplinkVerif.Score SplinkVerif.Lemmas.Score
open SplinkVerif.Lemmas SplinkVerif.Lemmas.EMBridge SplinkVerif.Lemmas.EM

/-- All hypotheses of the M-step bridge and of likelihood monotonicity. -/
structure StepOK (θ : EM.Params ℝ) (rows : List (EM.Row ℝ)) : Prop where
  prior_pos : 0 < θ.prior
  prior_lt : θ.prior < 1
  noTf : NoTf θ
  positive : PositiveMU θ
  distinct : DistinctValues θ
  nullMinusOne : NullIsMinusOne θ
  shape : SameShape θ
  flags : LevelFlagsOff θ
  guards : GuardsMatch θ rows
  total : EveryComparisonAssignsLevel θ rows
  nonempty : rows ≠ []
  counts : ∀ r ∈ rows, 0 < r.count
  subM : SubNormalisedM θ rows
  subU : SubNormalisedU θ rows

section preserve
variable (sess : EM.Session) (θ : EM.Params ℝ) (rows : List (EM.Row ℝ))

/-! ## What does not depend on the numbers -/

theorem newLevel_tf (ci : ℕ) (l : Level ℝ) : (newLevel sess θ rows ci l).tf = l.tf := by
  unfold newLevel; split <;> rfl

theorem mem_step_comps (hshape : SameShape θ) (hflags : LevelFlagsOff θ) (c' : Comparison ℝ)
    (h : c' ∈ (EM.step sess θ rows).comps) :
    ∃ (ci : ℕ) (hc : ci < θ.comps.length), c' = (θ.comps[ci]).map (newLevel sess θ rows ci) := by
  obtain ⟨ci, hci, rfl⟩ := List.mem_iff_getElem.mp h
  have hc : ci < θ.comps.length := by
    rw [← step_comps_length sess θ rows hshape hflags]; exact hci
  exact ⟨ci, hc, step_comp_getElem sess θ rows hshape hflags ci hci hc⟩

theorem step_noTf (hshape : SameShape θ) (hflags : LevelFlagsOff θ) (h : NoTf θ) :
    NoTf (EM.step sess θ rows) := by
  intro c' hc'
  obtain ⟨ci, hc, rfl⟩ := mem_step_comps sess θ rows hshape hflags c' hc'
  have := h _ (List.getElem_mem hc)
  unfold hasTf at this ⊢
  rw [List.any_map]
  rw [← this]
  congr 1
  funext l
  simp [newLevel_tf]

theorem step_distinct (hshape : SameShape θ) (hflags : LevelFlagsOff θ) (h : DistinctValues θ) :
    DistinctValues (EM.step sess θ rows) := by
  intro c' hc'
  obtain ⟨ci, hc, rfl⟩ := mem_step_comps sess θ rows hshape hflags c' hc'
  have := h _ (List.getElem_mem hc)
  rw [List.map_map]
  have e : ((fun x : Level ℝ => x.cvv) ∘ newLevel sess θ rows ci) = fun x => x.cvv := by
    funext l; simp [newLevel_cvv]
  rw [e]
  exact this

theorem step_nullMinusOne (hshape : SameShape θ) (hflags : LevelFlagsOff θ)
    (h : NullIsMinusOne θ) : NullIsMinusOne (EM.step sess θ rows) := by
  intro c' hc' l' hl'
  obtain ⟨ci, hc, rfl⟩ := mem_step_comps sess θ rows hshape hflags c' hc'
  obtain ⟨l, hl, rfl⟩ := List.mem_map.mp hl'
  rw [newLevel_isNull, newLevel_cvv]
  exact h _ (List.getElem_mem hc) l hl

/-- comps and states after the step are two projections of the same list -/
theorem step_sameShape : SameShape (EM.step sess θ rows) := by
  unfold SameShape
  simp [EM.step, List.map_map, Function.comp_def]

theorem updateLevel_snd_flags (ci : ℕ) (l : Level ℝ) (st : EM.LevelState) :
    (EM.updateLevel sess θ rows ci l st).2.fixM = st.fixM ∧
      (EM.updateLevel sess θ rows ci l st).2.fixU = st.fixU := by
  rw [updateLevel_eq]
  cases l.isNull <;> simp

theorem step_flags (hflags : LevelFlagsOff θ) : LevelFlagsOff (EM.step sess θ rows) := by
  intro sts' hsts' st' hst'
  simp only [EM.step, List.mem_map] at hsts'
  obtain ⟨d, hd, rfl⟩ := hsts'
  obtain ⟨i, hi⟩ := List.mem_iff_getElem?.mp hd
  obtain ⟨x, y, _, hy, rfl⟩ := zipWith3Idx_getElem? _ _ _ i d hi
  simp only [List.map_map, List.mem_map, Function.comp] at hst'
  obtain ⟨p, hp, rfl⟩ := hst'
  have hpy : p.2 ∈ y := (List.of_mem_zip hp).2
  have hyθ : y ∈ θ.states := List.mem_of_getElem? hy
  obtain ⟨h1, h2⟩ := hflags y hyθ p.2 hpy
  obtain ⟨e1, e2⟩ := updateLevel_snd_flags sess θ rows i p.1 p.2
  exact ⟨e1.trans h1, e2.trans h2⟩

theorem step_guards (hshape : SameShape θ) (hflags : LevelFlagsOff θ) (h : GuardsMatch θ rows) :
    GuardsMatch (EM.step sess θ rows) rows := by
  intro r hr
  rw [step_comps_length sess θ rows hshape hflags]
  exact h r hr

/-- the step does not change the `gamma` of any row -/
theorem gammaAt_step (hshape : SameShape θ) (hflags : LevelFlagsOff θ) (r : EM.Row ℝ) (c : ℕ) :
    EM.gammaAt (EM.step sess θ rows) r c = EM.gammaAt θ r c := by
  unfold EM.gammaAt
  rw [step_comps sess θ rows hshape hflags, List.getElem?_mapIdx]
  cases θ.comps[c]? with
  | none => rfl
  | some comp =>
    simp only [Option.map_some]
    cases r.pair.guards[c]? with
    | none => rfl
    | some gs =>
      simp only
      exact gamma_map _ (newLevel_cvv sess θ rows c) (newLevel_isElse sess θ rows c) comp gs

theorem step_total (hshape : SameShape θ) (hflags : LevelFlagsOff θ)
    (h : EveryComparisonAssignsLevel θ rows) :
    EveryComparisonAssignsLevel (EM.step sess θ rows) rows := by
  intro r hr c hc
  rw [gammaAt_step sess θ rows hshape hflags]
  exact h r hr c (by rw [← step_comps_length sess θ rows hshape hflags]; exact hc)

theorem observedValues_step (hshape : SameShape θ) (hflags : LevelFlagsOff θ)
    (rows' : List (EM.Row ℝ)) (c : ℕ) :
    EM.observedValues (EM.step sess θ rows) rows' c = EM.observedValues θ rows' c := by
  unfold EM.observedValues
  simp only [gammaAt_step sess θ rows hshape hflags]

/-! ## Positivity and normalisation of the new values -/

theorem posOn_abs (hpos : PositiveMU θ) :
    EML.PosOn (rowPatterns θ rows) (absParams θ).m ∧
      EML.PosOn (rowPatterns θ rows) (absParams θ).u := by
  constructor
  · rintro c l ⟨j, hj⟩
    exact (hpos _ (List.getElem_mem c.isLt) _ (List.getElem_mem l.isLt)
      (absPattern_nonNull θ rows[j.val] c l hj)).1
  · rintro c l ⟨j, hj⟩
    exact (hpos _ (List.getElem_mem c.isLt) _ (List.getElem_mem l.isLt)
      (absPattern_nonNull θ rows[j.val] c l hj)).2

theorem rowWeights_pos (hcount : ∀ r ∈ rows, 0 < r.count) (j : Fin rows.length) :
    0 < rowWeights rows j := by
  unfold rowWeights
  exact_mod_cast hcount _ (List.getElem_mem j.isLt)

theorem post_mem (hl0 : 0 < θ.prior) (hl1 : θ.prior < 1) (hpos : PositiveMU θ)
    (j : Fin rows.length) :
    EML.post (absParams θ) (rowPatterns θ rows j) ∈ Set.Ioo (0 : ℝ) 1 := by
  obtain ⟨hm, hu⟩ := posOn_abs θ rows hpos
  exact EML.post_mem_Ioo _ _ (EML.pm_pu_pos (rowPatterns θ rows) (absParams θ) hl0 hl1 hm hu j).1
    (EML.pm_pu_pos (rowPatterns θ rows) (absParams θ) hl0 hl1 hm hu j).2

/-- the abstract step's values are positive at every position holding a non-null level -/
theorem absStep_pos (hl0 : 0 < θ.prior) (hl1 : θ.prior < 1) (hpos : PositiveMU θ)
    (hcount : ∀ r ∈ rows, 0 < r.count) (c : Fin θ.comps.length) (i : Fin (absL θ c))
    (hn : (levelAt θ c i).isNull = false) :
    0 < (absStep sess θ rows).m c i ∧ 0 < (absStep sess θ rows).u c i := by
  have hq := post_mem θ rows hl0 hl1 hpos
  have hn' := rowWeights_pos rows hcount
  have hold := hpos _ (List.getElem_mem c.isLt) _ (List.getElem_mem i.isLt) hn
  unfold absStep EML.emStep
  constructor
  · cases sess.fixM
    · simp only [Bool.false_eq_true, if_false]
      exact EML.newBlock_pos _ _ (EML.wM_pos _ _ _ hn' hq) _ (by norm_num) c i
    · exact hold.1
  · cases sess.fixU
    · simp only [Bool.false_eq_true, if_false]
      exact EML.newBlock_pos _ _ (EML.wU_pos _ _ _ hn' hq) _ (by norm_num) c i
    · exact hold.2

theorem step_positive (h : StepOK θ rows) : PositiveMU (EM.step sess θ rows) := by
  intro c' hc' l' hl' hn'
  obtain ⟨ci, hc, rfl⟩ := mem_step_comps sess θ rows h.shape h.flags c' hc'
  obtain ⟨l, hl, rfl⟩ := List.mem_map.mp hl'
  obtain ⟨i, hi, rfl⟩ := List.mem_iff_getElem.mp hl
  rw [newLevel_isNull] at hn'
  have hE := eStepBridged_of θ rows h.prior_pos h.prior_lt h.noTf h.positive h.guards h.total
  have hp := absStep_pos sess θ rows h.prior_pos h.prior_lt h.positive h.counts ⟨ci, hc⟩ ⟨i, hi⟩ hn'
  have e1 := newLevel_m_eq sess θ rows ⟨ci, hc⟩ ⟨i, hi⟩
    (isFirst_of_distinct θ h.distinct _ _) h.nullMinusOne hn' h.guards hE
  have e2 := newLevel_u_eq sess θ rows ⟨ci, hc⟩ ⟨i, hi⟩
    (isFirst_of_distinct θ h.distinct _ _) h.nullMinusOne hn' h.guards hE
  exact ⟨e1 ▸ hp.1, e2 ▸ hp.2⟩

theorem step_prior_mem (h : StepOK θ rows) :
    0 < (EM.step sess θ rows).prior ∧ (EM.step sess θ rows).prior < 1 := by
  have hE := eStepBridged_of θ rows h.prior_pos h.prior_lt h.noTf h.positive h.guards h.total
  rw [step_prior_eq sess θ rows hE]
  have : Nonempty (Fin rows.length) := ⟨⟨0, List.length_pos_iff.mpr h.nonempty⟩⟩
  obtain ⟨hm, hu⟩ := posOn_abs θ rows h.positive
  obtain ⟨a, b, _, _⟩ := EML.emStep_posOn sess.fixM sess.fixU sess.fixLambda (1 / 1000000)
    (rowPatterns θ rows) (rowWeights rows) (absParams θ) h.prior_pos h.prior_lt hm hu
    (rowWeights_pos rows h.counts)
  exact ⟨a, b⟩

/-- the abstract new values of the observed positions sum to at most 1 -/
theorem sum_newBlock_le (w : Fin rows.length → ℝ) (hw : ∀ j, 0 < w j) (c : Fin θ.comps.length) :
    ∑ l with EML.Observed (rowPatterns θ rows) c l,
      EML.newBlock (rowPatterns θ rows) w (1 / 1000000) c l ≤ 1 := by
  by_cases hc : ∃ l, EML.Observed (rowPatterns θ rows) c l
  · exact (EML.sum_newBlock_observed _ w hw _ c hc).le
  · have : (Finset.univ.filter fun l => EML.Observed (rowPatterns θ rows) c l) = ∅ :=
      Finset.filter_eq_empty_iff.2 fun l _ hl => hc ⟨l, hl⟩
    rw [this]; simp

/-- the executable sum, over the levels with an observed value, of what `newLevel` stores is
the abstract sum over the observed positions -/
theorem sum_newLevel_eq (h : StepOK θ rows) (c : Fin θ.comps.length) (f : Level ℝ → ℝ) :
    (((θ.comps[c.val]).filter fun l =>
        (EM.observedValues θ rows c.val).contains l.cvv).map
          (fun l => f (newLevel sess θ rows c.val l))).sum =
      ∑ l with EML.Observed (rowPatterns θ rows) c l,
        f (newLevel sess θ rows c.val (levelAt θ c l)) :=
  (sum_observed_eq θ rows c h.distinct h.nullMinusOne h.guards
    (fun l => f (newLevel sess θ rows c.val l))).symm

theorem step_sub (h : StepOK θ rows) :
    SubNormalisedM (EM.step sess θ rows) rows ∧ SubNormalisedU (EM.step sess θ rows) rows := by
  have hE := eStepBridged_of θ rows h.prior_pos h.prior_lt h.noTf h.positive h.guards h.total
  have hq := post_mem θ rows h.prior_pos h.prior_lt h.positive
  have hn := rowWeights_pos rows h.counts
  have key : ∀ (c : ℕ) (hc' : c < (EM.step sess θ rows).comps.length) (g : Level ℝ → ℝ),
      ∃ hc : c < θ.comps.length,
      ((((EM.step sess θ rows).comps[c]).filter fun l =>
        (EM.observedValues (EM.step sess θ rows) rows c).contains l.cvv).map g).sum =
      ∑ l with EML.Observed (rowPatterns θ rows) ⟨c, hc⟩ l,
        g (newLevel sess θ rows c (levelAt θ ⟨c, hc⟩ l)) := by
    intro c hc' g
    have hc : c < θ.comps.length := by
      rw [← step_comps_length sess θ rows h.shape h.flags]; exact hc'
    refine ⟨hc, ?_⟩
    rw [observedValues_step sess θ rows h.shape h.flags,
      step_comp_getElem sess θ rows h.shape h.flags c hc' hc, List.filter_map, List.map_map]
    have e : ((fun l : Level ℝ => (EM.observedValues θ rows c).contains l.cvv) ∘
        newLevel sess θ rows c) = fun l => (EM.observedValues θ rows c).contains l.cvv := by
      funext l; simp [newLevel_cvv]
    rw [e]
    exact sum_newLevel_eq sess θ rows h ⟨c, hc⟩ g
  constructor
  · intro c hc'
    obtain ⟨hc, e⟩ := key c hc' (·.m)
    rw [e]
    have e2 : ∀ l ∈ Finset.univ.filter (fun l => EML.Observed (rowPatterns θ rows) ⟨c, hc⟩ l),
        (newLevel sess θ rows c (levelAt θ ⟨c, hc⟩ l)).m = (absStep sess θ rows).m ⟨c, hc⟩ l := by
      intro l hl
      obtain ⟨j, hj⟩ := (Finset.mem_filter.1 hl).2
      exact newLevel_m_eq sess θ rows ⟨c, hc⟩ l (isFirst_of_distinct θ h.distinct _ _)
        h.nullMinusOne (absPattern_nonNull θ rows[j.val] ⟨c, hc⟩ l hj) h.guards hE
    rw [Finset.sum_congr rfl e2]
    unfold absStep EML.emStep
    cases sess.fixM
    · simp only [Bool.false_eq_true, if_false]
      exact sum_newBlock_le θ rows _ (EML.wM_pos _ _ _ hn hq) ⟨c, hc⟩
    · simp only [if_true]
      have := sum_observed_eq θ rows ⟨c, hc⟩ h.distinct h.nullMinusOne h.guards (·.m)
      exact le_of_eq_of_le this (h.subM c hc)
  · intro c hc'
    obtain ⟨hc, e⟩ := key c hc' (·.u)
    rw [e]
    have e2 : ∀ l ∈ Finset.univ.filter (fun l => EML.Observed (rowPatterns θ rows) ⟨c, hc⟩ l),
        (newLevel sess θ rows c (levelAt θ ⟨c, hc⟩ l)).u = (absStep sess θ rows).u ⟨c, hc⟩ l := by
      intro l hl
      obtain ⟨j, hj⟩ := (Finset.mem_filter.1 hl).2
      exact newLevel_u_eq sess θ rows ⟨c, hc⟩ l (isFirst_of_distinct θ h.distinct _ _)
        h.nullMinusOne (absPattern_nonNull θ rows[j.val] ⟨c, hc⟩ l hj) h.guards hE
    rw [Finset.sum_congr rfl e2]
    unfold absStep EML.emStep
    cases sess.fixU
    · simp only [Bool.false_eq_true, if_false]
      exact sum_newBlock_le θ rows _ (EML.wU_pos _ _ _ hn hq) ⟨c, hc⟩
    · simp only [if_true]
      have := sum_observed_eq θ rows ⟨c, hc⟩ h.distinct h.nullMinusOne h.guards (·.u)
      exact le_of_eq_of_le this (h.subU c hc)

/-- **All hypotheses hold again after the step.** -/
theorem stepOK_step (h : StepOK θ rows) : StepOK (EM.step sess θ rows) rows where
  prior_pos := (step_prior_mem sess θ rows h).1
  prior_lt := (step_prior_mem sess θ rows h).2
  noTf := step_noTf sess θ rows h.shape h.flags h.noTf
  positive := step_positive sess θ rows h
  distinct := step_distinct sess θ rows h.shape h.flags h.distinct
  nullMinusOne := step_nullMinusOne sess θ rows h.shape h.flags h.nullMinusOne
  shape := step_sameShape sess θ rows
  flags := step_flags sess θ rows h.flags
  guards := step_guards sess θ rows h.shape h.flags h.guards
  total := step_total sess θ rows h.shape h.flags h.total
  nonempty := h.nonempty
  counts := h.counts
  subM := (step_sub sess θ rows h).1
  subU := (step_sub sess θ rows h).2

theorem stepOK_mono (h : StepOK θ rows) :
    execLogLik θ rows ≤ execLogLik (EM.step sess θ rows) rows :=
  execLogLik_mono sess θ rows h.prior_pos h.prior_lt h.noTf h.positive h.nullMinusOne h.shape
    h.flags h.guards h.total h.counts h.subM h.subU

end preserve

/-! ## Along a run -/

theorem run_head (sess : EM.Session) (rows : List (EM.Row ℝ)) (conv : ℝ) (n : ℕ)
    (θ : EM.Params ℝ) : (EM.run sess rows conv n θ).head? = some θ := by
  cases n with
  | zero => rfl
  | succ n =>
    unfold EM.run
    simp only
    split <;> rfl

/-- **Along `EM.run`** (any convergence threshold, any iteration bound): every set of
parameters in the returned history satisfies `StepOK`, and the log-likelihood of the rows never
decreases from one entry to the next. -/
theorem run_chain (sess : EM.Session) (rows : List (EM.Row ℝ)) (conv : ℝ) (n : ℕ)
    (θ : EM.Params ℝ) (h : StepOK θ rows) :
    (∀ θ' ∈ EM.run sess rows conv n θ, StepOK θ' rows) ∧
    List.IsChain (fun a b => execLogLik a rows ≤ execLogLik b rows)
      (EM.run sess rows conv n θ) := by
  induction n generalizing θ with
  | zero =>
    unfold EM.run
    exact ⟨by simpa using h, List.isChain_singleton _⟩
  | succ n ih =>
    have h' := stepOK_step sess θ rows h
    have hm := stepOK_mono sess θ rows h
    unfold EM.run
    simp only
    split
    · refine ⟨?_, List.isChain_pair.2 hm⟩
      intro θ' hθ'
      simp only [List.mem_cons, List.not_mem_nil, or_false] at hθ'
      rcases hθ' with rfl | rfl
      · exact h
      · exact h'
    · obtain ⟨ih1, ih2⟩ := ih (EM.step sess θ rows) h'
      refine ⟨?_, ?_⟩
      · intro θ' hθ'
        rcases List.mem_cons.mp hθ' with rfl | hmem
        · exact h
        · exact ih1 θ' hmem
      · rw [List.isChain_cons]
        refine ⟨?_, ih2⟩
        intro y hy
        rw [run_head] at hy
        cases hy
        exact hm

/-- … hence the log-likelihood of every later entry of the history is at least that of every
earlier one (in particular the last against the first). -/
theorem run_pairwise (sess : EM.Session) (rows : List (EM.Row ℝ)) (conv : ℝ) (n : ℕ)
    (θ : EM.Params ℝ) (h : StepOK θ rows) :
    List.Pairwise (fun a b => execLogLik a rows ≤ execLogLik b rows)
      (EM.run sess rows conv n θ) := by
  have : Trans (fun a b : EM.Params ℝ => execLogLik a rows ≤ execLogLik b rows)
      (fun a b => execLogLik a rows ≤ execLogLik b rows)
      (fun a b => execLogLik a rows ≤ execLogLik b rows) := ⟨fun h1 h2 => le_trans h1 h2⟩
  exact List.isChain_iff_pairwise.mp (run_chain sess rows conv n θ h).2

/-- the non-vacuity instance of `Lemmas/EMMBridgeWitness.lean` satisfies `StepOK` -/
theorem Ex.stepOK : StepOK Ex.θ Ex.rows where
  prior_pos := Ex.prior_pos
  prior_lt := Ex.prior_lt
  noTf := Ex.noTf
  positive := Ex.positive
  distinct := Ex.distinct
  nullMinusOne := Ex.nullMinusOne
  shape := Ex.shape
  flags := Ex.flags
  guards := Ex.guards
  total := Ex.total
  nonempty := by simp [Ex.rows]
  counts := Ex.counts
  subM := Ex.subM
  subU := Ex.subU

end SplinkVerif.Lemmas.EMMBridge
