import SplinkVerif.Model.Txn
/-!
# Lemmas about `Model/Txn.lean` (failure atomicity of the public operations)
-/
namespace SplinkVerif.Lemmas.TxnL
open SplinkVerif SplinkVerif.Txn

/-- An operation is atomic if, whenever it raises — wherever the fault is injected — the observable
state is what it was before the call. -/
def Atomic (p : Prog) : Prop := ∀ s k, (exec p s k).out = .raised → (exec p s k).obs = s

theorem exec_sqls_none (n : Nat) (s : Obs) : exec (sqls n) s none = ⟨s, .ok, none⟩ := by
  induction n with
  | zero => simp [sqls, exec]
  | succ n ih => simp [sqls, exec, ih]

theorem exec_sqls_some (n : Nat) (s : Obs) (k : Nat) :
    exec (sqls n) s (some k) = if k < n then ⟨s, .raised, none⟩ else ⟨s, .ok, some (k - n)⟩ := by
  induction n generalizing k with
  | zero => simp [sqls, exec]
  | succ n ih =>
    cases k with
    | zero => simp [sqls, exec]
    | succ k =>
      simp only [sqls, exec, ih]
      by_cases h : k < n
      · simp [h]
      · simp [h]

theorem sqls_raised_iff (n : Nat) (s : Obs) (k : Nat) :
    (exec (sqls n) s (some k)).out = .raised ↔ k < n := by
  rw [exec_sqls_some]
  by_cases h : k < n <;> simp [h]

theorem sqls_obs (n : Nat) (s : Obs) (k : Option Nat) : (exec (sqls n) s k).obs = s := by
  cases k with
  | none => rw [exec_sqls_none]
  | some k =>
    rw [exec_sqls_some]
    by_cases h : k < n <;> simp [h]

theorem sqls_atomic (n : Nat) : Atomic (sqls n) := fun s k _ => sqls_obs n s k

theorem copyThenCommit_atomic (n : Nat) (commit : Obs → Obs) : Atomic (copyThenCommit n commit) := by
  intro s k
  cases k with
  | none => simp [copyThenCommit, exec, exec_sqls_none]
  | some k =>
    simp only [copyThenCommit, exec, exec_sqls_some]
    by_cases h : k < n <;> simp [h]

theorem withTemporaries_obs (set restore : Obs → Obs) (n : Nat) (hinv : ∀ s, restore (set s) = s)
    (s : Obs) (k : Option Nat) : (exec (withTemporaries set n restore) s k).obs = s := by
  simp [withTemporaries, exec, sqls_obs, hinv]

theorem withTemporaries_atomic (set restore : Obs → Obs) (n : Nat) (hinv : ∀ s, restore (set s) = s) :
    Atomic (withTemporaries set n restore) :=
  fun s k _ => withTemporaries_obs set restore n hinv s k

theorem progOf_atomic (sh : Shape) (n : Nat) (set restore commit : Obs → Obs)
    (hinv : ∀ s, restore (set s) = s) : Atomic (progOf sh n set restore commit) := by
  cases sh with
  | copyThenCommit => exact copyThenCommit_atomic n commit
  | withTemporaries => exact withTemporaries_atomic set restore n hinv
  | readOnly => exact sqls_atomic n

theorem noFinally_counter : ∃ (set restore : Obs → Obs) (n : Nat), (∀ s, restore (set s) = s) ∧
    ¬ Atomic (withTemporariesNoFinally set n restore) := by
  refine ⟨fun o => { o with rules := o.rules + 1 }, fun o => { o with rules := o.rules - 1 }, 1,
    fun s => by simp, ?_⟩
  intro h
  have := h ⟨0, 0, 0, 0⟩ (some 0) (by decide)
  revert this
  decide

theorem mutateThenRun_counter : ∃ (early commit : Obs → Obs) (n : Nat),
    ¬ Atomic (mutateThenRun early n commit) := by
  refine ⟨fun o => { o with model := o.model + 1 }, id, 1, ?_⟩
  intro h
  have := h ⟨0, 0, 0, 0⟩ (some 0) (by decide)
  revert this
  decide

end SplinkVerif.Lemmas.TxnL
