import Mathlib.Data.List.Nodup
import Mathlib.Data.List.Perm.Basic
import Mathlib.Algebra.Order.Field.Rat
import Mathlib.Algebra.Order.Field.Basic
import Mathlib.Tactic.Ring
import Mathlib.Tactic.FieldSimp
import Mathlib.Tactic.Linarith
import SplinkVerif.Lemmas.Rel
import SplinkVerif.Lemmas.AccSql
import SplinkVerif.Lemmas.Descriptive
import SplinkVerif.Model.DescSql
/-!
# The regenerated SQL of two descriptive statements computes the functional model (C20)

`Generated/DescSql.lean` holds the statement `term_frequencies_for_single_column_sql` emits and the per-column
sub-select of `completeness_data`; `Model/DescSql.lean` evaluates them (`Rel.eval`) on the encoded column(s).

| statement          | lemma                   | model                          |
|--------------------|-------------------------|--------------------------------|
| `tfTable`          | `tfTable_eq`            | `Descriptive.tfTable`          |
| `completenessCol`  | `completenessCol_eq`    | `Descriptive.completenessCol`  |

Both are *equalities of lists*: `GROUP BY` (`List.eraseDups`) and the model's `groupCount` / `completenessCol` both
list the groups in the order of first occurrence.  The only arithmetic facts needed are that the divisors are never 0
on a returned row (`count(v)` over the table is positive as soon as one group exists; `count(*)` of a group is positive)
and that `count(*) - count(v)` is never negative (the model's truncated subtraction is the SQL's integer subtraction).
-/
namespace SplinkVerif.Lemmas.DescSql
open SplinkVerif SplinkVerif.Rel SplinkVerif.Lemmas.Rel
open SplinkVerif.Lemmas.AccSql (eraseDups_map_inj joinRows_scalar singleton_int_beq)
open SplinkVerif.DescSql (encCell)
open SplinkVerif.Descriptive (countNonNull nonNull TfRow ComplRow)

/-! ## Encodings -/

/-- A key of the model (a natural number) as a one-column row. -/
def encKey (k : Nat) : Row := [Val.int (k : Int)]

/-- A row of `cws_in`: (source dataset, cell). -/
def encPair (p : Nat × Option Nat) : Row := [Val.int (p.1 : Int), encCell p.2]

/-- A row of the TF table in the SQL's column order: (value, tf). -/
def encTf (r : TfRow) : Row := [Val.int (r.value : Int), Val.rat ((r.num : Rat) / (r.den : Rat))]

/-- A row of the completeness sub-select in the SQL's column order:
(source_dataset, column_name, total_null_rows, total_rows_inc_nulls, completeness). -/
def encCompl (r : ComplRow) : Row :=
  [Val.int (r.sd : Int), Val.str "v", Val.int (r.nullRows : Int), Val.int (r.totalRows : Int),
   Val.rat ((r.nonNullRows : Rat) / (r.totalRows : Rat))]

theorem encKey_inj (a b : Nat) (h : encKey a = encKey b) : a = b := by
  simpa [encKey] using h

theorem encKey_beq (a b : Nat) : (encKey a == encKey b) = (a == b) := by
  unfold encKey
  rw [singleton_int_beq]
  by_cases h : a = b
  · subst h; simp
  · have : (a : Int) ≠ (b : Int) := by omega
    simp [h, this]

theorem encCell_ne_null (v : Option Nat) : (encCell v != Val.null) = v.isSome := by
  cases v <;> rfl

/-! ## The pieces of the TF statement -/

/-- `where v is not null` keeps the non-NULL cells, in order. -/
theorem filter_notNull (col : List (Option Nat)) :
    (col.map fun v => [encCell v]).filter (Expr.not (Expr.isNull (Expr.col 0))).holds
      = (nonNull col).map encKey := by
  induction col with
  | nil => rfl
  | cons v col ih =>
    cases v with
    | none =>
      have h : (Expr.not (Expr.isNull (Expr.col 0))).holds [encCell none] = false := by decide
      rw [List.map_cons, List.filter_cons, h, ih]
      simp [nonNull]
    | some k =>
      have h : (Expr.not (Expr.isNull (Expr.col 0))).holds [encCell (some k)] = true := by
        simp [Expr.holds, Expr.eval, encCell, not3]
      rw [List.map_cons, List.filter_cons, h, ih]
      simp [nonNull, encKey, encCell]

/-- `select k, count(*) from ks group by k` on a one-column table of naturals: one row per distinct key, in the order
of first occurrence, with its multiplicity — `Descriptive.groupCount`. -/
theorem groupCount_eval (ks : List Nat) :
    groupRows [Expr.col 0] [Agg.countStar] (ks.map encKey)
      = ks.eraseDups.map fun (k : Nat) => [Val.int (k : Int), Val.int ((ks.filter fun x => x == k).length : Int)] := by
  unfold groupRows
  simp only [List.isEmpty_cons, Bool.false_eq_true, if_false]
  have hkeys : (ks.map encKey).map (fun row => [Expr.col 0].map (·.eval row)) = ks.map encKey := by
    rw [List.map_map]; rfl
  rw [hkeys, eraseDups_map_inj encKey encKey_inj, List.map_map]
  apply List.map_congr_left
  intro k _
  simp only [Function.comp]
  have hF : ((ks.map encKey).filter fun row => ([Expr.col 0].map (·.eval row)) == encKey k)
      = (ks.filter fun x => x == k).map encKey := by
    rw [List.filter_map]
    congr 1
    apply List.filter_congr
    intro x _
    show (encKey x == encKey k) = _
    exact encKey_beq x k
  rw [hF]
  simp [Agg.eval, encKey]

/-- `select count(v) from t_in`: one row holding the number of non-NULL cells. -/
theorem count_eval (col : List (Option Nat)) :
    groupRows [] [Agg.count (Expr.col 0)] (col.map fun v => [encCell v])
      = [[Val.int (countNonNull col : Int)]] := by
  unfold groupRows
  simp only [List.isEmpty_nil, if_true, List.map_cons, List.map_nil, Agg.eval]
  rw [List.filter_map, List.length_map]
  unfold countNonNull
  have hf : col.filter ((fun r => (Expr.col 0).eval r != Val.null) ∘ fun v => [encCell v])
      = col.filter fun v => v.isSome := by
    apply List.filter_congr
    intro v _
    exact encCell_ne_null v
  rw [hf]

theorem countNonNull_pos_of_mem (col : List (Option Nat)) (k : Nat) (h : k ∈ nonNull col) :
    0 < countNonNull col := by
  rw [Lemmas.Desc.countNonNull_eq]
  exact List.length_pos_of_mem h

/-- The TF expression on a joined row: `cast(count(*) as float8) / total` with a positive total. -/
theorem tf_expr_eval (k c t : Nat) (ht : 0 < t) :
    [Expr.col 0, Expr.arith Arith.div (Expr.toRat (Expr.col 1)) (Expr.col 2)].map
        (·.eval [Val.int (k : Int), Val.int (c : Int), Val.int (t : Int)])
      = [Val.int (k : Int), Val.rat ((c : Rat) / (t : Rat))] := by
  have hne : t ≠ 0 := by omega
  simp [Expr.eval, Arith.eval, Val.toRat?, hne]

/-! ## Statement 1: `__splink__df_tf_<col>` -/

/-- **The TF statement computes `Descriptive.tfTable`, row for row** (for every column: NULLs, duplicates, the empty
and the all-NULL column included — then both sides are empty and the division by `count(v) = 0` is never evaluated). -/
theorem tfTable_eq (col : List (Option Nat)) :
    SplinkVerif.DescSql.tfTable col = (Descriptive.tfTable col).map encTf := by
  unfold SplinkVerif.DescSql.tfTable Gen.DescSql.tfTable
  rw [eval_project, eval_join, eval_groupBy, eval_groupBy, eval_filter, eval_table, set_same, filter_notNull,
    groupCount_eval, count_eval, joinRows_scalar, List.map_map, List.map_map, Lemmas.Desc.tfTable_as_map,
    List.map_map]
  apply List.map_congr_left
  intro k hk
  rw [List.mem_eraseDups] at hk
  have hpos := countNonNull_pos_of_mem col k hk
  simp only [Function.comp, List.cons_append, List.nil_append, encTf]
  exact tf_expr_eval k _ _ hpos

theorem tfTable_perm (col : List (Option Nat)) :
    (SplinkVerif.DescSql.tfTable col).Perm ((Descriptive.tfTable col).map encTf) :=
  List.Perm.of_eq (tfTable_eq col)

/-! ## Statement 2: the completeness sub-select -/

/-- The model's group of a source dataset. -/
def groupOf (rows : List (Nat × Option Nat)) (d : Nat) : List (Option Nat) :=
  (rows.filter fun r => r.1 == d).map (·.2)

theorem completenessCol_as_map (sd : List Nat) (col : List (Option Nat)) :
    Descriptive.completenessCol sd col = ((sd.zip col).map (·.1)).eraseDups.map fun d =>
      ({ sd := d, nullRows := (groupOf (sd.zip col) d).length - countNonNull (groupOf (sd.zip col) d),
         totalRows := (groupOf (sd.zip col) d).length,
         nonNullRows := countNonNull (groupOf (sd.zip col) d) } : ComplRow) := rfl

/-- `select sd, count(*), count(v) from cws_in group by sd`. -/
theorem complGroup_eval (rows : List (Nat × Option Nat)) :
    groupRows [Expr.col 0] [Agg.countStar, Agg.count (Expr.col 1)] (rows.map encPair)
      = (rows.map (·.1)).eraseDups.map fun (d : Nat) =>
          [Val.int (d : Int), Val.int ((groupOf rows d).length : Int),
           Val.int (countNonNull (groupOf rows d) : Int)] := by
  unfold groupRows
  simp only [List.isEmpty_cons, Bool.false_eq_true, if_false]
  have hkeys : (rows.map encPair).map (fun row => [Expr.col 0].map (·.eval row))
      = (rows.map (·.1)).map encKey := by
    rw [List.map_map, List.map_map]; rfl
  rw [hkeys, eraseDups_map_inj encKey encKey_inj, List.map_map]
  apply List.map_congr_left
  intro d _
  simp only [Function.comp]
  have hF : ((rows.map encPair).filter fun row => ([Expr.col 0].map (·.eval row)) == encKey d)
      = (rows.filter fun r => r.1 == d).map encPair := by
    rw [List.filter_map]
    congr 1
    apply List.filter_congr
    intro x _
    show (encKey x.1 == encKey d) = _
    exact encKey_beq x.1 d
  rw [hF]
  generalize hG : (rows.filter fun r => r.1 == d) = G
  have hg : groupOf rows d = G.map (·.2) := by rw [groupOf, hG]
  rw [hg]
  have hc : ((G.map encPair).filter fun r => (Expr.col 1).eval r != Val.null).length
      = countNonNull (G.map (·.2)) := by
    unfold countNonNull
    rw [List.filter_map, List.length_map, List.filter_map, List.length_map]
    congr 1
    apply List.filter_congr
    intro x _
    exact encCell_ne_null x.2
  simp only [List.map_cons, List.map_nil, Agg.eval, hc, List.length_map, encKey, List.cons_append,
    List.nil_append]

/-- The five output expressions on a grouped row with `count(v) ≤ count(*)` and `count(*) > 0`. -/
theorem compl_expr_eval (d n c : Nat) (hc : c ≤ n) (hn : 0 < n) :
    [Expr.col 0, Expr.lit (Val.str "v"), Expr.arith Arith.sub (Expr.col 1) (Expr.col 2), Expr.col 1,
      Expr.arith Arith.div (Expr.arith Arith.mul (Expr.col 2) (Expr.lit (Val.rat ((1 : Rat) / 1))))
        (Expr.col 1)].map (·.eval [Val.int (d : Int), Val.int (n : Int), Val.int (c : Int)])
      = [Val.int (d : Int), Val.str "v", Val.int ((n - c : Nat) : Int), Val.int (n : Int),
         Val.rat ((c : Rat) / (n : Rat))] := by
  have hne : n ≠ 0 := by omega
  have hsub : ((n : Int) - (c : Int)) = ((n - c : Nat) : Int) := by omega
  simp [Expr.eval, Arith.eval, Val.toRat?, hne, hsub]

/-- **The completeness sub-select computes `Descriptive.completenessCol`, row for row** — for every `sd` and `col`, of
any lengths (`zip` truncates on both sides). -/
theorem completenessCol_eq (sd : List Nat) (col : List (Option Nat)) :
    SplinkVerif.DescSql.completenessCol sd col = (Descriptive.completenessCol sd col).map encCompl := by
  unfold SplinkVerif.DescSql.completenessCol Gen.DescSql.completenessCol
  have hin : ((sd.zip col).map fun p => [Val.int (p.1 : Int), encCell p.2]) = (sd.zip col).map encPair := rfl
  rw [eval_project, eval_groupBy, eval_table, set_same, hin, complGroup_eval, List.map_map,
    completenessCol_as_map, List.map_map]
  apply List.map_congr_left
  intro d hd
  rw [List.mem_eraseDups, List.mem_map] at hd
  obtain ⟨r, hr, hrd⟩ := hd
  have hle : countNonNull (groupOf (sd.zip col) d) ≤ (groupOf (sd.zip col) d).length :=
    Lemmas.Desc.countNonNull_le _
  have hpos : 0 < (groupOf (sd.zip col) d).length := by
    unfold groupOf
    rw [List.length_map]
    apply List.length_pos_of_mem (a := r)
    simp [List.mem_filter, hr, hrd]
  simp only [Function.comp, encCompl]
  exact compl_expr_eval d _ _ hle hpos

theorem completenessCol_perm (sd : List Nat) (col : List (Option Nat)) :
    (SplinkVerif.DescSql.completenessCol sd col).Perm ((Descriptive.completenessCol sd col).map encCompl) :=
  List.Perm.of_eq (completenessCol_eq sd col)

/-! ## The C20 theorems at the level of the SQL -/

/-- A row is returned by the TF statement iff it is `(k, count(k) / count(non-NULL))` for a value `k` of the column. -/
theorem mem_tfTable_sql (col : List (Option Nat)) (row : Row) :
    row ∈ SplinkVerif.DescSql.tfTable col ↔
      ∃ k : Nat, some k ∈ col ∧
        row = [Val.int (k : Int),
          Val.rat (((col.filter fun v => v == some k).length : Rat) / (countNonNull col : Rat))] := by
  rw [tfTable_eq, List.mem_map]
  constructor
  · rintro ⟨r, hr, rfl⟩
    obtain ⟨hv, hn, hd⟩ := (Lemmas.Desc.mem_tfTable col r).mp hr
    exact ⟨r.value, hv, by rw [encTf, hn, hd]⟩
  · rintro ⟨k, hk, rfl⟩
    refine ⟨⟨k, (col.filter fun v => v == some k).length, countNonNull col⟩, ?_, rfl⟩
    exact (Lemmas.Desc.mem_tfTable col _).mpr ⟨hk, rfl, rfl⟩

/-- A model row's frequency lies in (0, 1]. -/
theorem tf_range_model (col : List (Option Nat)) (r : TfRow) (h : r ∈ Descriptive.tfTable col) :
    0 < (r.num : Rat) / (r.den : Rat) ∧ (r.num : Rat) / (r.den : Rat) ≤ 1 := by
  obtain ⟨hnum, hden⟩ := Lemmas.Desc.tfTable_den_pos col r h
  obtain ⟨_, hn, hd⟩ := (Lemmas.Desc.mem_tfTable col r).mp h
  have hle : r.num ≤ r.den := by
    rw [hn, hd]
    unfold countNonNull
    apply List.Sublist.length_le
    apply List.monotone_filter_right
    intro v hv
    have : v = some r.value := by simpa using hv
    rw [this]; rfl
  have hd' : (0 : Rat) < (r.den : Rat) := by exact_mod_cast hden
  have hn' : (0 : Rat) < (r.num : Rat) := by exact_mod_cast hnum
  have hle' : (r.num : Rat) ≤ (r.den : Rat) := by exact_mod_cast hle
  exact ⟨div_pos hn' hd', (div_le_one hd').mpr hle'⟩

/-- Every row the TF statement returns is `(integer, exact number in (0, 1])`: no NULL key, no NULL / zero /
above-one frequency. -/
theorem tf_range_sql (col : List (Option Nat)) :
    ∀ row ∈ SplinkVerif.DescSql.tfTable col, ∃ (k : Nat) (q : Rat),
      row = [Val.int (k : Int), Val.rat q] ∧ 0 < q ∧ q ≤ 1 := by
  intro row hrow
  rw [tfTable_eq, List.mem_map] at hrow
  obtain ⟨r, hr, rfl⟩ := hrow
  exact ⟨r.value, _, rfl, tf_range_model col r hr⟩

/-- SQL `sum` over a non-empty list of exact numbers is their sum. -/
theorem sumVals_map_rat {α : Type} (f : α → Rat) : ∀ l : List α, l ≠ [] →
    sumVals (l.map fun a => Val.rat (f a)) = Val.rat ((l.map f).sum)
  | [], h => absurd rfl h
  | [a], _ => by simp [sumVals]
  | a :: b :: l, _ => by
    have ih := sumVals_map_rat f (b :: l) (by simp)
    rw [List.map_cons, sumVals_cons, ih]
    simp [sumStep, Arith.eval, Val.toRat?]

theorem sum_div_const (l : List TfRow) (d : Nat) (h : ∀ r ∈ l, r.den = d) :
    (l.map fun r => (r.num : Rat) / (r.den : Rat)).sum = (((l.map (·.num)).sum : Nat) : Rat) / (d : Rat) := by
  induction l with
  | nil => simp
  | cons r l ih =>
    rw [List.map_cons, List.sum_cons, ih (fun x hx => h x (List.mem_cons_of_mem _ hx)),
      h r List.mem_cons_self, List.map_cons, List.sum_cons, Nat.cast_add, add_div]

/-- The exact frequencies of the model's TF table sum to 1 as soon as the column has a non-NULL cell. -/
theorem tf_sum_model (col : List (Option Nat)) (h : 0 < countNonNull col) :
    ((Descriptive.tfTable col).map fun r => (r.num : Rat) / (r.den : Rat)).sum = 1 := by
  rw [sum_div_const _ (countNonNull col) (fun r hr => ((Lemmas.Desc.mem_tfTable col r).mp hr).2.2),
    Lemmas.Desc.tfTable_sum]
  have : ((countNonNull col : Nat) : Rat) ≠ 0 := by
    have : countNonNull col ≠ 0 := by omega
    exact_mod_cast this
  exact div_self this

theorem countNonNull_pos_iff (col : List (Option Nat)) : 0 < countNonNull col ↔ ∃ k : Nat, some k ∈ col := by
  rw [Lemmas.Desc.countNonNull_eq, List.length_pos_iff_exists_mem]
  constructor
  · rintro ⟨k, hk⟩; exact ⟨k, (Lemmas.Desc.mem_nonNull col k).mp hk⟩
  · rintro ⟨k, hk⟩; exact ⟨k, (Lemmas.Desc.mem_nonNull col k).mpr hk⟩

/-- The `tf` column of the SQL result is the list of the model's exact frequencies. -/
theorem tf_column_sql (col : List (Option Nat)) :
    (SplinkVerif.DescSql.tfTable col).map (fun row => row.getD 1 Val.null)
      = ((Descriptive.tfTable col).map fun r => (r.num : Rat) / (r.den : Rat)).map Val.rat := by
  rw [tfTable_eq, List.map_map, List.map_map]
  rfl

/-- The `v` column of the SQL result is the list of the distinct non-NULL values, in order of first occurrence. -/
theorem tf_keys_sql (col : List (Option Nat)) :
    (SplinkVerif.DescSql.tfTable col).map (fun row => row.getD 0 Val.null)
      = (nonNull col).eraseDups.map fun (k : Nat) => Val.int (k : Int) := by
  rw [tfTable_eq, ← Lemmas.Desc.tfTable_values, List.map_map, List.map_map]
  rfl

/-- **`select sum(tf_v) from __splink__df_tf_v` is exactly 1** when the column has a non-NULL cell. -/
theorem tf_sum_sql (col : List (Option Nat)) (h : ∃ k : Nat, some k ∈ col) :
    sumVals ((SplinkVerif.DescSql.tfTable col).map fun row => row.getD 1 Val.null) = Val.rat 1 := by
  have hpos := (countNonNull_pos_iff col).mpr h
  rw [tf_column_sql, List.map_map]
  have hne : Descriptive.tfTable col ≠ [] := by
    obtain ⟨k, hk⟩ := h
    intro hnil
    have hm : (⟨k, (col.filter fun v => v == some k).length, countNonNull col⟩ : TfRow)
        ∈ Descriptive.tfTable col := (Lemmas.Desc.mem_tfTable col _).mpr ⟨hk, rfl, rfl⟩
    rw [hnil] at hm
    cases hm
  have := sumVals_map_rat (fun r : TfRow => (r.num : Rat) / (r.den : Rat)) (Descriptive.tfTable col) hne
  rw [tf_sum_model col hpos] at this
  exact this

/-- No non-NULL cell, no row (and the scalar subquery's 0 is never divided by). -/
theorem tf_empty_sql (col : List (Option Nat)) (h : ∀ k : Nat, some k ∉ col) :
    SplinkVerif.DescSql.tfTable col = [] := by
  rw [tfTable_eq, List.map_eq_nil_iff]
  cases hT : Descriptive.tfTable col with
  | nil => rfl
  | cons r l =>
    have hr : r ∈ Descriptive.tfTable col := by rw [hT]; exact List.mem_cons_self
    exact absurd ((Lemmas.Desc.mem_tfTable col r).mp hr).1 (h r.value)

theorem split_none_some (L : List (Nat × Option Nat)) (d : Nat) :
    (L.filter fun x => x.1 == d && x.2.isNone).length + (L.filter fun x => x.1 == d && x.2.isSome).length
      = (L.filter fun x => x.1 == d).length := by
  induction L with
  | nil => rfl
  | cons x L ih =>
    simp only [List.filter_cons]
    cases hx : (x.1 == d) <;> cases hs : x.2 <;> simp <;> omega

/-- Every row of the completeness sub-select: five typed columns, `total_rows_inc_nulls > 0`,
`0 ≤ total_null_rows ≤ total_rows_inc_nulls`, `completeness = 1 − total_null_rows / total_rows_inc_nulls ∈ [0, 1]`,
and the counts are recounts of the dataset's records. -/
theorem completeness_sql (sd : List Nat) (col : List (Option Nat)) :
    ∀ row ∈ SplinkVerif.DescSql.completenessCol sd col, ∃ (d nulls total : Nat) (c : Rat),
      row = [Val.int (d : Int), Val.str "v", Val.int (nulls : Int), Val.int (total : Int), Val.rat c] ∧
      total = ((sd.zip col).filter fun r => r.1 == d).length ∧
      nulls = ((sd.zip col).filter fun r => r.1 == d && r.2.isNone).length ∧
      0 < total ∧ nulls ≤ total ∧
      c = 1 - (nulls : Rat) / (total : Rat) ∧ 0 ≤ c ∧ c ≤ 1 := by
  intro row hrow
  rw [completenessCol_eq, List.mem_map] at hrow
  obtain ⟨r, hr, rfl⟩ := hrow
  obtain ⟨h1, h2, h3, h4⟩ := Lemmas.Desc.mem_completenessCol sd col r hr
  have hpos : (0 : Rat) < (r.totalRows : Rat) := by exact_mod_cast h4
  have hsum : (r.nullRows : Rat) + (r.nonNullRows : Rat) = (r.totalRows : Rat) := by exact_mod_cast h3
  have hnn : (0 : Rat) ≤ (r.nonNullRows : Rat) := by exact_mod_cast Nat.zero_le _
  have hle : (r.nonNullRows : Rat) ≤ (r.totalRows : Rat) := by
    have : r.nonNullRows ≤ r.totalRows := by omega
    exact_mod_cast this
  have hsplit := split_none_some (sd.zip col) r.sd
  rw [← h1, ← h2] at hsplit
  refine ⟨r.sd, r.nullRows, r.totalRows, _, rfl, h1, by omega, h4, by omega, ?_, ?_, ?_⟩
  · have hs : (r.nonNullRows : Rat) + (r.nullRows : Rat) = (r.totalRows : Rat) := by linarith
    rw [eq_sub_iff_add_eq, ← add_div, hs, div_self (ne_of_gt hpos)]
  · exact div_nonneg hnn (le_of_lt hpos)
  · exact (div_le_one hpos).mpr hle

/-- One row per source dataset that has a record, in order of first occurrence. -/
theorem completeness_keys_sql (sd : List Nat) (col : List (Option Nat)) :
    (SplinkVerif.DescSql.completenessCol sd col).map (fun row => row.getD 0 Val.null)
      = ((sd.zip col).map (·.1)).eraseDups.map fun (d : Nat) => Val.int (d : Int) := by
  rw [completenessCol_eq, completenessCol_as_map, List.map_map, List.map_map]
  rfl

/-- The `total_rows_inc_nulls` column adds up to the number of records. -/
theorem completeness_total_sql (sd : List Nat) (col : List (Option Nat)) (h : sd.zip col ≠ []) :
    sumVals ((SplinkVerif.DescSql.completenessCol sd col).map fun row => row.getD 3 Val.null)
      = Val.int ((sd.zip col).length : Int) := by
  rw [completenessCol_eq, List.map_map]
  have hne : Descriptive.completenessCol sd col ≠ [] := by
    intro hnil
    cases hz : sd.zip col with
    | nil => exact h hz
    | cons r l =>
      obtain ⟨row, hrow, _⟩ := (Lemmas.Desc.completenessCol_groups sd col).2.1 r (by rw [hz]; exact List.mem_cons_self)
      rw [hnil] at hrow
      cases hrow
  have hs := SplinkVerif.Lemmas.AccSql.sumVals_map_int (fun r : ComplRow => (r.totalRows : Int))
    (Descriptive.completenessCol sd col) hne
  have hcast : ((Descriptive.completenessCol sd col).map fun r : ComplRow => (r.totalRows : Int)).sum
      = (((Descriptive.completenessCol sd col).map (·.totalRows)).sum : Nat) := by
    generalize Descriptive.completenessCol sd col = L
    induction L with
    | nil => rfl
    | cons r L ih => simp only [List.map_cons, List.sum_cons, ih, Nat.cast_add]
  rw [hcast, (Lemmas.Desc.completenessCol_groups sd col).2.2] at hs
  exact hs

/-! ## Row order of the input tables -/

/-- **Row order of `t_in` is irrelevant**: on any permutation of the encoded column the TF statement returns a
permutation of the model's rows (only `count` aggregates: no side condition). -/
theorem tfTable_any_order (col : List (Option Nat)) (t : List Row) (h : t.Perm (col.map fun v => [encCell v])) :
    (Gen.DescSql.tfTable.eval (Db.set (fun _ => []) "t_in" t)).Perm ((Descriptive.tfTable col).map encTf) := by
  have hp := eval_perm (set_perm (db := fun _ => []) (db' := fun _ => []) (fun _ => List.Perm.refl _) "t_in" h)
    Gen.DescSql.tfTable (by simp [Gen.DescSql.tfTable, AggsOK, AggOK])
  exact hp.trans (tfTable_perm col)

/-- **Row order of `cws_in` is irrelevant.** -/
theorem completenessCol_any_order (sd : List Nat) (col : List (Option Nat)) (t : List Row)
    (h : t.Perm ((sd.zip col).map fun p => [Val.int (p.1 : Int), encCell p.2])) :
    (Gen.DescSql.completenessCol.eval (Db.set (fun _ => []) "cws_in" t)).Perm
      ((Descriptive.completenessCol sd col).map encCompl) := by
  have hp := eval_perm (set_perm (db := fun _ => []) (db' := fun _ => []) (fun _ => List.Perm.refl _) "cws_in" h)
    Gen.DescSql.completenessCol (by simp [Gen.DescSql.completenessCol, AggsOK, AggOK])
  exact hp.trans (completenessCol_perm sd col)

end SplinkVerif.Lemmas.DescSql
