import SplinkVerif.Lemmas.GraphMetrics
/-!
# C19, closing the two open statements

* `naiveBridges_meets_spec : BridgeSpec naiveBridges` — the executable edge-removal +
  reachability search (`relax` / `reachLoop` on a Boolean array, `nv + 1` rounds) is a sound and
  complete bridge finder for EVERY multigraph given as an edge list (duplicate rows, self loops,
  any vertex numbers), hence `bridge_flag_def_naive`.
* `centralisation_le_one_general` — `cluster_centralisation ≤ 1` on a simple graph with a
  consistent clustering, WITHOUT the "no isolated member" hypothesis; it follows from the sharper
  `centralisation_bound_general` : `k·M − Σ deg ≤ (k − 2)·M` (no self loop is enough for that one).
-/
namespace SplinkVerif.Lemmas.GM
open SplinkVerif SplinkVerif.GraphMetrics

/-! ## Part A — `naiveBridges` meets `BridgeSpec` -/

/-- Is vertex `v` marked in the Boolean array. -/
def mk (vis : Array Bool) (v : Nat) : Bool := vis.getD v false

/-- The body of the `foldl` in `relax`. -/
def relaxStep (st : Array Bool × Bool) (e : Nat × Nat) : Array Bool × Bool :=
  let a := st.1.getD e.1 false
  let b := st.1.getD e.2 false
  if a && !b then (st.1.setIfInBounds e.2 true, true)
  else if b && !a then (st.1.setIfInBounds e.1 true, true)
  else st

theorem relax_eq_foldl (g : List (Nat × Nat)) (vis : Array Bool) :
    relax g vis = g.foldl relaxStep (vis, false) := rfl

theorem mk_set (vis : Array Bool) (i j : Nat) :
    mk (vis.setIfInBounds i true) j = if i = j ∧ i < vis.size then true else mk vis j := by
  unfold mk
  rw [Array.getD_eq_getD_getElem?, Array.getD_eq_getD_getElem?, Array.getElem?_setIfInBounds]
  by_cases h : i = j
  · subst h
    by_cases h2 : i < vis.size
    · simp [h2]
    · simp [h2]
  · simp [h]

theorem mk_lt {vis : Array Bool} {v : Nat} (h : mk vis v = true) : v < vis.size := by
  unfold mk at h
  rw [Array.getD_eq_getD_getElem?] at h
  by_contra hlt
  have : vis[v]? = none := Array.getElem?_eq_none (by omega)
  rw [this] at h
  simp at h

theorem relaxStep_eq (vis : Array Bool) (fl : Bool) (e : Nat × Nat) :
    relaxStep (vis, fl) e =
      if mk vis e.1 = true ∧ mk vis e.2 = false then (vis.setIfInBounds e.2 true, true)
      else if mk vis e.2 = true ∧ mk vis e.1 = false then (vis.setIfInBounds e.1 true, true)
      else (vis, fl) := by
  unfold relaxStep mk
  cases vis.getD e.1 false <;> cases vis.getD e.2 false <;> simp

/-- Everything we need about one step, for an edge whose endpoints are inside the array. -/
theorem relaxStep_spec (st : Array Bool × Bool) (e : Nat × Nat)
    (h1 : e.1 < st.1.size) (h2 : e.2 < st.1.size) :
    (relaxStep st e).1.size = st.1.size ∧
    (∀ v, mk st.1 v = true → mk (relaxStep st e).1 v = true) ∧
    (∀ v, mk (relaxStep st e).1 v = true →
      mk st.1 v = true ∨ (v = e.2 ∧ mk st.1 e.1 = true) ∨ (v = e.1 ∧ mk st.1 e.2 = true)) ∧
    (st.2 = true → (relaxStep st e).2 = true) ∧
    (mk st.1 e.1 = mk st.1 e.2 → relaxStep st e = st) ∧
    (mk st.1 e.1 ≠ mk st.1 e.2 → (relaxStep st e).2 = true ∧
      ∃ b, b < st.1.size ∧ mk st.1 b = false ∧ mk (relaxStep st e).1 b = true) := by
  obtain ⟨vis, fl⟩ := st
  simp only at h1 h2 ⊢
  cases ha : mk vis e.1 <;> cases hb : mk vis e.2
  · have hE : relaxStep (vis, fl) e = (vis, fl) := by rw [relaxStep_eq]; simp [ha, hb]
    rw [hE]
    exact ⟨rfl, fun _ h => h, fun _ h => Or.inl h, fun h => h, fun _ => rfl, fun h => absurd rfl h⟩
  · have hE : relaxStep (vis, fl) e = (vis.setIfInBounds e.1 true, true) := by
      rw [relaxStep_eq]; simp [ha, hb]
    rw [hE]
    refine ⟨Array.size_setIfInBounds, ?_, ?_, fun _ => rfl, fun h => (by cases h), ?_⟩
    · intro v hv; rw [mk_set]; simp [hv]
    · intro v hv
      rw [mk_set] at hv
      by_cases hve : e.1 = v ∧ e.1 < vis.size
      · right; right; exact ⟨hve.1.symm, rfl⟩
      · left; simpa [hve] using hv
    · intro _; exact ⟨rfl, e.1, h1, ha, by rw [mk_set]; simp [h1]⟩
  · have hE : relaxStep (vis, fl) e = (vis.setIfInBounds e.2 true, true) := by
      rw [relaxStep_eq]; simp [ha, hb]
    rw [hE]
    refine ⟨Array.size_setIfInBounds, ?_, ?_, fun _ => rfl, fun h => (by cases h), ?_⟩
    · intro v hv; rw [mk_set]; simp [hv]
    · intro v hv
      rw [mk_set] at hv
      by_cases hve : e.2 = v ∧ e.2 < vis.size
      · right; left; exact ⟨hve.1.symm, rfl⟩
      · left; simpa [hve] using hv
    · intro _; exact ⟨rfl, e.2, h2, hb, by rw [mk_set]; simp [h2]⟩
  · have hE : relaxStep (vis, fl) e = (vis, fl) := by rw [relaxStep_eq]; simp [ha, hb]
    rw [hE]
    exact ⟨rfl, fun _ h => h, fun _ h => Or.inl h, fun h => h, fun _ => rfl, fun h => absurd rfl h⟩

/-- Everything we need about one pass (a `foldl` of `relaxStep` over edges inside the array,
all of which are rows of `g`). -/
theorem relaxFold_spec (g : List (Nat × Nat)) (n : Nat) (l : List (Nat × Nat))
    (hl : ∀ e ∈ l, e ∈ g ∧ e.1 < n ∧ e.2 < n) :
    ∀ (st : Array Bool × Bool), st.1.size = n →
    (l.foldl relaxStep st).1.size = n ∧
    (∀ v, mk st.1 v = true → mk (l.foldl relaxStep st).1 v = true) ∧
    (∀ s, (∀ v, mk st.1 v = true → Reach (AdjL g) s v) →
      ∀ v, mk (l.foldl relaxStep st).1 v = true → Reach (AdjL g) s v) ∧
    (st.2 = true → (l.foldl relaxStep st).2 = true) ∧
    ((l.foldl relaxStep st).2 = false →
      l.foldl relaxStep st = st ∧ ∀ e ∈ l, mk st.1 e.1 = mk st.1 e.2) ∧
    ((l.foldl relaxStep st).2 = true → st.2 = false →
      ∃ b, b < n ∧ mk st.1 b = false ∧ mk (l.foldl relaxStep st).1 b = true) := by
  induction l with
  | nil =>
    intro st hst
    refine ⟨hst, fun _ h => h, fun _ h => h, fun h => h, fun _ => ⟨rfl, by simp⟩, ?_⟩
    intro h1 h2
    simp only [List.foldl_nil] at h1
    rw [h1] at h2; cases h2
  | cons e t ih =>
    intro st hst
    obtain ⟨heg, he1, he2⟩ := hl e (List.mem_cons_self ..)
    have ht : ∀ e ∈ t, e ∈ g ∧ e.1 < n ∧ e.2 < n := fun x hx => hl x (List.mem_cons_of_mem _ hx)
    obtain ⟨s1, s2, s3, s4, s5, s6⟩ := relaxStep_spec st e (hst ▸ he1) (hst ▸ he2)
    obtain ⟨f1, f2, f3, f4, f5, f6⟩ := ih ht (relaxStep st e) (s1.trans hst)
    simp only [List.foldl_cons]
    refine ⟨f1, fun v hv => f2 v (s2 v hv), ?_, fun h => f4 (s4 h), ?_, ?_⟩
    · intro s hs v hv
      refine f3 s ?_ v hv
      intro w hw
      rcases s3 w hw with h | ⟨rfl, h⟩ | ⟨rfl, h⟩
      · exact hs w h
      · exact Reach.tail (hs _ h) (Or.inl heg)
      · exact Reach.tail (hs _ h) (Or.inr heg)
    · intro hfl
      obtain ⟨g1, g2⟩ := f5 hfl
      have hstep2 : (relaxStep st e).2 = false := by rw [← g1]; exact hfl
      have heq : mk st.1 e.1 = mk st.1 e.2 := by
        by_contra hne
        have := (s6 hne).1
        rw [hstep2] at this; cases this
      have hst' : relaxStep st e = st := s5 heq
      refine ⟨by rw [g1, hst'], ?_⟩
      intro x hx
      rcases List.mem_cons.mp hx with rfl | hx
      · exact heq
      · have := g2 x hx
        rwa [hst'] at this
    · intro hT hF
      by_cases heq : mk st.1 e.1 = mk st.1 e.2
      · have hst' : relaxStep st e = st := s5 heq
        obtain ⟨b, hb, hb0, hb1⟩ := f6 hT (by rw [hst']; exact hF)
        exact ⟨b, hb, by rwa [hst'] at hb0, hb1⟩
      · obtain ⟨_, b, hb, hb0, hb1⟩ := s6 heq
        exact ⟨b, hst ▸ hb, hb0, f2 b hb1⟩

/-- Number of marked vertices below `n`. -/
def cnt (n : Nat) (vis : Array Bool) : Nat := (List.range n).countP (mk vis)

theorem cnt_le (n : Nat) (vis : Array Bool) : cnt n vis ≤ n := by
  unfold cnt
  have := List.countP_le_length (p := mk vis) (l := List.range n)
  simpa using this

theorem countP_lt_of_witness {α : Type} (p q : α → Bool) (l : List α)
    (hmono : ∀ x ∈ l, p x = true → q x = true) (b : α) (hb : b ∈ l) (hpb : p b = false)
    (hqb : q b = true) : l.countP p < l.countP q := by
  induction l with
  | nil => simp at hb
  | cons a t ih =>
    have hmt : ∀ x ∈ t, p x = true → q x = true := fun x hx => hmono x (List.mem_cons_of_mem _ hx)
    have hle : t.countP p ≤ t.countP q := List.countP_mono_left hmt
    rcases List.mem_cons.mp hb with rfl | hbt
    · rw [List.countP_cons_of_neg (by simp [hpb]), List.countP_cons_of_pos hqb]
      omega
    · have := ih hmt hbt
      by_cases hpa : p a = true
      · rw [List.countP_cons_of_pos hpa, List.countP_cons_of_pos (hmono a (List.mem_cons_self ..) hpa)]
        omega
      · rw [List.countP_cons_of_neg hpa]
        by_cases hqa : q a = true
        · rw [List.countP_cons_of_pos hqa]; omega
        · rw [List.countP_cons_of_neg hqa]; exact this

/-- The vertices marked by `reachLoop` are closed under the edges once the fuel exceeds the number
of unmarked vertices; they are always reachable, and marks are never removed. -/
theorem reachLoop_spec (g : List (Nat × Nat)) (n : Nat) (hg : ∀ e ∈ g, e.1 < n ∧ e.2 < n) :
    ∀ (fuel : Nat) (vis : Array Bool), vis.size = n →
    (∀ v, mk vis v = true → mk (reachLoop g fuel vis) v = true) ∧
    (∀ s, (∀ v, mk vis v = true → Reach (AdjL g) s v) →
      ∀ v, mk (reachLoop g fuel vis) v = true → Reach (AdjL g) s v) ∧
    (n - cnt n vis < fuel → ∀ e ∈ g, mk (reachLoop g fuel vis) e.1 = mk (reachLoop g fuel vis) e.2) := by
  have hl : ∀ e ∈ g, e ∈ g ∧ e.1 < n ∧ e.2 < n := fun e he => ⟨he, hg e he⟩
  intro fuel
  induction fuel with
  | zero =>
    intro vis _
    refine ⟨fun _ h => h, fun _ h => h, ?_⟩
    intro h; omega
  | succ fuel ih =>
    intro vis hvis
    obtain ⟨f1, f2, f3, _, f5, f6⟩ := relaxFold_spec g n g hl (vis, false) hvis
    rw [← relax_eq_foldl] at f1 f2 f3 f5 f6
    simp only at f2 f3 f5 f6
    unfold reachLoop
    simp only []
    cases hfl : (relax g vis).2
    · simp only [Bool.false_eq_true, if_false]
      refine ⟨f2, f3, ?_⟩
      intro _
      obtain ⟨g1, g2⟩ := f5 hfl
      have : (relax g vis).1 = vis := by rw [g1]
      rw [this]; exact g2
    · simp only [if_true]
      obtain ⟨i1, i2, i3⟩ := ih (relax g vis).1 f1
      refine ⟨fun v hv => i1 v (f2 v hv), fun s hs => i2 s (f3 s hs), ?_⟩
      intro hfuel
      apply i3
      obtain ⟨b, hb, hb0, hb1⟩ := f6 hfl trivial
      have hlt : cnt n vis < cnt n (relax g vis).1 :=
        countP_lt_of_witness _ _ _ (fun x _ hx => f2 x hx) b (List.mem_range.mpr hb) hb0 hb1
      have := cnt_le n (relax g vis).1
      omega

/-- The vertex bound computed by `naiveBridges`. -/
def vbound (g : List (Nat × Nat)) : Nat := g.foldl (fun m e => max m (max e.1 e.2 + 1)) 0

theorem foldl_vbound_ge (l : List (Nat × Nat)) (init : Nat) :
    init ≤ l.foldl (fun m e => max m (max e.1 e.2 + 1)) init ∧
      ∀ e ∈ l, max e.1 e.2 + 1 ≤ l.foldl (fun m e => max m (max e.1 e.2 + 1)) init := by
  induction l generalizing init with
  | nil => simp
  | cons a t ih =>
    obtain ⟨h1, h2⟩ := ih (max init (max a.1 a.2 + 1))
    refine ⟨le_trans (Nat.le_max_left _ _) h1, ?_⟩
    intro x hx
    rcases List.mem_cons.mp hx with rfl | hx
    · exact le_trans (Nat.le_max_right _ _) h1
    · exact h2 x hx

theorem lt_vbound {g : List (Nat × Nat)} {e : Nat × Nat} (he : e ∈ g) :
    e.1 < vbound g ∧ e.2 < vbound g := by
  have := (foldl_vbound_ge g 0).2 e he
  unfold vbound
  omega

/-- The search `naiveBridges` runs for row `e` of `g` with row `k` removed. -/
def searchFrom (g : List (Nat × Nat)) (k : Nat) (e : Nat × Nat) : Array Bool :=
  reachLoop (g.eraseIdx k) (vbound g + 1)
    ((Array.replicate (vbound g) false).setIfInBounds e.1 true)

/-- The reachability search is sound and complete. -/
theorem searchFrom_correct (g : List (Nat × Nat)) (k : Nat) (e : Nat × Nat) (he : e ∈ g) :
    mk (searchFrom g k e) e.2 = true ↔ Reach (AdjL (g.eraseIdx k)) e.1 e.2 := by
  have hg' : ∀ x ∈ g.eraseIdx k, x.1 < vbound g ∧ x.2 < vbound g :=
    fun x hx => lt_vbound (List.mem_of_mem_eraseIdx hx)
  have he1 : e.1 < vbound g := (lt_vbound he).1
  set init := (Array.replicate (vbound g) false).setIfInBounds e.1 true with hinit
  have hsize : init.size = vbound g := by simp [hinit]
  have hinit_mk : ∀ v, mk init v = true ↔ v = e.1 := by
    intro v
    rw [hinit, mk_set]
    have h0 : mk (Array.replicate (vbound g) false) v = false := by
      unfold mk
      rw [Array.getD_eq_getD_getElem?, Array.getElem?_replicate]
      by_cases h : v < vbound g <;> simp [h]
    simp only [Array.size_replicate, h0]
    by_cases h : e.1 = v
    · subst h; simp [he1]
    · have h' : ¬ v = e.1 := fun x => h x.symm
      simp [h, h']
  obtain ⟨r1, r2, r3⟩ := reachLoop_spec (g.eraseIdx k) (vbound g) hg' (vbound g + 1) init hsize
  have hclosed := r3 (by omega)
  unfold searchFrom
  rw [← hinit]
  constructor
  · intro h
    refine r2 e.1 ?_ e.2 h
    intro v hv
    rw [(hinit_mk v).mp hv]
    exact Reach.refl _
  · intro h
    have hstart : mk (reachLoop (g.eraseIdx k) (vbound g + 1) init) e.1 = true :=
      r1 e.1 ((hinit_mk e.1).mpr rfl)
    have key : ∀ y, Reach (AdjL (g.eraseIdx k)) e.1 y →
        mk (reachLoop (g.eraseIdx k) (vbound g + 1) init) y = true := by
      intro y hy
      induction hy with
      | refl => exact hstart
      | tail _ hadj ih =>
        rcases hadj with hjk | hkj
        · rw [← hclosed _ hjk]; exact ih
        · rw [hclosed _ hkj]; exact ih
    exact key e.2 h

theorem mem_naiveBridges (g : List (Nat × Nat)) (k : Nat) :
    k ∈ naiveBridges g ↔ ∃ e, g[k]? = some e ∧ mk (searchFrom g k e) e.2 = false := by
  unfold naiveBridges
  simp only [List.mem_filter, List.mem_range]
  constructor
  · rintro ⟨hk, h⟩
    refine ⟨g[k], List.getElem?_eq_getElem hk, ?_⟩
    rw [List.getElem?_eq_getElem hk] at h
    simp only [Bool.not_eq_true'] at h
    exact h
  · rintro ⟨e, he, h⟩
    have hk : k < g.length := (List.getElem?_eq_some_iff.mp he).1
    refine ⟨hk, ?_⟩
    rw [he]
    simp only [Bool.not_eq_true']
    exact h

/-- **The driver's stand-in for igraph's `Graph.bridges` meets the bridge specification**, for
every edge list: duplicate rows, self loops and arbitrary vertex numbers included. -/
theorem naiveBridges_meets_spec : BridgeSpec naiveBridges := by
  intro g k
  rw [mem_naiveBridges]
  constructor
  · rintro ⟨e, he, h⟩
    refine ⟨e, he, ?_⟩
    intro hr
    rw [(searchFrom_correct g k e (List.mem_of_getElem? he)).mpr hr] at h
    cases h
  · rintro ⟨e, he, h⟩
    refine ⟨e, he, ?_⟩
    cases hm : mk (searchFrom g k e) e.2
    · rfl
    · exact absurd ((searchFrom_correct g k e (List.mem_of_getElem? he)).mp hm) h

theorem naiveBridges_nodup (g : List (Nat × Nat)) : (naiveBridges g).Nodup :=
  List.Nodup.filter _ List.nodup_range

/-- Unconditional meaning of the bridge flag computed with `naiveBridges`. -/
theorem bridge_flag_def_naive (order : List Nat) (es : List Edge)
    (hmem : ∀ e ∈ es, e.1 ∈ order ∧ e.2 ∈ order) (hnd : es.Nodup) (k : Nat) (hk : k < es.length) :
    relabel order es[k] ∈ bridgeRows naiveBridges (es.map (relabel order)) ↔
      ¬ Reach (AdjL (es.eraseIdx k)) es[k].1 es[k].2 :=
  bridge_flag_def naiveBridges naiveBridges_meets_spec order es hmem hnd k hk

/-- The edge table computed with `naiveBridges`: one row per kept edge, in order, flagged iff
removing the edge row disconnects its endpoints. -/
theorem edgesTable_naive (order : List Nat) (es : List Edge)
    (hmem : ∀ e ∈ es, e.1 ∈ order ∧ e.2 ∈ order) (hnd : es.Nodup) :
    ∃ t, edgesTable naiveBridges order es = some t ∧ t.length = es.length ∧
      ∀ k (hk : k < es.length), ∃ b, t[k]? = some (es[k].1, es[k].2, b) ∧
        (b = true ↔ ¬ Reach (AdjL (es.eraseIdx k)) es[k].1 es[k].2) := by
  refine ⟨_, edgesTable_eq naiveBridges order es hmem hnd naiveBridges_nodup, by simp, ?_⟩
  intro k hk
  refine ⟨decide (relabel order es[k] ∈ bridgeRows naiveBridges (es.map (relabel order))), ?_, ?_⟩
  · rw [List.getElem?_map, List.getElem?_eq_getElem hk]; rfl
  · rw [decide_eq_true_iff]
    exact bridge_flag_def_naive order es hmem hnd k hk

/-! ## Part B — the general upper bound of `cluster_centralisation` -/

/-- In a loop-free multigraph with a consistent clustering, twice the largest degree of a cluster
is at most the degree sum of the cluster: the `M` edge rows at a vertex of largest degree all lie
inside the cluster and each contributes 2 to the degree sum (handshake). -/
theorem two_mul_maxdeg_le_sum (n : Nat) (cid : Nat → Nat) (es : List Edge) (c : Nat)
    (hloop : ∀ e ∈ es, e.1 ≠ e.2) (hC : Consistent n cid es) :
    2 * ((members n cid c).map (nodeDegree es)).foldl max 0 ≤
      ((members n cid c).map (nodeDegree es)).sum := by
  rcases foldl_max_mem ((members n cid c).map (nodeDegree es)) 0 with h0 | hin
  · rw [h0]; omega
  · obtain ⟨v, hv, hvM⟩ := List.mem_map.mp hin
    obtain ⟨_, hvc⟩ := mem_members.mp hv
    rw [← hvM, handshake n cid es c hC, nodeDegree_incident es v hloop]
    have : (es.filter fun e => e.1 == v || e.2 == v).length ≤ (edgesIn cid c es).length := by
      unfold edgesIn
      rw [← List.countP_eq_length_filter, ← List.countP_eq_length_filter]
      apply List.countP_mono_left
      intro e he hinc
      obtain ⟨_, _, h12⟩ := hC e he
      simp only [Bool.or_eq_true, beq_iff_eq] at hinc
      simp only [Bool.and_eq_true, beq_iff_eq]
      rcases hinc with h | h
      · have : cid e.1 = c := by rw [h]; exact hvc
        exact ⟨this, h12 ▸ this⟩
      · have : cid e.2 = c := by rw [h]; exact hvc
        exact ⟨h12.symm ▸ this, this⟩
    omega

/-- Exact general bound: in a loop-free multigraph with a consistent clustering the numerator
`k·M − Σ deg` of `cluster_centralisation` is at most `(k − 2)·M`, `M` the largest degree of the
cluster (tight e.g. for a star on `M + 1` members plus `k − M − 1` isolated members). -/
theorem centralisation_bound_general (n : Nat) (cid : Nat → Nat) (es : List Edge) (c : Nat)
    (hloop : ∀ e ∈ es, e.1 ≠ e.2) (hC : Consistent n cid es)
    (hk : (members n cid c).length > 2) :
    let ms := members n cid c
    let k := ms.length
    ∃ z M, (clusterRow (nodesTable n cid es) c).centralisation = some z ∧
      (∀ i ∈ ms, nodeDegree es i ≤ M) ∧ (∃ i ∈ ms, nodeDegree es i = M) ∧
      z.den = (k - 1) * (k - 2) ∧ 0 ≤ z.num ∧ z.num ≤ ((k - 2 : Nat) : Int) * (M : Int) := by
  intro ms k
  obtain ⟨z, M, hz, hge, hmem, _, hpos, _⟩ := (centralisation_def n cid es c).1 hk
  have hz' := hz
  rw [clusterRow_nodesTable] at hz'
  simp only [if_pos hk, Option.some.injEq] at hz'
  have hMeq : M = (ms.map (nodeDegree es)).foldl max 0 := by
    obtain ⟨i, hi, hiM⟩ := hmem
    apply Nat.le_antisymm
    · rw [← hiM]
      exact (foldl_max_ge (ms.map (nodeDegree es)) 0).2 _ (List.mem_map_of_mem hi)
    · rcases foldl_max_mem (ms.map (nodeDegree es)) 0 with h0 | hin
      · rw [h0]; omega
      · obtain ⟨j, hj, hjM⟩ := List.mem_map.mp hin
        rw [← hjM]; exact hge j hj
  have h2 := two_mul_maxdeg_le_sum n cid es c hloop hC
  rw [← hMeq] at h2
  refine ⟨z, M, hz, hge, hmem, ?_, hpos, ?_⟩
  · rw [← hz']
  · rw [← hz']
    show (k : Int) * ((ms.map (nodeDegree es)).foldl max 0 : Nat) -
        (((ms.map (nodeDegree es)).sum : Nat) : Int) ≤ ((k - 2 : Nat) : Int) * (M : Int)
    rw [← hMeq]
    have h2' : (2 : Int) * (M : Int) ≤ (((ms.map (nodeDegree es)).sum : Nat) : Int) := by
      exact_mod_cast h2
    have hk2 : ((k - 2 : Nat) : Int) = (k : Int) - 2 := by
      have hk3 : k > 2 := hk
      have : 2 ≤ k := by omega
      rw [Int.ofNat_sub this]; rfl
    rw [hk2]
    linarith

/-- **`cluster_centralisation ≤ 1` in general**: on a simple graph with a consistent clustering,
for every cluster of more than two records — isolated members allowed. -/
theorem centralisation_le_one_general (n : Nat) (cid : Nat → Nat) (es : List Edge) (c : Nat)
    (hS : Simple es) (hC : Consistent n cid es) (hk : (members n cid c).length > 2) :
    ∃ z, (clusterRow (nodesTable n cid es) c).centralisation = some z ∧
      0 ≤ z.num ∧ z.num ≤ z.den := by
  obtain ⟨z, M, hz, _, ⟨v, hv, hvM⟩, hden, hpos, hle⟩ :=
    centralisation_bound_general n cid es c (simple_no_loop hS) hC hk
  refine ⟨z, hz, hpos, ?_⟩
  set k := (members n cid c).length with hkdef
  have hMle : M ≤ k - 1 := by
    obtain ⟨hvn, hvc⟩ := mem_members.mp hv
    have := degree_le n cid es hS hC v hvn
    rw [clusterSize_eq, hvc, hvM] at this
    exact this
  rw [hden]
  have : (k - 2) * M ≤ (k - 1) * (k - 2) := by
    rw [Nat.mul_comm (k - 1)]
    exact Nat.mul_le_mul_left _ hMle
  have : (((k - 2) * M : Nat) : Int) ≤ (((k - 1) * (k - 2) : Nat) : Int) := by exact_mod_cast this
  push_cast at this hle ⊢
  linarith

end SplinkVerif.Lemmas.GM
