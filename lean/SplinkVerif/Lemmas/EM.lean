import SplinkVerif.Model.EM
import SplinkVerif.Lemmas.Score
import SplinkVerif.Lemmas.EMSums
import SplinkVerif.Lemmas.EMStep
import SplinkVerif.Lemmas.EMLevels
import SplinkVerif.Lemmas.EMMedian
/-!
# Helper lemmas for C03 (EM training)

The lemmas live in the namespace `SplinkVerif.Lemmas.EM`, split over four files:

* `Lemmas/EMSums.lean` — the M-step as list sums over `ℝ`: `newM_newU_eq`, `lambdaNew_eq`,
  `new_sums_to_one`, `new_none_of_unobserved`;
* `Lemmas/EMStep.lean` — `updateLevel_unobserved`, `updateLevel_fixed`, `step_prior_fixed`,
  `step_shape`, `expand_counts`, `startPrior_eq`;
* `Lemmas/EMLevels.lean` — `levelsToReverse_sound`, `levelsToReverse_single`;
* `Lemmas/EMMedian.lean` — `median_perm`, `median_singleton`, `median_pair`, `median_triple`.
-/
