import SplinkVerif.Model.Entry
import SplinkVerif.Lemmas.Blocking
import SplinkVerif.Lemmas.Score
/-!
# Helper lemmas for C10 (entry points)

* `newRecordTf_*`: the ad-hoc TF lookup against the TF column of `__splink__df_concat_with_tf`;
* `*_eq_predictPair`: the entry points compute `predictPair` when their TF inputs coincide;
* `mem_findMatches`, `findMatches_nodup`, `keepStrict_real`: `find_matches_to_new_records`;
* `mem_missingPairs`, `missingPairs_nodup`: `_score_missing_cluster_edges`.
-/
namespace SplinkVerif.Lemmas.Entry
open SplinkVerif SplinkVerif.Score SplinkVerif.Blocking SplinkVerif.Entry
open SplinkVerif.Lemmas.Blk

variable {α : Type}

/-! ## TF lookup -/

/-- A record is *plain* when it carries no `tf_*` field of its own. -/
def Plain (r : Rec α) : Prop := ∀ c, r.supplied c = none

/-- Every non-NULL TF-column value of the record occurs in the linker's input data. -/
def Seen (L : Linker α) (r : Rec α) : Prop := ∀ c v, r.val c = some v → L.inData c v = true

/-- Some TF source is cached for every column. -/
def HasSource (L : Linker α) : Prop := ∀ c, L.tableCached c = true ∨ L.concatCached = true

theorem newRecordTf_seen (h : Bool) (L : Linker α) (r : Rec α) (c : Nat)
    (hs : r.supplied c = none) (hsrc : L.tableCached c = true ∨ L.concatCached = true)
    (hin : ∀ v, r.val c = some v → L.inData c v = true) :
    newRecordTf h L r c = joinedTf L r c := by
  unfold newRecordTf joinedTf
  have h0 : (if h = true then r.supplied c else none) = none := by
    cases h <;> simp [hs]
  rw [h0]
  by_cases ht : L.tableCached c = true
  · simp [ht]
  · have hc : L.concatCached = true := by
      rcases hsrc with h1 | h1
      · exact absurd h1 ht
      · exact h1
    simp only [ht, hc, if_true]
    cases hv : r.val c with
    | none => simp
    | some v => simp [concatDistinct, hin v hv]

theorem newRecordTf_supplied (L : Linker α) (r : Rec α) (c : Nat) (x : Option α)
    (hs : r.supplied c = some x) : newRecordTf true L r c = x := by
  simp [newRecordTf, hs]

theorem newRecordTf_not_honoured (L : Linker α) (r : Rec α) (c : Nat) :
    newRecordTf false L r c = newRecordTf false L { r with supplied := fun _ => none } c := by
  simp [newRecordTf]

theorem newRecordTf_null_value (h : Bool) (L : Linker α) (r : Rec α) (c : Nat)
    (hs : r.supplied c = none) (hv : r.val c = none) : newRecordTf h L r c = none := by
  unfold newRecordTf
  have h0 : (if h = true then r.supplied c else none) = none := by
    cases h <;> simp [hs]
  rw [h0]
  simp only [hv, Option.bind_none]
  split <;> [rfl; (split <;> rfl)]

theorem newRecordTf_unseen (h : Bool) (L : Linker α) (r : Rec α) (c v : Nat)
    (hs : r.supplied c = none) (hv : r.val c = some v)
    (hno : L.tf c v = none) : newRecordTf h L r c = none := by
  unfold newRecordTf
  have h0 : (if h = true then r.supplied c else none) = none := by
    cases h <;> simp [hs]
  rw [h0]
  simp only [hv, Option.bind_some, concatDistinct, hno]
  split
  · rfl
  · split
    · split <;> rfl
    · rfl

theorem newRecordTf_no_source (h : Bool) (L : Linker α) (r : Rec α) (c : Nat)
    (hs : r.supplied c = none) (ht : L.tableCached c = false) (hc : L.concatCached = false) :
    newRecordTf h L r c = none := by
  unfold newRecordTf
  have h0 : (if h = true then r.supplied c else none) = none := by
    cases h <;> simp [hs]
  rw [h0]
  simp [ht, hc]

/-! ## Agreement of the scores -/

variable [Num α]

theorem compareTwoRecords_eq_predictPair (L : Linker α) (W : World α) (l r : Nat)
    (hsrc : HasSource L) (hl : Plain (W.recs l)) (hr : Plain (W.recs r))
    (sl : Seen L (W.recs l)) (sr : Seen L (W.recs r)) :
    compareTwoRecords L W l r = predictPair L W l r := by
  unfold compareTwoRecords predictPair
  have e1 : newRecordTf true L (W.recs l) = joinedTf L (W.recs l) :=
    funext fun c => newRecordTf_seen true L _ c (hl c) (hsrc c) (sl c)
  have e2 : newRecordTf true L (W.recs r) = joinedTf L (W.recs r) :=
    funext fun c => newRecordTf_seen true L _ c (hr c) (hsrc c) (sr c)
  rw [e1, e2]

theorem fmScore_eq_predictPair (L : Linker α) (W : World α) (e n : Nat)
    (hsrc : HasSource L) (hn : Plain (W.recs n)) (sn : Seen L (W.recs n)) :
    fmScore L W e n = predictPair L W e n := by
  unfold fmScore predictPair
  have e2 : newRecordTf false L (W.recs n) = joinedTf L (W.recs n) :=
    funext fun c => newRecordTf_seen false L _ c (hn c) (hsrc c) (sn c)
  rw [e2]

theorem realtimeCompare_eq_predictPair (L : Linker α) (W : World α) (l r l' r' : Nat)
    (hg : W.guards l' r' = W.guards l r)
    (hl : ∀ c, (W.recs l').supplied c = some (joinedTf L (W.recs l) c))
    (hr : ∀ c, (W.recs r').supplied c = some (joinedTf L (W.recs r) c)) :
    realtimeCompare L W l' r' = predictPair L W l r := by
  unfold realtimeCompare predictPair scoreWith
  have e1 : ownTf (W.recs l') = joinedTf L (W.recs l) := funext fun c => by simp [ownTf, hl c]
  have e2 : ownTf (W.recs r') = joinedTf L (W.recs r) := funext fun c => by simp [ownTf, hr c]
  rw [e1, e2, hg]

theorem compareTwoRecords_supplied (L : Linker α) (W : World α) (l r : Nat) :
    (∀ c, ((W.recs l).supplied c).isSome = true) → (∀ c, ((W.recs r).supplied c).isSome = true) →
    compareTwoRecords L W l r = realtimeCompare L W l r := by
  intro hl hr
  unfold compareTwoRecords realtimeCompare
  have e : ∀ q : Rec α, (∀ c, (q.supplied c).isSome = true) → newRecordTf true L q = ownTf q := by
    intro q hq
    funext c
    have := hq c
    cases hs : q.supplied c with
    | none => simp [hs] at this
    | some x => simp [newRecordTf, ownTf, hs]
  rw [e _ hl, e _ hr]

/-! ## find_matches_to_new_records -/

theorem fmTable_two (nE nN : Nat) (part : Nat → Nat → Nat) :
    ∀ a b c, a < (fmTable nE nN part).m → b < (fmTable nE nN part).m → c < (fmTable nE nN part).m →
      (fmTable nE nN part).sd a = (fmTable nE nN part).sd b ∨
      (fmTable nE nN part).sd b = (fmTable nE nN part).sd c ∨
      (fmTable nE nN part).sd a = (fmTable nE nN part).sd c := by
  intro a b c _ _ _
  simp only [fmTable]
  by_cases ha : a < nE <;> by_cases hb : b < nE <;> by_cases hc : c < nE <;> simp [ha, hb, hc]

theorem mem_findMatches (L : Linker α) (W : World α) (nE nN : Nat) (part : Nat → Nat → Nat)
    (rules : List Rule) (thr : α) (hne : rules ≠ [])
    (hsalt : SaltOK (fmTable nE nN part) rules) (i e n : Nat) (s : Scored α) :
    ((i, e, n), s) ∈ findMatches L W nE nN part rules thr ↔
      e < nE ∧ nE ≤ n ∧ n < nE + nN ∧
      holds rules i e n ∧ (∀ j, j < i → ¬ holds rules j e n) ∧
      s = fmScore L W e n ∧ keepStrict thr (fmScore L W e n) = true := by
  unfold findMatches
  simp only [List.mem_filter, List.mem_map]
  constructor
  · rintro ⟨⟨row, hrow, heq⟩, hk⟩
    obtain ⟨i', e', n'⟩ := row
    simp only [Prod.mk.injEq] at heq
    obtain ⟨⟨rfl, rfl, rfl⟩, rfl⟩ := heq
    rw [mem_block_two_dataset _ rules hne hsalt (fmTable_two nE nN part)] at hrow
    obtain ⟨hl, hr, hsd, hh, hp⟩ := hrow
    simp only [fmTable] at hl hr hsd
    have h1 : i'.succ = i'.succ := rfl
    refine ⟨?_, ?_, hr, hh, hp, rfl, hk⟩
    · by_cases he : e' < nE
      · exact he
      · simp only [he, if_false] at hsd
        split at hsd <;> omega
    · by_cases hn : n' < nE
      · simp only [hn, if_true] at hsd
        split at hsd <;> omega
      · omega
  · rintro ⟨he, hn, hn2, hh, hp, rfl, hk⟩
    refine ⟨⟨(i, e, n), ?_, rfl⟩, hk⟩
    rw [mem_block_two_dataset _ rules hne hsalt (fmTable_two nE nN part)]
    refine ⟨by simp only [fmTable]; omega, by simp only [fmTable]; omega, ?_, hh, hp⟩
    simp only [fmTable]
    have : ¬ n < nE := by omega
    simp [he, this]

theorem findMatches_keep (L : Linker α) (W : World α) (nE nN : Nat) (part : Nat → Nat → Nat)
    (rules : List Rule) (thr : α) (row : Row) (s : Scored α)
    (h : (row, s) ∈ findMatches L W nE nN part rules thr) :
    row ∈ block .twoDatasetLinkOnly (fmTable nE nN part) rules ∧
      s = fmScore L W row.2.1 row.2.2 ∧ keepStrict thr s = true := by
  unfold findMatches at h
  simp only [List.mem_filter, List.mem_map] at h
  obtain ⟨⟨row', hrow, heq⟩, hk⟩ := h
  simp only [Prod.mk.injEq] at heq
  obtain ⟨rfl, rfl⟩ := heq
  exact ⟨hrow, rfl, hk⟩

theorem findMatches_nodup (L : Linker α) (W : World α) (nE nN : Nat) (part : Nat → Nat → Nat)
    (rules : List Rule) (thr : α) :
    ((findMatches L W nE nN part rules thr).map fun x => (x.1.2.1, x.1.2.2)).Nodup := by
  unfold findMatches
  have hsub := (List.filter_sublist (p := fun x : Row × Scored α => keepStrict thr x.2)
    (l := (block .twoDatasetLinkOnly (fmTable nE nN part) rules).map fun row =>
      (row, fmScore L W row.2.1 row.2.2))).map (fun x : Row × Scored α => (x.1.2.1, x.1.2.2))
  refine List.Nodup.sublist hsub ?_
  rw [List.map_map]
  exact block_pairs_nodup' .twoDatasetLinkOnly (fmTable nE nN part) rules

/-- Over the reals the filter is `threshold < weight` (an infinite weight passes, NULL does not). -/
theorem keepStrict_real (thr : ℝ) (s : Scored ℝ) :
    keepStrict thr s = true ↔
      (∃ w, s.weight = some (.fin w) ∧ thr < w) ∨ s.weight = some .inf := by
  unfold keepStrict
  cases hw : s.weight with
  | none => simp
  | some f =>
    cases f with
    | fin w => simp [SplinkVerif.Lemmas.Score.num_gt]
    | inf => simp

/-! ## _score_missing_cluster_edges -/

theorem holds_single (q : Rule) (i l r : Nat) :
    holds [q] i l r ↔ i = 0 ∧ B3.isTrue (q.eval l r) = true := by
  cases i with
  | zero => simp [holds_cons_zero]
  | succ k =>
    rw [holds_cons_succ]
    constructor
    · intro h; exact absurd h (holds_nil k l r)
    · rintro ⟨h, _⟩; omega

theorem saltOK_clusterRule (t : Table) (cluster : Nat → Nat) : SaltOK t [clusterRule cluster] := by
  intro r hr n hk
  simp only [List.mem_singleton] at hr
  subst hr
  simp [clusterRule] at hk

theorem mem_missingPairs (lt : LinkType) (t : Table) (cluster : Nat → Nat)
    (supplied : List (Nat × Nat)) (hlt : SelfJoin lt) (i l r : Nat) :
    (i, l, r) ∈ missingPairs lt t cluster supplied ↔
      i = 0 ∧ l < t.m ∧ r < t.m ∧ whereCond lt t l r = true ∧ cluster l = cluster r ∧
      (t.key l, t.key r) ∉ supplied ∧ (t.key r, t.key l) ∉ supplied := by
  unfold missingPairs
  rw [List.mem_filter, mem_block lt t _ hlt (by simp) (saltOK_clusterRule t cluster)]
  simp only [holds_single, clusterRule, B3.isTrue]
  constructor
  · rintro ⟨⟨hl, hr, hw, ⟨hi, hc⟩, _⟩, hs⟩
    refine ⟨hi, hl, hr, hw, ?_, ?_⟩
    · by_cases h : cluster l = cluster r
      · exact h
      · have : (cluster l == cluster r) = false := by simp [h]
        simp [this] at hc
    · simpa using hs
  · rintro ⟨hi, hl, hr, hw, hc, hs⟩
    refine ⟨⟨hl, hr, hw, ⟨hi, by simp [hc]⟩, ?_⟩, by simpa using hs⟩
    intro j hj
    omega

theorem missingPairs_nodup (lt : LinkType) (t : Table) (cluster : Nat → Nat)
    (supplied : List (Nat × Nat)) :
    ((missingPairs lt t cluster supplied).map fun row => (row.2.1, row.2.2)).Nodup := by
  unfold missingPairs
  exact List.Nodup.sublist (List.filter_sublist.map _) (block_pairs_nodup' lt t _)

theorem mem_missingEdges (L : Linker α) (W : World α) (lt : LinkType) (t : Table)
    (cluster : Nat → Nat) (supplied : List (Nat × Nat)) (row : Row) (s : Scored α) :
    (row, s) ∈ missingEdges L W lt t cluster supplied ↔
      row ∈ missingPairs lt t cluster supplied ∧ s = predictPair L W row.2.1 row.2.2 := by
  unfold missingEdges
  simp only [List.mem_map]
  constructor
  · rintro ⟨row', h, heq⟩
    simp only [Prod.mk.injEq] at heq
    obtain ⟨rfl, rfl⟩ := heq
    exact ⟨h, rfl⟩
  · rintro ⟨h, rfl⟩
    exact ⟨row, h, rfl⟩

end SplinkVerif.Lemmas.Entry
