import SplinkVerif.Model.Score
import Mathlib.Analysis.SpecialFunctions.Log.Base
import Mathlib.Analysis.SpecialFunctions.Pow.Real
/-!
# Helper lemmas for C02 (Fellegi–Sunter scoring)

* `instNumReal`: the `Num` instance at `ℝ` (`pow = Real.rpow`, `log2 = Real.logb 2`)
  and the simp lemmas that unfold its fields to the ordinary real operations;
* `gamma_*`: level selection (any number type);
* `tfDivisor_eq_max`, `levelTfAdj_*`: the term-frequency adjustment;
* `product_fin`, `weight_sum`, `prob_logistic`, `infinite_factor`: the score;
* `keep_*`: the threshold.
-/
namespace SplinkVerif.Lemmas.Score
open SplinkVerif SplinkVerif.Score

/-! ## The instance at `ℝ` -/

noncomputable instance instNumReal : Num ℝ where
  zero := 0
  one := 1
  ofNat := fun n => (n : ℝ)
  add := (· + ·)
  sub := (· - ·)
  mul := (· * ·)
  div := (· / ·)
  pow := Real.rpow
  log2 := Real.logb 2
  ge := fun a b => decide (a ≥ b)
  gt := fun a b => decide (a > b)
  isZero := fun a => decide (a = 0)

@[simp] theorem num_zero : (Num.zero : ℝ) = 0 := rfl
@[simp] theorem num_one : (Num.one : ℝ) = 1 := rfl
@[simp] theorem num_ofNat (n : ℕ) : (Num.ofNat n : ℝ) = (n : ℝ) := rfl
@[simp] theorem num_add (a b : ℝ) : Num.add a b = a + b := rfl
@[simp] theorem num_sub (a b : ℝ) : Num.sub a b = a - b := rfl
@[simp] theorem num_mul (a b : ℝ) : Num.mul a b = a * b := rfl
@[simp] theorem num_div (a b : ℝ) : Num.div a b = a / b := rfl
@[simp] theorem num_pow (a b : ℝ) : Num.pow a b = Real.rpow a b := rfl
@[simp] theorem num_log2 (a : ℝ) : Num.log2 a = Real.logb 2 a := rfl
@[simp] theorem num_ge (a b : ℝ) : Num.ge a b = decide (a ≥ b) := rfl
@[simp] theorem num_gt (a b : ℝ) : Num.gt a b = decide (a > b) := rfl
@[simp] theorem num_isZero (a : ℝ) : Num.isZero a = decide (a = 0) := rfl
@[simp] theorem priorOdds_eq (p : ℝ) : priorOdds p = p / (1 - p) := rfl

/-! ## Level selection -/

theorem gamma_first_true {α : Type} (c : Comparison α) (gs : List B3) (k : Nat) (l : Level α)
    (hk : c[k]? = some l)
    (hfire : l.isElse = true ∨ ∃ g, gs[k]? = some g ∧ B3.isTrue g = true)
    (hprev : ∀ j l', j < k → c[j]? = some l' →
      l'.isElse = false ∧ ∃ g, gs[j]? = some g ∧ B3.isTrue g = false) :
    gamma c gs = some l.cvv := by
  induction k generalizing c gs with
  | zero =>
    cases c with
    | nil => simp at hk
    | cons l0 ls =>
      simp only [List.getElem?_cons_zero, Option.some.injEq] at hk
      subst hk
      rcases hfire with h | ⟨g, hg, ht⟩
      · simp [gamma, h]
      · cases gs with
        | nil => simp at hg
        | cons g0 gs' =>
          simp only [List.getElem?_cons_zero, Option.some.injEq] at hg
          subst hg
          simp [gamma, ht]
  | succ k ih =>
    cases c with
    | nil => simp at hk
    | cons l0 ls =>
      obtain ⟨h0, g, hg, hgf⟩ := hprev 0 l0 (Nat.succ_pos k) (by simp)
      cases gs with
      | nil => simp at hg
      | cons g0 gs' =>
        simp only [List.getElem?_cons_zero, Option.some.injEq] at hg
        subst hg
        have hstep : gamma (l0 :: ls) (g0 :: gs') = gamma ls gs' := by
          simp [gamma, h0, hgf]
        rw [hstep]
        apply ih ls gs'
        · simpa using hk
        · simpa using hfire
        · intro j l' hj hl'
          have := hprev (j + 1) l' (by omega) (by simpa using hl')
          simpa using this

/-- The value of `gamma` is the `cvv` of one of the levels. -/
theorem gamma_mem {α : Type} (c : Comparison α) (gs : List B3) (v : Int)
    (h : gamma c gs = some v) : ∃ l ∈ c, l.cvv = v := by
  induction c generalizing gs with
  | nil => simp [gamma] at h
  | cons l ls ih =>
    by_cases he : l.isElse = true
    · refine ⟨l, by simp, ?_⟩
      simpa [gamma, he] using h
    · cases gs with
      | nil => simp [gamma, he] at h
      | cons g gs' =>
        by_cases hg : B3.isTrue g = true
        · refine ⟨l, by simp, ?_⟩
          simpa [gamma, he, hg] using h
        · have h' : gamma ls gs' = some v := by simpa [gamma, he, hg] using h
          obtain ⟨l', hl', hv⟩ := ih gs' h'
          exact ⟨l', by simp [hl'], hv⟩

theorem gamma_null_first {α : Type} (nl : Level α) (rest : Comparison α) (g : B3) (gs : List B3)
    (hn : nl.isElse = false) (hv : nl.cvv = -1) (hrest : ∀ l ∈ rest, l.cvv ≠ -1) :
    gamma (nl :: rest) (g :: gs) = some (-1) ↔ B3.isTrue g = true := by
  by_cases hg : B3.isTrue g = true
  · simp [gamma, hn, hv, hg]
  · have hstep : gamma (nl :: rest) (g :: gs) = gamma rest gs := by
      simp [gamma, hn, hg]
    rw [hstep]
    constructor
    · intro h
      obtain ⟨l, hl, hlv⟩ := gamma_mem _ _ _ h
      exact absurd hlv (hrest l hl)
    · intro h
      exact absurd h hg

theorem gamma_total {α : Type} (c : Comparison α) (gs : List B3)
    (helse : ∃ l ∈ c, l.isElse = true) (hlen : c.length ≤ gs.length) :
    (gamma c gs).isSome = true := by
  induction c generalizing gs with
  | nil => simp at helse
  | cons l ls ih =>
    by_cases he : l.isElse = true
    · simp [gamma, he]
    · cases gs with
      | nil => simp at hlen
      | cons g gs' =>
        by_cases hg : B3.isTrue g = true
        · simp [gamma, he, hg]
        · have hstep : gamma (l :: ls) (g :: gs') = gamma ls gs' := by
            simp [gamma, he, hg]
          rw [hstep]
          apply ih
          · obtain ⟨l', hl', hl'e⟩ := helse
            rcases List.mem_cons.mp hl' with rfl | hmem
            · exact absurd hl'e he
            · exact ⟨l', hmem, hl'e⟩
          · simpa using hlen

/-! ## Term-frequency adjustment -/

theorem tfDivisor_eq_max (minU a b : ℝ) (ha : 0 ≤ a) (hb : 0 ≤ b) (hm : 0 ≤ minU) :
    tfDivisor minU a b = max (max a b) minU := by
  unfold tfDivisor
  simp only [num_isZero, num_ge, num_gt, Bool.and_eq_true, decide_eq_true_eq]
  by_cases h1 : minU = 0
  · subst h1
    rw [if_pos rfl]
    by_cases h2 : a ≥ b
    · rw [if_pos h2, max_eq_left h2, max_eq_left ha]
    · have h2' : a ≤ b := le_of_lt (not_le.mp h2)
      rw [if_neg h2, max_eq_right h2', max_eq_left hb]
  · rw [if_neg h1]
    by_cases h2 : a ≥ b
    · by_cases h3 : a > minU
      · rw [if_pos ⟨h2, h3⟩, max_eq_left h2, max_eq_left (le_of_lt h3)]
      · have h3' : a ≤ minU := not_lt.mp h3
        have h4 : ¬ b > minU := fun h => h3 (lt_of_lt_of_le h h2)
        rw [if_neg (fun h => h3 h.2), if_neg h4, max_eq_left h2, max_eq_right h3']
    · have h2' : a ≤ b := le_of_lt (not_le.mp h2)
      rw [if_neg (fun h => h2 h.1), max_eq_right h2']
      by_cases h4 : b > minU
      · rw [if_pos h4, max_eq_left (le_of_lt h4)]
      · rw [if_neg h4, max_eq_right (not_lt.mp h4)]

theorem levelTfAdj_formula (l : Level ℝ) (t : TF ℝ) (tfl tfr : Nat → Option ℝ) (a b : ℝ)
    (ht : l.tf = some t) (hcv : l.cvv ≠ -1) (hw : t.weight ≠ 0) (he : l.isElse = false)
    (hl : tfl t.col = some a) (hr : tfr t.col = some b)
    (ha : 0 ≤ a) (hb : 0 ≤ b) (hm : 0 ≤ t.minU) :
    levelTfAdj l tfl tfr = Real.rpow (t.uExact / max (max a b) t.minU) t.weight := by
  unfold levelTfAdj
  simp [ht, hcv, hw, he, hl, hr, tfDivisor_eq_max t.minU a b ha hb hm]

theorem levelTfAdj_one_missing (l : Level ℝ) (t : TF ℝ) (tfl tfr : Nat → Option ℝ) (a : ℝ)
    (ht : l.tf = some t) (hcv : l.cvv ≠ -1) (hw : t.weight ≠ 0) (he : l.isElse = false)
    (hl : tfl t.col = some a) (hr : tfr t.col = none) (ha : 0 ≤ a) (hm : 0 ≤ t.minU) :
    levelTfAdj l tfl tfr = Real.rpow (t.uExact / max a t.minU) t.weight := by
  unfold levelTfAdj
  have hd : tfDivisor t.minU a a = max a t.minU := by
    rw [tfDivisor_eq_max t.minU a a ha ha hm, max_self]
  simp [ht, hcv, hw, he, hl, hr, hd]

theorem levelTfAdj_one (l : Level ℝ) (tfl tfr : Nat → Option ℝ)
    (h : l.cvv = -1 ∨ l.tf = none ∨ (∃ t, l.tf = some t ∧ t.weight = 0) ∨ l.isElse = true ∨
         (∃ t, l.tf = some t ∧ tfl t.col = none ∧ tfr t.col = none)) :
    levelTfAdj l tfl tfr = 1 := by
  unfold levelTfAdj
  rcases h with h | h | ⟨t, ht, hw⟩ | h | ⟨t, ht, hl, hr⟩
  · simp [h]
  · simp [h]
  · simp [ht, hw]
  · cases htf : l.tf with
    | none => simp
    | some t => simp [h]
  · simp [ht, hl, hr]

/-! ## The score -/

/-- One step of the fold in `product`. -/
def step {α : Type} [Num α] (acc t : Option (Fac α)) : Option (Fac α) :=
  match acc, t with
  | some a, some b => some (Fac.mul a b)
  | _, _ => none

theorem product_eq (prior : ℝ) (ts : List (Option (Fac ℝ))) :
    product prior ts = ts.foldl step (some (Fac.fin (prior / (1 - prior)))) := rfl

theorem foldl_fin (acc : ℝ) (xs : List ℝ) :
    (xs.map fun x => some (Fac.fin x)).foldl step (some (Fac.fin acc)) =
      some (Fac.fin (acc * xs.prod)) := by
  induction xs generalizing acc with
  | nil => simp
  | cons x xs ih =>
    simp only [List.map_cons, List.foldl_cons, List.prod_cons]
    have : step (some (Fac.fin acc)) (some (Fac.fin x)) = some (Fac.fin (acc * x)) := rfl
    rw [this, ih, mul_assoc]

theorem product_fin (prior : ℝ) (xs : List ℝ) :
    product prior (xs.map fun x => some (Fac.fin x)) =
      some (Fac.fin (prior / (1 - prior) * xs.prod)) := by
  rw [product_eq, foldl_fin]

theorem list_prod_pos (xs : List ℝ) (hx : ∀ x ∈ xs, 0 < x) : 0 < xs.prod := by
  induction xs with
  | nil => simp
  | cons x xs ih =>
    rw [List.prod_cons]
    exact mul_pos (hx x (by simp)) (ih fun y hy => hx y (by simp [hy]))

theorem logb_list_prod (xs : List ℝ) (hx : ∀ x ∈ xs, 0 < x) :
    Real.logb 2 xs.prod = (xs.map (Real.logb 2)).sum := by
  induction xs with
  | nil => simp
  | cons x xs ih =>
    have hx0 : 0 < x := hx x (by simp)
    have hxs : ∀ y ∈ xs, 0 < y := fun y hy => hx y (by simp [hy])
    rw [List.prod_cons, List.map_cons, List.sum_cons,
      Real.logb_mul (ne_of_gt hx0) (ne_of_gt (list_prod_pos xs hxs)), ih hxs]

theorem weight_sum (prior : ℝ) (xs : List ℝ) (hp : 0 < prior) (hp1 : prior < 1)
    (hx : ∀ x ∈ xs, 0 < x) :
    (product prior (xs.map fun x => some (Fac.fin x))).map weightOf =
      some (Fac.fin (Real.logb 2 (prior / (1 - prior)) + (xs.map (Real.logb 2)).sum)) := by
  rw [product_fin]
  have hodds : 0 < prior / (1 - prior) := div_pos hp (by linarith)
  simp only [Option.map_some, weightOf, num_log2]
  rw [Real.logb_mul (ne_of_gt hodds) (ne_of_gt (list_prod_pos xs hx)), logb_list_prod xs hx]

theorem level_contribution (m u uE d w : ℝ) (hm : 0 < m) (hu : 0 < u) (hE : 0 < uE) (hd : 0 < d) :
    Real.logb 2 (m / u) = Real.logb 2 m - Real.logb 2 u ∧
    Real.logb 2 (Real.rpow (uE / d) w) = w * Real.logb 2 (uE / d) := by
  refine ⟨Real.logb_div (ne_of_gt hm) (ne_of_gt hu), ?_⟩
  exact Real.logb_rpow_eq_mul_logb_of_pos (div_pos hE hd)

theorem probOf_fin (ts : List (Option (Fac ℝ))) (bf : ℝ)
    (hfin : ∀ t ∈ ts, ∀ f, t = some f → f.isInf = false) :
    probOf ts (Fac.fin bf) = bf / (1 + bf) := by
  unfold probOf
  split
  · next h =>
    rw [List.any_eq_true] at h
    obtain ⟨t, ht, hf⟩ := h
    cases t with
    | none => simp at hf
    | some f =>
      have := hfin (some f) ht f rfl
      simp [this] at hf
  · rfl

theorem prob_logistic (ts : List (Option (Fac ℝ))) (bf : ℝ) (hbf : 0 < bf)
    (hfin : ∀ t ∈ ts, ∀ f, t = some f → f.isInf = false) :
    probOf ts (Fac.fin bf) = Real.rpow 2 (Real.logb 2 bf) / (1 + Real.rpow 2 (Real.logb 2 bf)) ∧
    0 < probOf ts (Fac.fin bf) ∧ probOf ts (Fac.fin bf) < 1 := by
  have h2 : Real.rpow 2 (Real.logb 2 bf) = bf :=
    Real.rpow_logb (by norm_num) (by norm_num) hbf
  rw [probOf_fin ts bf hfin, h2]
  have h1 : 0 < 1 + bf := by linarith
  refine ⟨rfl, div_pos hbf h1, ?_⟩
  rw [div_lt_one h1]
  linarith

theorem Fac.inf_mul (f : Fac ℝ) : Fac.mul Fac.inf f = Fac.inf := by
  cases f <;> rfl

theorem Fac.mul_inf (f : Fac ℝ) : Fac.mul f Fac.inf = Fac.inf := by
  cases f <;> rfl

theorem isInf_eq (f : Fac ℝ) (h : f.isInf = true) : f = Fac.inf := by
  cases f with
  | fin x => simp [Fac.isInf] at h
  | inf => rfl

theorem foldl_step_some (ts : List (Option (Fac ℝ))) (hall : ∀ t ∈ ts, t ≠ none) (acc : Fac ℝ) :
    ∃ bf, ts.foldl step (some acc) = some bf ∧
      ((acc.isInf = true ∨ some Fac.inf ∈ ts) → bf.isInf = true) := by
  induction ts generalizing acc with
  | nil =>
    refine ⟨acc, rfl, ?_⟩
    intro h
    rcases h with h | h
    · exact h
    · simp at h
  | cons t ts ih =>
    cases t with
    | none => exact absurd rfl (hall none (by simp))
    | some f =>
      obtain ⟨bf, hbf, hinf⟩ := ih (fun t ht => hall t (by simp [ht])) (Fac.mul acc f)
      refine ⟨bf, ?_, ?_⟩
      · rw [List.foldl_cons]
        exact hbf
      · intro h
        apply hinf
        rcases h with h | h
        · left
          rw [isInf_eq acc h, Fac.inf_mul]
          rfl
        · rcases List.mem_cons.mp h with h | h
          · left
            have : f = Fac.inf := by
              injection h with h
              exact h.symm
            rw [this, Fac.mul_inf]
            rfl
          · right
            exact h

theorem infinite_factor (prior : ℝ) (ts : List (Option (Fac ℝ)))
    (hall : ∀ t ∈ ts, t ≠ none) (hinf : some Fac.inf ∈ ts) :
    (∃ bf, product prior ts = some bf ∧ bf.isInf = true ∧ (weightOf bf).isInf = true ∧
      probOf ts bf = 1) := by
  obtain ⟨bf, hbf, hi⟩ := foldl_step_some ts hall (Fac.fin (prior / (1 - prior)))
  have hb : bf.isInf = true := hi (Or.inr hinf)
  refine ⟨bf, ?_, hb, ?_, ?_⟩
  · rw [product_eq]
    exact hbf
  · rw [isInf_eq bf hb]
    rfl
  · unfold probOf
    split
    · rfl
    · next h =>
      exfalso
      apply h
      rw [List.any_eq_true]
      exact ⟨some Fac.inf, hinf, rfl⟩

theorem levelBF_eq (l : Level ℝ) :
    levelBF l = if l.isNull then Fac.fin 1 else if l.u = 0 then Fac.inf else Fac.fin (l.m / l.u) := by
  unfold levelBF
  by_cases h1 : l.isNull = true
  · simp [h1]
  · by_cases h2 : l.u = 0
    · simp [h1, h2]
    · simp [h1, h2]

/-! ## Threshold -/

theorem keep_weight (t : ℝ) (s : Scored ℝ) (w : ℝ) (hw : s.weight = some (Fac.fin w)) :
    keep (Threshold.weight t) s = true ↔ t ≤ w := by
  unfold keep thresholdAsWeight
  simp [hw]

theorem keep_prob (p bf : ℝ) (s : Scored ℝ) (hp : 0 < p) (hp1 : p < 1) (hbf : 0 < bf)
    (hw : s.weight = some (Fac.fin (Real.logb 2 bf))) :
    keep (Threshold.prob p) s = true ↔ p ≤ bf / (1 + bf) := by
  have hp0 : p ≠ 0 := ne_of_gt hp
  have h1p : 0 < 1 - p := by linarith
  have h1b : 0 < 1 + bf := by linarith
  have hodds : 0 < p / (1 - p) := div_pos hp h1p
  have hk : keep (Threshold.prob p) s = true ↔ Real.logb 2 (p / (1 - p)) ≤ Real.logb 2 bf := by
    unfold keep thresholdAsWeight
    simp [hw, hp0]
  rw [hk, Real.logb_le_logb (by norm_num) hodds hbf, div_le_iff₀ h1p, le_div_iff₀ h1b]
  constructor <;> intro h <;> nlinarith

theorem keep_prob_zero (s : Scored ℝ) : keep (Threshold.prob (0 : ℝ)) s = true := by
  unfold keep thresholdAsWeight
  simp

end SplinkVerif.Lemmas.Score
