import SplinkVerif.Generated.Dialects
/-!
# Lemmas about the generated dialect table (`Generated/Dialects.lean`)

Every statement is a finite quantifier over `Gen.dialectTable` / `Gen.levelComparators`,
decided by kernel evaluation (`decide`), so each is a proof about the table that
`harness/translate/tdialect.py` produced from /repo and the real backends in this run.
-/
namespace SplinkVerif.Lemmas.Dialects
open SplinkVerif

theorem allKinds_complete (k : Kind) : k ∈ allKinds := by cases k <;> decide

/-- Two classifications of the same kind agree with each other and with the levels. -/
def Agree (k : Kind) (a b : Option (Orientation × Bool)) : Prop :=
  match a, b with
  | some (o1, n1), some (o2, n2) => o1 = o2 ∧ o1 = expectedOrientation k ∧ n1 = true ∧ n2 = true
  | _, _ => True

instance (k : Kind) (a b : Option (Orientation × Bool)) : Decidable (Agree k a b) := by
  unfold Agree; split <;> infer_instance

theorem agree_table :
    ∀ d1 ∈ Gen.dialectTable, ∀ d2 ∈ Gen.dialectTable, ∀ k ∈ allKinds,
      Agree k (d1.classOf k) (d2.classOf k) := by decide

theorem same_meaning (d1 d2 : DialectEntry) (h1 : d1 ∈ Gen.dialectTable) (h2 : d2 ∈ Gen.dialectTable)
    (k : Kind) (o1 o2 : Orientation) (n1 n2 : Bool)
    (c1 : d1.classOf k = some (o1, n1)) (c2 : d2.classOf k = some (o2, n2)) :
    o1 = o2 ∧ o1 = expectedOrientation k ∧ n1 = true ∧ n2 = true := by
  have h := agree_table d1 h1 d2 h2 k (allKinds_complete k)
  rw [c1, c2] at h
  exact h

/-- DuckDB's functions are built in, SQLite's are registered by `SQLiteAPI._register_udfs`:
whatever these two dialects emit must evaluate, and to a classifiable function. -/
theorem emitted_runs_table :
    ∀ d ∈ Gen.dialectTable, d.executed = true → (d.dialect = .duckdb ∨ d.dialect = .sqlite) →
      ∀ k ∈ allKinds, d.supports k = true → (d.classOf k).isSome = true := by decide

theorem duckdb_sqlite_executed :
    (∃ d ∈ Gen.dialectTable, d.dialect = .duckdb ∧ d.executed = true) ∧
    (∃ d ∈ Gen.dialectTable, d.dialect = .sqlite ∧ d.executed = true) := by decide

theorem comparators_table :
    ∀ d ∈ Gen.dialectTable, ∀ k ∈ allKinds, d.supports k = true →
      (d.dialect, k, (expectedOrientation k).comparator) ∈ Gen.levelComparators := by decide

theorem comparators_only_expected :
    ∀ e ∈ Gen.levelComparators, e.2.2 = (expectedOrientation e.2.1).comparator := by decide

theorem infinity_table :
    ∀ d ∈ Gen.dialectTable, (d.infinity.all InfinityProbe.ok) = true := by decide

theorem infinity_ok (d : DialectEntry) (h : d ∈ Gen.dialectTable)
    (p : InfinityProbe) (hp : d.infinity = some p) : p.ok = true := by
  have := infinity_table d h
  rw [hp] at this
  simpa using this

theorem first_index_table :
    ∀ d ∈ Gen.dialectTable, d.executed = true → d.arrayFirstIndex.isSome = true →
      d.firstIndexSelectsFirst = some true := by decide

end SplinkVerif.Lemmas.Dialects
