import SplinkVerif.Lemmas.EMSums
/-!
# Helper lemmas for C13 — the M-step does not depend on the order of the rows

Over `ℝ` the M-step quantities are list sums (`Lemmas/EMSums.lean`), and sums are invariant
under permutation (`List.Perm.sum_eq`).  `observedValues` is an `eraseDups` list whose *order*
follows the rows, so invariance is stated for the values computed from it (`denomM`, `newM`,
`step`), using `denomM_rows` (the denominator is a sum over the rows).
-/
namespace SplinkVerif.Lemmas.InvEM
open SplinkVerif SplinkVerif.Score SplinkVerif.EM SplinkVerif.Lemmas.Score SplinkVerif.Lemmas.EM

theorem sum_filter_map_perm {rows rows' : List (Row ℝ)} (hp : rows.Perm rows')
    (p : Row ℝ → Bool) (f : Row ℝ → ℝ) :
    ((rows.filter p).map f).sum = ((rows'.filter p).map f).sum :=
  ((hp.filter p).map f).sum_eq

theorem mCount_perm (θ : Params ℝ) {rows rows' : List (Row ℝ)} (hp : rows.Perm rows')
    (ci : Nat) (v : Int) : mCount θ rows ci v = mCount θ rows' ci v := by
  rw [mCount_eq, mCount_eq]; exact sum_filter_map_perm hp _ _

theorem uCount_perm (θ : Params ℝ) {rows rows' : List (Row ℝ)} (hp : rows.Perm rows')
    (ci : Nat) (v : Int) : uCount θ rows ci v = uCount θ rows' ci v := by
  rw [uCount_eq, uCount_eq]; exact sum_filter_map_perm hp _ _

theorem lambdaNew_perm (θ : Params ℝ) {rows rows' : List (Row ℝ)} (hp : rows.Perm rows') :
    lambdaNew θ rows = lambdaNew θ rows' := by
  rw [lambdaNew_eq, lambdaNew_eq, (hp.map _).sum_eq, (hp.map _).sum_eq]

theorem denomM_perm (θ : Params ℝ) {rows rows' : List (Row ℝ)} (hp : rows.Perm rows')
    (ci : Nat) : denomM θ rows ci = denomM θ rows' ci := by
  rw [denomM_rows, denomM_rows]; exact sum_filter_map_perm hp _ _

theorem denomU_perm (θ : Params ℝ) {rows rows' : List (Row ℝ)} (hp : rows.Perm rows')
    (ci : Nat) : denomU θ rows ci = denomU θ rows' ci := by
  rw [denomU_rows, denomU_rows]; exact sum_filter_map_perm hp _ _

theorem mem_observedValues_perm (θ : Params ℝ) {rows rows' : List (Row ℝ)} (hp : rows.Perm rows')
    (ci : Nat) (v : Int) : v ∈ observedValues θ rows ci ↔ v ∈ observedValues θ rows' ci := by
  rw [mem_observedValues, mem_observedValues]
  simp only [hp.mem_iff]

theorem newM_perm (θ : Params ℝ) {rows rows' : List (Row ℝ)} (hp : rows.Perm rows')
    (ci : Nat) (v : Int) : newM θ rows ci v = newM θ rows' ci v := by
  by_cases h : v ∈ observedValues θ rows ci
  · rw [newM_of_mem θ rows ci v h,
      newM_of_mem θ rows' ci v ((mem_observedValues_perm θ hp ci v).mp h),
      mCount_perm θ hp, denomM_perm θ hp]
  · rw [newM_of_not_mem θ rows ci v h,
      newM_of_not_mem θ rows' ci v (fun h' => h ((mem_observedValues_perm θ hp ci v).mpr h'))]

theorem newU_perm (θ : Params ℝ) {rows rows' : List (Row ℝ)} (hp : rows.Perm rows')
    (ci : Nat) (v : Int) : newU θ rows ci v = newU θ rows' ci v := by
  by_cases h : v ∈ observedValues θ rows ci
  · rw [newU_of_mem θ rows ci v h,
      newU_of_mem θ rows' ci v ((mem_observedValues_perm θ hp ci v).mp h),
      uCount_perm θ hp, denomU_perm θ hp]
  · rw [newU_of_not_mem θ rows ci v h,
      newU_of_not_mem θ rows' ci v (fun h' => h ((mem_observedValues_perm θ hp ci v).mpr h'))]

theorem updateLevel_perm (sess : Session) (θ : Params ℝ) {rows rows' : List (Row ℝ)}
    (hp : rows.Perm rows') (ci : Nat) (l : Level ℝ) (st : LevelState) :
    updateLevel sess θ rows ci l st = updateLevel sess θ rows' ci l st := by
  unfold updateLevel
  rw [newM_perm θ hp, newU_perm θ hp]

theorem step_perm (sess : Session) (θ : Params ℝ) {rows rows' : List (Row ℝ)}
    (hp : rows.Perm rows') : EM.step sess θ rows = EM.step sess θ rows' := by
  unfold EM.step
  simp only [updateLevel_perm sess θ hp, lambdaNew_perm θ hp]

end SplinkVerif.Lemmas.InvEM
