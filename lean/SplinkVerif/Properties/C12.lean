import SplinkVerif.Lemmas.OneToOneConn
/-!
# C12 — single-best-link clusters respect duplicate-free datasets

Property theorems only (helper lemmas live in `Lemmas/OneToOne.lean`).  All statements are
about `Model/OneToOne.lean`, the statement-by-statement model of `one_to_one_clustering`,
for **every** instance (any number of records, datasets, edges incl. duplicate / reversed /
self-loop / dangling rows, any threshold) and **every pair of tie-break oracles** for the two
`row_number()` windows — the SQL leaves the order of tied rows open, so what an engine does
with ties is one of the oracle pairs.

Status of the parts of the property:
* partition, constraint, termination — proved for all inputs and all oracles;
* maximality — proved for tie-free inputs (all oracles, which are then irrelevant);
* connectivity — **false with ties** (`connected_counter_ties`, a defect of the real code,
  finding K4); **proved for tie-free inputs** (`connected_tie_free`): the returned partition
  is the constrained Kruskal partition (`partition_is_kruskal_when_tie_free`).
-/
namespace SplinkVerif.C12
open SplinkVerif SplinkVerif.OneToOne

/-- Every input record is returned exactly once: the `node_id` column of the output is
`0, 1, …, n-1`. -/
theorem partition (I : Inst) (oL oR : Oracle) :
    (cluster I oL oR).map (·.1) = List.range I.n :=
  Lemmas.O2O.output_nodes I _

/-- The constraint is an invariant of the loop body for ALL tie-break oracles: a pass maps a
table in which no representative group holds two records of one duplicate-free dataset to
such a table (at most one row enters a group per pass because `rank_r = 1` is unique per
partition, and the entering record's own group passed the `contains_` flag test). -/
theorem dupfree_step (I : Inst) (oL oR : Oracle) (k : Nat) (rep : Reps)
    (h : DupFreeOK I rep) : DupFreeOK I (step I oL oR k rep) :=
  Lemmas.O2O.dupFree_step I oL oR k rep h

/-- For ALL tie-break oracles the returned clusters hold at most one record of every
duplicate-free dataset. -/
theorem dupfree_respected (I : Inst) (oL oR : Oracle) : DupFreeOK I (run I oL oR).rep :=
  Lemmas.O2O.run_dupFree I oL oR

/-- The loop leaves through `needs_updating_count = 0`, never because the model's fuel ran
out (representatives only decrease, so their sum bounds the number of passes), and the
returned table is a fixpoint of the last pass. -/
theorem terminates (I : Inst) (oL oR : Oracle) :
    (run I oL oR).done = true ∧
      step I oL oR (run I oL oR).last (run I oL oR).rep = (run I oL oR).rep :=
  ⟨Lemmas.O2O.run_done I oL oR, Lemmas.O2O.run_fix I oL oR⟩

/-- Maximality for pairwise distinct probabilities: every kept edge between two different
returned clusters joins clusters that both contain a record of one duplicate-free dataset. -/
theorem maximal_when_tie_free (I : Inst) (oL oR : Oracle) (htf : TieFree I) (e : Row)
    (he : e ∈ kept I) (h1 : e.1 < I.n) (h2 : e.2.1 < I.n)
    (hne : repOf (run I oL oR).rep e.1 ≠ repOf (run I oL oR).rep e.2.1) :
    ∃ d ∈ I.dupFree,
      (∃ u, u < I.n ∧ repOf (run I oL oR).rep u = repOf (run I oL oR).rep e.1 ∧ I.ds u = d) ∧
      (∃ v, v < I.n ∧ repOf (run I oL oR).rep v = repOf (run I oL oR).rep e.2.1 ∧ I.ds v = d) :=
  Lemmas.O2O.maximal I oL oR htf e he h1 h2 hne

/-- Same fact in the model's terms: at the exit of a tie-free run `__splink__df_ranked_k` is empty. -/
theorem no_candidate_when_tie_free (I : Inst) (oL oR : Oracle) (htf : TieFree I) :
    cands I (run I oL oR).rep = [] :=
  Lemmas.O2O.no_cands_of_fix I oL oR _ _ htf (Lemmas.O2O.run_fix I oL oR)

/-! ### Connectivity fails with ties (finding K4) -/

/-- The 6-node witness of DESIGN §6 C12: records `a0 a1 a2 a3 b4 b5` (ranks 0–5), dataset
`b` duplicate-free, threshold 0.5, probabilities 0.6/0.7/0.8 written as 6/7/8. -/
def K4 : Inst where
  n := 6
  ds := fun v => if v < 4 then 0 else 1
  dupFree := [1]
  edges := [(2, 5, 7), (3, 2, 6), (5, 0, 7), (5, 4, 6), (4, 0, 7), (3, 0, 6), (1, 2, 8), (2, 4, 7)]
  thr := some 5

/-- Oracle that prefers, in pass `k`, the rows (positions in `__splink__df_neighbours`) listed in `t[k]`. -/
def pick (t : List (List Nat)) : Oracle := fun k i => if (t.getD k []).contains i then 1 else 0
/-- Tie-breaks of the `partition by l.representative` window. -/
def K4L : Oracle := pick [[14, 1, 2, 4, 6, 10], [0, 1, 8, 15], [1, 9]]
/-- Tie-breaks of the `partition by r.representative` window. -/
def K4R : Oracle := pick [[0, 6, 2, 7, 9, 14], [0, 15, 7, 9], [1, 9]]

/-- With ties, a returned cluster need not be connected through kept edges: under the
oracles `K4L`, `K4R` the model returns `{1, 4}` as a cluster (record 2 joined group 1, record
4 joined it through the edge 2–4, then record 2 moved on to group 0 — only the endpoint of an
accepted row is relabelled — and the loop exited), and there is no edge 1–4.  The real code
returns exactly this table on this input (DuckDB, 1/4/16 threads). -/
theorem connected_counter_ties :
    ∃ (I : Inst) (oL oR : Oracle), (run I oL oR).done = true ∧ ¬ Connected I (run I oL oR).rep := by
  refine ⟨K4, K4L, K4R, Lemmas.O2O.run_done _ _ _, ?_⟩
  have hrun : (run K4 K4L K4R).rep = [0, 1, 0, 0, 1, 0] := by decide
  rw [hrun]
  intro hc
  have hreach := hc 1 4 (by decide) (by decide) (by decide)
  have hno : ∀ y, ¬ adjB K4 [0, 1, 0, 0, 1, 0] 1 y = true := by
    intro y
    by_cases hy : y < 6
    · have hall : (List.range 6).all (fun y => !adjB K4 [0, 1, 0, 0, 1, 0] 1 y) = true := by decide
      have := List.all_eq_true.mp hall y (List.mem_range.mpr hy)
      simpa using this
    · have hn : ¬ y < K4.n := hy
      simp [adjB, hn]
  have := Lemmas.O2O.reach_stuck hno hreach
  omega

/-! ### Connectivity without ties

Proved (`Lemmas/OneToOneConn.lean`): the partition returned for a tie-free input is the
partition into the clusters of the **constrained Kruskal forest** `KS I` (kept edges by
decreasing probability; an edge is accepted iff it joins two different trees that hold no two
records of one duplicate-free dataset).  Invariant of the loop: every representative group
lies inside one Kruskal cluster; at the exit state (no candidate row) the groups are the
Kruskal clusters, which are connected by construction. -/

/-- With pairwise distinct probabilities every returned cluster is connected through kept
edges that stay inside the cluster — for every pair of tie-break oracles. -/
theorem connected_tie_free (I : Inst) (oL oR : Oracle) (htf : TieFree I) :
    Connected I (run I oL oR).rep :=
  Lemmas.O2O.connected_tie_free I oL oR htf

/-- The returned partition of a tie-free input is the constrained Kruskal partition: two
records share a cluster iff they are joined by a path of accepted Kruskal edges. -/
theorem partition_is_kruskal_when_tie_free (I : Inst) (oL oR : Oracle) (htf : TieFree I)
    (u v : Nat) (hu : u < I.n) (hv : v < I.n) :
    repOf (run I oL oR).rep u = repOf (run I oL oR).rep v ↔
      Reach (Lemmas.O2O.adjOf (Lemmas.O2O.KS I)) u v :=
  Lemmas.O2O.run_eq_kruskal I oL oR htf u v hu hv

/-! The older route through the parent forest (kept for reference; no longer needed). -/

/-- I-P ⇒ connectivity at a fixpoint without candidate rows. -/
theorem connected_partial (I : Inst) (rep : Reps) (par τ : Nat → Nat)
    (hroot : ∀ v, v < I.n → par v = v → repOf rep v = v)
    (hedge : ∀ v, v < I.n → par v ≠ v →
      par v < I.n ∧ τ (par v) < τ v ∧ ∃ x ∈ rows I, node x = v ∧ nbr x = par v)
    (hIP : ∀ v, v < I.n → par v ≠ v → repOf rep (par v) ≠ repOf rep v →
      conflict I rep (repOf rep v) (repOf rep (par v)) = false)
    (hnc : cands I rep = []) : Connected I rep :=
  Lemmas.O2O.connected_of_forest I rep par τ hroot hedge hIP hnc

/-! ### Non-vacuity -/

/-- Example 1 of `tests/test_cluster_using_single_best_links.py` (9 records over datasets
a, b, c, all duplicate-free, ranks = order of the composite ids `a-__-0 < a-__-3 < a-__-6 <
b-__-1 < …`; the two tied pairs of probabilities of the test, .90/.90 and .70/.70, are made
distinct as .91/.90 and .71/.70): tie-free, four passes, clusters as the test expects. -/
def Ex1 : Inst where
  n := 9
  ds := fun v => v / 3
  dupFree := [0, 1, 2]
  edges := [(0, 3, 90), (3, 6, 70), (1, 7, 85), (4, 7, 91), (2, 7, 80), (2, 5, 71)]
  thr := some 50

example : TieFree Ex1 := by decide
example : cluster Ex1 zeroOracle zeroOracle =
    [(0, 0), (1, 1), (2, 2), (3, 0), (4, 1), (5, 2), (6, 0), (7, 1), (8, 8)] := by decide
example : trace Ex1 zeroOracle zeroOracle = [2, 2, 2, 0] := by decide
/-- The K4 witness has ties, and the model's run on it takes four passes. -/
example : ¬ TieFree K4 ∧ trace K4 K4L K4R = [2, 2, 1, 0] := by decide

end SplinkVerif.C12
