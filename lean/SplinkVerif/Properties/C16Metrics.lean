import SplinkVerif.Lemmas.Metrics
/-!
# C16 (metrics) — the reference string metrics of `Model/Levels.lean` are what they claim to be

`Model/Levels.lean` evaluates the library's string-comparison levels against the SQL engines with
executable reference metrics.  Here: the quadratic Wagner–Fischer `lev` the driver runs IS the textbook
Levenshtein recursion `levSpec` on all strings (no length bound), `levSpec` is a metric with the usual
bounds, and the elementary laws of `commonPrefix`, `jaccardSim`, `jaroSim`, `jaroWinklerSim`.
Every theorem is a one-line application of a lemma of `Lemmas/Metrics.lean`.
-/
namespace SplinkVerif.C16M
open SplinkVerif SplinkVerif.Levels SplinkVerif.Metrics

/-! ## Levenshtein: implementation = specification -/

/-- The Wagner–Fischer computation equals the textbook recursion, for all strings. -/
theorem lev_eq_levSpec (a b : List Char) : lev a b = levSpec a b :=
  Metrics.lev_eq_levSpec a b

/-- Row invariant: entry `k` of the Wagner–Fischer row of `a` against `b` is the distance of `a` to the
`k`-th suffix of `b`. -/
theorem levRow_eq_range (a b : List Char) :
    levRow a b = (List.range (b.length + 1)).map (fun k => levSpec a (b.drop k)) :=
  Metrics.levRow_eq_range a b

/-! ## Levenshtein: metric laws -/

/-- A string is at distance 0 from itself. -/
theorem lev_self (a : List Char) : lev a a = 0 :=
  Metrics.lev_self a

/-- Identity of indiscernibles: distance 0 exactly for equal strings. -/
theorem lev_eq_zero_iff (a b : List Char) : lev a b = 0 ↔ a = b :=
  Metrics.lev_eq_zero_iff a b

/-- Symmetry. -/
theorem lev_symm (a b : List Char) : lev a b = lev b a :=
  Metrics.lev_symm a b

/-- Triangle inequality. -/
theorem lev_triangle (a b c : List Char) : lev a c ≤ lev a b + lev b c :=
  Metrics.lev_triangle a b c

/-- At most the length of the longer string. -/
theorem lev_le_max_len (a b : List Char) : lev a b ≤ max a.length b.length :=
  Metrics.lev_le_max_len a b

/-- At least the difference of the lengths (both truncated differences). -/
theorem lev_ge_len_diff (a b : List Char) :
    a.length - b.length ≤ lev a b ∧ b.length - a.length ≤ lev a b :=
  Metrics.lev_ge_len_diff a b

/-! ## Levenshtein: extension laws -/

/-- Equal heads cost nothing. -/
theorem lev_cons_cons_le (x : Char) (a b : List Char) : lev (x :: a) (x :: b) = lev a b :=
  Metrics.lev_cons_cons_le x a b

/-- Appending `c` to the right string moves the distance up by at most `|c|`. -/
theorem lev_append_right_le (a b c : List Char) : lev a (b ++ c) ≤ lev a b + c.length :=
  Metrics.lev_append_right_le a b c

/-- One more character on the right string moves the distance by at most one, in either direction. -/
theorem lev_cons_right_lipschitz (y : Char) (a b : List Char) :
    lev a (y :: b) ≤ lev a b + 1 ∧ lev a b ≤ lev a (y :: b) + 1 :=
  Metrics.lev_cons_right_lipschitz y a b

/-! ## Common prefix (the Winkler boost) -/

/-- Symmetric. -/
theorem commonPrefix_comm (a b : List Char) : commonPrefix a b = commonPrefix b a :=
  Metrics.commonPrefix_comm a b

/-- At most the length of the shorter string. -/
theorem commonPrefix_le_min_len (a b : List Char) : commonPrefix a b ≤ min a.length b.length :=
  Metrics.commonPrefix_le_min_len a b

/-- A string shares all of itself with itself. -/
theorem commonPrefix_self (a : List Char) : commonPrefix a a = a.length :=
  Metrics.commonPrefix_self a

/-- The first `commonPrefix a b` characters of the two strings coincide. -/
theorem commonPrefix_take (a b : List Char) :
    a.take (commonPrefix a b) = b.take (commonPrefix a b) :=
  Metrics.commonPrefix_take a b

/-- … and no longer prefix is shared. -/
theorem commonPrefix_maximal (a b : List Char) (k : Nat) (hk : k ≤ min a.length b.length)
    (h : a.take k = b.take k) : k ≤ commonPrefix a b :=
  Metrics.commonPrefix_maximal a b k hk h

/-! ## Jaccard on character sets -/

/-- Symmetric (including the undefined case). -/
theorem jaccardSim_symm (a b : List Char) : jaccardSim a b = jaccardSim b a :=
  Metrics.jaccardSim_symm a b

/-- When defined, a similarity in `[0, 1]`. -/
theorem jaccardSim_range (a b : List Char) (q : Rat) (h : jaccardSim a b = some q) : 0 ≤ q ∧ q ≤ 1 :=
  Metrics.jaccardSim_range a b q h

/-- A non-empty string has similarity 1 with itself. -/
theorem jaccardSim_self (a : List Char) (h : a ≠ []) : jaccardSim a a = some 1 :=
  Metrics.jaccardSim_self a h

/-- Undefined (DuckDB raises) exactly when one of the strings is empty. -/
theorem jaccardSim_eq_none_iff (a b : List Char) : jaccardSim a b = none ↔ a = [] ∨ b = [] :=
  Metrics.jaccardSim_eq_none_iff a b

/-! ## Jaro and Jaro–Winkler -/

/-- The imperative Jaro similarity takes values in `[0, 1]` on all strings. -/
theorem jaroSim_range (a b : List Char) : 0 ≤ jaroSim a b ∧ jaroSim a b ≤ 1 :=
  Metrics.jaroSim_range a b

/-- Equal strings (empty included) have Jaro similarity exactly 1. -/
theorem jaroSim_self (a : List Char) : jaroSim a a = 1 :=
  Metrics.jaroSim_self a

/-- Equal strings have Jaro–Winkler similarity exactly 1: an exact match passes every threshold `≤ 1`. -/
theorem jaroWinklerSim_self (a : List Char) : jaroWinklerSim a a = 1 :=
  Metrics.jaroWinklerSim_self a

/-- The Winkler boost never lowers the similarity (stated, as asked, from the range of `jaroSim`; the
hypotheses hold for all strings by `jaroSim_range`). -/
theorem jaroWinklerSim_ge_jaro (a b : List Char) (_h0 : 0 ≤ jaroSim a b) (h1 : jaroSim a b ≤ 1) :
    jaroSim a b ≤ jaroWinklerSim a b :=
  Metrics.jaroWinklerSim_ge_jaro a b h1

/-- Unconditional form. -/
theorem jaroWinklerSim_ge_jaro' (a b : List Char) : jaroSim a b ≤ jaroWinklerSim a b :=
  Metrics.jaroWinklerSim_ge_jaro a b (Metrics.jaroSim_range a b).2

/-- Jaro–Winkler takes values in `[0, 1]` on all strings. -/
theorem jaroWinklerSim_range (a b : List Char) : 0 ≤ jaroWinklerSim a b ∧ jaroWinklerSim a b ≤ 1 :=
  Metrics.jaroWinklerSim_range a b

/-- At or below the boost threshold `7/10`, Jaro–Winkler is Jaro. -/
theorem jaroWinklerSim_eq_jaro_of_le (a b : List Char) (h : jaroSim a b ≤ 7 / 10) :
    jaroWinklerSim a b = jaroSim a b :=
  Metrics.jaroWinklerSim_eq_jaro_of_le a b h

/-! ## Non-vacuity: the definitions compute the textbook values -/

example : lev ['k','i','t','t','e','n'] ['s','i','t','t','i','n','g'] = 3 := by decide +kernel
/-- `levSpec` is defined by well-founded recursion (no kernel evaluation): evaluated through the theorem. -/
example : levSpec ['k','i','t','t','e','n'] ['s','i','t','t','i','n','g'] = 3 := by
  rw [← lev_eq_levSpec]; decide +kernel
example : lev ['f','l','a','w'] ['l','a','w','n'] = 2 := by decide +kernel
example : lev [] ['a','b','c'] = 3 := by decide +kernel
example : lev ['c','a'] ['a','b','c'] = 3 := by decide +kernel
example : damerau ['c','a'] ['a','b','c'] = 2 := by decide +kernel
example : commonPrefix ['m','a','r','t','h','a'] ['m','a','r','h','t','a'] = 3 := by decide +kernel
example : jaccardSim ['a','b','c','a'] ['b','c','d'] = some (1 / 2) := by decide +kernel
example : jaccardSim [] ['b'] = none := by decide +kernel
example : jaroSim ['m','a','r','t','h','a'] ['m','a','r','h','t','a'] = 17 / 18 := by decide +kernel
example : jaroWinklerSim ['m','a','r','t','h','a'] ['m','a','r','h','t','a'] = 173 / 180 := by decide +kernel
example : jaroSim ['a'] ['b'] = 0 := by decide +kernel

end SplinkVerif.C16M
