import SplinkVerif.Lemmas.Accuracy
/-!
# C15 — accuracy tables are exact recounts of the labelled pairs

Property theorems only (helper lemmas live in `Lemmas/Accuracy.lean`).  All statements are about
`Model/Accuracy.lean`, the CTE-by-CTE model of `truth_space_table_from_labels_with_predictions_sqls`
and of the `prediction_errors_*` functions, for **every** list of scored labelled pairs (any length,
any ties, empty classes), every `threshold_actual`, every bucketing function (rounding on or off),
the not-found option on or off, and `total_labels` present (label column) or absent (labels table).
Values that are only compared are integer order keys (see the model's header).

`cnt xs p` is the number of labelled pairs satisfying `p`; `adjScore cfg x` is the score a pair is
counted at (its bucketed match weight, or the `-999` sentinel when the option is on and the
blocking rules did not find it); `ghosts cfg xs = total_labels - |xs|` are the implicit negatives of
label-column mode (`0` for a labels table).
-/
namespace SplinkVerif.C15
open SplinkVerif SplinkVerif.Accuracy SplinkVerif.Lemmas.Acc

/-- **Recount.**  In every row of the truth-space table each count is the direct recount of the
labelled pairs at that row's threshold `t`: a pair is a predicted positive iff its (adjusted) score
is `≥ t`, a clerical positive iff `clerical_match_score ≥ threshold_actual`; the implicit negatives of
label-column mode are all true negatives. -/
theorem recount (cfg : Cfg) (xs : List Scored) :
    ∀ r ∈ truthSpace cfg xs,
      r.tp = cnt xs (fun x => isPos cfg x && decide (adjScore cfg x ≥ r.truthThreshold)) ∧
      r.fp = cnt xs (fun x => !isPos cfg x && decide (adjScore cfg x ≥ r.truthThreshold)) ∧
      r.fn = cnt xs (fun x => isPos cfg x && decide (adjScore cfg x < r.truthThreshold)) ∧
      r.tn = cnt xs (fun x => !isPos cfg x && decide (adjScore cfg x < r.truthThreshold)) + ghosts cfg xs ∧
      r.p = cnt xs (fun x => isPos cfg x) ∧
      r.n = cnt xs (fun x => !isPos cfg x) + ghosts cfg xs ∧
      r.total = (xs.length : Int) + ghosts cfg xs :=
  fun _ hr => recount_rows cfg xs (mem_truthSpace cfg xs hr).1

/-- **Not found = predicted negative.**  With the option on (and the sentinel below the cut-off of
the final `where`, as `-999 < -998`), a pair the blocking rules did not find is a predicted negative
at every reported threshold: TP and FP count only found pairs, FN and TN count the pairs scored
below `t` *or* not found. -/
theorem not_found_predicted_negative (cfg : Cfg) (xs : List Scored)
    (hopt : cfg.scoreNotFoundAsZero = true) (hs : cfg.sentinel < cfg.cutoff) :
    ∀ r ∈ truthSpace cfg xs,
      r.tp = cnt xs (fun x => isPos cfg x && (x.found && decide (cfg.bucket x.weight ≥ r.truthThreshold))) ∧
      r.fp = cnt xs (fun x => !isPos cfg x && (x.found && decide (cfg.bucket x.weight ≥ r.truthThreshold))) ∧
      r.fn = cnt xs (fun x => isPos cfg x && (!x.found || decide (cfg.bucket x.weight < r.truthThreshold))) ∧
      r.tn = cnt xs (fun x => !isPos cfg x && (!x.found || decide (cfg.bucket x.weight < r.truthThreshold)))
              + ghosts cfg xs :=
  not_found_rows cfg xs hopt hs

/-- **Conservation.**  `TP + FN = P`, `TN + FP = N`, `P + N = total labels` in every row — for a labels
table and for a label column (with the implicit negatives) alike. -/
theorem conservation (cfg : Cfg) (xs : List Scored) :
    ∀ r ∈ truthSpace cfg xs, r.tp + r.fn = r.p ∧ r.tn + r.fp = r.n ∧ r.p + r.n = r.total :=
  fun _ hr => conservation_rows cfg xs (mem_truthSpace cfg xs hr).1

/-- **Monotonicity.**  `TP` and `FP` are non-increasing in the threshold (and `TN`, `FN` non-decreasing). -/
theorem monotone (cfg : Cfg) (xs : List Scored) :
    ∀ r₁ ∈ truthSpace cfg xs, ∀ r₂ ∈ truthSpace cfg xs, r₁.truthThreshold ≤ r₂.truthThreshold →
      r₂.tp ≤ r₁.tp ∧ r₂.fp ≤ r₁.fp ∧ r₁.tn ≤ r₂.tn ∧ r₁.fn ≤ r₂.fn :=
  fun _ h₁ _ h₂ hle => monotone_rows cfg xs (mem_truthSpace cfg xs h₁).1 (mem_truthSpace cfg xs h₂).1 hle

/-- **One row per score.**  The table has exactly one row for every distinct (adjusted, bucketed) score
of a labelled pair that passes the final `where truth_threshold >= -998`, and no other row. -/
theorem thresholds_exact (cfg : Cfg) (xs : List Scored) :
    ((truthSpace cfg xs).map (·.truthThreshold)).Nodup ∧
    ∀ t, t ∈ (truthSpace cfg xs).map (·.truthThreshold) ↔
      (∃ x ∈ xs, adjScore cfg x = t) ∧ t ≥ cfg.cutoff :=
  thresholds_exact_rows cfg xs

/-- **Prediction errors, labels table.**  The rows returned are exactly the labelled pairs (with
multiplicity, in order) that are a false positive (`score < t ∧ probability > t`, if requested) or a
false negative (`score > t ∧ probability < t`, if requested) — both tests strict, as coded. -/
theorem errors_exact_table (t : Int) (inclFP inclFN : Bool) (xs : List Scored) :
    (predictionErrorsTable t inclFP inclFN xs).map (·.1)
      = xs.filter fun x =>
          (inclFP && (decide (x.score < t) && decide (x.prob > t))) ||
          (inclFN && (decide (x.score > t) && decide (x.prob < t))) :=
  errors_table_eq t inclFP inclFN xs

/-- `truth_status` is `FP` exactly on the false positives and `FN` exactly on the false negatives of a
returned row; the two classes are disjoint, and a returned row always has a status. -/
theorem error_status (t : Int) (inclFP inclFN : Bool) (xs : List Scored) :
    ∀ x s, (x, s) ∈ predictionErrorsTable t inclFP inclFN xs →
      (s = some Status.fp ↔ (x.score < t ∧ x.prob > t)) ∧
      (s = some Status.fn ↔ (x.score > t ∧ x.prob < t)) ∧ s ≠ none :=
  error_status_rows t inclFP inclFN xs

/-- **Prediction errors, label column.**  As for the table, except that a clerical match the blocking
rules did not find is a false negative whatever its probability. -/
theorem errors_exact_column (t : Int) (inclFP inclFN : Bool) (xs : List Scored) :
    predictionErrorsColumn t inclFP inclFN xs
      = xs.filter fun x =>
          (inclFP && (decide (x.score < t) && decide (x.prob > t))) ||
          (inclFN && (decide (x.score > t) && (decide (x.prob < t) || !x.found))) :=
  errors_column_eq t inclFP inclFN xs

/-- **Either id orientation.**  Writing a label as `(b, a)` instead of `(a, b)` gives the same prepared
pairs: the lower id always ends up on the left, the score travels with the pair. -/
theorem orientation_irrelevant (present : Nat → Nat) (labels : List LabelRow)
    (hne : ∀ row ∈ labels, row.idL ≠ row.idR) :
    blockFromLabels present (labels.map fun row => ⟨row.idR, row.idL, row.score⟩)
      = blockFromLabels present labels :=
  block_orientation present labels hne

/-- After `lower_id_to_left_hand_side` the lower id is on the left; the pair and its score are unchanged. -/
theorem lower_id_on_lhs (row : LabelRow) (h : row.idL ≠ row.idR) :
    (lowerIdToLeftHandSide row).idL < (lowerIdToLeftHandSide row).idR ∧
    (lowerIdToLeftHandSide row).score = row.score ∧
    (((lowerIdToLeftHandSide row).idL = row.idL ∧ (lowerIdToLeftHandSide row).idR = row.idR) ∨
     ((lowerIdToLeftHandSide row).idL = row.idR ∧ (lowerIdToLeftHandSide row).idR = row.idL)) :=
  lower_ordered row h

/-- `found_by_blocking_rules` is TRUE iff the model has no blocking rule or some rule is TRUE (not NULL) on the pair. -/
theorem found_by_blocking_iff (evals : List B3) :
    selectFoundByBlockingRules evals = true ↔ evals = [] ∨ some true ∈ evals :=
  found_iff evals

/-! ### Non-vacuity (keys are small integers; weight bucket = identity; sentinel −999, cut-off −998) -/

private def cfgT : Cfg :=
  { thresholdActual := 5, bucket := id, scoreNotFoundAsZero := true, sentinel := -999, cutoff := -998, totalLabels := none }

/-- Five labels: two tied at weight 3 (one positive, one negative), a positive not found by blocking (→ −999, row dropped),
a negative at −2, a positive at 7. -/
example :
    truthSpace cfgT [⟨10, 3, 0, true⟩, ⟨0, 3, 0, true⟩, ⟨10, 4, 0, false⟩, ⟨2, -2, 0, true⟩, ⟨5, 7, 0, true⟩] =
      [ { truthThreshold := 3, total := 5, p := 3, n := 2, fp := 1, tp := 2, fn := 1, tn := 1 },
        { truthThreshold := -2, total := 5, p := 3, n := 2, fp := 2, tp := 2, fn := 1, tn := 0 },
        { truthThreshold := 7, total := 5, p := 3, n := 2, fp := 0, tp := 1, fn := 2, tn := 2 } ] := by decide

/-- Label-column mode: the same labels among 10 admissible pairs — 5 implicit negatives, all true negatives. -/
example :
    truthSpace { cfgT with totalLabels := some 10 }
      [⟨10, 3, 0, true⟩, ⟨0, 3, 0, true⟩, ⟨10, 4, 0, false⟩, ⟨2, -2, 0, true⟩, ⟨5, 7, 0, true⟩] =
      [ { truthThreshold := 3, total := 10, p := 3, n := 7, fp := 1, tp := 2, fn := 1, tn := 6 },
        { truthThreshold := -2, total := 10, p := 3, n := 7, fp := 2, tp := 2, fn := 1, tn := 5 },
        { truthThreshold := 7, total := 10, p := 3, n := 7, fp := 0, tp := 1, fn := 2, tn := 7 } ] := by decide

/-- Errors: score 0 / prob 9 is a FP at t = 5; score 10 / prob 1 a FN; score 5 (= t) and prob 5 (= t) are neither. -/
example :
    predictionErrorsTable 5 true true [⟨0, 0, 9, true⟩, ⟨10, 0, 1, true⟩, ⟨5, 0, 9, true⟩, ⟨10, 0, 5, true⟩] =
      [(⟨0, 0, 9, true⟩, some Status.fp), (⟨10, 0, 1, true⟩, some Status.fn)] := by decide

end SplinkVerif.C15
