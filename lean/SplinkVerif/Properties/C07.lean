import SplinkVerif.Lemmas.Cache
/-!
# C07 — results never depend on what ran before (cache soundness)

Property theorems about `Model/Cache.lean`.  `hash` is the physical-name hash (`sha256(sql ++ uid)`,
assumed injective on what a run issues), `eval text data` the contents a SQL text produces on the
current input data — both arbitrary functions.
-/
namespace SplinkVerif.C07
open SplinkVerif SplinkVerif.Cache

/-- the hash separates different SQL texts and different cache uids
(definition in `Lemmas/Cache.lean`: `∀ t u t' u', hash t u = hash t' u' → t = t' ∧ u = u'`) -/
abbrev HashInj := @Lemmas.CacheL.HashInj

/-- Tables kept under a templated name (`__splink__df_concat_with_tf`, `__splink__df_tf_<col>`, …) are
served to *every* request for that templated name, whatever its SQL text. This is sound as long as
all requests for such a name mean the same query (`namedText templ`) — true for one linker over
fixed settings, its training copies included.
(definition in `Lemmas/Cache.lean`: `∀ r, (Op.req r ∈ ops ∨ Op.computeNamed r ∈ ops) →
(∃ r', Op.computeNamed r' ∈ ops ∧ r'.templ = r.templ) → r.text = namedText r.templ`) -/
abbrev NamedDiscipline := @Lemmas.CacheL.NamedDiscipline

/-- input data never change without `invalidate_cache()`
(definition in `Lemmas/Cache.lean`: `Op.mutate ∉ ops`) -/
abbrev NoSilentMutation := @Lemmas.CacheL.NoSilentMutation

/-- **Cache transparency.** In every history of one linker's operations — requests with and without
cache, named computations, table drops, `invalidate_cache()`, data changes followed by
`invalidate_cache()`, `delete_tables_created_by_splink_from_db`, changes of the hash salt, tables replaced
under their name through Splink (`reregister`) — every request returns exactly the
contents its SQL produces on the *current* data: what ran before is invisible. -/
theorem cache_transparent (hash eval : Nat → Nat → Nat) (namedText : Nat → Nat)
    (hinj : HashInj hash) (pre post : List Op) (r : Req)
    (hnamed : NamedDiscipline namedText (pre ++ Op.req r :: post))
    (hmut : NoSilentMutation pre) :
    (request hash eval (run hash eval init pre) r).val = eval r.text (run hash eval init pre).data :=
  Lemmas.CacheL.request_val hash eval namedText hinj pre post r hnamed hmut

/-- `invalidate_cache()` after a data change makes later results reflect the new data. -/
theorem invalidate_reflects_new_data (hash eval : Nat → Nat → Nat) (namedText : Nat → Nat)
    (hinj : HashInj hash) (pre post : List Op) (r : Req)
    (hnamed : NamedDiscipline namedText (pre ++ Op.mutateInvalidate :: Op.req r :: post))
    (hmut : NoSilentMutation pre) :
    (request hash eval (run hash eval init (pre ++ [Op.mutateInvalidate])) r).val =
      eval r.text ((run hash eval init pre).data + 1) :=
  Lemmas.CacheL.request_after_mutateInvalidate hash eval namedText hinj pre post r hnamed hmut

/-- **A table replaced through Splink needs no `invalidate_cache()`** (the point of repair 4551b8fa:
`register_table` / `register_table_predict` / `register_labels_table` / a `Linker`'s input registration with
`overwrite=True` on an existing name forget the results stored under a templated name and re-draw the salt
of the hashed names): the request right after the re-registration returns what its SQL denotes on the NEW
data, although every table computed from the old data is still in the catalog and in the dict. -/
theorem reregistration_reflects_new_data (hash eval : Nat → Nat → Nat) (namedText : Nat → Nat)
    (hinj : HashInj hash) (pre post : List Op) (r : Req)
    (hnamed : NamedDiscipline namedText (pre ++ Op.reregister :: Op.req r :: post))
    (hmut : NoSilentMutation pre) :
    (request hash eval (run hash eval init (pre ++ [Op.reregister])) r).val =
      eval r.text ((run hash eval init pre).data + 1) :=
  Lemmas.CacheL.request_after_reregister hash eval namedText hinj pre post r hnamed hmut

/-- …and so does EVERY later request, whatever ran in between (`mid`: any operations but the silent
`mutate`): it returns what its SQL denotes on the data of its own time, and those are strictly newer than the
data the replaced table belonged to. -/
theorem reregistration_reflects_new_data_later (hash eval : Nat → Nat → Nat) (namedText : Nat → Nat)
    (hinj : HashInj hash) (pre mid post : List Op) (r : Req)
    (hnamed : NamedDiscipline namedText ((pre ++ Op.reregister :: mid) ++ Op.req r :: post))
    (hmut : NoSilentMutation (pre ++ Op.reregister :: mid)) :
    (request hash eval (run hash eval init (pre ++ Op.reregister :: mid)) r).val =
        eval r.text (run hash eval init (pre ++ Op.reregister :: mid)).data ∧
      (run hash eval init pre).data < (run hash eval init (pre ++ Op.reregister :: mid)).data :=
  Lemmas.CacheL.request_later_after_reregister hash eval namedText hinj pre mid post r hnamed hmut

/-- A request answered from the cache or the catalog returns what executing it would return. -/
theorem hit_equals_miss (hash eval : Nat → Nat → Nat) (namedText : Nat → Nat)
    (hinj : HashInj hash) (pre post : List Op) (r : Req)
    (hnamed : NamedDiscipline namedText (pre ++ Op.req r :: post))
    (hmut : NoSilentMutation pre) :
    (request hash eval (run hash eval init pre) r).val =
      (execute hash eval (run hash eval init pre) r).val :=
  Lemmas.CacheL.hit_equals_miss hash eval namedText hinj pre post r hnamed hmut

/-- Two queries whose SQL differs in anything — a model parameter is a literal of the SQL — or that
run under different uids never share a physical table. -/
theorem model_change_changes_key (hash : Nat → Nat → Nat) (hinj : HashInj hash) (templ t t' u u' : Nat)
    (h : t ≠ t' ∨ u ≠ u') : (⟨templ, hash t u⟩ : Phys) ≠ ⟨templ, hash t' u'⟩ :=
  Lemmas.CacheL.phys_ne hash hinj templ t t' u u' h

/-- The discipline is necessary: a data change behind Splink's back (an `INSERT` into the input table, a
view whose source changed) without `invalidate_cache()` is served the stale table.  (A change THROUGH Splink —
a table re-registered with `overwrite=True` — is `reregister`, not `mutate`.) -/
theorem silent_mutation_counter :
    ∃ (hash eval : Nat → Nat → Nat) (pre : List Op) (r : Req), HashInj hash ∧
      (request hash eval (run hash eval init pre) r).val ≠ eval r.text (run hash eval init pre).data :=
  Lemmas.CacheL.silent_mutation_counter

/-- …and so is the naming discipline: if the meaning of a named table changes (a term-frequency
lookup registered after `__splink__df_concat_with_tf` was stored) while the named entry stays, the
old table is served. -/
theorem named_entry_counter :
    ∃ (hash eval : Nat → Nat → Nat) (pre : List Op) (r : Req), HashInj hash ∧ NoSilentMutation pre ∧
      (request hash eval (run hash eval init pre) r).val ≠ eval r.text (run hash eval init pre).data :=
  Lemmas.CacheL.named_entry_counter

/-! ## Realtime `compare_records` SQL cache -/

/-- If the cache key determines the generated SQL, every call sequence gets, with the cache, exactly
the SQL it would get without it. -/
theorem realtime_cache_sound {κ : Type} [DecidableEq κ] (key : RtCall → κ) (sqlOf : RtCall → Nat)
    (hkey : ∀ x y, key x = key y → sqlOf x = sqlOf y) (calls : List RtCall) :
    rtRun key sqlOf [] calls = calls.map sqlOf :=
  Lemmas.CacheL.rtRun_sound key sqlOf hkey calls

/-- A key that ignores `include_found_by_blocking_rules` (or the dialect) is unsound as soon as the
SQL depends on it: two calls suffice. -/
theorem realtime_key_must_cover_flag :
    ∃ (sqlOf : RtCall → Nat) (calls : List RtCall),
      rtRun (fun c => c.settings) sqlOf [] calls ≠ calls.map sqlOf :=
  Lemmas.CacheL.rt_counter

/-- Non-vacuity: request, hit, invalidate, re-execute (hash := pairing, eval := text + 10·data). -/
example :
    let hash := fun t u => t * 1000 + u
    let eval := fun t d => t + 10 * d
    let s1 := run hash eval init [Op.req ⟨7, 3, true⟩]
    (request hash eval s1 ⟨7, 3, true⟩).hit = true ∧
    (request hash eval (run hash eval s1 [Op.mutateInvalidate]) ⟨7, 3, true⟩).hit = false ∧
    (request hash eval (run hash eval s1 [Op.mutateInvalidate]) ⟨7, 3, true⟩).val = 13 := by decide

/-- Non-vacuity of the re-registration theorems: request (miss), same request (hit), a named computation;
after `reregister` the same request is a miss and returns the value on the new data (3 + 10·1), the named
entry is gone, the old table is still in the catalog (nothing is dropped), and a request for the named
table recomputes on the new data too. -/
example :
    let hash := fun t u => t * 1000 + u
    let eval := fun t d => t + 10 * d
    let s1 := run hash eval init [Op.req ⟨7, 3, true⟩, Op.computeNamed ⟨8, 4, true⟩]
    let s2 := run hash eval s1 [Op.reregister]
    (request hash eval s1 ⟨7, 3, true⟩).hit = true ∧ (request hash eval s1 ⟨8, 5, true⟩).val = 4 ∧
    (request hash eval s2 ⟨7, 3, true⟩).hit = false ∧ (request hash eval s2 ⟨7, 3, true⟩).val = 13 ∧
    (request hash eval s2 ⟨8, 4, true⟩).hit = false ∧ (request hash eval s2 ⟨8, 4, true⟩).val = 14 ∧
    s2.db.length = 2 ∧ s2.cache.length = 2 ∧ s2.uid = 1 := by decide

/-- …and the salt change alone (`resalt`, the data unchanged) makes the hashed tables unreachable but keeps the
named entries. -/
example :
    let hash := fun t u => t * 1000 + u
    let eval := fun t d => t + 10 * d
    let s := run hash eval init [Op.req ⟨7, 3, true⟩, Op.computeNamed ⟨8, 4, true⟩, Op.resalt]
    (request hash eval s ⟨7, 3, true⟩).hit = false ∧ (request hash eval s ⟨7, 3, true⟩).val = 3 ∧
    (request hash eval s ⟨8, 4, true⟩).hit = true := by decide

end SplinkVerif.C07
