import SplinkVerif.Lemmas.EMBridge
/-!
# C03 (bridge) — the executable E-step is the posterior of the abstract mixture model

`Properties/C03Likelihood.lean` proves likelihood monotonicity for an abstract EM step.
This file connects the **E-step** of the executable model (`EM.eProb`, built on
`Score.score`: prior odds × Bayes factors → `bf / (1 + bf)`) to the abstract posterior
`post = pm / (pm + pu)`, at `ℝ`, for parameters without term-frequency adjustments and
without `u = 0`, on rows where every comparison assigns a level.

The abstraction (`Lemmas.EMBridge.absParams`, `absPattern`): comparison `c` has one abstract
level per *position* in the executable comparison; `m c i`, `u c i` are the values stored
at position `i`; the pattern of a row in comparison `c` is the position of the first level
carrying the value `gamma` returns, or `none` when that level is the null level.

Not bridged (open): that `EM.step` (the `foldl` sums, `observedValues`, `eraseDups`, the
window normalisation, level-level fix flags) equals `Lemmas.EML.emStep` under this
abstraction.  Until that is done `loglik_mono` is a theorem about the abstract M-step
formulas, related to `EM.step` by reading and by the differential tests only.
-/
namespace SplinkVerif.C03B
open SplinkVerif SplinkVerif.Score SplinkVerif.Lemmas SplinkVerif.Lemmas.EMBridge

/-- The executable E-step probability equals the abstract posterior (every comparison
assigns a level to the row). -/
theorem eprob_is_posterior (θ : EM.Params ℝ) (r : EM.Row ℝ)
    (hl0 : 0 < θ.prior) (hl1 : θ.prior < 1)
    (hg : r.pair.guards.length = θ.comps.length)
    (hnotf : ∀ c ∈ θ.comps, hasTf c = false)
    (hpos : ∀ c ∈ θ.comps, ∀ l ∈ c, l.isNull = false → 0 < l.m ∧ 0 < l.u)
    (htot : ∀ c : Fin θ.comps.length,
      (gamma θ.comps[c.val] (r.pair.guards[c.val]'(by omega))).isSome = true) :
    EM.eProb θ r = EML.post (absParams θ) (absPattern θ r) :=
  eProb_eq_post_abs θ r hl0 hl1 hg hnotf hpos htot

/-- … in particular when every comparison has an `ELSE` level. -/
theorem eprob_is_posterior_else (θ : EM.Params ℝ) (r : EM.Row ℝ)
    (hl0 : 0 < θ.prior) (hl1 : θ.prior < 1)
    (hg : r.pair.guards.length = θ.comps.length)
    (hnotf : ∀ c ∈ θ.comps, hasTf c = false)
    (hpos : ∀ c ∈ θ.comps, ∀ l ∈ c, l.isNull = false → 0 < l.m ∧ 0 < l.u)
    (helse : ∀ c ∈ θ.comps, ∃ l ∈ c, l.isElse = true)
    (hgl : ∀ c : Fin θ.comps.length,
      (θ.comps[c.val]).length ≤ (r.pair.guards[c.val]'(by omega)).length) :
    EM.eProb θ r = EML.post (absParams θ) (absPattern θ r) :=
  eProb_eq_post_else θ r hl0 hl1 hg hnotf hpos helse hgl

end SplinkVerif.C03B
