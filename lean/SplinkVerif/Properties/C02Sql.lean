import SplinkVerif.Lemmas.ScoreSql
import SplinkVerif.Generated.ScoreSql
import SplinkVerif.Model.Score
/-!
# C02 at the level of the emitted SQL (models without term-frequency adjustments)

`Generated/ScoreSql.lean` holds the three scoring statements `comparison_vector_values.py` / `predict.py` emit **now** for marker models
(T-sql translator, regenerated on every run) and checks *by `rfl` in that file* that the hand-written generic form `Model/ScoreSql.lean`
— functions from ANY list of comparisons with ANY list of levels to `Rel` terms — instantiated at the captured shapes (1, 2, 3
comparisons, 2 … 5 levels, null levels first / in the middle, 2 / 4 id columns, with and without threshold) IS the translation of the
captured SQL.  The theorems below are about that generic form under the SQL semantics `Rel.eval`, for every database, every condition
(arbitrary `Expr`, three-valued), every number of comparisons and levels:

1. `gamma_<c>` is the comparison-vector value of the FIRST level whose condition evaluates to TRUE (FALSE and NULL fall through), the
   `ELSE` level's value if there is none (`sql_gamma_*`);
2. `bf_<c>` is the Bayes-factor literal of that level, provided levels with equal comparison-vector value carry equal factors
   (`Consistent`: Splink numbers non-null levels distinctly, all null levels are −1 with factor 1) (`sql_bf_*`);
3. `match_probability = B / (1 + B)` with `B = prior odds × Π bf_<c>` in exact rationals when all factors are finite, `1` as soon as one
   factor is the infinity literal — whatever the others are — (`sql_probability_*`); `match_weight` and the threshold test are the same
   uninterpreted `log2` of the same product, so the threshold keeps exactly the rows whose `match_weight` column is `>=` it
   (`sql_threshold_*`);
4. gamma, Bayes factor, product and probability equal the definitions of the functional model `Model/Score.lean` instantiated at `ℚ`
   (`*_refines_score`).

Not modelled: floating point (the literals are exact rationals), `log2` (uninterpreted), term-frequency adjustments, the
`retain_matching_columns` variant of the select lists, `prior = 1`.

Property theorems only; proofs are in `Lemmas/ScoreSql.lean`.
-/
namespace SplinkVerif.C02Sql
open SplinkVerif SplinkVerif.Rel SplinkVerif.ScoreSql
open SplinkVerif.Lemmas.ScoreSql

/-! ## 1. gamma: first level whose condition is TRUE -/

/-- a condition that evaluates to NULL (or FALSE, or anything but TRUE) does not hold: it falls through -/
theorem sql_null_condition_falls_through (e : Expr) (row : Row) (h : e.eval row = Val.null) : e.holds row = false := by
  simp [Expr.holds, h]

/-- the `gamma_<c>` CASE ladder evaluates to `gammaOf`, on every row -/
theorem sql_gamma_eval (c : Comparison) (row : Row) : (gammaCase c).eval row = Val.int (gammaOf c row) :=
  gammaCase_eval c row

/-- `gammaOf` is the value of the first level whose condition is TRUE … -/
theorem sql_gamma_first_true (c : Comparison) (row : Row) (pre post : List Level) (l : Level)
    (hl : c.levels = pre ++ l :: post) (hpre : ∀ x ∈ pre, x.cond.holds row = false) (htrue : l.cond.holds row = true) :
    gammaOf c row = l.cvv ∧ bfAssigned c row = l.bf := by
  have : assigned c row = some l := by
    unfold assigned
    rw [hl, List.find?_append]
    have : pre.find? (fun l => l.cond.holds row) = none := List.find?_eq_none.mpr (by simpa using hpre)
    simp [this, htrue]
  simp [gammaOf, bfAssigned, this]

/-- … and the `ELSE` value when no condition is TRUE -/
theorem sql_gamma_else (c : Comparison) (row : Row) (h : ∀ x ∈ c.levels, x.cond.holds row = false) :
    gammaOf c row = c.elseCvv ∧ bfAssigned c row = c.elseBf := by
  have : assigned c row = none := List.find?_eq_none.mpr (by simpa using h)
  simp [gammaOf, bfAssigned, this]

/-! ## 2. bf: the assigned level's Bayes factor -/

/-- the `bf_<c>` CASE ladder over a row whose column `g` holds `gamma_<c>` -/
theorem sql_bf_eval (g : Nat) (c : Comparison) (hc : Consistent c) (pair row : Row)
    (h : row.getD g Val.null = Val.int (gammaOf c pair)) : (bfCase g c).eval row = bfAssigned c pair := by
  rw [bfCase_eval g c row _ h, bfLookup_gammaOf c hc]

/-- without the consistency hypothesis the ladder returns the factor of the FIRST level that carries the assigned level's value -/
theorem sql_bf_lookup (g : Nat) (c : Comparison) (row : Row) (v : Int) (h : row.getD g Val.null = Val.int v) :
    (bfCase g c).eval row = bfLookup c v := bfCase_eval g c row v h

/-- the consistency hypothesis is needed: two levels with one value and different factors -/
example : let c : Comparison := ⟨[⟨Expr.lit (Val.bool false), 1, Val.rat 2⟩, ⟨Expr.lit (Val.bool true), 1, Val.rat 3⟩], 0, Val.rat 5⟩
    bfLookup c (gammaOf c []) = Val.rat 2 ∧ bfAssigned c [] = Val.rat 3 := by decide

/-! ## 3. the pipeline on any database -/

theorem flatMap_congr' {α β : Type} {l : List α} {f g : α → List β} (h : ∀ a ∈ l, f a = g a) : l.flatMap f = l.flatMap g := by
  induction l with
  | nil => rfl
  | cons a l ih =>
    simp only [List.flatMap_cons]
    rw [h a (by simp), ih (fun x hx => h x (by simp [hx]))]

/-- `__splink__df_match_weight_parts` after the pipeline: per pair the ids, then (`gamma_<c>`, `bf_<c>`) per comparison -/
theorem sql_parts_rows (nid : Nat) (inf prior : Val) (thr : Option Val) (cs : List Comparison) (hc : ∀ c ∈ cs, Consistent c) (db : Db) :
    runStmts db (pipeline nid inf prior thr cs) "__splink__df_match_weight_parts"
      = (db "blocked_with_cols").map fun r => ids nid r ++ cs.flatMap fun c => [Val.int (gammaOf c r), bfAssigned c r] := by
  rw [pipeline_parts]
  apply List.map_congr_left
  intro r _
  unfold partsRow
  congr 1
  apply flatMap_congr'
  intro c hcm
  rw [bfLookup_gammaOf c (hc c hcm)]

/-- `__splink__df_predict` after the pipeline: the kept pairs, per pair `log2(P)`, the probability, the ids, `bf_<c>` per comparison -/
theorem sql_predict_rows (nid : Nat) (inf prior : Val) (thr : Option Val) (cs : List Comparison) (db : Db) :
    runStmts db (pipeline nid inf prior thr cs) "__splink__df_predict"
      = ((db "blocked_with_cols").filter (keeps prior thr cs)).map (predictRow nid inf prior cs) :=
  pipeline_predict nid inf prior thr cs db

/-- the `bf_<c>` values the product ranges over are the assigned levels' factors -/
theorem sql_bf_values (cs : List Comparison) (hc : ∀ c ∈ cs, Consistent c) (r : Row) :
    bfVals cs r = cs.map fun c => bfAssigned c r := by
  unfold bfVals
  exact List.map_congr_left fun c hcm => bfLookup_gammaOf c (hc c hcm) r

/-- finite factors: `match_probability = B / (1 + B)`, `B = prior × Π factors`, in exact rationals (NULL iff `1 + B = 0`) -/
theorem sql_probability_finite {inf : Val} (hi : IsInf inf) (p : Rat) (qs : List Rat) :
    probVal inf (Val.rat p) (qs.map Val.rat) =
      (if 1 + qs.foldl (· * ·) p = 0 then Val.null else Val.rat (qs.foldl (· * ·) p / (1 + qs.foldl (· * ·) p))) :=
  probVal_finite hi p qs

/-- … never NULL for a positive prior and non-negative factors -/
theorem sql_probability_finite_pos {inf : Val} (hi : IsInf inf) (p : Rat) (qs : List Rat) (hp : 0 < p) (hq : ∀ q ∈ qs, 0 ≤ q) :
    probVal inf (Val.rat p) (qs.map Val.rat) = Val.rat (qs.foldl (· * ·) p / (1 + qs.foldl (· * ·) p)) := by
  have hB : ∀ (qs : List Rat) (a : Rat), 0 ≤ a → (∀ q ∈ qs, 0 ≤ q) → 0 ≤ qs.foldl (· * ·) a := by
    intro qs
    induction qs with
    | nil => intro a ha _; simpa using ha
    | cons q qs ih =>
      intro a ha h
      simp only [List.foldl_cons]
      exact ih (a * q) (Rat.mul_nonneg ha (h q (by simp))) (fun x hx => h x (by simp [hx]))
  have h0 := hB qs p (Rat.le_of_lt hp) hq
  rw [probVal_finite hi, if_neg]
  intro h
  grind

/-- an infinite factor: `match_probability = 1`, whatever the other factors are -/
theorem sql_probability_infinite {inf : Val} (hi : IsInf inf) (prior : Val) (vs : List Val) (h : inf ∈ vs) :
    probVal inf prior vs = Val.rat 1 := probVal_inf hi prior vs h

/-- the threshold: every row of the output has a `match_weight` column `>=` the threshold, and a pair is kept iff its weight is -/
theorem sql_threshold_keeps_by_weight (nid : Nat) (inf prior t : Val) (cs : List Comparison) (db : Db) :
    (∀ out ∈ runStmts db (pipeline nid inf prior (some t) cs) "__splink__df_predict",
        Cmp.ge.eval (out.getD 0 Val.null) t = Val.bool true) ∧
    runStmts db (pipeline nid inf prior (some t) cs) "__splink__df_predict"
      = (runStmts db (pipeline nid inf prior none cs) "__splink__df_predict").filter
          (fun out => Cmp.ge.eval (out.getD 0 Val.null) t == Val.bool true) := by
  rw [pipeline_predict, pipeline_predict]
  constructor
  · intro out ho
    obtain ⟨r, hr, rfl⟩ := List.mem_map.mp ho
    have := (List.mem_filter.mp hr).2
    simpa [keeps, predictRow] using this
  · have hn : (db "blocked_with_cols").filter (keeps prior none cs) = db "blocked_with_cols" := by simp [keeps]
    rw [hn, List.filter_map]
    congr 1

/-! ## 4. the functional model `Model/Score.lean` at `ℚ` -/

/-- `Score.Num` at the exact rationals.  `pow` and `log2` have no rational values; the definitions used below (`gamma`, `levelBF`,
`bfColumn`, `product`, `probOf`) do not use them. -/
instance instNumRat : Score.Num Rat where
  zero := 0
  one := 1
  ofNat := fun n => (n : Rat)
  add := (· + ·)
  sub := (· - ·)
  mul := (· * ·)
  div := (· / ·)
  pow := fun _ _ => 0
  log2 := fun _ => 0
  ge := fun a b => decide (a ≥ b)
  gt := fun a b => decide (a > b)
  isZero := fun a => decide (a = 0)

/-- a Bayes factor of the functional model as the SQL literal -/
def facVal (inf : Val) : Option (Score.Fac Rat) → Val
  | none => Val.null
  | some (Score.Fac.fin q) => Val.rat q
  | some Score.Fac.inf => inf

/-- the SQL value of a condition as a three-valued boolean of the functional model -/
def toB3 : Val → B3
  | Val.bool b => some b
  | _ => none

/-- the SQL comparison of a comparison of the functional model: `ls` = its non-`ELSE` levels with their conditions, `e` = the `ELSE` level;
the Bayes-factor literals are `_bayes_factor` of the levels (`Score.levelBF`) -/
def ofScore (inf : Val) (ls : List (Score.Level Rat × Expr)) (e : Score.Level Rat) : Comparison :=
  ⟨ls.map fun p => ⟨p.2, p.1.cvv, facVal inf (some (Score.levelBF p.1))⟩, e.cvv, facVal inf (some (Score.levelBF e))⟩

theorem isTrue_toB3 (v : Val) : B3.isTrue (toB3 v) = (v == Val.bool true) := by
  cases v with
  | bool b => cases b <;> rfl
  | _ => rfl

/-- gamma: the SQL ladder computes `Score.gamma` of the outcomes of the conditions on the pair -/
theorem gamma_refines_score (inf : Val) (ls : List (Score.Level Rat × Expr)) (e : Score.Level Rat) (row : Row)
    (hls : ∀ p ∈ ls, p.1.isElse = false) (he : e.isElse = true) :
    Score.gamma (ls.map (·.1) ++ [e]) (ls.map fun p => toB3 (p.2.eval row)) = some (gammaOf (ofScore inf ls e) row) := by
  induction ls with
  | nil => simp [Score.gamma, he, gammaOf, assigned, ofScore]
  | cons p ls ih =>
    have hp : p.1.isElse = false := hls p (by simp)
    have ih' := ih (fun q hq => hls q (by simp [hq]))
    simp only [List.map_cons, List.cons_append, Score.gamma, hp, isTrue_toB3]
    cases hb : (p.2.eval row == Val.bool true)
    · simp only [Bool.false_eq_true, if_false]
      rw [ih']
      simp [gammaOf, assigned, ofScore, Expr.holds, hb]
    · simp [gammaOf, assigned, ofScore, Expr.holds, hb]

/-- Bayes factor: the SQL ladder computes `Score.bfColumn` -/
theorem bf_refines_score (inf : Val) (ls : List (Score.Level Rat × Expr)) (e : Score.Level Rat) (v : Int) :
    bfLookup (ofScore inf ls e) v = facVal inf (Score.bfColumn (ls.map (·.1) ++ [e]) (some v)) := by
  have hp : (ofScore inf ls e).pairs = (ls.map (·.1) ++ [e]).map fun l => (l.cvv, facVal inf (some (Score.levelBF l))) := by
    simp [ofScore, Comparison.pairs, List.map_map, Function.comp_def]
  unfold bfLookup Score.bfColumn
  rw [hp, List.find?_map]
  cases h : (ls.map (·.1) ++ [e]).find? ((fun p : Int × Val => p.1 == v) ∘ fun l => (l.cvv, facVal inf (some (Score.levelBF l)))) with
  | none =>
    have : (ls.map (·.1) ++ [e]).find? (fun l => l.cvv == v) = none := h
    simp [this, facVal]
  | some l =>
    have : (ls.map (·.1) ++ [e]).find? (fun l => l.cvv == v) = some l := h
    simp [this, facVal]

theorem product_fin (p : Rat) (qs : List Rat) :
    Score.product p (qs.map fun q => some (Score.Fac.fin q)) = some (Score.Fac.fin (qs.foldl (· * ·) (Score.priorOdds p))) := by
  unfold Score.product
  generalize Score.priorOdds p = a
  induction qs generalizing a with
  | nil => rfl
  | cons q qs ih =>
    simp only [List.map_cons, List.foldl_cons]
    exact ih (a * q)

/-- product and probability, finite factors: the SQL computes `Score.product` and `Score.probOf` (for `1 + B ≠ 0`, where Lean's `x / 0 = 0`
and SQL's NULL part) -/
theorem prob_refines_score_finite {inf : Val} (hi : IsInf inf) (p : Rat) (qs : List Rat)
    (h : 1 + qs.foldl (· * ·) (Score.priorOdds p) ≠ 0) :
    Score.product p (qs.map fun q => some (Score.Fac.fin q)) = some (Score.Fac.fin (qs.foldl (· * ·) (Score.priorOdds p))) ∧
    productVal (Val.rat (Score.priorOdds p)) (qs.map Val.rat) = Val.rat (qs.foldl (· * ·) (Score.priorOdds p)) ∧
    probVal inf (Val.rat (Score.priorOdds p)) (qs.map Val.rat)
      = Val.rat (Score.probOf (qs.map fun q => some (Score.Fac.fin q)) (Score.Fac.fin (qs.foldl (· * ·) (Score.priorOdds p)))) := by
  refine ⟨product_fin p qs, productVal_rat _ qs, ?_⟩
  rw [probVal_finite hi, if_neg h]
  unfold Score.probOf
  rw [if_neg]
  · rfl
  · intro hany
    obtain ⟨t, ht, hinf⟩ := List.any_eq_true.mp hany
    obtain ⟨q, _, rfl⟩ := List.mem_map.mp ht
    simp [Score.Fac.isInf] at hinf

/-- probability, an infinite factor: both sides are 1 -/
theorem prob_refines_score_infinite {inf : Val} (hi : IsInf inf) (prior : Val) (ts : List (Option (Score.Fac Rat)))
    (h : some Score.Fac.inf ∈ ts) (bf : Score.Fac Rat) :
    probVal inf prior (ts.map (facVal inf)) = Val.rat (Score.probOf ts bf) := by
  have hm : inf ∈ ts.map (facVal inf) := List.mem_map.mpr ⟨_, h, rfl⟩
  rw [probVal_inf hi prior _ hm]
  unfold Score.probOf
  rw [if_pos]
  · rfl
  · exact List.any_eq_true.mpr ⟨_, h, rfl⟩

/-! ## Non-vacuity: a concrete model and database -/

/-- two comparisons: (null level, exact, else) and (exact with an infinite factor, else); columns: id_l, id_r, a_l, a_r, b_l, b_r -/
def exInf : Val := Val.str "Infinity"

def exModel : List Comparison :=
  [⟨[⟨Expr.or (Expr.isNull (Expr.col 2)) (Expr.isNull (Expr.col 3)), -1, Val.rat 1⟩, ⟨Expr.cmp Cmp.eq (Expr.col 2) (Expr.col 3), 1, Val.rat 8⟩], 0, Val.rat ((1 : Rat) / 4)⟩,
   ⟨[⟨Expr.cmp Cmp.eq (Expr.col 4) (Expr.col 5), 1, exInf⟩], 0, Val.rat ((1 : Rat) / 2)⟩]

def exDb : Db := Db.set (fun _ => []) "blocked_with_cols"
  [[Val.int 1, Val.int 2, Val.str "x", Val.str "x", Val.str "p", Val.str "q"],
   [Val.int 1, Val.int 3, Val.str "x", Val.null, Val.str "p", Val.null],
   [Val.int 2, Val.int 3, Val.str "x", Val.str "y", Val.str "q", Val.str "q"]]

example : IsInf exInf := ⟨by decide, by intro q; simp [exInf]⟩

example : ∀ c ∈ exModel, ∀ p ∈ c.pairs, ∀ q ∈ c.pairs, p.1 = q.1 → p.2 = q.2 := by decide +kernel

/-- gamma and bf of the three pairs: (exact, else), (null level: the NULL condition of level 2 is not reached; else: NULL = falls through), (else, exact = ∞) -/
example : runStmts exDb (pipeline 2 exInf (Val.rat ((1 : Rat) / 3)) none exModel) "__splink__df_match_weight_parts"
    = [[Val.int 1, Val.int 2, Val.int 1, Val.rat 8, Val.int 0, Val.rat ((1 : Rat) / 2)],
       [Val.int 1, Val.int 3, Val.int (-1), Val.rat 1, Val.int 0, Val.rat ((1 : Rat) / 2)],
       [Val.int 2, Val.int 3, Val.int 0, Val.rat ((1 : Rat) / 4), Val.int 1, exInf]] := by decide +kernel

/-- the probabilities: (1/3·8·1/2)/(1 + 4/3) = 4/7, (1/3·1·1/2)/(1 + 1/6) = 1/7, and 1 for the infinite factor -/
example : (runStmts exDb (pipeline 2 exInf (Val.rat ((1 : Rat) / 3)) none exModel) "__splink__df_predict").map (fun r => r.drop 1)
    = [[Val.rat ((4 : Rat) / 7), Val.int 1, Val.int 2, Val.rat 8, Val.rat ((1 : Rat) / 2)],
       [Val.rat ((1 : Rat) / 7), Val.int 1, Val.int 3, Val.rat 1, Val.rat ((1 : Rat) / 2)],
       [Val.rat 1, Val.int 2, Val.int 3, Val.rat ((1 : Rat) / 4), exInf]] := by decide +kernel

end SplinkVerif.C02Sql
