import SplinkVerif.Lemmas.Score
import SplinkVerif.Generated.Arith
import SplinkVerif.Lemmas.ArithBridge
/-!
# C02 — scores follow the Fellegi–Sunter formula with the model's parameters

Property theorems about `Model/Score.lean` (the model of the CASE statements
and arithmetic that `predict()` emits).  The logic theorems (`gamma_*`) hold for
every number type; the arithmetic theorems are proved at `ℝ`
(`Lemmas.Score.instNumReal`: `pow = Real.rpow`, `log2 = Real.logb 2`), the same
definitions the driver runs at `Float`.  Floating-point rounding is the runtime
behaviour the model cannot exhibit.
-/
namespace SplinkVerif.C02
open SplinkVerif SplinkVerif.Score

/-! ## Level selection: the first level whose condition is TRUE -/

/-- The level at position `k` is assigned when its condition is TRUE (or it is the
`ELSE` level) and no earlier level fired: conditions that are FALSE **or NULL**
do not fire. -/
theorem gamma_first_true {α : Type} (c : Comparison α) (gs : List B3) (k : Nat) (l : Level α)
    (hk : c[k]? = some l)
    (hfire : l.isElse = true ∨ ∃ g, gs[k]? = some g ∧ B3.isTrue g = true)
    (hprev : ∀ j l', j < k → c[j]? = some l' →
      l'.isElse = false ∧ ∃ g, gs[j]? = some g ∧ B3.isTrue g = false) :
    gamma c gs = some l.cvv :=
  Lemmas.Score.gamma_first_true c gs k l hk hfire hprev

/-- With the null level listed first the value is −1 exactly when its condition holds. -/
theorem gamma_null_first {α : Type} (nl : Level α) (rest : Comparison α) (g : B3) (gs : List B3)
    (hn : nl.isElse = false) (hv : nl.cvv = -1) (hrest : ∀ l ∈ rest, l.cvv ≠ -1) :
    gamma (nl :: rest) (g :: gs) = some (-1) ↔ B3.isTrue g = true :=
  Lemmas.Score.gamma_null_first nl rest g gs hn hv hrest

/-- A comparison that contains an `ELSE` level assigns some level to every pair
(one condition outcome per level is supplied: `c.length ≤ gs.length`). -/
theorem gamma_total {α : Type} (c : Comparison α) (gs : List B3)
    (helse : ∃ l ∈ c, l.isElse = true) (hlen : c.length ≤ gs.length) :
    (gamma c gs).isSome = true :=
  Lemmas.Score.gamma_total c gs helse hlen

/-! ## Term-frequency adjustment -/

/-- Both CASE shapes of the divisor compute `max(tf_l, tf_r, minimum_u)`. -/
theorem tf_divisor_eq_max (minU a b : ℝ) (ha : 0 ≤ a) (hb : 0 ≤ b) (hm : 0 ≤ minU) :
    tfDivisor minU a b = max (max a b) minU :=
  Lemmas.Score.tfDivisor_eq_max minU a b ha hb hm

/-- The documented factor `(u_exact / max(tf_l, tf_r, minimum_u)) ^ weight` for a
level that carries a TF adjustment, when both term frequencies are present. -/
theorem tf_adjustment_formula (l : Level ℝ) (t : TF ℝ) (tfl tfr : Nat → Option ℝ) (a b : ℝ)
    (ht : l.tf = some t) (hcv : l.cvv ≠ -1) (hw : t.weight ≠ 0) (he : l.isElse = false)
    (hl : tfl t.col = some a) (hr : tfr t.col = some b)
    (ha : 0 ≤ a) (hb : 0 ≤ b) (hm : 0 ≤ t.minU) :
    levelTfAdj l tfl tfr = Real.rpow (t.uExact / max (max a b) t.minU) t.weight :=
  Lemmas.Score.levelTfAdj_formula l t tfl tfr a b ht hcv hw he hl hr ha hb hm

/-- With one term frequency missing (a registered lookup table without that value)
the other one is used on both sides. -/
theorem tf_adjustment_one_missing (l : Level ℝ) (t : TF ℝ) (tfl tfr : Nat → Option ℝ) (a : ℝ)
    (ht : l.tf = some t) (hcv : l.cvv ≠ -1) (hw : t.weight ≠ 0) (he : l.isElse = false)
    (hl : tfl t.col = some a) (hr : tfr t.col = none) (ha : 0 ≤ a) (hm : 0 ≤ t.minU) :
    levelTfAdj l tfl tfr = Real.rpow (t.uExact / max a t.minU) t.weight :=
  Lemmas.Score.levelTfAdj_one_missing l t tfl tfr a ht hcv hw he hl hr ha hm

/-- No adjustment (factor 1) for the null level, a level without TF settings, a
weight of 0, the `ELSE` level, or when both term frequencies are missing. -/
theorem tf_adjustment_is_one (l : Level ℝ) (tfl tfr : Nat → Option ℝ)
    (h : l.cvv = -1 ∨ l.tf = none ∨ (∃ t, l.tf = some t ∧ t.weight = 0) ∨ l.isElse = true ∨
         (∃ t, l.tf = some t ∧ tfl t.col = none ∧ tfr t.col = none)) :
    levelTfAdj l tfl tfr = 1 :=
  Lemmas.Score.levelTfAdj_one l tfl tfr h

/-! ## The score -/

/-- The retained intermediate columns multiply to the final Bayes factor: with all
terms finite, `bf = prior/(1-prior) · Π termᵢ`. -/
theorem intermediate_columns_multiply (prior : ℝ) (xs : List ℝ) :
    product prior (xs.map fun x => some (Fac.fin x)) =
      some (Fac.fin (prior / (1 - prior) * xs.prod)) :=
  Lemmas.Score.product_fin prior xs

/-- Fellegi–Sunter in additive form: `match_weight = log2(prior odds) + Σ log2 termᵢ`
for positive finite terms (the waterfall chart's bars add up to the weight). -/
theorem score_formula (prior : ℝ) (xs : List ℝ) (hp : 0 < prior) (hp1 : prior < 1)
    (hx : ∀ x ∈ xs, 0 < x) :
    (product prior (xs.map fun x => some (Fac.fin x))).map weightOf =
      some (Fac.fin (Real.logb 2 (prior / (1 - prior)) + (xs.map (Real.logb 2)).sum)) :=
  Lemmas.Score.weight_sum prior xs hp hp1 hx

/-- A level contributes `log2 (m/u)`, and its TF factor contributes
`weight · log2 (u_exact / divisor)`. -/
theorem level_contribution (m u uE d w : ℝ) (hm : 0 < m) (hu : 0 < u) (hE : 0 < uE) (hd : 0 < d) :
    Real.logb 2 (m / u) = Real.logb 2 m - Real.logb 2 u ∧
    Real.logb 2 (Real.rpow (uE / d) w) = w * Real.logb 2 (uE / d) :=
  Lemmas.Score.level_contribution m u uE d w hm hu hE hd

/-- `match_probability = bf/(1+bf) = 2^w/(1+2^w)` lies strictly between 0 and 1 for a
finite positive Bayes factor. -/
theorem prob_is_logistic (ts : List (Option (Fac ℝ))) (bf : ℝ) (hbf : 0 < bf)
    (hfin : ∀ t ∈ ts, ∀ f, t = some f → f.isInf = false) :
    probOf ts (Fac.fin bf) = Real.rpow 2 (Real.logb 2 bf) / (1 + Real.rpow 2 (Real.logb 2 bf)) ∧
    0 < probOf ts (Fac.fin bf) ∧ probOf ts (Fac.fin bf) < 1 :=
  Lemmas.Score.prob_logistic ts bf hbf hfin

/-- An infinite factor (a level with `u = 0`) gives weight `Infinity` and probability 1. -/
theorem infinite_factor (prior : ℝ) (ts : List (Option (Fac ℝ)))
    (hall : ∀ t ∈ ts, t ≠ none) (hinf : some Fac.inf ∈ ts) :
    (∃ bf, product prior ts = some bf ∧ bf.isInf = true ∧ (weightOf bf).isInf = true ∧
      probOf ts bf = 1) :=
  Lemmas.Score.infinite_factor prior ts hall hinf

/-- `levelBF`: null level 1, `u = 0` infinite, otherwise `m/u` — exactly the level's
own parameters, nothing else. -/
theorem level_bf_uses_level_params (l : Level ℝ) :
    levelBF l = if l.isNull then Fac.fin 1 else if l.u = 0 then Fac.inf else Fac.fin (l.m / l.u) :=
  Lemmas.Score.levelBF_eq l

/-! ## Threshold -/

/-- A weight threshold keeps exactly the rows with `match_weight ≥ t` (infinite weights included). -/
theorem threshold_weight_exact (t : ℝ) (s : Scored ℝ) (w : ℝ) (hw : s.weight = some (Fac.fin w)) :
    keep (Threshold.weight t) s = true ↔ t ≤ w :=
  Lemmas.Score.keep_weight t s w hw

/-- A probability threshold `p ∈ (0,1)` keeps exactly the rows whose match
probability `bf/(1+bf)` is at least `p`; `p = 0` keeps every row. -/
theorem threshold_prob_exact (p bf : ℝ) (s : Scored ℝ) (hp : 0 < p) (hp1 : p < 1) (hbf : 0 < bf)
    (hw : s.weight = some (Fac.fin (Real.logb 2 bf))) :
    keep (Threshold.prob p) s = true ↔ p ≤ bf / (1 + bf) :=
  Lemmas.Score.keep_prob p bf s hp hp1 hbf hw

theorem threshold_zero_keeps_all (s : Scored ℝ) : keep (Threshold.prob (0 : ℝ)) s = true :=
  Lemmas.Score.keep_prob_zero s

/-! ## The threshold arguments of `predict` (translated source) -/

/-- **A threshold that is given is applied** — about the *translated* `threshold_args_to_match_weight`
(`Generated/Arith.lean`, regenerated from `splink/internals/misc.py` on every run), for every number type and
every value: a match weight is passed through unchanged (boundary values such as `0` included — it is never
dropped), a probability `p` becomes `log2 (p / (1 - p))` except for the documented `p = 0` (= keep everything),
no argument means no threshold, both arguments raise. -/
theorem threshold_args_weight_applied {β : Type} [ANum β] (p w : β) :
    Gen.threshold_args_to_match_weight none (some w) = some (some w) ∧
    Gen.threshold_args_to_match_weight (some p) none =
      (if ANum.eq p (ANum.ofNat 0) then some none
       else some (some (ANum.log2 (if !(ANum.eq p (ANum.ofNat 1)) then ANum.div p (ANum.sub (ANum.ofNat 1) p) else ANum.inf)))) ∧
    Gen.threshold_args_to_match_weight (none : Option β) none = some none ∧
    Gen.threshold_args_to_match_weight (some p) (some w) = none := by
  refine ⟨rfl, ?_, rfl, rfl⟩
  simp only [Gen.threshold_args_to_match_weight, Gen.prob_to_match_weight, Gen.prob_to_bayes_factor,
    Option.isSome_some, Option.isSome_none, Bool.and_false, Bool.false_eq_true, if_false, Option.getD_some]

/-! ## The probability/odds/weight helpers (translated source) are the model's arithmetic -/

/-- The prior factor that `predict` inlines into its SQL is computed by the Python helper `prob_to_bayes_factor`
(translated source, regenerated every run); for every prior other than 1 it is the model's `priorOdds`. -/
theorem prior_factor_translated (p : ℝ) (hp : p ≠ 1) :
    Gen.prob_to_bayes_factor p = some (Score.priorOdds p) :=
  Lemmas.ArithBridge.prior_factor_translated p hp

/-- … and the match weight the helpers report for a probability is `log2` of those odds. -/
theorem prob_to_match_weight_translated (p : ℝ) (hp : p ≠ 1) :
    Gen.prob_to_match_weight p = some (Real.logb 2 (p / (1 - p))) :=
  Lemmas.ArithBridge.prob_to_match_weight_translated p hp

/-- weight -> probability used by the threshold helpers (`bayes_factor_to_prob (match_weight_to_bayes_factor w)`,
translated source): `2^w / (1 + 2^w)`. -/
theorem weight_to_prob_translated (w : ℝ) :
    (Gen.match_weight_to_bayes_factor w).bind Gen.bayes_factor_to_prob = some ((2:ℝ)^w / (1 + (2:ℝ)^w)) :=
  Lemmas.ArithBridge.weight_to_prob_translated w

/-- That map is strictly increasing in `w`: a match-weight threshold is equivalent to its probability. -/
theorem weight_to_prob_strictMono : StrictMono fun w : ℝ => (2:ℝ)^w / (1 + (2:ℝ)^w) :=
  Lemmas.ArithBridge.weight_to_prob_strictMono

/-- … and its values lie strictly between 0 and 1. -/
theorem weight_to_prob_bounds (w : ℝ) :
    0 < (2:ℝ)^w / (1 + (2:ℝ)^w) ∧ (2:ℝ)^w / (1 + (2:ℝ)^w) < 1 :=
  Lemmas.ArithBridge.weight_to_prob_pos_lt_one w

/-- Non-vacuity (logic part, evaluated): null level, exact level, else level; a
NULL condition on the exact level falls through to ELSE. -/
example :
    gamma (α := Nat)
      [ { isNull := true, isElse := false, cvv := -1, m := 0, u := 0, tf := none },
        { isNull := false, isElse := false, cvv := 1, m := 9, u := 1, tf := none },
        { isNull := false, isElse := true, cvv := 0, m := 1, u := 9, tf := none } ]
      [some false, none, some true] = some 0 := by decide

end SplinkVerif.C02
