import SplinkVerif.Lemmas.MultiThreshold
import SplinkVerif.Generated.Arith
/-!
# C11 — multi-threshold clustering equals clustering at each threshold

Property theorems about `Model/MultiThreshold.lean` (the model of
`cluster_pairwise_predictions_at_multiple_thresholds`).  `ge` is the comparison
`match_probability >= threshold`; the theorems need it to be transitive and
total only (true of `>=` on non-NaN doubles, on rationals, on integers).
All statements hold for every `n`, every edge list whose endpoints are nodes and
every threshold list, in any order, with repetitions.
-/
namespace SplinkVerif.C11
open SplinkVerif SplinkVerif.MultiThreshold

variable {α : Type}

/-- Clustering independently at one threshold: all nodes in play. -/
def single (ge : α → α → Bool) (n : Nat) (edges : List (PEdge α)) (t : α) : Clustering :=
  ccAt ge n (fun _ => true) edges t

/-- Every requested threshold gets exactly one output clustering (the list of
output thresholds is a permutation of the requested list, in ascending order). -/
theorem thresholds_covered (ge : α → α → Bool) (one : α) (n : Nat) (edges : List (PEdge α))
    (ts : List α) :
    ((multi ge one n edges ts).map (·.1)).Perm ts :=
  Lemmas.MT.multi_thresholds_perm ge one n edges ts

/-- Main theorem: the clustering reported for threshold `t` has exactly the rows
of clustering independently at `t` (same node → cluster id assignment; only the
row order of the table may differ). -/
theorem multi_eq_single (ge : α → α → Bool) (one : α) (n : Nat) (edges : List (PEdge α))
    (ts : List α)
    (htrans : ∀ a b c, ge a b = true → ge b c = true → ge a c = true)
    (htotal : ∀ a b, ge a b = true ∨ ge b a = true)
    (hE : ∀ e ∈ edges, e.1 < n ∧ e.2.1 < n) :
    ∀ t cc, (t, cc) ∈ multi ge one n edges ts → cc.Perm (single ge n edges t) :=
  Lemmas.MT.multi_perm_single ge one n edges ts htrans htotal hE

/-- Stable-cluster lemma: a cluster at the previous threshold all of whose
incident kept edges also pass the new (higher) threshold is reported unchanged,
and it is a cluster at the new threshold: its rows are rows of the independent
clustering at the new threshold. -/
theorem stable_cluster_rows (ge : α → α → Bool) (one : α) (n : Nat) (edges : List (PEdge α))
    (tPrev tNew : α)
    (htrans : ∀ a b c, ge a b = true → ge b c = true → ge a c = true)
    (hle : ge tNew tPrev = true)
    (hE : ∀ e ∈ edges, e.1 < n ∧ e.2.1 < n) :
    ∀ r ∈ stableNodes ge one n edges (single ge n edges tPrev) tPrev tNew,
      r ∈ single ge n edges tNew :=
  Lemmas.MT.stable_rows_in_single ge one n edges tPrev tNew htrans hle hE

/-- The summary statistics (number of clusters, maximum size, total size — the
mean is total/number) depend only on the rows, so the statistics reported for a
threshold are those of the independent clustering at that threshold. -/
theorem summary_stats (ge : α → α → Bool) (one : α) (n : Nat) (edges : List (PEdge α))
    (ts : List α)
    (htrans : ∀ a b c, ge a b = true → ge b c = true → ge a c = true)
    (htotal : ∀ a b, ge a b = true ∨ ge b a = true)
    (hE : ∀ e ∈ edges, e.1 < n ∧ e.2.1 < n) :
    ∀ t cc, (t, cc) ∈ multi ge one n edges ts → stats cc = stats (single ge n edges t) :=
  Lemmas.MT.multi_stats_single ge one n edges ts htrans htotal hE

/-- The statistics are what they say: total size is the number of records. -/
theorem stats_total (cc : Clustering) : (stats cc).totalSize = cc.length :=
  Lemmas.MT.stats_total cc

/-- **Every threshold given is used** — about the *translated* `threshold_args_to_match_prob_list`
(`Generated/Arith.lean`, regenerated from `splink/internals/misc.py` on every run): a list of probabilities is
only sorted, a list of match weights becomes the sorted list of `2^w/(1+2^w)` — same length, nothing dropped
(boundary weights such as `0` included) — and giving both lists raises. -/
theorem threshold_list_args_applied {β : Type} [ANum β] (ps ws : List β) :
    Gen.threshold_args_to_match_prob_list (some ps) none = some (some (ANum.sorted ps)) ∧
    Gen.threshold_args_to_match_prob_list none (some ws) =
      some (some (ANum.sorted (ws.map fun w => ANum.div (ANum.pow2 w) (ANum.add (ANum.ofNat 1) (ANum.pow2 w))))) ∧
    Gen.threshold_args_to_match_prob_list (some ps) (some ws) = none :=
  ⟨rfl, rfl, rfl⟩

/-- `sorted` keeps every element: the sorted threshold list is a permutation of the given one. -/
theorem sorted_perm {β : Type} [ANum β] (xs : List β) : (ANum.sorted xs).Perm xs := by
  have hins : ∀ (x : β) (l : List β), (ANum.insert x l).Perm (x :: l) := by
    intro x l
    induction l with
    | nil => exact List.Perm.refl _
    | cons y ys ih =>
      unfold ANum.insert
      split
      · exact List.Perm.refl _
      · exact ((List.Perm.cons y ih).trans (List.Perm.swap x y ys))
  induction xs with
  | nil => exact List.Perm.refl _
  | cons x xs ih =>
    show (ANum.insert x (ANum.sorted xs)).Perm (x :: xs)
    exact (hins x _).trans (List.Perm.cons x ih)

/-- Non-vacuity (integers as probabilities, `ge := (· ≥ ·)`): path 0–1–2–3 with
strengths 9, 5, 9 at thresholds [7, 3, 10] (unsorted): one cluster at 3, two at
7, singletons at 10. -/
example :
    multi (fun (a b : Nat) => decide (a ≥ b)) 100 4 [(0, 1, 9), (2, 1, 5), (3, 2, 9)] [7, 3, 10] =
      [(3, [(0, 0), (1, 0), (2, 0), (3, 0)]),
       (7, [(0, 0), (1, 0), (2, 2), (3, 2)]),
       (10, [(0, 0), (1, 1), (2, 2), (3, 3)])] := by decide

end SplinkVerif.C11
