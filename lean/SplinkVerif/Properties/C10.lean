import SplinkVerif.Lemmas.Entry
/-!
# C10 — all inference entry points agree on a pair's score

Property theorems about `Model/Entry.lean`: the five entry points
(`predict`, `compare_two_records`, `realtime.compare_records`,
`find_matches_to_new_records`, `_score_missing_cluster_edges`) all end in the one
scoring function `Score.score` of C02; they differ in where the term-frequency
columns of the pair come from and in which pairs they score.  The theorems hold
for every number type (`Num α`) unless stated over `ℝ`, every model, every
record, every TF table, every rule list of any length and kind.
-/
namespace SplinkVerif.C10
open SplinkVerif SplinkVerif.Score SplinkVerif.Blocking SplinkVerif.Entry

/-- The record carries no `tf_*` field of its own: `∀ c, r.supplied c = none`. -/
abbrev Plain := @Lemmas.Entry.Plain
/-- Every non-NULL TF-column value of the record occurs in the linker's input data:
`∀ c v, r.val c = some v → L.inData c v = true`. -/
abbrev Seen := @Lemmas.Entry.Seen
/-- A TF source is cached for every column: `∀ c, L.tableCached c = true ∨ L.concatCached = true`
(`compute_tf_table` / `register_term_frequency_lookup` / any earlier `predict`). -/
abbrev HasSource := @Lemmas.Entry.HasSource
abbrev holds := @Lemmas.Blk.holds
abbrev SaltOK := @Lemmas.Blk.SaltOK
abbrev SelfJoin := @Lemmas.Blk.SelfJoin

/-! ## Term-frequency lookup paths -/

/-- For a value that occurs in the data, the ad-hoc lookup of `compare_two_records`
(`honour = true`) and of `find_matches_to_new_records` (`honour = false`) — whichever of the
cached TF table / cached concat table it goes through — returns the value `predict` joins
onto the record. -/
theorem tf_lookup_agrees {α : Type} (honour : Bool) (L : Linker α) (r : Rec α) (c : Nat)
    (hs : r.supplied c = none) (hsrc : L.tableCached c = true ∨ L.concatCached = true)
    (hin : ∀ v, r.val c = some v → L.inData c v = true) :
    newRecordTf honour L r c = joinedTf L r c :=
  Lemmas.Entry.newRecordTf_seen honour L r c hs hsrc hin

/-- A `tf_<col>` field supplied in the record wins in `compare_two_records` (even NULL),
and that is the value `realtime.compare_records` uses. -/
theorem tf_lookup_supplied_wins {α : Type} (L : Linker α) (r : Rec α) (c : Nat) (x : Option α)
    (hs : r.supplied c = some x) : newRecordTf true L r c = x ∧ ownTf r c = x :=
  ⟨Lemmas.Entry.newRecordTf_supplied L r c x hs, by simp [ownTf, hs]⟩

/-- An unseen value (no row in the TF table) gets NULL by every path (⇒ factor 1, C02
`tf_adjustment_is_one` / `tf_adjustment_one_missing`). -/
theorem tf_lookup_unseen_is_null {α : Type} (honour : Bool) (L : Linker α) (r : Rec α) (c v : Nat)
    (hs : r.supplied c = none) (hv : r.val c = some v) (hno : L.tf c v = none) :
    newRecordTf honour L r c = none ∧ joinedTf L r c = none :=
  ⟨Lemmas.Entry.newRecordTf_unseen honour L r c v hs hv hno, by simp [joinedTf, hv, hno]⟩

/-- Nothing cached (no `predict`, no TF table): NULL with a warning. -/
theorem tf_lookup_no_source_is_null {α : Type} (honour : Bool) (L : Linker α) (r : Rec α) (c : Nat)
    (hs : r.supplied c = none) (ht : L.tableCached c = false) (hc : L.concatCached = false) :
    newRecordTf honour L r c = none :=
  Lemmas.Entry.newRecordTf_no_source honour L r c hs ht hc

/-! ## Agreement of the scores -/

/-- `compare_two_records` and the scoring inside `find_matches_to_new_records` return the whole
scored row of `predict` (gammas, every `bf_*`/`bf_tf_adj_*` term, Bayes factor, match weight,
match probability) for two plain records whose values occur in the data, whenever some TF source
is cached. -/
theorem entrypoints_agree {α : Type} [Num α] (L : Linker α) (W : World α) (l r : Nat)
    (hsrc : HasSource L) (hl : Plain (W.recs l)) (hr : Plain (W.recs r))
    (sl : Seen L (W.recs l)) (sr : Seen L (W.recs r)) :
    compareTwoRecords L W l r = predictPair L W l r ∧ fmScore L W l r = predictPair L W l r :=
  ⟨Lemmas.Entry.compareTwoRecords_eq_predictPair L W l r hsrc hl hr sl sr,
   Lemmas.Entry.fmScore_eq_predictPair L W l r hsrc hr sr⟩

/-- …and so do the gamma and weight columns (the property's wording). -/
theorem entrypoints_agree_columns {α : Type} [Num α] (L : Linker α) (W : World α) (l r : Nat)
    (hsrc : HasSource L) (hl : Plain (W.recs l)) (hr : Plain (W.recs r))
    (sl : Seen L (W.recs l)) (sr : Seen L (W.recs r)) :
    (compareTwoRecords L W l r).gammas = (predictPair L W l r).gammas ∧
    (compareTwoRecords L W l r).weight = (predictPair L W l r).weight ∧
    (fmScore L W l r).gammas = (predictPair L W l r).gammas ∧
    (fmScore L W l r).weight = (predictPair L W l r).weight := by
  have h := entrypoints_agree L W l r hsrc hl hr sl sr
  rw [h.1, h.2]; exact ⟨rfl, rfl, rfl, rfl⟩

/-- `realtime.compare_records` on copies `l'`, `r'` of two records (same outcomes of the level
conditions) that carry, as their own `tf_*` fields, the values `predict` joins onto `l` and `r`,
returns the scored row of `predict`. -/
theorem realtime_agrees {α : Type} [Num α] (L : Linker α) (W : World α) (l r l' r' : Nat)
    (hg : W.guards l' r' = W.guards l r)
    (hl : ∀ c, (W.recs l').supplied c = some (joinedTf L (W.recs l) c))
    (hr : ∀ c, (W.recs r').supplied c = some (joinedTf L (W.recs r) c)) :
    realtimeCompare L W l' r' = predictPair L W l r :=
  Lemmas.Entry.realtimeCompare_eq_predictPair L W l r l' r' hg hl hr

/-- With every TF field supplied in both records `compare_two_records` (whatever the linker
has cached) is `realtime.compare_records`. -/
theorem compare_two_records_supplied_eq_realtime {α : Type} [Num α] (L : Linker α) (W : World α)
    (l r : Nat) (hl : ∀ c, ((W.recs l).supplied c).isSome = true)
    (hr : ∀ c, ((W.recs r).supplied c).isSome = true) :
    compareTwoRecords L W l r = realtimeCompare L W l r :=
  Lemmas.Entry.compareTwoRecords_supplied L W l r hl hr

/-- Every row of `_score_missing_cluster_edges` carries the scored row of `predict` for its pair. -/
theorem missing_edges_scores_are_predict {α : Type} [Num α] (L : Linker α) (W : World α)
    (lt : LinkType) (t : Table) (cluster : Nat → Nat) (supplied : List (Nat × Nat))
    (row : Row) (s : Scored α) (h : (row, s) ∈ missingEdges L W lt t cluster supplied) :
    s = predictPair L W row.2.1 row.2.2 :=
  ((Lemmas.Entry.mem_missingEdges L W lt t cluster supplied row s).mp h).2

/-! ## `find_matches_to_new_records` returns exactly the admitted records above the threshold -/

/-- A row `(match_key i, existing e, new n)` is returned iff `e` is an existing and `n` a new
record, rule `i` is the first rule that is TRUE on `(e, n)` (FALSE and NULL do not admit), and the
score passes the strict filter; the row carries that score. -/
theorem find_matches_exact {α : Type} [Num α] (L : Linker α) (W : World α) (nE nN : Nat)
    (part : Nat → Nat → Nat) (rules : List Rule) (thr : α) (hne : rules ≠ [])
    (hsalt : SaltOK (fmTable nE nN part) rules) (i e n : Nat) (s : Scored α) :
    ((i, e, n), s) ∈ findMatches L W nE nN part rules thr ↔
      e < nE ∧ nE ≤ n ∧ n < nE + nN ∧
      holds rules i e n ∧ (∀ j, j < i → ¬ holds rules j e n) ∧
      s = fmScore L W e n ∧ keepStrict thr (fmScore L W e n) = true :=
  Lemmas.Entry.mem_findMatches L W nE nN part rules thr hne hsalt i e n s

/-- No `(existing, new)` pair is returned twice (by one rule or by two). -/
theorem find_matches_each_once {α : Type} [Num α] (L : Linker α) (W : World α) (nE nN : Nat)
    (part : Nat → Nat → Nat) (rules : List Rule) (thr : α) :
    ((findMatches L W nE nN part rules thr).map fun x => (x.1.2.1, x.1.2.2)).Nodup :=
  Lemmas.Entry.findMatches_nodup L W nE nN part rules thr

/-- Over the reals the filter is `threshold < match_weight`: infinite weights pass, NULL does not. -/
theorem find_matches_threshold_real (thr : ℝ) (s : Scored ℝ) :
    keepStrict thr s = true ↔
      (∃ w, s.weight = some (.fin w) ∧ thr < w) ∨ s.weight = some .inf :=
  Lemmas.Entry.keepStrict_real thr s

/-- The threshold is strict: a pair whose weight equals the threshold is NOT returned
(unlike `predict(threshold_match_weight=…)`, which keeps `≥` — C02 `threshold_weight_exact`). -/
theorem find_matches_threshold_strict (L : Linker ℝ) (W : World ℝ) (nE nN : Nat)
    (part : Nat → Nat → Nat) (rules : List Rule) (thr : ℝ) (i e n : Nat) (s : Scored ℝ)
    (hw : (fmScore L W e n).weight = some (.fin thr)) :
    ((i, e, n), s) ∉ findMatches L W nE nN part rules thr := by
  intro h
  obtain ⟨_, hs, hk⟩ := Lemmas.Entry.findMatches_keep L W nE nN part rules thr _ s h
  subst hs
  rcases (Lemmas.Entry.keepStrict_real thr _).mp hk with ⟨w, h1, h2⟩ | h1
  · simp only [hw, Option.some.injEq, Fac.fin.injEq] at h1; subst h1; exact lt_irrefl _ h2
  · simp [hw] at h1

/-! ## `_score_missing_cluster_edges` returns exactly the within-cluster pairs not supplied -/

/-- A pair is returned iff it is admissible under the link type, lies within one cluster, and the
supplied predictions contain it in NEITHER orientation: exactly the within-cluster unordered pairs
absent from the supplied predictions. -/
theorem missing_edges_exact (lt : LinkType) (t : Table) (cluster : Nat → Nat)
    (supplied : List (Nat × Nat)) (hlt : SelfJoin lt) (i l r : Nat) :
    (i, l, r) ∈ missingPairs lt t cluster supplied ↔
      i = 0 ∧ l < t.m ∧ r < t.m ∧ whereCond lt t l r = true ∧ cluster l = cluster r ∧
      (t.key l, t.key r) ∉ supplied ∧ (t.key r, t.key l) ∉ supplied :=
  Lemmas.Entry.mem_missingPairs lt t cluster supplied hlt i l r

/-- The orientation in which a supplied pair is written is irrelevant: reversing any supplied rows
does not change the result. -/
theorem missing_edges_unordered (lt : LinkType) (t : Table) (cluster : Nat → Nat)
    (supplied supplied' : List (Nat × Nat)) (hlt : SelfJoin lt)
    (hsame : ∀ a b, ((a, b) ∈ supplied ∨ (b, a) ∈ supplied) ↔ ((a, b) ∈ supplied' ∨ (b, a) ∈ supplied'))
    (i l r : Nat) :
    (i, l, r) ∈ missingPairs lt t cluster supplied ↔ (i, l, r) ∈ missingPairs lt t cluster supplied' := by
  rw [missing_edges_exact lt t cluster supplied hlt, missing_edges_exact lt t cluster supplied' hlt]
  have h := hsame (t.key l) (t.key r)
  constructor
  · rintro ⟨hi, hl, hr, hw, hc, h1, h2⟩
    refine ⟨hi, hl, hr, hw, hc, ?_, ?_⟩
    · intro hm; exact (h.mpr (Or.inl hm)).elim h1 h2
    · intro hm; exact (h.mpr (Or.inr hm)).elim h1 h2
  · rintro ⟨hi, hl, hr, hw, hc, h1, h2⟩
    refine ⟨hi, hl, hr, hw, hc, ?_, ?_⟩
    · intro hm; exact (h.mp (Or.inl hm)).elim h1 h2
    · intro hm; exact (h.mp (Or.inr hm)).elim h1 h2

/-- No pair is returned twice — also when the supplied predictions contain duplicates. -/
theorem missing_edges_each_once (lt : LinkType) (t : Table) (cluster : Nat → Nat)
    (supplied : List (Nat × Nat)) :
    ((missingPairs lt t cluster supplied).map fun row => (row.2.1, row.2.2)).Nodup :=
  Lemmas.Entry.missingPairs_nodup lt t cluster supplied

/-! ## Non-vacuity -/

/-- Toy exact number type for the evaluated examples (`log2 := id`: weight = Bayes factor). -/
local instance toyNum : Num Int where
  zero := 0
  one := 1
  ofNat := fun n => (n : Int)
  add := (· + ·)
  sub := (· - ·)
  mul := (· * ·)
  div := (· / ·)
  pow := fun a b => a ^ b.toNat
  log2 := id
  ge := fun a b => decide (a ≥ b)
  gt := fun a b => decide (a > b)
  isZero := fun a => decide (a = 0)

/-- Two existing records (0, 1) and two new ones (2, 3); one exact-match comparison with
`m/u = 4` against `1`; prior odds `2 / (1 - 2) = -2`; values: rec 0 = rec 2, others differ.
Rules `[r0 : l = 0, r1 : TRUE]`.  Weights: (0,2) ↦ −8, all others ↦ −2.  With threshold −8 the
pair (0,2) — whose weight equals the threshold — is dropped, the other three are kept, each
attributed to its first TRUE rule. -/
example :
    (findMatches (α := Int)
      { prior := 2,
        comparisons := [[{ isNull := false, isElse := false, cvv := 1, m := 4, u := 1, tf := none },
                         { isNull := false, isElse := true, cvv := 0, m := 1, u := 1, tf := none }]],
        tf := fun _ _ => none, inData := fun _ _ => false, tableCached := fun _ => false,
        concatCached := true }
      { recs := fun _ => { val := fun _ => none, supplied := fun _ => none },
        guards := fun l r => [[some (l == 0 && r == 2), some true]] }
      2 2 (fun _ _ => 0)
      [ { kind := .plain, eval := fun l _ => some (l == 0) }, { kind := .plain, eval := fun _ _ => some true } ]
      (-8)).map (·.1)
    = [(0, 0, 3), (1, 1, 2), (1, 1, 3)] := by decide

/-- Four clustered records, keys 0<1<2<3, clusters {0,1,2} and {3}; the prediction (0,1) is
supplied twice and (1,2) is supplied *reversed* as (2,1): (0,1) is excluded once, (0,2) is
missing, and the reversed row excludes (1,2) too — the anti-join is on the unordered pair
(`missing_edges_unordered`). -/
example :
    missingPairs .dedupeOnly { m := 4, key := id, sd := fun _ => 0, part := fun _ _ => 0 }
      (fun i => if i < 3 then 0 else 1) [(0, 1), (0, 1), (2, 1)]
    = [(0, 0, 2)] := by decide

end SplinkVerif.C10
