import SplinkVerif.Lemmas.GMSql
/-!
# C19 at the level of the emitted SQL

`Generated/GMSql.lean` holds the statements `compute_graph_metrics` emits **now** for a dedupe_only linker (T-sql
translator, regenerated on every run); `Model/GMSql.lean` is the Python control flow around them (the node relabelling
`row_number() OVER (ORDER BY 1) - 1` and igraph's bridge finder are parameters).  The theorems below say that these
pipelines, evaluated with the SQL semantics `Rel.eval` (exact rational arithmetic), return exactly the rows of the
functional model `Model/GraphMetrics.lean` — hence the C19 theorems (degree = number of incident kept edges, bridge
flag = "removing the edge disconnects its endpoints", …) are theorems about the regenerated SQL.  A change to any of
the SQL templates changes `Generated/GMSql.lean` and these proofs stop checking.

Everything holds for EVERY number of records `n`, EVERY labelling `cid : Nat → Nat` (no consistency with the edges, no
range condition), EVERY edge list (duplicated rows, both orientations, self loops, edges across clusters) and EVERY
threshold; the node and cluster statements need no hypothesis at all, the edge statements need what the code itself
relies on: the integer mapping lists every endpoint exactly once.

Property theorems only; proofs are in `Lemmas/Rel.lean` (generic facts about `Rel.eval`) and `Lemmas/GMSql.lean`.
-/
namespace SplinkVerif.C19Sql
open SplinkVerif SplinkVerif.Rel SplinkVerif.GraphMetrics

/-! ## Encodings of the input and result tables -/

/-- `df_predict` of a dedupe linker: `(unique_id_l, unique_id_r, match_probability)`; ids are ranks, probabilities
integer order keys. -/
def predictRows (edges : List (Nat × Nat × Int)) : List Row :=
  edges.map fun e => [Val.int e.1, Val.int e.2.1, Val.int e.2.2]

/-- `df_clustered`: `(cluster_id, unique_id, v)`, one row per record `0..n-1`. -/
def clusteredRows (n : Nat) (cid : Nat → Nat) : List Row :=
  (List.range n).map fun i => [Val.int (cid i), Val.int i, Val.str "x"]

/-- The edges the functional model keeps: `match_probability >= threshold` on integer order keys. -/
def kept (thr : Int) (edges : List (Nat × Nat × Int)) : List Edge :=
  GraphMetrics.truncatedEdges (fun (a b : Int) => decide (a ≥ b)) thr edges

/-- The rational number a `Frac` (an unreduced numerator/denominator pair, denominator `> 0`) stands for. -/
def fracVal (f : Frac) : Rat := (f.num : Rat) / (f.den : Rat)

/-- `Frac` ↦ the exact SQL number. -/
def encFrac (f : Frac) : Val := Val.rat (fracVal f)

/-- `none` ↦ NULL. -/
def encOptFrac : Option Frac → Val
  | none => Val.null
  | some f => encFrac f

/-- A row of `__splink__graph_metrics_nodes`: `(composite_unique_id, cluster_id, node_degree, node_centrality)`. -/
def encNode (r : NodeRow) : Row := [Val.int r.node, Val.int r.cluster, Val.int r.degree, encFrac r.centrality]

/-- A row of `__splink__graph_metrics_clusters`: `(cluster_id, n_nodes, n_edges, density, cluster_centralisation)`. -/
def encCluster (r : ClusterRow) : Row :=
  [Val.int r.cluster, Val.int r.nNodes, encFrac r.nEdges, encOptFrac r.density, encOptFrac r.centralisation]

/-- A row of `__splink__graph_metrics_edges`: `(composite_unique_id_l, composite_unique_id_r, is_bridge)`. -/
def encEdge (r : Nat × Nat × Bool) : Row := [Val.int r.1, Val.int r.2.1, Val.bool r.2.2]

/-- A row of a two-column table of naturals (`__splink__all_nodes`, `__splink__edges_with_mapped_ids`, `bridges_in`). -/
def pairRow (p : Nat × Nat) : Row := [Val.int p.1, Val.int p.2]

/-- A natural number read back from a SQL value (`0` for anything that is not an integer). -/
def valNat : Val → Nat
  | .int i => i.toNat
  | _ => 0

/-- `as_pandas_dataframe()` of `__splink__edges_with_mapped_ids`: what igraph is given. -/
def decodePairs (rows : List Row) : List (Nat × Nat) :=
  rows.map fun r => (valNat (r.getD 0 .null), valNat (r.getD 1 .null))

/-- The engine's row order of the nodes table (the order `row_number()` numbers the records in). -/
def orderVals (order : List Nat) : List Val := order.map fun (i : Nat) => Val.int (i : Int)

/-- The prediction rows that pass the threshold (`kept thr edges` is their `(l, r)` projection). -/
def keptRows (thr : Int) (edges : List (Nat × Nat × Int)) : List (Nat × Nat × Int) :=
  edges.filter fun e => decide (e.2.2 ≥ thr)

/-- An id that may be NULL (an endpoint the mapping does not know). -/
def encOptNat : Option Nat → Val
  | none => Val.null
  | some k => Val.int (k : Int)

/-- A row of `__splink__edges_with_mapped_ids` as the model has it. -/
def optPairRow (p : Option Nat × Option Nat) : Row := [encOptNat p.1, encOptNat p.2]

/-- A row of `__splink__bridges_only`: `(node_l, node_r, TRUE)`. -/
def brRow (q : Option Nat × Option Nat) : Row := [encOptNat q.1, encOptNat q.2, Val.bool true]

/-! ## The running example -/

/-- Triangle 0-1-2 with a pendant 2-3, an edge 4-5, the isolated record 6 and an edge 5-6 below the threshold `5`. -/
def exEdges : List (Nat × Nat × Int) := [(0, 1, 9), (1, 2, 9), (0, 2, 9), (2, 3, 9), (4, 5, 9), (5, 6, 1)]

/-- Clusters `{0,1,2,3}`, `{4,5}`, `{6}`, labelled by their smallest member. -/
def exCid : Nat → Nat := fun i => if i < 4 then 0 else if i < 6 then 4 else 6

/-- A malformed input: a duplicated row, a reversed duplicate, a self loop. -/
def badEdges : List (Nat × Nat × Int) := [(0, 1, 9), (0, 1, 9), (1, 0, 9), (3, 3, 9), (1, 3, 9)]

/-- A labelling that splits the component `{0,1,3}` and merges across components. -/
def badCid : Nat → Nat := fun i => i % 2

/-! ## Part 1: the node table -/

/-- **Refinement, node table.**  For every `n`, `cid`, edge list and threshold the SQL pipeline of
`_compute_metrics_nodes` returns a permutation of the encoded `nodesTable` of the kept edges. -/
theorem sql_nodes_perm_model (n : Nat) (cid : Nat → Nat) (edges : List (Nat × Nat × Int)) (thr : Int) :
    (GMSql.nodes (predictRows edges) (clusteredRows n cid) (Val.int thr)).Perm
      ((nodesTable n cid (kept thr edges)).map encNode) :=
  List.Perm.of_eq (Lemmas.GMSql.nodes_eq_model n cid edges thr)

/-- … in fact the same list, row order included (`Rel.eval` is deterministic and the model lists the records in the
order of `df_clustered`). -/
theorem sql_nodes_eq_model (n : Nat) (cid : Nat → Nat) (edges : List (Nat × Nat × Int)) (thr : Int) :
    GMSql.nodes (predictRows edges) (clusteredRows n cid) (Val.int thr)
      = (nodesTable n cid (kept thr edges)).map encNode :=
  Lemmas.GMSql.nodes_eq_model n cid edges thr

/-- Non-vacuity: the SQL node pipeline on the example — degrees 2,2,3,1,1,1,0, centralities 2/3, 2/3, 3/3, 1/3, 1, 1, 0 —
which is the encoded model table (both sides of `sql_nodes_eq_model` evaluated). -/
example :
    GMSql.nodes (predictRows exEdges) (clusteredRows 7 exCid) (Val.int 5) =
      [[Val.int 0, Val.int 0, Val.int 2, Val.rat (2 / 3)], [Val.int 1, Val.int 0, Val.int 2, Val.rat (2 / 3)],
       [Val.int 2, Val.int 0, Val.int 3, Val.rat 1], [Val.int 3, Val.int 0, Val.int 1, Val.rat (1 / 3)],
       [Val.int 4, Val.int 4, Val.int 1, Val.rat 1], [Val.int 5, Val.int 4, Val.int 1, Val.rat 1],
       [Val.int 6, Val.int 6, Val.int 0, Val.rat 0]] ∧
    GMSql.nodes (predictRows exEdges) (clusteredRows 7 exCid) (Val.int 5) =
      (nodesTable 7 exCid (kept 5 exEdges)).map encNode := by decide +kernel

/-- No well-formedness of the input is needed: on the malformed input (duplicated rows, a self loop, a labelling at
odds with the components) SQL and model agree — the self loop counts twice (the degree of 3 is 3: two from the loop, one
from the edge 1-3), duplicates count as often as they occur, and `node_centrality` exceeds 1. -/
example :
    GMSql.nodes (predictRows badEdges) (clusteredRows 4 badCid) (Val.int 5) =
      [[Val.int 0, Val.int 0, Val.int 3, Val.rat 3], [Val.int 1, Val.int 1, Val.int 4, Val.rat 4],
       [Val.int 2, Val.int 0, Val.int 0, Val.rat 0], [Val.int 3, Val.int 1, Val.int 3, Val.rat 3]] ∧
    GMSql.nodes (predictRows badEdges) (clusteredRows 4 badCid) (Val.int 5) =
      (nodesTable 4 badCid (kept 5 badEdges)).map encNode := by decide +kernel

/-- Row order of the two registered input tables does not matter (up to the order of the result). -/
theorem sql_nodes_input_order_irrelevant (n : Nat) (cid : Nat → Nat) (edges : List (Nat × Nat × Int)) (thr : Int)
    (predict clustered : List Row) (hP : predict.Perm (predictRows edges))
    (hC : clustered.Perm (clusteredRows n cid)) :
    (GMSql.nodes predict clustered (Val.int thr)).Perm ((nodesTable n cid (kept thr edges)).map encNode) :=
  Lemmas.GMSql.nodes_perm_model_any_order n cid edges thr predict clustered hP hC

/-- The model's kept edges are the `(l, r)` projection of the prediction rows that pass the threshold. -/
theorem kept_eq (thr : Int) (edges : List (Nat × Nat × Int)) :
    kept thr edges = (keptRows thr edges).map fun e => (e.1, e.2.1) :=
  Lemmas.GMSql.kept_eq thr edges

/-- Statement 1, `__splink__truncated_edges` ↔ the model's filter (`keptRows` = the prediction rows with
`match_probability >= thr`; `kept thr edges` is their `(l, r)` projection, `kept_eq`). -/
theorem sql_truncatedEdges (db : Db) (edges : List (Nat × Nat × Int)) (thr : Int)
    (hP : db "predict_in" = predictRows edges) :
    (Gen.GMSql.truncatedEdges (Val.int thr)).eval db = predictRows (keptRows thr edges) :=
  Lemmas.GMSql.truncatedEdges_eval db edges thr hP

/-- Statement 2, `__splink__all_nodes` (`UNION ALL` of both orientations) ↔ `GraphMetrics.allNodes`. -/
theorem sql_allNodes (db : Db) (ke : List (Nat × Nat × Int))
    (hT : db "__splink__truncated_edges" = predictRows ke) :
    Gen.GMSql.allNodes.eval db = (GraphMetrics.allNodes (ke.map fun e => (e.1, e.2.1))).map pairRow :=
  Lemmas.GMSql.allNodes_eval db ke hT

/-- Statement 3, `__splink__graph_metrics_node_degree` (LEFT JOIN, GROUP BY two keys,
`COUNT(*) FILTER (WHERE n.neighbour IS NOT NULL)`, `COUNT(*) OVER (PARTITION BY cluster_id)` after the grouping) ↔
`nodeDegreeTable`: with `an = allNodes es` the third column is `nodeDegree es i` by definition. -/
theorem sql_nodeDegree (db : Db) (n : Nat) (cid : Nat → Nat) (an : List (Nat × Nat))
    (hC : db "clustered_in" = clusteredRows n cid) (hA : db "__splink__all_nodes" = an.map pairRow) :
    Gen.GMSql.graphMetricsNodeDegree.eval db = (List.range n).map fun (i : Nat) =>
      [Val.int (i : Int), Val.int (cid i), Val.int ((an.filter fun r => r.1 == i).length : Nat),
        Val.int (clusterSize n cid i)] :=
  Lemmas.GMSql.graphMetricsNodeDegree_eval db n cid an hC hA

/-- … hence, on `__splink__all_nodes` of the kept edges, the encoded `nodeDegreeTable`. -/
theorem sql_nodeDegree_model (db : Db) (n : Nat) (cid : Nat → Nat) (es : List Edge)
    (hC : db "clustered_in" = clusteredRows n cid)
    (hA : db "__splink__all_nodes" = (GraphMetrics.allNodes es).map pairRow) :
    Gen.GMSql.graphMetricsNodeDegree.eval db = (nodeDegreeTable n cid es).map fun r =>
      [Val.int (r.1 : Int), Val.int (r.2.1 : Int), Val.int (r.2.2.1 : Int), Val.int (r.2.2.2 : Int)] :=
  Lemmas.GMSql.graphMetricsNodeDegree_eval_model db n cid es hC hA

/-- Statement 4, `__splink__graph_metrics_nodes` (`CASE WHEN cluster_size > 1 THEN (1.0 * node_degree) /
(cluster_size - 1) ELSE 0 END`) ↔ `nodeCentrality`. -/
theorem sql_graphMetricsNodes (db : Db) (n : Nat) (cid deg size : Nat → Nat)
    (hD : db "__splink__graph_metrics_node_degree" = (List.range n).map fun (i : Nat) =>
      [Val.int (i : Int), Val.int (cid i), Val.int (deg i), Val.int (size i)]) :
    Gen.GMSql.graphMetricsNodes.eval db = (List.range n).map fun (i : Nat) =>
      [Val.int (i : Int), Val.int (cid i), Val.int (deg i), encFrac (nodeCentrality (deg i) (size i))] :=
  Lemmas.GMSql.graphMetricsNodes_eval db n cid deg size hD

/-! ## Part 2: the cluster table -/

/-- **Refinement, cluster table.**  `_compute_metrics_clusters` applied to any permutation of the encoded node table
returns a permutation of the encoded `clustersTable`: `COUNT(*)`, `SUM(node_degree)/2.0`, the centralisation `CASE`
(`COUNT(*) > 2`) and the density `CASE` (`n_nodes > 1`) agree with `clusterRow` as rational VALUES (`Frac` is an
unreduced pair) and as NULLs. -/
theorem sql_clusters_perm_model (n : Nat) (cid : Nat → Nat) (edges : List (Nat × Nat × Int)) (thr : Int)
    (nodesTab : List Row) (hT : nodesTab.Perm ((nodesTable n cid (kept thr edges)).map encNode)) :
    (GMSql.clusters nodesTab).Perm
      ((clustersTable (nodesTable n cid (kept thr edges))).map encCluster) :=
  Lemmas.GMSql.clusters_perm_model (nodesTable n cid (kept thr edges)) nodesTab hT

/-- The same for ANY list of node rows (not only those `nodesTable` produces), in any row order. -/
theorem sql_clusters_perm_model_any_rows (rows : List NodeRow) (nodesTab : List Row)
    (hT : nodesTab.Perm (rows.map encNode)) :
    (GMSql.clusters nodesTab).Perm ((clustersTable rows).map encCluster) :=
  Lemmas.GMSql.clusters_perm_model rows nodesTab hT

/-- On the node table in the model's order the result is the same list, row order included. -/
theorem sql_clusters_eq_model (rows : List NodeRow) :
    GMSql.clusters (rows.map encNode) = (clustersTable rows).map encCluster :=
  Lemmas.GMSql.clusters_eq_model rows

/-- Nodes and clusters composed, as `compute_graph_metrics` does: the cluster table computed from the SQL's own node
table. -/
theorem sql_clusters_of_sql_nodes (n : Nat) (cid : Nat → Nat) (edges : List (Nat × Nat × Int)) (thr : Int) :
    (GMSql.clusters (GMSql.nodes (predictRows edges) (clusteredRows n cid) (Val.int thr))).Perm
      ((clustersTable (nodesTable n cid (kept thr edges))).map encCluster) :=
  Lemmas.GMSql.clusters_perm_model _ _ (List.Perm.of_eq (Lemmas.GMSql.nodes_eq_model n cid edges thr))

/-- Non-vacuity: the SQL cluster pipeline on the SQL's node table of the example — 4 edges, density 2/3, centralisation
2/3 for `{0,1,2,3}`; NULL centralisation for the pair; NULL density and centralisation for the singleton — which is
the encoded model table although the model's fractions are unreduced (`8/2`, `16/24`, `4/6`). -/
example :
    GMSql.clusters (GMSql.nodes (predictRows exEdges) (clusteredRows 7 exCid) (Val.int 5)) =
      [[Val.int 0, Val.int 4, Val.rat 4, Val.rat (2 / 3), Val.rat (2 / 3)],
       [Val.int 4, Val.int 2, Val.rat 1, Val.rat 1, Val.null],
       [Val.int 6, Val.int 1, Val.rat 0, Val.null, Val.null]] ∧
    clustersTable (nodesTable 7 exCid (kept 5 exEdges)) =
      [⟨0, 4, ⟨8, 2⟩, some ⟨16, 24⟩, some ⟨4, 6⟩⟩, ⟨4, 2, ⟨2, 2⟩, some ⟨4, 4⟩, none⟩, ⟨6, 1, ⟨0, 2⟩, none, none⟩] ∧
    GMSql.clusters ((nodesTable 7 exCid (kept 5 exEdges)).map encNode) =
      (clustersTable (nodesTable 7 exCid (kept 5 exEdges))).map encCluster := by decide +kernel

/-- On the malformed input SQL and model agree as well: every edge row 0-1 crosses the two clusters and counts one half
in each (`n_edges` = 3/2 and 7/2), and `density` exceeds 1. -/
example :
    GMSql.clusters (GMSql.nodes (predictRows badEdges) (clusteredRows 4 badCid) (Val.int 5)) =
      [[Val.int 0, Val.int 2, Val.rat (3 / 2), Val.rat (3 / 2), Val.null],
       [Val.int 1, Val.int 2, Val.rat (7 / 2), Val.rat (7 / 2), Val.null]] ∧
    GMSql.clusters (GMSql.nodes (predictRows badEdges) (clusteredRows 4 badCid) (Val.int 5)) =
      (clustersTable (nodesTable 4 badCid (kept 5 badEdges))).map encCluster := by decide +kernel

/-- Statement 5, `__splink__counts_per_cluster` ↔ `cluster`, `nNodes`, `nEdges`, `centralisation` of `clusterRow`. -/
theorem sql_countsPerCluster (db : Db) (rows : List NodeRow)
    (hN : db "__splink__graph_metrics_nodes" = rows.map encNode) :
    Gen.GMSql.countsPerCluster.eval db = ((rows.map (·.cluster)).eraseDups).map fun (c : Nat) =>
      [Val.int (c : Int), Val.int (clusterRow rows c).nNodes, encFrac (clusterRow rows c).nEdges,
        encOptFrac (clusterRow rows c).centralisation] :=
  Lemmas.GMSql.countsPerCluster_eval db rows hN

/-- Statement 6, `__splink__graph_metrics_clusters` ↔ the `density` of `clusterRow`. -/
theorem sql_graphMetricsClusters (db : Db) (rows : List NodeRow) (L : List Nat)
    (hC : db "__splink__counts_per_cluster" = L.map fun (c : Nat) =>
      [Val.int (c : Int), Val.int (clusterRow rows c).nNodes, encFrac (clusterRow rows c).nEdges,
        encOptFrac (clusterRow rows c).centralisation]) :
    Gen.GMSql.graphMetricsClusters.eval db = L.map fun c => encCluster (clusterRow rows c) :=
  Lemmas.GMSql.graphMetricsClusters_eval db rows L hC

/-! ## Part 3: the edge table -/

/-- **Refinement, edge table.**  For every row order `order` of the nodes table (a permutation of the records: what
`row_number() OVER (ORDER BY 1)` numbers), every bridge finder, every edge list with endpoints `< n` and every
threshold: the model's `edgesTable` is defined (igraph is given no NULL) and `compute_igraph_metrics` returns a
permutation of its encoding. -/
theorem sql_edges_perm_model (n : Nat) (bridges : List (Nat × Nat) → List Nat) (order : List Nat)
    (edges : List (Nat × Nat × Int)) (thr : Int) (hO : order.Perm (List.range n))
    (hE : ∀ e ∈ edges, e.1 < n ∧ e.2.1 < n) :
    ∃ t, edgesTable bridges order (kept thr edges) = some t ∧
      (GMSql.edges (fun em => bridges (decodePairs em)) (predictRows edges) (orderVals order) (Val.int thr)).Perm
        (t.map encEdge) :=
  Lemmas.GMSql.edges_perm_model n bridges order edges thr hO hE

/-- … in fact the same list, row order included, and all that is needed of the mapping is that it lists every
endpoint exactly once. -/
theorem sql_edges_eq_model (bridges : List (Nat × Nat) → List Nat) (order : List Nat)
    (edges : List (Nat × Nat × Int)) (thr : Int) (hnd : order.Nodup)
    (hmem : ∀ e ∈ edges, e.1 ∈ order ∧ e.2.1 ∈ order) :
    ∃ t, edgesTable bridges order (kept thr edges) = some t ∧
      GMSql.edges (fun em => bridges (decodePairs em)) (predictRows edges) (orderVals order) (Val.int thr)
        = t.map encEdge :=
  Lemmas.GMSql.edges_eq_model bridges order edges thr hnd hmem

/-- Non-vacuity: the hypotheses of `sql_edges_perm_model` / `sql_edges_eq_model` / `sql_bridge_flag_def_naive` are met
by the example with the row order `3,1,0,2,5,4,6`; igraph is given the relabelled kept edges; the SQL edge pipeline
with the reference bridge finder flags the pendant edge and the edge 4-5, as the model does. -/
example :
    [3, 1, 0, 2, 5, 4, 6].Perm (List.range 7) ∧ (∀ e ∈ exEdges, e.1 < 7 ∧ e.2.1 < 7) ∧
    [3, 1, 0, 2, 5, 4, 6].Nodup ∧ (∀ e ∈ exEdges, e.1 ∈ [3, 1, 0, 2, 5, 4, 6] ∧ e.2.1 ∈ [3, 1, 0, 2, 5, 4, 6]) ∧
    (kept 5 exEdges).Nodup ∧
    GMSql.edgesForIgraph (predictRows exEdges) (orderVals [3, 1, 0, 2, 5, 4, 6]) (Val.int 5) =
      [pairRow (2, 1), pairRow (1, 3), pairRow (2, 3), pairRow (3, 0), pairRow (5, 4)] ∧
    GMSql.edges (fun em => naiveBridges (decodePairs em)) (predictRows exEdges) (orderVals [3, 1, 0, 2, 5, 4, 6])
        (Val.int 5) =
      [encEdge (0, 1, false), encEdge (1, 2, false), encEdge (0, 2, false), encEdge (2, 3, true),
        encEdge (4, 5, true)] ∧
    edgesTable naiveBridges [3, 1, 0, 2, 5, 4, 6] (kept 5 exEdges) =
      some [(0, 1, false), (1, 2, false), (0, 2, false), (2, 3, true), (4, 5, true)] := by decide +kernel

/-- On the malformed input, with a bridge finder that returns garbage (a repeated index, an index out of range), SQL
and model still agree: rows multiply on both sides (7 result rows for 5 kept edge rows: each of the two rows `0-1`
matches the bridge row `0-1` twice). -/
example :
    (edgesTable (fun _ => [4, 0, 0, 17]) [2, 0, 3, 1] (kept 5 badEdges)).map (·.map encEdge) =
      some (GMSql.edges (fun em => (fun _ => [4, 0, 0, 17]) (decodePairs em)) (predictRows badEdges)
        (orderVals [2, 0, 3, 1]) (Val.int 5)) ∧
    GMSql.edges (fun em => (fun _ => [4, 0, 0, 17]) (decodePairs em)) (predictRows badEdges) (orderVals [2, 0, 3, 1])
        (Val.int 5) =
      [encEdge (0, 1, true), encEdge (0, 1, true), encEdge (0, 1, true), encEdge (0, 1, true),
        encEdge (1, 0, false), encEdge (3, 3, false), encEdge (1, 3, true)] := by decide +kernel

/-- Statement 7, `__splink__edges_with_mapped_ids` (two LEFT JOINs on the mapping) ↔ `edgesForIgraph`: one row per
kept edge, in order, both endpoints relabelled (`relabel` = `newId` with the `Option` removed; no NULL arises). -/
theorem sql_edgesWithMappedIds (db : Db) (order : List Nat) (ke : List (Nat × Nat × Int))
    (hnd : order.Nodup) (hmem : ∀ e ∈ ke, e.1 ∈ order ∧ e.2.1 ∈ order)
    (hT : db "__splink__truncated_edges" = predictRows ke)
    (hM : db "__splink__nodes_integer_mapping" = GMSql.mapping (orderVals order)) :
    Gen.GMSql.edgesWithMappedIds.eval db
      = (ke.map fun e => (e.1, e.2.1)).map fun e => pairRow (Lemmas.GM.relabel order e) :=
  Lemmas.GMSql.edgesWithMappedIds_eval db order ke hnd hmem hT hM

/-- … that is, the model's `edgesForIgraph` (every `newId` is `some _`). -/
theorem sql_edgesWithMappedIds_model (db : Db) (order : List Nat) (ke : List (Nat × Nat × Int))
    (hnd : order.Nodup) (hmem : ∀ e ∈ ke, e.1 ∈ order ∧ e.2.1 ∈ order)
    (hT : db "__splink__truncated_edges" = predictRows ke)
    (hM : db "__splink__nodes_integer_mapping" = GMSql.mapping (orderVals order)) :
    Gen.GMSql.edgesWithMappedIds.eval db
      = (GraphMetrics.edgesForIgraph order (ke.map fun e => (e.1, e.2.1))).map optPairRow :=
  Lemmas.GMSql.edgesWithMappedIds_eval_model db order ke hnd hmem hT hM

/-- Statement 8, `__splink__bridges_only` (two LEFT JOINs back through the mapping, `TRUE AS is_bridge`) ↔
`GraphMetrics.bridgesOnly`, for bridge rows whose ids are new ids. -/
theorem sql_bridgesOnly (db : Db) (order : List Nat) (bl : List (Nat × Nat))
    (hlt : ∀ q ∈ bl, q.1 < order.length ∧ q.2 < order.length)
    (hB : db "bridges_in" = bl.map pairRow)
    (hM : db "__splink__nodes_integer_mapping" = GMSql.mapping (orderVals order)) :
    Gen.GMSql.bridgesOnly.eval db = (GraphMetrics.bridgesOnly order bl).map brRow :=
  Lemmas.GMSql.bridgesOnly_eval db order bl hlt hB hM

/-- Statement 9, `__splink__graph_metrics_edges` (LEFT JOIN on two equalities + `COALESCE(b.is_bridge, FALSE)`) ↔
`fullBridges`, for ANY table of bridge rows (NULL ids never match). -/
theorem sql_graphMetricsEdges (db : Db) (ke : List (Nat × Nat × Int)) (b : List (Option Nat × Option Nat))
    (hT : db "__splink__truncated_edges" = predictRows ke)
    (hB : db "__splink__bridges_only" = b.map brRow) :
    Gen.GMSql.graphMetricsEdges.eval db = (fullBridges (ke.map fun e => (e.1, e.2.1)) b).map encEdge :=
  Lemmas.GMSql.graphMetricsEdges_eval db ke b hT hB

/-! ## Part 4: C19 theorems about the SQL's own tables -/

/-- `C19.degree_counts_rows` for the regenerated SQL: the `(composite_unique_id, node_degree)` columns of the SQL's
node table list every record once with the number of kept edge rows in which it is the left endpoint plus the number
in which it is the right endpoint — for any edge list (a self loop counts twice, a duplicated row twice). -/
theorem sql_degree_counts_rows (n : Nat) (cid : Nat → Nat) (edges : List (Nat × Nat × Int)) (thr : Int) :
    (GMSql.nodes (predictRows edges) (clusteredRows n cid) (Val.int thr)).map
        (fun row => (row.getD 0 Val.null, row.getD 2 Val.null))
      = (List.range n).map fun (i : Nat) => (Val.int (i : Int),
          Val.int ((((kept thr edges).filter fun e => e.1 == i).length
            + ((kept thr edges).filter fun e => e.2 == i).length : Nat) : Int)) :=
  Lemmas.GMSql.nodes_degree_counts_rows n cid edges thr

/-- `C19.degree_def` for the regenerated SQL: when the kept graph is simple, `node_degree` is the number of kept edges
incident to the record, which is the number of its distinct neighbours. -/
theorem sql_degree_def (n : Nat) (cid : Nat → Nat) (edges : List (Nat × Nat × Int)) (thr : Int)
    (hS : Lemmas.GM.Simple (kept thr edges)) :
    (GMSql.nodes (predictRows edges) (clusteredRows n cid) (Val.int thr)).map
        (fun row => (row.getD 0 Val.null, row.getD 2 Val.null))
      = (List.range n).map (fun (i : Nat) => (Val.int (i : Int),
          Val.int (((kept thr edges).filter fun e => e.1 == i || e.2 == i).length : Nat))) ∧
    ∀ i, (Lemmas.GM.neighbours (kept thr edges) i).Nodup ∧
      (Lemmas.GM.neighbours (kept thr edges) i).length
        = ((kept thr edges).filter fun e => e.1 == i || e.2 == i).length ∧
      ∀ x, x ∈ Lemmas.GM.neighbours (kept thr edges) i ↔ ((i, x) ∈ kept thr edges ∨ (x, i) ∈ kept thr edges) :=
  Lemmas.GMSql.nodes_degree_def n cid edges thr hS

/-- `C19B.bridge_flag_def_naive` / `edges_table_naive` for the regenerated SQL: with the reference bridge finder the
`k`-th row of the SQL's edge table is the `k`-th kept edge, and its `is_bridge` is TRUE iff removing that edge row
disconnects its endpoints in the kept graph (kept edge rows distinct, mapping lists every endpoint once). -/
theorem sql_bridge_flag_def_naive (order : List Nat) (edges : List (Nat × Nat × Int)) (thr : Int)
    (hnd : order.Nodup) (hmem : ∀ e ∈ edges, e.1 ∈ order ∧ e.2.1 ∈ order) (hK : (kept thr edges).Nodup) :
    (GMSql.edges (fun em => naiveBridges (decodePairs em)) (predictRows edges) (orderVals order)
        (Val.int thr)).length = (kept thr edges).length ∧
    ∀ k (hk : k < (kept thr edges).length), ∃ b,
      (GMSql.edges (fun em => naiveBridges (decodePairs em)) (predictRows edges) (orderVals order) (Val.int thr))[k]?
        = some (encEdge ((kept thr edges)[k].1, (kept thr edges)[k].2, b)) ∧
      (b = true ↔
        ¬ Reach (Lemmas.GM.AdjL ((kept thr edges).eraseIdx k)) (kept thr edges)[k].1 (kept thr edges)[k].2) :=
  Lemmas.GMSql.edges_bridge_flag_naive order edges thr hnd hmem hK

/-- `C19.bridge_flags_on_right_edges` + `C19.bridge_flag_def` for the regenerated SQL, for ANY bridge finder that
meets `BridgeSpec` and returns distinct indices (igraph's, if it is correct): one row per kept edge, in order, flagged
iff removing the edge disconnects its endpoints. -/
theorem sql_bridge_flag_def (bridges : List (Nat × Nat) → List Nat) (hspec : Lemmas.GM.BridgeSpec bridges)
    (hB : ∀ g, (bridges g).Nodup) (order : List Nat) (edges : List (Nat × Nat × Int)) (thr : Int)
    (hnd : order.Nodup) (hmem : ∀ e ∈ edges, e.1 ∈ order ∧ e.2.1 ∈ order) (hK : (kept thr edges).Nodup) :
    ∃ flag : Edge → Bool,
      GMSql.edges (fun em => bridges (decodePairs em)) (predictRows edges) (orderVals order) (Val.int thr)
        = (kept thr edges).map (fun e => encEdge (e.1, e.2, flag e)) ∧
      ∀ k (hk : k < (kept thr edges).length), (flag (kept thr edges)[k] = true ↔
        ¬ Reach (Lemmas.GM.AdjL ((kept thr edges).eraseIdx k)) (kept thr edges)[k].1 (kept thr edges)[k].2) :=
  Lemmas.GMSql.edges_bridge_flag_spec bridges hspec hB order edges thr hnd hmem hK

/-- Non-vacuity of Part 4: the kept graph of the example is simple, its kept edge rows are distinct, the reference
bridge finder meets the hypotheses of `sql_bridge_flag_def`; the `(id, degree)` columns of the SQL's node table are as
stated. -/
example :
    (allNodes (kept 5 exEdges)).Nodup ∧ (kept 5 exEdges).Nodup ∧
    (GMSql.nodes (predictRows exEdges) (clusteredRows 7 exCid) (Val.int 5)).map
        (fun row => (row.getD 0 Val.null, row.getD 2 Val.null)) =
      [(Val.int 0, Val.int 2), (Val.int 1, Val.int 2), (Val.int 2, Val.int 3), (Val.int 3, Val.int 1),
       (Val.int 4, Val.int 1), (Val.int 5, Val.int 1), (Val.int 6, Val.int 0)] := by decide +kernel

/-- `sql_bridge_flag_def` instantiated with the reference finder (its two hypotheses on the finder are theorems). -/
example (order : List Nat) (edges : List (Nat × Nat × Int)) (thr : Int) (hnd : order.Nodup)
    (hmem : ∀ e ∈ edges, e.1 ∈ order ∧ e.2.1 ∈ order) (hK : (kept thr edges).Nodup) :=
  sql_bridge_flag_def naiveBridges C19B.naiveBridges_meets_spec C19B.naiveBridges_nodup order edges thr hnd hmem hK

end SplinkVerif.C19Sql
