import SplinkVerif.Lemmas.EM
import SplinkVerif.Lemmas.ArithBridge
/-!
# C03 — EM training performs exact EM steps

Property theorems about `Model/EM.lean` at `ℝ` (instance `Lemmas.Score.instNumReal`); the driver runs the
same definitions at `Float`.  (`loglik_mono` lives in `Properties/C03Likelihood.lean`.)
-/
namespace SplinkVerif.C03
open SplinkVerif SplinkVerif.Score SplinkVerif.EM

/-- weight of a row in the M-step: posterior match probability times pattern count -/
noncomputable def wM (θ : Params ℝ) (r : Row ℝ) : ℝ := eProb θ r * r.count
noncomputable def wU (θ : Params ℝ) (r : Row ℝ) : ℝ := (1 - eProb θ r) * r.count

/-- rows whose γ for comparison `ci` is a non-null level -/
def nonNullRows (θ : Params ℝ) (rows : List (Row ℝ)) (ci : Nat) : List (Row ℝ) :=
  rows.filter fun r => match gammaAt θ r ci with | some v => v != -1 | none => false

/-- The SQL-shaped M-step (GROUP BY γ, drop γ = −1, window-normalise) is the textbook
weighted relative frequency: `m'(c,v) = Σ_{γ_c = v} p·n / Σ_{γ_c non-null} p·n`. -/
theorem mstep_eq_reference (θ : Params ℝ) (rows : List (Row ℝ)) (ci : Nat) (v : Int)
    (hv : v ≠ -1) (hobs : ∃ r ∈ rows, gammaAt θ r ci = some v) :
    newM θ rows ci v =
      some (((rows.filter fun r => gammaAt θ r ci == some v).map (wM θ)).sum /
            ((nonNullRows θ rows ci).map (wM θ)).sum) ∧
    newU θ rows ci v =
      some (((rows.filter fun r => gammaAt θ r ci == some v).map (wU θ)).sum /
            ((nonNullRows θ rows ci).map (wU θ)).sum) :=
  Lemmas.EM.newM_newU_eq θ rows ci v hv hobs

/-- `λ' = Σ p·n / Σ n`. -/
theorem lambda_eq_reference (θ : Params ℝ) (rows : List (Row ℝ)) :
    lambdaNew θ rows = (rows.map (wM θ)).sum / (rows.map fun r => (r.count : ℝ)).sum :=
  Lemmas.EM.lambdaNew_eq θ rows

/-- The new m values of the observed non-null levels of a comparison sum to 1 (likewise u). -/
theorem mstep_sums_to_one (θ : Params ℝ) (rows : List (Row ℝ)) (ci : Nat)
    (hm : denomM θ rows ci ≠ 0) (hu : denomU θ rows ci ≠ 0) :
    ((observedValues θ rows ci).map fun v => (newM θ rows ci v).getD 0).sum = 1 ∧
    ((observedValues θ rows ci).map fun v => (newU θ rows ci v).getD 0).sum = 1 :=
  Lemmas.EM.new_sums_to_one θ rows ci hm hu

/-- A level whose value never occurs among the non-null rows receives no estimate. -/
theorem unobserved_gets_no_estimate (θ : Params ℝ) (rows : List (Row ℝ)) (ci : Nat) (v : Int)
    (h : ∀ r ∈ rows, gammaAt θ r ci ≠ some v) :
    newM θ rows ci v = none ∧ newU θ rows ci v = none :=
  Lemmas.EM.new_none_of_unobserved θ rows ci v h

/-- …and `updateLevel` then stores the `LEVEL_NOT_OBSERVED` placeholder (numeric value 1e-6) unless fixed. -/
theorem unobserved_placeholder (sess : Session) (θ : Params ℝ) (rows : List (Row ℝ)) (ci : Nat)
    (l : Level ℝ) (st : LevelState) (hn : l.isNull = false)
    (hfm : st.fixM = false) (hsm : sess.fixM = false)
    (h : ∀ r ∈ rows, gammaAt θ r ci ≠ some l.cvv) :
    (updateLevel sess θ rows ci l st).1.m = 1 / 1000000 ∧ (updateLevel sess θ rows ci l st).2.mObserved = false :=
  Lemmas.EM.updateLevel_unobserved sess θ rows ci l st hn hfm hsm h

/-- Parameters declared fixed — for the session or for the level — do not move; null levels never change. -/
theorem fixed_do_not_move (sess : Session) (θ : Params ℝ) (rows : List (Row ℝ)) (ci : Nat)
    (l : Level ℝ) (st : LevelState) :
    ((st.fixM = true ∨ sess.fixM = true ∨ l.isNull = true) → (updateLevel sess θ rows ci l st).1.m = l.m) ∧
    ((st.fixU = true ∨ sess.fixU = true ∨ l.isNull = true) → (updateLevel sess θ rows ci l st).1.u = l.u) ∧
    (updateLevel sess θ rows ci l st).1.cvv = l.cvv ∧ (updateLevel sess θ rows ci l st).1.tf = l.tf :=
  Lemmas.EM.updateLevel_fixed sess θ rows ci l st

theorem fixed_lambda_does_not_move (sess : Session) (θ : Params ℝ) (rows : List (Row ℝ))
    (h : sess.fixLambda = true) : (step sess θ rows).prior = θ.prior :=
  Lemmas.EM.step_prior_fixed sess θ rows h

/-- The step keeps the shape of the model (same number of comparisons and levels). -/
theorem step_shape (sess : Session) (θ : Params ℝ) (rows : List (Row ℝ))
    (hlen : θ.comps.length = θ.states.length)
    (hl : ∀ (i : Nat) (c : Comparison ℝ) (s : List LevelState), θ.comps[i]? = some c → θ.states[i]? = some s → c.length = s.length) :
    (step sess θ rows).comps.length = θ.comps.length ∧
    ∀ (i : Nat) (c c' : Comparison ℝ), θ.comps[i]? = some c → (step sess θ rows).comps[i]? = some c' → c'.length = c.length :=
  Lemmas.EM.step_shape sess θ rows hlen hl

/-- The fast agreement-pattern path equals the row-wise path: a row carrying count `k`
contributes exactly what `k` copies with count 1 contribute. -/
def expand (rows : List (Row ℝ)) : List (Row ℝ) :=
  rows.flatMap fun r => List.replicate r.count { r with count := 1 }

theorem pattern_path_eq_rowwise (θ : Params ℝ) (rows : List (Row ℝ)) (ci : Nat) (v : Int) :
    mCount θ (expand rows) ci v = mCount θ rows ci v ∧
    uCount θ (expand rows) ci v = uCount θ rows ci v ∧
    lambdaNew θ (expand rows) = lambdaNew θ rows :=
  Lemmas.EM.expand_counts θ rows ci v

/-- The starting prior of a session is the model prior's odds multiplied by the Bayes
factors of the selected exact-match levels, mapped back to a probability. -/
theorem start_prior_formula (prior : ℝ) (bfs : List ℝ) :
    startPrior prior bfs =
      (prior / (1 - prior) * bfs.prod) / (1 + prior / (1 - prior) * bfs.prod) :=
  Lemmas.EM.startPrior_eq prior bfs

/-- The starting prior of an EM session as the source computes it — `bayes_factor_to_prob` of `prob_to_bayes_factor prior`
multiplied by the Bayes factors of the levels the training rule implies (translated helpers, `Generated/Arith.lean`,
regenerated every run) — is the model's `startPrior`. -/
theorem start_prior_translated (prior : ℝ) (bfs : List ℝ) (hp : prior ≠ 1) :
    (Gen.prob_to_bayes_factor prior).bind (fun b0 => Gen.bayes_factor_to_prob (bfs.foldl (fun acc b => b * acc) b0))
      = some (EM.startPrior prior bfs) :=
  Lemmas.ArithBridge.start_prior_translated prior bfs hp

/-- The levels chosen for a training rule: each chosen level's columns are all columns of
the rule, no column is used by two chosen levels, and indices are valid. -/
theorem levels_to_reverse_sound (levels : List (List Nat)) (ruleCols : List Nat) :
    (∀ i ∈ levelsToReverse levels ruleCols, ∃ cols, levels[i]? = some cols ∧ ∀ c ∈ cols, c ∈ ruleCols) ∧
    (levelsToReverse levels ruleCols).Nodup ∧
    (∀ i j ci cj, i ∈ levelsToReverse levels ruleCols → j ∈ levelsToReverse levels ruleCols → i ≠ j →
        levels[i]? = some ci → levels[j]? = some cj → ci ≠ [] → ∀ c ∈ ci, c ∉ cj) :=
  Lemmas.EM.levelsToReverse_sound levels ruleCols

/-- A level on exactly the rule's (distinct) columns is always chosen when it is the only
exact-match level: the single-column training rule picks the exact-match level of its column. -/
theorem levels_to_reverse_single (cols : List Nat) (ruleCols : List Nat)
    (hsub : ∀ c ∈ cols, c ∈ ruleCols) :
    levelsToReverse [cols] ruleCols = [0] :=
  Lemmas.EM.levelsToReverse_single cols ruleCols hsub

/-- Python's `statistics.median`: the middle element of the sorted list, or the mean
of the two middle elements; it does not depend on the order of the sessions. -/
theorem median_perm (xs ys : List ℝ) (h : xs.Perm ys) : median xs = median ys :=
  Lemmas.EM.median_perm xs ys h

theorem median_singleton (x : ℝ) : median [x] = some x := Lemmas.EM.median_singleton x
theorem median_pair (x y : ℝ) : median [x, y] = some ((x + y) / 2) := Lemmas.EM.median_pair x y
theorem median_triple_sorted (x y z : ℝ) (h1 : x ≤ y) (h2 : y ≤ z) : median [z, x, y] = some y :=
  Lemmas.EM.median_triple x y z h1 h2

/-- Non-vacuity (structure only, evaluated): one comparison, the greedy level choice. -/
example : levelsToReverse [[1], [2], [1, 2], [3]] [2, 1] = [2] := by decide
example : levelsToReverse [[1], [2], [3]] [2, 1, 5] = [0, 1] := by decide

end SplinkVerif.C03
