import Lean
import SplinkVerif.Lemmas.Dialects
import SplinkVerif.Drv.Blocking
import SplinkVerif.Drv.Score
import SplinkVerif.Drv.EM
import SplinkVerif.Drv.Estimators
import SplinkVerif.Drv.CC
import SplinkVerif.Drv.MultiThreshold
import SplinkVerif.Drv.BlockingAnalysis
/-!
# C06 — all executable backends compute the same linkage

There is ONE model per pipeline and none of them knows about dialects:
`Model/Blocking.lean` (C01), `Model/Score.lean` (C02), `Model/EM.lean` (C03),
`Model/Estimators.lean` (C04), `Model/CC.lean` (C05), `Model/MultiThreshold.lean` (C11),
`Model/BlockingAnalysis.lean` (C14); each backend's real output is compared with them by the
checks of those properties, and `harness/props/c06.py` compares the backends' real outputs with
one another on the same scenarios.  What remains dialect-specific in Splink's SQL is the
vocabulary recorded in the GENERATED table `Gen.dialectTable` (`Generated/Dialects.lean`,
re-derived from /repo and from the real backends on every run).  The theorems below are finite
quantifiers over that table, proved by kernel evaluation.
-/
namespace SplinkVerif.C06
open SplinkVerif

/-- For every similarity/distance kind and every pair of dialects whose emitted function could be
evaluated and classified on the real backend (so: every pair of executable dialects that both
support the kind), the two functions have the SAME orientation, it is the one the comparison
level assumes (`>= t` needs a similarity, `<= t` a distance), and both return NULL on NULL input.
Catches F5 (SQLite `jaro_winkler` registered as a distance) and F16 (UDFs reading NULL as 'None'). -/
theorem dialects_same_meaning (d1 d2 : DialectEntry) (h1 : d1 ∈ Gen.dialectTable) (h2 : d2 ∈ Gen.dialectTable)
    (k : Kind) (o1 o2 : Orientation) (n1 n2 : Bool)
    (c1 : d1.classOf k = some (o1, n1)) (c2 : d2.classOf k = some (o2, n2)) :
    o1 = o2 ∧ o1 = expectedOrientation k ∧ n1 = true ∧ n2 = true :=
  Lemmas.Dialects.same_meaning d1 d2 h1 h2 k o1 o2 n1 n2 c1 c2

/-- On DuckDB (built-in functions) and SQLite (functions registered by `SQLiteAPI._register_udfs`)
every function name the dialect emits really evaluates, to a classifiable function — so the
hypotheses of `dialects_same_meaning` hold for every kind both support.  Catches the other half
of F5 (`jaro_sim` emitted but not registered). -/
theorem emitted_functions_run (d : DialectEntry) (h : d ∈ Gen.dialectTable) (he : d.executed = true)
    (hd : d.dialect = .duckdb ∨ d.dialect = .sqlite) (k : Kind) (hs : d.supports k = true) :
    (d.classOf k).isSome = true :=
  Lemmas.Dialects.emitted_runs_table d h he hd k (Lemmas.Dialects.allKinds_complete k)  hs

/-- The table was produced with DuckDB and SQLite really executed (the two theorems above are not vacuous). -/
theorem duckdb_and_sqlite_executed :
    (∃ d ∈ Gen.dialectTable, d.dialect = .duckdb ∧ d.executed = true) ∧
    (∃ d ∈ Gen.dialectTable, d.dialect = .sqlite ∧ d.executed = true) :=
  Lemmas.Dialects.duckdb_sqlite_executed

/-- For every dialect (executable or not) and every kind it supports, the level creator of
`comparison_level_library.py` writes the comparator `expectedOrientation` stands for. -/
theorem level_comparators_as_assumed (d : DialectEntry) (h : d ∈ Gen.dialectTable) (k : Kind)
    (hs : d.supports k = true) :
    (d.dialect, k, (expectedOrientation k).comparator) ∈ Gen.levelComparators :=
  Lemmas.Dialects.comparators_table d h k (Lemmas.Dialects.allKinds_complete k) hs

/-- …and no level creator writes anything else. -/
theorem level_comparators_only_expected (e : Dialect × Kind × Cmp) (h : e ∈ Gen.levelComparators) :
    e.2.2 = (expectedOrientation e.2.1).comparator :=
  Lemmas.Dialects.comparators_only_expected e h

/-- On every executed dialect — SQLite included, since the repair of K6 (the SQLite dialect now writes the numeric
literal `9e999`, which SQLite reads as +∞, where it used to write the text `'infinity'`, which casts to 0.0) — the three
uses of infinity work: the Bayes-factor literal `_bayes_factor_sql` emits for `u = 0` is +∞, comparing it with the
dialect's `infinity_expression` is TRUE, and `log2(infinity_expression)` is +∞.  (Before the repair this theorem
excluded SQLite and its negation `sqlite_infinity_is_not_infinite` was proved; a regression brings the failure back
because the table is regenerated from the running backends.) -/
theorem infinity_consistent (d : DialectEntry) (h : d ∈ Gen.dialectTable)
    (p : InfinityProbe) (hp : d.infinity = some p) : p.ok = true :=
  Lemmas.Dialects.infinity_ok d h p hp

/-- `array_first_index`: on every executed dialect that has arrays, the emitted first-element
access returns the first element of a three-element array. -/
theorem array_first_index_consistent (d : DialectEntry) (h : d ∈ Gen.dialectTable)
    (he : d.executed = true) (ha : d.arrayFirstIndex.isSome = true) :
    d.firstIndexSelectsFirst = some true :=
  Lemmas.Dialects.first_index_table d h he ha

/-- Non-vacuity: DuckDB and SQLite both classify Jaro-Winkler, as a NULL-propagating similarity. -/
example : Gen.duckdbEntry.classOf .jaroWinkler = some (.similarity, true) ∧
    Gen.sqliteEntry.classOf .jaroWinkler = some (.similarity, true) := by decide

/-- Non-vacuity of the detector: the table of the unrepaired tree (F5: a distance registered under
`jaro_winkler`) is rejected by the statement `dialects_same_meaning` decides. -/
example : ¬ Lemmas.Dialects.Agree .jaroWinkler (some (.similarity, true)) (some (.distance, true)) := by decide
example : ¬ Lemmas.Dialects.Agree .levenshtein (some (.distance, true)) (some (.distance, false)) := by decide

/-!
## `model_is_dialect_free` — an elaboration-time check, not a kernel theorem

"No model takes the dialect as input" is a statement about the *definitions*, which Lean's logic
cannot quantify over.  It is checked here by walking the environment: no constant of any imported
`SplinkVerif` module other than the four dialect modules mentions a type of `Model/Dialects.lean`
in its type or its value, and the entry points the driver uses for C01–C05, C11, C14 are present
(so the walk is not vacuous).  The build of this module fails if the check fails.  In particular
`Gen.dialectTable`/`Gen.levelComparators` are the only generated definitions depending on `Dialect`
(`Generated/Arith.lean` is walked too).  Listed under `open_statements`: this is meta-level evidence.
-/
open Lean Elab Command in
run_cmd do
  let env ← getEnv
  let dialectTypes : List Name := [``Dialect, ``Kind, ``Orientation, ``Cmp, ``Behaviour, ``FnEntry,
    ``InfinityProbe, ``DialectEntry]
  let allowedMods : List Name := [`SplinkVerif.Model.Dialects, `SplinkVerif.Generated.Dialects,
    `SplinkVerif.Lemmas.Dialects]
  let entryPoints : List Name := [``Drv.handleBlock, ``Drv.handleScore, ``Drv.handleEMStep, ``Drv.handleEMRun,
    ``Drv.handleEMMisc, ``Drv.handleEstim, ``Drv.handleCC, ``Drv.handleMulti, ``Drv.handleBlockAnalysis,
    ``Drv.handleArith, ``Blocking.block, ``Gen.calculate_cartesian]
  for e in entryPoints do
    unless env.contains e do throwError "model_is_dialect_free: entry point {e} not found"
  let mut walked : Nat := 0
  let mut bad : Array Name := #[]
  for (n, ci) in env.constants.map₁.toList do
    let some idx := env.getModuleIdxFor? n | continue
    let mod := env.header.moduleNames[idx.toNat]!
    unless (`SplinkVerif).isPrefixOf mod do continue
    if allowedMods.contains mod then continue
    walked := walked + 1
    let used := ci.type.getUsedConstants ++ (ci.value?.map (·.getUsedConstants)).getD #[]
    if used.any (fun c => dialectTypes.contains c) then bad := bad.push n
  if walked < 500 then throwError "model_is_dialect_free: only {walked} constants walked"
  unless bad.isEmpty do throwError "model_is_dialect_free: these definitions depend on the dialect vocabulary: {bad}"
  logInfo m!"model_is_dialect_free: {walked} constants of the model/driver modules walked, none mentions a dialect type"

end SplinkVerif.C06
