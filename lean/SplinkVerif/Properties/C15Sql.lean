import SplinkVerif.Lemmas.AccSql
/-!
# C15 at the level of the emitted SQL

`Generated/AccSql.lean` holds the six truth-space statements `truth_space_table_from_labels_with_predictions_sqls`
emits **now** for labels from a table with `positives_not_captured_by_blocking_rules_scored_as_zero` on (T-sql
translator, regenerated on every run); `Model/AccSql.lean` runs them as one CTE pipeline (`runStmts`) on the input table
`lwp_in` (match_weight rounded to the grid, clerical_match_score, found_by_blocking_rules).  The theorems below say that
this pipeline, evaluated with the SQL semantics `Rel.eval`, returns — up to row order — exactly the rows of the
functional model `Accuracy.truthRows`; hence the C15 theorems about `truthRows` (recount, conservation, monotonicity, one
row per score) are theorems about the regenerated SQL.  A change to any of the SQL templates changes
`Generated/AccSql.lean` and these proofs stop checking.

No hypothesis on the labelled pairs is needed: ties, duplicates and the **empty** input are covered (`sum` over no row
is NULL, but with no label there is no group, hence no row on which the NULL scalar subqueries would be looked at — both
sides return no row, `sql_no_labels_no_rows`).  The two hypotheses on the configuration select the variant the generated
statements are: `scoreNotFoundAsZero = true` (statement 2 is the `CASE WHEN found_by_blocking_rules …`) and
`totalLabels = none` (statement 5 is `select *`).

Property theorems only; proofs are in `Lemmas/Rel.lean` (generic facts about `Rel.eval`) and `Lemmas/AccSql.lean`.
-/
namespace SplinkVerif.C15Sql
open SplinkVerif SplinkVerif.Rel
open SplinkVerif.Accuracy (Scored Cfg PosNegAdj Grouped Stats TruthRow adjScore isPos)
open SplinkVerif.Lemmas.Acc (cnt adjRow)
open SplinkVerif.Lemmas.AccSql (encIn encT encG encS encPosNeg encAdj row1 row2 cols groupedSql sqlRows)

/-! ### Encodings (definitional unfoldings, for reference) -/

/-- A row of `lwp_in`. -/
theorem encIn_def (cfg : Cfg) (x : Scored) :
    encIn cfg x = [Val.int (cfg.bucket x.weight), Val.int x.score, Val.bool x.found] := rfl

/-- A `TruthRow` in the SQL's column order (truth_threshold, total_clerical_labels, P, N, FP, TP, FN, TN). -/
theorem encT_def (r : TruthRow) :
    encT r = [Val.int r.truthThreshold, Val.int r.total, Val.int r.p, Val.int r.n, Val.int r.fp, Val.int r.tp,
      Val.int r.fn, Val.int r.tn] := rfl

/-- The SQL result on the encoded labelled pairs. -/
theorem sqlRows_def (cfg : Cfg) (xs : List Scored) :
    sqlRows cfg xs = AccSql.truthStats (xs.map (encIn cfg)) (Val.int cfg.thresholdActual) (Val.int cfg.sentinel) :=
  rfl

/-! ### Refinement -/

/-- **Refinement.**  For every list of labelled pairs (any length, ties, duplicates, empty) and every configuration of
the labels-table / not-found-option variant (any `threshold_actual`, any bucketing, any sentinel) the SQL pipeline
returns a permutation of the rows of `Accuracy.truthRows`, in the column order
(truth_threshold, total_clerical_labels, P, N, FP, TP, FN, TN). -/
theorem sql_truth_rows_perm_model (cfg : Cfg) (xs : List Scored) (hopt : cfg.scoreNotFoundAsZero = true)
    (htot : cfg.totalLabels = none) :
    (AccSql.truthStats (xs.map fun x => [Val.int (cfg.bucket x.weight), Val.int x.score, Val.bool x.found])
        (Val.int cfg.thresholdActual) (Val.int cfg.sentinel)).Perm
      ((Accuracy.truthRows cfg xs).map fun r =>
        [Val.int r.truthThreshold, Val.int r.total, Val.int r.p, Val.int r.n, Val.int r.fp, Val.int r.tp,
         Val.int r.fn, Val.int r.tn]) :=
  Lemmas.AccSql.truthStats_perm_model cfg xs hopt htot

/-- **Exact form**: row for row, the SQL result is the model's pipeline run on the grouped table in the order
`GROUP BY` produces it (`groupedSql`: first occurrences; the model's `distinct` keeps last occurrences — this is the
only difference, and the reason the refinement is up to a permutation). -/
theorem sql_truth_rows_eq (cfg : Cfg) (xs : List Scored) (hopt : cfg.scoreNotFoundAsZero = true) :
    sqlRows cfg xs = (Accuracy.truthStats (Accuracy.statsAdj none (Accuracy.groupedWithStats
      (groupedSql (xs.map (adjRow cfg)))))).map encT :=
  Lemmas.AccSql.truthStats_eq cfg xs hopt

/-- Row order of the registered input table does not matter (up to the order of the result). -/
theorem sql_input_order_irrelevant (cfg : Cfg) (xs : List Scored) (hopt : cfg.scoreNotFoundAsZero = true)
    (htot : cfg.totalLabels = none) (lwp : List Row) (hl : lwp.Perm (xs.map (encIn cfg))) :
    (AccSql.truthStats lwp (Val.int cfg.thresholdActual) (Val.int cfg.sentinel)).Perm
      ((Accuracy.truthRows cfg xs).map encT) :=
  Lemmas.AccSql.truthStats_perm_model_any_order cfg xs hopt htot lwp hl

/-- A row is returned by the SQL iff it is the encoding of a row of the model. -/
theorem sql_mem_iff (cfg : Cfg) (xs : List Scored) (hopt : cfg.scoreNotFoundAsZero = true)
    (htot : cfg.totalLabels = none) (row : Row) :
    row ∈ sqlRows cfg xs ↔ ∃ r ∈ Accuracy.truthRows cfg xs, row = encT r :=
  Lemmas.AccSql.mem_truthStats cfg xs hopt htot row

/-- No label, no row (whatever the parameters): the NULL that `sum` returns over no row never reaches the result. -/
theorem sql_no_labels_no_rows (thr sentinel : Val) : AccSql.truthStats [] thr sentinel = [] :=
  Lemmas.AccSql.truthStats_nil thr sentinel

/-! ### Statement by statement -/

/-- `__splink__labels_with_pos_neg` (CASE on `clerical_match_score >= thr`): one row per labelled pair … -/
theorem sql_labels_with_pos_neg (cfg : Cfg) (xs : List Scored) (db : Db) (hin : db "lwp_in" = xs.map (encIn cfg)) :
    (Gen.AccSql.labelsWithPosNeg (Val.int cfg.thresholdActual)).eval db = xs.map (row1 cfg) :=
  Lemmas.AccSql.posNeg_eval cfg xs db hin

/-- … whose columns (truth_threshold, found_by_blocking_rules, clerical_positive, clerical_negative) are
`Accuracy.labelsWithPosNeg`. -/
theorem sql_labels_with_pos_neg_model (cfg : Cfg) (xs : List Scored) :
    (xs.map (row1 cfg)).map (cols [3, 2, 4, 5]) = (Accuracy.labelsWithPosNeg cfg xs).map encPosNeg :=
  Lemmas.AccSql.posNeg_model cfg xs

/-- `__splink__labels_with_pos_neg_tt_adj` (CASE on the boolean column): one more column … -/
theorem sql_labels_with_pos_neg_tt_adj (cfg : Cfg) (xs : List Scored) (hopt : cfg.scoreNotFoundAsZero = true)
    (db : Db) (hin : db "__splink__labels_with_pos_neg" = xs.map (row1 cfg)) :
    (Gen.AccSql.labelsWithPosNegTtAdj (Val.int cfg.sentinel)).eval db = xs.map (row2 cfg) :=
  Lemmas.AccSql.ttAdj_eval cfg xs hopt db hin

/-- … and the columns (truth_threshold_adj, clerical_positive, clerical_negative) are
`Accuracy.labelsWithPosNegTtAdj ∘ Accuracy.labelsWithPosNeg`. -/
theorem sql_labels_with_pos_neg_tt_adj_model (cfg : Cfg) (xs : List Scored) :
    (xs.map (row2 cfg)).map (cols [6, 4, 5])
      = (Accuracy.labelsWithPosNegTtAdj cfg (Accuracy.labelsWithPosNeg cfg xs)).map encAdj :=
  Lemmas.AccSql.ttAdj_model cfg xs

/-- `__splink__labels_with_pos_neg_grouped` (GROUP BY, `count(*)`, two sums): the model's groups in `GROUP BY`'s
order … -/
theorem sql_labels_with_pos_neg_grouped (cfg : Cfg) (xs : List Scored) (db : Db)
    (hin : db "__splink__labels_with_pos_neg_tt_adj" = xs.map (row2 cfg)) :
    Gen.AccSql.labelsWithPosNegGrouped.eval db = (groupedSql (xs.map (adjRow cfg))).map encG :=
  Lemmas.AccSql.grouped_eval cfg xs db hin

/-- … which is a permutation of `Accuracy.grouped`. -/
theorem sql_grouped_perm_model (ys : List PosNegAdj) : (groupedSql ys).Perm (Accuracy.grouped ys) :=
  Lemmas.AccSql.groupedSql_perm ys

/-- `__splink__labels_with_pos_neg_grouped_with_stats` (two cumulative windows DESC / ASC with the default RANGE frame,
three scalar subqueries) is `Accuracy.groupedWithStats`, on every grouped table. -/
theorem sql_grouped_with_stats (gs : List Grouped) (db : Db)
    (hin : db "__splink__labels_with_pos_neg_grouped" = gs.map encG) :
    Gen.AccSql.labelsWithPosNegGroupedWithStats.eval db = (Accuracy.groupedWithStats gs).map encS :=
  Lemmas.AccSql.stats_eval gs db hin

/-- `__splink__labels_with_pos_neg_grouped_with_stats_adj` (`select *` for a labels table) is `Accuracy.statsAdj none`. -/
theorem sql_grouped_with_stats_adj (ss : List Stats) (db : Db)
    (hin : db "__splink__labels_with_pos_neg_grouped_with_stats" = ss.map encS) :
    Gen.AccSql.labelsWithPosNegGroupedWithStatsAdj.eval db = (Accuracy.statsAdj none ss).map encS :=
  Lemmas.AccSql.statsAdj_eval ss db hin

/-- `__splink__labels_with_pos_neg_grouped_with_truth_stats` is `Accuracy.truthStats`. -/
theorem sql_grouped_with_truth_stats (ss : List Stats) (db : Db)
    (hin : db "__splink__labels_with_pos_neg_grouped_with_stats_adj" = ss.map encS) :
    Gen.AccSql.labelsWithPosNegGroupedWithTruthStats.eval db = (Accuracy.truthStats ss).map encT :=
  Lemmas.AccSql.truthStats_eval ss db hin

/-- The model's tables after the grouping do not depend on the order of the groups. -/
theorem grouped_with_stats_order_irrelevant {gs gs' : List Grouped} (p : gs.Perm gs') :
    (Accuracy.groupedWithStats gs).Perm (Accuracy.groupedWithStats gs') :=
  Lemmas.AccSql.groupedWithStats_perm p

/-! ### The C15 theorems for the rows the SQL returns -/

/-- **Conservation.**  Every row the SQL returns is eight integers (no NULL) with `TP + FN = P`, `TN + FP = N`,
`P + N = total_clerical_labels`. -/
theorem sql_conservation (cfg : Cfg) (xs : List Scored) (hopt : cfg.scoreNotFoundAsZero = true)
    (htot : cfg.totalLabels = none) :
    ∀ row ∈ sqlRows cfg xs, ∃ t total p n fp tp fn tn : Int,
      row = [Val.int t, Val.int total, Val.int p, Val.int n, Val.int fp, Val.int tp, Val.int fn, Val.int tn] ∧
      tp + fn = p ∧ tn + fp = n ∧ p + n = total :=
  Lemmas.AccSql.conservation_sql cfg xs hopt htot

/-- **Recount.**  Every row the SQL returns has, at its threshold `t` (the adjusted score of some labelled pair):
TP = the number of labelled pairs with `clerical_match_score ≥ threshold_actual` counted at an adjusted score `≥ t`,
FP = the clerical negatives counted at `≥ t`, FN / TN = the clerical positives / negatives counted below `t`,
P / N = all clerical positives / negatives, total = the number of labelled pairs. -/
theorem sql_recount (cfg : Cfg) (xs : List Scored) (hopt : cfg.scoreNotFoundAsZero = true)
    (htot : cfg.totalLabels = none) :
    ∀ row ∈ sqlRows cfg xs, ∃ t : Int,
      (∃ x ∈ xs, adjScore cfg x = t) ∧
      row = [Val.int t, Val.int (xs.length : Int),
        Val.int (cnt xs (fun x => isPos cfg x)),
        Val.int (cnt xs (fun x => !isPos cfg x)),
        Val.int (cnt xs (fun x => !isPos cfg x && decide (adjScore cfg x ≥ t))),
        Val.int (cnt xs (fun x => isPos cfg x && decide (adjScore cfg x ≥ t))),
        Val.int (cnt xs (fun x => isPos cfg x && decide (adjScore cfg x < t))),
        Val.int (cnt xs (fun x => !isPos cfg x && decide (adjScore cfg x < t)))] :=
  Lemmas.AccSql.recount_sql cfg xs hopt htot

/-- **Not found = predicted negative.**  In every returned row above the sentinel, TP and FP count only pairs the
blocking rules found. -/
theorem sql_not_found_predicted_negative (cfg : Cfg) (xs : List Scored) (hopt : cfg.scoreNotFoundAsZero = true)
    (htot : cfg.totalLabels = none) :
    ∀ r : TruthRow, encT r ∈ sqlRows cfg xs → cfg.sentinel < r.truthThreshold →
      r.tp = cnt xs (fun x => isPos cfg x && (x.found && decide (cfg.bucket x.weight ≥ r.truthThreshold))) ∧
      r.fp = cnt xs (fun x => !isPos cfg x && (x.found && decide (cfg.bucket x.weight ≥ r.truthThreshold))) :=
  Lemmas.AccSql.not_found_sql cfg xs hopt htot

/-- **Monotonicity** between any two returned rows. -/
theorem sql_monotone (cfg : Cfg) (xs : List Scored) (hopt : cfg.scoreNotFoundAsZero = true)
    (htot : cfg.totalLabels = none) (r₁ r₂ : TruthRow) (h₁ : encT r₁ ∈ sqlRows cfg xs)
    (h₂ : encT r₂ ∈ sqlRows cfg xs) (hle : r₁.truthThreshold ≤ r₂.truthThreshold) :
    r₂.tp ≤ r₁.tp ∧ r₂.fp ≤ r₁.fp ∧ r₁.tn ≤ r₂.tn ∧ r₁.fn ≤ r₂.fn :=
  Lemmas.AccSql.monotone_sql cfg xs hopt htot r₁ r₂ h₁ h₂ hle

/-- **One row per score.**  The `truth_threshold` column of the SQL result has no duplicate and holds exactly the
adjusted scores of the labelled pairs (the sentinel included — the final `where truth_threshold >= -998` is a later
statement). -/
theorem sql_thresholds_exact (cfg : Cfg) (xs : List Scored) (hopt : cfg.scoreNotFoundAsZero = true)
    (htot : cfg.totalLabels = none) :
    ((sqlRows cfg xs).map fun row => row.getD 0 Val.null).Nodup ∧
    ∀ t : Int, Val.int t ∈ ((sqlRows cfg xs).map fun row => row.getD 0 Val.null) ↔
      ∃ x ∈ xs, adjScore cfg x = t :=
  Lemmas.AccSql.thresholds_sql_exact cfg xs hopt htot

/-! ### Non-vacuity (keys are small integers; weight bucket = identity; sentinel −999) -/

private def cfgT : Cfg :=
  { thresholdActual := 5, bucket := id, scoreNotFoundAsZero := true, sentinel := -999, cutoff := -998, totalLabels := none }

/-- The five labels of `C15`'s example through the SQL pipeline: two tied at weight 3 (one positive, one negative), a
positive not found by blocking (→ −999), a negative at −2, a positive at 7.  Columns
(truth_threshold, total, P, N, FP, TP, FN, TN). -/
example :
    AccSql.truthStats
      ([⟨10, 3, 0, true⟩, ⟨0, 3, 0, true⟩, ⟨10, 4, 0, false⟩, ⟨2, -2, 0, true⟩, ⟨5, 7, 0, true⟩].map (encIn cfgT))
      (Val.int 5) (Val.int (-999)) =
      [ [Val.int 3, Val.int 5, Val.int 3, Val.int 2, Val.int 1, Val.int 2, Val.int 1, Val.int 1],
        [Val.int (-999), Val.int 5, Val.int 3, Val.int 2, Val.int 2, Val.int 3, Val.int 0, Val.int 0],
        [Val.int (-2), Val.int 5, Val.int 3, Val.int 2, Val.int 2, Val.int 2, Val.int 1, Val.int 0],
        [Val.int 7, Val.int 5, Val.int 3, Val.int 2, Val.int 0, Val.int 1, Val.int 2, Val.int 2] ] := by
  decide +kernel

/-- The permutation is needed: with the tie split (weights 3, −2, 3) `GROUP BY` returns the groups in the order 3, −2
(first occurrences) … -/
example :
    AccSql.truthStats ([⟨10, 3, 0, true⟩, ⟨2, -2, 0, true⟩, ⟨0, 3, 0, true⟩].map (encIn cfgT))
      (Val.int 5) (Val.int (-999)) =
      [ [Val.int 3, Val.int 3, Val.int 1, Val.int 2, Val.int 1, Val.int 1, Val.int 0, Val.int 1],
        [Val.int (-2), Val.int 3, Val.int 1, Val.int 2, Val.int 2, Val.int 1, Val.int 0, Val.int 0] ] := by
  decide +kernel

/-- … and the model in the order −2, 3 (last occurrences). -/
example :
    (Accuracy.truthRows cfgT [⟨10, 3, 0, true⟩, ⟨2, -2, 0, true⟩, ⟨0, 3, 0, true⟩]).map encT =
      [ [Val.int (-2), Val.int 3, Val.int 1, Val.int 2, Val.int 2, Val.int 1, Val.int 0, Val.int 0],
        [Val.int 3, Val.int 3, Val.int 1, Val.int 2, Val.int 1, Val.int 1, Val.int 0, Val.int 1] ] := by
  decide +kernel

/-- The scalar subqueries alone do return NULL on the empty grouped table (`sum` over no row) — harmless, since the
cross join then has no left row. -/
example :
    (Rel.groupBy [] [Agg.sum (Expr.col 2)] (Rel.table "__splink__labels_with_pos_neg_grouped")).eval (fun _ => [])
      = [[Val.null]] := by
  decide +kernel

end SplinkVerif.C15Sql
