import SplinkVerif.Lemmas.BlockSql
/-!
# C01 at the level of the emitted SQL

`Generated/BlockSql.lean` holds the per-rule `SELECT` statements of `__splink__blocked_id_pairs` as
`blocking.py: block_using_rules_sqls` emits them **now** (T-sql translator, captured from real runs with marker rules and
regenerated on every run; the rule and the preceding rules are parameters); `Model/BlockSql.lean` is the Python control
flow around them (the loop over the rule list, `match_key`, the wiring of preceding rules, `" OR ".join`, `UNION ALL`,
the rule `1=1` for an empty list).  The theorems below are about that pipeline under the SQL semantics `Rel.eval`, for

* every link type the code blocks with (`dedupe_only`, `link_only`, `link_and_dedupe`, `two_dataset_link_only`),
* every rule list of any length, each rule ANY expression over the joined row,
* every contents of the input tables: any number of rows, any values including NULL in every column.

Hypotheses (all decidable on a concrete database, all satisfied by the harness's inputs):
`hw`/`hL` — the left table's rows have the declared number `w` of columns, identity columns first;
`hB` (`RulesB3`) — every rule evaluates to TRUE, FALSE or NULL on every pair of rows (what the engines' type check
guarantees; a rule of another type is rejected by the engine);
`hLid`/`hRid` — identities are unique within each joined table (the property's assumption; for composite identities
this says that `source_dataset || '-__-' || unique_id` separates the records).

Property theorems only; proofs are in `Lemmas/BlockSql.lean` (and `Lemmas/Rel.lean`).
-/
namespace SplinkVerif.C01Sql
open SplinkVerif SplinkVerif.Rel SplinkVerif.BlockSql

/-- `∀ p ∈ rules, ∀ ra ∈ L, ∀ rb ∈ R, isB3 (p.eval (ra ++ rb))` (defined in `Lemmas/BlockSql.lean`). -/
abbrev RulesB3 := @Lemmas.BlockSql.RulesB3

/-- Rule `i` is TRUE on the joined row and no earlier rule is TRUE on it (FALSE and NULL both count as not TRUE):
`(∃ e, rules[i]? = some e ∧ e.holds row) ∧ ∀ j < i, ∀ q, rules[j]? = some q → q.holds row = false`. -/
abbrev FirstAt := @Lemmas.BlockSql.FirstAt

/-- The hypothesis `RulesB3` holds on EVERY database for rules that are comparisons, `IS NULL`, boolean / NULL literals, or
`AND` / `OR` / `NOT` / `coalesce` of such (`isPred`, a decidable syntactic check; every rule of the harness's grammar passes it). -/
theorem rulesB3_of_syntactic (rules : List Expr) (h : ∀ p ∈ rules, Lemmas.BlockSql.isPred p = true) (L R : List Row) :
    RulesB3 rules L R :=
  Lemmas.BlockSql.rulesB3_of_isPred h L R

/-- **(1) Exactness and first-rule attribution.**  A row `(k, a, b)` is in the SQL result iff `a`, `b` are the identities
of a left and a right record whose ordered pair is admissible under the link type, on which rule `k` evaluates to TRUE
and no earlier rule does — `match_key` is the FIRST satisfied rule. -/
theorem sql_block_exact (lt : LinkType) (w : Nat) (db : Db) (rules : List Expr)
    (hw : idWidth lt ≤ w) (hL : ∀ ra ∈ db (tables lt).1, ra.length = w)
    (hB : RulesB3 rules (db (tables lt).1) (db (tables lt).2)) (hne : rules ≠ []) (k : Nat) (a b : Val) :
    [mkVal k, a, b] ∈ block lt w db rules ↔
      ∃ ra ∈ db (tables lt).1, ∃ rb ∈ db (tables lt).2, rowId lt ra = a ∧ rowId lt rb = b ∧
        admissible lt ra rb = true ∧ FirstAt rules k (ra ++ rb) := by
  have h := Lemmas.BlockSql.mem_block_key lt w db rules hw hL hB k a b
  have hd : rulesOrDefault rules = rules := by
    cases rules with
    | nil => exact absurd rfl hne
    | cons r rest => rfl
  rwa [hd] at h

/-- …and the result contains nothing else: every row is `(match_key k, id_l, id_r)` of such a pair. -/
theorem sql_block_rows (lt : LinkType) (w : Nat) (db : Db) (rules : List Expr)
    (hw : idWidth lt ≤ w) (hL : ∀ ra ∈ db (tables lt).1, ra.length = w)
    (hB : RulesB3 rules (db (tables lt).1) (db (tables lt).2)) (row : Row) :
    row ∈ block lt w db rules ↔
      ∃ k, ∃ ra ∈ db (tables lt).1, ∃ rb ∈ db (tables lt).2, row = [mkVal k, rowId lt ra, rowId lt rb] ∧
        admissible lt ra rb = true ∧ FirstAt (rulesOrDefault rules) k (ra ++ rb) :=
  Lemmas.BlockSql.mem_block lt w db rules hw hL hB row

/-- `match_key` literals of different rules differ. -/
theorem mkVal_injective {i j : Nat} (h : mkVal i = mkVal j) : i = j := Lemmas.BlockSql.mkVal_inj h

/-- **(2) Each pair once.**  No identity pair `(join_key_l, join_key_r)` occurs in two rows of the result — neither twice
from one rule nor from two different rules. -/
theorem sql_block_pairs_nodup (lt : LinkType) (w : Nat) (db : Db) (rules : List Expr)
    (hw : idWidth lt ≤ w) (hL : ∀ ra ∈ db (tables lt).1, ra.length = w)
    (hB : RulesB3 rules (db (tables lt).1) (db (tables lt).2))
    (hLid : ((db (tables lt).1).map (rowId lt)).Nodup) (hRid : ((db (tables lt).2).map (rowId lt)).Nodup) :
    ((block lt w db rules).map fun row => row.drop 1).Nodup :=
  Lemmas.BlockSql.nodup_idPairs_block lt w db rules hw hL hB hLid hRid

/-- …so every row of the result has multiplicity exactly 1. -/
theorem sql_block_count_one (lt : LinkType) (w : Nat) (db : Db) (rules : List Expr)
    (hw : idWidth lt ≤ w) (hL : ∀ ra ∈ db (tables lt).1, ra.length = w)
    (hB : RulesB3 rules (db (tables lt).1) (db (tables lt).2))
    (hLid : ((db (tables lt).1).map (rowId lt)).Nodup) (hRid : ((db (tables lt).2).map (rowId lt)).Nodup)
    (row : Row) (h : row ∈ block lt w db rules) : (block lt w db rules).count row = 1 :=
  List.count_eq_one_of_mem (List.Nodup.of_map _ (sql_block_pairs_nodup lt w db rules hw hL hB hLid hRid)) h

/-- …and, for the link types that join the table with itself, a pair is emitted in ONE orientation only and no record is
paired with itself (whatever the match keys `x`, `y`). -/
theorem sql_block_one_orientation (lt : LinkType) (hlt : lt ≠ .twoDatasetLinkOnly) (w : Nat) (db : Db)
    (rules : List Expr) (hw : idWidth lt ≤ w) (hL : ∀ ra ∈ db (tables lt).1, ra.length = w)
    (hB : RulesB3 rules (db (tables lt).1) (db (tables lt).2)) (x y a b : Val)
    (h : [x, a, b] ∈ block lt w db rules) : [y, b, a] ∉ block lt w db rules ∧ a ≠ b :=
  Lemmas.BlockSql.block_one_orientation lt hlt w db rules hw hL hB x y a b h

/-- **(3) No rules.**  With an empty rule list every admissible pair is produced, with key 0 (once, by (2)). -/
theorem sql_block_no_rules (lt : LinkType) (w : Nat) (db : Db)
    (hw : idWidth lt ≤ w) (hL : ∀ ra ∈ db (tables lt).1, ra.length = w) (k : Nat) (a b : Val) :
    [mkVal k, a, b] ∈ block lt w db [] ↔
      k = 0 ∧ ∃ ra ∈ db (tables lt).1, ∃ rb ∈ db (tables lt).2, rowId lt ra = a ∧ rowId lt rb = b ∧
        admissible lt ra rb = true := by
  rw [Lemmas.BlockSql.mem_block_key lt w db [] hw hL (by intro p hp; cases hp) k a b]
  simp only [Lemmas.BlockSql.firstAt_default_nil]
  constructor
  · rintro ⟨ra, hra, rb, hrb, h1, h2, h3, h4⟩; exact ⟨h4, ra, hra, rb, hrb, h1, h2, h3⟩
  · rintro ⟨h4, ra, hra, rb, hrb, h1, h2, h3⟩; exact ⟨ra, hra, rb, hrb, h1, h2, h3, h4⟩

/-- The model's table corresponds to the SQL table: `t.m` = number of rows; `t.key l < t.key r` iff the engine orders the
identities of rows `l`, `r` that way; for `link_only`, `t.sd l ≠ t.sd r` iff the source dataset values differ (ranks of the
identities / of the source dataset values satisfy this). -/
abbrev Corr := @Lemmas.BlockSql.Corr

/-- A rule expression as an outcome function on record indices of `T`:
`{ kind := .plain, eval := fun l r => toB3 (e.eval (T[l] ++ T[r])) }`. -/
abbrev toRule := @Lemmas.BlockSql.toRule

/-- The SQL row of a model row: `[mkVal k, rowId lt T[l], rowId lt T[r]]`. -/
abbrev emit := @Lemmas.BlockSql.emit

/-- **(4) Refinement.**  For the link types that join `__splink__df_concat_with_tf` with itself, the regenerated SQL returns
exactly the rows of the functional model `Blocking.block` — the object of all theorems of `Properties/C01.lean` — in the
same order, for every table, every rule list and every model table that corresponds to the SQL table. -/
theorem sql_block_eq_model (lt : LinkType) (hlt : lt ≠ .twoDatasetLinkOnly) (w : Nat) (db : Db) (rules : List Expr)
    (hw : idWidth lt ≤ w) (hL : ∀ ra ∈ db (tables lt).1, ra.length = w)
    (hB : RulesB3 rules (db (tables lt).1) (db (tables lt).2))
    (t : Blocking.Table) (hc : Corr lt (db (tables lt).1) t) :
    block lt w db rules
      = (Blocking.block lt t (rules.map (toRule (db (tables lt).1)))).map (emit lt (db (tables lt).1)) :=
  Lemmas.BlockSql.block_eq_model lt hlt w db rules hw hL hB t hc

/-! ## Non-vacuity -/

/-- `dedupe_only`, three records (unique_id, a, b) with NULLs; rules `l.a = r.a`, `l.b = r.b`: the pair (2,3) is NULL
under rule 0 and TRUE under rule 1. -/
def exT : List Row := [[.int 1, .str "x", .null], [.int 2, .str "x", .str "p"], [.int 3, .null, .str "p"]]
def exRules : List Expr := [Expr.cmp .eq (Expr.col 1) (Expr.col 4), Expr.cmp .eq (Expr.col 2) (Expr.col 5)]

example : block .dedupeOnly 3 (inputDb .dedupeOnly exT exT) exRules
    = [[.str "0", .int 1, .int 2], [.str "1", .int 2, .int 3]] := by decide +kernel

example : block .dedupeOnly 3 (inputDb .dedupeOnly exT exT) []
    = [[.str "0", .int 1, .int 2], [.str "0", .int 1, .int 3], [.str "0", .int 2, .int 3]] := by decide +kernel

/-- the hypotheses hold on it -/
example : idWidth .dedupeOnly ≤ 3 ∧ (∀ ra ∈ exT, ra.length = 3) ∧ (exT.map (rowId .dedupeOnly)).Nodup ∧
    (∀ p ∈ exRules, ∀ ra ∈ exT, ∀ rb ∈ exT, isB3 (p.eval (ra ++ rb)) = true) := by decide +kernel

example : ∀ p ∈ exRules, Lemmas.BlockSql.isPred p = true := by decide

/-- and the model table `key = index` corresponds to it -/
example : Corr .dedupeOnly exT { m := 3, key := id, sd := fun _ => 0, part := fun _ _ => 0 } :=
  ⟨rfl, by decide +kernel, by intro h; cases h⟩

/-- `link_only`, composite identities (source_dataset, unique_id, a) with overlapping unique ids; rule `l.a = r.a`. -/
def exT2 : List Row :=
  [[.str "a", .int 1, .str "x"], [.str "b", .int 1, .str "x"], [.str "b", .int 2, .null], [.str "a", .int 10, .str "x"]]

example : block .linkOnly 3 (inputDb .linkOnly exT2 exT2) [Expr.cmp .eq (Expr.col 2) (Expr.col 5)]
    = [[.str "0", .str "a-__-1", .str "b-__-1"], [.str "0", .str "a-__-10", .str "b-__-1"]] := by decide +kernel

/-- `two_dataset_link_only`: left and right table, every cross pair on which the rule is TRUE. -/
example : block .twoDatasetLinkOnly 3 (inputDb .twoDatasetLinkOnly [[.str "a", .int 1, .str "x"]]
      [[.str "b", .int 1, .str "x"], [.str "b", .int 2, .null]]) [Expr.cmp .eq (Expr.col 2) (Expr.col 5)]
    = [[.str "0", .str "a-__-1", .str "b-__-1"]] := by decide +kernel

end SplinkVerif.C01Sql
