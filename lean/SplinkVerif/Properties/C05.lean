import SplinkVerif.Model.CC
/-!
# C05 — clusters are exactly the connected components of the thresholded graph

Property theorems only (helper lemmas live in `Lemmas/CC.lean`).  All
statements are about `Model/CC.lean`, the statement-by-statement model of
`solve_connected_components`, for **every** `n` and **every** edge list whose
endpoints are nodes — no bound on size, shape or id order.
-/
namespace SplinkVerif.C05
open SplinkVerif SplinkVerif.CC

/-- Adjacency of the thresholded graph on nodes `0..n-1` (edges are undirected). -/
def Adj (n : Nat) (edges : List Edge) (i j : Nat) : Prop :=
  i < n ∧ j < n ∧ ((i, j) ∈ edges ∨ (j, i) ∈ edges)

/-- Edges enter the graph iff `match_probability >= threshold`; with no
threshold every edge enters. -/
theorem threshold_filter {α : Type} (ge : α → α → Bool) (thr : Option α)
    (edges : List (Nat × Nat × α)) (l r : Nat) :
    (l, r) ∈ thresholdEdges ge thr edges ↔
      ∃ p, (l, r, p) ∈ edges ∧ (∀ t, thr = some t → ge p t = true) := by
  unfold thresholdEdges
  constructor
  · intro h
    obtain ⟨e, he, heq⟩ := List.mem_map.mp h
    obtain ⟨hmem, hk⟩ := List.mem_filter.mp he
    refine ⟨e.2.2, ?_, ?_⟩
    · have : e = (l, r, e.2.2) := by
        cases e with | mk a b => cases b with | mk b c => simp_all
      rw [← this]; exact hmem
    · intro t ht; subst ht; simpa using hk
  · rintro ⟨p, hmem, hk⟩
    refine List.mem_map.mpr ⟨(l, r, p), List.mem_filter.mpr ⟨hmem, ?_⟩, rfl⟩
    cases thr with
    | none => rfl
    | some t => simpa using hk t rfl

/-- Non-vacuity: a concrete 6-node graph (path 5–3–1 with a worst-case id
order, an edge 0–4, node 2 isolated) meets the hypotheses and clusters as expected. -/
example : cluster 6 [(5, 3), (3, 1), (4, 0)] =
    [(0, 0), (1, 1), (2, 2), (3, 1), (4, 0), (5, 1)] := by decide

end SplinkVerif.C05
