import SplinkVerif.Lemmas.CC
import SplinkVerif.Generated.Arith
/-!
# C05 — clusters are exactly the connected components of the thresholded graph

Property theorems only (helper lemmas live in `Lemmas/CC.lean`).  All
statements are about `Model/CC.lean`, the statement-by-statement model of
`solve_connected_components`, for **every** `n` and **every** edge list whose
endpoints are nodes — no bound on size, shape or id order.
-/
namespace SplinkVerif.C05
open SplinkVerif SplinkVerif.CC

/-- Adjacency of the thresholded graph on nodes `0..n-1` (edges are undirected). -/
def Adj (n : Nat) (edges : List Edge) (i j : Nat) : Prop :=
  i < n ∧ j < n ∧ ((i, j) ∈ edges ∨ (j, i) ∈ edges)

/-- The loop exits because no row needs updating — never because the fuel
(`n*n+1` passes) ran out: the model's `run` *is* the unbounded `while` loop. -/
theorem run_terminates (n : Nat) (edges : List Edge) (hE : ∀ e ∈ edges, e.1 < n ∧ e.2 < n) :
    updCount n (run n edges) = 0 :=
  Lemmas.run_updCount_zero n edges hE

/-- Every input record is returned exactly once. -/
theorem each_node_once (n : Nat) (edges : List Edge) (hE : ∀ e ∈ edges, e.1 < n ∧ e.2 < n) :
    ((cluster n edges).map (·.1)).Perm (List.range n) :=
  Lemmas.cluster_nodes_perm n edges hE

/-- Main theorem: the cluster id of every node is the smallest node reachable
from it — so clusters are exactly the connected components and the id is the
minimum member. -/
theorem run_correct (n : Nat) (edges : List Edge) (hE : ∀ e ∈ edges, e.1 < n ∧ e.2 < n) :
    ∀ i c, (i, c) ∈ cluster n edges →
      Reach (Adj n edges) i c ∧ ∀ j, Reach (Adj n edges) i j → c ≤ j :=
  Lemmas.cluster_is_min_reachable n edges hE

/-- Two records share a cluster id iff they are joined by a path of kept edges. -/
theorem same_cluster_iff_reach (n : Nat) (edges : List Edge)
    (hE : ∀ e ∈ edges, e.1 < n ∧ e.2 < n) (i j ci cj : Nat)
    (hi : (i, ci) ∈ cluster n edges) (hj : (j, cj) ∈ cluster n edges) :
    ci = cj ↔ Reach (Adj n edges) i j :=
  Lemmas.same_cluster_iff_reach n edges hE i j ci cj hi hj

/-- A record without a qualifying edge (self loops aside) is a singleton cluster
labelled by itself. -/
theorem isolated_is_singleton (n : Nat) (edges : List Edge)
    (hE : ∀ e ∈ edges, e.1 < n ∧ e.2 < n) (i : Nat)
    (hiso : ∀ e ∈ edges, (e.1 = i ∨ e.2 = i) → e = (i, i)) :
    ∀ j c, (j, c) ∈ cluster n edges → (c = i ↔ j = i) :=
  Lemmas.isolated_is_singleton n edges hE i hiso

/-- Edges enter the graph iff `match_probability >= threshold`; with no
threshold every edge enters. -/
theorem threshold_filter {α : Type} (ge : α → α → Bool) (thr : Option α)
    (edges : List (Nat × Nat × α)) (l r : Nat) :
    (l, r) ∈ thresholdEdges ge thr edges ↔
      ∃ p, (l, r, p) ∈ edges ∧ (∀ t, thr = some t → ge p t = true) := by
  unfold thresholdEdges
  constructor
  · intro h
    obtain ⟨e, he, heq⟩ := List.mem_map.mp h
    obtain ⟨hmem, hk⟩ := List.mem_filter.mp he
    refine ⟨e.2.2, ?_, ?_⟩
    · have : e = (l, r, e.2.2) := by
        cases e with | mk a b => cases b with | mk b c => simp_all
      rw [← this]; exact hmem
    · intro t ht; subst ht; simpa using hk
  · rintro ⟨p, hmem, hk⟩
    refine List.mem_map.mpr ⟨(l, r, p), List.mem_filter.mpr ⟨hmem, ?_⟩, rfl⟩
    cases thr with
    | none => rfl
    | some t => simpa using hk t rfl

/-- **A threshold that is given is applied** — about the *translated* `threshold_args_to_match_prob`
(`Generated/Arith.lean`, regenerated from `splink/internals/misc.py` on every run), for every number type
and every value, boundary values (weight `0`, probability `0`) included: a probability is passed through, a
match weight `w` becomes `2^w / (1 + 2^w)` and is never dropped, no argument means no threshold, both
arguments raise. -/
theorem threshold_args_applied {α : Type} [ANum α] (p w : α) :
    Gen.threshold_args_to_match_prob (some p) none = some (some p) ∧
    Gen.threshold_args_to_match_prob none (some w) =
      some (some (ANum.div (ANum.pow2 w) (ANum.add (ANum.ofNat 1) (ANum.pow2 w)))) ∧
    Gen.threshold_args_to_match_prob (none : Option α) none = some none ∧
    Gen.threshold_args_to_match_prob (some p) (some w) = none :=
  ⟨rfl, rfl, rfl, rfl⟩

/-- …hence with a weight threshold the clustering never sees "no threshold": edges below `2^w/(1+2^w)` are
removed (composition of `threshold_args_applied` with `threshold_filter`'s `thresholdEdges`). -/
theorem weight_threshold_filters {α : Type} [ANum α] (ge : α → α → Bool) (w : α)
    (edges : List (Nat × Nat × α)) (e : Edge)
    (h : e ∈ thresholdEdges ge ((Gen.threshold_args_to_match_prob none (some w)).getD none) edges) :
    ∃ q, (e.1, e.2, q) ∈ edges ∧
      ge q (ANum.div (ANum.pow2 w) (ANum.add (ANum.ofNat 1) (ANum.pow2 w))) = true := by
  rw [(threshold_args_applied w w).2.1] at h
  simp only [Option.getD_some, thresholdEdges, List.mem_map, List.mem_filter] at h
  obtain ⟨x, ⟨hx, hge⟩, rfl⟩ := h
  exact ⟨x.2.2, hx, hge⟩

/-- Non-vacuity: a concrete 6-node graph (path 5–3–1 with a worst-case id
order, an edge 0–4, node 2 isolated) meets the hypotheses and clusters as expected. -/
example : cluster 6 [(5, 3), (3, 1), (4, 0)] =
    [(0, 0), (1, 1), (2, 2), (3, 1), (4, 0), (5, 1)] := by decide

/-- Non-vacuity with pending updates: the path 4–3–2–1–0 with identity id order
needs three further passes after the forced first one (counts 2, 1, 0). -/
example : trace 5 [(4, 3), (3, 2), (2, 1), (1, 0)] = [2, 1, 0] ∧
    cluster 5 [(4, 3), (3, 2), (2, 1), (1, 0)] = [(0, 0), (1, 0), (2, 0), (3, 0), (4, 0)] := by decide

end SplinkVerif.C05
