import Std.Data.String.ToNat
import SplinkVerif.Lemmas.OtoSql
import SplinkVerif.Properties.C12
/-!
# C12 at the level of the emitted SQL

`Generated/OtoSql.lean` holds the statements `one_to_one_clustering` emits **now** (T-sql translator, regenerated on every
run; the pass for an arbitrary list of duplicate-free datasets is, for lists of length 1, 2, 3, *by `rfl` in that file*
the translation of the SQL captured from the real code); `Model/OtoSql.lean` is the Python control flow around them.  The
theorems below say that on **tie-free** inputs this pipeline, evaluated with the SQL semantics `Rel.eval`, returns exactly
the rows of the functional model `OneToOne.cluster` — for every pair of tie-break oracles of the model, which are then
irrelevant — hence the C12 theorems (partition, duplicate-free constraint, connectivity, maximality) are theorems
about the regenerated SQL.  A change to any of the SQL templates changes `Generated/OtoSql.lean` and these proofs (or
the `rfl` checks of the generated file) stop checking.

Hypotheses, all decidable and met by the harness's inputs: node ids are the ranks `0 … n-1` (unique, non-NULL), the
`source_dataset` values and the `'<sd>'` literals are the images of the datasets under an injective encoding into
non-NULL values (`DsEnc`; e.g. the dataset names as strings), probabilities are non-NULL integer order keys, and
`TieFree I`: two rows of `__splink__df_neighbours` with equal probability are the same row or the two orientations of
one edge.  Edge endpoints that are no nodes are allowed (both the SQL's inner joins and the model drop such rows).
With ties `row_number()` is engine-dependent; `Rel.rowNumber` then over-approximates `= 1` (see `Model/Rel.lean`) and no
refinement is claimed (the invariants for all tie-breaks are `C12.partition`, `C12.dupfree_respected` on the oracle model,
and connectivity fails: K4).

Property theorems only; proofs are in `Lemmas/Rel.lean` (generic facts about `Rel.eval`) and `Lemmas/OtoSql.lean`.
-/
namespace SplinkVerif.C12Sql
open SplinkVerif SplinkVerif.Rel
open SplinkVerif.OneToOne hiding Row
open SplinkVerif.Lemmas.OtoSql (DsEnc sdsOf nodesTbl thrVal pairRow ReprTbl NbrsTbl nuOf)

/-- Fuel of the SQL loop (passes after the forced first one) that provably suffices: `0 + 1 + … + (n-1)`. -/
def sqlFuel (I : Inst) : Nat := (List.range I.n).sum

/-- The rows `(node_id, cluster_id)` the SQL pipeline returns for the instance `I` (canonical row order of the inputs). -/
def sqlCluster (E : DsEnc) (I : Inst) : List Row :=
  OtoSql.cluster (nodesTbl E I) (OtoSql.edgeRows I.edges) (sdsOf E I) (thrVal I) (sqlFuel I)

/-- **Refinement (one pass).**  On a tie-free input, the statements of one pass of the loop body, run on the tables of
a state `rep` of the functional model (`first`: pass 1, the 3-column table; otherwise the 4-column table with any
`needs_updating` column `nu`), produce the tables of `OneToOne.step … rep` — the same new representative for every node,
for every pair of tie-break oracles and every pass index — and the `needs_updating` count of the model. -/
theorem sql_pass_is_step (E : DsEnc) (I : Inst) (oL oR : Oracle) (k : Nat) (rep : Reps) (htf : TieFree I)
    (first : Bool) (nu : Nat → Val) (s : OtoSql.LoopSt) (hn : NbrsTbl I s.nbrs)
    (hr : ReprTbl E I rep first nu s.repr) :
    NbrsTbl I (OtoSql.pass first (sdsOf E I) s).1.nbrs ∧
    ReprTbl E I (step I oL oR k rep) false (nuOf rep (step I oL oR k rep)) (OtoSql.pass first (sdsOf E I) s).1.repr ∧
    (OtoSql.pass first (sdsOf E I) s).2 = updCount I rep (step I oL oR k rep) :=
  Lemmas.OtoSql.pass_spec E I oL oR k rep htf first nu s hn hr

/-- **Refinement (whole function).**  For every instance with pairwise distinct probabilities (any number of records,
datasets, duplicate-free datasets, edges incl. reversed / self-loop / dangling rows, any threshold or none) the SQL
pipeline returns a permutation of the rows of `OneToOne.cluster`, for every pair of tie-break oracles. -/
theorem sql_cluster_perm_model (E : DsEnc) (I : Inst) (oL oR : Oracle) (htf : TieFree I) :
    (sqlCluster E I).Perm ((OneToOne.cluster I oL oR).map pairRow) :=
  Lemmas.OtoSql.cluster_perm_model E I oL oR htf _ _ (List.Perm.refl _) (List.Perm.refl _)

/-- The logged per-pass `needs_updating` counts of the SQL pipeline are the model's. -/
theorem sql_trace_eq_model (E : DsEnc) (I : Inst) (oL oR : Oracle) (htf : TieFree I) :
    OtoSql.trace (nodesTbl E I) (OtoSql.edgeRows I.edges) (sdsOf E I) (thrVal I) (sqlFuel I)
      = OneToOne.trace I oL oR :=
  Lemmas.OtoSql.trace_eq_model E I oL oR htf _ _ (List.Perm.refl _) (List.Perm.refl _)

/-- Row order of the registered input tables does not matter (up to the order of the result). -/
theorem sql_cluster_input_order_irrelevant (E : DsEnc) (I : Inst) (oL oR : Oracle) (htf : TieFree I)
    (nodes edgeTab : List Row) (hN : nodes.Perm (nodesTbl E I)) (hT : edgeTab.Perm (OtoSql.edgeRows I.edges)) :
    (OtoSql.cluster nodes edgeTab (sdsOf E I) (thrVal I) (sqlFuel I)).Perm
      ((OneToOne.cluster I oL oR).map pairRow) :=
  Lemmas.OtoSql.cluster_perm_model E I oL oR htf nodes edgeTab hN hT

/-! ### C12 for the regenerated SQL (tie-free inputs) -/

/-- Every record is returned exactly once by the SQL pipeline. -/
theorem sql_partition (E : DsEnc) (I : Inst) (htf : TieFree I) :
    ((sqlCluster E I).map fun r => r.getD 0 Val.null).Perm
      ((List.range I.n).map fun (v : Nat) => Val.int (v : Int)) := by
  refine ((sql_cluster_perm_model E I zeroOracle zeroOracle htf).map _).trans (List.Perm.of_eq ?_)
  rw [← C12.partition I zeroOracle zeroOracle, List.map_map, List.map_map]
  apply List.map_congr_left
  intro p _
  simp [pairRow]

/-- No returned cluster holds two records of one duplicate-free dataset. -/
theorem sql_dupfree_respected (E : DsEnc) (I : Inst) (htf : TieFree I) (u v c : Nat) (huv : u ≠ v)
    (hu : pairRow (u, c) ∈ sqlCluster E I) (hv : pairRow (v, c) ∈ sqlCluster E I)
    (hds : I.ds u = I.ds v) (hd : I.ds u ∈ I.dupFree) : False := by
  obtain ⟨hu1, hu2⟩ := (Lemmas.OtoSql.mem_cluster_iff E I zeroOracle zeroOracle htf _ _ (List.Perm.refl _)
    (List.Perm.refl _) u c).mp hu
  obtain ⟨hv1, hv2⟩ := (Lemmas.OtoSql.mem_cluster_iff E I zeroOracle zeroOracle htf _ _ (List.Perm.refl _)
    (List.Perm.refl _) v c).mp hv
  exact C12.dupfree_respected I zeroOracle zeroOracle u v hu1 hv1 huv (by rw [← hu2, ← hv2]) hds hd

/-- Two records share a returned cluster and are joined by a kept edge (either orientation). -/
def SqlAdj (I : Inst) (S : List Row) (a b : Nat) : Prop :=
  (∃ c, pairRow (a, c) ∈ S ∧ pairRow (b, c) ∈ S) ∧
    ∃ e ∈ kept I, (e.1 = a ∧ e.2.1 = b) ∨ (e.1 = b ∧ e.2.1 = a)

/-- Every returned cluster is connected through kept edges that stay inside the cluster. -/
theorem sql_connected_tie_free (E : DsEnc) (I : Inst) (htf : TieFree I) (u v c : Nat)
    (hu : pairRow (u, c) ∈ sqlCluster E I) (hv : pairRow (v, c) ∈ sqlCluster E I) :
    Reach (SqlAdj I (sqlCluster E I)) u v := by
  have hm := Lemmas.OtoSql.mem_cluster_iff E I zeroOracle zeroOracle htf _ _ (List.Perm.refl _) (List.Perm.refl _)
  obtain ⟨hu1, hu2⟩ := (hm u c).mp hu
  obtain ⟨hv1, hv2⟩ := (hm v c).mp hv
  have hr := C12.connected_tie_free I zeroOracle zeroOracle htf u v hu1 hv1 (by rw [← hu2, ← hv2])
  refine Lemmas.O2O.reachMono ?_ hr
  intro a b hab
  simp only [adjB, Bool.and_eq_true, decide_eq_true_eq, beq_iff_eq, List.any_eq_true, Bool.or_eq_true] at hab
  obtain ⟨⟨⟨ha, hb⟩, hrep⟩, e, he, hor⟩ := hab
  exact ⟨⟨_, (hm a _).mpr ⟨ha, rfl⟩, (hm b _).mpr ⟨hb, hrep⟩⟩, e, he, hor⟩

/-- Maximality: a kept edge between two different returned clusters joins clusters that both contain a record of one
duplicate-free dataset. -/
theorem sql_maximal_when_tie_free (E : DsEnc) (I : Inst) (htf : TieFree I) (e : OneToOne.Row) (he : e ∈ kept I)
    (c₁ c₂ : Nat) (h1 : pairRow (e.1, c₁) ∈ sqlCluster E I) (h2 : pairRow (e.2.1, c₂) ∈ sqlCluster E I)
    (hne : c₁ ≠ c₂) :
    ∃ d ∈ I.dupFree, (∃ u, pairRow (u, c₁) ∈ sqlCluster E I ∧ I.ds u = d) ∧
      (∃ v, pairRow (v, c₂) ∈ sqlCluster E I ∧ I.ds v = d) := by
  have hm := Lemmas.OtoSql.mem_cluster_iff E I zeroOracle zeroOracle htf _ _ (List.Perm.refl _) (List.Perm.refl _)
  obtain ⟨ha, hc1⟩ := (hm _ _).mp h1
  obtain ⟨hb, hc2⟩ := (hm _ _).mp h2
  obtain ⟨d, hd, ⟨u, hu, hru, hdu⟩, ⟨v, hv, hrv, hdv⟩⟩ :=
    C12.maximal_when_tie_free I zeroOracle zeroOracle htf e he ha hb (by rw [← hc1, ← hc2]; exact hne)
  exact ⟨d, hd, ⟨u, (hm u c₁).mpr ⟨hu, by rw [hc1, hru]⟩, hdu⟩, ⟨v, (hm v c₂).mpr ⟨hv, by rw [hc2, hrv]⟩, hdv⟩⟩

/-! ### Non-vacuity -/

/-- Dataset numbers as the strings `"0"`, `"1"`, …. -/
def strEnc : DsEnc where
  enc := fun d => Val.str (Nat.repr d)
  nonnull := by intro d; simp
  inj := by
    intro a b h
    have h' : Nat.repr a = Nat.repr b := by injection h
    exact Nat.repr_inj.mp h'

/-- Example 1 of `tests/test_cluster_using_single_best_links.py` with its two ties broken (`C12.Ex1`: tie-free): the SQL
pipeline under `Rel.eval` takes four passes and returns the clusters the test expects. -/
example : OtoSql.trace (nodesTbl strEnc C12.Ex1) (OtoSql.edgeRows C12.Ex1.edges) (sdsOf strEnc C12.Ex1) (thrVal C12.Ex1)
    (sqlFuel C12.Ex1) = [2, 2, 2, 0] := by decide +kernel

example : (sqlCluster strEnc C12.Ex1).map (fun r => (r.getD 0 Val.null, r.getD 1 Val.null)) =
    [(4, 1), (2, 2), (7, 1), (5, 2), (3, 0), (1, 1), (6, 0), (0, 0), (8, 8)].map
      fun (p : Int × Int) => (Val.int p.1, Val.int p.2) := by decide +kernel

/-- Why the refinement carries `TieFree`: records `a0 b1 b2`, dataset `b` duplicate-free, two edges `1–0`, `2–0` of EQUAL
probability.  SQL's `row_number()` gives rank 1 to exactly one of the two tied rows of a partition (which one is the
engine's choice), so a real engine merges only one `b` record with `a0` (and `C12.dupfree_respected` holds for every
tie-break oracle); `Rel.rowNumber` numbers both tied rows 1 — the union of the admissible outcomes — and the pipeline
under `Rel.eval` then accepts both rows and returns ONE cluster holding `b1` and `b2`, an outcome no engine produces.
On tied inputs `Rel.eval` of these statements is therefore not a model of the engines, and nothing is claimed. -/
def Tied3 : Inst where
  n := 3
  ds := fun v => if v = 0 then 0 else 1
  dupFree := [1]
  edges := [(1, 0, 7), (2, 0, 7)]
  thr := none

example : ¬ TieFree Tied3 := by decide
example : (sqlCluster strEnc Tied3).map (fun r => (r.getD 0 Val.null, r.getD 1 Val.null)) =
    [(1, 0), (2, 0), (0, 0)].map fun (p : Int × Int) => (Val.int p.1, Val.int p.2) := by decide +kernel

end SplinkVerif.C12Sql
