import SplinkVerif.Lemmas.DescSql2
/-!
# C20 at the level of the emitted SQL, part 2: comparison-vector distribution, match-weight histogram, unlinkables

`Generated/DescSql.lean` (second part, regenerated on every run by the T-sql translator) holds

* `cvd gs` — `comparison_vector_distribution_sql` for ANY list `gs` of gamma columns (expressions over a row of
  `__splink__df_predict` = `cv_in`); `cvd_generic_k1/2/3 : cvd [g0, …] = K<k>.cvd g0 …` are `rfl` against the statements captured from
  the real code with 1, 2 and 3 comparisons;
* `histStmts bin bw` — the two statements of `_hist_sql` as `histogram_data` emits them, with the floating-point binning expression
  `<bw> * floor(match_weight / <bw>)` as the opaque expression `bin` (the capture checks that SELECT and GROUP BY use the same text) and
  the width literal `bw`;
* `unlStmts rw rp` — the three statements of `unlinkables_data`, with the two `round(…)` expressions as opaque expressions.

`Model/DescSql.lean` runs them (`Rel.eval`, `runStmts`).  The theorems say, for EVERY content of the input table (any number of
rows, any values, NULLs included) and every choice of the opaque expressions:

* the comparison-vector distribution has exactly one row per distinct gamma vector (`GROUP BY` equality, NULL = NULL), its count is
  the number of rows with that vector, the counts are positive and add up to the number of rows, the proportions are count / rows
  and add up to 1 — and on the table of the model's gamma vectors it is `Descriptive.cvd`, row for row;
* the histogram has exactly one row per distinct value of the binning expression, its count is the number of rows mapped to it, no
  empty bin is listed, the counts add up to the number of rows, the upper edge is the lower edge plus the width — and with the bin
  as an input column it is `Descriptive.histogram`, row for row.

* the unlinkables listing (three statements: rounding, `GROUP BY match_probability` with `max`, `count(*)` and the window total, then
  `WHERE match_probability < 1` and the running `sum(prop) over (order by match_probability)`): for any self-link table and any two
  rounding expressions whose values on the table are integers (weights in hundredths) and `p / scale` (probabilities, `scale > 0`; 10^5
  in the code) it is `Descriptive.unlinkables`, row for row, in exact rationals: `prop` = share of the records with exactly that
  rounded probability, `cum_prop` = share of the records at or below it, each listed once, none at 1 or above.

Hence `C20.cvd_partitions` / `C20.histogram_partitions` / `C20.unlinkables_cumulative` / `C20.unlinkables_listed` /
`C20.unlinkables_weight_is_max` are theorems about the regenerated SQL.  A change to any of the SQL templates
changes `Generated/DescSql.lean` and these proofs (or the `rfl` checks there) stop checking.

`ORDER BY` of the final selects only orders the presentation and is not part of the terms.  What stays outside: *which* bin a weight
is mapped to (`bw * floor(w / bw)` in floating point — the theorems hold for whatever function of the row the engine computes), what
`round(x, k)` returns (any function of the row; its values are read in units of `10^-k`), and the final division to a 32-bit float
(`prop` is `count(*) / cast(sum(count(*)) over () as float)`, `cum_prop` a sum of such floats: exact numbers here).

Property theorems only; proofs are in `Lemmas/DescSql2.lean`.
-/
namespace SplinkVerif.C20Sql
open SplinkVerif SplinkVerif.Rel
open SplinkVerif.Lemmas.DescSql2 (keyOf gamConcatV sumGamV encVec castFloat encSelf)

/-! ### Comparison-vector distribution -/

/-- **The statement on any database, for any non-empty list of gamma columns** (`keyOf gs r` = the gamma vector of row `r`): one row
per distinct gamma vector, in the order of first occurrence: (gam_concat, sum_gam, number of rows with that vector, that number /
number of rows, the vector). -/
theorem sql_cvd_any_table (gs : List Expr) (hgs : gs ≠ []) (db : Db) :
    DescSql.cvd gs db
      = (((db "cv_in").map (keyOf gs)).eraseDups).map fun k =>
          [gamConcatV k, sumGamV k, Val.int (((db "cv_in").filter fun r => keyOf gs r == k).length : Nat),
           Val.rat ((((db "cv_in").filter fun r => keyOf gs r == k).length : Rat) / ((db "cv_in").length : Rat))] ++ k :=
  Lemmas.DescSql2.cvd_eval gs hgs db

/-- A row is returned iff it is the row of the gamma vector of some row of the table, with the recount of that vector. -/
theorem sql_cvd_mem_iff (gs : List Expr) (hgs : gs ≠ []) (db : Db) (row : Row) :
    row ∈ DescSql.cvd gs db ↔ ∃ r ∈ db "cv_in",
      row = [gamConcatV (keyOf gs r), sumGamV (keyOf gs r),
             Val.int (((db "cv_in").filter fun x => keyOf gs x == keyOf gs r).length : Nat),
             Val.rat ((((db "cv_in").filter fun x => keyOf gs x == keyOf gs r).length : Rat) / ((db "cv_in").length : Rat))]
            ++ keyOf gs r :=
  Lemmas.DescSql2.mem_cvd gs hgs db row

/-- **One row per distinct gamma vector**: the gamma columns of the result (everything after the four computed columns) are the
duplicate-free list of the gamma vectors of the table. -/
theorem sql_cvd_one_row_per_vector (gs : List Expr) (hgs : gs ≠ []) (db : Db) :
    (DescSql.cvd gs db).map (fun row => row.drop 4) = ((db "cv_in").map (keyOf gs)).eraseDups ∧
    ((DescSql.cvd gs db).map (fun row => row.drop 4)).Nodup := by
  rw [Lemmas.DescSql2.cvd_vectors gs hgs db]
  exact ⟨rfl, Lemmas.Rel.nodup_eraseDups _⟩

/-- **The counts partition the rows**: `count_rows_in_comparison_vector_group` is a column of positive integers that add up to the
number of rows of `__splink__df_predict`. -/
theorem sql_cvd_counts_add_up (gs : List Expr) (hgs : gs ≠ []) (db : Db) :
    ∃ cs : List Nat, (DescSql.cvd gs db).map (fun row => row.getD 2 Val.null) = cs.map (fun c => Val.int (c : Nat)) ∧
      cs.sum = (db "cv_in").length ∧ ∀ c ∈ cs, 0 < c :=
  Lemmas.DescSql2.cvd_counts gs hgs db

/-- **The proportions add up to 1** (exact numbers; the table has a row). -/
theorem sql_cvd_proportions_add_up (gs : List Expr) (hgs : gs ≠ []) (db : Db) (hne : db "cv_in" ≠ []) :
    ∃ qs : List Rat, (DescSql.cvd gs db).map (fun row => row.getD 3 Val.null) = qs.map Val.rat ∧ qs.sum = 1 :=
  Lemmas.DescSql2.cvd_proportions gs hgs db hne

/-- **Refinement.**  On the table of the `n ≥ 1` gamma columns of the scored pairs the statement returns exactly the rows of
`Descriptive.cvd`, row for row: (gam_concat, `sumGam`, `count`, exact number `count / total`, the gammas). -/
theorem sql_cvd_eq_model (n : Nat) (hn : 0 < n) (pairs : List (List Int)) (hp : ∀ p ∈ pairs, p.length = n) :
    DescSql.cvdOf n pairs
      = (Descriptive.cvd pairs).map fun r =>
          [gamConcatV (encVec r.gammas), Val.int r.sumGam, Val.int (r.count : Nat), Val.rat ((r.count : Rat) / (r.total : Rat))]
            ++ encVec r.gammas :=
  Lemmas.DescSql2.cvdOf_eq n hn pairs hp

/-- `sum_gam` of an integer gamma vector is the model's sum of `sumGamTerm` (−1 ↦ 0, 0 ↦ −1, g ↦ g). -/
theorem sql_cvd_sum_gam (g : List Int) : sumGamV (encVec g) = Val.int ((g.map Descriptive.sumGamTerm).sum) :=
  Lemmas.DescSql2.sumGamV_int g

/-! ### Match-weight histogram -/

/-- **The two statements of `_hist_sql` on any database, for any binning expression and width**: one row per distinct value of the
binning expression, in the order of first occurrence: (bin low, width, number of rows in the bin, bin low + width). -/
theorem sql_histogram_any_table (bin : Expr) (bw : Val) (db : Db) :
    DescSql.histogram bin bw db
      = (((db "pred_in").map bin.eval).eraseDups).map fun b =>
          [b, bw, Val.int (((db "pred_in").filter fun r => bin.eval r == b).length : Nat), Arith.add.eval b (castFloat bw)] :=
  Lemmas.DescSql2.histogram_eval bin bw db

/-- A row is returned iff it is the row of the bin of some row of the table, with the recount of that bin: **every scored pair is in
a listed bin, every listed bin holds a scored pair** (empty bins are not listed). -/
theorem sql_histogram_mem_iff (bin : Expr) (bw : Val) (db : Db) (row : Row) :
    row ∈ DescSql.histogram bin bw db ↔ ∃ r ∈ db "pred_in",
      row = [bin.eval r, bw, Val.int (((db "pred_in").filter fun x => bin.eval x == bin.eval r).length : Nat),
             Arith.add.eval (bin.eval r) (castFloat bw)] :=
  Lemmas.DescSql2.mem_histogram bin bw db row

/-- **One row per bin**: the `splink_score_bin_low` column is the duplicate-free list of the bins of the rows. -/
theorem sql_histogram_one_row_per_bin (bin : Expr) (bw : Val) (db : Db) :
    (DescSql.histogram bin bw db).map (fun row => row.getD 0 Val.null) = ((db "pred_in").map bin.eval).eraseDups ∧
    ((DescSql.histogram bin bw db).map (fun row => row.getD 0 Val.null)).Nodup := by
  rw [Lemmas.DescSql2.histogram_bins bin bw db]
  exact ⟨rfl, Lemmas.Rel.nodup_eraseDups _⟩

/-- **The bins partition the rows**: `count_rows` is a column of positive integers that add up to the number of rows of
`__splink__df_predict`. -/
theorem sql_histogram_counts_add_up (bin : Expr) (bw : Val) (db : Db) :
    ∃ cs : List Nat, (DescSql.histogram bin bw db).map (fun row => row.getD 2 Val.null) = cs.map (fun c => Val.int (c : Nat)) ∧
      cs.sum = (db "pred_in").length ∧ ∀ c ∈ cs, 0 < c :=
  Lemmas.DescSql2.histogram_counts bin bw db

/-- **Refinement.**  With the bin of every scored pair as an input column (`enc`: any injective reading of the model's bin keys as
SQL values) the statements return exactly the rows of `Descriptive.histogram`, row for row. -/
theorem sql_histogram_eq_model {W K : Type} [BEq K] [LawfulBEq K] (enc : K → Val) (henc : ∀ a b, enc a = enc b → a = b)
    (binLow : W → K) (ws : List W) (bw : Val) :
    DescSql.histogram (Expr.col 0) bw (Db.set (fun _ => []) "pred_in" (ws.map fun w => [enc (binLow w)]))
      = (Descriptive.histogram binLow ws).map fun b =>
          [enc b.1, bw, Val.int (b.2 : Nat), Arith.add.eval (enc b.1) (castFloat bw)] :=
  Lemmas.DescSql2.histogram_model enc henc binLow ws bw

/-- `splink_score_bin_high = splink_score_bin_low + cast(<bw> as float)` on numbers: an integer width literal (`1`, `2`, `5`) is cast to
the exact number first. -/
theorem sql_histogram_bin_high (x : Rat) :
    (∀ q : Rat, Arith.add.eval (Val.rat x) (castFloat (Val.rat q)) = Val.rat (x + q)) ∧
    (∀ i : Int, Arith.add.eval (Val.rat x) (castFloat (Val.int i)) = Val.rat (x + (i : Rat))) :=
  ⟨fun _ => rfl, fun _ => rfl⟩

/-! ### Unlinkables -/

/-- A row of the rounded self-link table as SQL values (definitional unfolding, for reference): the rounded weight in hundredths
as an integer, the rounded probability `p` units of `1 / scale` as the exact number `p / scale`. -/
theorem encSelf_def (scale : Nat) (r : Int × Int) :
    encSelf scale r = [Val.int r.1, Val.rat ((r.2 : Rat) / (scale : Rat))] := rfl

/-- **Refinement.**  The three statements of `unlinkables_data`, for any self-link table and any two rounding expressions `rw`, `rp`
whose values on the table are `rows` (`hround`), return exactly the rows of `Descriptive.unlinkables`, row for row:
(match_weight, match_probability, exact number `count / total`, exact number `cumCount / total`). -/
theorem sql_unlinkables_eq_model (scale : Nat) (hs : 0 < scale) (rows : List (Int × Int)) (rw rp : Expr) (db : Db)
    (hround : (db "self_in").map (fun r => [rw.eval r, rp.eval r]) = rows.map (encSelf scale)) :
    DescSql.unlinkables rw rp db
      = (Descriptive.unlinkables (scale : Int) rows).map fun r =>
          [Val.int r.weight, Val.rat ((r.prob : Rat) / (scale : Rat)), Val.rat ((r.count : Rat) / (r.total : Rat)),
           Val.rat ((r.cumCount : Rat) / (r.total : Rat))] :=
  Lemmas.DescSql2.unlinkables_eq scale hs rows rw rp db hround

/-- **Every listed row is an exact recount** (`C20.unlinkables_cumulative` and `C20.unlinkables_weight_is_max` at the level of the
SQL): the probability is below 1 and is the rounded self-match probability of some record; `prop` = (records with exactly that
probability) / (all records), positive; **`cum_prop` = (records scoring at or below it) / (all records)**; `match_weight` is the
largest rounded weight among the records with that probability. -/
theorem sql_unlinkables_cumulative (scale : Nat) (hs : 0 < scale) (rows : List (Int × Int)) (rw rp : Expr) (db : Db)
    (hround : (db "self_in").map (fun r => [rw.eval r, rp.eval r]) = rows.map (encSelf scale)) :
    ∀ row ∈ DescSql.unlinkables rw rp db, ∃ (w p : Int) (c cum : Nat),
      row = [Val.int w, Val.rat ((p : Rat) / (scale : Rat)), Val.rat ((c : Rat) / (rows.length : Rat)),
             Val.rat ((cum : Rat) / (rows.length : Rat))] ∧
      p < (scale : Int) ∧ p ∈ rows.map (·.2) ∧
      c = (rows.filter fun x => x.2 == p).length ∧ 0 < c ∧
      cum = (rows.filter fun x => decide (x.2 ≤ p)).length ∧
      (w, p) ∈ rows ∧ ∀ x ∈ rows, x.2 = p → x.1 ≤ w :=
  Lemmas.DescSql2.unlinkables_sql_rows scale hs rows rw rp db hround

/-- **Each probability below 1 is listed, once** (`C20.unlinkables_listed` at the level of the SQL). -/
theorem sql_unlinkables_listed (scale : Nat) (hs : 0 < scale) (rows : List (Int × Int)) (rw rp : Expr) (db : Db)
    (hround : (db "self_in").map (fun r => [rw.eval r, rp.eval r]) = rows.map (encSelf scale)) :
    ((DescSql.unlinkables rw rp db).map fun row => row.getD 1 Val.null).Nodup ∧
    ∀ x ∈ rows, x.2 < (scale : Int) →
      ∃ row ∈ DescSql.unlinkables rw rp db, row.getD 1 Val.null = Val.rat ((x.2 : Rat) / (scale : Rat)) :=
  Lemmas.DescSql2.unlinkables_sql_listed scale hs rows rw rp db hround

/-! ### Non-vacuity -/

/-- Three scored pairs, two comparisons, gamma vectors (1,0), (−1,1), (1,0) through the regenerated statement: two rows, counts 2 and
1, proportions 2/3 and 1/3, `sum_gam` 0 and 1. -/
example : DescSql.cvdOf 2 [[1, 0], [-1, 1], [1, 0]]
    = [[Val.str "1,0", Val.int 0, Val.int 2, Val.rat (2 / 3), Val.int 1, Val.int 0],
       [Val.str "-1,1", Val.int 1, Val.int 1, Val.rat (1 / 3), Val.int (-1), Val.int 1]] := by
  decide +kernel

/-- … and the model's rows. -/
example : (Descriptive.cvd [[1, 0], [-1, 1], [1, 0]]).map (fun r => (r.gammas, r.sumGam, r.count, r.total))
    = [([1, 0], 0, 2, 3), ([-1, 1], 1, 1, 3)] := by
  decide +kernel

/-- One comparison: `gam_concat` is the integer column itself, not a text. -/
example : DescSql.cvdOf 1 [[2], [2]] = [[Val.int 2, Val.int 2, Val.int 2, Val.rat 1, Val.int 2]] := by
  decide +kernel

/-- A NULL gamma is a group of its own (`GROUP BY` equality), `gam_concat` and `sum_gam` are then NULL; the gamma columns may sit
anywhere in the row (here positions 2 and 0). -/
example : DescSql.cvd [Expr.col 2, Expr.col 0]
      (Db.set (fun _ => []) "cv_in" [[Val.int 1, Val.str "x", Val.null], [Val.int 1, Val.str "y", Val.null]])
    = [[Val.null, Val.null, Val.int 2, Val.rat 1, Val.null, Val.int 1]] := by
  decide +kernel

/-- No scored pair: no row (the scalar subquery `count(*) = 0` is never divided by). -/
example : DescSql.cvdOf 2 [] = [] := by
  decide +kernel

/-- Weights in bins 5, 1, −2, 1 (width 1, an integer literal): three rows, the bin 1 holds two pairs; empty bins (0, 2, 3, 4, −1)
are not listed. -/
example : DescSql.histogram (Expr.col 0) (Val.int 1)
      (Db.set (fun _ => []) "pred_in" [[Val.rat 5], [Val.rat 1], [Val.rat (-2)], [Val.rat 1]])
    = [[Val.rat 5, Val.int 1, Val.int 1, Val.rat 6], [Val.rat 1, Val.int 1, Val.int 2, Val.rat 2],
       [Val.rat (-2), Val.int 1, Val.int 1, Val.rat (-1)]] := by
  decide +kernel

/-- … and the model's histogram of the same bins. -/
example : Descriptive.histogram (fun w : Int => w) [5, 1, -2, 1] = [(5, 1), (1, 2), (-2, 1)] := by
  decide +kernel

/-- No scored pair: no row. -/
example : DescSql.histogram (Expr.col 0) (Val.int 1) (fun _ => []) = [] := by
  decide +kernel

/-- Four records with rounded (weight, probability) = (1.20, 0.5), (0.80, 0.5), (3.00, 0.9), (5.00, 1.0) (scale 10): the probability 1
is not listed; 0.5: largest weight 1.20, prop 2/4, cum_prop 2/4; 0.9: prop 1/4, cum_prop 3/4. -/
example : DescSql.unlinkables (Expr.col 0) (Expr.col 1)
      (Db.set (fun _ => []) "self_in" ([(120, 5), (80, 5), (300, 9), (500, 10)].map (encSelf 10)))
    = [[Val.int 120, Val.rat (1 / 2), Val.rat (1 / 2), Val.rat (1 / 2)],
       [Val.int 300, Val.rat (9 / 10), Val.rat (1 / 4), Val.rat (3 / 4)]] := by
  decide +kernel

/-- … and the model's rows. -/
example : (Descriptive.unlinkables 10 [(120, 5), (80, 5), (300, 9), (500, 10)]).map
      (fun r => (r.weight, r.prob, r.count, r.cumCount, r.total))
    = [(120, 5, 2, 2, 4), (300, 9, 1, 3, 4)] := by
  decide +kernel

/-- The hypothesis `hround` is satisfiable with the expressions reading two columns of the table. -/
example : ((Db.set (fun _ => []) "self_in" ([(120, 5), (500, 10)].map (encSelf 10))) "self_in").map
      (fun r => [(Expr.col 0).eval r, (Expr.col 1).eval r]) = [(120, 5), (500, 10)].map (encSelf 10) := by
  decide +kernel

/-- All records score 1: nothing is listed; no record: nothing is listed. -/
example : DescSql.unlinkables (Expr.col 0) (Expr.col 1) (Db.set (fun _ => []) "self_in" ([(500, 10), (700, 10)].map (encSelf 10))) = [] ∧
    DescSql.unlinkables (Expr.col 0) (Expr.col 1) (fun _ => []) = [] := by
  decide +kernel

end SplinkVerif.C20Sql
