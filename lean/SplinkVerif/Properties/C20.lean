import SplinkVerif.Lemmas.Descriptive
/-!
# C20 — descriptive outputs are exact recounts of the data

Property theorems about `Model/Descriptive.lean`.  Every share is an exact pair
(numerator, denominator) of naturals; "sums to 1" is "numerators sum to the common
denominator, which is positive".  Columns are lists of `Option Nat` (`none` = NULL).
-/
namespace SplinkVerif.C20
open SplinkVerif SplinkVerif.Descriptive

/-- A row is in the TF table iff its value occurs (non-NULL) in the column, its numerator is the number of
cells holding that value and its denominator the number of non-NULL cells: `tf = relative frequency among
non-NULL values`.  NULL never has a row. -/
theorem tf_relative_frequency (col : List Val) (r : TfRow) :
    r ∈ tfTable col ↔
      some r.value ∈ col ∧ r.num = (col.filter fun v => v == some r.value).length ∧
      r.den = countNonNull col :=
  Lemmas.Desc.mem_tfTable col r

/-- Each value has one row, the numerators add up to the common denominator (the term frequencies sum to 1
whenever some cell is non-NULL), and no frequency is 0 or a division by 0. -/
theorem tf_sums_to_one (col : List Val) :
    ((tfTable col).map (·.value)).Nodup ∧
    ((tfTable col).map (·.num)).sum = countNonNull col ∧
    ∀ r ∈ tfTable col, r.den = countNonNull col ∧ 0 < r.num ∧ 0 < r.den :=
  ⟨Lemmas.Desc.tfTable_nodup col, Lemmas.Desc.tfTable_sum col, fun r h =>
    ⟨((Lemmas.Desc.mem_tfTable col r).1 h).2.2, Lemmas.Desc.tfTable_den_pos col r h⟩⟩

/-- The `LEFT JOIN` that puts `tf_<col>` on `__splink__df_concat_with_tf` (the table predict scores from)
returns exactly one row per input record, in order, carrying the TF table's entry for the record's value —
`count(value) / count(non-NULL)` — and NULL for a NULL value. -/
theorem tf_used_in_scoring (col : List Val) :
    leftJoinTf col (tfTable col) =
      col.map fun v => (v, v.map fun x => ((col.filter fun y => y == some x).length, countNonNull col)) :=
  Lemmas.Desc.leftJoinTf_tfTable col

/-- Every completeness row is a recount of its (dataset, column): `total_rows_inc_nulls` = rows of the dataset,
`completeness` = non-NULL cells / rows of the dataset, `total_null_rows` is the remainder, and the divisor is
positive. -/
theorem completeness_def (sd : List Nat) (col : List Val) (row : ComplRow)
    (h : row ∈ completenessCol sd col) :
    row.totalRows = ((sd.zip col).filter fun r => r.1 == row.sd).length ∧
    row.nonNullRows = ((sd.zip col).filter fun r => r.1 == row.sd && r.2.isSome).length ∧
    row.nullRows + row.nonNullRows = row.totalRows ∧ 0 < row.totalRows :=
  Lemmas.Desc.mem_completenessCol sd col row h

/-- One row per dataset that has records, every record's dataset is listed, and the row totals add up to the
number of records. -/
theorem completeness_covers (sd : List Nat) (col : List Val) :
    ((completenessCol sd col).map (·.sd)).Nodup ∧
    (∀ r ∈ sd.zip col, ∃ row ∈ completenessCol sd col, row.sd = r.1) ∧
    ((completenessCol sd col).map (·.totalRows)).sum = (sd.zip col).length :=
  Lemmas.Desc.completenessCol_groups sd col

/-- The comparison-vector distribution partitions the scored pairs: the counts add up to the number of pairs
(so the proportions `count / total` add up to 1), the listed vectors are distinct, every pair's vector is
listed (hence in exactly one group), and each count is the number of pairs with that vector. -/
theorem cvd_partitions (pairs : List (List Int)) :
    ((cvd pairs).map (·.count)).sum = pairs.length ∧
    ((cvd pairs).map (·.gammas)).Nodup ∧
    (∀ p ∈ pairs, ∃ row ∈ cvd pairs, row.gammas = p) ∧
    ∀ row ∈ cvd pairs, row.gammas ∈ pairs ∧
      row.count = (pairs.filter fun p => p == row.gammas).length ∧ 0 < row.count ∧
      row.total = pairs.length ∧ row.sumGam = (row.gammas.map sumGamTerm).sum :=
  Lemmas.Desc.cvd_spec pairs

/-- The histogram partitions the scored pairs for ANY bin function (in particular the library's
`bw * floor(w / bw)` at `Float`): counts add up to the number of pairs, bin keys are distinct, every pair's
bin is listed with the number of pairs falling in it, and there is no empty or invented bin. -/
theorem histogram_partitions {W K : Type} [BEq K] [LawfulBEq K] (binLow : W → K) (ws : List W) :
    ((histogram binLow ws).map (·.2)).sum = ws.length ∧
    ((histogram binLow ws).map (·.1)).Nodup ∧
    (∀ w ∈ ws, (binLow w, (ws.filter fun w' => binLow w' == binLow w).length) ∈ histogram binLow ws) ∧
    ∀ b ∈ histogram binLow ws, 0 < b.2 ∧ b.2 = (ws.filter fun w' => binLow w' == b.1).length ∧
      ∃ w ∈ ws, binLow w = b.1 :=
  Lemmas.Desc.histogram_spec binLow ws

/-- On exact numbers (weights and width in a common unit) the coded bin `bw * floor(w / bw)` contains its
weight in `[low, low + bw)` … -/
theorem histogram_bin_contains (bw w : Int) (h : 0 < bw) :
    binLowInt bw w ≤ w ∧ w < binLowInt bw w + bw :=
  Lemmas.Desc.binLowInt_contains bw w h

/-- … and is the only multiple of the width that does: each pair is in exactly one bin. -/
theorem histogram_bin_unique (bw w k : Int) (h : 0 < bw) (h1 : bw * k ≤ w) (h2 : w < bw * k + bw) :
    bw * k = binLowInt bw w :=
  Lemmas.Desc.binLowInt_unique bw w k h h1 h2

/-- `_bins` returns one of the eight listed widths, and none of them is closer to the rough width
`(max - min) / num_bins = num / den` hundredths. -/
theorem histogram_width_closest (num : Int) (den : Nat) :
    chooseWidthCenti num den ∈ binWidthsCenti ∧
    ∀ w ∈ binWidthsCenti,
      (chooseWidthCenti num den * den - num).natAbs ≤ (w * den - num).natAbs := by
  have h := Lemmas.Desc.bestBin_spec (fun w : Int => (w * den - num).natAbs) 1 binWidthsCenti
  refine ⟨?_, fun w hw => h.2 w (List.mem_cons_of_mem _ hw)⟩
  have hm := h.1
  simp only [List.mem_cons] at hm
  rcases hm with hm | hm
  · unfold chooseWidthCenti
    rw [hm]
    decide
  · exact hm

/-- Every listed self-match probability is below 1, occurs among the (rounded) self-link scores, and its row
gives the number of records with exactly that value, the number of records scoring at or below it (`cum_prop`
= that number / number of records) and the number of records. -/
theorem unlinkables_cumulative (one : Int) (rows : List (Int × Int)) (row : UnlRow)
    (h : row ∈ unlinkables one rows) :
    row.prob < one ∧ row.prob ∈ rows.map (·.2) ∧
    row.count = (rows.filter fun x => x.2 == row.prob).length ∧
    row.cumCount = (rows.filter fun x => decide (x.2 ≤ row.prob)).length ∧
    row.total = rows.length ∧ 0 < row.count :=
  Lemmas.Desc.mem_unlinkables one rows row h

/-- Each rounded self-match probability below 1 is listed exactly once. -/
theorem unlinkables_listed (one : Int) (rows : List (Int × Int)) :
    ((unlinkables one rows).map (·.prob)).Nodup ∧
    ∀ x ∈ rows, x.2 < one → ∃ row ∈ unlinkables one rows, row.prob = x.2 :=
  Lemmas.Desc.unlinkables_listed one rows

/-- The `match_weight` shown beside a listed probability is the largest (rounded) weight among the records
with that probability. -/
theorem unlinkables_weight_is_max (one : Int) (rows : List (Int × Int)) (row : UnlRow)
    (h : row ∈ unlinkables one rows) :
    (row.weight, row.prob) ∈ rows ∧ ∀ x ∈ rows, x.2 = row.prob → x.1 ≤ row.weight :=
  Lemmas.Desc.unlinkables_weight one rows row h

/-- Half-away-from-zero rounding (DuckDB's `round(x, k)` on an exact value) moves a value by at most half a
unit: `|round(n/d · s) − n/d · s| ≤ 1/2`, cleared of denominators. -/
theorem round_within_half_unit (n : Int) (d scale : Nat) (hd : 0 < d) :
    2 * (d : Int) * roundHalfAway n d scale - 2 * n * scale ≤ d ∧
    2 * n * scale - 2 * (d : Int) * roundHalfAway n d scale ≤ d :=
  Lemmas.Desc.roundHalfAway_error n d scale hd

/-! ## Non-vacuity -/

-- column [x, NULL, y, x]: tf(x) = 2/3, tf(y) = 1/3
example : tfTable [some 7, none, some 9, some 7] = [⟨7, 2, 3⟩, ⟨9, 1, 3⟩] := by decide
example : leftJoinTf [some 7, none, some 9] (tfTable [some 7, none, some 9, some 7]) =
    [(some 7, some (2, 3)), (none, none), (some 9, some (1, 3))] := by decide
-- all-NULL column: empty TF table
example : tfTable [none, none] = [] := by decide
-- two datasets, second all NULL
example : completenessCol [0, 0, 1, 0] [some 1, none, none, some 2] = [⟨0, 1, 3, 2⟩, ⟨1, 1, 1, 0⟩] := by decide
example : cvd [[1, -1], [0, 0], [1, -1]] = [⟨[1, -1], 1, 2, 3⟩, ⟨[0, 0], -2, 1, 3⟩] := by decide
-- weights -7, -1, 0, 3, 4 (hundredths) with width 5: bins -10, -5, 0
example : histogram (binLowInt 5) [-7, -1, 0, 3, 4] = [(-10, 1), (-5, 1), (0, 3)] := by decide
example : chooseWidthCenti 30 1 = 25 := by decide
example : chooseWidthCenti 15 1 = 10 := by decide  -- tie between 10 and 20: the first wins
-- three records at p = 0.5, 0.5, 1.0 (rounded): the p = 1 row is dropped but still counts in the denominator
example : unlinkables 100000 [(0, 50000), (3, 50000), (900, 100000), (-100, 20000)] =
    [⟨3, 50000, 2, 3, 4⟩, ⟨-100, 20000, 1, 1, 4⟩] := by decide
example : roundHalfAway 5 2 1 = 3 ∧ roundHalfAway (-5) 2 1 = -3 ∧ roundHalfAway 1 3 100 = 33 := by decide

end SplinkVerif.C20
