import SplinkVerif.Lemmas.BCountSql
/-!
# C14 at the level of the emitted SQL: the blocking-analysis counting pipeline

`Generated/BCountSql.lean` holds the statements `count_comparisons_from_blocking_rule` and `n_largest_blocks` emit **now**
(T-sql translator, regenerated on every run from real runs with marker key columns); `Model/BCountSql.lean` is the Python
control flow around them (the loop over the rule's equi-join conditions, the two table set-ups, the no-key branch, the
`None → 0` post-processing of the total).  The theorems say that this pipeline, evaluated with the SQL semantics `Rel.eval`,

* reports as pre-filter count exactly the size of the equi-join of the two inputs on the key expressions under SQL
  equality (NULL never joins) — for EVERY table contents (any rows, any values, NULL keys), EVERY list of `k ≥ 1` key
  expression pairs, both table set-ups — which is the sum over key values of left × right block sizes;
* lists in `__splink__block_counts` exactly one row per block (a key tuple present on both sides, NULL-free) with its true
  sizes;
* with no key reports `|L| · |R|`;
* in `n_largest_blocks` returns, for every way the engine may resolve ties, truly largest blocks in descending order.

The key expressions are parameters (`Expr`), the tables are arbitrary (`db`), so nothing here depends on the capture's data.
Property theorems only; proofs are in `Lemmas/BCountSql.lean` and `Lemmas/Rel.lean`.
-/
namespace SplinkVerif.C14Sql
open SplinkVerif SplinkVerif.Rel SplinkVerif.BCountSql

/-- **The hand-written loop forms are the regenerated statements.**  For every captured run (self-join of
`__splink__df_concat` with 1, 2, 3, 0 keys; the two tables of a two-table link_only job with 1, 2, 0 keys; `n_largest_blocks`
in both set-ups) the statement list the code emitted is, syntactically, `countStmts` / `nLargestStmts` at that key list, and
the `ORDER BY` key is `topKey`, descending.  A change of the emitted SQL breaks this theorem. -/
theorem generated_statements_are_the_loop_instances (kl0 kl1 kl2 kr0 kr1 kr2 : Expr) :
    Gen.BCountSql.self1Stmts kl0 kr0 = countStmts false [(kl0, kr0)] ∧
    Gen.BCountSql.self2Stmts kl0 kl1 kr0 kr1 = countStmts false [(kl0, kr0), (kl1, kr1)] ∧
    Gen.BCountSql.self3Stmts kl0 kl1 kl2 kr0 kr1 kr2 = countStmts false [(kl0, kr0), (kl1, kr1), (kl2, kr2)] ∧
    Gen.BCountSql.two1Stmts kl0 kr0 = countStmts true [(kl0, kr0)] ∧
    Gen.BCountSql.two2Stmts kl0 kl1 kr0 kr1 = countStmts true [(kl0, kr0), (kl1, kr1)] ∧
    Gen.BCountSql.self0Stmts = countStmts false [] ∧
    Gen.BCountSql.two0Stmts = countStmts true [] ∧
    (Gen.BCountSql.nlSelf1Stmts kl0 kr0 = nLargestStmts false [(kl0, kr0)] ∧
      Gen.BCountSql.nlSelf1BlocksTopKey = topKey 1 ∧ Gen.BCountSql.nlSelf1BlocksTopDesc = true) ∧
    (Gen.BCountSql.nlTwo2Stmts kl0 kl1 kr0 kr1 = nLargestStmts true [(kl0, kr0), (kl1, kr1)] ∧
      Gen.BCountSql.nlTwo2BlocksTopKey = topKey 2 ∧ Gen.BCountSql.nlTwo2BlocksTopDesc = true) ∧
    (Gen.BCountSql.nlSelf3Stmts kl0 kl1 kl2 kr0 kr1 kr2 = nLargestStmts false [(kl0, kr0), (kl1, kr1), (kl2, kr2)] ∧
      Gen.BCountSql.nlSelf3BlocksTopKey = topKey 3 ∧ Gen.BCountSql.nlSelf3BlocksTopDesc = true) :=
  ⟨Lemmas.BCountSql.gen_self1 kl0 kr0, Lemmas.BCountSql.gen_self2 kl0 kl1 kr0 kr1,
   Lemmas.BCountSql.gen_self3 kl0 kl1 kl2 kr0 kr1 kr2, Lemmas.BCountSql.gen_two1 kl0 kr0,
   Lemmas.BCountSql.gen_two2 kl0 kl1 kr0 kr1, Lemmas.BCountSql.gen_self0, Lemmas.BCountSql.gen_two0,
   Lemmas.BCountSql.gen_nlSelf1 kl0 kr0, Lemmas.BCountSql.gen_nlTwo2 kl0 kl1 kr0 kr1,
   Lemmas.BCountSql.gen_nlSelf3 kl0 kl1 kl2 kr0 kr1 kr2⟩

/-- **Refinement (1): the pre-filter count is the size of the equi-join.**  For every database, both set-ups and every
non-empty list of key expression pairs, `number_of_comparisons_generated_pre_filter_conditions` (the `sum(block_count)` of
the pipeline, `None` read as 0) is the number of pairs (row of the left input, row of the right input) whose key tuples are
equal and free of NULL. -/
theorem sql_prefilter_eq_equijoin (two : Bool) (keys : List (Expr × Expr)) (hk : keys ≠ []) (db : Db) :
    preFilterTotal two keys db = equiJoinSize keys (db (tableL two)) (db (tableR two)) :=
  Lemmas.BCountSql.preFilterTotal_eq two keys hk db

/-- … which is the sum over the blocks of `count_l * count_r` (the property's wording). -/
theorem sql_prefilter_eq_sum_of_block_products (two : Bool) (keys : List (Expr × Expr)) (hk : keys ≠ []) (db : Db) :
    preFilterTotal two keys db
      = ((blockKeys keys (db (tableL two)) (db (tableR two))).map fun k =>
          cntL keys (db (tableL two)) k * cntR keys (db (tableR two)) k).sum :=
  Lemmas.BCountSql.preFilterTotal_eq_sum two keys hk db

/-- **Refinement to the functional model**: the SQL total is `BlockingAnalysis.preFilterCount` on record indices with the key
tuples coded as `Option Nat` (`none` = some component NULL) — the request `harness/props/c14.py` sends to the compiled model —
for every coding injective on the tuples in play; so `C14.prefilter_eq_block_products` speaks about the regenerated SQL. -/
theorem sql_prefilter_eq_model (two : Bool) (keys : List (Expr × Expr)) (hk : keys ≠ []) (db : Db)
    (code : List Val → Nat)
    (hinj : ∀ a ∈ (db (tableL two)).map (keyOf (keys.map (·.1))) ++ (db (tableR two)).map (keyOf (keys.map (·.2))),
            ∀ b ∈ (db (tableL two)).map (keyOf (keys.map (·.1))) ++ (db (tableR two)).map (keyOf (keys.map (·.2))),
              code a = code b → a = b) :
    preFilterTotal two keys db =
      BlockingAnalysis.preFilterCount (List.range (db (tableL two)).length) (List.range (db (tableR two)).length)
        (Lemmas.BCountSql.codedKey code (keys.map (·.1)) (db (tableL two)))
        (Lemmas.BCountSql.codedKey code (keys.map (·.2)) (db (tableR two))) := by
  rw [Lemmas.BCountSql.preFilterTotal_eq two keys hk db]
  exact Lemmas.BCountSql.equiJoinSize_eq_model keys _ _ code hinj

/-- **Refinement (2): each row of `__splink__block_counts` is one block.**  The table is, row for row, one row
`(count_l, count_r, count_l * count_r)` per block key; the block keys are distinct, and a key tuple is a block key iff it
occurs on the left, occurs on the right and has no NULL component; `count_l` / `count_r` are the numbers of rows of each side
with that key tuple (both positive). -/
theorem sql_blocks_exact (two : Bool) (keys : List (Expr × Expr)) (hk : keys ≠ []) (db : Db) :
    let L := db (tableL two)
    let R := db (tableR two)
    blocks two keys db = (blockKeys keys L R).map (blockRow keys L R) ∧
    (blockKeys keys L R).Nodup ∧
    (∀ k, k ∈ blockKeys keys L R ↔
      (∃ l ∈ L, keyOf (keys.map (·.1)) l = k) ∧ (∃ r ∈ R, keyOf (keys.map (·.2)) r = k) ∧ ∀ v ∈ k, v ≠ Val.null) ∧
    (∀ k ∈ blockKeys keys L R,
      cntL keys L k = (L.filter fun l => keyOf (keys.map (·.1)) l == k).length ∧
      cntR keys R k = (R.filter fun r => keyOf (keys.map (·.2)) r == k).length ∧
      0 < cntL keys L k ∧ 0 < cntR keys R k) := by
  intro L R
  refine ⟨Lemmas.BCountSql.blocks_eq two keys hk db, Lemmas.BCountSql.nodup_blockKeys keys L R,
    Lemmas.BCountSql.mem_blockKeys keys L R, ?_⟩
  intro k hk'
  have h := (Lemmas.BCountSql.mem_blockKeys keys L R k).mp hk'
  exact ⟨rfl, rfl, Lemmas.BCountSql.sizeOf_pos _ L k h.1, Lemmas.BCountSql.sizeOf_pos _ R k h.2.1⟩

/-- **Refinement (3): no equi-join key** — one row `(|L|, |R|, |L| · |R|)` and the total `|L| · |R|` (the self-join form
`count(*) * count(*)` and the two scalar subqueries of the two-table form). -/
theorem sql_prefilter_no_keys (two : Bool) (db : Db) :
    preFilterTotal two [] db = (db (tableL two)).length * (db (tableR two)).length ∧
    blocks two [] db = [[Val.int ((db (tableL two)).length : Nat), Val.int ((db (tableR two)).length : Nat),
      Val.int (((db (tableL two)).length : Nat) * ((db (tableR two)).length : Nat))]] := by
  refine ⟨Lemmas.BCountSql.preFilterTotal_noKeys two db, ?_⟩
  cases two
  · exact Lemmas.BCountSql.blocks_noKeys_self db
  · exact Lemmas.BCountSql.blocks_noKeys_two db

/-- **Refinement (4): `n_largest_blocks` lists truly largest blocks, whatever the engine does with ties.**  For EVERY possible
result `out` of the final `ORDER BY count_l * count_r DESC LIMIT n` (`IsNLargest`: the first `n` rows of any arrangement in
which no row precedes a row with a strictly larger product): `out` consists of `min n (#blocks)` distinct blocks, each row is
`key ++ (count_l, count_r, count_l * count_r)` of a block key, in descending order of block size, and every block that is not
listed is no larger than every listed one. -/
theorem sql_n_largest (two : Bool) (keys : List (Expr × Expr)) (hk : keys ≠ []) (db : Db) (n : Nat) (out : List Row)
    (h : IsNLargest two keys db n out) :
    let L := db (tableL two)
    let R := db (tableR two)
    ∃ ks : List (List Val),
      out = ks.map (fun k => k ++ blockRow keys L R k) ∧
      ks.Nodup ∧ (∀ k ∈ ks, k ∈ blockKeys keys L R) ∧
      ks.length = min n (blockKeys keys L R).length ∧
      ks.Pairwise (fun a b => cntL keys L a * cntR keys R a ≥ cntL keys L b * cntR keys R b) ∧
      ∀ a ∈ ks, ∀ b ∈ blockKeys keys L R, b ∉ ks →
        cntL keys L a * cntR keys R a ≥ cntL keys L b * cntR keys R b :=
  Lemmas.BCountSql.nLargest_spec two keys hk db n out h

/-- The statement is not vacuous: the resolution the driver evaluates (stable insertion sort, then the cut) is a possible
result, for every database. -/
theorem sql_n_largest_has_result (two : Bool) (keys : List (Expr × Expr)) (hk : keys ≠ []) (db : Db) (n : Nat) :
    IsNLargest two keys db n (nLargest two keys db n) :=
  Lemmas.BCountSql.isNLargest_nLargest two keys hk db n

/-- The theorems read on a regenerated term directly: the statements the two-table link_only run emitted for two keys,
run on any database, report the size of the equi-join of `input_0` and `input_1`. -/
theorem sql_prefilter_generated_two2 (kl0 kl1 kr0 kr1 : Expr) (db : Db) :
    totalOf ((runStmts db (Gen.BCountSql.two2Stmts kl0 kl1 kr0 kr1)) "__splink__total_of_block_counts")
      = equiJoinSize [(kl0, kr0), (kl1, kr1)] (db "input_0") (db "input_1") := by
  rw [Lemmas.BCountSql.gen_two2]
  exact Lemmas.BCountSql.preFilterTotal_eq true [(kl0, kr0), (kl1, kr1)] (by simp) db

/-- … and the statements of the self-join run with one key. -/
theorem sql_prefilter_generated_self1 (kl0 kr0 : Expr) (db : Db) :
    totalOf ((runStmts db (Gen.BCountSql.self1Stmts kl0 kr0)) "__splink__total_of_block_counts")
      = equiJoinSize [(kl0, kr0)] (db "__splink__df_concat") (db "__splink__df_concat") := by
  rw [Lemmas.BCountSql.gen_self1]
  exact Lemmas.BCountSql.preFilterTotal_eq false [(kl0, kr0)] (by simp) db

/-- **`__splink__df_concat`.**  The hand-written loop form over the input tables is the regenerated statement for 1, 2 and 3
input tables; it evaluates to the rows of the input tables in order (with the table's alias in front as `source_dataset` when
there are several), whenever every input row has the `w` columns the statement lists; and the whole self-join pipeline —
`__splink__df_concat` included — reports the size of the equi-join of these concatenated rows with themselves. -/
theorem sql_concat (w : Nat) (names : List String) (hne : names ≠ []) (keys : List (Expr × Expr)) (hk : keys ≠ [])
    (db : Db) (hw : ∀ n ∈ names, ∀ row ∈ db n, row.length = w) :
    (Gen.BCountSql.self1Concat = concatStmt 7 ["input_0"] ∧
      Gen.BCountSql.self2Concat = concatStmt 7 ["input_0", "input_1"] ∧
      Gen.BCountSql.self3Concat = concatStmt 7 ["input_0", "input_1", "input_2"]) ∧
    (concatStmt w names).eval db = concatRows names db ∧
    totalOf ((runStmts db (selfCountStmts w names keys)) nameTotal)
      = equiJoinSize keys (concatRows names db) (concatRows names db) :=
  ⟨⟨Lemmas.BCountSql.gen_concat.1, Lemmas.BCountSql.gen_concat.2.1, Lemmas.BCountSql.gen_concat.2.2.1⟩,
   Lemmas.BCountSql.concat_eval w names hne db hw,
   Lemmas.BCountSql.selfCount_total w names hne keys hk db hw⟩

/-- **`_row_counts_per_input_table`** (the regenerated `__splink__df_count` statements): `dedupe_only` — one row holding the number
of rows of `__splink__df_concat`; otherwise one row per distinct value of the source dataset column, holding the number of rows
with that value; and these counts are the functional model's per-dataset counts `sdCounts t` for every table `t` whose `sd`
is an injective coding of that column. -/
theorem sql_row_counts (sd : Expr) (db : Db) :
    rowCounts true sd db = [[Val.int ((db nameConcat).length : Nat)]] ∧
    rowCounts false sd db
      = (((db nameConcat).map sd.eval).eraseDups).map (fun s =>
          [Val.int (((db nameConcat).filter fun r => sd.eval r == s).length : Nat)]) ∧
    ∀ (t : Blocking.Table) (code : Val → Nat), (∀ a b, code a = code b → a = b) → t.m = (db nameConcat).length →
      (∀ i, i < t.m → t.sd i = code (sd.eval ((db nameConcat).getD i []))) →
      countsOf (rowCounts false sd db) = Lemmas.BA.sdCounts t :=
  ⟨Lemmas.BCountSql.rowCounts_dedupe sd db, Lemmas.BCountSql.rowCounts_bySd sd db,
   fun t code hinj hm hsd => Lemmas.BCountSql.countsOf_bySd sd db t code hinj hm hsd⟩

/-- **The Cartesian count derived from the SQL row counts is the number of admissible pairs** (`link_only`, at least two
non-empty datasets): the *generated* `calculate_cartesian` applied to the counts the regenerated statement returns. -/
theorem sql_cartesian_link_only (sd : Expr) (db : Db) (t : Blocking.Table) (code : Val → Nat)
    (hinj : ∀ a b, code a = code b → a = b) (hm : t.m = (db nameConcat).length)
    (hsd : ∀ i, i < t.m → t.sd i = code (sd.eval ((db nameConcat).getD i [])))
    (hwf : Lemmas.Blk.WFKeys t) (hk : 2 ≤ (rowCounts false sd db).length) :
    Gen.calculate_cartesian ((countsOf (rowCounts false sd db)).map fun (n : ℕ) => (n : ℚ)) "link_only" =
      some ((BlockingAnalysis.admissiblePairs .linkOnly t : ℕ) : ℚ) := by
  have hc := Lemmas.BCountSql.countsOf_bySd sd db t code hinj hm hsd
  have hk' : 2 ≤ (Lemmas.BA.sdCounts t).length := by
    rw [← hc]; simpa [countsOf] using hk
  rw [hc]
  exact Lemmas.BA.cartesian_link_only t hwf hk'

/-- … `link_and_dedupe` … -/
theorem sql_cartesian_link_and_dedupe (sd : Expr) (db : Db) (t : Blocking.Table) (code : Val → Nat)
    (hinj : ∀ a b, code a = code b → a = b) (hm : t.m = (db nameConcat).length)
    (hsd : ∀ i, i < t.m → t.sd i = code (sd.eval ((db nameConcat).getD i [])))
    (hwf : Lemmas.Blk.WFKeys t) :
    Gen.calculate_cartesian ((countsOf (rowCounts false sd db)).map fun (n : ℕ) => (n : ℚ)) "link_and_dedupe" =
      some ((BlockingAnalysis.admissiblePairs .linkAndDedupe t : ℕ) : ℚ) := by
  rw [Lemmas.BCountSql.countsOf_bySd sd db t code hinj hm hsd]
  exact Lemmas.BA.cartesian_link_and_dedupe t hwf _ (Lemmas.BA.sdCounts_sum t)

/-- … and `dedupe_only` (one `count(*)`). -/
theorem sql_cartesian_dedupe (sd : Expr) (db : Db) (t : Blocking.Table) (hm : t.m = (db nameConcat).length)
    (hwf : Lemmas.Blk.WFKeys t) :
    Gen.calculate_cartesian ((countsOf (rowCounts true sd db)).map fun (n : ℕ) => (n : ℚ)) "dedupe_only" =
      some ((BlockingAnalysis.admissiblePairs .dedupeOnly t : ℕ) : ℚ) := by
  rw [Lemmas.BCountSql.rowCounts_dedupe, ← hm]
  exact Lemmas.BA.cartesian_dedupe t hwf

/-! ## Non-vacuity -/

/-- keys `[a, a, b, NULL]` joined with themselves on column 0: blocks a (2×2) and b (1×1), the NULL row joins nothing. -/
def demoDb : Db := Db.set (fun _ => []) "__splink__df_concat" [[Val.int 7], [Val.int 7], [Val.int 9], [Val.null]]

example : preFilterTotal false [(Expr.col 0, Expr.col 0)] demoDb = 5 ∧
    blocks false [(Expr.col 0, Expr.col 0)] demoDb = [[Val.int 2, Val.int 2, Val.int 4], [Val.int 1, Val.int 1, Val.int 1]] ∧
    nLargest false [(Expr.col 0, Expr.col 0)] demoDb 1 = [[Val.int 7, Val.int 2, Val.int 2, Val.int 4]] ∧
    preFilterTotal false [] demoDb = 16 := by
  decide +kernel

/-- two tables, two keys (one of them NULL on the right for the second row): only (x, p) joins. -/
example : preFilterTotal true [(Expr.col 0, Expr.col 0), (Expr.col 1, Expr.col 1)]
    (Db.set (Db.set (fun _ => []) "input_0" [[Val.str "x", Val.str "p"], [Val.str "x", Val.str "q"], [Val.str "x", Val.str "p"]])
      "input_1" [[Val.str "x", Val.str "p"], [Val.str "x", Val.null], [Val.str "y", Val.str "p"]]) = 2 := by
  decide +kernel

/-- two input tables under link_and_dedupe: the concatenation has the alias in column 0, the key is column 1 -/
example : totalOf ((runStmts (Db.set (Db.set (fun _ => []) "a" [[Val.int 7], [Val.int 9]]) "b" [[Val.int 7], [Val.null]])
      (selfCountStmts 1 ["a", "b"] [(Expr.col 1, Expr.col 1)])) nameTotal) = 5 ∧
    concatRows ["a", "b"] (Db.set (Db.set (fun _ => []) "a" [[Val.int 7], [Val.int 9]]) "b" [[Val.int 7], [Val.null]])
      = [[Val.str "a", Val.int 7], [Val.str "a", Val.int 9], [Val.str "b", Val.int 7], [Val.str "b", Val.null]] := by
  decide +kernel

/-- row counts per dataset: datasets `a, b, a` (column 0) -/
example : rowCounts false (Expr.col 0) (Db.set (fun _ => []) "__splink__df_concat" [[Val.str "a"], [Val.str "b"], [Val.str "a"]])
      = [[Val.int 2], [Val.int 1]] ∧
    countsOf (rowCounts false (Expr.col 0) (Db.set (fun _ => []) "__splink__df_concat" [[Val.str "a"], [Val.str "b"], [Val.str "a"]]))
      = [2, 1] ∧
    rowCounts true (Expr.col 0) (Db.set (fun _ => []) "__splink__df_concat" [[Val.str "a"], [Val.str "b"], [Val.str "a"]])
      = [[Val.int 3]] := by
  decide +kernel

/-- an empty result: `sum` over no rows is NULL, which the Python code reads as 0. -/
example : (runStmts (Db.set (fun _ => []) "__splink__df_concat" [[Val.null]])
      (countStmts false [(Expr.col 0, Expr.col 0)])) "__splink__total_of_block_counts" = [[Val.null]] ∧
    preFilterTotal false [(Expr.col 0, Expr.col 0)] (Db.set (fun _ => []) "__splink__df_concat" [[Val.null]]) = 0 := by
  decide +kernel

end SplinkVerif.C14Sql
