import SplinkVerif.Lemmas.BlockingAnalysis
/-!
# C14 — blocking analysis reports the numbers blocking actually produces

Property theorems about `Model/BlockingAnalysis.lean`, `Model/Blocking.lean` and the
*generated* `Gen.calculate_cartesian` (`Generated/Arith.lean`, re-translated from
`misc.py` on every run and instantiated at `ℚ` by `Lemmas.BA.instANumRat`).
-/
namespace SplinkVerif.C14
open SplinkVerif SplinkVerif.Blocking SplinkVerif.BlockingAnalysis

/-- Pre-filter count = Σ over equi-join key values of left × right block sizes = the
size of the equi-join; NULL keys never join. -/
theorem prefilter_eq_block_products (L R : List Nat) (keyL keyR : Nat → Option Nat) :
    preFilterCount L R keyL keyR =
      (joinFilter L R fun l r => (keyL l).isSome && keyL l == keyR r).length :=
  Lemmas.BA.preFilterCount_eq L R keyL keyR

/-- Every reported block is a key value present on both sides with its true sizes. -/
theorem block_counts_exact (L R : List Nat) (keyL keyR : Nat → Option Nat) (v cl cr : Nat) :
    (v, cl, cr) ∈ blockCounts L R keyL keyR ↔
      cl = (L.filter fun i => keyL i == some v).length ∧
      cr = (R.filter fun i => keyR i == some v).length ∧ 0 < cl ∧ 0 < cr :=
  Lemmas.BA.mem_blockCounts L R keyL keyR v cl cr

/-- Post-filter count = number of pairs blocking would score for that rule and link type. -/
theorem postfilter_eq_blocking (lt : LinkType) (t : Table) (rule : Nat → Nat → B3)
    (hlt : lt ≠ .twoDatasetLinkOnly) (s : Nat) :
    postFilterCount lt t s rule = (block lt t [{ kind := .plain, eval := rule }]).length :=
  Lemmas.BA.postFilterCount_eq_block lt t rule hlt s

/-- …also for the two-table `link_only` split, when the first table is the lower dataset. -/
theorem postfilter_eq_blocking_two (t : Table) (rule : Nat → Nat → B3) :
    postFilterCount .twoDatasetLinkOnly t (minSd t) rule =
      (block .twoDatasetLinkOnly t [{ kind := .plain, eval := rule }]).length :=
  Lemmas.BA.postFilterCount_eq_block_two t rule

/-- The marginal counts add up to the number of scored pairs, and each is the number
of emitted rows carrying that `match_key` (zero for silent rules). -/
theorem cumulative_eq_matchkey_counts (lt : LinkType) (t : Table) (rules : List Rule)
    (hne : rules ≠ []) :
    (rowCounts lt t rules).sum = (block lt t rules).length ∧
    ∀ i, i < rules.length →
      (rowCounts lt t rules)[i]? = some ((block lt t rules).filter fun row => row.1 == i).length :=
  Lemmas.BA.rowCounts_spec lt t rules hne

/-- `cumulative_rows` is the running total and `start` the total before the rule. -/
theorem cumulative_running (lt : LinkType) (t : Table) (rules : List Rule) (i : Nat) (row : CumRow)
    (h : (cumulative lt t rules)[i]? = some row) :
    row.cumulativeRows = ((rowCounts lt t rules).take (i + 1)).sum ∧
    row.start = ((rowCounts lt t rules).take i).sum ∧
    row.rowCount = (rowCounts lt t rules)[i]?.getD 0 :=
  Lemmas.BA.cumulative_spec lt t rules i row h

/-- `cartesian` (the generated `calculate_cartesian`) = number of admissible pairs, `dedupe_only`. -/
theorem cartesian_dedupe (t : Table) (hwf : Lemmas.Blk.WFKeys t) :
    Gen.calculate_cartesian [(t.m : ℚ)] "dedupe_only" = some ((admissiblePairs .dedupeOnly t : ℕ) : ℚ) :=
  Lemmas.BA.cartesian_dedupe t hwf

/-- …`link_and_dedupe`: per-dataset counts `ns` summing to the table size. -/
theorem cartesian_link_and_dedupe (t : Table) (hwf : Lemmas.Blk.WFKeys t) (ns : List Nat)
    (hsum : ns.sum = t.m) :
    Gen.calculate_cartesian (ns.map fun (n : ℕ) => (n : ℚ)) "link_and_dedupe" =
      some ((admissiblePairs .linkAndDedupe t : ℕ) : ℚ) :=
  Lemmas.BA.cartesian_link_and_dedupe t hwf ns hsum

/-- …`link_only`: `((Σn)² − Σn²)/2` = number of pairs of records from different datasets. -/
theorem cartesian_link_only (t : Table) (hwf : Lemmas.Blk.WFKeys t) (hk : 2 ≤ (Lemmas.BA.sdCounts t).length) :
    Gen.calculate_cartesian ((Lemmas.BA.sdCounts t).map fun (n : ℕ) => (n : ℚ)) "link_only" =
      some ((admissiblePairs .linkOnly t : ℕ) : ℚ) :=
  Lemmas.BA.cartesian_link_only t hwf hk

/-- `n_largest_blocks`: the result is sorted by block size descending, has
`min n (#blocks)` rows, consists of reported blocks, and no omitted block is larger
than a listed one. -/
theorem n_largest_sorted (n : Nat) (blocks : List (Nat × Nat × Nat)) :
    (nLargest n blocks).length = min n blocks.length ∧
    (nLargest n blocks).Pairwise (fun a b => a.2.1 * a.2.2 ≥ b.2.1 * b.2.2) ∧
    (∀ b ∈ nLargest n blocks, b ∈ blocks) ∧
    ∃ rest, (nLargest n blocks ++ rest).Perm blocks ∧
      ∀ a ∈ nLargest n blocks, ∀ b ∈ rest, a.2.1 * a.2.2 ≥ b.2.1 * b.2.2 :=
  Lemmas.BA.nLargest_spec n blocks

/-- Non-vacuity: keys `[a, a, b, NULL]` joined with themselves: blocks a (2×2) and b (1×1). -/
example : preFilterCount [0, 1, 2, 3] [0, 1, 2, 3]
    (fun i => [some 7, some 7, some 9, none].getD i none)
    (fun i => [some 7, some 7, some 9, none].getD i none) = 5 := by decide

end SplinkVerif.C14
