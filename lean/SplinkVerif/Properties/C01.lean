import SplinkVerif.Lemmas.Blocking
/-!
# C01 — blocking yields exactly the rule-satisfying pairs, each once, attributed to the first rule

Property theorems about `Model/Blocking.lean`.  They hold for every table
(any number of records, any key/source-dataset assignment with distinct keys),
every link type, every list of rules of any length, each rule *any* function
`Nat → Nat → B3` (so NULL outcomes, AND/OR/NOT, asymmetric rules are all
covered), and any mix of plain, salted and exploding rules.
-/
namespace SplinkVerif.C01
open SplinkVerif SplinkVerif.Blocking

/-- Composite ids identify records:
`∀ i j, i < t.m → j < t.m → t.key i = t.key j → i = j`
(defined in `Lemmas/Blocking.lean`). -/
abbrev WFKeys := @Lemmas.Blk.WFKeys

/-- Salting is well formed: at least one partition and every record falls in one:
`∀ r ∈ rules, ∀ n, r.kind = .salted n → 0 < n ∧ ∀ i, i < t.m → t.part i n < n`. -/
abbrev SaltOK := @Lemmas.Blk.SaltOK

/-- Rule `i` evaluates to TRUE on the ordered pair `(l, r)`:
`∃ rule, rules[i]? = some rule ∧ B3.isTrue (rule.eval l r) = true`. -/
abbrev holds := @Lemmas.Blk.holds

/-- The link types that self-join the concatenated table: `lt ≠ .twoDatasetLinkOnly`. -/
abbrev SelfJoin := @Lemmas.Blk.SelfJoin

/-- Exactness and first-rule attribution: a row `(i, l, r)` is emitted iff the
ordered pair is admissible under the link type, rule `i` is TRUE on it, and no
earlier rule is TRUE on it (FALSE and NULL both count as "not TRUE"). -/
theorem block_exact (lt : LinkType) (t : Table) (rules : List Rule)
    (hlt : SelfJoin lt) (hne : rules ≠ []) (hsalt : SaltOK t rules) (i l r : Nat) :
    (i, l, r) ∈ block lt t rules ↔
      l < t.m ∧ r < t.m ∧ whereCond lt t l r = true ∧
      holds rules i l r ∧ ∀ j, j < i → ¬ holds rules j l r :=
  Lemmas.Blk.mem_block lt t rules hlt hne hsalt i l r

/-- Uniqueness: no ordered pair is emitted twice (by one rule, by two rules, or
by two salting partitions). -/
theorem block_nodup (lt : LinkType) (t : Table) (rules : List Rule)
    (hlt : SelfJoin lt) (hsalt : SaltOK t rules) :
    ((block lt t rules).map fun row => (row.2.1, row.2.2)).Nodup :=
  Lemmas.Blk.block_pairs_nodup lt t rules hlt hsalt

/-- …and never in both orientations, nor a record with itself. -/
theorem block_one_orientation (lt : LinkType) (t : Table) (rules : List Rule)
    (hlt : SelfJoin lt) (i j l r : Nat)
    (h : (i, l, r) ∈ block lt t rules) : (j, r, l) ∉ block lt t rules ∧ l ≠ r :=
  Lemmas.Blk.block_one_orientation lt t rules hlt i j l r h

/-- With no rules every admissible pair is produced (exactly once, by `block_nodup`). -/
theorem block_empty_rules (lt : LinkType) (t : Table) (hlt : SelfJoin lt) (i l r : Nat) :
    (i, l, r) ∈ block lt t [] ↔ i = 0 ∧ l < t.m ∧ r < t.m ∧ whereCond lt t l r = true :=
  Lemmas.Blk.mem_block_nil lt t hlt i l r

/-- Completeness over unordered pairs (uses `WFKeys`): two distinct records that
are admissible as a pair (different datasets for `link_only`) and satisfy some
rule in *both* orientations are emitted in one orientation; if they satisfy no
rule in either orientation they are not emitted.  For rules symmetric in `l`
and `r` this is exact set equality on unordered pairs. -/
theorem block_unordered_bounds (lt : LinkType) (t : Table) (rules : List Rule)
    (hlt : SelfJoin lt) (hne : rules ≠ []) (hsalt : SaltOK t rules) (hwf : WFKeys t)
    (l r : Nat) (hl : l < t.m) (hr : r < t.m) (hlr : l ≠ r)
    (hsd : lt = .linkOnly → t.sd l ≠ t.sd r) :
    ((∃ i, holds rules i l r) → (∃ i, holds rules i r l) →
        ∃ i, (i, l, r) ∈ block lt t rules ∨ (i, r, l) ∈ block lt t rules) ∧
    ((∀ i, ¬ holds rules i l r) → (∀ i, ¬ holds rules i r l) →
        ∀ i, (i, l, r) ∉ block lt t rules ∧ (i, r, l) ∉ block lt t rules) :=
  Lemmas.Blk.block_unordered_bounds lt t rules hlt hne hsalt hwf l r hl hr hlr hsd

/-- Salting, exploding and plain execution are interchangeable: two rule lists
with the same outcome functions (kinds and partition counts may differ) emit
the same rows up to order. -/
theorem block_kind_irrelevant (lt : LinkType) (t : Table) (rules rules' : List Rule)
    (hlt : SelfJoin lt) (hsalt : SaltOK t rules) (hsalt' : SaltOK t rules')
    (hev : rules.map (·.eval) = rules'.map (·.eval)) :
    (block lt t rules).Perm (block lt t rules') :=
  Lemmas.Blk.block_perm_of_evals lt t rules rules' hlt hsalt hsalt' hev

/-- The two-table `link_only` split (`two_dataset_link_only`) emits exactly the
pairs `(l, r)` with `l` in the lower and `r` in the higher source dataset,
attributed to the first TRUE rule — provided the table has at most two source
datasets. -/
theorem block_two_dataset (t : Table) (rules : List Rule) (hne : rules ≠ [])
    (hsalt : SaltOK t rules)
    (htwo : ∀ a b c, a < t.m → b < t.m → c < t.m → t.sd a = t.sd b ∨ t.sd b = t.sd c ∨ t.sd a = t.sd c)
    (i l r : Nat) :
    (i, l, r) ∈ block .twoDatasetLinkOnly t rules ↔
      l < t.m ∧ r < t.m ∧ t.sd l < t.sd r ∧
      holds rules i l r ∧ ∀ j, j < i → ¬ holds rules j l r :=
  Lemmas.Blk.mem_block_two_dataset t rules hne hsalt htwo i l r

/-- …hence it equals `link_only` on the concatenation whenever composite keys
order records of the lower dataset first (they start with the dataset name). -/
theorem block_two_dataset_eq_link_only (t : Table) (rules : List Rule) (hne : rules ≠ [])
    (hsalt : SaltOK t rules)
    (htwo : ∀ a b c, a < t.m → b < t.m → c < t.m → t.sd a = t.sd b ∨ t.sd b = t.sd c ∨ t.sd a = t.sd c)
    (hord : ∀ a b, a < t.m → b < t.m → t.sd a < t.sd b → t.key a < t.key b)
    (row : Row) :
    row ∈ block .twoDatasetLinkOnly t rules ↔ row ∈ block .linkOnly t rules :=
  Lemmas.Blk.two_dataset_iff_link_only t rules hne hsalt htwo hord row

/-- Non-vacuity: three records, keys 0<1<2, rules `[r0, r1]` with outcomes
(T on (0,1)), (N on (0,1), T on (0,2) and (1,2)); rule 1 salted over 2 partitions. -/
example :
    block .dedupeOnly
      { m := 3, key := id, sd := fun _ => 0, part := fun i n => i % n }
      [ { kind := .plain, eval := fun l r => if l = 0 ∧ r = 1 then some true else some false },
        { kind := .salted 2, eval := fun l r => if l = 0 ∧ r = 1 then none else some (l < r) } ]
      = [(0, 0, 1), (1, 0, 2), (1, 1, 2)] := by decide

end SplinkVerif.C01
