import SplinkVerif.Lemmas.Serialise
/-!
# C09 — a saved model reloads to the same model

Property theorems only (helper lemmas live in `Lemmas/Serialise.lean`).  All statements are about
`Model/Serialise.lean`, the method-by-method model of every `as_dict` and of the
dict → creators → `Settings` construction path, for **every** settings object: any number of
comparisons, levels and rules, any strings, any numeric tokens.

`Version.current` is the code as it stands; `Version.patched` differs in the single line proposed
as the repair of defect F9 (`CustomComparison.create_description`).  The well-formedness
predicates (`Settings.wf`, `Comparison.wf`, `Level.wf`, `Rule.wf`, `Lemmas.LevelDict.wf`) are `Bool`
functions defined in the model; everything built through the public API satisfies them
(`constructed_level_wf`, `training_keeps_wf`; checked against the real objects by the harness).
-/
namespace SplinkVerif.C09
open SplinkVerif.Serialise

/-- **Round trip.** Saving a well-formed model and loading the JSON into a new linker on the same
backend gives back exactly the same model state (every parameter, rule, option, label and
description; `defName` and the fresh uid are irrelevant because nothing is missing from the JSON). -/
theorem roundtrip (v : Version) (defName : List Level → String) (b uid : String) (s : Settings)
    (h : s.wf v b = true) : reload v defName b uid s = s :=
  Lemmas.settings_roundtrip v defName b uid s h

/-- **Other backend.** Loading on backend `b'` changes the dialect stamps and nothing else. -/
theorem roundtrip_other_backend (v : Version) (defName : List Level → String) (b b' uid : String)
    (s : Settings) (h : s.wf v b = true) : reload v defName b' uid s = s.withDialect b' :=
  Lemmas.settings_reload v defName b b' uid s h

/-- **Scores.** On any backend the reloaded model has the same comparisons (SQL of every level,
m, u, TF column / weight / minimum-u, null and fix flags — the inputs of C02's score) and the same
prior: `predict()` evaluates the same expressions with the same constants. -/
theorem scores_equal_after_reload (v : Version) (defName : List Level → String) (b b' uid : String)
    (s : Settings) (h : s.wf v b = true) :
    (reload v defName b' uid s).comparisons = s.comparisons ∧
    (reload v defName b' uid s).prior = s.prior := by
  rw [Lemmas.settings_reload v defName b b' uid s h]; exact ⟨rfl, rfl⟩

/-- **Second generation identical.** Saving the reloaded model writes the same dictionary. -/
theorem resave_identical (v : Version) (defName : List Level → String) (b uid : String) (s : Settings)
    (h : s.wf v b = true) : (reload v defName b uid s).asDict = s.asDict := by
  rw [Lemmas.settings_roundtrip v defName b uid s h]

/-- The same through any chain of backends: a model moved to `b'` is again well-formed (so every
further save/load is again the identity), and its JSON is the original with the dialect stamps
replaced. -/
theorem resave_other_backend (v : Version) (defName : List Level → String) (b b' uid : String)
    (s : Settings) (h : s.wf v b = true) :
    (reload v defName b' uid s).wf v b' = true ∧
    (reload v defName b' uid s).asDict = (s.withDialect b').asDict := by
  rw [Lemmas.settings_reload v defName b b' uid s h]
  exact ⟨Lemmas.settings_withDialect_wf v b b' s h, rfl⟩

/-- **Construction keeps the user's values** (levels).  A level dictionary goes through
`CustomLevel` → `ComparisonLevel` → `as_dict` → `ComparisonLevel` when a model is built; the result
is the plain constructor applied to the user's dictionary — whatever the numbers are (weights and
probabilities of 0 and 1 included), whatever the label and flags. -/
theorem construction_preserves_user_values (d : LevelDict) (h : Lemmas.LevelDict.wf d = true) :
    Level.fromDict d = Level.ofDict (creatorLevelDict d) :=
  Lemmas.level_construction d h

/-- Spelled out for the values the property names: a TF weight (e.g. 0), a TF minimum u, m and u
(e.g. 0 or 1) and a label written by the user are the values of the constructed level. -/
theorem user_values_preserved (d : LevelDict) (h : Lemmas.LevelDict.wf d = true)
    (c lab : String) (w mu m u : Num)
    (hc : d.tf_adjustment_column = some c) (hw : d.tf_adjustment_weight = some w)
    (hmu : d.tf_minimum_u_value = some mu) (hm : d.m_probability = some m)
    (hu : d.u_probability = some u) (hl : d.label_for_charts = some lab) :
    (Level.fromDict d).tfCol = some c ∧ (Level.fromDict d).tfWeight = w ∧
    (Level.fromDict d).tfMinU = mu ∧ (Level.fromDict d).m = .val m ∧ (Level.fromDict d).u = .val u ∧
    (Level.fromDict d).label = some lab := by
  rw [Lemmas.level_construction d h]
  simp [Level.ofDict, creatorLevelDict, hc, hw, hmu, hm, hu, hl, Prob.ofOpt]

/-- … and they are written to the JSON as they are (no truthiness test drops a 0: F3 stays repaired). -/
theorem user_values_saved (cvv : String) (l : Level) (c : String) (n : Num)
    (hc : l.tfCol = some c) (hm : l.m = .val n) :
    (Level.asDict cvv l).tf_adjustment_weight = some l.tfWeight ∧
    (Level.asDict cvv l).m_probability = some n := by
  simp [Level.asDict, hc, hm, Prob.emit]

/-- Settings-level options are taken from the dictionary as written. -/
theorem settings_values_preserved (v : Version) (dn : List Level → String) (b uid : String)
    (d : SettingsDict) (p : Num) (g bf tf u : String) (cols : List String)
    (hp : d.probability_two_random_records_match = some p)
    (hg : d.comparison_vector_value_column_prefix = some g)
    (hbf : d.bayes_factor_column_prefix = some bf)
    (htf : d.term_frequency_adjustment_column_prefix = some tf)
    (hu : d.unique_id_column_name = some u) (ha : d.additional_columns_to_retain = some cols) :
    let s := Settings.fromDict v dn b uid d
    s.prior = p ∧ s.gammaPrefix = g ∧ s.bfPrefix = bf ∧ s.tfPrefix = tf ∧ s.uidCol = u ∧
      s.additionalCols = cols := by
  simp [Settings.fromDict, hp, hg, hbf, htf, hu, ha]

/-- Every constructed level is well-formed … -/
theorem constructed_level_wf (d : LevelDict) (h : Lemmas.LevelDict.wf d = true) :
    (Level.fromDict d).wf = true :=
  Lemmas.level_fromDict_wf d h

/-- … and training (assigning numbers to m / u of non-null levels) keeps it so: the round trip
holds at every point of every training history. -/
theorem training_keeps_wf (n : Num) (l : Level) (h : l.wf = true) :
    (l.setM n).wf = true ∧ (l.setU n).wf = true :=
  ⟨Lemmas.setM_wf n l h, Lemmas.setU_wf n l h⟩

/-- With the one-line repair of F9 a description written by the user is the description of the
constructed comparison. -/
theorem description_preserved_patched (dn : List Level → String) (d : ComparisonDict) (desc : String)
    (hd : d.comparison_description = some desc) (ht : truthy desc = true) :
    (Comparison.fromDict .patched dn d).description = desc := by
  simp [Comparison.fromDict, createDescription, hd, Lemmas.orElse_some_truthy ht]

/-! ## Defect F9: in the code as it stands a comparison description does not survive

`roundtrip` at `Version.current` needs `Comparison.wf .current`, i.e. every description equal to
the class name.  That hypothesis cannot be dropped: -/

/-- The witness: one `ExactMatch`-like comparison whose description is not `"CustomComparison"`. -/
def f9Witness : Settings :=
  { linkType := "dedupe_only", prior := .flt tenThousandthBits, retainMatching := true,
    retainIntermediate := false, additionalCols := [], dialect := "duckdb", linkerUid := some "u",
    emConvergence := .flt tenThousandthBits, maxIterations := .int 25, bfPrefix := "bf_",
    tfPrefix := "tf_", gammaPrefix := "gamma_", uidCol := "unique_id", sdsCol := "source_dataset",
    rules := [], comparisons := [
      { outputColumnName := "a", description := "ExactMatch",
        levels := [
          { sql := "a_l = a_r", label := some "Exact match on a", isNull := false, tfCol := none,
            tfWeight := .flt oneBits, tfMinU := .flt 0, disableTf := false, m := .unset, u := .unset,
            fixM := false, fixU := false }] }] }

/-- F9 (negation of the full round trip for the current code): the witness is well-formed in every
other respect, yet reloading changes it and the second-generation JSON differs from the first. -/
theorem f9_description_lost :
    f9Witness.wf .patched "duckdb" = true ∧
    reload .current (fun _ => "") "duckdb" "u" f9Witness ≠ f9Witness ∧
    (reload .current (fun _ => "") "duckdb" "u" f9Witness).asDict ≠ f9Witness.asDict := by
  decide

/-- F9 at construction: a user's `comparison_description` is replaced by the class name. -/
theorem f9_user_description_replaced :
    (Comparison.fromDict .current (fun _ => "")
      { output_column_name := some "a", comparison_levels := [],
        comparison_description := some "my description" }).description = "CustomComparison" := by
  decide

/-- `roundtrip_partial` (current code): the round trip and the identical second generation hold
for every model whose comparison descriptions are all the class name — which is what the current
code produces from a *dictionary or JSON file*, and never from the `comparison_library` creators. -/
theorem roundtrip_partial (defName : List Level → String) (b uid : String) (s : Settings)
    (h : s.wf .current b = true) :
    reload .current defName b uid s = s ∧ (reload .current defName b uid s).asDict = s.asDict := by
  rw [Lemmas.settings_roundtrip .current defName b uid s h]; exact ⟨rfl, rfl⟩

/-- A level holding the `LEVEL_NOT_OBSERVED_TEXT` placeholder as its m value. -/
def notObservedLevel : Level :=
  { sql := "ELSE", label := some "x", isNull := false, tfCol := none, tfWeight := .flt oneBits,
    tfMinU := .flt 0, disableTf := false, m := .notObserved, u := .val (.flt 0), fixM := false,
    fixU := false }

/-- The not-observed placeholder is not serialised either (a level holding it would reload as
untrained and score with the positional default instead of `1e-6`); `Level.wf` excludes it and the
harness checks that no linker state reachable by training holds it. -/
theorem not_observed_placeholder_not_saved :
    (Level.asDict "0" notObservedLevel).m_probability = none := by
  decide

/-! ## Non-vacuity -/

/-- A model with TF weight 0, u = 0, m = 1, a null level, a salted and an exploding rule and
custom prefixes is well-formed (patched and, with the class-name description, current) and
round-trips — evaluated, not assumed. -/
def sample (desc : String) : Settings :=
  { linkType := "link_only", prior := .flt 4599075939470750515, retainMatching := false,
    retainIntermediate := true, additionalCols := ["b"], dialect := "duckdb", linkerUid := some "abc",
    emConvergence := .flt tenThousandthBits, maxIterations := .int 3, bfPrefix := "B_",
    tfPrefix := "t_", gammaPrefix := "g_", uidCol := "uid", sdsCol := "sds",
    rules := [.plain "l.a = r.a" "duckdb", .salted "l.b = r.b" "duckdb" 3,
              .exploding "l.arr = r.arr" "duckdb" ["arr"]],
    comparisons := [
      { outputColumnName := "a", description := desc,
        levels := [
          { sql := "a_l IS NULL OR a_r IS NULL", label := some "Null", isNull := true, tfCol := none,
            tfWeight := .flt oneBits, tfMinU := .flt 0, disableTf := false, m := .unset, u := .unset,
            fixM := false, fixU := false },
          { sql := "a_l = a_r", label := some "Exact", isNull := false, tfCol := some "a",
            tfWeight := .int 0, tfMinU := .flt 4576918229304087675, disableTf := true,
            m := .val (.int 1), u := .val (.int 0), fixM := true, fixU := false },
          { sql := "ELSE", label := some "Else", isNull := false, tfCol := none,
            tfWeight := .flt oneBits, tfMinU := .flt 0, disableTf := false, m := .unset,
            u := .val (.flt 4606281698874543309), fixM := false, fixU := true }] }] }

example : (sample "my description").wf .patched "duckdb" = true := by decide
example : (sample "CustomComparison").wf .current "duckdb" = true := by decide
example : reload .patched (fun _ => "") "duckdb" "zzz" (sample "my description") = sample "my description" := by
  decide
example : reload .patched (fun _ => "") "sqlite" "zzz" (sample "d") = (sample "d").withDialect "sqlite" := by
  decide
/-- the saved level keeps weight 0, u = 0, m = 1 -/
example : ((sample "d").asDict.comparisons.map (fun c => c.comparison_levels.map
    (fun l => (l.tf_adjustment_weight, l.m_probability, l.u_probability)))) =
    [[(none, none, none), (some (.int 0), some (.int 1), some (.int 0)),
      (none, none, some (.flt 4606281698874543309))]] := by decide
/-- labels fall back to the printed comparison vector value exactly as the getter does -/
example : cvvStrs (sample "d").comparisons.head!.levels 1 = ["-1", "1", "0"] := by decide

end SplinkVerif.C09
