import SplinkVerif.Lemmas.EMSql
/-!
# C03 at the level of the emitted SQL: the M-step

`Generated/EMSql.lean` holds the statements `expectation_maximisation.py` emits **now** (T-sql translator, regenerated on
every run): one per-comparison block of `compute_new_parameters_sql` (`countsBlockApc` / `countsBlockRows`), its lambda
block (`lambdaBlockApc` / `lambdaBlockRows`) and `compute_proportions_for_new_parameters_sql` (`proportions`);
`Model/EMSql.lean` assembles them (`mUCounts`: the `UNION ALL` over the comparisons and the lambda block; `mStep`:
`proportions` of it).  The theorems below say, for **every** list of rows of `__splink__df_predict`
(`PRow`: gamma values, `match_probability`, `agreement_pattern_count`), every list of comparison names and both variants,
what these statements return under the SQL semantics `Rel.eval`, and that this is the functional model `Model/EM.lean`
(`mCount`, `uCount`, `lambdaNew`, `observedValues`, `newM`, `newU`) the C03 theorems are about.  A change to any of the
SQL templates changes `Generated/EMSql.lean` and these proofs stop checking.

What the two variants compute: with `useApc = true` every row weighs `agreement_pattern_count`; with `useApc = false`
(the row-wise variant multiplies by the literal `1`) every row weighs 1 and `agreement_pattern_count` is **ignored** —
the two coincide exactly when the counts are 1 (`sql_counts_variants_coincide`).

Findings (all proved below):
* `PARTITION BY output_column_name` normalises per *name*, not per comparison: two comparisons with the same
  `output_column_name` share one denominator (`sql_mstep_needs_distinct_names`);
* a comparison literally named `'_probability_two_random_records_match'` is not normalised at all: its rows fail the
  `where` of the first branch and pass the `where` of the second, so its raw counts come out as additional "lambda" rows
  (`sql_mstep_comparison_named_like_lambda`);
* a zero denominator gives NULL (`sql_newM_null_iff`), where the functional model's division returns `x / 0 = 0`; on the
  empty table the result is the single row `(0, lambda name, NULL, NULL)` (`sql_mstep_empty`).

Property theorems only; proofs are in `Lemmas/Rel.lean` and `Lemmas/EMSql.lean`.
-/
namespace SplinkVerif.C03Sql
open SplinkVerif SplinkVerif.Rel SplinkVerif.EMSql
open SplinkVerif.Lemmas.EMSql (lamName gam wt mSpec uSpec mSpecW uSpecW gammaValues divV totalP totalQ totalW CRow encC
  keep denM denU denomMW denomUW sqlNewM sqlNewU mStepRow lambdaOut Linked countsC)

/-! ### Specification on the abstract rows (definitional unfoldings, for reference) -/

/-- `'_probability_two_random_records_match'` -/
theorem lamName_def : lamName = "_probability_two_random_records_match" := rfl

/-- The gamma value of comparison `ci` of a row, as `predictIn` reads it. -/
theorem gam_def (ci : Nat) (r : PRow) : gam ci r = r.gammas.getD ci 0 := rfl

/-- The weight of a row: `agreement_pattern_count`, or 1 in the row-wise variant. -/
theorem wt_def (useApc : Bool) (r : PRow) : wt useApc r = if useApc then r.count else 1 := rfl

/-- `mSpec rows ci v = Σ p·count` over the rows with `gamma_ci = v`. -/
theorem mSpec_def (rows : List PRow) (ci : Nat) (v : Int) :
    mSpec rows ci v = ((rows.filter fun r => gam ci r == v).map fun r => r.p * (r.count : Rat)).sum := rfl

/-- `uSpec rows ci v = Σ (1−p)·count` over the rows with `gamma_ci = v`. -/
theorem uSpec_def (rows : List PRow) (ci : Nat) (v : Int) :
    uSpec rows ci v = ((rows.filter fun r => gam ci r == v).map fun r => (1 - r.p) * (r.count : Rat)).sum := rfl

/-- The same with the weight of the variant; `mSpecW true = mSpec`. -/
theorem mSpecW_def (useApc : Bool) (rows : List PRow) (ci : Nat) (v : Int) :
    mSpecW useApc rows ci v =
      ((rows.filter fun r => gam ci r == v).map fun r => r.p * (wt useApc r : Rat)).sum := rfl

theorem uSpecW_def (useApc : Bool) (rows : List PRow) (ci : Nat) (v : Int) :
    uSpecW useApc rows ci v =
      ((rows.filter fun r => gam ci r == v).map fun r => (1 - r.p) * (wt useApc r : Rat)).sum := rfl

theorem mSpecW_apc (rows : List PRow) (ci : Nat) (v : Int) : mSpecW true rows ci v = mSpec rows ci v := rfl
theorem uSpecW_apc (rows : List PRow) (ci : Nat) (v : Int) : uSpecW true rows ci v = uSpec rows ci v := rfl

/-- In the row-wise variant `count` is ignored: `Σ p` over the rows with `gamma_ci = v`. -/
theorem mSpecW_rows (rows : List PRow) (ci : Nat) (v : Int) :
    mSpecW false rows ci v = ((rows.filter fun r => gam ci r == v).map fun r => r.p).sum :=
  Lemmas.EMSql.mSpecW_false rows ci v

theorem uSpecW_rows (rows : List PRow) (ci : Nat) (v : Int) :
    uSpecW false rows ci v = ((rows.filter fun r => gam ci r == v).map fun r => 1 - r.p).sum :=
  Lemmas.EMSql.uSpecW_false rows ci v

/-- The distinct gamma values of a comparison in the order of first occurrence (the order `GROUP BY` — `eraseDups` —
returns the groups in). -/
theorem gammaValues_def (rows : List PRow) (ci : Nat) : gammaValues rows ci = (rows.map (gam ci)).eraseDups := rfl

theorem mem_gammaValues (rows : List PRow) (ci : Nat) (v : Int) :
    v ∈ gammaValues rows ci ↔ ∃ r ∈ rows, gam ci r = v :=
  Lemmas.EMSql.mem_gammaValues rows ci v

/-- SQL division of exact numbers: NULL when the divisor is 0. -/
theorem divV_def (a b : Rat) : divV a b = if b = 0 then Val.null else Val.rat (a / b) := rfl

theorem totalP_def (useApc : Bool) (rows : List PRow) :
    totalP useApc rows = (rows.map fun r => r.p * (wt useApc r : Rat)).sum := rfl
theorem totalQ_def (useApc : Bool) (rows : List PRow) :
    totalQ useApc rows = (rows.map fun r => (1 - r.p) * (wt useApc r : Rat)).sum := rfl
theorem totalW_def (useApc : Bool) (rows : List PRow) : totalW useApc rows = (rows.map (wt useApc)).sum := rfl

/-- The table a block reads: `predict_in` = (gamma of comparison `ci`, match_probability, agreement_pattern_count). -/
theorem predictIn_def (rows : List PRow) (ci : Nat) :
    predictIn rows ci = rows.map fun r => [Val.int (gam ci r), Val.rat r.p, Val.int (r.count : Int)] := rfl

/-! ### 1. The counts blocks and the lambda block -/

/-- **Counts block, `agreement_pattern_count` variant.**  For every table and every comparison the block returns, in the
order of first occurrence, one row per distinct gamma value `v` (the value `−1` included):
`(v, Σ p·count, Σ (1−p)·count, name)` over the rows with that gamma. -/
theorem sql_counts_block (rows : List PRow) (ci : Nat) (name : String) :
    (Gen.EMSql.countsBlockApc (Val.str name)).eval (Db.set (fun _ => []) "predict_in" (predictIn rows ci)) =
      (gammaValues rows ci).map fun v =>
        [Val.int v, Val.rat (mSpec rows ci v), Val.rat (uSpec rows ci v), Val.str name] :=
  Lemmas.EMSql.countsBlock_eval true rows ci name

/-- **Counts block, row-wise variant** (`* 1`): `agreement_pattern_count` is ignored, every row counts once:
`(v, Σ p, Σ (1−p), name)`. -/
theorem sql_counts_block_rows (rows : List PRow) (ci : Nat) (name : String) :
    (Gen.EMSql.countsBlockRows (Val.str name)).eval (Db.set (fun _ => []) "predict_in" (predictIn rows ci)) =
      (gammaValues rows ci).map fun v =>
        [Val.int v, Val.rat (mSpecW false rows ci v), Val.rat (uSpecW false rows ci v), Val.str name] :=
  Lemmas.EMSql.countsBlock_eval false rows ci name

/-- The two variants coincide when every count is 1 (what the row-wise pipeline feeds). -/
theorem sql_counts_variants_coincide (rows : List PRow) (h : ∀ r ∈ rows, r.count = 1) (ci : Nat) (name : String) :
    (Gen.EMSql.countsBlockRows (Val.str name)).eval (Db.set (fun _ => []) "predict_in" (predictIn rows ci)) =
      (Gen.EMSql.countsBlockApc (Val.str name)).eval (Db.set (fun _ => []) "predict_in" (predictIn rows ci)) :=
  Lemmas.EMSql.countsBlock_variants rows h ci name

/-- … and only then: with a count of 2 the row-wise block returns `Σ p = 1/2` where the other returns `Σ p·count = 1`. -/
theorem sql_counts_variants_differ :
    (Gen.EMSql.countsBlockRows (Val.str "a")).eval (Db.set (fun _ => []) "predict_in" (predictIn [⟨[0], 1/2, 2⟩] 0)) =
      [[Val.int 0, Val.rat (1/2), Val.rat (1/2), Val.str "a"]] ∧
    (Gen.EMSql.countsBlockApc (Val.str "a")).eval (Db.set (fun _ => []) "predict_in" (predictIn [⟨[0], 1/2, 2⟩] 0)) =
      [[Val.int 0, Val.rat 1, Val.rat 1, Val.str "a"]] := by decide +kernel

/-- **Lambda block, `agreement_pattern_count` variant**, on every table: one row
`(0, Σ p·count / Σ count, Σ (1−p)·count / Σ count, '_probability_two_random_records_match')`, the two quotients NULL when
`Σ count = 0` (in particular on the empty table, where the three sums are NULL). -/
theorem sql_lambda_block (rows : List PRow) (ci : Nat) :
    Gen.EMSql.lambdaBlockApc.eval (Db.set (fun _ => []) "predict_in" (predictIn rows ci)) =
      [[Val.int 0, divV (totalP true rows) (totalW true rows), divV (totalQ true rows) (totalW true rows),
        Val.str "_probability_two_random_records_match"]] :=
  Lemmas.EMSql.lambdaBlock_eval true rows ci

/-- With a positive total count the lambda row holds numbers. -/
theorem sql_lambda_block_pos (rows : List PRow) (ci : Nat) (hpos : 0 < (rows.map (·.count)).sum) :
    Gen.EMSql.lambdaBlockApc.eval (Db.set (fun _ => []) "predict_in" (predictIn rows ci)) =
      [[Val.int 0,
        Val.rat ((rows.map fun r => r.p * (r.count : Rat)).sum / ((rows.map (·.count)).sum : Nat)),
        Val.rat ((rows.map fun r => (1 - r.p) * (r.count : Rat)).sum / ((rows.map (·.count)).sum : Nat)),
        Val.str "_probability_two_random_records_match"]] :=
  Lemmas.EMSql.lambdaBlock_apc_pos rows ci hpos

/-- When the total count is 0 — no row, or only rows with `agreement_pattern_count = 0` — the lambda row is
`(0, NULL, NULL, name)`. -/
theorem sql_lambda_block_zero (rows : List PRow) (ci : Nat) (hz : (rows.map (·.count)).sum = 0) :
    Gen.EMSql.lambdaBlockApc.eval (Db.set (fun _ => []) "predict_in" (predictIn rows ci)) =
      [[Val.int 0, Val.null, Val.null, Val.str "_probability_two_random_records_match"]] :=
  Lemmas.EMSql.lambdaBlock_apc_zero rows ci hz

/-- **Lambda block, row-wise variant**: `sum(1)` is the number of rows; `(0, Σ p / n, Σ (1−p) / n, name)`. -/
theorem sql_lambda_block_rows (rows : List PRow) (ci : Nat) :
    Gen.EMSql.lambdaBlockRows.eval (Db.set (fun _ => []) "predict_in" (predictIn rows ci)) =
      [[Val.int 0, divV ((rows.map (·.p)).sum) (rows.length : Rat), divV ((rows.map fun r => 1 - r.p).sum) (rows.length : Rat),
        Val.str "_probability_two_random_records_match"]] :=
  Lemmas.EMSql.lambdaBlock_rows rows ci

/-- Both lambda blocks on the empty table: `(0, NULL, NULL, name)`. -/
theorem sql_lambda_block_empty (ci : Nat) :
    Gen.EMSql.lambdaBlockApc.eval (Db.set (fun _ => []) "predict_in" (predictIn [] ci)) =
      [[Val.int 0, Val.null, Val.null, Val.str "_probability_two_random_records_match"]] ∧
    Gen.EMSql.lambdaBlockRows.eval (Db.set (fun _ => []) "predict_in" (predictIn [] ci)) =
      [[Val.int 0, Val.null, Val.null, Val.str "_probability_two_random_records_match"]] := by
  constructor <;> rfl

/-- **`__splink__m_u_counts`**: the blocks of the comparisons in order, then the lambda row. -/
theorem sql_m_u_counts (useApc : Bool) (names : List String) (rows : List PRow) :
    mUCounts useApc names rows =
      ((List.range names.length).flatMap fun ci => (gammaValues rows ci).map fun v =>
        [Val.int v, Val.rat (mSpecW useApc rows ci v), Val.rat (uSpecW useApc rows ci v),
          Val.str (names.getD ci "")]) ++
      [[Val.int 0, divV (totalP useApc rows) (totalW useApc rows), divV (totalQ useApc rows) (totalW useApc rows),
        Val.str "_probability_two_random_records_match"]] :=
  Lemmas.EMSql.mUCounts_eval useApc names rows

/-! ### 2. `compute_proportions_for_new_parameters_sql` -/

/-- A counts-table row `(comparison_vector_value, m_count, u_count, output_column_name)`. -/
theorem encC_def (c : CRow) : encC c = [Val.int c.v, Val.rat c.m, Val.rat c.u, Val.str c.name] := rfl

/-- `where comparison_vector_value != -1 and output_column_name != '_probability_two_random_records_match'` -/
theorem keep_def (c : CRow) : keep c = (c.v != -1 && c.name != "_probability_two_random_records_match") := rfl

/-- `sum(m_count) over (partition by output_column_name)`: over the rows of that name with value `≠ −1`. -/
theorem denM_def (L : List CRow) (nm : String) :
    denM L nm = ((L.filter fun c => c.v != -1 && c.name == nm).map (·.m)).sum := rfl

theorem denU_def (L : List CRow) (nm : String) :
    denU L nm = ((L.filter fun c => c.v != -1 && c.name == nm).map (·.u)).sum := rfl

/-- **Proportions.**  On every counts table whose rows are `(int v, rat m, rat u, str name)` the statement returns, in
table order, for every row with `v ≠ −1` and `name ≠ '_probability_two_random_records_match'` the row
`(v, name, m / Σ m, u / Σ u)` — sums over the rows of the same name with `v ≠ −1`; NULL when that sum is 0 — followed by
the rows named `'_probability_two_random_records_match'` unchanged (columns reordered). -/
theorem sql_proportions (L : List CRow) :
    proportions (L.map fun c => [Val.int c.v, Val.rat c.m, Val.rat c.u, Val.str c.name]) =
      ((L.filter fun c => c.v != -1 && c.name != "_probability_two_random_records_match").map fun c =>
        [Val.int c.v, Val.str c.name, divV c.m (denM L c.name), divV c.u (denU L c.name)]) ++
      ((L.filter fun c => c.name == "_probability_two_random_records_match").map fun c =>
        [Val.int c.v, Val.str c.name, Val.rat c.m, Val.rat c.u]) :=
  Lemmas.EMSql.proportions_eval_enc L

/-- The same with further rows `B` named `'_probability_two_random_records_match'` whose other columns are arbitrary
(the lambda block returns NULLs on an empty table): they are dropped by the first branch whatever their first column
is, and returned by the second. -/
theorem sql_proportions_with_lambda_rows (L : List CRow) (B : List Row)
    (hB : ∀ r ∈ B, r.getD 3 Val.null = Val.str "_probability_two_random_records_match") :
    proportions (L.map encC ++ B) =
      ((L.filter keep).map fun c =>
        [Val.int c.v, Val.str c.name, divV c.m (denM L c.name), divV c.u (denU L c.name)]) ++
      ((L.map encC ++ B).filter fun r => r.getD 3 Val.null == Val.str "_probability_two_random_records_match").map
        fun r => [r.getD 0 Val.null, r.getD 3 Val.null, r.getD 1 Val.null, r.getD 2 Val.null] :=
  Lemmas.EMSql.proportions_eval L B hB

/-- Division by a zero window sum is NULL, not an error and not 0. -/
theorem sql_proportions_zero_denominator :
    proportions [[Val.int 0, Val.rat 0, Val.rat 2, Val.str "a"], [Val.int 1, Val.rat 0, Val.rat 6, Val.str "a"]] =
      [[Val.int 0, Val.str "a", Val.null, Val.rat (1/4)], [Val.int 1, Val.str "a", Val.null, Val.rat (3/4)]] := by
  decide +kernel

/-! ### 2'. The M-step: `proportions` of `__splink__m_u_counts` -/

/-- The denominator of comparison `ci`: `Σ mSpecW` over its observed values other than `−1`. -/
theorem denomMW_def (useApc : Bool) (rows : List PRow) (ci : Nat) :
    denomMW useApc rows ci = (((gammaValues rows ci).filter (· != -1)).map (mSpecW useApc rows ci)).sum := rfl

theorem denomUW_def (useApc : Bool) (rows : List PRow) (ci : Nat) :
    denomUW useApc rows ci = (((gammaValues rows ci).filter (· != -1)).map (uSpecW useApc rows ci)).sum := rfl

/-- … which is the sum over the rows whose gamma is not `−1`. -/
theorem denomMW_rows (useApc : Bool) (rows : List PRow) (ci : Nat) :
    denomMW useApc rows ci = ((rows.filter fun r => gam ci r != -1).map fun r => r.p * (wt useApc r : Rat)).sum :=
  Lemmas.EMSql.denomMW_rows useApc rows ci

theorem denomUW_rows (useApc : Bool) (rows : List PRow) (ci : Nat) :
    denomUW useApc rows ci =
      ((rows.filter fun r => gam ci r != -1).map fun r => (1 - r.p) * (wt useApc r : Rat)).sum :=
  Lemmas.EMSql.denomUW_rows useApc rows ci

/-- The new `m` / `u` of value `v` of comparison `ci` as SQL values. -/
theorem sqlNewM_def (useApc : Bool) (rows : List PRow) (ci : Nat) (v : Int) :
    sqlNewM useApc rows ci v = divV (mSpecW useApc rows ci v) (denomMW useApc rows ci) := rfl

theorem sqlNewU_def (useApc : Bool) (rows : List PRow) (ci : Nat) (v : Int) :
    sqlNewU useApc rows ci v = divV (uSpecW useApc rows ci v) (denomUW useApc rows ci) := rfl

/-- **The M-step SQL.**  When the comparison names are pairwise distinct and none is
`'_probability_two_random_records_match'`, then for every table, both variants: comparison by comparison, for every
observed gamma value `v ≠ −1` in the order of first occurrence, the row
`(v, name_ci, mSpec ci v / Σ_{v' observed, v' ≠ −1} mSpec ci v', uSpec ci v / Σ …)` — NULL for a zero denominator — and
last the lambda row `(0, lambda name, Σ p·w / Σ w, Σ (1−p)·w / Σ w)`. -/
theorem sql_mstep (useApc : Bool) (names : List String) (rows : List PRow) (hnd : names.Nodup)
    (hlam : "_probability_two_random_records_match" ∉ names) :
    mStep useApc names rows =
      ((List.range names.length).flatMap fun ci => ((gammaValues rows ci).filter (· != -1)).map fun v =>
        [Val.int v, Val.str (names.getD ci ""),
          divV (mSpecW useApc rows ci v) (denomMW useApc rows ci),
          divV (uSpecW useApc rows ci v) (denomUW useApc rows ci)]) ++
      [[Val.int 0, Val.str "_probability_two_random_records_match",
        divV (totalP useApc rows) (totalW useApc rows), divV (totalQ useApc rows) (totalW useApc rows)]] :=
  Lemmas.EMSql.mStep_eval useApc names rows hnd hlam

/-- Without any hypothesis on the names: the normalisation is per *name* (`denM` over the whole counts table), and counts
rows named like the lambda row are passed through unnormalised. -/
theorem sql_mstep_any_names (useApc : Bool) (names : List String) (rows : List PRow) :
    mStep useApc names rows =
      (((countsC useApc names rows).filter keep).map fun c =>
        [Val.int c.v, Val.str c.name, divV c.m (denM (countsC useApc names rows) c.name),
          divV c.u (denU (countsC useApc names rows) c.name)]) ++
      (((countsC useApc names rows).filter fun c => c.name == "_probability_two_random_records_match").map
        fun c => [Val.int c.v, Val.str c.name, Val.rat c.m, Val.rat c.u]) ++
      [[Val.int 0, Val.str "_probability_two_random_records_match",
        divV (totalP useApc rows) (totalW useApc rows), divV (totalQ useApc rows) (totalW useApc rows)]] :=
  Lemmas.EMSql.mStep_eval_gen useApc names rows

/-- The counts table before encoding: comparison by comparison, value by value. -/
theorem countsC_def (useApc : Bool) (names : List String) (rows : List PRow) :
    countsC useApc names rows = (List.range names.length).flatMap fun ci => (gammaValues rows ci).map fun v =>
      ⟨v, mSpecW useApc rows ci v, uSpecW useApc rows ci v, names.getD ci ""⟩ := rfl

/-- The example table: two comparisons; gamma `−1` occurs in the first. -/
def exRows : List PRow := [⟨[0, 1], 1/2, 2⟩, ⟨[1, 1], 1/4, 1⟩, ⟨[-1, 0], 3/4, 3⟩, ⟨[0, 0], 1/3, 1⟩]

/-- Non-vacuity: `__splink__m_u_counts` of the example (the group `−1` is present), and the M-step in both variants (the
group `−1` is gone and does not count in the denominators: `16/19 + 3/19 = 1`). -/
example :
    mUCounts true ["a", "b"] exRows =
      [[Val.int 0, Val.rat (4/3), Val.rat (5/3), Val.str "a"], [Val.int 1, Val.rat (1/4), Val.rat (3/4), Val.str "a"],
       [Val.int (-1), Val.rat (9/4), Val.rat (3/4), Val.str "a"],
       [Val.int 1, Val.rat (5/4), Val.rat (7/4), Val.str "b"], [Val.int 0, Val.rat (31/12), Val.rat (17/12), Val.str "b"],
       [Val.int 0, Val.rat (23/42), Val.rat (19/42), Val.str "_probability_two_random_records_match"]] ∧
    mStep true ["a", "b"] exRows =
      [[Val.int 0, Val.str "a", Val.rat (16/19), Val.rat (20/29)], [Val.int 1, Val.str "a", Val.rat (3/19), Val.rat (9/29)],
       [Val.int 1, Val.str "b", Val.rat (15/46), Val.rat (21/38)], [Val.int 0, Val.str "b", Val.rat (31/46), Val.rat (17/38)],
       [Val.int 0, Val.str "_probability_two_random_records_match", Val.rat (23/42), Val.rat (19/42)]] ∧
    mStep false ["a", "b"] exRows =
      [[Val.int 0, Val.str "a", Val.rat (10/13), Val.rat (14/23)], [Val.int 1, Val.str "a", Val.rat (3/13), Val.rat (9/23)],
       [Val.int 1, Val.str "b", Val.rat (9/22), Val.rat (15/26)], [Val.int 0, Val.str "b", Val.rat (13/22), Val.rat (11/26)],
       [Val.int 0, Val.str "_probability_two_random_records_match", Val.rat (11/24), Val.rat (13/24)]] ∧
    ["a", "b"].Nodup ∧ "_probability_two_random_records_match" ∉ ["a", "b"] := by decide +kernel

/-- **The hypothesis "names pairwise distinct" is necessary** — a finding about the SQL: `PARTITION BY
output_column_name` merges two comparisons with the same `output_column_name`.  On the example with both comparisons
named `"a"` the four rows share the denominators `65/12` and `67/12` (first `m`: `16/65` instead of `16/19`), so the
right-hand side of `sql_mstep` is not what the SQL returns. -/
theorem sql_mstep_needs_distinct_names :
    mStep true ["a", "a"] exRows =
      [[Val.int 0, Val.str "a", Val.rat (16/65), Val.rat (20/67)], [Val.int 1, Val.str "a", Val.rat (3/65), Val.rat (9/67)],
       [Val.int 1, Val.str "a", Val.rat (3/13), Val.rat (21/67)], [Val.int 0, Val.str "a", Val.rat (31/65), Val.rat (17/67)],
       [Val.int 0, Val.str "_probability_two_random_records_match", Val.rat (23/42), Val.rat (19/42)]] ∧
    mStep true ["a", "a"] exRows ≠
      ((List.range 2).flatMap fun ci => ((gammaValues exRows ci).filter (· != -1)).map fun v =>
        [Val.int v, Val.str (["a", "a"].getD ci ""),
          divV (mSpecW true exRows ci v) (denomMW true exRows ci),
          divV (uSpecW true exRows ci v) (denomUW true exRows ci)]) ++
      [[Val.int 0, Val.str "_probability_two_random_records_match",
        divV (totalP true exRows) (totalW true exRows), divV (totalQ true exRows) (totalW true exRows)]] := by
  decide +kernel

/-- **The hypothesis "no comparison is named like the lambda row" is necessary** — a finding about the SQL: the rows of
a comparison named `'_probability_two_random_records_match'` fail the first branch's `where` and pass the second's, so
its *raw counts* (`5/4`, `31/12`: not probabilities) are returned as two more rows under the lambda name, next to the
real lambda row; no proportion is computed for it. -/
theorem sql_mstep_comparison_named_like_lambda :
    mStep true ["a", "_probability_two_random_records_match"] exRows =
      [[Val.int 0, Val.str "a", Val.rat (16/19), Val.rat (20/29)], [Val.int 1, Val.str "a", Val.rat (3/19), Val.rat (9/29)],
       [Val.int 1, Val.str "_probability_two_random_records_match", Val.rat (5/4), Val.rat (7/4)],
       [Val.int 0, Val.str "_probability_two_random_records_match", Val.rat (31/12), Val.rat (17/12)],
       [Val.int 0, Val.str "_probability_two_random_records_match", Val.rat (23/42), Val.rat (19/42)]] := by
  decide +kernel

/-- On the empty table the M-step returns the single row `(0, lambda name, NULL, NULL)`, whatever the comparisons. -/
theorem sql_mstep_empty (useApc : Bool) (names : List String) :
    mStep useApc names [] = [[Val.int 0, Val.str "_probability_two_random_records_match", Val.null, Val.null]] :=
  Lemmas.EMSql.mStep_nil useApc names

/-- The new `m` of a value is NULL exactly when the denominator `Σ mSpecW` is 0 (for instance when every
`match_probability` is 0), and a number otherwise. -/
theorem sql_newM_null_iff (useApc : Bool) (rows : List PRow) (ci : Nat) (v : Int) :
    sqlNewM useApc rows ci v = Val.null ↔ denomMW useApc rows ci = 0 :=
  Lemmas.EMSql.divV_eq_null

theorem sql_newU_null_iff (useApc : Bool) (rows : List PRow) (ci : Nat) (v : Int) :
    sqlNewU useApc rows ci v = Val.null ↔ denomUW useApc rows ci = 0 :=
  Lemmas.EMSql.divV_eq_null

/-- Non-vacuity of the NULLs: all probabilities 0 ⇒ NULL `m_probability`; only gamma `−1` ⇒ no row but the lambda row;
all counts 0 ⇒ NULL everywhere. -/
example :
    mStep true ["a"] [⟨[0], 0, 1⟩, ⟨[1], 0, 1⟩] =
      [[Val.int 0, Val.str "a", Val.null, Val.rat (1/2)], [Val.int 1, Val.str "a", Val.null, Val.rat (1/2)],
       [Val.int 0, Val.str "_probability_two_random_records_match", Val.rat 0, Val.rat 1]] ∧
    mStep true ["a"] [⟨[-1], 1/2, 1⟩] =
      [[Val.int 0, Val.str "_probability_two_random_records_match", Val.rat (1/2), Val.rat (1/2)]] ∧
    mStep true ["a"] [⟨[0], 1/2, 0⟩] =
      [[Val.int 0, Val.str "a", Val.null, Val.null],
       [Val.int 0, Val.str "_probability_two_random_records_match", Val.null, Val.null]] := by decide +kernel

/-! ### 3. Link to the functional model `Model/EM.lean` at `ℝ`

`Linked useApc θ ci row r`: the SQL row `row` is the image of the model row `r` under the parameters `θ`. Rows for
which comparison `ci` assigns no level (`gammaAt = none`) have no image: the relation requires `some`. -/

/-- The relation between a row of `__splink__df_predict` and a row of the functional model. -/
theorem linked_def (useApc : Bool) (θ : EM.Params ℝ) (ci : Nat) (row : PRow) (r : EM.Row ℝ) :
    Linked useApc θ ci row r ↔
      (((row.p : ℚ) : ℝ) = EM.eProb θ r ∧ row.count = r.count ∧ (useApc = false → row.count = 1) ∧
        EM.gammaAt θ r ci = some (row.gammas.getD ci 0)) := Iff.rfl

/-- Index form: lists of the same length, related position by position. -/
theorem linked_of_index (useApc : Bool) (θ : EM.Params ℝ) (ci : Nat) (rows : List PRow) (rs : List (EM.Row ℝ))
    (hlen : rows.length = rs.length)
    (h : ∀ (i : Nat) (h₁ : i < rows.length) (h₂ : i < rs.length), Linked useApc θ ci rows[i] rs[i]) :
    List.Forall₂ (Linked useApc θ ci) rows rs :=
  Lemmas.EMSql.linked_of_index useApc θ ci rows rs hlen h

/-- **`m_count` of the SQL is `EM.mCount`** (either variant; in the row-wise one the relation says the counts are 1). -/
theorem sql_mcount_model {useApc : Bool} {θ : EM.Params ℝ} {ci : Nat} {rows : List PRow} {rs : List (EM.Row ℝ)}
    (h : List.Forall₂ (Linked useApc θ ci) rows rs) (v : Int) :
    ((mSpecW useApc rows ci v : ℚ) : ℝ) = EM.mCount θ rs ci v :=
  Lemmas.EMSql.mSpecW_cast h v

/-- **`u_count` of the SQL is `EM.uCount`.** -/
theorem sql_ucount_model {useApc : Bool} {θ : EM.Params ℝ} {ci : Nat} {rows : List PRow} {rs : List (EM.Row ℝ)}
    (h : List.Forall₂ (Linked useApc θ ci) rows rs) (v : Int) :
    ((uSpecW useApc rows ci v : ℚ) : ℝ) = EM.uCount θ rs ci v :=
  Lemmas.EMSql.uSpecW_cast h v

/-- In the `agreement_pattern_count` variant: `mSpec` / `uSpec` themselves. -/
theorem sql_counts_model {θ : EM.Params ℝ} {ci : Nat} {rows : List PRow} {rs : List (EM.Row ℝ)}
    (h : List.Forall₂ (Linked true θ ci) rows rs) (v : Int) :
    ((mSpec rows ci v : ℚ) : ℝ) = EM.mCount θ rs ci v ∧ ((uSpec rows ci v : ℚ) : ℝ) = EM.uCount θ rs ci v :=
  ⟨Lemmas.EMSql.mSpecW_cast h v, Lemmas.EMSql.uSpecW_cast h v⟩

/-- **The lambda of the SQL is `EM.lambdaNew`**: when the total weight is not 0 the lambda row holds the numbers `q`,
`q'` with `q = lambdaNew` and `q' = 1 − lambdaNew` (when it is 0 the SQL holds NULLs — `sql_lambda_block_zero` — and the
model `0 / 0 = 0`). -/
theorem sql_lambda_model {useApc : Bool} {θ : EM.Params ℝ} {ci : Nat} {rows : List PRow} {rs : List (EM.Row ℝ)}
    (h : List.Forall₂ (Linked useApc θ ci) rows rs) (hw : totalW useApc rows ≠ 0) :
    ∃ q q' : ℚ, lambdaOut useApc rows =
        [Val.int 0, Val.str "_probability_two_random_records_match", Val.rat q, Val.rat q'] ∧
      (q : ℝ) = EM.lambdaNew θ rs ∧ (q' : ℝ) = 1 - EM.lambdaNew θ rs :=
  Lemmas.EMSql.lambdaOut_model h hw

/-- … hence the prior after `EM.step` (session flag `fixLambda` off). -/
theorem sql_lambda_is_step_prior {useApc : Bool} {θ : EM.Params ℝ} {ci : Nat} {rows : List PRow}
    {rs : List (EM.Row ℝ)} (h : List.Forall₂ (Linked useApc θ ci) rows rs) (hw : totalW useApc rows ≠ 0)
    (sess : EM.Session) (hfix : sess.fixLambda = false) :
    ∃ q q' : ℚ, lambdaOut useApc rows =
        [Val.int 0, Val.str "_probability_two_random_records_match", Val.rat q, Val.rat q'] ∧
      (q : ℝ) = (EM.step sess θ rs).prior :=
  Lemmas.EMSql.lambdaOut_step_prior h hw sess hfix

/-- **The groups that survive the `where` are `EM.observedValues`**, in the same order. -/
theorem sql_observed_values_model {useApc : Bool} {θ : EM.Params ℝ} {ci : Nat} {rows : List PRow}
    {rs : List (EM.Row ℝ)} (h : List.Forall₂ (Linked useApc θ ci) rows rs) :
    EM.observedValues θ rs ci = (gammaValues rows ci).filter (· != -1) :=
  Lemmas.EMSql.observedValues_eq h

/-- The denominators are `EM.denomM` / `EM.denomU`. -/
theorem sql_denominators_model {useApc : Bool} {θ : EM.Params ℝ} {ci : Nat} {rows : List PRow}
    {rs : List (EM.Row ℝ)} (h : List.Forall₂ (Linked useApc θ ci) rows rs) :
    ((denomMW useApc rows ci : ℚ) : ℝ) = EM.denomM θ rs ci ∧ ((denomUW useApc rows ci : ℚ) : ℝ) = EM.denomU θ rs ci :=
  ⟨Lemmas.EMSql.denomMW_cast h, Lemmas.EMSql.denomUW_cast h⟩

/-- **The SQL's new `m` is `EM.newM`**: for an observed value `v ≠ −1`, if the SQL value is a number `q` (it is unless
the denominator is 0, `sql_newM_null_iff`) then `EM.newM θ rs ci v = some q`. -/
theorem sql_newM_model {useApc : Bool} {θ : EM.Params ℝ} {ci : Nat} {rows : List PRow} {rs : List (EM.Row ℝ)}
    (h : List.Forall₂ (Linked useApc θ ci) rows rs) (v : Int) (hv : v ∈ EM.observedValues θ rs ci) (q : ℚ)
    (hq : sqlNewM useApc rows ci v = Val.rat q) : EM.newM θ rs ci v = some (q : ℝ) :=
  Lemmas.EMSql.sqlNewM_model h v hv q hq

theorem sql_newU_model {useApc : Bool} {θ : EM.Params ℝ} {ci : Nat} {rows : List PRow} {rs : List (EM.Row ℝ)}
    (h : List.Forall₂ (Linked useApc θ ci) rows rs) (v : Int) (hv : v ∈ EM.observedValues θ rs ci) (q : ℚ)
    (hq : sqlNewU useApc rows ci v = Val.rat q) : EM.newU θ rs ci v = some (q : ℝ) :=
  Lemmas.EMSql.sqlNewU_model h v hv q hq

/-- As numbers, without the case distinction (`x / 0 = 0` on both sides). -/
theorem sql_newM_model_num {useApc : Bool} {θ : EM.Params ℝ} {ci : Nat} {rows : List PRow} {rs : List (EM.Row ℝ)}
    (h : List.Forall₂ (Linked useApc θ ci) rows rs) (v : Int) (hv : v ∈ EM.observedValues θ rs ci) :
    EM.newM θ rs ci v = some ((mSpecW useApc rows ci v / denomMW useApc rows ci : ℚ) : ℝ) ∧
    EM.newU θ rs ci v = some ((uSpecW useApc rows ci v / denomUW useApc rows ci : ℚ) : ℝ) :=
  ⟨Lemmas.EMSql.newM_cast h v hv, Lemmas.EMSql.newU_cast h v hv⟩

/-- A value that is not observed (or is `−1`) has no row in the SQL result and `none` in the model (the `KeyError` ⇒
`LEVEL_NOT_OBSERVED` case of `populate_m_u_from_lookup`). -/
theorem sql_unobserved_model {useApc : Bool} {θ : EM.Params ℝ} {ci : Nat} {rows : List PRow} {rs : List (EM.Row ℝ)}
    (h : List.Forall₂ (Linked useApc θ ci) rows rs) (v : Int) (hv : v ∉ (gammaValues rows ci).filter (· != -1)) :
    EM.newM θ rs ci v = none ∧ EM.newU θ rs ci v = none :=
  Lemmas.EMSql.unobserved_model h v hv

/-- **The M-step SQL indexed by the model**: names pairwise distinct and different from the lambda name, every
comparison linked — the result is, comparison by comparison, one row `(v, name_ci, new m, new u)` per
`v ∈ EM.observedValues θ rs ci` in that order, then the lambda row. -/
theorem sql_mstep_model (useApc : Bool) (names : List String) (rows : List PRow) (hnd : names.Nodup)
    (hlam : "_probability_two_random_records_match" ∉ names) (θ : EM.Params ℝ) (rs : List (EM.Row ℝ))
    (h : ∀ ci, ci < names.length → List.Forall₂ (Linked useApc θ ci) rows rs) :
    mStep useApc names rows =
      ((List.range names.length).flatMap fun ci => (EM.observedValues θ rs ci).map fun v =>
        [Val.int v, Val.str (names.getD ci ""), sqlNewM useApc rows ci v, sqlNewU useApc rows ci v]) ++
      [lambdaOut useApc rows] :=
  Lemmas.EMSql.mStep_eval_model useApc names rows hnd hlam θ rs h

/-- **`populate_m_u_from_lookup` reads the SQL**: for a trainable non-null level whose value is observed, the `m` and
`u` that `EM.step` stores (`EM.updateLevel`) are the numbers in the SQL's row of that value.  Together with
`sql_lambda_is_step_prior` and `sql_mstep_model` this makes the C03 theorems about `EM.step`
(`C03MB.step_is_abstract_emstep`, `C03MB.loglik_mono_executable`) statements about the regenerated M-step SQL, given
that the `match_probability` column is the E-step (`Linked`). -/
theorem sql_update_level {useApc : Bool} {θ : EM.Params ℝ} {ci : Nat} {rows : List PRow} {rs : List (EM.Row ℝ)}
    (h : List.Forall₂ (Linked useApc θ ci) rows rs) (sess : EM.Session) (l : Score.Level ℝ) (st : EM.LevelState)
    (hn : l.isNull = false) (hfm : (st.fixM || sess.fixM) = false) (hfu : (st.fixU || sess.fixU) = false)
    (hv : l.cvv ∈ EM.observedValues θ rs ci) (qm qu : ℚ)
    (hm : sqlNewM useApc rows ci l.cvv = Val.rat qm) (hu : sqlNewU useApc rows ci l.cvv = Val.rat qu) :
    (EM.updateLevel sess θ rs ci l st).1.m = (qm : ℝ) ∧ (EM.updateLevel sess θ rs ci l st).1.u = (qu : ℝ) :=
  Lemmas.EMSql.updateLevel_sql h sess l st hn hfm hfu hv qm qu hm hu

/-- A level whose value has no row in the SQL result receives the `LEVEL_NOT_OBSERVED` placeholder. -/
theorem sql_update_level_unobserved {useApc : Bool} {θ : EM.Params ℝ} {ci : Nat} {rows : List PRow}
    {rs : List (EM.Row ℝ)} (h : List.Forall₂ (Linked useApc θ ci) rows rs) (sess : EM.Session) (l : Score.Level ℝ)
    (st : EM.LevelState) (hn : l.isNull = false) (hfm : (st.fixM || sess.fixM) = false)
    (hfu : (st.fixU || sess.fixU) = false) (hv : l.cvv ∉ (gammaValues rows ci).filter (· != -1)) :
    (EM.updateLevel sess θ rs ci l st).1.m = EM.notObservedValue ∧
      (EM.updateLevel sess θ rs ci l st).1.u = EM.notObservedValue :=
  Lemmas.EMSql.updateLevel_sql_unobserved h sess l st hn hfm hfu hv

/-- Non-vacuity of the link: the witness `EMMBridge.Fix` of `C03MBridge` (one comparison with levels of values 1 and
0, prior 1/2, two rows whose E-step probability is 1/2) is linked, in both variants, to the SQL rows
`(gamma 1, 1/2, 1)`, `(gamma 0, 1/2, 1)`. -/
theorem sql_link_witness (useApc : Bool) :
    List.Forall₂ (Linked useApc Lemmas.EMMBridge.Fix.θ 0) [⟨[1], 1/2, 1⟩, ⟨[0], 1/2, 1⟩] Lemmas.EMMBridge.Fix.rows :=
  Lemmas.EMSql.witness_linked useApc

/-- … on which the M-step SQL returns `m = u = 1/2` for both values and lambda `1/2`. -/
example :
    mStep true ["c"] [⟨[1], 1/2, 1⟩, ⟨[0], 1/2, 1⟩] =
      [[Val.int 1, Val.str "c", Val.rat (1/2), Val.rat (1/2)], [Val.int 0, Val.str "c", Val.rat (1/2), Val.rat (1/2)],
       [Val.int 0, Val.str "_probability_two_random_records_match", Val.rat (1/2), Val.rat (1/2)]] := by
  decide +kernel

end SplinkVerif.C03Sql
