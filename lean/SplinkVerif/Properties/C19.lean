import SplinkVerif.Lemmas.GraphMetrics
/-!
# C19 — graph metrics equal their graph-theoretic definitions

Property theorems only (helper lemmas and the vocabulary `members`, `edgesIn`,
`Consistent`, `Simple`, `IsQuot`, `relabel`, `neighbours`, `AdjL`, `BridgeSpec` live in
`Lemmas/GraphMetrics.lean`).  All statements are about `Model/GraphMetrics.lean`,
the statement-by-statement model of `compute_graph_metrics`, for **every**
number of records `n`, clustering `cid`, kept-edge list `es`, row order `order`
of the integer mapping and **every** bridge finder `bridges` (igraph is a
parameter) — no bound on size or shape.

Hypotheses, all decidable and stated where used:
* `Consistent n cid es` — every kept edge joins two records of the same cluster;
* `Simple es` — edges distinct as unordered pairs, no self loop;
* `es.Nodup`, endpoints `∈ order`, `(bridges g).Nodup` — for the edge table.
-/
namespace SplinkVerif.C19
open SplinkVerif SplinkVerif.GraphMetrics SplinkVerif.Lemmas.GM

/-- `node_degree` counts the edge rows in which the record is the left endpoint plus those in
which it is the right endpoint (the `UNION ALL` of both orientations) — for any edge list. -/
theorem degree_counts_rows (es : List Edge) (i : Nat) :
    nodeDegree es i = (es.filter fun e => e.1 == i).length + (es.filter fun e => e.2 == i).length :=
  nodeDegree_eq es i

/-- On a simple graph `node_degree` is the number of incident edges, and also the number of
distinct neighbours (the neighbour list has no repetition and lists exactly the adjacent records). -/
theorem degree_def (es : List Edge) (i : Nat) (hS : Simple es) :
    nodeDegree es i = (es.filter fun e => e.1 == i || e.2 == i).length ∧
      (neighbours es i).Nodup ∧ (neighbours es i).length = nodeDegree es i ∧
      ∀ x, x ∈ neighbours es i ↔ ((i, x) ∈ es ∨ (x, i) ∈ es) :=
  ⟨nodeDegree_incident es i (simple_no_loop hS), neighbours_nodup hS i, neighbours_length es i,
    fun _ => mem_neighbours⟩

/-- Handshake: the degrees of a cluster sum to twice the number of edges inside it, given every
kept edge lies inside one cluster. -/
theorem handshake (n : Nat) (cid : Nat → Nat) (es : List Edge) (c : Nat) (hC : Consistent n cid es) :
    ((members n cid c).map (nodeDegree es)).sum = 2 * (edgesIn cid c es).length :=
  Lemmas.GM.handshake n cid es c hC

/-- `n_nodes` is the number of records of the cluster and `n_edges` (= `SUM(node_degree)/2.0`) is
the number of kept edges inside it. -/
theorem size_and_edge_count_def (n : Nat) (cid : Nat → Nat) (es : List Edge) (c : Nat)
    (hC : Consistent n cid es) :
    (clusterRow (nodesTable n cid es) c).nNodes = (members n cid c).length ∧
      IsQuot (clusterRow (nodesTable n cid es) c).nEdges ((edgesIn cid c es).length : Int) 1 :=
  cluster_counts n cid es c hC

/-- `density = 2E / (k (k-1))` for a cluster of `k > 1` records with `E` inner edges, NULL for
`k ≤ 1`; it is ≥ 0 and, on a simple graph, ≤ 1. -/
theorem density_def (n : Nat) (cid : Nat → Nat) (es : List Edge) (c : Nat) (hC : Consistent n cid es) :
    let k := (members n cid c).length
    let E := (edgesIn cid c es).length
    (k > 1 → ∃ d, (clusterRow (nodesTable n cid es) c).density = some d ∧
        IsQuot d (2 * (E : Int)) (k * (k - 1)) ∧ 0 ≤ d.num ∧ (Simple es → d.num ≤ d.den)) ∧
    (k ≤ 1 → (clusterRow (nodesTable n cid es) c).density = none) :=
  Lemmas.GM.density_def n cid es c hC

/-- `cluster_centralisation = Σ (maxdeg − deg i) / ((k−1)(k−2))` over the `k > 2` records of the
cluster, where `maxdeg` is the largest degree in the cluster; NULL for `k ≤ 2`.  It is ≥ 0, and
≤ 1 on a simple graph with a consistent clustering in which no member of the cluster is isolated
(a connected component of ≥ 2 records). -/
theorem centralisation_def (n : Nat) (cid : Nat → Nat) (es : List Edge) (c : Nat) :
    let ms := members n cid c
    let k := ms.length
    (k > 2 → ∃ z M, (clusterRow (nodesTable n cid es) c).centralisation = some z ∧
        (∀ i ∈ ms, nodeDegree es i ≤ M) ∧ (∃ i ∈ ms, nodeDegree es i = M) ∧
        IsQuot z (((ms.map fun i => M - nodeDegree es i).sum : Nat) : Int) ((k - 1) * (k - 2)) ∧
        0 ≤ z.num ∧
        (Simple es → Consistent n cid es → (∀ i ∈ ms, 1 ≤ nodeDegree es i) → z.num ≤ z.den)) ∧
    (k ≤ 2 → (clusterRow (nodesTable n cid es) c).centralisation = none) :=
  Lemmas.GM.centralisation_def n cid es c

/-- `node_centrality = degree / (cluster_size − 1)` in a cluster of more than one record (≤ 1 when
the degree is at most `size − 1`), and `0` in a singleton cluster. -/
theorem node_centrality_def (d s : Nat) :
    (s > 1 → IsQuot (nodeCentrality d s) d (s - 1) ∧
        (d ≤ s - 1 → (nodeCentrality d s).num ≤ (nodeCentrality d s).den)) ∧
    (s ≤ 1 → nodeCentrality d s = ⟨0, 1⟩) :=
  nodeCentrality_def d s

/-- On a simple graph with a consistent clustering a record's degree is at most `size − 1`, so its
`node_centrality` lies in `0..1`. -/
theorem degree_le_size_pred (n : Nat) (cid : Nat → Nat) (es : List Edge) (hS : Simple es)
    (hC : Consistent n cid es) (i : Nat) (hi : i < n) :
    nodeDegree es i ≤ clusterSize n cid i - 1 :=
  degree_le n cid es hS hC i hi

/-- The integer relabelling is a bijection between the records in `order` and `0..|order|-1`:
mapping to the new id and back is the identity (any `order`), new ids are in range and distinct
records get distinct new ids; when `order` has no repetition the other round trip is the identity too. -/
theorem id_map_bijective (order : List Nat) :
    (∀ v, v ∈ order → ∃ k, newId order v = some k ∧ k < order.length ∧ oldId order k = some v) ∧
    (∀ a b k, newId order a = some k → newId order b = some k → a = b) ∧
    (order.Nodup → ∀ k v, oldId order k = some v → newId order v = some k) :=
  ⟨fun _ hv => let ⟨k, hk⟩ := newId_isSome_of_mem hv; ⟨k, hk, newId_lt hk, oldId_newId hk⟩,
   fun _ _ _ ha hb => newId_inj ha hb,
   fun hnd _ _ h => newId_oldId hnd h⟩

/-- Bridge flags land on the right edges: the edge table has exactly one row per kept edge, in
order, and the row of edge `e` is flagged iff the relabelled `e` is one of the rows igraph returned
as bridges — whatever igraph's bridge finder is (it only has to return distinct indices). -/
theorem bridge_flags_on_right_edges (bridges : List (Nat × Nat) → List Nat) (order : List Nat)
    (es : List Edge) (hmem : ∀ e ∈ es, e.1 ∈ order ∧ e.2 ∈ order) (hnd : es.Nodup)
    (hB : ∀ g, (bridges g).Nodup) :
    edgesTable bridges order es = some (es.map fun e =>
      (e.1, e.2, decide (relabel order e ∈ bridgeRows bridges (es.map (relabel order))))) :=
  edgesTable_eq bridges order es hmem hnd hB

/-- … and the `k`-th kept edge is flagged iff igraph reported edge index `k` of the relabelled
graph (whose `k`-th edge is the relabelled `k`-th kept edge). -/
theorem bridge_flag_is_igraph_verdict (bridges : List (Nat × Nat) → List Nat) (order : List Nat)
    (es : List Edge) (hmem : ∀ e ∈ es, e.1 ∈ order ∧ e.2 ∈ order) (hnd : es.Nodup)
    (k : Nat) (hk : k < es.length) :
    relabel order es[k] ∈ bridgeRows bridges (es.map (relabel order)) ↔
      k ∈ bridges (es.map (relabel order)) :=
  bridge_flag_index bridges order es hmem hnd k hk

/-- What the flag means: if the bridge finder meets its specification (`BridgeSpec`: index `k` is
reported iff the endpoints of the `k`-th edge are disconnected once that edge row is removed), then
the `k`-th kept edge is flagged iff removing it disconnects its endpoints in the ORIGINAL thresholded
graph — the relabelling to `0..n-1` and back neither moves nor changes any verdict. -/
theorem bridge_flag_def (bridges : List (Nat × Nat) → List Nat) (hspec : BridgeSpec bridges)
    (order : List Nat) (es : List Edge) (hmem : ∀ e ∈ es, e.1 ∈ order ∧ e.2 ∈ order)
    (hnd : es.Nodup) (k : Nat) (hk : k < es.length) :
    relabel order es[k] ∈ bridgeRows bridges (es.map (relabel order)) ↔
      ¬ Reach (AdjL (es.eraseIdx k)) es[k].1 es[k].2 :=
  Lemmas.GM.bridge_flag_def bridges hspec order es hmem hnd k hk

/-- One row per record, per kept edge and per cluster: the node table lists records `0..n-1` once
each; the edge table lists the kept edges once each, in order; the cluster table has one row per
distinct `cluster_id`, and each row is the aggregate of its own cluster. -/
theorem one_row_each (bridges : List (Nat × Nat) → List Nat) (order : List Nat) (n : Nat)
    (cid : Nat → Nat) (es : List Edge) (hmem : ∀ e ∈ es, e.1 ∈ order ∧ e.2 ∈ order)
    (hnd : es.Nodup) (hB : ∀ g, (bridges g).Nodup) :
    (nodesTable n cid es).map (·.node) = List.range n ∧
    (∃ t, edgesTable bridges order es = some t ∧ t.map (fun r => (r.1, r.2.1)) = es) ∧
    ((clustersTable (nodesTable n cid es)).map (·.cluster)).Nodup ∧
    (∀ c, c ∈ (clustersTable (nodesTable n cid es)).map (·.cluster) ↔ ∃ i, i < n ∧ cid i = c) ∧
    (∀ r ∈ clustersTable (nodesTable n cid es), r = clusterRow (nodesTable n cid es) r.cluster) :=
  ⟨nodes_one_row n cid es, edges_one_row bridges order es hmem hnd hB,
   (clusters_one_row n cid es).1, (clusters_one_row n cid es).2,
   fun r hr => clusters_row _ r hr⟩

/-- Every row of the node table carries the record's own cluster id, degree and centrality. -/
theorem node_row_def (n : Nat) (cid : Nat → Nat) (es : List Edge) (r : NodeRow) :
    r ∈ nodesTable n cid es ↔ r.node < n ∧ r = ⟨r.node, cid r.node, nodeDegree es r.node,
      nodeCentrality (nodeDegree es r.node) (clusterSize n cid r.node)⟩ :=
  nodes_row n cid es r

/-- Non-vacuity: a triangle 0-1-2 with a pendant 3 plus two isolated records (clusters 0, 4, 5)
meets every hypothesis (`Consistent`, `Simple`, distinct edges, endpoints in `order`) and yields
the expected tables: the pendant edge is the only bridge, density 8·2/(2·12) = 2/3,
centralisation (4·3 − 8)/(3·2) = 2/3. -/
example :
    let cid : Nat → Nat := fun i => if i < 4 then 0 else i
    let es : List Edge := [(0, 1), (1, 2), (0, 2), (2, 3)]
    (∀ e ∈ es, e.1 < 6 ∧ e.2 < 6 ∧ cid e.1 = cid e.2) ∧ (allNodes es).Nodup ∧ es.Nodup ∧
    (nodesTable 6 cid es).map (fun r => (r.node, r.cluster, r.degree, r.centrality.num, r.centrality.den)) =
      [(0, 0, 2, 2, 3), (1, 0, 2, 2, 3), (2, 0, 3, 3, 3), (3, 0, 1, 1, 3), (4, 4, 0, 0, 1), (5, 5, 0, 0, 1)] ∧
    edgesTable (fun _ => [3]) [3, 1, 0, 2, 5, 4] es =
      some [(0, 1, false), (1, 2, false), (0, 2, false), (2, 3, true)] ∧
    clustersTable (nodesTable 6 cid es) =
      [⟨0, 4, ⟨8, 2⟩, some ⟨16, 24⟩, some ⟨4, 6⟩⟩, ⟨4, 1, ⟨0, 2⟩, none, none⟩, ⟨5, 1, ⟨0, 2⟩, none, none⟩] := by
  decide

end SplinkVerif.C19
