import SplinkVerif.Lemmas.DescSql
/-!
# C20 at the level of the emitted SQL

`Generated/DescSql.lean` holds the statement `term_frequencies_for_single_column_sql` emits **now** and the per-column
sub-select of `completeness_data` (T-sql translator, regenerated on every run); `Model/DescSql.lean` evaluates them with
the SQL semantics `Rel.eval` on the encoded column (`t_in`: one column `v`; `cws_in`: source dataset and `v`; a cell
`none` is SQL NULL).  The theorems below say that the statements return exactly the rows of the functional model
`Descriptive.tfTable` / `Descriptive.completenessCol` — **row for row**, hence also up to row order — with each exact
pair (numerator, denominator) of the model read as the exact number `num / den` the SQL divides out.  Hence the C20
theorems about the model (relative frequencies in (0, 1] that sum to 1; completeness = 1 − null share in [0, 1]; one row
per value / per dataset) are theorems about the regenerated SQL.  A change to either SQL template changes
`Generated/DescSql.lean` and these proofs stop checking.

No hypothesis on the inputs is needed: NULLs, duplicates, the empty and the all-NULL column are covered (then the TF
statement returns no row on both sides; the scalar subquery `select count(v)` is 0 but is never divided by because the
cross join has no left row), and `sd` / `col` may have different lengths (`zip` truncates on both sides, so the
length hypothesis of the task statement is dropped).  Two places where SQL and model differ in form and agree in value:
`count(*) - count(v)` is an integer subtraction in SQL and a truncated subtraction of naturals in the model
(`count(v) ≤ count(*)`), and `count(v) * 1.0 / count(*)` is never a division by zero (every group has a row).

The `ORDER BY count(*) DESC` of the completeness sub-select only orders the presentation and is not part of the
regenerated term; the statements about the real output are the `Perm` forms.

Property theorems only; proofs are in `Lemmas/Rel.lean` (generic facts about `Rel.eval`), `Lemmas/AccSql.lean`
(`GROUP BY` / scalar-subquery facts) and `Lemmas/DescSql.lean`.
-/
namespace SplinkVerif.C20Sql
open SplinkVerif SplinkVerif.Rel
open SplinkVerif.Descriptive (countNonNull nonNull TfRow ComplRow)
open SplinkVerif.Lemmas.DescSql (encTf encCompl)

/-! ### Encodings (definitional unfoldings, for reference) -/

/-- A cell as a SQL value. -/
theorem encCell_def : DescSql.encCell none = Val.null ∧ ∀ k : Nat, DescSql.encCell (some k) = Val.int (k : Int) :=
  ⟨rfl, fun _ => rfl⟩

/-- A `TfRow` in the SQL's column order (v, tf_v). -/
theorem encTf_def (r : TfRow) : encTf r = [Val.int r.value, Val.rat ((r.num : Rat) / r.den)] := rfl

/-- A `ComplRow` in the SQL's column order
(source_dataset, column_name, total_null_rows, total_rows_inc_nulls, completeness). -/
theorem encCompl_def (r : ComplRow) :
    encCompl r = [Val.int r.sd, Val.str "v", Val.int r.nullRows, Val.int r.totalRows,
      Val.rat ((r.nonNullRows : Rat) / r.totalRows)] := rfl

/-! ### Refinement: term frequencies -/

/-- **Refinement.**  For every column the regenerated TF statement returns a permutation of the rows of
`Descriptive.tfTable`, as (value, exact number `num / den`). -/
theorem sql_tf_table_perm_model (col : List (Option Nat)) :
    (DescSql.tfTable col).Perm
      ((Descriptive.tfTable col).map fun r => [Val.int r.value, Val.rat ((r.num : Rat) / r.den)]) :=
  Lemmas.DescSql.tfTable_perm col

/-- **Exact form**: the same list, row for row (`GROUP BY` and the model's `groupCount` both list the values in the
order of first occurrence). -/
theorem sql_tf_table_eq_model (col : List (Option Nat)) :
    DescSql.tfTable col
      = (Descriptive.tfTable col).map fun r => [Val.int r.value, Val.rat ((r.num : Rat) / r.den)] :=
  Lemmas.DescSql.tfTable_eq col

/-- A row is returned by the SQL iff it is `(k, count(v = k) / count(v))` for a value `k` occurring in the column:
`tf` = relative frequency among the non-NULL cells; NULL never has a row (`C20.tf_relative_frequency` at the level of
the SQL). -/
theorem sql_tf_mem_iff (col : List (Option Nat)) (row : Row) :
    row ∈ DescSql.tfTable col ↔
      ∃ k : Nat, some k ∈ col ∧
        row = [Val.int (k : Int),
          Val.rat (((col.filter fun v => v == some k).length : Rat) / (countNonNull col : Rat))] :=
  Lemmas.DescSql.mem_tfTable_sql col row

/-- Every row the SQL returns is (an integer, an exact number in (0, 1]): no NULL key, no NULL from a division by
zero, no zero and no above-one frequency. -/
theorem sql_tf_in_unit_interval (col : List (Option Nat)) :
    ∀ row ∈ DescSql.tfTable col, ∃ (k : Nat) (q : Rat),
      row = [Val.int (k : Int), Val.rat q] ∧ 0 < q ∧ q ≤ 1 :=
  Lemmas.DescSql.tf_range_sql col

/-- **`select sum(tf_v)` over the returned table is exactly 1** when the column has a non-NULL cell
(`C20.tf_sums_to_one` at the level of the SQL, with SQL's own `sum`). -/
theorem sql_tf_sums_to_one (col : List (Option Nat)) (h : ∃ k : Nat, some k ∈ col) :
    sumVals ((DescSql.tfTable col).map fun row => row.getD 1 Val.null) = Val.rat 1 :=
  Lemmas.DescSql.tf_sum_sql col h

/-- The same without SQL's `sum`: the `tf_v` column is a list of exact numbers that add up to 1. -/
theorem sql_tf_column_sums_to_one (col : List (Option Nat)) (h : ∃ k : Nat, some k ∈ col) :
    ∃ qs : List Rat, ((DescSql.tfTable col).map fun row => row.getD 1 Val.null) = qs.map Val.rat ∧ qs.sum = 1 :=
  ⟨_, Lemmas.DescSql.tf_column_sql col,
    Lemmas.DescSql.tf_sum_model col ((Lemmas.DescSql.countNonNull_pos_iff col).mpr h)⟩

/-- One row per distinct non-NULL value: the `v` column is the duplicate-free list of the values, in the order of first
occurrence. -/
theorem sql_tf_one_row_per_value (col : List (Option Nat)) :
    ((DescSql.tfTable col).map fun row => row.getD 0 Val.null)
      = (nonNull col).eraseDups.map fun (k : Nat) => Val.int (k : Int) :=
  Lemmas.DescSql.tf_keys_sql col

/-- A column with no non-NULL cell (empty or all NULL) gives the empty table; the `count(v) = 0` of the scalar subquery
is never divided by. -/
theorem sql_tf_no_value_no_row (col : List (Option Nat)) (h : ∀ k : Nat, some k ∉ col) :
    DescSql.tfTable col = [] :=
  Lemmas.DescSql.tf_empty_sql col h

/-! ### Refinement: completeness -/

/-- **Refinement.**  For every `sd` and `col` (of any lengths: no length hypothesis is needed) the regenerated
completeness sub-select returns a permutation of the rows of `Descriptive.completenessCol`, as
(source_dataset, 'v', total_null_rows, total_rows_inc_nulls, exact number `nonNullRows / totalRows`). -/
theorem sql_completeness_perm_model (sd : List Nat) (col : List (Option Nat)) :
    (DescSql.completenessCol sd col).Perm
      ((Descriptive.completenessCol sd col).map fun r =>
        [Val.int r.sd, Val.str "v", Val.int r.nullRows, Val.int r.totalRows,
         Val.rat ((r.nonNullRows : Rat) / r.totalRows)]) :=
  Lemmas.DescSql.completenessCol_perm sd col

/-- **Exact form**: the same list, row for row (datasets in the order of first occurrence on both sides; the
`ORDER BY count(*) DESC` of the real statement is presentation only and not part of the term). -/
theorem sql_completeness_eq_model (sd : List Nat) (col : List (Option Nat)) :
    DescSql.completenessCol sd col
      = (Descriptive.completenessCol sd col).map fun r =>
        [Val.int r.sd, Val.str "v", Val.int r.nullRows, Val.int r.totalRows,
         Val.rat ((r.nonNullRows : Rat) / r.totalRows)] :=
  Lemmas.DescSql.completenessCol_eq sd col

/-- Every row the SQL returns: five typed columns; `total_rows_inc_nulls` is the number of records of the dataset and
positive; `total_null_rows` is the number of its records with a NULL cell, between 0 and the total; and
**`completeness = 1 − total_null_rows / total_rows_inc_nulls`, in [0, 1]** (`C20.completeness_def` at the level of the
SQL). -/
theorem sql_completeness_is_one_minus_null_share (sd : List Nat) (col : List (Option Nat)) :
    ∀ row ∈ DescSql.completenessCol sd col, ∃ (d nulls total : Nat) (c : Rat),
      row = [Val.int (d : Int), Val.str "v", Val.int (nulls : Int), Val.int (total : Int), Val.rat c] ∧
      total = ((sd.zip col).filter fun r => r.1 == d).length ∧
      nulls = ((sd.zip col).filter fun r => r.1 == d && r.2.isNone).length ∧
      0 < total ∧ nulls ≤ total ∧
      c = 1 - (nulls : Rat) / (total : Rat) ∧ 0 ≤ c ∧ c ≤ 1 :=
  Lemmas.DescSql.completeness_sql sd col

/-- One row per source dataset that has a record (`C20.completeness_covers`): the `source_dataset` column is the
duplicate-free list of the datasets, in the order of first occurrence. -/
theorem sql_completeness_one_row_per_dataset (sd : List Nat) (col : List (Option Nat)) :
    ((DescSql.completenessCol sd col).map fun row => row.getD 0 Val.null)
      = ((sd.zip col).map (·.1)).eraseDups.map fun (d : Nat) => Val.int (d : Int) :=
  Lemmas.DescSql.completeness_keys_sql sd col

/-- `select sum(total_rows_inc_nulls)` over the result is the number of records (when there is one; `sum` over no row
is NULL). -/
theorem sql_completeness_totals_add_up (sd : List Nat) (col : List (Option Nat)) (h : sd.zip col ≠ []) :
    sumVals ((DescSql.completenessCol sd col).map fun row => row.getD 3 Val.null)
      = Val.int ((sd.zip col).length : Int) :=
  Lemmas.DescSql.completeness_total_sql sd col h

/-! ### Row order of the registered tables -/

/-- Row order of `t_in` does not matter (up to the order of the result): on any permutation of the encoded column the
TF statement returns a permutation of the model's rows. -/
theorem sql_tf_input_order_irrelevant (col : List (Option Nat)) (t : List Row)
    (h : t.Perm (col.map fun v => [DescSql.encCell v])) :
    (Gen.DescSql.tfTable.eval (Db.set (fun _ => []) "t_in" t)).Perm ((Descriptive.tfTable col).map encTf) :=
  Lemmas.DescSql.tfTable_any_order col t h

/-- Row order of `cws_in` does not matter (up to the order of the result). -/
theorem sql_completeness_input_order_irrelevant (sd : List Nat) (col : List (Option Nat)) (t : List Row)
    (h : t.Perm ((sd.zip col).map fun p => [Val.int (p.1 : Int), DescSql.encCell p.2])) :
    (Gen.DescSql.completenessCol.eval (Db.set (fun _ => []) "cws_in" t)).Perm
      ((Descriptive.completenessCol sd col).map encCompl) :=
  Lemmas.DescSql.completenessCol_any_order sd col t h

/-! ### Non-vacuity -/

/-- Column [7, NULL, 9, 7] through the regenerated statement: tf(7) = 2/3, tf(9) = 1/3 (the NULL is neither a group
nor counted in the denominator) — `C20`'s example. -/
example : DescSql.tfTable [some 7, none, some 9, some 7]
    = [[Val.int 7, Val.rat (2 / 3)], [Val.int 9, Val.rat (1 / 3)]] := by
  decide +kernel

/-- … and the model's rows encoded. -/
example : (Descriptive.tfTable [some 7, none, some 9, some 7]).map encTf
    = [[Val.int 7, Val.rat (2 / 3)], [Val.int 9, Val.rat (1 / 3)]] := by
  decide +kernel

/-- All-NULL and empty column: no row. -/
example : DescSql.tfTable [none, none] = [] ∧ DescSql.tfTable [] = [] := by
  decide +kernel

/-- The scalar subquery alone does return 0 on an all-NULL column, and dividing by it would be NULL — harmless, since
the cross join then has no left row. -/
example :
    (Rel.groupBy [] [Agg.count (Expr.col 0)] (Rel.table "t_in")).eval
        (Db.set (fun _ => []) "t_in" [[Val.null], [Val.null]]) = [[Val.int 0]] ∧
    Arith.div.eval (Val.rat 1) (Val.int 0) = Val.null := by
  decide +kernel

/-- A single-valued column: tf = 1 (the bound `≤ 1` is attained). -/
example : DescSql.tfTable [some 4, some 4, none] = [[Val.int 4, Val.rat 1]] := by
  decide +kernel

/-- Two datasets, the second all NULL (`C20`'s example): completeness 2/3 and 0, null rows 1 and 1. -/
example : DescSql.completenessCol [0, 0, 1, 0] [some 1, none, none, some 2]
    = [[Val.int 0, Val.str "v", Val.int 1, Val.int 3, Val.rat (2 / 3)],
       [Val.int 1, Val.str "v", Val.int 1, Val.int 1, Val.rat 0]] := by
  decide +kernel

/-- … and the model's rows encoded. -/
example : (Descriptive.completenessCol [0, 0, 1, 0] [some 1, none, none, some 2]).map encCompl
    = [[Val.int 0, Val.str "v", Val.int 1, Val.int 3, Val.rat (2 / 3)],
       [Val.int 1, Val.str "v", Val.int 1, Val.int 1, Val.rat 0]] := by
  decide +kernel

/-- Lists of different lengths: `zip` truncates on both sides (the record without a cell is not counted). -/
example : DescSql.completenessCol [0, 0, 1] [some 1, none]
    = [[Val.int 0, Val.str "v", Val.int 1, Val.int 2, Val.rat (1 / 2)]] ∧
    (Descriptive.completenessCol [0, 0, 1] [some 1, none]).map encCompl
    = [[Val.int 0, Val.str "v", Val.int 1, Val.int 2, Val.rat (1 / 2)]] := by
  decide +kernel

/-- No record: no row. -/
example : DescSql.completenessCol [] [] = [] := by
  decide +kernel

end SplinkVerif.C20Sql
