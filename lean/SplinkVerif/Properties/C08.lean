import SplinkVerif.Lemmas.Txn
/-!
# C08 — a failing call leaves the model and later results untouched

Property theorems about `Model/Txn.lean`: for EVERY number of backend statements and EVERY fault
point the two code shapes are atomic, hence so is every operation of `opTable`; the two shapes the code
used before the repairs F7/F8 are not (witnesses).
-/
namespace SplinkVerif.C08
open SplinkVerif SplinkVerif.Txn

/-- An operation is atomic if, whenever it raises — wherever the fault is injected — the observable
state is what it was before the call. -/
abbrev Atomic := @Lemmas.TxnL.Atomic

/-- a fault can only fire inside the `n` statements -/
theorem fault_fires_iff (n : Nat) (s : Obs) (k : Nat) :
    (exec (sqls n) s (some k)).out = .raised ↔ k < n :=
  Lemmas.TxnL.sqls_raised_iff n s k

/-- statements alone never change the observable state -/
theorem statements_do_not_write (n : Nat) (s : Obs) (k : Option Nat) : (exec (sqls n) s k).obs = s :=
  Lemmas.TxnL.sqls_obs n s k

/-- Copy-then-commit is atomic at every fault point, for every number of statements and every commit. -/
theorem copy_then_commit_atomic (n : Nat) (commit : Obs → Obs) : Atomic (copyThenCommit n commit) :=
  Lemmas.TxnL.copyThenCommit_atomic n commit

/-- Temporaries restored in `finally` are atomic, provided `restore` undoes `set`. -/
theorem with_temporaries_atomic (set restore : Obs → Obs) (n : Nat) (hinv : ∀ s, restore (set s) = s) :
    Atomic (withTemporaries set n restore) :=
  Lemmas.TxnL.withTemporaries_atomic set restore n hinv

/-- …and on success the state is restored as well (the operation returns a result, not a change). -/
theorem with_temporaries_restores (set restore : Obs → Obs) (n : Nat) (hinv : ∀ s, restore (set s) = s)
    (s : Obs) (k : Option Nat) : (exec (withTemporaries set n restore) s k).obs = s :=
  Lemmas.TxnL.withTemporaries_obs set restore n hinv s k

/-- Every public operation in the table is atomic. -/
theorem ops_are_atomic (name : String) (sh : Shape) (_h : (name, sh) ∈ opTable) (n : Nat)
    (set restore commit : Obs → Obs) (hinv : ∀ s, restore (set s) = s) :
    Atomic (progOf sh n set restore commit) :=
  Lemmas.TxnL.progOf_atomic sh n set restore commit hinv

/-- Without `finally` a fault at any of the statements leaves the temporaries installed
(`find_matches_to_new_records` / `compare_two_records` before F8). -/
theorem no_finally_counter : ∃ (set restore : Obs → Obs) (n : Nat), (∀ s, restore (set s) = s) ∧
    ¬ Atomic (withTemporariesNoFinally set n restore) :=
  Lemmas.TxnL.noFinally_counter

/-- Mutating the live object before the statements run is not atomic (`EMTrainingSession` before F7). -/
theorem mutate_then_run_counter : ∃ (early commit : Obs → Obs) (n : Nat),
    ¬ Atomic (mutateThenRun early n commit) :=
  Lemmas.TxnL.mutateThenRun_counter

/-- Non-vacuity: 3 statements, fault at the second; temporaries set `rules := 9`. -/
example :
    let set := fun (o : Obs) => { o with rules := 9 }
    let restore := fun (o : Obs) => { o with rules := 1 }
    let s : Obs := ⟨5, 1, 0, 0⟩
    (exec (withTemporaries set 3 restore) s (some 1)).out = .raised ∧
    (exec (withTemporaries set 3 restore) s (some 1)).obs = s ∧
    (exec (withTemporariesNoFinally set 3 restore) s (some 1)).obs ≠ s := by decide

end SplinkVerif.C08
