import SplinkVerif.Lemmas.MultiSql
/-!
# C11 at the level of the emitted SQL

`Generated/MultiSql.lean` holds the statements one pass of the threshold loop of
`cluster_pairwise_predictions_at_multiple_thresholds` emits **now** (T-sql translator, regenerated on every run);
`Model/MultiSql.lean` is the Python control flow around them (the marginal clustering is the SQL-level
connected-components pipeline `CCSql.cluster`, proved equal to `CC.cluster` in `Properties/C05Sql.lean`).
The theorems below say that this pipeline, evaluated with the SQL semantics `Rel.eval`, returns exactly the rows of the
functional model `MultiThreshold.next` / `MultiThreshold.loop` — hence every C11 theorem is a theorem about the
regenerated SQL.  Property theorems only; proofs are in `Lemmas/MultiSql.lean`.
-/
namespace SplinkVerif.C11Sql
open SplinkVerif SplinkVerif.Rel

/-- `>=` on integer order keys. -/
def geInt (a b : Int) : Bool := decide (a ≥ b)

/-- A clustering of the nodes `0..n-1`: every node exactly once, cluster ids are nodes. -/
def IsClustering (n : Nat) (cc : List (Nat × Nat)) : Prop :=
  (cc.map (·.1)).Perm (List.range n) ∧ ∀ r ∈ cc, r.2 < n

/-- **One pass of the threshold loop refines the model.** -/
theorem sql_step_perm_model (n : Nat) (edges : List (Nat × Nat × Int)) (cc : List (Nat × Nat))
    (tPrev tNew one : Int) (hE : ∀ e ∈ edges, e.1 < n ∧ e.2.1 < n) (hcc : IsClustering n cc) :
    (MultiSql.step (CCSql.nodeRows n) (CCSql.edgeRows edges) (cc.map C05Sql.pairRow)
        (Val.int tPrev) (Val.int tNew) (Val.int one) (CC.fuel n)).Perm
      ((MultiThreshold.next geInt one n edges cc tPrev tNew).map C05Sql.pairRow) :=
  Lemmas.MultiSql.step_perm_model n edges cc tPrev tNew one hE hcc

/-- The result of a pass is again a clustering (so passes compose). -/
theorem next_is_clustering (n : Nat) (edges : List (Nat × Nat × Int)) (cc : List (Nat × Nat))
    (tPrev tNew one : Int) (hE : ∀ e ∈ edges, e.1 < n ∧ e.2.1 < n) (hcc : IsClustering n cc) :
    IsClustering n (MultiThreshold.next geInt one n edges cc tPrev tNew) :=
  Lemmas.MultiSql.next_is_clustering n edges cc tPrev tNew one hE hcc

/-- **The whole function**: for every list of (already sorted) thresholds the SQL pipeline returns, threshold by
threshold, a permutation of the rows of the functional model's loop. -/
theorem sql_multi_perm_model (n : Nat) (edges : List (Nat × Nat × Int)) (one : Int) (ts : List Int)
    (hE : ∀ e ∈ edges, e.1 < n ∧ e.2.1 < n) :
    List.Forall₂ (fun (sqlRows : List Row) (m : Int × List (Nat × Nat)) => sqlRows.Perm (m.2.map C05Sql.pairRow))
      (MultiSql.multi (CCSql.nodeRows n) (CCSql.edgeRows edges) (Val.int one) (CC.fuel n) (ts.map Val.int))
      (match ts with
        | [] => []
        | t0 :: rest =>
          let cc0 := MultiThreshold.ccAt geInt n (fun _ => true) edges t0
          (t0, cc0) :: MultiThreshold.loop geInt one n edges cc0 t0 rest) :=
  Lemmas.MultiSql.multi_perm_model n edges one ts hE

end SplinkVerif.C11Sql
