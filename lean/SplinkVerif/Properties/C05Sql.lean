import SplinkVerif.Lemmas.CCSql
/-!
# C05 at the level of the emitted SQL

`Generated/CCSql.lean` holds the statements `solve_connected_components` emits **now** (T-sql translator, regenerated on
every run); `Model/CCSql.lean` is the Python control flow around them.  The theorems below say that this pipeline,
evaluated with the SQL semantics `Rel.eval`, returns exactly the rows of the functional model `CC.cluster` — hence every
C05 theorem (clusters = connected components, id = smallest member, every record once) is a theorem about the
regenerated SQL.  A change to any of the SQL templates changes `Generated/CCSql.lean` and these proofs stop checking.

Property theorems only; proofs are in `Lemmas/Rel.lean` (generic facts about `Rel.eval`) and `Lemmas/CCSql.lean`.
-/
namespace SplinkVerif.C05Sql
open SplinkVerif SplinkVerif.Rel

/-- A result row `(node_id, cluster_id)`. -/
def pairRow (p : Nat × Nat) : Row := [Val.int (p.1 : Int), Val.int (p.2 : Int)]

/-- The edges the functional model keeps: `match_probability >= threshold` on integer order keys. -/
def kept (thr : Option Int) (edges : List (Nat × Nat × Int)) : List CC.Edge :=
  CC.thresholdEdges (fun (a b : Int) => decide (a ≥ b)) thr edges

/-- **Refinement.**  For every number of nodes, every edge list whose endpoints are nodes (duplicates, both
orientations and self loops allowed) and every threshold (or none), the SQL pipeline returns a permutation of the rows
of `CC.cluster`. -/
theorem sql_cluster_perm_model (n : Nat) (edges : List (Nat × Nat × Int)) (thr : Option Int)
    (hE : ∀ e ∈ edges, e.1 < n ∧ e.2.1 < n) :
    (CCSql.cluster (CCSql.nodeRows n) (CCSql.edgeRows edges) (thr.map Val.int) (CC.fuel n)).Perm
      ((CC.cluster n (kept thr edges)).map pairRow) :=
  Lemmas.CCSql.cluster_perm_model n edges thr hE

/-- The logged per-pass counts of the SQL pipeline are the model's. -/
theorem sql_trace_eq_model (n : Nat) (edges : List (Nat × Nat × Int)) (thr : Option Int)
    (hE : ∀ e ∈ edges, e.1 < n ∧ e.2.1 < n) :
    CCSql.trace (CCSql.nodeRows n) (CCSql.edgeRows edges) (thr.map Val.int) (CC.fuel n)
      = CC.trace n (kept thr edges) :=
  Lemmas.CCSql.trace_eq_model n edges thr hE

/-- **C05 for the regenerated SQL**: every returned row `(i, c)` has `c` = the smallest node reachable from `i` through
kept edges. -/
theorem sql_clusters_are_components (n : Nat) (edges : List (Nat × Nat × Int)) (thr : Option Int)
    (hE : ∀ e ∈ edges, e.1 < n ∧ e.2.1 < n) (i c : Nat)
    (h : pairRow (i, c) ∈ CCSql.cluster (CCSql.nodeRows n) (CCSql.edgeRows edges) (thr.map Val.int) (CC.fuel n)) :
    Reach (C05.Adj n (kept thr edges)) i c ∧ ∀ j, Reach (C05.Adj n (kept thr edges)) i j → c ≤ j :=
  Lemmas.CCSql.clusters_are_components n edges thr hE i c h

/-- Every node is returned exactly once by the SQL pipeline. -/
theorem sql_each_node_once (n : Nat) (edges : List (Nat × Nat × Int)) (thr : Option Int)
    (hE : ∀ e ∈ edges, e.1 < n ∧ e.2.1 < n) :
    ((CCSql.cluster (CCSql.nodeRows n) (CCSql.edgeRows edges) (thr.map Val.int) (CC.fuel n)).map
      fun r => r.getD 0 Val.null).Perm ((List.range n).map fun (i : Nat) => Val.int (i : Int)) :=
  Lemmas.CCSql.each_node_once n edges thr hE

/-- Row order of the registered input tables does not matter (up to the order of the result). -/
theorem sql_cluster_input_order_irrelevant (n : Nat) (edges : List (Nat × Nat × Int)) (thr : Option Int)
    (hE : ∀ e ∈ edges, e.1 < n ∧ e.2.1 < n) (nodes edgeTab : List Row)
    (hN : nodes.Perm (CCSql.nodeRows n)) (hT : edgeTab.Perm (CCSql.edgeRows edges)) :
    (CCSql.cluster nodes edgeTab (thr.map Val.int) (CC.fuel n)).Perm
      ((CC.cluster n (kept thr edges)).map pairRow) :=
  Lemmas.CCSql.cluster_perm_model_any_order n edges thr hE nodes edgeTab hN hT

/-- **Refinement on a node subset.**  The multi-threshold code (C11) calls the same pipeline on a subset `S` of the
nodes (`__splink__nodes_in_play`, any row order) with edges between nodes of `S`; the functional model
(`MultiThreshold.ccAt`) runs `CC.cluster` on all `n` nodes and keeps the rows of `S` (nodes outside `S` are isolated
and never interact).  `sql_cluster_perm_model` is the case `S = List.range n`. -/
theorem sql_cluster_perm_model_sub (n : Nat) (S : List Nat) (edges : List (Nat × Nat × Int)) (thr : Option Int)
    (hS : S.Nodup) (hSn : ∀ i ∈ S, i < n) (hE : ∀ e ∈ edges, e.1 ∈ S ∧ e.2.1 ∈ S) :
    (CCSql.cluster (S.map fun (i : Nat) => [Val.int (i : Int)]) (CCSql.edgeRows edges) (thr.map Val.int)
        (CC.fuel n)).Perm
      (((CC.cluster n (kept thr edges)).filter fun r => S.contains r.1).map pairRow) :=
  Lemmas.CCSql.cluster_perm_model_sub n S edges thr hS hSn hE

/-- The per-pass counts of the subset run are those of the model on all `n` nodes (isolated outside nodes never need
updating), so the subset run takes exactly the model's number of passes. -/
theorem sql_trace_eq_model_sub (n : Nat) (S : List Nat) (edges : List (Nat × Nat × Int)) (thr : Option Int)
    (hS : S.Nodup) (hSn : ∀ i ∈ S, i < n) (hE : ∀ e ∈ edges, e.1 ∈ S ∧ e.2.1 ∈ S) :
    CCSql.trace (S.map fun (i : Nat) => [Val.int (i : Int)]) (CCSql.edgeRows edges) (thr.map Val.int) (CC.fuel n)
      = CC.trace n (kept thr edges) :=
  Lemmas.CCSql.trace_eq_model_sub n S edges thr hS hSn hE

/-- Non-vacuity: the SQL pipeline on a concrete graph (path 4–3–2–1–0: three further passes after the forced one). -/
example : CCSql.trace (CCSql.nodeRows 5) (CCSql.edgeRows [(4, 3, 1), (3, 2, 1), (2, 1, 1), (1, 0, 1)]) none (CC.fuel 5)
    = [2, 1, 0] := by decide +kernel

/-- Non-vacuity of the subset statement: nodes `4, 0, 2` of `0..4` in that order, one edge 4–2. -/
example : CCSql.cluster ([4, 0, 2].map fun (i : Nat) => [Val.int (i : Int)]) (CCSql.edgeRows [(4, 2, 1)]) none (CC.fuel 5)
    = [pairRow (4, 2), pairRow (0, 0), pairRow (2, 2)] := by decide +kernel

end SplinkVerif.C05Sql
