import SplinkVerif.Lemmas.Creators
import SplinkVerif.Generated.CreatorWrites
/-!
# C17 — turning a specification into SQL is deterministic and side-effect free

Generic theorems about creators as state machines (`Model/Creators.lean`) plus decided facts about the
*generated* table `Gen.creatorWrites` (`Generated/CreatorWrites.lean`, rebuilt from Splink's source by
`harness/translate/twrites.py` on every run).

On the unchanged tree `all_creators_stateless` is FALSE (finding F10): `AbsoluteTimeDifferenceLevel.create_sql`
(inherited by `AbsoluteDateDifferenceLevel`) assigns `self.col_expression = <parse>(self.col_expression)`.
Its negation is proved below with the table itself as witness.  AFTER F10 IS REPAIRED in Splink the table has no
`selfDependent` row, `not_all_creators_stateless` stops compiling (as it must), and it is to be replaced by

    theorem all_creators_stateless : Stateless Gen.creatorWrites := by decide

(also swap the name in `lean/obligations.json`).  Every other theorem of this file stays valid.
-/
namespace SplinkVerif.C17
open SplinkVerif SplinkVerif.Creators

/-- **stateless ⇒ call sequences equal fresh objects.**  If no write of a creator re-reads what it writes, then for
every sequence of calls over dialects on one object the i-th output equals the output of a freshly constructed
object called once with the i-th dialect.  `Local`: the output reads configuration and attributes assigned in the
same call. -/
theorem stateless_calls_commute {β : Type} (c : Creator) (obs : Dialect → State → β)
    (hs : Stateless c.writes) (hl : Local c obs) (ds : List Dialect) :
    (c.callSeq obs fresh ds).2 = ds.map (fun d => obs d (c.call fresh d)) :=
  Lemmas.Creators.callSeq_outputs c obs hs hl ds fresh (fun _ _ => rfl)

/-- …and the object itself: after any call sequence every attribute either still has its constructor value, or is
one the table lists as written and holds a value that is a function of configuration and dialect only. -/
theorem stateless_state_after {β : Type} (c : Creator) (obs : Dialect → State → β)
    (hs : Stateless c.writes) (ds : List Dialect) (a : Attr) :
    (c.callSeq obs fresh ds).1 a = fresh a ∨
      (a ∈ c.attrs ∧ ((c.callSeq obs fresh ds).1 a).isPure = true) := by
  by_cases ha : a ∈ c.attrs
  · exact (Lemmas.Creators.callSeq_pure c obs hs ds fresh a).imp id (fun h => ⟨ha, h⟩)
  · exact Or.inl (Lemmas.Creators.callSeq_frame c obs ds fresh a ha)

/-- If every write is a dialect slot, the object after any call sequence differs from a fresh one only on dialect
slots, and a slot holds a dialect of the sequence. -/
theorem only_slots_state_after {β : Type} (c : Creator) (obs : Dialect → State → β)
    (hs : OnlySlots c.writes) (ds : List Dialect) (a : Attr) :
    (c.callSeq obs fresh ds).1 a = fresh a ∨
      (a ∈ c.attrs ∧ ∃ d ∈ ds, (c.callSeq obs fresh ds).1 a = .dial d) := by
  by_cases ha : a ∈ c.attrs
  · exact (Lemmas.Creators.callSeq_slots c obs hs ds fresh a).imp id (fun h => ⟨ha, h⟩)
  · exact Or.inl (Lemmas.Creators.callSeq_frame c obs ds fresh a ha)

/-- Whatever the kinds: attributes outside the table are never changed. -/
theorem unlisted_attributes_unchanged {β : Type} (c : Creator) (obs : Dialect → State → β)
    (ds : List Dialect) (s : State) (a : Attr) (ha : a ∉ c.attrs) : (c.callSeq obs s ds).1 a = s a :=
  Lemmas.Creators.callSeq_frame c obs ds s a ha

/-- The converse side: one firing `selfDependent` write makes the second call leave a different value than a
fresh object's call (the mechanism of F10: `try_strptime(try_strptime(..))`). -/
theorem self_dependent_second_call_differs (w : Write) (hk : w.kind = .selfDependent) (d1 d2 : Dialect) :
    let c : Creator := ⟨[w], fun _ _ => true⟩
    c.call (c.call fresh d1) d2 w.attr ≠ c.call fresh d2 w.attr :=
  Lemmas.Creators.single_self_dependent w hk d1 d2

/-- The classes whose `create_sql` re-wraps `self.col_expression` on every call (finding F10). -/
def f10Classes : List String :=
  ["comparison_level_library.AbsoluteTimeDifferenceLevel", "comparison_level_library.AbsoluteDateDifferenceLevel"]

/-- No creator of the library re-reads what it writes: a finite check of the whole generated table. -/
theorem all_creators_stateless : Stateless Gen.creatorWrites := by decide

/-- Every self-dependent write in the library is that one: `create_sql` of an F10 class assigning `col_expression`.
(Vacuously true once F10 is repaired.) -/
theorem all_creators_stateless_except :
    ∀ w ∈ Gen.creatorWrites, w.kind = .selfDependent →
      w.cls ∈ f10Classes ∧ w.method = "create_sql" ∧ w.attr = "col_expression" := by
  decide

/-- Every write that is not a dialect slot is either F10's or one of `CustomComparison.get_configured_comparison_levels`
configuring the level creators the user passed in (`cl.configure(m_probability=…)`, `cl.term_frequency_adjustments = True`):
these are the only places where a creator object does not stay as constructed, dialect slots aside. -/
theorem non_slot_writes_known :
    ∀ w ∈ Gen.creatorWrites, w.kind ≠ .dialectSlot →
      (w.cls ∈ f10Classes ∧ w.method = "create_sql" ∧ w.attr = "col_expression") ∨
      (w.cls = "comparison_library.CustomComparison" ∧ w.method = "get_configured_comparison_levels" ∧
        w.kind = .configConstant) := by
  decide

/-- End to end: for every analysed creator class other than the F10 classes, with the rows the translator generated
for it and whatever its guards do, every call sequence gives the outputs of fresh objects. -/
theorem library_creators_commute {β : Type} (cls : String) (hcls : cls ∉ f10Classes)
    (fires : Dialect → Write → Bool) (obs : Dialect → State → β)
    (hl : Local ⟨rowsOf Gen.creatorWrites cls, fires⟩ obs) (ds : List Dialect) :
    (Creator.callSeq ⟨rowsOf Gen.creatorWrites cls, fires⟩ obs fresh ds).2 =
      ds.map (fun d => obs d (Creator.call ⟨rowsOf Gen.creatorWrites cls, fires⟩ fresh d)) :=
  stateless_calls_commute ⟨rowsOf Gen.creatorWrites cls, fires⟩ obs
    (Lemmas.Creators.stateless_rowsOf Gen.creatorWrites cls
      (fun w hw hk e => hcls (e ▸ (all_creators_stateless_except w hw hk).1))) hl ds

/-! Non-vacuity: the table is not empty, a real stateless class has rows, and the model runs on them. -/
example : Gen.creatorWrites.length > 40 ∧ Gen.creatorClasses.length > 40 := by decide
example : (rowsOf Gen.creatorWrites "comparison_level_library.NullLevel").length = 2 ∧
    "comparison_level_library.NullLevel" ∉ f10Classes := by decide
example :
    (Creator.callSeq ⟨rowsOf Gen.creatorWrites "comparison_level_library.NullLevel", fun _ _ => true⟩
      (fun d s => (d, s "col_expression.sql_dialect")) fresh ["duckdb", "spark"]).2
      = [("duckdb", .dial "duckdb"), ("spark", .dial "spark")] := by decide
example : (simulate (rowsOf Gen.creatorWrites "comparison_level_library.JaroWinklerLevel") ["duckdb", "spark", "duckdb"])
    = ([true, true, true], ["col_expression.sql_dialect", "*.sql_dialect"]) := by decide

end SplinkVerif.C17
