import SplinkVerif.Lemmas.Levels
import SplinkVerif.Generated.Levels
/-!
# C16 — Library comparison levels mean what their documentation says

Model: `Model/Levels.lean` (`sat` = the SQL condition of every level creator under three-valued logic,
`levelsOf` = every `create_comparison_levels`, `gammaOf` = the CASE statement).  All theorems hold for every
`Metrics` (great-circle distance, cosine, user-named SQL functions and custom SQL are inputs).
`Generated/Levels.lean` is re-extracted from the real creator objects on every run.
-/
namespace SplinkVerif.C16
open SplinkVerif SplinkVerif.B3 SplinkVerif.Levels

/-- The null level is two-valued (never NULL) and TRUE exactly when a value is missing on either side
(for a validity pattern / date parse the column expression is the extracted value, NULL when invalid). -/
theorem null_level_two_valued (M : Metrics) (c : ColExpr) (l r : Env) :
    sat M (.null c) l r ≠ none ∧ (sat M (.null c) l r = some true ↔ (l c = .null ∨ r c = .null)) :=
  sat_null M c l r

/-- Every level the creators flag `is_null_level` (NullLevel and And/Or of null levels) is two-valued. -/
theorem null_flagged_levels_two_valued (M : Metrics) (l r : Env) (k : LevelKind) (h : isNullLevel k = true) :
    sat M k l r ≠ none :=
  null_levels_two_valued M l r k h

/-- `And`/`Or`/`Not` are SQL's Kleene connectives of the member conditions. -/
theorem kleene_compose (M : Metrics) (a b : LevelKind) (l r : Env) :
    sat M (.and a b) l r = and3 (sat M a l r) (sat M b l r) ∧
    sat M (.or a b) l r = or3 (sat M a l r) (sat M b l r) ∧
    sat M (.not a) l r = not3 (sat M a l r) :=
  ⟨rfl, rfl, rfl⟩

/-- Commutativity of And / Or. -/
theorem kleene_comm (M : Metrics) (a b : LevelKind) (l r : Env) :
    sat M (.and a b) l r = sat M (.and b a) l r ∧ sat M (.or a b) l r = sat M (.or b a) l r :=
  ⟨and3_comm _ _, or3_comm _ _⟩

/-- Associativity: an n-ary `And(a, b, c)` (SQL `(a) AND (b) AND (c)`) is any binary nesting. -/
theorem kleene_assoc (M : Metrics) (a b c : LevelKind) (l r : Env) :
    sat M (.and (.and a b) c) l r = sat M (.and a (.and b c)) l r ∧
    sat M (.or (.or a b) c) l r = sat M (.or a (.or b c)) l r :=
  ⟨and3_assoc _ _ _, or3_assoc _ _ _⟩

/-- De Morgan and double negation under three-valued logic. -/
theorem kleene_de_morgan (M : Metrics) (a b : LevelKind) (l r : Env) :
    sat M (.not (.and a b)) l r = sat M (.or (.not a) (.not b)) l r ∧
    sat M (.not (.or a b)) l r = sat M (.and (.not a) (.not b)) l r ∧
    sat M (.not (.not a)) l r = sat M a l r :=
  ⟨not3_and3 _ _, not3_or3 _ _, not3_not3 _⟩

/-- A pair satisfies `And` iff it satisfies both members, `Or` iff it satisfies one. -/
theorem kleene_satisfied (M : Metrics) (a b : LevelKind) (l r : Env) :
    isTrue (sat M (.and a b) l r) = (isTrue (sat M a l r) && isTrue (sat M b l r)) ∧
    isTrue (sat M (.or a b) l r) = (isTrue (sat M a l r) || isTrue (sat M b l r)) :=
  ⟨isTrue_and3 _ _, isTrue_or3 _ _⟩

/-- `Not(NullLevel)` is not a null level, and holds exactly when both values are present. -/
theorem not_of_null_is_not_null_level (M : Metrics) (k : LevelKind) (c : ColExpr) (l r : Env) :
    isNullLevel (.not k) = false ∧ (sat M (.not (.null c)) l r = some true ↔ (l c ≠ .null ∧ r c ≠ .null)) :=
  ⟨rfl, sat_not_null M c l r⟩

/-- Thresholds of one family nest: a pair within the stricter threshold is within the looser one
(ascending for distances and differences, descending for similarities and intersection sizes). -/
theorem family_nested (M : Metrics) (f : Family) (k₁ k₂ : Q) (l r : Env)
    (h : if f.ascending = true then k₁.toRat ≤ k₂.toRat else k₂.toRat ≤ k₁.toRat) :
    isTrue (sat M (f.level k₁) l r) = true → isTrue (sat M (f.level k₂) l r) = true :=
  family_nested' M f k₁ k₂ l r h

/-- EVERY library comparison, for ALL constructor arguments: the null level is first (and only first), ELSE is
last (and only last), no exact match follows a fuzzy level on its column, and same-family levels go from strict to
loose — under the hypothesis the creators silently rely on (`ArgsOrdered`: the threshold list is given
strict-to-loose; the library neither sorts nor validates it). -/
theorem comparison_well_formed (k : ComparisonKind) (h : ArgsOrdered k) : WellFormed (levelsOf k) :=
  comparison_well_formed' k h

/-- In a level list ending in ELSE every pair of records is assigned exactly one level: the first whose
condition is TRUE (what the CASE statement returns). -/
theorem exactly_one_level (M : Metrics) (levels : List LevelKind) (l r : Env)
    (h : levels.getLast? = some .else_) :
    ∃ i, firstTrue M l r levels = some i ∧ AssignedAt M levels l r i ∧
      ∀ k, AssignedAt M levels l r k → k = i :=
  exactly_one_level' M levels l r h

/-- Corollary for the library: every comparison with ordered arguments assigns exactly one level to every pair. -/
theorem library_exactly_one_level (M : Metrics) (k : ComparisonKind) (h : ArgsOrdered k) (l r : Env) :
    ∃ i, firstTrue M l r (levelsOf k) = some i ∧ AssignedAt M (levelsOf k) l r i ∧
      ∀ j, AssignedAt M (levelsOf k) l r j → j = i :=
  exactly_one_level' M (levelsOf k) l r (wf_getLast (comparison_well_formed' k h))

/-- The argument of `acos` in the great-circle formula is clipped into [-1, 1] (over ℚ; the driver runs the
same `clip` on doubles). -/
theorem haversine_clipped (x : Rat) : (-1 : Rat) ≤ clip x ∧ clip x ≤ 1 :=
  clip_bounds x

/-- The hand model `levelsOf` reproduces the level list of every REAL creator object of the extracted grid
(finite quantifier: kernel evaluation). -/
theorem generated_matches_model : ∀ r ∈ Generated.table, levelsOf r.1 = r.2 := by decide +kernel

/-- Every extracted real comparison whose arguments are ordered is well formed (checked on the real objects'
level lists, independently of `levelsOf`). -/
theorem comparison_well_formed_generated :
    ∀ r ∈ Generated.table, argsOrderedB r.1 = true → wfB r.2 = true := by decide +kernel

/-- The library does not sort thresholds: the extracted grid contains comparisons with unordered arguments whose
levels are NOT ordered (a looser level shadows a stricter one). -/
theorem unsorted_thresholds_not_well_formed :
    ∃ r ∈ Generated.table, argsOrderedB r.1 = false ∧ wfB r.2 = false := by decide +kernel

/-! Non-vacuity: concrete evaluations. -/
section
def m0 : Metrics := ⟨fun _ _ _ _ => none, fun _ _ => none, fun _ _ _ => none, fun _ _ _ => none⟩
def cS : ColExpr := ⟨"s", []⟩
def envOf (v : Val) : Env := fun _ => v

example : sat m0 (.levenshtein cS ⟨1, 1⟩) (envOf (.str "kitten")) (envOf (.str "sitten")) = some true := by decide +kernel
example : sat m0 (.levenshtein cS ⟨1, 1⟩) (envOf (.str "kitten")) (envOf (.str "sitting")) = some false := by decide +kernel
example : sat m0 (.levenshtein cS ⟨1, 1⟩) (envOf .null) (envOf (.str "a")) = none := by decide +kernel
example : sat m0 (.jaroWinkler cS ⟨9, 10⟩) (envOf (.str "martha")) (envOf (.str "marhta")) = some true := by decide +kernel
example : gammaOf m0 (levelsOf (.levenshteinAtThresholds cS [⟨1, 1⟩, ⟨2, 1⟩])) (envOf (.str "ab")) (envOf (.str "ba")) = some 1 := by
  decide +kernel
example : gammaOf m0 (levelsOf (.levenshteinAtThresholds cS [⟨1, 1⟩, ⟨2, 1⟩])) (envOf .null) (envOf (.str "ba")) = some (-1) := by
  decide +kernel
example : argsOrderedB (.levenshteinAtThresholds cS [⟨1, 1⟩, ⟨2, 1⟩]) = true := by decide +kernel
example : argsOrderedB (.levenshteinAtThresholds cS [⟨2, 1⟩, ⟨1, 1⟩]) = false := by decide +kernel
end

end SplinkVerif.C16
