import SplinkVerif.Lemmas.EMLikelihood
import Mathlib.Tactic.NormNum
import Mathlib.Tactic.FinCases
import Mathlib.Algebra.BigOperators.Fin
/-!
# C03 (likelihood) — one EM iteration never lowers the observed-data log-likelihood

What is proved.  `Lemmas/EMLikelihood.lean` defines, over ℝ, the Fellegi–Sunter
two-class mixture on agreement patterns and the EM step that Splink's SQL computes:

* `C` comparisons; comparison `c` has the non-null levels `Fin (L c)`; an agreement
  pattern is `γ : (c : Fin C) → Option (Fin (L c))` where `none` is the null level
  (γ = −1), which contributes the factor 1 to both classes (`_bayes_factor` = 1);
* the data are a finite family of patterns `γ j` with weights `n j > 0`
  (`agreement_pattern_count`; 1 per row in row-wise mode);
* `pm θ γ = lam · ∏_c m_c(γ_c)`, `pu θ γ = (1 − lam) · ∏_c u_c(γ_c)`,
  `lik = pm + pu`, `logLik θ = ∑_j n_j · log (lik θ γ_j)`, `post = pm / lik`
  (the E-step's `match_probability`);
* `emStep fixM fixU fixLam ph γ n θ` — the M-step formulas (`emStep_lam`, `emStep_m`,
  `emStep_u` below state them literally):
  `lam' = ∑_j n_j post_j / ∑_j n_j`,
  `m'_c(l) = ∑_{j : γ_j c = l} n_j post_j / ∑_{j : γ_j c ≠ null} n_j post_j`
  (GROUP BY level, drop the null level, divide by the window sum), `u'` likewise with
  `1 − post_j`; a level that does not occur in the data gets the placeholder `ph`
  (`LEVEL_NOT_OBSERVED`, numeric value 1e-6) — such a level never enters the
  likelihood of the data, so `ph` is arbitrary in `loglik_mono`; a block whose
  session flag (`fixM`, `fixU`, `fixLam` = `training_fixed_probabilities`) is set keeps
  its old value.  The theorem holds for all eight combinations of the flags.

Hypotheses of `loglik_mono`: `0 < lam < 1`, all `m`, `u` positive, all `n_j` positive,
at least one row (`Nonempty J`), and **sub-normalisation on the observed levels**: for
every comparison the current `m` (and `u`) values of the levels that occur in the data
sum to at most 1.  This is needed: EM's new value for a block is the maximiser of the
block's term of the expected complete-data log-likelihood *among (sub-)probability
vectors*; a starting vector with sum > 1 can have a larger likelihood than any
probability vector.  That the hypothesis cannot be dropped is itself a theorem,
`loglik_mono_needs_subnormalised`: a one-row instance meeting every other hypothesis whose
observed level starts at `m = u = 2`, where one unfixed step strictly lowers `logLik`
(from `log 2` to `log 1`).  Splink can reach such a start: a session may begin from the
medians of earlier sessions' estimates, whose observed levels can sum to more than 1
(known finding K8).  The hypothesis holds for Splink's default starting values (the
levels' `m`/`u` of a comparison sum to 1: `subnormalised_of_sum_le_one`) and it is
preserved by the step: `emStep_subnormalised` (the new observed values of an unfixed
block sum to exactly 1) and `emStep_hypotheses_preserved` (all hypotheses hold again
after the step, given `ph > 0`), so the theorem applies to every iteration of a run.
The positivity of the denominators is proved, not assumed (`Lemmas.EML.den_pos`).

Not covered here: level-level fix flags (`fix_m_probability` on a single level),
term-frequency adjustments, `u = 0` (infinite Bayes factors) and floating point.
-/
namespace SplinkVerif.C03L
open SplinkVerif.Lemmas.EML Finset

variable {C : ℕ} {L : Fin C → ℕ} {J : Type} [Fintype J]

/-- The new `lam`: `sum(p * count) / sum(count)`. -/
theorem emStep_lam (fixM fixU : Bool) (ph : ℝ) (γ : J → Pattern C L) (n : J → ℝ)
    (θ : Params C L) :
    (emStep fixM fixU false ph γ n θ).lam = (∑ j, n j * post θ (γ j)) / ∑ j, n j :=
  Lemmas.EML.emStep_lam fixM fixU ph γ n θ

/-- The new `m` of a level: its share of the window sum when observed, else the placeholder. -/
theorem emStep_m (fixU fixLam : Bool) (ph : ℝ) (γ : J → Pattern C L) (n : J → ℝ)
    (θ : Params C L) (c : Fin C) (l : Fin (L c)) :
    (emStep false fixU fixLam ph γ n θ).m c l =
      if Observed γ c l then
        (∑ j with γ j c = some l, n j * post θ (γ j)) / (∑ j with γ j c ≠ none, n j * post θ (γ j))
      else ph :=
  Lemmas.EML.emStep_m fixU fixLam ph γ n θ c l

/-- The new `u` of a level. -/
theorem emStep_u (fixM fixLam : Bool) (ph : ℝ) (γ : J → Pattern C L) (n : J → ℝ)
    (θ : Params C L) (c : Fin C) (l : Fin (L c)) :
    (emStep fixM false fixLam ph γ n θ).u c l =
      if Observed γ c l then
        (∑ j with γ j c = some l, n j * (1 - post θ (γ j))) /
          (∑ j with γ j c ≠ none, n j * (1 - post θ (γ j)))
      else ph :=
  Lemmas.EML.emStep_u fixM fixLam ph γ n θ c l

/-- Fixed blocks keep their value. -/
theorem emStep_fixed (ph : ℝ) (γ : J → Pattern C L) (n : J → ℝ) (θ : Params C L)
    (a b : Bool) :
    (emStep true a b ph γ n θ).m = θ.m ∧ (emStep a true b ph γ n θ).u = θ.u ∧
      (emStep a b true ph γ n θ).lam = θ.lam := ⟨rfl, rfl, rfl⟩

/-- **One EM iteration never lowers the observed-data log-likelihood**, whichever of the
three blocks are fixed for the session and whatever placeholder is stored for
unobserved levels. -/
theorem loglik_mono [Nonempty J] (fixM fixU fixLam : Bool) (ph : ℝ) (γ : J → Pattern C L)
    (n : J → ℝ) (θ : Params C L)
    (hl0 : 0 < θ.lam) (hl1 : θ.lam < 1)
    (hm : ∀ c l, 0 < θ.m c l) (hu : ∀ c l, 0 < θ.u c l)
    (hn : ∀ j, 0 < n j)
    (hsubm : ∀ c, ∑ l with Observed γ c l, θ.m c l ≤ 1)
    (hsubu : ∀ c, ∑ l with Observed γ c l, θ.u c l ≤ 1) :
    logLik γ n θ ≤ logLik γ n (emStep fixM fixU fixLam ph γ n θ) :=
  Lemmas.EML.loglik_mono fixM fixU fixLam ph γ n θ hl0 hl1 hm hu hn hsubm hsubu

/-- After a step, the new values of the observed levels of every comparison that has a
non-null row sum to exactly 1, for each block that is not fixed. -/
theorem emStep_subnormalised [Nonempty J] (fixM fixU fixLam : Bool) (ph : ℝ)
    (γ : J → Pattern C L) (n : J → ℝ) (θ : Params C L)
    (hl0 : 0 < θ.lam) (hl1 : θ.lam < 1)
    (hm : ∀ c l, 0 < θ.m c l) (hu : ∀ c l, 0 < θ.u c l)
    (hn : ∀ j, 0 < n j) (c : Fin C) (hc : ∃ l, Observed γ c l) :
    (fixM = false → ∑ l with Observed γ c l, (emStep fixM fixU fixLam ph γ n θ).m c l = 1) ∧
    (fixU = false → ∑ l with Observed γ c l, (emStep fixM fixU fixLam ph γ n θ).u c l = 1) := by
  constructor
  · rintro rfl; exact emStep_m_sum_one fixU fixLam ph γ n θ hl0 hl1 hm hu hn c hc
  · rintro rfl; exact emStep_u_sum_one fixM fixLam ph γ n θ hl0 hl1 hm hu hn c hc

/-- Every hypothesis of `loglik_mono` about the parameters holds again for the
parameters after the step (any flags; placeholder `ph > 0`). -/
theorem emStep_hypotheses_preserved [Nonempty J] (fixM fixU fixLam : Bool) (ph : ℝ)
    (hph : 0 < ph) (γ : J → Pattern C L) (n : J → ℝ) (θ : Params C L)
    (hl0 : 0 < θ.lam) (hl1 : θ.lam < 1)
    (hm : ∀ c l, 0 < θ.m c l) (hu : ∀ c l, 0 < θ.u c l)
    (hn : ∀ j, 0 < n j)
    (hsubm : ∀ c, ∑ l with Observed γ c l, θ.m c l ≤ 1)
    (hsubu : ∀ c, ∑ l with Observed γ c l, θ.u c l ≤ 1) :
    0 < (emStep fixM fixU fixLam ph γ n θ).lam ∧ (emStep fixM fixU fixLam ph γ n θ).lam < 1 ∧
    (∀ c l, 0 < (emStep fixM fixU fixLam ph γ n θ).m c l) ∧
    (∀ c l, 0 < (emStep fixM fixU fixLam ph γ n θ).u c l) ∧
    (∀ c, ∑ l with Observed γ c l, (emStep fixM fixU fixLam ph γ n θ).m c l ≤ 1) ∧
    (∀ c, ∑ l with Observed γ c l, (emStep fixM fixU fixLam ph γ n θ).u c l ≤ 1) :=
  emStep_preserves fixM fixU fixLam ph hph γ n θ hl0 hl1 hm hu hn hsubm hsubu

/-- Blocks whose levels sum to at most 1 per comparison (Splink's defaults sum to 1)
satisfy the sub-normalisation hypothesis whatever the data are. -/
theorem subnormalised_of_sum_le_one (γ : J → Pattern C L) (w : Block C L)
    (hw : ∀ c l, 0 < w c l) (hsum : ∀ c, ∑ l, w c l ≤ 1) (c : Fin C) :
    ∑ l with Observed γ c l, w c l ≤ 1 :=
  Lemmas.EML.subnormalised_of_sum_le_one γ w hw hsum c

/-! ## The hypotheses are satisfiable: 2 comparisons × 2 levels, 3 patterns -/

/-- patterns `(0,1)`, `(1,null)`, `(0,0)` -/
def exγ : Fin 3 → Pattern 2 (fun _ => 2) := fun j c =>
  (match j.val, c.val with
    | 0, 0 => some 0 | 0, _ => some 1
    | 1, 0 => some 1 | 1, _ => none
    | _, _ => some 0 : Option (Fin 2))

/-- counts 3, 1, 2 -/
def exn : Fin 3 → ℝ := fun j => if j = 0 then 3 else if j = 1 then 1 else 2

/-- `lam = 1/10`, `m = (1/10, 9/10)`, `u = (9/10, 1/10)` in both comparisons -/
noncomputable def exθ : Params 2 (fun _ => 2) where
  lam := 1 / 10
  m := fun _ l => if l = 0 then 1 / 10 else 9 / 10
  u := fun _ l => if l = 0 then 9 / 10 else 1 / 10

example : logLik exγ exn exθ ≤ logLik exγ exn (emStep false false false (1 / 1000000) exγ exn exθ) := by
  have hm : ∀ (c : Fin 2) (l : Fin 2), 0 < exθ.m c l := by
    intro c l; simp only [exθ]; split_ifs <;> norm_num
  have hu : ∀ (c : Fin 2) (l : Fin 2), 0 < exθ.u c l := by
    intro c l; simp only [exθ]; split_ifs <;> norm_num
  have hn : ∀ j, 0 < exn j := by
    intro j; simp only [exn]; split_ifs <;> norm_num
  have sm : ∀ c : Fin 2, ∑ l : Fin 2, exθ.m c l ≤ 1 := by
    intro c; rw [Fin.sum_univ_two]; simp only [exθ]; norm_num
  have su : ∀ c : Fin 2, ∑ l : Fin 2, exθ.u c l ≤ 1 := by
    intro c; rw [Fin.sum_univ_two]; simp only [exθ]; norm_num
  exact loglik_mono false false false _ exγ exn exθ (by norm_num [exθ]) (by norm_num [exθ]) hm hu hn
    (subnormalised_of_sum_le_one exγ exθ.m hm sm) (subnormalised_of_sum_le_one exγ exθ.u hu su)

/-! ## The sub-normalisation hypothesis is necessary (known finding K8)

One comparison with two levels, one row (count 1) that observes level 0,
`lam = 1/2`, `m = u = (2, 1/2)`: the observed level's `m` and `u` are 2 > 1.  The row's
likelihood is `1/2·2 + 1/2·2 = 2`; after the step `lam' = 1/2`, `m'(0) = u'(0) = 1`, the
likelihood is 1, and the log-likelihood falls from `log 2` to `log 1 = 0`. -/

/-- the single pattern: level 0 of the only comparison -/
def k8γ : Fin 1 → Pattern 1 (fun _ => 2) := fun _ _ => some 0

/-- count 1 -/
def k8n : Fin 1 → ℝ := fun _ => 1

/-- `lam = 1/2`, `m = u = (2, 1/2)`: super-normalised on the observed level -/
noncomputable def k8θ : Params 1 (fun _ => 2) where
  lam := 1 / 2
  m := fun _ l => if l = 0 then 2 else 1 / 2
  u := fun _ l => if l = 0 then 2 else 1 / 2

theorem k8_observed : Observed k8γ 0 0 := ⟨0, rfl⟩

/-- the likelihood of the row under the super-normalised start is 2 -/
theorem k8_lik : lik k8θ (k8γ 0) = 2 := by
  simp [lik, pm, pu, fac, optFac, k8θ, k8γ]
  norm_num

/-- the posterior of the row is 1/2 -/
theorem k8_post : post k8θ (k8γ 0) = 1 / 2 := by
  rw [post, k8_lik]
  simp [pm, fac, optFac, k8θ, k8γ]

/-- the likelihood of the row after one EM step is 1 -/
theorem k8_lik_step (ph : ℝ) :
    lik (emStep false false false ph k8γ k8n k8θ) (k8γ 0) = 1 := by
  have hγ : ∀ j c, k8γ j c = some 0 := fun _ _ => rfl
  have hp : ∀ j, post k8θ (k8γ j) = 1 / 2 := fun j => k8_post
  have hl : (emStep false false false ph k8γ k8n k8θ).lam = 1 / 2 := by
    rw [emStep_lam]; simp [hp, k8n]
  have hm : (emStep false false false ph k8γ k8n k8θ).m 0 0 = 1 := by
    rw [emStep_m, if_pos k8_observed]; simp [hp, k8n, hγ]
  have hu : (emStep false false false ph k8γ k8n k8θ).u 0 0 = 1 := by
    rw [emStep_u, if_pos k8_observed]; simp [hp, k8n, hγ]; norm_num
  simp only [lik, pm, pu, fac, optFac, Finset.univ_unique, Finset.prod_singleton, Fin.default_eq_zero,
    hγ 0 0, hl, hm, hu]
  norm_num

/-- **The sub-normalisation hypothesis of `loglik_mono` cannot be dropped** (K8): there are
data and parameters meeting every other hypothesis (`0 < lam < 1`, `m`, `u` > 0, positive
counts, a positive placeholder) for which one EM step (nothing fixed) strictly lowers the
observed-data log-likelihood. -/
theorem loglik_mono_needs_subnormalised :
    ∃ (C : ℕ) (L : Fin C → ℕ) (J : Type) (_ : Fintype J) (_ : Nonempty J)
      (γ : J → Pattern C L) (n : J → ℝ) (θ : Params C L) (ph : ℝ),
      0 < θ.lam ∧ θ.lam < 1 ∧ (∀ c l, 0 < θ.m c l) ∧ (∀ c l, 0 < θ.u c l) ∧ (∀ j, 0 < n j) ∧
      0 < ph ∧
      logLik γ n (emStep false false false ph γ n θ) < logLik γ n θ := by
  refine ⟨1, fun _ => 2, Fin 1, inferInstance, inferInstance, k8γ, k8n, k8θ, 1 / 1000000,
    ?_, ?_, ?_, ?_, ?_, ?_, ?_⟩
  · norm_num [k8θ]
  · norm_num [k8θ]
  · intro c l; simp only [k8θ]; split_ifs <;> norm_num
  · intro c l; simp only [k8θ]; split_ifs <;> norm_num
  · intro j; simp [k8n]
  · norm_num
  · simp only [logLik, Finset.univ_unique, Finset.sum_singleton, Fin.default_eq_zero, k8_lik_step,
      k8_lik, Real.log_one, k8n, one_mul]
    exact Real.log_pos (by norm_num)

end SplinkVerif.C03L
