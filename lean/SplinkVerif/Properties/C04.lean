import SplinkVerif.Lemmas.Estimators
/-!
# C04 — direct estimators equal exact pair frequencies

Property theorems about `Model/Estimators.lean` and the **generated** sampling arithmetic
(`Gen._rows_needed_for_n_pairs`, `Gen._proportion_sample_size_link_only`, re-translated from
`estimate_u.py` on every run) at `ℝ` (`Lemmas.Est.instANumReal`: `sqrt = Real.sqrt`).
`cartesian = #admissible pairs` is proved in `Properties/C14.lean` for the generated `calculate_cartesian`.
-/
namespace SplinkVerif.C04
open SplinkVerif SplinkVerif.Estimators

/-- An estimate is exactly the fraction of (non-null) training pairs that fall in the level. -/
theorem estimate_is_frequency (gammas : List (Option Int)) (v : Int) (n d : Nat)
    (h : levelFreq gammas v = some (n, d)) :
    n = (gammas.filter fun g => g == some v).length ∧
    d = (gammas.filter fun g => match g with | some w => w != -1 | none => false).length ∧
    0 < n ∧ n ≤ d ∧ v ≠ -1 :=
  Lemmas.Est.levelFreq_spec gammas v n d h

/-- Levels never observed receive no estimate (and the null level never does). -/
theorem unobserved_gets_no_estimate (gammas : List (Option Int)) (v : Int) :
    levelFreq gammas v = none ↔ (v = -1 ∨ ∀ g ∈ gammas, g ≠ some v) :=
  Lemmas.Est.levelFreq_none_iff gammas v

/-- The estimates of the observed levels of a comparison are fractions of one common denominator
whose numerators add up to it: they sum to 1. `levels` lists the distinct non-null level values. -/
theorem estimates_sum_to_one (gammas : List (Option Int)) (levels : List Int)
    (hnd : levels.Nodup) (hneg : ∀ v ∈ levels, v ≠ -1)
    (hcover : ∀ g ∈ gammas, ∀ w, g = some w → w ≠ -1 → w ∈ levels) :
    (levels.map fun v => match levelFreq gammas v with | some (n, _) => n | none => 0).sum =
      (gammas.filter fun g => match g with | some w => w != -1 | none => false).length :=
  Lemmas.Est.levelFreq_numerators_sum gammas levels hnd hneg hcover

/-- Sampling covers the whole table when `max_pairs` is at least the number of admissible pairs
(`dedupe_only`, `link_and_dedupe`): with `n ≥ 1` records, `max_pairs ≥ n(n−1)/2` makes the generated
`_rows_needed_for_n_pairs` return at least `n`, so the proportion is clamped to 1 and the sample
size to `n`. -/
theorem full_sample_dedupe (n : ℕ) (hn : 1 ≤ n) (maxPairs : ℝ)
    (h : ((n : ℝ) * ((n : ℝ) - 1)) / 2 ≤ maxPairs) :
    sampleDedupe maxPairs (n : ℝ) = some (1, (n : ℝ)) :=
  Lemmas.Est.sampleDedupe_full n hn maxPairs h

/-- …and conversely a smaller `max_pairs` samples strictly less than everything. -/
theorem partial_sample_dedupe (n : ℕ) (hn : 1 ≤ n) (maxPairs : ℝ) (h0 : 0 ≤ maxPairs)
    (h : maxPairs < ((n : ℝ) * ((n : ℝ) - 1)) / 2) :
    ∃ p s, sampleDedupe maxPairs (n : ℝ) = some (p, s) ∧ p < 1 ∧ s < (n : ℝ) :=
  Lemmas.Est.sampleDedupe_partial n hn maxPairs h0 h

/-- `link_only`: with per-table counts `cs` and `max_pairs ≥ ((Σc)² − Σc²)/2` (the number of
cross-table pairs, positive) the proportion is clamped to 1 and the sample is the whole table. -/
theorem full_sample_link_only (cs : List ℕ) (maxPairs : ℝ)
    (hpos : 0 < (((cs.map fun (c : ℕ) => (c : ℝ)).sum) ^ 2 - ((cs.map fun (c : ℕ) => (c : ℝ) ^ 2).sum)) / 2)
    (h : (((cs.map fun (c : ℕ) => (c : ℝ)).sum) ^ 2 - ((cs.map fun (c : ℕ) => (c : ℝ) ^ 2).sum)) / 2 ≤ maxPairs) :
    sampleLinkOnly (cs.map fun (c : ℕ) => (c : ℝ)) maxPairs =
      some (1, (cs.map fun (c : ℕ) => (c : ℝ)).sum) :=
  Lemmas.Est.sampleLinkOnly_full cs maxPairs hpos h

/-- The prior is `(pairs matched by any rule) / (recall × admissible pairs)`, and the call is
rejected exactly when the observed matches exceed `admissible pairs × recall`. -/
theorem prior_formula (observed cartesian recall : ℝ) :
    (cartesian * recall < observed → priorEstimate observed cartesian recall = none) ∧
    (observed ≤ cartesian * recall →
      priorEstimate observed cartesian recall = some (observed / recall / cartesian)) :=
  Lemmas.Est.priorEstimate_spec observed cartesian recall

/-- An accepted estimate is a probability: in `[0, 1]` for `recall ∈ (0,1]`, `cartesian > 0`, `observed ≥ 0`. -/
theorem prior_in_unit_interval (observed cartesian recall p : ℝ) (ho : 0 ≤ observed) (hc : 0 < cartesian)
    (hr : 0 < recall) (h : priorEstimate observed cartesian recall = some p) : 0 ≤ p ∧ p ≤ 1 :=
  Lemmas.Est.priorEstimate_unit observed cartesian recall p ho hc hr h

/-- Either orientation of a label row denotes the same pair: after `lower_id_to_left_hand_side`
the record with the lower composite id is on the left, and the operation is idempotent. -/
theorem lower_id_orientation_free (key : Nat → Nat) (a b : Nat) (hne : key a ≠ key b) :
    lowerIdLeft key (a, b) = lowerIdLeft key (b, a) ∧
    key (lowerIdLeft key (a, b)).1 < key (lowerIdLeft key (a, b)).2 ∧
    lowerIdLeft key (lowerIdLeft key (a, b)) = lowerIdLeft key (a, b) :=
  Lemmas.Est.lowerIdLeft_spec key a b hne

/-- Non-vacuity: γ values `[1, 0, −1, 1, NULL]`: level 1 observed twice among 3 non-null rows. -/
example : levelFreq [some 1, some 0, some (-1), some 1, none] 1 = some (2, 3) ∧
    levelFreq [some 1, some 0, some (-1), some 1, none] 2 = none := by decide

end SplinkVerif.C04
