import SplinkVerif.Lemmas.EMMBridge
import SplinkVerif.Lemmas.EMMBridgeWitness
import SplinkVerif.Lemmas.EMMBridgeRun
/-!
# C03 (M-step bridge) — the executable `EM.step` is the abstract EM step, and never lowers
the log-likelihood of the rows

`Properties/C03Likelihood.lean` proves likelihood monotonicity for the abstract step
`EML.emStep`; `Properties/C03Bridge.lean` identifies the executable E-step `EM.eProb` with the
abstract posterior.  This file closes the remaining gap: the executable **M-step** — the
`foldl` sums `mCount`/`uCount`/`lambdaNew`, the `eraseDups` group list `observedValues`, the
window normalisation `denomM`/`denomU`, the look-up by `comparison_vector_value`, the
`LEVEL_NOT_OBSERVED` value 1e-6, the session-level fix flags, `zipWith3Idx` — computes exactly
`EML.emStep` of the abstraction, so `loglik_mono` becomes a theorem about `EM.step`.

## The abstract objects (all defined from the executable ones, `Lemmas/EMMBridge.lean`)

* index set `J = Fin rows.length`; `rowPatterns θ rows j = absPattern θ rows[j]`;
  `rowWeights rows j = rows[j].count`; placeholder `1/1000000`; flags `sess.fixM`,
  `sess.fixU`, `sess.fixLambda`;
* `absParams θ` (from `C03Bridge`): one slot per level *position*, also for the null level;
* `absParamsC θ`: the same with the slots of null levels — which no pattern ever reads — set to
  the placeholder (`EM.step` leaves whatever is stored there, `EML.emStep` writes the
  placeholder, see `step_is_abstract_emstep_deviates_when_null_slot_not_placeholder`);
* `castParams hC hL p`: `p` re-indexed along the proved equalities
  `(EM.step sess θ rows).comps.length = θ.comps.length` and `absL (EM.step …) c = absL θ c`
  (the types `EML.Params _ _` of the two sides differ syntactically);
* `execLik θ r = prior · ∏_c m_c(level of r) + (1 − prior) · ∏_c u_c(level of r)` where the level
  of `r` in comparison `c` is the first level carrying `gammaAt θ r c` (the look-up
  `Score.bfColumn` performs) and a null level contributes 1; `execLogLik θ rows =
  ∑_{r ∈ rows} r.count · log (execLik θ r)`.  No abstraction is involved in these two.

## Hypotheses (each a predicate of `Lemmas/EMMBridge.lean`, unfolded here)

E-step bridge (inherited from `C03B.eprob_is_posterior`): `0 < θ.prior < 1`;
`NoTf θ` (no term-frequency adjusted level); `PositiveMU θ` (`m`, `u` > 0 on non-null levels);
`GuardsMatch θ rows` (every row has one list of condition outcomes per comparison);
`EveryComparisonAssignsLevel θ rows` (`gamma_c` is never NULL — e.g. every comparison has an
`ELSE` level).

Well-formedness of the model:
* `NullIsMinusOne θ` — a level is the null level iff it carries the value −1.  **Necessary**:
  `loglik_mono_executable_deviates_when_null_flag_mismatch`.
* `DistinctValues θ` — the values of a comparison's levels are distinct.  **Necessary for the
  equality** (`step_is_abstract_emstep_deviates_when_duplicate_value`: the look-up by value
  hands a duplicate the estimate of the first level, the abstract step the placeholder); *not*
  needed for `loglik_mono_executable`, because the likelihood only reads the first level of a
  value.
* `SameShape θ` — `θ.states` has the shape of `θ.comps` (otherwise `zipWith3Idx` truncates:
  `step_deviates_when_states_shape_differs`).
* `LevelFlagsOff θ` — no level-level `fix_m_probability`/`fix_u_probability`.  **Necessary, and
  a finding about the code**: `loglik_mono_executable_deviates_when_level_fix_flag`.  With a
  fixed level the free levels still receive `count / (window sum over ALL levels)`, i.e. the
  fixed level's share of the mass is removed from the others while the fixed level keeps its
  old value; from a normalised start one EM iteration then strictly lowers the log-likelihood.

For monotonicity in addition: positive counts, and `SubNormalisedM/U θ rows` (for every
comparison the current `m` (`u`) of the levels whose value occurs among the rows' non-null
`gamma_c` sum to ≤ 1) — necessary, `loglik_mono_executable_deviates_when_not_subnormalised`
(K8 on the executable model).  `rows` may be empty.

Not covered: term-frequency adjustments, `u = 0`, floating point; the E-step hypotheses were
not re-examined for necessity here (they are those of `C03B`).
-/
namespace SplinkVerif.C03MB
open SplinkVerif SplinkVerif.Score SplinkVerif.Lemmas SplinkVerif.Lemmas.EMBridge
open SplinkVerif.Lemmas.EMMBridge

/-! ## 1. The step -/

/-- With all level-level fix flags off, `EM.step` consists of `newLevel` applied to every level:
the null level is untouched, `m`/`u` fixed for the session stay, otherwise the level receives
the looked-up proportion or 1e-6. -/
theorem step_is_newLevel_levelwise (sess : EM.Session) (θ : EM.Params ℝ) (rows : List (EM.Row ℝ))
    (hshape : SameShape θ) (hflags : LevelFlagsOff θ) :
    (EM.step sess θ rows).comps = θ.comps.mapIdx fun ci c => c.map (newLevel sess θ rows ci) :=
  step_comps sess θ rows hshape hflags

/-- The sum `sum(match_probability * count) … group by gamma_c` (a `foldl` over a filtered
list) at the value of a non-null level that is the first carrying its value is the abstract
count `∑_{j : γ_j c = i} n_j · post_j`. -/
theorem mcount_is_abstract_count (θ : EM.Params ℝ) (rows : List (EM.Row ℝ))
    (c : Fin θ.comps.length) (i : Fin (absL θ c)) (hfirst : IsFirst θ c i)
    (hn : (levelAt θ c i).isNull = false) (hg : GuardsMatch θ rows) (hE : EStepBridged θ rows) :
    EM.mCount θ rows c.val (levelAt θ c i).cvv =
      EML.cnt (rowPatterns θ rows)
        (EML.wM (rowPatterns θ rows) (rowWeights rows) (absParams θ)) c i :=
  mCount_eq_cnt θ rows c i hfirst hn hg hE

/-- The window sum over the groups that survive `comparison_vector_value != -1` (a `foldl` over
the `eraseDups` list `observedValues`) is the abstract `∑_{j : γ_j c ≠ null} n_j · post_j`. -/
theorem denominator_is_abstract_window_sum (θ : EM.Params ℝ) (rows : List (EM.Row ℝ))
    (c : Fin θ.comps.length) (hnull : ∀ l ∈ θ.comps[c.val], (l.isNull = true ↔ l.cvv = -1))
    (hg : GuardsMatch θ rows) (hE : EStepBridged θ rows) :
    EM.denomM θ rows c.val =
      EML.den (rowPatterns θ rows)
        (EML.wM (rowPatterns θ rows) (rowWeights rows) (absParams θ)) c :=
  denomM_eq_den θ rows c hnull hg hE

/-- `sum(p * count) / sum(count)` is the abstract `lamNew`. -/
theorem lambda_is_abstract_lambda (θ : EM.Params ℝ) (rows : List (EM.Row ℝ))
    (hE : EStepBridged θ rows) :
    EM.lambdaNew θ rows = EML.lamNew (rowPatterns θ rows) (rowWeights rows) (absParams θ) :=
  lambdaNew_eq_lamNew θ rows hE

/-- A first position occurs in the abstract data iff its value is among `observedValues`. -/
theorem observed_is_abstract_observed (θ : EM.Params ℝ) (rows : List (EM.Row ℝ))
    (c : Fin θ.comps.length) (i : Fin (absL θ c)) (hfirst : IsFirst θ c i)
    (hnull : ∀ l ∈ θ.comps[c.val], (l.isNull = true ↔ l.cvv = -1)) (hg : GuardsMatch θ rows) :
    EML.Observed (rowPatterns θ rows) c i ↔
      (levelAt θ c i).cvv ∈ EM.observedValues θ rows c.val :=
  observed_iff θ rows c i hfirst hnull hg

/-- **M-step bridge (equality of abstract parameters).**  The canonical abstraction of the
parameters after `EM.step` is `EML.emStep` — session flags `fixM`, `fixU`, `fixLambda`,
placeholder 1e-6, data `J = Fin rows.length`, `γ_j = absPattern θ rows[j]`,
`n_j = rows[j].count` — of the canonical abstraction of the parameters before. -/
theorem step_is_abstract_emstep (sess : EM.Session) (θ : EM.Params ℝ) (rows : List (EM.Row ℝ))
    (hl0 : 0 < θ.prior) (hl1 : θ.prior < 1)
    (hnotf : ∀ c ∈ θ.comps, hasTf c = false)
    (hpos : ∀ c ∈ θ.comps, ∀ l ∈ c, l.isNull = false → 0 < l.m ∧ 0 < l.u)
    (hnd : ∀ c ∈ θ.comps, (c.map (·.cvv)).Nodup)
    (hnull : ∀ c ∈ θ.comps, ∀ l ∈ c, (l.isNull = true ↔ l.cvv = -1))
    (hshape : θ.states.map List.length = θ.comps.map List.length)
    (hflags : ∀ sts ∈ θ.states, ∀ st ∈ sts, st.fixM = false ∧ st.fixU = false)
    (hg : ∀ r ∈ rows, r.pair.guards.length = θ.comps.length)
    (htot : ∀ r ∈ rows, ∀ c, c < θ.comps.length → (EM.gammaAt θ r c).isSome = true) :
    absParamsC (EM.step sess θ rows) =
      castParams (step_comps_length sess θ rows hshape hflags)
        (step_absL sess θ rows hshape hflags)
        (EML.emStep sess.fixM sess.fixU sess.fixLambda (1 / 1000000) (rowPatterns θ rows)
          (rowWeights rows) (absParamsC θ)) :=
  step_bridge_eq sess θ rows hl0 hl1 hnotf hpos hnd hnull hshape hflags hg htot

/-- **M-step bridge on the position-indexed abstraction `absParams` of `C03Bridge`.**  After
`EM.step`: the prior is the abstract `lam`; at every position holding a non-null level, `m` and
`u` are those of `EML.emStep … (absParams θ)`; a position holding the null level keeps what was
stored there. -/
theorem step_is_abstract_emstep_positions (sess : EM.Session) (θ : EM.Params ℝ)
    (rows : List (EM.Row ℝ))
    (hl0 : 0 < θ.prior) (hl1 : θ.prior < 1)
    (hnotf : ∀ c ∈ θ.comps, hasTf c = false)
    (hpos : ∀ c ∈ θ.comps, ∀ l ∈ c, l.isNull = false → 0 < l.m ∧ 0 < l.u)
    (hnd : ∀ c ∈ θ.comps, (c.map (·.cvv)).Nodup)
    (hnull : ∀ c ∈ θ.comps, ∀ l ∈ c, (l.isNull = true ↔ l.cvv = -1))
    (hshape : θ.states.map List.length = θ.comps.map List.length)
    (hflags : ∀ sts ∈ θ.states, ∀ st ∈ sts, st.fixM = false ∧ st.fixU = false)
    (hg : ∀ r ∈ rows, r.pair.guards.length = θ.comps.length)
    (htot : ∀ r ∈ rows, ∀ c, c < θ.comps.length → (EM.gammaAt θ r c).isSome = true) :
    (absParams (EM.step sess θ rows)).lam =
      (EML.emStep sess.fixM sess.fixU sess.fixLambda (1 / 1000000) (rowPatterns θ rows)
        (rowWeights rows) (absParams θ)).lam ∧
    ∀ (c : Fin (EM.step sess θ rows).comps.length) (i : Fin (absL (EM.step sess θ rows) c)),
      ((levelAt (EM.step sess θ rows) c i).isNull = false →
        (absParams (EM.step sess θ rows)).m c i =
          (castParams (step_comps_length sess θ rows hshape hflags)
            (step_absL sess θ rows hshape hflags)
            (EML.emStep sess.fixM sess.fixU sess.fixLambda (1 / 1000000) (rowPatterns θ rows)
              (rowWeights rows) (absParams θ))).m c i ∧
        (absParams (EM.step sess θ rows)).u c i =
          (castParams (step_comps_length sess θ rows hshape hflags)
            (step_absL sess θ rows hshape hflags)
            (EML.emStep sess.fixM sess.fixU sess.fixLambda (1 / 1000000) (rowPatterns θ rows)
              (rowWeights rows) (absParams θ))).u c i) ∧
      ((levelAt (EM.step sess θ rows) c i).isNull = true →
        (absParams (EM.step sess θ rows)).m c i =
          (castParams (step_comps_length sess θ rows hshape hflags)
            (step_absL sess θ rows hshape hflags) (absParams θ)).m c i ∧
        (absParams (EM.step sess θ rows)).u c i =
          (castParams (step_comps_length sess θ rows hshape hflags)
            (step_absL sess θ rows hshape hflags) (absParams θ)).u c i) :=
  step_bridge_positions sess θ rows hl0 hl1 hnotf hpos hnd hnull hshape hflags hg htot

/-! ## 2. The log-likelihood -/

/-- The log-likelihood of executable parameters, defined from the executable model alone, is
`EML.logLik` of their abstraction. -/
theorem executable_loglik_is_abstract_loglik (θ : EM.Params ℝ) (rows : List (EM.Row ℝ))
    (hg : ∀ r ∈ rows, r.pair.guards.length = θ.comps.length) :
    execLogLik θ rows = EML.logLik (rowPatterns θ rows) (rowWeights rows) (absParams θ) :=
  execLogLik_abs θ rows hg

/-- The log-likelihood of the parameters after `EM.step` is `EML.logLik` of `EML.emStep` of the
abstraction of the parameters before (no `DistinctValues` needed). -/
theorem executable_loglik_after_step (sess : EM.Session) (θ : EM.Params ℝ)
    (rows : List (EM.Row ℝ))
    (hl0 : 0 < θ.prior) (hl1 : θ.prior < 1)
    (hnotf : ∀ c ∈ θ.comps, hasTf c = false)
    (hpos : ∀ c ∈ θ.comps, ∀ l ∈ c, l.isNull = false → 0 < l.m ∧ 0 < l.u)
    (hnull : ∀ c ∈ θ.comps, ∀ l ∈ c, (l.isNull = true ↔ l.cvv = -1))
    (hshape : θ.states.map List.length = θ.comps.map List.length)
    (hflags : ∀ sts ∈ θ.states, ∀ st ∈ sts, st.fixM = false ∧ st.fixU = false)
    (hg : ∀ r ∈ rows, r.pair.guards.length = θ.comps.length)
    (htot : ∀ r ∈ rows, ∀ c, c < θ.comps.length → (EM.gammaAt θ r c).isSome = true) :
    execLogLik (EM.step sess θ rows) rows =
      EML.logLik (rowPatterns θ rows) (rowWeights rows)
        (EML.emStep sess.fixM sess.fixU sess.fixLambda (1 / 1000000) (rowPatterns θ rows)
          (rowWeights rows) (absParams θ)) :=
  execLogLik_step sess θ rows hshape hflags hnull hg
    (eStepBridged_of θ rows hl0 hl1 hnotf hpos hg htot)

/-- **One iteration of the executable EM never lowers the log-likelihood of the rows**, for all
eight combinations of the session-level fix flags. -/
theorem loglik_mono_executable (sess : EM.Session) (θ : EM.Params ℝ) (rows : List (EM.Row ℝ))
    (hl0 : 0 < θ.prior) (hl1 : θ.prior < 1)
    (hnotf : ∀ c ∈ θ.comps, hasTf c = false)
    (hpos : ∀ c ∈ θ.comps, ∀ l ∈ c, l.isNull = false → 0 < l.m ∧ 0 < l.u)
    (hnull : ∀ c ∈ θ.comps, ∀ l ∈ c, (l.isNull = true ↔ l.cvv = -1))
    (hshape : θ.states.map List.length = θ.comps.map List.length)
    (hflags : ∀ sts ∈ θ.states, ∀ st ∈ sts, st.fixM = false ∧ st.fixU = false)
    (hg : ∀ r ∈ rows, r.pair.guards.length = θ.comps.length)
    (htot : ∀ r ∈ rows, ∀ c, c < θ.comps.length → (EM.gammaAt θ r c).isSome = true)
    (hcount : ∀ r ∈ rows, 0 < r.count)
    (hsubm : ∀ c (hc : c < θ.comps.length),
      (((θ.comps[c]).filter fun l => (EM.observedValues θ rows c).contains l.cvv).map
        (·.m)).sum ≤ 1)
    (hsubu : ∀ c (hc : c < θ.comps.length),
      (((θ.comps[c]).filter fun l => (EM.observedValues θ rows c).contains l.cvv).map
        (·.u)).sum ≤ 1) :
    execLogLik θ rows ≤ execLogLik (EM.step sess θ rows) rows :=
  execLogLik_mono sess θ rows hl0 hl1 hnotf hpos hnull hshape hflags hg htot hcount hsubm hsubu

/-! ## 3. Every iteration of a run

`StepOK θ rows` (`Lemmas/EMMBridgeRun.lean`) bundles the hypotheses of `step_is_abstract_emstep`
and `loglik_mono_executable` — `0 < θ.prior < 1`, `NoTf θ`, `PositiveMU θ`, `DistinctValues θ`,
`NullIsMinusOne θ`, `SameShape θ`, `LevelFlagsOff θ`, `GuardsMatch θ rows`,
`EveryComparisonAssignsLevel θ rows`, positive counts, `SubNormalisedM/U θ rows` — and
`rows ≠ []` (without rows the new prior is `0/0 = 0`). -/

/-- Every hypothesis holds again for the parameters after `EM.step`, so both theorems apply
to every iteration. -/
theorem hypotheses_preserved_by_step (sess : EM.Session) (θ : EM.Params ℝ)
    (rows : List (EM.Row ℝ)) (h : StepOK θ rows) : StepOK (EM.step sess θ rows) rows :=
  stepOK_step sess θ rows h

/-- **Along the history returned by `EM.run`** — any convergence threshold, any bound on the
number of iterations — every set of parameters satisfies the hypotheses, and the
log-likelihood of the rows never decreases from one entry to the next. -/
theorem run_loglik_monotone (sess : EM.Session) (rows : List (EM.Row ℝ)) (conv : ℝ) (n : ℕ)
    (θ : EM.Params ℝ) (h : StepOK θ rows) :
    (∀ θ' ∈ EM.run sess rows conv n θ, StepOK θ' rows) ∧
    List.IsChain (fun a b => execLogLik a rows ≤ execLogLik b rows)
      (EM.run sess rows conv n θ) :=
  run_chain sess rows conv n θ h

/-- … hence the log-likelihood of every later entry is at least that of every earlier one. -/
theorem run_loglik_pairwise (sess : EM.Session) (rows : List (EM.Row ℝ)) (conv : ℝ) (n : ℕ)
    (θ : EM.Params ℝ) (h : StepOK θ rows) :
    List.Pairwise (fun a b => execLogLik a rows ≤ execLogLik b rows)
      (EM.run sess rows conv n θ) :=
  run_pairwise sess rows conv n θ h

/-! ## 4. Non-vacuity

`Ex.θ`: prior 1/10; two comparisons, each `[null (−1), exact (1), else (0)]` with
`m = (9/10, 1/10)`, `u = (1/10, 9/10)` resp. `m = (8/10, 2/10)`, `u = (2/10, 8/10)`;
`Ex.rows`: the patterns `(1,0)`×3, `(null,1)`×1, `(0,0)`×2, `(1,1)`×1.  The hypotheses are
proved in `Lemmas/EMMBridgeWitness.lean` by `simp`/`norm_num`. -/

example (sess : EM.Session) :
    absParamsC (EM.step sess Ex.θ Ex.rows) =
      castParams (step_comps_length sess Ex.θ Ex.rows Ex.shape Ex.flags)
        (step_absL sess Ex.θ Ex.rows Ex.shape Ex.flags)
        (EML.emStep sess.fixM sess.fixU sess.fixLambda (1 / 1000000) (rowPatterns Ex.θ Ex.rows)
          (rowWeights Ex.rows) (absParamsC Ex.θ)) :=
  step_is_abstract_emstep sess Ex.θ Ex.rows Ex.prior_pos Ex.prior_lt Ex.noTf Ex.positive
    Ex.distinct Ex.nullMinusOne Ex.shape Ex.flags Ex.guards Ex.total

example (sess : EM.Session) :
    execLogLik Ex.θ Ex.rows ≤ execLogLik (EM.step sess Ex.θ Ex.rows) Ex.rows :=
  loglik_mono_executable sess Ex.θ Ex.rows Ex.prior_pos Ex.prior_lt Ex.noTf Ex.positive
    Ex.nullMinusOne Ex.shape Ex.flags Ex.guards Ex.total Ex.counts Ex.subM Ex.subU

example : StepOK Ex.θ Ex.rows := Ex.stepOK

/-! ## 5. Where the executable model deviates -/

/-- **Level-level fix flags (finding).**  There are a session, parameters and rows satisfying
every hypothesis of `loglik_mono_executable` except that one level has `fix_m_probability`
set, for which one `EM.step` strictly lowers the log-likelihood.  (One comparison, levels `A`
with `m` fixed at 1/10 and `B` at 9/10, `u` and the prior fixed for the session, one row on
each level: `B` receives its share 1/2 of the window sum, which includes `A`'s rows, while `A`
keeps 1/10.) -/
theorem loglik_mono_executable_deviates_when_level_fix_flag :
    ∃ (sess : EM.Session) (θ : EM.Params ℝ) (rows : List (EM.Row ℝ)),
      0 < θ.prior ∧ θ.prior < 1 ∧ NoTf θ ∧ PositiveMU θ ∧ DistinctValues θ ∧ NullIsMinusOne θ ∧
      SameShape θ ∧ GuardsMatch θ rows ∧ EveryComparisonAssignsLevel θ rows ∧
      (∀ r ∈ rows, 0 < r.count) ∧ SubNormalisedM θ rows ∧ SubNormalisedU θ rows ∧
      ¬ LevelFlagsOff θ ∧
      execLogLik (EM.step sess θ rows) rows < execLogLik θ rows :=
  witness_level_fix_flag

/-- **Duplicate values.**  With two levels of a comparison carrying the same value (all other
hypotheses of `step_is_abstract_emstep` in place) the equality fails: the look-up by value
gives the second level the estimate of the first, the abstract step gives it the placeholder
(no pattern points to it). -/
theorem step_is_abstract_emstep_deviates_when_duplicate_value :
    ∃ (sess : EM.Session) (θ : EM.Params ℝ) (rows : List (EM.Row ℝ))
      (hshape : SameShape θ) (hflags : LevelFlagsOff θ),
      0 < θ.prior ∧ θ.prior < 1 ∧ NoTf θ ∧ PositiveMU θ ∧ NullIsMinusOne θ ∧
      GuardsMatch θ rows ∧ EveryComparisonAssignsLevel θ rows ∧
      ¬ DistinctValues θ ∧
      absParamsC (EM.step sess θ rows) ≠
        castParams (step_comps_length sess θ rows hshape hflags)
          (step_absL sess θ rows hshape hflags)
          (EML.emStep sess.fixM sess.fixU sess.fixLambda (1 / 1000000) (rowPatterns θ rows)
            (rowWeights rows) (absParamsC θ)) :=
  witness_duplicate_value

/-- **A non-null level carrying −1.**  All other hypotheses of `loglik_mono_executable` in
place, one `EM.step` strictly lowers the log-likelihood: the SQL drops the level's rows with
the null rows (`comparison_vector_value != -1`) and the level receives the placeholder 1e-6. -/
theorem loglik_mono_executable_deviates_when_null_flag_mismatch :
    ∃ (sess : EM.Session) (θ : EM.Params ℝ) (rows : List (EM.Row ℝ)),
      0 < θ.prior ∧ θ.prior < 1 ∧ NoTf θ ∧ PositiveMU θ ∧ DistinctValues θ ∧
      SameShape θ ∧ LevelFlagsOff θ ∧ GuardsMatch θ rows ∧ EveryComparisonAssignsLevel θ rows ∧
      (∀ r ∈ rows, 0 < r.count) ∧ SubNormalisedM θ rows ∧ SubNormalisedU θ rows ∧
      ¬ NullIsMinusOne θ ∧
      execLogLik (EM.step sess θ rows) rows < execLogLik θ rows :=
  witness_null_flag_mismatch

/-- **Sub-normalisation (K8 on the executable model).**  All other hypotheses of
`loglik_mono_executable` in place, a start whose observed level has `m = u = 2` makes one
`EM.step` strictly lower the log-likelihood (`log 2` → `log 1`). -/
theorem loglik_mono_executable_deviates_when_not_subnormalised :
    ∃ (sess : EM.Session) (θ : EM.Params ℝ) (rows : List (EM.Row ℝ)),
      0 < θ.prior ∧ θ.prior < 1 ∧ NoTf θ ∧ PositiveMU θ ∧ DistinctValues θ ∧ NullIsMinusOne θ ∧
      SameShape θ ∧ LevelFlagsOff θ ∧ GuardsMatch θ rows ∧ EveryComparisonAssignsLevel θ rows ∧
      (∀ r ∈ rows, 0 < r.count) ∧
      ¬ SubNormalisedM θ rows ∧
      execLogLik (EM.step sess θ rows) rows < execLogLik θ rows :=
  witness_not_subnormalised

/-- **The null level's slot.**  Under every hypothesis of `step_is_abstract_emstep_positions`
the position-indexed abstraction `absParams` of the stepped parameters still differs from
`EML.emStep … (absParams θ)` — in the slot of a null level, which `EM.step` leaves alone and
the abstract step overwrites with the placeholder.  The slot is never read (`absParamsC`
canonicalises it), so this deviation is harmless. -/
theorem step_is_abstract_emstep_deviates_when_null_slot_not_placeholder :
    ∃ (sess : EM.Session) (θ : EM.Params ℝ) (rows : List (EM.Row ℝ))
      (hshape : SameShape θ) (hflags : LevelFlagsOff θ),
      0 < θ.prior ∧ θ.prior < 1 ∧ NoTf θ ∧ PositiveMU θ ∧ DistinctValues θ ∧ NullIsMinusOne θ ∧
      GuardsMatch θ rows ∧ EveryComparisonAssignsLevel θ rows ∧
      ∃ (c : Fin (EM.step sess θ rows).comps.length) (i : Fin (absL (EM.step sess θ rows) c)),
        (absParams (EM.step sess θ rows)).m c i ≠
          (castParams (step_comps_length sess θ rows hshape hflags)
            (step_absL sess θ rows hshape hflags) (absStep sess θ rows)).m c i :=
  witness_null_slot

/-- **Shape of `states`.**  When `θ.states` does not have the shape of `θ.comps` the step does
not even keep the number of comparisons (`zipWith3Idx` truncates). -/
theorem step_deviates_when_states_shape_differs :
    ∃ (θ : EM.Params ℝ), LevelFlagsOff θ ∧ ¬ SameShape θ ∧
      ∀ (sess : EM.Session) (rows : List (EM.Row ℝ)),
        (EM.step sess θ rows).comps.length ≠ θ.comps.length :=
  witness_shape

end SplinkVerif.C03MB
